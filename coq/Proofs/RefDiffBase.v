(* Basis for the refinement of the reference diff (Spec/RefDiff.v) by the comparing walker:
   top-level mirrors of the closures of ref_diff_fuel, equivalence of accumulators as
   sets of paths up to Path.Equals, folds, fuel independence of node enumeration, and
   the entries of group_items. *)
From Coq Require Import List ZArith String Bool Arith Lia.
From SMD Require Import Model.Value Model.Order Model.PathElem Model.PathSet Model.Schema
  Model.Walk Model.Validate Model.Merge Model.Compare Spec.PathsAsSets Spec.RefValid
  Spec.Resolve Spec.RefDiff
  Proofs.OrderLaws Proofs.KeyLaws Proofs.PesLaws Proofs.PathSetLaws Proofs.ValidateLaws
  Proofs.SchemaOk Proofs.FieldSetBase Proofs.FieldSetPaths
  Proofs.CompareBase Proofs.CompareWf Proofs.CompareSwap Proofs.CompareTotal.
Import ListNotations.
Open Scope bool_scope.

(* ------------------------------------------------------------------ *)
(* mirrors of the closures of ref_diff_fuel *)

Definition rd_beneath (s : schema) (tr : typeref) (p : path) (added : bool) (v : value) : rdiff :=
  let ns := map fst (nodes_fuel (S (vdepth v)) s tr v p) in
  if added then mkRD [] [] ns else mkRD ns [] [].

Section RefBody.
  Variable rrec : typeref -> path -> value -> value -> rdiff.
  Variable s : schema.
  Variable p : path.

  Definition rd_map_G (t : mapT) (lm rm : list (string * value)) (k : string) : rdiff :=
    let q := p ++ [PEField k] in
    let ct := field_type t k in
    match assoc_get k lm, assoc_get k rm with
    | Some x, Some y => rrec ct q x y
    | Some x, None => one_sided false s ct x q
    | None, Some y => one_sided true s ct y q
    | None, None => rd_empty
    end.

  Definition rd_maps (t : mapT) (lm rm : list (string * value)) : rdiff :=
    fold_left (fun acc k => rd_app acc (rd_map_G t lm rm k))
      (keys_union (map fst lm) (map fst rm)) rd_empty.

  Definition rd_list_G (t : listT) (gl gr : list (pe * list value)) (e : pe) : rdiff :=
    let q := p ++ [e] in
    let et := list_elem t in
    match lookup_group e gl, lookup_group e gr with
    | Some [x], Some [y] => rrec et q x y
    | Some [x], None => one_sided false s et x q
    | None, Some [y] => one_sided true s et y q
    | Some ((_ :: _ :: _) as xs), Some ((_ :: _ :: _) as ys) =>
        if values_eqb_dup xs ys then rd_empty else mkRD [] [q] []
    | Some (_ :: _ :: _), None => mkRD [q] [] []
    | None, Some (_ :: _ :: _) => mkRD [] [] [q]
    | Some (_ :: _ :: _), Some [y] =>
        rd_app (mkRD [q] [] []) (one_sided true s et y q)
    | Some [x], Some (_ :: _ :: _) =>
        rd_app (one_sided false s et x q) (mkRD [] [] [q])
    | _, _ => rd_empty
    end.

  Definition rd_all (gl gr : list (pe * list value)) : list pe :=
    map fst gl ++ map fst (filter (fun ex => match lookup_group (fst ex) gl with Some _ => false | None => true end) gr).

  Definition rd_lists (t : listT) (ll rl : list value) : rdiff :=
    match group_items s t ll [], group_items s t rl [] with
    | Some gl, Some gr =>
        fold_left (fun acc e => rd_app acc (rd_list_G t gl gr e)) (rd_all gl gr) rd_empty
    | _, _ => rd_empty
    end.

  Definition ref_body (tr : typeref) (l r : value) : rdiff :=
    match kind_of s tr l, kind_of s tr r with
    | KMap t lm, KMap _ rm => rd_maps t lm rm
    | KList t ll, KList _ rl => rd_lists t ll rl
    | KLeaf, KLeaf => if veqb r l then rd_empty else mkRD [] [p] []
    | KLeaf, KMap t rm =>
        match l with VNull | VMap [] => rd_maps t [] rm | _ => rd_app (mkRD [] [p] []) (rd_beneath s tr p true r) end
    | KMap t lm, KLeaf =>
        match r with VNull | VMap [] => rd_maps t lm [] | _ => rd_app (mkRD [] [p] []) (rd_beneath s tr p false l) end
    | KLeaf, KList t rl =>
        match l with VNull | VList [] => rd_lists t [] rl | _ => rd_app (mkRD [] [p] []) (rd_beneath s tr p true r) end
    | KList t ll, KLeaf =>
        match r with VNull | VList [] => rd_lists t ll [] | _ => rd_app (mkRD [] [p] []) (rd_beneath s tr p false l) end
    | KMap _ _, KList _ _ | KList _ _, KMap _ _ =>
        rd_app (mkRD [] [p] []) (rd_app (rd_beneath s tr p false l) (rd_beneath s tr p true r))
    | _, _ => rd_empty
    end.
End RefBody.

Lemma ref_diff_fuel_S : forall f s tr p l r,
  ref_diff_fuel (S f) s tr p l r = ref_body (ref_diff_fuel f s) s p tr l r.
Proof. reflexivity. Qed.

(* ------------------------------------------------------------------ *)
(* reference diffs as accumulators; equality of accumulators as sets of paths *)

Definition rd2c (d : rdiff) : cmpacc := mkCmp (rd_removed d) (rd_modified d) (rd_added d).

Lemma rd2c_app : forall a b, rd2c (rd_app a b) = cmp_app (rd2c a) (rd2c b).
Proof. reflexivity. Qed.

Lemma rd2c_empty : rd2c rd_empty = cmp_empty.
Proof. reflexivity. Qed.

Lemma rd_fold : forall (X : Type) (G : X -> rdiff) xs acc,
  rd2c (fold_left (fun acc x => rd_app acc (G x)) xs acc) =
  cmp_app (rd2c acc) (cmp_concat (map (fun x => rd2c (G x)) xs)).
Proof.
  intros X G xs. induction xs as [|x xs IH]; intros acc; simpl.
  - rewrite cmp_app_empty_r. reflexivity.
  - rewrite IH, rd2c_app, cmp_app_assoc. reflexivity.
Qed.

Definition ceq (c c' : cmpacc) : Prop :=
  forall q, wf_path q = true ->
    pmem q (c_removed c) = pmem q (c_removed c') /\
    pmem q (c_modified c) = pmem q (c_modified c') /\
    pmem q (c_added c) = pmem q (c_added c').

Lemma ceq_refl : forall c, ceq c c.
Proof. intros c q Hq. auto. Qed.

Lemma ceq_sym : forall a b, ceq a b -> ceq b a.
Proof. intros a b H q Hq. destruct (H q Hq) as (H1 & H2 & H3). auto. Qed.

Lemma ceq_trans : forall a b c, ceq a b -> ceq b c -> ceq a c.
Proof.
  intros a b c H1 H2 q Hq. destruct (H1 q Hq) as (A1 & A2 & A3). destruct (H2 q Hq) as (B1 & B2 & B3).
  repeat split; congruence.
Qed.

Lemma ceq_app : forall a a' b b', ceq a a' -> ceq b b' -> ceq (cmp_app a b) (cmp_app a' b').
Proof.
  intros a a' b b' Ha Hb q Hq. destruct (Ha q Hq) as (A1 & A2 & A3). destruct (Hb q Hq) as (B1 & B2 & B3).
  unfold cmp_app. simpl. rewrite !CompareBase.pmem_app. rewrite A1, A2, A3, B1, B2, B3. auto.
Qed.

Lemma ceq_app_comm : forall a b, ceq (cmp_app a b) (cmp_app b a).
Proof.
  intros a b q Hq. unfold cmp_app. simpl. rewrite !CompareBase.pmem_app.
  repeat split; apply orb_comm.
Qed.

Lemma ceq_app_idem : forall a, ceq (cmp_app a a) a.
Proof.
  intros a q Hq. unfold cmp_app. simpl. rewrite !CompareBase.pmem_app.
  repeat split; apply orb_diag.
Qed.

Lemma ceq_app_empty_r : forall a b, ceq a b -> ceq (cmp_app a cmp_empty) b.
Proof. intros a b H. rewrite cmp_app_empty_r. exact H. Qed.

Section CeqSingles.
  Variables p p' : path.
  Hypothesis Hp : wf_path p = true.
  Hypothesis Hp' : wf_path p' = true.
  Hypothesis Hpp : patheqb p p' = true.

  Lemma pmem_single' : forall q, wf_path q = true -> pmem q [p] = pmem q [p'].
  Proof. intros q Hq. symmetry. apply pmem_single; auto. Qed.

  Lemma ceq_rem : ceq (cmp_rem p) (cmp_rem p').
  Proof. intros q Hq. simpl. repeat split; auto. apply pmem_single'; auto. Qed.
  Lemma ceq_add : ceq (cmp_add p) (cmp_add p').
  Proof. intros q Hq. simpl. repeat split; auto. apply pmem_single'; auto. Qed.
  Lemma ceq_mod : ceq (cmp_mod p) (cmp_mod p').
  Proof. intros q Hq. simpl. repeat split; auto. apply pmem_single'; auto. Qed.
End CeqSingles.

Lemma ceq_concat : forall (A B : Type) (Rel : A -> B -> Prop) (F : A -> cmpacc) (F' : B -> cmpacc) la lb,
  (forall a, In a la -> exists b, In b lb /\ Rel a b) ->
  (forall b, In b lb -> exists a, In a la /\ Rel a b) ->
  (forall a b, In a la -> In b lb -> Rel a b -> ceq (F a) (F' b)) ->
  ceq (cmp_concat (map F la)) (cmp_concat (map F' lb)).
Proof.
  intros A B Rel F F' la lb H1 H2 H3 q Hq.
  rewrite !pmem_concat_removed, !pmem_concat_added, !pmem_concat_modified.
  rewrite !CompareBase.existsb_map.
  repeat split; apply (existsb_rel A B Rel); auto; intros a b Ha Hb Hr;
    destruct (H3 a b Ha Hb Hr q Hq) as (C1 & C2 & C3); auto.
Qed.

Lemma ceq_concat_same : forall (A : Type) (F F' : A -> cmpacc) la,
  (forall a, In a la -> ceq (F a) (F' a)) ->
  ceq (cmp_concat (map F la)) (cmp_concat (map F' la)).
Proof.
  intros A F F' la H. apply (ceq_concat A A (fun a b => a = b)).
  - intros a Ha. exists a. auto.
  - intros a Ha. exists a. auto.
  - intros a b Ha Hb Hab. subst b. apply H. exact Ha.
Qed.

(* ------------------------------------------------------------------ *)
(* values of different kinds are never equal *)

Definition vclass (v : value) : nat :=
  match v with VNull => 0 | VList _ => 1 | VMap _ => 2 | _ => 3 end.

Lemma veqb_class : forall a b, vclass a <> vclass b -> veqb a b = false.
Proof. intros a b H. destruct a, b; try reflexivity; simpl in H; congruence. Qed.

Lemma values_eqb_dup_eq : forall a b, values_eqb_dup a b = values_eqb a b.
Proof. induction a as [|x a IH]; intros [|y b]; simpl; auto; rewrite IH; reflexivity. Qed.

(* ------------------------------------------------------------------ *)
(* depth of members *)

Lemma vdepth_map_In : forall (m : list (string * value)) kv, In kv m -> vdepth (snd kv) < vdepth (VMap m).
Proof.
  intros m kv H. simpl. apply Nat.lt_succ_r. induction m as [|[k' y] m IH]; [destruct H|].
  simpl. destruct H as [H|H]; [subst; apply Nat.le_max_l|].
  etransitivity; [apply IH; exact H|apply Nat.le_max_r].
Qed.

(* ------------------------------------------------------------------ *)
(* the entries of group_items *)

Fixpoint reps_nodup (g : list (pe * list value)) : Prop :=
  match g with
  | [] => True
  | ex :: g' => (forall ex', In ex' g' -> peeqb (fst ex) (fst ex') = false) /\ reps_nodup g'
  end.

Lemma g_ins_fst_In : forall e x acc ex, In ex (g_ins e x acc) ->
  (exists ex0, In ex0 acc /\ fst ex0 = fst ex) \/ fst ex = e.
Proof.
  intros e x acc ex. induction acc as [|[r xs] g IH]; simpl; intros Hin.
  - destruct Hin as [Hin|[]]. subst ex. right. reflexivity.
  - destruct (peeqb r e).
    + destruct Hin as [Hin|Hin].
      * subst ex. left. exists (r, xs). split; auto.
      * left. exists ex. split; auto.
    + destruct Hin as [Hin|Hin].
      * subst ex. left. exists (r, xs). split; auto.
      * destruct (IH Hin) as [(ex0 & H0 & H1)|H1]; [left; exists ex0; auto|right; exact H1].
Qed.

Lemma g_ins_snd_In : forall e x acc ex y, In ex (g_ins e x acc) -> In y (snd ex) ->
  y = x \/ exists ex0, In ex0 acc /\ In y (snd ex0).
Proof.
  intros e x acc ex y. induction acc as [|[r xs] g IH]; simpl; intros Hin Hy.
  - destruct Hin as [Hin|[]]. subst ex. simpl in Hy. destruct Hy as [Hy|[]]. left. auto.
  - destruct (peeqb r e).
    + destruct Hin as [Hin|Hin].
      * subst ex. simpl in Hy. apply in_app_or in Hy. destruct Hy as [Hy|[Hy|[]]]; [|left; auto].
        right. exists (r, xs). split; auto.
      * right. exists ex. split; auto.
    + destruct Hin as [Hin|Hin].
      * subst ex. right. exists (r, xs). split; auto.
      * destruct (IH Hin Hy) as [H1|(ex0 & H0 & H1)]; [left; exact H1|right; exists ex0; auto].
Qed.

Lemma group_items_snd_In : forall s t l acc g, group_items s t l acc = Some g ->
  forall ex y, In ex g -> In y (snd ex) -> In y l \/ exists ex0, In ex0 acc /\ In y (snd ex0).
Proof.
  intros s t l. induction l as [|x l IH]; intros acc g Hg ex y Hin Hy.
  - simpl in Hg. inversion Hg; subst. right. exists ex. auto.
  - rewrite group_items_cons in Hg. destruct (list_item_to_pe s t x) as [e|]; [|discriminate].
    destruct (IH _ _ Hg ex y Hin Hy) as [H|(ex0 & H0 & H1)].
    + left. right. exact H.
    + destruct (g_ins_snd_In e x acc ex0 y H0 H1) as [H2|H2].
      * left. left. auto.
      * right. exact H2.
Qed.

Lemma group_items_nil_In : forall s t l g, group_items s t l [] = Some g ->
  forall ex y, In ex g -> In y (snd ex) -> In y l.
Proof.
  intros s t l g Hg ex y Hin Hy.
  destruct (group_items_snd_In s t l [] g Hg ex y Hin Hy) as [H|(ex0 & [] & _)]. exact H.
Qed.

Lemma g_ins_nodup : forall e x acc, reps_nodup acc -> reps_nodup (g_ins e x acc).
Proof.
  intros e x acc. induction acc as [|[r xs] g IH]; simpl.
  - intros _. split; [intros ex' []|exact I].
  - intros [H1 H2]. destruct (peeqb r e) eqn:E; simpl.
    + split; auto.
    + split; [|apply IH; exact H2]. intros ex' Hin.
      destruct (g_ins_fst_In e x g ex' Hin) as [(ex0 & H0 & Heq)|Heq].
      * rewrite <- Heq. apply H1. exact H0.
      * rewrite Heq. exact E.
Qed.

Lemma group_items_nodup : forall s t l acc g, reps_nodup acc -> group_items s t l acc = Some g ->
  reps_nodup g.
Proof.
  intros s t l. induction l as [|x l IH]; intros acc g Hacc Hg.
  - simpl in Hg. inversion Hg; subst. exact Hacc.
  - rewrite group_items_cons in Hg. destruct (list_item_to_pe s t x) as [e|]; [|discriminate].
    eapply IH; [|exact Hg]. apply g_ins_nodup. exact Hacc.
Qed.

Lemma lookup_own : forall g ex, reps_wf g -> reps_nodup g -> In ex g ->
  lookup_group (fst ex) g = Some (snd ex).
Proof.
  induction g as [|[r xs] g IH]; intros ex Hwf Hnd Hin; [destruct Hin|].
  inversion Hwf as [|? ? Hr Hg]; subst. simpl in Hr. destruct Hnd as [H1 H2].
  rewrite lookup_group_cons. destruct Hin as [Hin|Hin].
  - subst ex. simpl. rewrite (peeqb_refl r Hr). reflexivity.
  - pose proof (H1 ex Hin) as H1'. simpl in H1'. rewrite H1'. apply IH; auto.
Qed.

Lemma group_entries : forall s t l g, items_wf s t l -> group_items s t l [] = Some g ->
  forall ex, In ex g ->
    wf_pe (fst ex) = true /\ snd ex = occ s t (fst ex) l /\ snd ex <> [].
Proof.
  intros s t l g Hiw Hg ex Hin.
  destruct (group_items_some s t l g Hiw Hg) as (_ & Hgw & Hlk).
  pose proof (group_items_nodup s t l [] g I Hg) as Hnd.
  assert (Hwe : wf_pe (fst ex) = true).
  { unfold reps_wf in Hgw. rewrite Forall_forall in Hgw. apply Hgw. exact Hin. }
  pose proof (lookup_own g ex Hgw Hnd Hin) as Hown. rewrite (Hlk _ Hwe) in Hown.
  split; [exact Hwe|].
  destruct (occ s t (fst ex) l) as [|y ys]; [discriminate|].
  inversion Hown as [Heq]. split; [reflexivity|discriminate].
Qed.

Lemma lookup_group_In : forall e g xs, lookup_group e g = Some xs ->
  exists ex, In ex g /\ peeqb (fst ex) e = true /\ snd ex = xs.
Proof.
  intros e g xs H. unfold lookup_group in H.
  destruct (find (fun ex => peeqb (fst ex) e) g) as [[r ys]|] eqn:Ef; [|discriminate].
  inversion H; subst. apply find_some in Ef. destruct Ef as [Hin Hp]. exists (r, xs). auto.
Qed.

(* grp (CompareBase) and occ (FieldSetBase) select the same members *)
Lemma grp_occ : forall s t x l, wf_pe x = true -> items_wf s t l -> grp s t x l = occ s t x l.
Proof.
  intros s t x l Hx Hiw. unfold grp, occ. apply filter_ext_in. intros c Hc.
  unfold item_is, pe_matches. destruct (list_item_to_pe s t c) as [e|] eqn:Ee; [|reflexivity].
  apply peeqb_sym; auto. apply (Hiw c e Hc Ee).
Qed.

(* ------------------------------------------------------------------ *)
(* node enumeration does not depend on the fuel once it exceeds the depth *)

Lemma flat_map_ext_in' : forall (A B : Type) (f g : A -> list B) l,
  (forall a, In a l -> f a = g a) -> flat_map f l = flat_map g l.
Proof.
  intros A B f g l H. induction l as [|a l IH]; simpl; [reflexivity|].
  rewrite (H a (or_introl eq_refl)), IH; [reflexivity|]. intros b Hb. apply H. right. exact Hb.
Qed.

Lemma nodes_fuel_indep : forall f1 f2 s tr v p, vdepth v < f1 -> vdepth v < f2 ->
  nodes_fuel f1 s tr v p = nodes_fuel f2 s tr v p.
Proof.
  induction f1 as [|f1 IH]; intros f2 s tr v p H1 H2; [lia|].
  destruct f2 as [|f2]; [lia|]. simpl.
  destruct (kind_of s tr v) as [|t m|t l|] eqn:Ek; try reflexivity.
  - destruct (kind_map_inv _ _ _ _ _ Ek) as (a & _ & _ & Hv & _ & _). subst v.
    apply flat_map_ext_in'. intros kv Hkv. f_equal. apply IH.
    + pose proof (vdepth_map_In m kv Hkv). lia.
    + pose proof (vdepth_map_In m kv Hkv). lia.
  - destruct (kind_list_inv _ _ _ _ _ Ek) as (a & _ & _ & Hv & _ & _). subst v.
    destruct (group_items s t l []) as [g|] eqn:Eg; [|reflexivity].
    apply flat_map_ext_in'. intros ex Hex.
    destruct (snd ex) as [|x [|y more]] eqn:Es; try reflexivity.
    f_equal.
    assert (Hx : In x l).
    { apply (group_items_nil_In s t l g Eg ex x Hex). rewrite Es. simpl. auto. }
    pose proof (vdepth_list_In l x Hx). apply IH; lia.
Qed.

(* ------------------------------------------------------------------ *)
(* one step of node enumeration *)

Definition leafb (s : schema) (tr : typeref) (v : value) : bool :=
  match kind_of s tr v with KLeaf | KBad => true | _ => false end.

Lemma nodes_fuel_map : forall f s tr v p t m, kind_of s tr v = KMap t m ->
  nodes_fuel (S f) s tr v p =
  flat_map (fun kv : string * value =>
              (p ++ [PEField (fst kv)], leafb s (field_type t (fst kv)) (snd kv))
              :: nodes_fuel f s (field_type t (fst kv)) (snd kv) (p ++ [PEField (fst kv)])) m.
Proof. intros f s tr v p t m Ek. simpl. rewrite Ek. reflexivity. Qed.

Lemma nodes_fuel_list : forall f s tr v p t l, kind_of s tr v = KList t l ->
  nodes_fuel (S f) s tr v p =
  match group_items s t l [] with
  | None => []
  | Some g =>
      flat_map (fun ex : pe * list value =>
                  match snd ex with
                  | [x] => (p ++ [fst ex], leafb s (list_elem t) x)
                           :: nodes_fuel f s (list_elem t) x (p ++ [fst ex])
                  | _ => [(p ++ [fst ex], true)]
                  end) g
  end.
Proof. intros f s tr v p t l Ek. simpl. rewrite Ek. reflexivity. Qed.

Lemma nodes_fuel_leaf : forall f s tr v p, kind_of s tr v = KLeaf -> nodes_fuel f s tr v p = [].
Proof. intros f s tr v p Ek. destruct f; simpl; [reflexivity|]. rewrite Ek. reflexivity. Qed.

Lemma map_flat_map' : forall (A B C : Type) (f : B -> C) (g : A -> list B) l,
  map f (flat_map g l) = flat_map (fun x => map f (g x)) l.
Proof.
  intros A B C f g l. induction l as [|a l IH]; simpl; [reflexivity|].
  rewrite map_app, IH. reflexivity.
Qed.

Lemma flat_map_map' : forall (A B C : Type) (f : A -> B) (g : B -> list C) l,
  flat_map g (map f l) = flat_map (fun x => g (f x)) l.
Proof.
  intros A B C f g l. induction l as [|a l IH]; simpl; [reflexivity|]. rewrite IH. reflexivity.
Qed.

Lemma c_of_flat_added : forall (A : Type) (h : A -> list path) l,
  mkCmp [] [] (flat_map h l) = cmp_concat (map (fun x => mkCmp [] [] (h x)) l).
Proof.
  intros A h l. induction l as [|a l IH]; simpl; [reflexivity|].
  rewrite <- IH. reflexivity.
Qed.

Lemma c_of_flat_removed : forall (A : Type) (h : A -> list path) l,
  mkCmp (flat_map h l) [] [] = cmp_concat (map (fun x => mkCmp (h x) [] []) l).
Proof.
  intros A h l. induction l as [|a l IH]; simpl; [reflexivity|].
  rewrite <- IH. reflexivity.
Qed.

Lemma keys_union_nil_l : forall b, keys_union [] b = b.
Proof. intros [|y b]; reflexivity. Qed.
Lemma keys_union_nil_r : forall a, keys_union a [] = a.
Proof. intros [|x a]; reflexivity. Qed.

Lemma filter_all : forall (A : Type) (f : A -> bool) l, (forall x, In x l -> f x = true) -> filter f l = l.
Proof.
  intros A f l H. induction l as [|a l IH]; simpl; [reflexivity|].
  rewrite (H a (or_introl eq_refl)), IH; [reflexivity|]. intros x Hx. apply H. right. exact Hx.
Qed.

(* ------------------------------------------------------------------ *)
(* a container against the empty container: everything beneath is one-sided *)

Definition osc (added : bool) (ns : list path) : cmpacc :=
  if added then mkCmp [] [] ns else mkCmp ns [] [].

Lemma rd2c_one_sided : forall added s tr v p,
  rd2c (one_sided added s tr v p) = osc added (p :: map fst (nodes_fuel (S (vdepth v)) s tr v p)).
Proof. intros [] s tr v p; reflexivity. Qed.

Lemma rd2c_beneath : forall added s tr v p,
  rd2c (rd_beneath s tr p added v) = osc added (map fst (nodes_fuel (S (vdepth v)) s tr v p)).
Proof. intros [] s tr v p; reflexivity. Qed.

Lemma osc_flat : forall added (A : Type) (h : A -> list path) l,
  osc added (flat_map h l) = cmp_concat (map (fun x => osc added (h x)) l).
Proof. intros [] A h l; simpl; [apply c_of_flat_added|apply c_of_flat_removed]. Qed.

Lemma osc_cons : forall added p ns, ceq (osc added (p :: ns)) (cmp_app (osc added ns) (osc added [p])).
Proof.
  intros [] p ns q Hq; unfold cmp_app, osc; cbn [c_removed c_modified c_added app];
    rewrite ?CompareBase.pmem_app; unfold pmem; cbn [existsb]; rewrite ?orb_false_r;
    repeat split; auto using orb_comm.
Qed.

Lemma rd_maps_nil_l : forall rrec s tr p t rm,
  kind_of s tr (VMap rm) = KMap t rm -> sorted_keys rm = true ->
  rd2c (rd_maps rrec s p t [] rm) = rd2c (rd_beneath s tr p true (VMap rm)).
Proof.
  intros rrec s tr p t rm Ek Hs. unfold rd_maps. rewrite rd_fold, rd2c_empty, cmp_app_empty_l.
  simpl (map fst []). rewrite keys_union_nil_l, rd2c_beneath.
  rewrite (nodes_fuel_map _ _ _ _ _ _ _ Ek), map_flat_map', osc_flat, map_map.
  f_equal. apply map_ext_in. intros [k y] Hkv. unfold rd_map_G. cbn [fst snd assoc_get].
  rewrite (assoc_get_in_sorted rm k y Hs Hkv).
  rewrite rd2c_one_sided. cbn [map fst]. f_equal. f_equal. f_equal.
  pose proof (vdepth_map_In rm (k, y) Hkv) as Hd. simpl snd in Hd.
  apply nodes_fuel_indep; lia.
Qed.

Lemma rd_maps_nil_r : forall rrec s tr p t lm,
  kind_of s tr (VMap lm) = KMap t lm -> sorted_keys lm = true ->
  rd2c (rd_maps rrec s p t lm []) = rd2c (rd_beneath s tr p false (VMap lm)).
Proof.
  intros rrec s tr p t lm Ek Hs. unfold rd_maps. rewrite rd_fold, rd2c_empty, cmp_app_empty_l.
  simpl (map fst []). rewrite keys_union_nil_r, rd2c_beneath.
  rewrite (nodes_fuel_map _ _ _ _ _ _ _ Ek), map_flat_map', osc_flat, map_map.
  f_equal. apply map_ext_in. intros [k y] Hkv. unfold rd_map_G. cbn [fst snd assoc_get].
  rewrite (assoc_get_in_sorted lm k y Hs Hkv).
  rewrite rd2c_one_sided. cbn [map fst]. f_equal. f_equal. f_equal.
  pose proof (vdepth_map_In lm (k, y) Hkv) as Hd. simpl snd in Hd.
  apply nodes_fuel_indep; lia.
Qed.

Lemma lookup_group_nil : forall e, lookup_group e [] = None.
Proof. reflexivity. Qed.

Lemma rd_lists_nil_l : forall rrec s tr p t rl,
  kind_of s tr (VList rl) = KList t rl -> items_wf s t rl ->
  rd2c (rd_lists rrec s p t [] rl) = rd2c (rd_beneath s tr p true (VList rl)).
Proof.
  intros rrec s tr p t rl Ek Hiw. unfold rd_lists. simpl (group_items s t [] []).
  rewrite rd2c_beneath, (nodes_fuel_list _ _ _ _ _ _ _ Ek).
  destruct (group_items s t rl []) as [gr|] eqn:Eg; [|reflexivity].
  rewrite rd_fold, rd2c_empty, cmp_app_empty_l. unfold rd_all. simpl (map fst []). rewrite app_nil_l.
  rewrite filter_all by (intros ex _; reflexivity).
  rewrite map_map, map_flat_map', osc_flat.
  f_equal. apply map_ext_in. intros ex Hex. unfold rd_list_G. rewrite lookup_group_nil.
  destruct (group_items_some s t rl gr Hiw Eg) as (_ & Hgw & _).
  pose proof (group_items_nodup s t rl [] gr I Eg) as Hnd.
  rewrite (lookup_own gr ex Hgw Hnd Hex).
  destruct (group_entries s t rl gr Hiw Eg ex Hex) as (_ & _ & Hne).
  destruct (snd ex) as [|x [|y more]] eqn:Es; [congruence| |reflexivity].
  rewrite rd2c_one_sided. cbn [map fst]. f_equal. f_equal. f_equal.
  assert (Hx : In x rl).
  { apply (group_items_nil_In s t rl gr Eg ex x Hex). rewrite Es. simpl. auto. }
  pose proof (vdepth_list_In rl x Hx). apply nodes_fuel_indep; lia.
Qed.

Lemma rd_lists_nil_r : forall rrec s tr p t ll,
  kind_of s tr (VList ll) = KList t ll -> items_wf s t ll ->
  rd2c (rd_lists rrec s p t ll []) = rd2c (rd_beneath s tr p false (VList ll)).
Proof.
  intros rrec s tr p t ll Ek Hiw. unfold rd_lists. simpl (group_items s t [] []).
  rewrite rd2c_beneath, (nodes_fuel_list _ _ _ _ _ _ _ Ek).
  destruct (group_items s t ll []) as [gl|] eqn:Eg; [|reflexivity].
  rewrite rd_fold, rd2c_empty, cmp_app_empty_l. unfold rd_all. simpl (filter _ []). simpl (map fst []).
  rewrite app_nil_r.
  rewrite map_map, map_flat_map', osc_flat.
  f_equal. apply map_ext_in. intros ex Hex. unfold rd_list_G. rewrite lookup_group_nil.
  destruct (group_items_some s t ll gl Hiw Eg) as (_ & Hgw & _).
  pose proof (group_items_nodup s t ll [] gl I Eg) as Hnd.
  rewrite (lookup_own gl ex Hgw Hnd Hex).
  destruct (group_entries s t ll gl Hiw Eg ex Hex) as (_ & _ & Hne).
  destruct (snd ex) as [|x [|y more]] eqn:Es; [congruence| |reflexivity].
  rewrite rd2c_one_sided. cbn [map fst]. f_equal. f_equal. f_equal.
  assert (Hx : In x ll).
  { apply (group_items_nil_In s t ll gl Eg ex x Hex). rewrite Es. simpl. auto. }
  pose proof (vdepth_list_In ll x Hx). apply nodes_fuel_indep; lia.
Qed.
