(* A recorded set all of whose members designate nodes of a valid object needs no
   reconciliation with the schema (Model/Reconcile.v): the walker reports a path only
   where the set holds a member strictly beneath a field the schema declares atomic, and
   nothing is a node beneath an atomic value.  Hence [records_current] (Proofs/ApplyEffect.v)
   follows from "every owned path is present" in the states of a history. *)
From Coq Require Import List ZArith String Bool Arith Lia.
From SMD Require Import Model.Value Model.Order Model.PathElem Model.PathSet Model.Schema Model.Walk
  Model.Validate Model.Reconcile Spec.PathsAsSets Spec.RefValid Spec.Resolve
  Proofs.OrderLaws Proofs.PathSetLaws Proofs.SchemaOk Proofs.ValidateLaws Proofs.FieldSetBase
  Proofs.FieldSetPaths Proofs.ReconcileBase Proofs.ReconcileOwned Proofs.CompareTotal
  Proofs.RefDiffOneSided Proofs.RefDiffBoth Proofs.RefDiffPresent.
From SMD Require Proofs.TrieBase Proofs.ResolveLaws.
Import ListNotations.
Open Scope bool_scope.
Open Scope list_scope.

Local Arguments ps_has : simpl never.
Local Arguments ps_empty : simpl never.

Section Current.
  Variables (s : schema) (R : typeref -> Prop).
  Hypothesis Hok : schema_ok s R.
  Hypothesis Hfam : family_refs s R.
  Hypothesis Hpure : lists_pure s R.

  Definition mpresent (tr : typeref) (v : value) (f : pset) : Prop :=
    forall m, wf_path m = true -> ps_has m f = true -> present s tr v m = true.

  (* what the walker is called with: a non-empty set of nodes of a valid object, or no
     set at a position flagged atomic *)
  Definition rw_input (tr : typeref) (fs : option pset) (isAtomic : bool) : Prop :=
    match fs with
    | None => isAtomic = true
    | Some f => ps_ok f = true /\ ps_empty f = false /\
                exists v, R tr /\ wf_value v = true /\ conforms s tr true v = true /\ mpresent tr v f
    end.

  (* the members of a child set are nodes of the child value *)
  Lemma child_input : forall tr v ms cs e sube ctr c,
    ps_ok (PSet ms cs) = true -> wf_pe e = true -> snm_get e cs = Some sube ->
    mpresent tr v (PSet ms cs) ->
    (forall rest, rest <> [] -> present s tr v (e :: rest) = true -> present s ctr c rest = true) ->
    R ctr -> wf_value c = true -> conforms s ctr true c = true ->
    rw_input ctr (Some sube) false.
  Proof.
    intros tr v ms cs e sube ctr c Hf He Hg Hmp Hstep Hctr Hwc Hcc.
    destruct (snm_get_cok ms cs e sube Hf Hg) as (Hoks & Hnes & _ & _).
    split; [exact Hoks|]. split; [exact Hnes|]. exists c. split; [exact Hctr|]. split; [exact Hwc|].
    split; [exact Hcc|]. intros m Wm Hm.
    destruct m as [|x r]; [discriminate Hm|].
    apply Hstep; [discriminate|]. apply Hmp.
    - apply wf_path_cons. auto.
    - rewrite ps_has_more_get, Hg. exact Hm.
  Qed.

  Lemma first_member : forall ms cs e sube, ps_ok (PSet ms cs) = true -> snm_get e cs = Some sube ->
    exists x r, wf_path (x :: r) = true /\ ps_has (e :: x :: r) (PSet ms cs) = true.
  Proof.
    intros ms cs e sube Hf Hg.
    destruct (snm_get_cok ms cs e sube Hf Hg) as (Hoks & Hnes & _ & _).
    destruct (TrieBase.ps_nonempty_witness sube Hoks Hnes) as (mw & Wmw & Hmw).
    destruct mw as [|x r]; [discriminate|]. exists x, r. split; [exact Wmw|].
    rewrite ps_has_more_get, Hg. exact Hmw.
  Qed.

  Theorem rw_reports_nothing : forall fuel tr p fs isAtomic,
    rw_input tr fs isAtomic -> forall q0, In q0 (snd (reconcile_w fuel s tr p fs isAtomic)) -> False.
  Proof.
    induction fuel as [|fuel IH]; intros tr p fs isAtomic Hin q0 Hq0; [destruct Hq0|].
    rewrite reconcile_w_S in Hq0.
    destruct (resolve s tr) as [a|] eqn:Hres; [|destruct Hq0].
    destruct fs as [f|].
    2:{ (* no set: the position is flagged atomic, nothing is visited *)
      simpl in Hin. subst isAtomic. cbn [negb andb] in Hq0.
      destruct (handle_atom a) as [t|k|t|]; try destruct Hq0.
      destruct (is_untyped_deduced_map t); destruct Hq0. }
    destruct Hin as (Hf & Hne & v & Htr & Hwv & Hcv & Hmp).
    (* a member of the set: a node of v beneath the root *)
    destruct (TrieBase.ps_nonempty_witness f Hf Hne) as (mw & Wmw & Hmw).
    pose proof (Hmp mw Wmw Hmw) as Hprw.
    destruct mw as [|e0 r0]; [discriminate Hmw|].
    assert (Hkind : match kind_of s tr v with KMap _ _ | KList _ _ => True | _ => False end).
    { destruct (kind_of s tr v) eqn:Ek; try exact I;
        unfold present in Hprw; rewrite resolve_path_leaf in Hprw by (rewrite Ek; exact I); discriminate. }
    (* the visit of the children, for either kind of container *)
    assert (Hvisit : forall child_tr,
      (forall e sube ctr, wf_pe e = true -> snm_get e (ps_children f) = Some sube ->
         child_tr e = Some ctr -> rw_input ctr (Some sube) false) ->
      In q0 (snd (rw_visit (reconcile_w fuel s) p child_tr f)) -> False).
    { intros child_tr Hchild Hq. destruct f as [ms cs]. cbn [ps_children] in Hchild.
      apply rw_visit_in in Hq.
      destruct Hq as [(ec & er & Hinc & _ & Hcall & Hq)|(e & er & Hinm & Hcall & Hq)].
      - destruct (snm_get_In ms cs ec Hf Hinc) as [W Hg].
        unfold rw_call in Hcall. destruct (child_tr (fst ec)) as [ctr|] eqn:Ect; [|discriminate].
        rewrite Hg in Hcall. cbn [has_sub andb] in Hcall. inversion Hcall; subst er. clear Hcall.
        apply (IH ctr (p ++ [fst ec]) (Some (snd ec)) false (Hchild _ _ _ W Hg Ect) q0 Hq).
      - destruct (member_has ms cs e Hf Hinm) as [W _].
        unfold rw_call in Hcall. destruct (child_tr e) as [ctr|] eqn:Ect; [|discriminate].
        destruct (snm_get e cs) as [sube|] eqn:Hg.
        + cbn [has_sub andb negb] in Hcall. inversion Hcall; subst er. clear Hcall.
          apply (IH ctr (p ++ [e]) (Some sube) false (Hchild _ _ _ W Hg Ect) q0 Hq).
        + cbn [has_sub andb negb] in Hcall. inversion Hcall; subst er. clear Hcall.
          apply (IH ctr (p ++ [e]) None true eq_refl q0 Hq). }
    destruct (kind_of s tr v) as [|t m|t l|] eqn:Ek; try contradiction.
    - (* v is a granular map *)
      destruct (kind_map_inv _ _ _ _ _ Ek) as (a' & Hr & Ham & Hv & Hna & _).
      rewrite Hres in Hr. inversion Hr; subst a'. clear Hr.
      destruct a as [sc li ma]. simpl in Ham. subst ma.
      replace (handle_atom (Atom sc li (Some t))) with (HMap t) in Hq0
        by (destruct sc as [?|]; destruct li as [?|]; reflexivity).
      destruct (is_untyped_deduced_map t); [destruct Hq0|].
      rewrite Hna, andb_false_r in Hq0.
      destruct (map_side s R Hok tr _ v t m Htr Hres Hwv Hcv Ek) as [_ Hch].
      pose proof (map_view_kind s tr v t m Ek) as Vw.
      apply (Hvisit (type_ref_at_path t)); [|exact Hq0].
      intros e sube ctr We Hg Ect. destruct f as [ms cs]. cbn [ps_children] in Hg.
      destruct (first_member ms cs e sube Hf Hg) as (x & r & Wxr & Hxr).
      assert (Wexr : wf_path (e :: x :: r) = true) by (apply wf_path_cons; auto).
      pose proof (Hmp _ Wexr Hxr) as Hpe. rewrite Vw in Hpe.
      destruct e as [k|k|k|k]; try discriminate.
      destruct (assoc_get k m) as [c|] eqn:Eg; [|discriminate].
      destruct (Hch k c Eg) as (H1 & H2 & H3 & _).
      unfold type_ref_at_path in Ect. destruct (is_empty_tr (field_type t k)); [discriminate|].
      inversion Ect; subst ctr.
      apply (child_input tr v ms cs (PEField k) sube (field_type t k) c Hf We Hg Hmp); auto.
      intros rest _ Hpr. rewrite Vw, Eg in Hpr. exact Hpr.
    - (* v is a granular list *)
      destruct (kind_list_inv _ _ _ _ _ Ek) as (a' & Hr & Hal & Hv & Hna & _).
      rewrite Hres in Hr. inversion Hr; subst a'. clear Hr.
      rewrite (pure_atom s R tr a t Hpure Htr Hres Hal Hna) in *. cbn [handle_atom] in Hq0.
      rewrite Hna, andb_false_r in Hq0.
      destruct (list_side s R Hok Hfam tr _ v t l Htr Hres Hwv Hcv Ek) as (_ & Hiw & Hh & _ & Hch).
      pose proof (list_view_kind s R Hok tr v t l Htr Hwv Ek Hh) as Vw.
      apply (Hvisit (fun _ => Some (list_elem t))); [|exact Hq0].
      intros e sube ctr We Hg Ect. inversion Ect; subst ctr. destruct f as [ms cs]. cbn [ps_children] in Hg.
      destruct (first_member ms cs e sube Hf Hg) as (x & r & Wxr & Hxr).
      assert (Wexr : wf_path (e :: x :: r) = true) by (apply wf_path_cons; auto).
      pose proof (Hmp _ Wexr Hxr) as Hpe. rewrite (Vw e _ We) in Hpe.
      destruct (occ s t e l) as [|x0 [|y0 more]] eqn:Eo; try discriminate.
      assert (Hx0 : In x0 l).
      { assert (Hx : In x0 (occ s t e l)) by (rewrite Eo; left; reflexivity). apply occ_In in Hx. apply Hx. }
      destruct (Hch x0 Hx0) as (H1 & H2 & H3 & _).
      apply (child_input tr v ms cs e sube (list_elem t) x0 Hf We Hg Hmp); auto.
      intros rest _ Hpr. rewrite (Vw e _ We), Eo in Hpr. exact Hpr.
  Qed.

  (* no reconciliation is needed *)
  Theorem present_records_current : forall tr v fs s',
    R tr -> wf_value v = true -> conforms s tr true v = true -> ps_ok fs = true ->
    ps_empty fs = false ->
    mpresent tr v fs -> reconcile_field_set s tr fs <> Some (Some s').
  Proof.
    intros tr v fs s' Htr Hwv Hcv Hf Hne Hmp H. unfold reconcile_field_set in H.
    assert (Hin : rw_input tr (Some fs) false).
    { split; [exact Hf|]. split; [exact Hne|]. exists v. auto. }
    pose proof (rw_reports_nothing (S (ps_depth fs)) tr [] (Some fs) false Hin) as Hno.
    destruct (reconcile_w (S (ps_depth fs)) s tr [] (Some fs) false) as [e L]. cbn [snd] in Hno.
    destruct e; [discriminate|]. destruct L as [|q0 L]; [discriminate|].
    apply (Hno q0). left. reflexivity.
  Qed.
End Current.
