(* More on removal (typed/remove.go), companion of Proofs/RemoveFrame.v:
     - [remove_items_not_nil]: the result of a removal is never an empty list;
     - [remove_node]: a single node of v that T does not touch is, in the result, the
       removal of some set from that node (or the node itself);
     - [remove_ext]: the result of removing a set of paths of v depends only on which
       nodes of v the set touches. *)
From Coq Require Import List ZArith String Bool Arith Lia.
From SMD Require Import Model.Value Model.Order Model.PathElem Model.PathSet Model.Schema
  Model.Walk Model.FieldSet Model.Remove Spec.PathsAsSets Spec.RefValid Spec.Resolve Spec.Agree
  Proofs.OrderLaws Proofs.KeyLaws Proofs.PathSetLaws Proofs.ValidateLaws Proofs.SchemaOk
  Proofs.FieldSetMirrors Proofs.FieldSetBase Proofs.FieldSetShape Proofs.FieldSetPaths
  Proofs.RemoveBase Proofs.ExtractBase Proofs.ExtractLaws Proofs.RemoveAbsent Proofs.RemoveWf
  Proofs.ResolveLaws Proofs.ReconcileBase Proofs.RemoveFrame.
Import ListNotations.
Open Scope bool_scope.

Local Arguments ps_has : simpl never.
Local Arguments ps_with_prefix : simpl never.
Local Arguments ps_empty : simpl never.

(* what removal makes of a node it reaches with the set T' *)
Definition kept_node (s : schema) (tr : typeref) (T' : pset) (x : value) : value :=
  if negb (ps_empty T') then remove_items s false tr T' x else x.

Lemma remove_items_not_nil : forall s tr dup T v, conforms s tr dup v = true ->
  remove_items s false tr T v <> VList [].
Proof.
  intros s tr dup T v Hc.
  destruct v as [| | | | |l|m];
    try (rewrite (scalar_removed s tr dup T _ Hc eq_refl); discriminate).
  - rewrite remove_items_null. discriminate.
  - pose proof Hc as Hc'. rewrite conforms_eq in Hc'.
    destruct (resolve s tr) as [[sc li ma]|] eqn:Er; [|discriminate].
    destruct li as [t|]; [|discriminate].
    destruct l as [|x l]; [rewrite remove_items_eq, Er, handle_vlist; discriminate|].
    rewrite (remove_items_vlist' s false tr T sc t ma (x :: l) Er) by discriminate.
    destruct (rel_is_atomic (list_rel t)); [discriminate|].
    destruct (rm_list_go s false T t (x :: l)); discriminate.
  - pose proof Hc as Hc'. rewrite conforms_eq in Hc'.
    destruct (resolve s tr) as [[sc li ma]|] eqn:Er; [|discriminate].
    destruct ma as [t|]; [|discriminate].
    destruct m as [|kv m]; [rewrite remove_items_eq, Er, handle_vmap; discriminate|].
    rewrite (remove_items_vmap' s false tr T sc li t (kv :: m) Er) by discriminate.
    destruct (rel_is_atomic (map_rel t)); [discriminate|].
    destruct (rm_map_go s false T t (kv :: m)); discriminate.
Qed.

Lemma kept_node_not_nil : forall s tr dup T' x, conforms s tr dup x = true -> x <> VList [] ->
  kept_node s tr T' x <> VList [].
Proof.
  intros s tr dup T' x Hc Hx. unfold kept_node.
  destruct (negb (ps_empty T')); [apply (remove_items_not_nil s tr dup T' x Hc)|exact Hx].
Qed.

Lemma ps_empty_empty_set : ps_empty ps_empty_set = true.
Proof. reflexivity. Qed.

Section Ext.
  Variables (s : schema) (R : typeref -> Prop).
  Hypothesis Hok : schema_ok s R.
  Hypothesis Hfam : family_refs s R.
  Hypothesis Hnd : keys_nodefault s R.

  (* ---------- a single node that is kept ---------- *)

  Theorem remove_node : forall p v tr dup T tr' x, R tr -> wf_value v = true ->
    conforms s tr dup v = true -> nice s tr v T -> wf_path p = true -> p <> [] ->
    resolve_path s tr v p = Some (RNode tr' x) -> touches p T = false ->
    exists T', ps_ok T' = true /\
      resolve_path s tr (remove_items s false tr T v) p = Some (RNode tr' (kept_node s tr' T' x)).
  Proof.
    induction p as [|e rest IH]; intros v tr dup T tr' x Htr Hwf Hc Hn Hp Hne Hres Hto; [congruence|].
    apply wf_path_cons in Hp. destruct Hp as [He Hrest].
    cbn [touches] in Hto. apply orb_false_iff in Hto. destruct Hto as [Hno Hto].
    pose proof (n_ok _ _ _ _ Hn) as HT.
    (* the common end of the map and list cases *)
    assert (Hchild : forall ft c T1, R ft -> wf_value c = true -> conforms s ft dup c = true ->
              nice s ft c T1 -> resolve_path s ft c rest = Some (RNode tr' x) ->
              touches rest T1 = false ->
              exists T', ps_ok T' = true /\
                resolve_path s ft (if negb (ps_empty T1) then remove_items s false ft T1 c else c) rest
                = Some (RNode tr' (kept_node s tr' T' x))).
    { intros ft c T1 Hft Hwc Hcc Hn1 Hr1 Ht1.
      destruct rest as [|r0 rest'].
      - simpl in Hr1. inversion Hr1; subst tr' x. exists T1. split; [apply (n_ok _ _ _ _ Hn1)|].
        simpl. reflexivity.
      - destruct (ps_empty T1) eqn:Ee; cbn [negb].
        + exists ps_empty_set. split; [apply ps_ok_empty|].
          unfold kept_node. rewrite ps_empty_empty_set. cbn [negb]. exact Hr1.
        + apply (IH c ft dup T1 tr' x); auto. discriminate. }
    destruct (kind_of s tr v) as [|t m|t l|] eqn:Ek.
    - rewrite resolve_path_leaf in Hres by (rewrite Ek; exact I). discriminate.
    - destruct (kind_map_inv _ _ _ _ _ Ek) as (a & Hr & Ham & Hv & Hna & Hmne). subst v.
      destruct e as [k|fl|ev|i];
        try (rewrite (resolve_path_map_other _ _ _ _ _ _ _ Ek) in Hres by exact I; discriminate).
      rewrite (resolve_path_map _ _ _ _ _ _ _ Ek) in Hres.
      destruct (assoc_get k m) as [c|] eqn:Eg; [|discriminate].
      rewrite (rm_resolve_map s tr t m T k rest Ek), Hno, Eg. unfold kept_value.
      pose proof (assoc_get_In m k c Eg) as Hin.
      assert (Hcc : conforms s (field_type t k) dup c = true).
      { pose proof Hc as Hc'. rewrite conforms_eq, Hr in Hc'.
        destruct a as [sc li ma]. simpl in Ham. subst ma. eapply cmap_each_in; eauto. }
      apply Hchild; auto.
      + eapply (so_map s R Hok); eauto.
      + eapply wf_value_map_in; eauto.
      + eapply nice_map_child; eauto.
    - destruct (kind_list_inv _ _ _ _ _ Ek) as (a & Hr0 & Hal & Hv & _ & _). subst v.
      destruct (conf_list_facts s R Hok Hfam tr dup t l Htr Hc Ek)
        as (sc & ma & Hr & Hte & Hna & Hlne & Hhp & Hcs & _).
      destruct (is_keyval e) eqn:Ekv;
        [|rewrite (resolve_path_list_other _ _ _ _ _ _ _ Ek Ekv) in Hres; discriminate].
      rewrite (resolve_path_list_occ s R Hok tr _ t l e rest Htr Hwf Ek He), Hhp, Ekv in Hres.
      cbn [andb] in Hres.
      rewrite (rm_resolve_list s R Hok Hfam Hnd tr dup t l T e rest Htr Hwf Hc Ek Hn He Ekv), Hno.
      assert (Hiw : items_wf s t l) by (eapply items_wf_R; eauto).
      destruct (occ s t e l) as [|x0 [|y more]] eqn:Eo; [discriminate| |].
      + assert (Hxo : In x0 (occ s t e l)) by (rewrite Eo; left; reflexivity).
        apply occ_In in Hxo. destruct Hxo as [Hx Hm]. unfold pe_matches in Hm.
        destruct (list_item_to_pe s t x0) as [ex|] eqn:Ex; [|discriminate].
        assert (Hwex : wf_pe ex = true) by (apply (Hiw x0 ex Hx Ex)).
        assert (Hnoex : ps_has [ex] T = false).
        { rewrite <- Hno. apply ps_has_patheqb; auto; try (apply wf_path_cons; auto).
          simpl. rewrite Hm. reflexivity. }
        destruct (ps_with_prefix_spec ex T HT Hwex) as [HTx _].
        destruct (ps_with_prefix_spec e T HT He) as [HTe _].
        assert (Htox : touches rest (ps_with_prefix ex T) = false).
        { rewrite <- Hto. apply touches_ext; auto. apply with_prefix_cong; auto. }
        unfold kept_item. rewrite (list_item_pe_or_zero_some s t x0 ex Ex). cbv zeta.
        apply Hchild; auto.
        * eapply wf_value_list_in; eauto.
        * rewrite forallb_forall in Hcs. exact (Hcs x0 Hx).
        * eapply nice_item_child; eauto.
      + destruct rest; discriminate.
    - rewrite resolve_path_leaf in Hres by (rewrite Ek; exact I). discriminate.
  Qed.

  (* ---------- removal depends only on the nodes the set touches ---------- *)

  Lemma rm_map_go_ext : forall T1 T2 t m,
    (forall kv rest, In kv m -> rm_map_step s false T1 t kv rest = rm_map_step s false T2 t kv rest) ->
    rm_map_go s false T1 t m = rm_map_go s false T2 t m.
  Proof.
    intros T1 T2 t m. induction m as [|kv m IH]; intros H; [reflexivity|].
    rewrite !rm_map_go_cons, IH by (intros kv' rest Hin; apply H; right; exact Hin).
    apply H. left. reflexivity.
  Qed.

  Lemma rm_list_go_ext : forall T1 T2 t l,
    (forall x rest, In x l -> rm_list_step s false T1 t x rest = rm_list_step s false T2 t x rest) ->
    rm_list_go s false T1 t l = rm_list_go s false T2 t l.
  Proof.
    intros T1 T2 t l. induction l as [|x l IH]; intros H; [reflexivity|].
    rewrite !rm_list_go_cons, IH by (intros x' rest Hin; apply H; right; exact Hin).
    apply H. left. reflexivity.
  Qed.

  (* the sets agree on which nodes of v they touch *)
  Definition same_touch (tr : typeref) (v : value) (T1 T2 : pset) : Prop :=
    forall q, wf_path q = true -> q <> [] -> present s tr v q = true -> touches q T1 = touches q T2.

  Lemma sub_empty_ext : forall tr v T1 T2 e, ps_ok T1 = true -> ps_ok T2 = true -> wf_pe e = true ->
    sub_present s tr v T1 -> same_touch tr v T1 T2 -> ps_has [e] T2 = false ->
    ps_empty (ps_with_prefix e T1) = false -> ps_empty (ps_with_prefix e T2) = false.
  Proof.
    intros tr v T1 T2 e H1 H2 He Hsp Hst Hno Hne.
    destruct (ps_with_prefix_spec e T1 H1 He) as [H1' Hw1].
    destruct (ps_with_prefix_spec e T2 H2 He) as [H2' Hw2].
    destruct (ps_nonempty_witness _ H1' Hne) as (q & Hq & Hhas).
    pose proof (has_nonnil _ _ Hhas) as Hqne. rewrite Hw1 in Hhas by auto.
    assert (Hwq : wf_path (e :: q) = true) by (apply wf_path_cons; auto).
    pose proof (Hsp _ Hwq Hhas) as Hpr.
    pose proof (touches_self _ _ H1 Hwq Hhas) as Ht.
    rewrite (Hst _ Hwq ltac:(discriminate) Hpr) in Ht.
    cbn [touches] in Ht. rewrite Hno in Ht. cbn [orb] in Ht.
    apply (touches_nonempty q _ H2' Hq Ht).
  Qed.

  Lemma same_touch_sym : forall tr v T1 T2, same_touch tr v T1 T2 -> same_touch tr v T2 T1.
  Proof. intros tr v T1 T2 H q Hq Hne Hpr. symmetry. apply H; auto. Qed.

  Lemma sub_empty_eq : forall tr v T1 T2 e, ps_ok T1 = true -> ps_ok T2 = true -> wf_pe e = true ->
    sub_present s tr v T1 -> sub_present s tr v T2 -> same_touch tr v T1 T2 ->
    ps_has [e] T1 = false -> ps_has [e] T2 = false ->
    ps_empty (ps_with_prefix e T1) = ps_empty (ps_with_prefix e T2).
  Proof.
    intros tr v T1 T2 e H1 H2 He Hs1 Hs2 Hst Hn1 Hn2.
    destruct (ps_empty (ps_with_prefix e T1)) eqn:E1, (ps_empty (ps_with_prefix e T2)) eqn:E2;
      try reflexivity.
    - rewrite (sub_empty_ext tr v T2 T1 e H2 H1 He Hs2 (same_touch_sym _ _ _ _ Hst) Hn1 E2) in E1.
      discriminate.
    - rewrite (sub_empty_ext tr v T1 T2 e H1 H2 He Hs1 Hst Hn2 E1) in E2. discriminate.
  Qed.

  Theorem remove_ext : forall v tr dup T1 T2, R tr -> wf_value v = true ->
    conforms s tr dup v = true -> ps_ok T1 = true -> ps_ok T2 = true ->
    sub_present s tr v T1 -> sub_present s tr v T2 -> same_touch tr v T1 T2 ->
    remove_items s false tr T1 v = remove_items s false tr T2 v.
  Proof.
    intros v. induction v as [|b|z|q0|str|l IHl|m IHm] using value_ind';
      intros tr dup T1 T2 Htr Hwf Hc H1 H2 Hs1 Hs2 Hst;
      try (rewrite !(scalar_removed s tr dup _ _ Hc eq_refl); reflexivity).
    - rewrite !remove_items_null. reflexivity.
    - (* list *)
      pose proof Hc as Hc'. rewrite conforms_eq in Hc'.
      destruct (resolve s tr) as [[sc li ma]|] eqn:Er; [|discriminate].
      destruct li as [t|]; [|discriminate].
      destruct l as [|x0 l0]; [rewrite !remove_items_eq, Er, handle_vlist; reflexivity|].
      set (l := x0 :: l0) in *.
      rewrite !(remove_items_vlist' s false tr _ sc t ma l Er) by discriminate.
      destruct (rel_is_atomic (list_rel t)) eqn:Ena; [reflexivity|].
      assert (Ek : kind_of s tr (VList l) = KList t l).
      { unfold kind_of. rewrite Er, Ena. reflexivity. }
      destruct (conf_list_facts s R Hok Hfam tr dup t l Htr Hc Ek) as (sc' & ma' & Hr & Hte & _ & _ & Hhp & Hcs & _).
      assert (Hiw : items_wf s t l) by (eapply items_wf_R; eauto).
      rewrite (rm_list_go_ext T1 T2 t l); [reflexivity|].
      intros x rest Hx. unfold rm_list_step, rm_has, rm_subset. cbv zeta.
      pose proof Hhp as Hpx. rewrite forallb_forall in Hpx. specialize (Hpx x Hx). unfold has_pe in Hpx.
      destruct (list_item_to_pe s t x) as [ex|] eqn:Ex; [|discriminate]. clear Hpx.
      rewrite (list_item_pe_or_zero_some s t x ex Ex).
      assert (Hwex : wf_pe ex = true) by (apply (Hiw x ex Hx Ex)).
      assert (Hkv : is_keyval ex = true) by (eapply lipe_keyval; eauto).
      assert (Hxo : In x (occ s t ex l)).
      { apply In_occ; [exact Hx|]. unfold pe_matches. rewrite Ex. apply peeqb_refl. exact Hwex. }
      assert (Hw1 : wf_path [ex] = true) by (apply wf_path_cons; auto).
      assert (Hpr1 : present s tr (VList l) [ex] = true).
      { unfold present. rewrite (resolve_path_list_occ s R Hok tr _ t l ex [] Htr Hwf Ek Hwex), Hhp, Hkv.
        cbn [andb]. destruct (occ s t ex l) as [|x1 [|y more]]; [contradiction|reflexivity|reflexivity]. }
      assert (Hhas : ps_has [ex] T1 = ps_has [ex] T2).
      { pose proof (Hst [ex] Hw1 ltac:(discriminate) Hpr1) as Ht. cbn [touches] in Ht.
        rewrite !orb_false_r in Ht. exact Ht. }
      rewrite <- Hhas. destruct (ps_has [ex] T1) eqn:Eh1; cbn [andb negb]; [reflexivity|].
      symmetry in Hhas.
      rewrite <- (sub_empty_eq tr (VList l) T1 T2 ex H1 H2 Hwex Hs1 Hs2 Hst Eh1 Hhas).
      destruct (ps_empty (ps_with_prefix ex T1)) eqn:Ee1; cbn [negb]; [reflexivity|].
      pose proof Ee1 as Ee2.
      rewrite (sub_empty_eq tr (VList l) T1 T2 ex H1 H2 Hwex Hs1 Hs2 Hst Eh1 Hhas) in Ee2.
      destruct (ps_with_prefix_spec ex T1 H1 Hwex) as [H1' Hwp1].
      destruct (ps_with_prefix_spec ex T2 H2 Hwex) as [H2' Hwp2].
      (* the member is the only one with its path element *)
      assert (Hone : occ s t ex l = [x]).
      { destruct (ps_nonempty_witness _ H1' Ee1) as (q & Hq & Hhq).
        pose proof (has_nonnil _ _ Hhq) as Hqne. rewrite Hwp1 in Hhq by auto.
        assert (Hpr : present s tr (VList l) (ex :: q) = true)
          by (apply Hs1; [apply wf_path_cons; auto|exact Hhq]).
        unfold present in Hpr.
        rewrite (resolve_path_list_occ s R Hok tr _ t l ex q Htr Hwf Ek Hwex), Hhp, Hkv in Hpr.
        cbn [andb] in Hpr.
        destruct (occ s t ex l) as [|x1 [|y more]]; [contradiction| |destruct q; [congruence|discriminate]].
        destruct Hxo as [->|[]]. reflexivity. }
      f_equal. rewrite Forall_forall in IHl. apply (IHl x Hx (list_elem t) dup); auto.
      + apply (wf_value_list_in l x Hwf Hx).
      + rewrite forallb_forall in Hcs. exact (Hcs x Hx).
      + apply (sub_present_item_child s R Hok tr (VList l) T1 t l x ex); auto.
      + apply (sub_present_item_child s R Hok tr (VList l) T2 t l x ex); auto.
      + intros q Hq Hqne Hprq.
        assert (Hwq : wf_path (ex :: q) = true) by (apply wf_path_cons; auto).
        assert (Hpr : present s tr (VList l) (ex :: q) = true).
        { unfold present in *.
          rewrite (resolve_path_list_occ s R Hok tr _ t l ex q Htr Hwf Ek Hwex), Hhp, Hkv, Hone.
          exact Hprq. }
        pose proof (Hst _ Hwq ltac:(discriminate) Hpr) as Ht. cbn [touches] in Ht.
        rewrite Eh1, Hhas in Ht. exact Ht.
    - (* map *)
      pose proof Hc as Hc'. rewrite conforms_eq in Hc'.
      destruct (resolve s tr) as [[sc li ma]|] eqn:Er; [|discriminate].
      destruct ma as [t|]; [|discriminate].
      destruct m as [|kv0 m0]; [rewrite !remove_items_eq, Er, handle_vmap; reflexivity|].
      set (m := kv0 :: m0) in *.
      rewrite !(remove_items_vmap' s false tr _ sc li t m Er) by discriminate.
      destruct (rel_is_atomic (map_rel t)) eqn:Ena; [reflexivity|].
      assert (Ek : kind_of s tr (VMap m) = KMap t m).
      { unfold kind_of. rewrite Er, Ena. reflexivity. }
      rewrite (rm_map_go_ext T1 T2 t m); [reflexivity|].
      intros [k c] rest Hin. unfold rm_map_step. cbn [fst snd].
      assert (Eg : assoc_get k m = Some c).
      { apply assoc_get_in_sorted; [|exact Hin]. apply andb_true_iff in Hwf. apply Hwf. }
      assert (Hw1 : wf_path [PEField k] = true) by reflexivity.
      assert (Hpr1 : present s tr (VMap m) [PEField k] = true).
      { unfold present. rewrite (resolve_path_map _ _ _ _ _ _ _ Ek), Eg. reflexivity. }
      assert (Hhas : ps_has [PEField k] T1 = ps_has [PEField k] T2).
      { pose proof (Hst _ Hw1 ltac:(discriminate) Hpr1) as Ht. cbn [touches] in Ht.
        rewrite !orb_false_r in Ht. exact Ht. }
      rewrite <- Hhas. destruct (ps_has [PEField k] T1) eqn:Eh1; [reflexivity|].
      symmetry in Hhas.
      rewrite <- (sub_empty_eq tr (VMap m) T1 T2 (PEField k) H1 H2 eq_refl Hs1 Hs2 Hst Eh1 Hhas).
      destruct (ps_empty (ps_with_prefix (PEField k) T1)) eqn:Ee1; cbn [negb]; [reflexivity|].
      destruct (ps_with_prefix_spec (PEField k) T1 H1 eq_refl) as [H1' Hwp1].
      destruct (ps_with_prefix_spec (PEField k) T2 H2 eq_refl) as [H2' Hwp2].
      f_equal. f_equal. rewrite Forall_forall in IHm.
      apply (IHm (k, c) Hin (field_type t k) dup); auto.
      + apply (so_map s R Hok tr _ t k Htr Er eq_refl).
      + apply (wf_value_map_in m k c Hwf Hin).
      + eapply cmap_each_in; eauto.
      + eapply sub_present_map_child; eauto.
      + eapply sub_present_map_child; eauto.
      + intros q Hq Hqne Hprq.
        assert (Hwq : wf_path (PEField k :: q) = true) by (apply wf_path_cons; auto).
        assert (Hpr : present s tr (VMap m) (PEField k :: q) = true).
        { rewrite (present_map_step s tr (VMap m) t m k c q Ek Eg). exact Hprq. }
        pose proof (Hst _ Hwq ltac:(discriminate) Hpr) as Ht. cbn [touches] in Ht.
        rewrite Eh1, Hhas in Ht. exact Ht.
  Qed.
End Ext.

