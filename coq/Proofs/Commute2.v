(* C02, last clause, for managers that DO abandon fields (continuation of Proofs/Commute.v).

   PROVED  [shallow_abandoning_applies_commute]   (form (C) of the task: a partial result)
     Hypotheses of [Commute.keeping_disjoint_applies_commute] with [keeps_all] REPLACED by the
     weaker [shallow] for each of the two managers:
        every member of the manager's previous record is a node of its new configuration
        (kept, as in [keeps_all]), OR a LEAF of the live object all of whose proper ancestors
        are nodes of the new configuration (an abandoned leaf directly beneath something the
        manager keeps: a field of the root, of a struct or of a list member it still applies,
        an entry of a map it still applies).
     Conclusion, in FULL (stronger than (A)/(B) of the task for this class): the two orders end
     in the same object up to member order [veq_assoc] AND the same records [same_records].
     No container is emptied by such an apply, so no null leftover arises and H2 (hollow-free
     final objects) is not needed; H1 (previous records prefix-disjoint from the other
     configuration) is NOT needed either for this class:  not assumed.
     [keeps_all] implies [shallow] ([shallow_of_keeps_all]); the theorem contains
     [keeping_disjoint_applies_commute] and [fresh_disjoint_applies_commute].

   What the apply does, on leaves [Commute2Step.shallow_dstep]: the configuration is merged in
   and exactly those abandoned leaves are deleted that are in no other manager's record
   [Dd]; proved from the shape  remove M (dangling_T (pass_T T0) last)  of the prune stage.
   Helper files: Proofs/Commute2Leaves.v (leaf calculus with deletions, [dstep],
   [commute_lin_d], [others_same_d], [cfg_node_same_d]), Proofs/Commute2Step.v.

   NECESSITY of [shallow] (hypothesis added, with refutation):
     [shallow_needed]: the witness of [Commute.disjoint_applies_commute_needs_records_disjoint]
     (a abandons a list MEMBER, a new manager e applies it): every other hypothesis of the
     theorem holds, [shallow] holds for e and fails for a, and the two final objects are not
     [veq_assoc] and the records differ.  (When a list member is abandoned the chain condition
     below decides; see also [Commute.disjoint_applies_commute_as_stated_refuted].)

   REFUTED  [abandoning_commute_H1_not_enough]  (A) of the task -- "under H1 the objects have the
     same non-null leaves" -- is FALSE at states that merely satisfy [state_ok]: live =
     {items: [x{name, vv}, y{name}]}, a owns items[x].vv, b owns items[x] and its key, NOBODY
     owns the member y; both abandon; every hypothesis of [keeping_disjoint_applies_commute]
     but [keeps_all] holds and so does H1 (each previous record prefix-disjoint from the other
     configuration).  a first: the whole list goes (unowned member included); b first: a's
     record is emptied by b's step, a prunes nothing and the member y stays.  [state_ok] of
     that state is PROVED ([u_state_ok]); the state is, as far as I can see, not reachable.

   NOT PROVED (and why):
     (A)/(B) for arbitrary abandonment (list members, map entries emptied).  The prune stage
     removes a leaf p of the merged object iff there are prefixes q0 <= q'' <= q' <= p with
     q0, q' in en(last) and q'' not in en(U) (U = new field set + other records); this chain
     condition depends on which ANCESTORS of p the other records cover.  By the refutation
     above (A) needs, besides H1, a coverage invariant of histories ("every non-null leaf and
     each of its ancestors is in the closure of some record") that [state_ok] does not contain;
     neither that invariant nor the invariance of the chain condition under the other manager's
     step is formalised here.  Not shown necessary: [dup_free live], [hollow_free live]
     (inherited from Commute.v), [prefix_disjoint fsA fsB] beyond what Commute.v shows.

   Non-vacuity: [abandoning_example] -- final state of the history of Proofs/History.v;
   manager a (owner of the number aa, the member y and its name) applies the member y alone
   (abandons aa, which nobody else owns: it goes); manager c (owner of mm.k) applies mm.j
   (abandons the entry mm.k, the map stays); both orders evaluated, hypotheses discharged,
   conclusion by the theorem and by evaluation. *)
From Coq Require Import List ZArith String Bool Arith Lia.
From SMD Require Import Model.Value Model.Order Model.PathElem Model.PathSet Model.Schema Model.Walk
  Model.Validate Model.FieldSet Model.Remove Model.Merge Model.Compare Model.Matcher Model.Reconcile
  Model.Updater
  Spec.PathsAsSets Spec.RefValid Spec.Resolve Spec.Agree Spec.RefDiff Spec.Examples
  Proofs.OrderLaws Proofs.PathSetLaws Proofs.SchemaOk Proofs.FieldSetBase Proofs.FieldSetPaths
  Proofs.FieldSetWf Proofs.FieldSetLaws Proofs.RemoveAbsent Proofs.RemoveWf Proofs.ResolveLaws
  Proofs.UpdaterLaws Proofs.UpdaterLaws2 Proofs.MergeLaws Proofs.MergeAgree
  Proofs.RemoveFrame Proofs.EnLaws Proofs.NodeSet Proofs.KeyFields Proofs.VeqbResolve
  Proofs.SetCheckers Proofs.ApplyEffect Proofs.RefDiffBoth Proofs.RefDiffLaws Proofs.RefDiffPresent
  Proofs.ApplyInv Proofs.History Proofs.Reapply.
From SMD Require Import Proofs.CompareLaws Proofs.ReconcileTotal Proofs.ConflictsApply Proofs.ApplyPruneBase
  Proofs.RecordsHistory Proofs.TreeFacts
  Proofs.FieldSetShape Proofs.SameLeaves Proofs.CommuteLeaves Proofs.CommuteMod Proofs.CommuteSame
  Proofs.Commute Proofs.Commute2Leaves Proofs.Commute2Step.
From SMD Require Proofs.MergeRest Proofs.MergeBase Proofs.ReconcileBase Proofs.MergeRestBase Proofs.RefDiffBase
  Proofs.RefDiffChar Proofs.ExtractBase Proofs.OthersKeep.
Import ListNotations.
Open Scope bool_scope.
Open Scope list_scope.

Local Arguments ps_has : simpl never.
Local Arguments ps_empty : simpl never.

Lemma recf_inv : forall mf m p, recf mf m p = true ->
  exists r, mf_get m mf = Some r /\ ps_has p (mr_set r) = true.
Proof. intros mf m p H. unfold recf in H. destruct (mf_get m mf) as [r|]; [exists r; auto|discriminate]. Qed.

Lemma recf_nonnil : forall mf m p, recf mf m p = true -> p <> [].
Proof. intros mf m p H. destruct (recf_inv mf m p H) as (r & _ & Hh). exact (has_nonnil _ _ Hh). Qed.

Lemma others_true : forall mgr mf p m, mf_ok mf -> wf_path p = true -> m <> mgr ->
  recf mf m p = true -> ps_has p (others_set mgr mf) = true.
Proof.
  intros mgr mf p m Hmf Hp Hm H. destruct (recf_inv mf m p H) as (r & Hg & Hh).
  apply (others_has_intro mgr mf p m r Hmf Hp Hm Hg Hh).
Qed.

Lemma others_inv : forall mgr mf p, mf_ok mf -> wf_path p = true ->
  ps_has p (others_set mgr mf) = true -> exists m, m <> mgr /\ recf mf m p = true.
Proof.
  intros mgr mf p Hmf Hp H. destruct (others_has_inv mgr mf p Hmf Hp H) as (m & r & Hm & Hg & Hh).
  exists m. split; [exact Hm|]. unfold recf. rewrite Hg. exact Hh.
Qed.

Section Commute2.
  Variables (c : config) (R : typeref -> Prop) (ver : string).
  Let s := schema_of c ver.
  Let tr := tr_of c ver.

  Lemma shallow_of_keeps_all : forall cfg live mf mgr, keeps_all c ver cfg mf mgr -> shallow c ver cfg live mf mgr.
  Proof. intros cfg live mf mgr H last p Hg Hp Hh. left. exact (H last p Hg Hp Hh). Qed.

  (* ================= the records after one forced apply ================= *)
  Lemma step_records : forall live mf mgr cfg fs o mf',
    setting_ok c R ver -> state_ok c ver live mf -> op_ok c ver (HApply mgr cfg true) ->
    apply_op c (ver, live) (ver, cfg) ver mf mgr true = UOk (o, mf') ->
    to_field_set s tr cfg = Some fs ->
    let res := match o with Some t => snd t | None => live end in
    (forall p, wf_path p = true -> p <> [] -> recf mf' mgr p = ps_has p fs) /\
    (forall r', mf_get mgr mf' = Some r' -> mr_applied r' = true /\ mr_ver r' = ver) /\
    (forall m p, m <> mgr -> wf_path p = true -> p <> [] ->
       recf mf' m p = recf mf m p && negb (touched (ref_diff s tr live res) p)) /\
    (forall m r', m <> mgr -> mf_get m mf' = Some r' ->
       exists r, mf_get m mf = Some r /\ mr_applied r' = mr_applied r /\ mr_ver r' = mr_ver r).
  Proof.
    intros live mf mgr cfg fs o mf' Hset Hst Hop Happly Hfs res.
    pose proof (apply_records_exact c R ver live mf mgr cfg true o mf' fs Hset Hst Hop Happly Hfs) as Hrec.
    cbv zeta in Hrec. fold s tr in Hrec. fold res in Hrec.
    destruct Hrec as [Hmine Hoth].
    split; [|split; [|split]].
    - intros p Hp Hne. unfold recf. destruct (mf_get mgr mf') as [r'|].
      + destruct Hmine as (_ & _ & H). apply H; assumption.
      + symmetry. apply FieldSetBase.ps_empty_has. exact Hmine.
    - intros r' Hg. rewrite Hg in Hmine. tauto.
    - intros m p Hm Hp Hne. pose proof (Hoth m Hm p Hp Hne) as H. unfold recf, touched.
      destruct (mf_get m mf) as [r|]; [|rewrite H; reflexivity].
      destruct (mf_get m mf') as [r'|]; [destruct H as (_ & _ & H); exact H|symmetry; exact H].
    - intros m r' Hm Hg. pose proof (Hoth m Hm dummy_path dummy_wf dummy_ne) as H.
      destruct (mf_get m mf) as [r|]; [|congruence].
      rewrite Hg in H. exists r. tauto.
  Qed.

  Lemma shallow_step : forall live mf mgr cfg fs,
    setting_ok c R ver -> state_ok c ver live mf -> op_ok c ver (HApply mgr cfg true) ->
    nodup s tr live -> solid s tr live -> shallow c ver cfg live mf mgr ->
    to_field_set s tr cfg = Some fs ->
    exists o mf',
      hstep c ver (live, mf) (HApply mgr cfg true) = (o, mf') /\
      state_ok c ver o mf' /\ dstep s tr live cfg (Dd c ver mf cfg mgr) o /\
      (forall p, wf_path p = true -> p <> [] -> recf mf' mgr p = ps_has p fs) /\
      (forall r', mf_get mgr mf' = Some r' -> mr_applied r' = true /\ mr_ver r' = ver) /\
      (forall m p, m <> mgr -> wf_path p = true -> p <> [] ->
         recf mf' m p = recf mf m p && negb (touched (ref_diff s tr live o) p)) /\
      (forall m r', m <> mgr -> mf_get m mf' = Some r' ->
         exists r, mf_get m mf = Some r /\ mr_applied r' = mr_applied r /\ mr_ver r' = mr_ver r).
  Proof.
    intros live mf mgr cfg fs Hset Hst Hop Nl Sl Hsh Hfs.
    destruct (ConflictsApply.forced_apply_succeeds c R ver live mf mgr cfg Hset Hst Hop) as (o & mf' & Happly).
    pose proof (apply_step c R ver live mf mgr cfg true o mf' Hset Hst Hop Happly) as Hst'.
    pose proof (shallow_dstep c R ver live mf mgr cfg o mf' Hset Hst Hop Nl Sl Hsh Happly) as HD.
    pose proof (step_records live mf mgr cfg fs o mf' Hset Hst Hop Happly Hfs) as Hrec. cbv zeta in Hrec.
    set (res := match o with Some t => snd t | None => live end) in *.
    exists res, mf'. split.
    { cbn [hstep fst snd]. rewrite Happly. unfold res. destruct o as [t|]; reflexivity. }
    split; [exact Hst'|]. split; [exact HD|]. exact Hrec.
  Qed.

  (* a leaf that a step keeps is not reported by the reference diff *)
  Lemma untouched : forall l r D o p n, setting_ok c R ver -> good s tr l -> nodup s tr l -> solid s tr l ->
    cfg_ok s tr r -> dstep s tr l r D o -> wf_path p = true -> p <> [] ->
    resolve_path s tr l p = Some n -> rnode_is_leaf s n = true -> has_leaf s tr o p n = true ->
    touched (ref_diff s tr l o) p = false.
  Proof.
    intros l r D o p n Hset Gl Nl Sl Cr HD Hp Hpne Hn Ln Ho.
    pose proof Hset as (Hni & Hcid & Hok & Hfam & Hpure & Htr & Hkp). fold s tr in Hok, Hfam, Hpure, Htr.
    pose proof (ds_good _ _ _ _ _ _ HD) as Go.
    pose proof (dstep_nodup s R Hok Hfam tr l r D o Htr Nl Cr HD) as No.
    pose proof (solid_dstep s R Hok Hfam tr l r D o Htr Gl Sl Cr HD) as So.
    destruct n as [t x|t xs]; [|exfalso; exact (Nl p t xs Hp Hn)].
    apply (touched_same c R ver l o p t x Hset Gl Go No Sl So Hp Hpne Hn).
    apply (same_of_kept_leaf s R Hok Hfam tr l o p (RNode t x) Htr Gl Go No Hp Hn Ln Ho Nl).
  Qed.

  (* the side condition passes to the state after the other manager's step *)
  Lemma shallow_after : forall live mf oA mfA b cfgB,
    setting_ok c R ver -> good s tr live -> nodup s tr live -> solid s tr live ->
    good s tr oA -> nodup s tr oA -> solid s tr oA ->
    (forall p, wf_path p = true -> p <> [] ->
       recf mfA b p = recf mf b p && negb (touched (ref_diff s tr live oA) p)) ->
    shallow c ver cfgB live mf b -> shallow c ver cfgB oA mfA b.
  Proof.
    intros live mf oA mfA b cfgB Hset Gl Nl Sl GA NA SA RA3 Hb last p Hg Hp Hh.
    pose proof Hset as (Hni & Hcid & Hok & Hfam & Hpure & Htr & Hkp). fold s tr in Hok, Hfam, Hpure, Htr.
    pose proof (has_nonnil _ _ Hh) as Hpne.
    assert (E : recf mfA b p = true) by (unfold recf; rewrite Hg; exact Hh).
    rewrite (RA3 p Hp Hpne) in E. apply andb_true_iff in E. destruct E as [E1 E2].
    apply negb_true_iff in E2.
    destruct (recf_inv mf b p E1) as (r0 & Hg0 & Hh0).
    destruct (Hb r0 p Hg0 Hp Hh0) as [H|[(n & Hn & Ln) Hpre]]; [left; exact H|right].
    split; [|exact Hpre].
    destruct n as [t x|t xs]; [|exfalso; exact (Nl p t xs Hp Hn)].
    apply (touched_same c R ver live oA p t x Hset Gl GA NA Sl SA Hp Hpne Hn) in E2.
    destruct (same_at_inv s R Hok Hfam tr live oA p Htr Gl GA Hp E2) as (t' & x' & y & El & Eo & Hs & _ & _ & Cx & _).
    fold s tr in Hn. rewrite Hn in El. inversion El; subst t' x'.
    exists (RNode t y). split; [exact Eo|].
    pose proof (leaf_kind s t x Cx Ln) as Kx. unfold same_v in Hs. rewrite Kx in Hs.
    cbn [rnode_is_leaf]. fold s. destruct (kind_of s t y); try contradiction; reflexivity.
  Qed.

  (* ================= two steps, both orders ================= *)
  Section Pair2.
    Variables (live : value) (mf : managed) (a b : string) (cfgA cfgB : value) (fsA fsB : pset)
              (oA oAB oB oBA : value) (mfA mfB : managed).
    Hypothesis Hset : setting_ok c R ver.
    Hypothesis Hst : state_ok c ver live mf.
    Hypothesis Gl : good s tr live.
    Hypothesis Nl : nodup s tr live.
    Hypothesis Sl : solid s tr live.
    Hypothesis Hab : a <> b.
    Hypothesis HopA : op_ok c ver (HApply a cfgA true).
    Hypothesis HopB : op_ok c ver (HApply b cfgB true).
    Hypothesis HfA : to_field_set s tr cfgA = Some fsA.
    Hypothesis HfB : to_field_set s tr cfgB = Some fsB.
    Hypothesis Hd : prefix_disjoint fsA fsB.
    Hypothesis StA : state_ok c ver oA mfA.
    Hypothesis StB : state_ok c ver oB mfB.
    Hypothesis MA : dstep s tr live cfgA (Dd c ver mf cfgA a) oA.
    Hypothesis MAB : dstep s tr oA cfgB (Dd c ver mfA cfgB b) oAB.
    Hypothesis MB : dstep s tr live cfgB (Dd c ver mf cfgB b) oB.
    Hypothesis MBA : dstep s tr oB cfgA (Dd c ver mfB cfgA a) oBA.
    Hypothesis RA1 : forall p, wf_path p = true -> p <> [] -> recf mfA a p = ps_has p fsA.
    Hypothesis RA3 : forall m p, m <> a -> wf_path p = true -> p <> [] ->
      recf mfA m p = recf mf m p && negb (touched (ref_diff s tr live oA) p).
    Hypothesis RB1 : forall p, wf_path p = true -> p <> [] -> recf mfB b p = ps_has p fsB.
    Hypothesis RB3 : forall m p, m <> b -> wf_path p = true -> p <> [] ->
      recf mfB m p = recf mf m p && negb (touched (ref_diff s tr live oB) p).

    Let Hba : b <> a := fun E => Hab (eq_sym E).
    Let CA : cfg_ok s tr cfgA.
    Proof. destruct HopA as (W & C & P & _); repeat split; assumption. Qed.
    Let CB : cfg_ok s tr cfgB.
    Proof. destruct HopB as (W & C & P & _); repeat split; assumption. Qed.

    Lemma member_present : forall p, wf_path p = true -> ps_has p fsA = true -> present s tr cfgA p = true.
    Proof.
      intros p Hp Hh.
      destruct (member_unreached c R ver cfgA cfgB fsA fsB p Hset HopA HopB HfA HfB Hd Hp Hh) as (H & _). exact H.
    Qed.

    Lemma open_absent : forall r p, open_along s tr r p -> present s tr r p = false.
    Proof. intros r p [_ H]. unfold present. rewrite H. reflexivity. Qed.

    Lemma pair_lin : lin s tr oAB oBA.
    Proof.
      pose proof Hset as (Hni & Hcid & Hok & Hfam & Hpure & Htr & Hkp). fold s tr in Hok, Hfam, Hpure, Htr.
      pose proof (sep_of_disjoint c R ver cfgA cfgB fsA fsB Hset HopA HopB HfA HfB Hd) as SAB.
      pose proof (so_mf c ver live mf Hst) as Hmf. pose proof (so_mf c ver oA mfA StA) as HmfA.
      pose proof (so_mf c ver oB mfB StB) as HmfB.
      apply (commute_lin_d s R Hok Hfam tr live cfgA cfgB _ _ _ _ oA oAB oB oBA Htr Gl CA CB SAB MA MAB MB MBA).
      - (* a leaf of cfgB is owned by b when a prunes *)
        intros p n Hp Hn Ln (_ & _ & Hno).
        assert (Hpne : p <> []).
        { intros ->. destruct HopB as (_ & _ & _ & G). exact (root_not_leaf s tr cfgB n G Hn Ln). }
        pose proof (leaf_member s R Hok Hfam tr cfgB fsB p n Htr CB HfB Hp Hpne Hn Ln) as HqB.
        assert (E : recf mfB b p = true) by (rewrite (RB1 p Hp Hpne); exact HqB).
        rewrite (others_true a mfB p b HmfB Hp Hba E) in Hno. discriminate.
      - intros p n Hp Hn Ln OA OB HoA NDA NDB' (Hr & Hnp & Hno). apply NDB'.
        pose proof (recf_nonnil _ _ _ Hr) as Hpne.
        pose proof (untouched live cfgA _ oA p n Hset Gl Nl Sl CA MA Hp Hpne Hn Ln HoA) as UA.
        split; [|split].
        + rewrite (RA3 b p Hba Hp Hpne), Hr, UA. reflexivity.
        + exact Hnp.
        + destruct (ps_has p (others_set b mfA)) eqn:E; [exfalso|reflexivity].
          destruct (others_inv b mfA p HmfA Hp E) as (m & Hm & Hrm).
          destruct (String.eqb_spec m a) as [->|Hma].
          * rewrite (RA1 p Hp Hpne) in Hrm. pose proof (member_present p Hp Hrm) as H1.
            pose proof (open_absent cfgA p OA) as H2. congruence.
          * rewrite (RA3 m p Hma Hp Hpne) in Hrm. apply andb_true_iff in Hrm. destruct Hrm as [Hrm _].
            rewrite (others_true b mf p m Hmf Hp Hm Hrm) in Hno. discriminate.
      - intros p n Hp Hn Ln OA OB HoA HoB NDA NDB' (Hr & Hnp & Hno).
        pose proof (recf_nonnil _ _ _ Hr) as Hpne.
        pose proof (untouched live cfgA _ oA p n Hset Gl Nl Sl CA MA Hp Hpne Hn Ln HoA) as UA.
        pose proof (untouched live cfgB _ oB p n Hset Gl Nl Sl CB MB Hp Hpne Hn Ln HoB) as UB.
        rewrite (RB3 a p Hab Hp Hpne) in Hr. apply andb_true_iff in Hr. destruct Hr as [Hra _].
        assert (Ho : ps_has p (others_set a mf) = true).
        { destruct (ps_has p (others_set a mf)) eqn:E; [reflexivity|]. exfalso. apply NDA.
          split; [exact Hra|]. split; [exact Hnp|exact E]. }
        destruct (others_inv a mf p Hmf Hp Ho) as (m & Hm & Hrm).
        assert (Hkeep : forall m', m' <> a -> m' <> b -> recf mf m' p = true -> False).
        { intros m' H1 H2 H3.
          assert (E : recf mfB m' p = true) by (rewrite (RB3 m' p H2 Hp Hpne), H3, UB; reflexivity).
          rewrite (others_true a mfB p m' HmfB Hp H1 E) in Hno. discriminate. }
        destruct (String.eqb_spec m b) as [->|Hmb]; [|exact (Hkeep m Hm Hmb Hrm)].
        apply NDB'. split; [|split].
        + rewrite (RA3 b p Hba Hp Hpne), Hrm, UA. reflexivity.
        + apply (open_absent cfgB p OB).
        + destruct (ps_has p (others_set b mfA)) eqn:E; [exfalso|reflexivity].
          destruct (others_inv b mfA p HmfA Hp E) as (m' & Hm' & Hrm').
          destruct (String.eqb_spec m' a) as [->|Hma].
          * rewrite (RA1 p Hp Hpne) in Hrm'. pose proof (member_present p Hp Hrm') as H1.
            unfold s, tr in H1. rewrite H1 in Hnp. discriminate.
          * rewrite (RA3 m' p Hma Hp Hpne) in Hrm'. apply andb_true_iff in Hrm'. destruct Hrm' as [Hrm' _].
            exact (Hkeep m' Hma Hm' Hrm').
    Qed.

    Lemma pair_others_d : forall m p t x, m <> a -> m <> b -> wf_path p = true -> p <> [] ->
      recf mf m p = true -> resolve_path s tr live p = Some (RNode t x) ->
      touched (ref_diff s tr live oA) p = false -> touched (ref_diff s tr oA oAB) p = false ->
      touched (ref_diff s tr live oB) p = false /\ touched (ref_diff s tr oB oBA) p = false.
    Proof.
      intros m p t x Hma Hmb Hp Hne Hrm El T1 T2.
      pose proof Hset as (Hni & Hcid & Hok & Hfam & Hpure & Htr & Hkp). fold s tr in Hok, Hfam, Hpure, Htr.
      pose proof (so_mf c ver live mf Hst) as Hmf.
      pose proof (ds_good _ _ _ _ _ _ MA) as GA. pose proof (ds_good _ _ _ _ _ _ MAB) as GAB.
      pose proof (ds_good _ _ _ _ _ _ MB) as GB. pose proof (ds_good _ _ _ _ _ _ MBA) as GBA.
      pose proof (dstep_nodup s R Hok Hfam tr live cfgA _ oA Htr Nl CA MA) as NA.
      pose proof (dstep_nodup s R Hok Hfam tr oA cfgB _ oAB Htr NA CB MAB) as NAB.
      pose proof (dstep_nodup s R Hok Hfam tr live cfgB _ oB Htr Nl CB MB) as NB.
      pose proof (dstep_nodup s R Hok Hfam tr oB cfgA _ oBA Htr NB CA MBA) as NBA.
      pose proof (solid_dstep s R Hok Hfam tr live cfgA _ oA Htr Gl Sl CA MA) as SA.
      pose proof (solid_dstep s R Hok Hfam tr oA cfgB _ oAB Htr GA SA CB MAB) as SAB'.
      pose proof (solid_dstep s R Hok Hfam tr live cfgB _ oB Htr Gl Sl CB MB) as SB.
      pose proof (solid_dstep s R Hok Hfam tr oB cfgA _ oBA Htr GB SB CA MBA) as SBA'.
      apply (touched_same c R ver live oA p t x Hset Gl GA NA Sl SA Hp Hne El) in T1.
      destruct (same_at_inv s R Hok Hfam tr live oA p Htr Gl GA Hp T1) as (t1 & x1 & y1 & E1 & EA & _).
      apply (touched_same c R ver oA oAB p t1 y1 Hset GA GAB NAB SA SAB' Hp Hne EA) in T2.
      assert (HnD : ~ Dd c ver mf cfgB b p).
      { intros (_ & _ & Hno). rewrite (others_true b mf p m Hmf Hp Hmb Hrm) in Hno. discriminate. }
      destruct (others_same_d s R Hok Hfam tr live cfgA cfgB _ _ _ _ oA oAB oB oBA p t x Htr Gl Nl CA CB
                  MA MAB MB MBA pair_lin Hp Hne HnD El T1 T2) as [T3 T4].
      split.
      - apply (touched_same c R ver live oB p t x Hset Gl GB NB Sl SB Hp Hne El). exact T3.
      - destruct (same_at_inv s R Hok Hfam tr oB oBA p Htr GB GBA Hp T4) as (t2 & x2 & y2 & EB & _).
        apply (touched_same c R ver oB oBA p t2 x2 Hset GB GBA NBA SB SBA' Hp Hne EB). exact T4.
    Qed.

    Lemma pair_applier_d : forall p, wf_path p = true -> p <> [] -> ps_has p fsA = true ->
      touched (ref_diff s tr oA oAB) p = false.
    Proof.
      intros p Hp Hne Hh.
      pose proof Hset as (Hni & Hcid & Hok & Hfam & Hpure & Htr & Hkp). fold s tr in Hok, Hfam, Hpure, Htr.
      pose proof (so_mf c ver oA mfA StA) as HmfA.
      pose proof (ds_good _ _ _ _ _ _ MA) as GA. pose proof (ds_good _ _ _ _ _ _ MAB) as GAB.
      pose proof (dstep_nodup s R Hok Hfam tr live cfgA _ oA Htr Nl CA MA) as NA.
      pose proof (dstep_nodup s R Hok Hfam tr oA cfgB _ oAB Htr NA CB MAB) as NAB.
      pose proof (solid_dstep s R Hok Hfam tr live cfgA _ oA Htr Gl Sl CA MA) as SA.
      pose proof (solid_dstep s R Hok Hfam tr oA cfgB _ oAB Htr GA SA CB MAB) as SAB'.
      destruct (member_unreached c R ver cfgA cfgB fsA fsB p Hset HopA HopB HfA HfB Hd Hp Hh) as (Hpr & Hnone & Hfree).
      assert (HnD : ~ Dd c ver mfA cfgB b p).
      { intros (_ & _ & Hno).
        assert (E : recf mfA a p = true) by (rewrite (RA1 p Hp Hne); exact Hh).
        rewrite (others_true b mfA p a HmfA Hp Hab E) in Hno. discriminate. }
      pose proof (cfg_node_same_d s R Hok Hfam tr live cfgA cfgB _ _ oA oAB p Htr Gl Nl CA CB MA MAB Hp Hne HnD
                    Hpr Hnone Hfree) as Hs.
      destruct (same_at_inv s R Hok Hfam tr oA oAB p Htr GA GAB Hp Hs) as (t1 & x1 & y1 & EA & _).
      apply (touched_same c R ver oA oAB p t1 x1 Hset GA GAB NAB SA SAB' Hp Hne EA). exact Hs.
    Qed.
  End Pair2.

  (* ================= the theorem ================= *)
  Theorem shallow_abandoning_applies_commute : forall live mf a b cfgA cfgB fsA fsB,
    setting_ok c R ver -> state_ok c ver live mf -> dup_free s tr live = true -> hollow_free live ->
    a <> b -> shallow c ver cfgA live mf a -> shallow c ver cfgB live mf b ->
    op_ok c ver (HApply a cfgA true) -> op_ok c ver (HApply b cfgB true) ->
    to_field_set s tr cfgA = Some fsA -> to_field_set s tr cfgB = Some fsB ->
    prefix_disjoint fsA fsB ->
    let sAB := both c ver (live, mf) (HApply a cfgA true) (HApply b cfgB true) in
    let sBA := both c ver (live, mf) (HApply b cfgB true) (HApply a cfgA true) in
    veq_assoc s tr (fst sAB) (fst sBA) = true /\ same_records (snd sAB) (snd sBA).
  Proof.
    intros live mf a b cfgA cfgB fsA fsB Hset Hst Hdf Hhf Hab Ha Hb HopA HopB HfA HfB Hd sAB sBA.
    pose proof Hset as (Hni & Hcid & Hok & Hfam & Hpure & Htr & Hkp). fold s tr in Hok, Hfam, Hpure, Htr.
    assert (Hba : b <> a) by (intros E; apply Hab; symmetry; exact E).
    pose proof (state_ok_conforms c ver live mf _ Hst HopA) as Hcl. fold s tr in Hcl.
    pose proof (so_wf c ver live mf Hst) as Hwl.
    assert (Gl : good s tr live) by (split; assumption).
    assert (Nl : nodup s tr live).
    { intros p t xs Hp. apply (nodup_of_dup_free s R Hok Hfam p (S (vdepth live)) tr live Htr Gl Hdf t xs Hp). }
    assert (Sl : solid s tr live) by (apply (solid_plain s R Hok tr live Htr Hwl Hhf)).
    assert (CA : cfg_ok s tr cfgA) by (destruct HopA as (W & C & P & _); repeat split; assumption).
    assert (CB : cfg_ok s tr cfgB) by (destruct HopB as (W & C & P & _); repeat split; assumption).
    pose proof (prefix_disjoint_sym fsA fsB Hd) as Hd'.
    (* A then B *)
    destruct (shallow_step live mf a cfgA fsA Hset Hst HopA Nl Sl Ha HfA)
      as (oA & mfA & EA & StA & MA & RA1 & RA2 & RA3 & RA4).
    pose proof (ds_good _ _ _ _ _ _ MA) as GA.
    pose proof (dstep_nodup s R Hok Hfam tr live cfgA _ oA Htr Nl CA MA) as NA.
    pose proof (solid_dstep s R Hok Hfam tr live cfgA _ oA Htr Gl Sl CA MA) as SA.
    pose proof (shallow_after live mf oA mfA b cfgB Hset Gl Nl Sl GA NA SA (fun p => RA3 b p Hba) Hb) as HbA.
    destruct (shallow_step oA mfA b cfgB fsB Hset StA HopB NA SA HbA HfB)
      as (oAB & mfAB & EAB & StAB & MAB & RAB1 & RAB2 & RAB3 & RAB4).
    (* B then A *)
    destruct (shallow_step live mf b cfgB fsB Hset Hst HopB Nl Sl Hb HfB)
      as (oB & mfB & EB & StB & MB & RB1 & RB2 & RB3 & RB4).
    pose proof (ds_good _ _ _ _ _ _ MB) as GB.
    pose proof (dstep_nodup s R Hok Hfam tr live cfgB _ oB Htr Nl CB MB) as NB.
    pose proof (solid_dstep s R Hok Hfam tr live cfgB _ oB Htr Gl Sl CB MB) as SB.
    pose proof (shallow_after live mf oB mfB a cfgA Hset Gl Nl Sl GB NB SB (fun p => RB3 a p Hab) Ha) as HaB.
    destruct (shallow_step oB mfB a cfgA fsA Hset StB HopA NB SB HaB HfA)
      as (oBA & mfBA & EBA & StBA & MBA & RBA1 & RBA2 & RBA3 & RBA4).
    assert (EsAB : sAB = (oAB, mfAB)) by (unfold sAB, both; rewrite EA; exact EAB).
    assert (EsBA : sBA = (oBA, mfBA)) by (unfold sBA, both; rewrite EB; exact EBA).
    rewrite EsAB, EsBA. cbn [fst snd].
    pose proof (ds_good _ _ _ _ _ _ MAB) as GAB. pose proof (ds_good _ _ _ _ _ _ MBA) as GBA.
    pose proof (dstep_nodup s R Hok Hfam tr oB cfgA _ oBA Htr NB CA MBA) as NBA.
    pose proof (pair_lin live mf a b cfgA cfgB fsA fsB oA oAB oB oBA mfA mfB Hset Hst Gl Nl Sl Hab HopA HopB
                  HfA HfB Hd StA StB MA MAB MB MBA RA1 RA3 RB1 RB3) as L1.
    pose proof (pair_lin live mf b a cfgB cfgA fsB fsA oB oBA oA oAB mfB mfA Hset Hst Gl Nl Sl Hba HopB HopA
                  HfB HfA Hd' StB StA MB MBA MA MAB RB1 RB3 RA1 RA3) as L2.
    split.
    - apply (same_leaves_nodup_veq_assoc s R Hok Hfam tr oBA oAB Htr GBA NBA GAB); assumption.
    - apply same_records_intro.
      + intros m r Hg. split; [apply (mf_ok_get mfAB m r (so_mf _ _ _ _ StAB) Hg)|apply (so_nonempty _ _ _ _ StAB m r Hg)].
      + intros m r Hg. split; [apply (mf_ok_get mfBA m r (so_mf _ _ _ _ StBA) Hg)|apply (so_nonempty _ _ _ _ StBA m r Hg)].
      + intros m r1 r2 E1 E2.
        destruct (String.eqb_spec m a) as [->|Hma]; [|destruct (String.eqb_spec m b) as [->|Hmb]].
        * destruct (RAB4 a r1 Hab E1) as (r & Hr & Fa & Fv). destruct (RA2 r Hr) as [Fa' Fv'].
          destruct (RBA2 r2 E2) as [Ga' Gv']. split; congruence.
        * destruct (RBA4 b r2 Hba E2) as (r & Hr & Fa & Fv). destruct (RB2 r Hr) as [Fa' Fv'].
          destruct (RAB2 r1 E1) as [Ga' Gv']. split; congruence.
        * destruct (RAB4 m r1 Hmb E1) as (r & Hr & Fa & Fv). destruct (RA4 m r Hma Hr) as (r0 & Hr0 & Fa0 & Fv0).
          destruct (RBA4 m r2 Hma E2) as (r' & Hr' & Ga' & Gv'). destruct (RB4 m r' Hmb Hr') as (r0' & Hr0' & Ga0 & Gv0).
          rewrite Hr0 in Hr0'. inversion Hr0'; subst r0'. split; congruence.
      + intros m p Hp Hne.
        destruct (String.eqb_spec m a) as [->|Hma]; [|destruct (String.eqb_spec m b) as [->|Hmb]].
        * rewrite (RAB3 a p Hab Hp Hne), (RA1 p Hp Hne), (RBA1 p Hp Hne).
          destruct (ps_has p fsA) eqn:Eh; [|reflexivity]. cbn [andb].
          rewrite (pair_applier_d live mf a b cfgA cfgB fsA fsB oA oAB mfA Hset Gl Nl Sl Hab HopA HopB HfA HfB Hd
                     StA MA MAB RA1 p Hp Hne Eh).
          reflexivity.
        * rewrite (RAB1 p Hp Hne), (RBA3 b p Hba Hp Hne), (RB1 p Hp Hne).
          destruct (ps_has p fsB) eqn:Eh; [|reflexivity]. cbn [andb].
          rewrite (pair_applier_d live mf b a cfgB cfgA fsB fsA oB oBA mfB Hset Gl Nl Sl Hba HopB HopA HfB HfA Hd'
                     StB MB MBA RB1 p Hp Hne Eh).
          reflexivity.
        * rewrite (RAB3 m p Hmb Hp Hne), (RA3 m p Hma Hp Hne), (RBA3 m p Hma Hp Hne), (RB3 m p Hmb Hp Hne).
          destruct (recf mf m p) eqn:Er; [|reflexivity]. cbn [andb].
          destruct (recf_inv mf m p Er) as (r & Eg & Er').
          pose proof (so_present c ver live mf Hst m r p Eg Hp Er') as Hpr. fold s tr in Hpr. unfold present in Hpr.
          destruct (resolve_path s tr live p) as [[t x|t xs]|] eqn:El; [| |discriminate].
          2:{ exfalso. exact (Nl p t xs Hp El). }
          pose proof (pair_others_d live mf a b cfgA cfgB fsA fsB oA oAB oB oBA mfA mfB Hset Hst Gl Nl Sl Hab HopA HopB
                        HfA HfB Hd StA StB MA MAB MB MBA RA1 RA3 RB1 RB3 m p t x Hma Hmb Hp Hne Er El) as F.
          pose proof (pair_others_d live mf b a cfgB cfgA fsB fsA oB oBA oA oAB mfB mfA Hset Hst Gl Nl Sl Hba HopB HopA
                        HfB HfA Hd' StB StA MB MBA MA MAB RB1 RB3 RA1 RA3 m p t x Hmb Hma Hp Hne Er El) as G.
          destruct (touched (ref_diff s tr live oA) p); destruct (touched (ref_diff s tr oA oAB) p);
            destruct (touched (ref_diff s tr live oB) p); destruct (touched (ref_diff s tr oB oBA) p);
            try reflexivity; exfalso;
            try (destruct (F eq_refl eq_refl) as [F1 F2]; discriminate);
            try (destruct (G eq_refl eq_refl) as [G1 G2]; discriminate).
  Qed.
End Commute2.

(* ================= checking [shallow] on a concrete record ================= *)
Lemma patheqb_firstn : forall p q j, patheqb p q = true -> patheqb (firstn j p) (firstn j q) = true.
Proof.
  induction p as [|x p IH]; intros [|y q] j H; simpl in H; try discriminate.
  - destruct j; reflexivity.
  - destruct j as [|j]; [reflexivity|]. apply andb_true_iff in H. destruct H as [H1 H2].
    cbn [firstn patheqb]. rewrite H1, (IH q j H2). reflexivity.
Qed.

Lemma patheqb_length : forall p q, patheqb p q = true -> List.length p = List.length q.
Proof.
  induction p as [|x p IH]; intros [|y q] H; simpl in H; try discriminate; [reflexivity|].
  apply andb_true_iff in H. destruct H as [_ H]. cbn [List.length]. rewrite (IH q H). reflexivity.
Qed.

Definition shallow_b (c : config) (ver : string) (cfg live : value) (mf : managed) (mgr : string) : bool :=
  let s := schema_of c ver in let tr := tr_of c ver in
  match mf_get mgr mf with
  | Some last =>
      forallb (fun p => present s tr cfg p ||
                 (match resolve_path s tr live p with Some n => rnode_is_leaf s n | None => false end &&
                  forallb (fun j => present s tr cfg (firstn j p)) (seq 1 (List.length p - 1))))
              (ps_elems (mr_set last))
  | None => true
  end.

Lemma shallow_of_check : forall c R ver cfg live mf mgr,
  setting_ok c R ver -> mf_ok mf -> wf_value cfg = true -> wf_value live = true ->
  shallow_b c ver cfg live mf mgr = true -> shallow c ver cfg live mf mgr.
Proof.
  intros c R ver cfg live mf mgr (Hni & Hcid & Hok & Hfam & Hpure & Htr & Hkp) Hmf Hwc Hwl Hchk last p Hg Hp Hh.
  unfold shallow_b in Hchk. rewrite Hg in Hchk. cbv zeta in Hchk.
  pose proof (mf_ok_get mf mgr last Hmf Hg) as Hlok.
  rewrite (ps_has_elems (mr_set last) p Hlok Hp) in Hh. unfold pmem in Hh. apply existsb_exists in Hh.
  destruct Hh as (p' & Hin & Hpp).
  pose proof (ps_elems_wf (mr_set last) Hlok) as W. rewrite forallb_forall in W. pose proof (W p' Hin) as Hp'.
  rewrite forallb_forall in Hchk. pose proof (Hchk p' Hin) as H.
  assert (Etr : forall v j, wf_value v = true ->
            resolve_path (schema_of c ver) (tr_of c ver) v (firstn j p) =
            resolve_path (schema_of c ver) (tr_of c ver) v (firstn j p')).
  { intros v j Hv.
    apply (RefDiffChar.resolve_patheqb (schema_of c ver) R Hok (firstn j p) (firstn j p')
             (patheqb_firstn p p' j Hpp) (ReconcileBase.wf_path_firstn j p Hp) (ReconcileBase.wf_path_firstn j p' Hp')
             v (tr_of c ver) Htr Hv). }
  assert (Efull : forall v, wf_value v = true ->
            resolve_path (schema_of c ver) (tr_of c ver) v p = resolve_path (schema_of c ver) (tr_of c ver) v p').
  { intros v Hv. apply (RefDiffChar.resolve_patheqb (schema_of c ver) R Hok p p' Hpp Hp Hp' v (tr_of c ver) Htr Hv). }
  apply orb_true_iff in H. destruct H as [H|H].
  - left. unfold present in *. rewrite (Efull cfg Hwc). exact H.
  - right. apply andb_true_iff in H. destruct H as [H1 H2]. split.
    + rewrite (Efull live Hwl). destruct (resolve_path (schema_of c ver) (tr_of c ver) live p') as [n|]; [|discriminate].
      exists n. split; [reflexivity|exact H1].
    + intros j Hj. rewrite forallb_forall in H2. unfold present in *. rewrite (Etr cfg j Hwc).
      apply H2. apply in_seq. rewrite <- (patheqb_length p p' Hpp). lia.
Qed.

(* ================= non-vacuity and necessity ================= *)
Section Examples2.
  Open Scope string_scope.
  Let F := PEField.
  Let K (n : string) := PEKey [("name", VStr n)].
  Let item (n : string) (v : Z) := VMap [("name", VStr n); ("vv", VInt v)].
  Let itemn (n : string) := VMap [("name", VStr n)].
  Let s := schema_of ex_config "v1".
  Let tr := tr_of ex_config "v1".

  (* final state of the history of Proofs/History.v.  Manager a owns aa, items[y], items[y].name
     and applies the member y alone: it ABANDONS the number aa (nobody else owns it: it is
     removed).  Manager c owns mm.k and applies mm.j: it ABANDONS the entry mm.k (the map
     stays).  Neither satisfies [keeps_all]; both satisfy [shallow]. *)
  Definition ax_cfgA : value := VMap [("items", VList [itemn "y"])].
  Definition ax_cfgB : value := VMap [("mm", VMap [("j", VInt 1)])].
  Definition ax_fsA : pset := ps_of_paths [[F "items"; K "y"]; [F "items"; K "y"; F "name"]].
  Definition ax_fsB : pset := ps_of_paths [[F "mm"; F "j"]].
  Definition ax_obj : value :=
    VMap [("items", VList [item "y" 7; item "z" 3]); ("mm", VMap [("j", VInt 1)])].

  Example abandoning_example :
    let sAB := both ex_config "v1" (hx_obj, hx_mf) (HApply "a" ax_cfgA true) (HApply "c" ax_cfgB true) in
    let sBA := both ex_config "v1" (hx_obj, hx_mf) (HApply "c" ax_cfgB true) (HApply "a" ax_cfgA true) in
    (* both abandon something *)
    (~ keeps_all ex_config "v1" ax_cfgA hx_mf "a" /\ ~ keeps_all ex_config "v1" ax_cfgB hx_mf "c") /\
    (* by the theorem *)
    (veq_assoc s tr (fst sAB) (fst sBA) = true /\ same_records (snd sAB) (snd sBA)) /\
    (* by evaluation: the number and the entry mm.k are gone in both orders *)
    fst sAB = ax_obj /\ fst sBA = ax_obj /\
    map (fun mr : string * mrec => (fst mr, ps_elems (mr_set (snd mr)))) (snd sAB) =
      [("a", [[F "items"; K "y"]; [F "items"; K "y"; F "name"]]);
       ("b", [[F "items"; K "z"]; [F "items"; K "z"; F "name"]; [F "items"; K "z"; F "vv"]]);
       ("c", [[F "mm"; F "j"]]);
       ("d", [[F "items"; K "y"; F "vv"]])] /\
    map (fun mr : string * mrec => (fst mr, ps_elems (mr_set (snd mr)))) (snd sBA) =
    map (fun mr : string * mrec => (fst mr, ps_elems (mr_set (snd mr)))) (snd sAB).
  Proof.
    cbv zeta. split; [split|split].
    - intros H.
      assert (E : exists r, mf_get "a" hx_mf = Some r /\ ps_has [F "aa"] (mr_set r) = true)
        by (eexists; split; [reflexivity|vm_compute; reflexivity]).
      destruct E as (r & Hg & Hh). pose proof (H r [F "aa"] Hg eq_refl Hh) as Hpr. vm_compute in Hpr. discriminate.
    - intros H.
      assert (E : exists r, mf_get "c" hx_mf = Some r /\ ps_has [F "mm"; F "k"] (mr_set r) = true)
        by (eexists; split; [reflexivity|vm_compute; reflexivity]).
      destruct E as (r & Hg & Hh). pose proof (H r [F "mm"; F "k"] Hg eq_refl Hh) as Hpr. vm_compute in Hpr. discriminate.
    - apply (shallow_abandoning_applies_commute ex_config FieldSetLaws.ex_R "v1" hx_obj hx_mf "a" "c" ax_cfgA ax_cfgB
               ax_fsA ax_fsB ex_setting_ok rx_state_ok).
      + vm_compute; reflexivity.
      + right; vm_compute; reflexivity.
      + discriminate.
      + apply (shallow_of_check ex_config FieldSetLaws.ex_R "v1" ax_cfgA hx_obj hx_mf "a" ex_setting_ok);
          [apply (so_mf _ _ _ _ rx_state_ok)|reflexivity|reflexivity|vm_compute; reflexivity].
      + apply (shallow_of_check ex_config FieldSetLaws.ex_R "v1" ax_cfgB hx_obj hx_mf "c" ex_setting_ok);
          [apply (so_mf _ _ _ _ rx_state_ok)|reflexivity|reflexivity|vm_compute; reflexivity].
      + repeat split; try (vm_compute; reflexivity); vm_compute; exact I.
      + repeat split; try (vm_compute; reflexivity); vm_compute; exact I.
      + vm_compute; reflexivity.
      + vm_compute; reflexivity.
      + apply prefix_disjoint_of_check; vm_compute; reflexivity.
    - split; [vm_compute; reflexivity|]. split; [vm_compute; reflexivity|].
      split; vm_compute; reflexivity.
  Qed.

  (* NECESSITY of [shallow]: the witness of [Commute.disjoint_applies_commute_needs_records_disjoint].
     At the final state of the history of Proofs/History.v manager a (owner of the number, the
     member y and its name) applies the number alone: it abandons the MEMBER y, which is
     neither a node of its configuration nor a leaf; the new manager e (no record: [shallow]
     holds trivially) applies the member y.  Every other hypothesis of the theorem holds; the
     final objects are not equal up to member order and the records differ. *)
  Lemma shallow_fresh : forall c ver cfg live mf mgr, mf_get mgr mf = None -> shallow c ver cfg live mf mgr.
  Proof. intros c ver cfg live mf mgr H last p Hg. congruence. Qed.

  Theorem shallow_needed :
    setting_ok ex_config FieldSetLaws.ex_R "v1" /\ state_ok ex_config "v1" hx_obj hx_mf /\
    dup_free s tr hx_obj = true /\ hollow_free hx_obj /\ "a" <> "e" /\
    ~ shallow ex_config "v1" l4_cfgA hx_obj hx_mf "a" /\
    shallow ex_config "v1" l4_cfgB hx_obj hx_mf "e" /\
    op_ok ex_config "v1" (HApply "a" l4_cfgA true) /\ op_ok ex_config "v1" (HApply "e" l4_cfgB true) /\
    to_field_set s tr l4_cfgA = Some l2_fsA /\ to_field_set s tr l4_cfgB = Some l4_fsB /\
    prefix_disjoint l2_fsA l4_fsB /\
    let sAB := both ex_config "v1" (hx_obj, hx_mf) (HApply "a" l4_cfgA true) (HApply "e" l4_cfgB true) in
    let sBA := both ex_config "v1" (hx_obj, hx_mf) (HApply "e" l4_cfgB true) (HApply "a" l4_cfgA true) in
    veq_assoc s tr (fst sAB) (fst sBA) = false /\ ~ same_records (snd sAB) (snd sBA).
  Proof.
    destruct disjoint_applies_commute_needs_records_disjoint
      as (H1 & H2 & H3 & H4 & H5 & H6 & H7 & H8 & H9 & H10 & H11).
    cbv zeta in H11. destruct H11 as (_ & _ & _ & _ & _ & _ & H12 & H13).
    split; [exact H1|]. split; [exact H2|]. split; [exact H3|]. split; [exact H4|]. split; [exact H5|].
    split.
    { intros H.
      assert (E : exists r, mf_get "a" hx_mf = Some r /\ ps_has [F "items"; K "y"] (mr_set r) = true)
        by (eexists; split; [reflexivity|vm_compute; reflexivity]).
      destruct E as (r & Hg & Hh).
      destruct (H r [F "items"; K "y"] Hg eq_refl Hh) as [Hpr|[(n & Hn & Ln) _]].
      - vm_compute in Hpr. discriminate.
      - vm_compute in Hn. inversion Hn; subst n. vm_compute in Ln. discriminate. }
    split; [apply shallow_fresh; reflexivity|].
    split; [exact H6|]. split; [exact H7|]. split; [exact H8|]. split; [exact H9|]. split; [exact H10|].
    cbv zeta. split; [exact H12|exact H13].
  Qed.
  (* H1 IS NOT ENOUGH for (A) at a state that merely satisfies [state_ok]: the member y is in
     nobody's record; a owns items[x].vv, b owns the member x and its key; both abandon; the
     previous record of each is prefix-disjoint from the other's configuration (H1).  a first:
     b's later prune finds nothing of "items" in the closure of the records and the whole
     list goes, the unowned member with it; b first: a's record is emptied by b's step, a
     prunes nothing, the unowned member stays.  The NON-NULL leaf items[y].name is in one
     final object only.  (The state is not reachable as far as I can see: the missing
     hypothesis is a coverage invariant of histories that [state_ok] does not contain.) *)
  Definition u_obj : value := VMap [("items", VList [item "x" 5; itemn "y"])].
  Definition u_setA : pset := ps_of_paths [[F "items"; K "x"; F "vv"]].
  Definition u_setB : pset := ps_of_paths [[F "items"; K "x"]; [F "items"; K "x"; F "name"]].
  Definition u_mf : managed := [("a", mkRec u_setA "v1" false); ("b", mkRec u_setB "v1" true)].

  Lemma u_get : forall m r, mf_get m u_mf = Some r -> r = mkRec u_setA "v1" false \/ r = mkRec u_setB "v1" true.
  Proof.
    intros m r Hg. apply assoc_get_in in Hg. simpl in Hg.
    destruct Hg as [H|[H|[]]]; inversion H; [left|right]; reflexivity.
  Qed.

  Lemma u_state_ok : state_ok ex_config "v1" u_obj u_mf.
  Proof.
    constructor.
    - vm_compute. reflexivity.
    - right. vm_compute. reflexivity.
    - split; vm_compute; reflexivity.
    - vm_compute. reflexivity.
    - intros m r s' Hg. destruct (u_get m r Hg) as [-> | ->]; vm_compute; discriminate.
    - intros m r Hg. destruct (u_get m r Hg) as [-> | ->]; cbn [mr_set]; (split; [split|]);
        try (apply keys_closed_b_sound; vm_compute; reflexivity);
        try (apply (no_atomic_free ex_schema FieldSetLaws.ex_R FieldSetLaws.ex_schema_ok);
             [unfold FieldSetLaws.ex_R; simpl; tauto|exact ex_no_atomic|exact FieldSetLaws.ex_R_root]);
        unfold owns_live_keys; intros pre fl k;
        apply (owns_live_keys_b_sound ex_schema FieldSetLaws.ex_R FieldSetLaws.ex_schema_ok
                 ex_rt u_obj _ FieldSetLaws.ex_R_root); vm_compute; reflexivity.
    - intros m r p Hg Hp Hh. destruct (u_get m r Hg) as [-> | ->]; cbn [mr_set] in Hh;
        refine (OthersKeep.elems_present ex_schema FieldSetLaws.ex_R FieldSetLaws.ex_schema_ok ex_rt u_obj _
                  FieldSetLaws.ex_R_root _ _ _ p Hp Hh); vm_compute; reflexivity.
    - intros m r Hg. destruct (u_get m r Hg) as [-> | ->]; vm_compute; reflexivity.
  Qed.

  Theorem abandoning_commute_H1_not_enough :
    setting_ok ex_config FieldSetLaws.ex_R "v1" /\ state_ok ex_config "v1" u_obj u_mf /\
    dup_free s tr u_obj = true /\ hollow_free u_obj /\ "a" <> "b" /\
    op_ok ex_config "v1" (HApply "a" l2_cfgA true) /\ op_ok ex_config "v1" (HApply "b" l2_cfgB true) /\
    to_field_set s tr l2_cfgA = Some l2_fsA /\ to_field_set s tr l2_cfgB = Some l2_fsB /\
    prefix_disjoint l2_fsA l2_fsB /\
    (* H1 *)
    prefix_disjoint u_setA l2_fsB /\ prefix_disjoint u_setB l2_fsA /\
    let sAB := both ex_config "v1" (u_obj, u_mf) (HApply "a" l2_cfgA true) (HApply "b" l2_cfgB true) in
    let sBA := both ex_config "v1" (u_obj, u_mf) (HApply "b" l2_cfgB true) (HApply "a" l2_cfgA true) in
    fst sAB = VMap [("aa", VInt 1); ("mm", VMap [("k", VInt 1)])] /\
    fst sBA = VMap [("aa", VInt 1); ("items", VList [itemn "y"]); ("mm", VMap [("k", VInt 1)])] /\
    present s tr (fst sAB) [F "items"; K "y"; F "name"] = false /\
    resolve_path s tr (fst sBA) [F "items"; K "y"; F "name"] = Some (RNode ex_str (VStr "y")).
  Proof.
    split; [exact ex_setting_ok|]. split; [exact u_state_ok|].
    split; [vm_compute; reflexivity|]. split; [right; vm_compute; reflexivity|].
    split; [discriminate|].
    split; [repeat split; try (vm_compute; reflexivity); vm_compute; exact I|].
    split; [repeat split; try (vm_compute; reflexivity); vm_compute; exact I|].
    split; [vm_compute; reflexivity|]. split; [vm_compute; reflexivity|].
    split; [apply prefix_disjoint_of_check; vm_compute; reflexivity|].
    split; [apply prefix_disjoint_of_check; vm_compute; reflexivity|].
    split; [apply prefix_disjoint_of_check; vm_compute; reflexivity|].
    cbv zeta. split; [vm_compute; reflexivity|]. split; [vm_compute; reflexivity|].
    split; vm_compute; reflexivity.
  Qed.
End Examples2.

(* ================= assumptions ================= *)
