(* Helpers for Proofs/FilterHistory.v.

   1. update_core for ANY kind of filter.  Proofs/UpdaterLaws2.v proves
      [update_core_shrinks_all] under [filters_ok], which admits exclusion filters only.
      The proof needs one thing of the filters: that they map well-formed sets to
      well-formed sets ([gfilters_ok]).  The three lemmas on the fold are re-proved under
      that hypothesis (same proofs); [upost_shrinks] is reused as it is.

   2. The abstract semantics [sm_keeps] of a matcher (Proofs/IncludeFilter.v) is closed
      under non-empty prefixes and respects Path.Equals.  (This is what makes the opening
      reconciliation harmless for include filters: a pattern that keeps a path keeps every
      ancestor of it.) *)
From Coq Require Import List ZArith String Bool Arith Lia.
From SMD Require Import Model.Value Model.Order Model.PathElem Model.PathSet Model.Schema
  Model.Walk Model.FieldSet Model.Remove Model.Merge Model.Compare Model.Matcher Model.Reconcile
  Model.Updater Spec.PathsAsSets Spec.Patterns Proofs.OrderLaws Proofs.PathSetLaws Proofs.UpdaterLaws
  Proofs.UpdaterLaws2.
From SMD Require Proofs.IncludeFilter Proofs.IncludeDenote Proofs.IncludeLaws Proofs.ReconcileBase.
Import ListNotations.
Open Scope bool_scope.

(* ================= update_core, any filter that preserves well-formedness ================= *)

Definition gfilters_ok (c : config) : Prop :=
  forall v f s, ignore_filter_for c v = Some f -> ps_ok s = true -> ps_ok (filter_set f s) = true.

Lemma gfilter_cmp_ok : forall c v f cmp, gfilters_ok c -> ignore_filter_for c v = Some f ->
  cmp_ok cmp -> cmp_ok (filter_cmp f cmp).
Proof.
  intros c v f cmp Hf Hv [HR [HM HA]]. unfold filter_cmp, cmp_ok. cbn [removed modified added].
  split; [|split]; eapply Hf; eassumption.
Qed.

Lemma filters_ok_g : forall c, filters_ok c -> gfilters_ok c.
Proof. intros c H v f s Hv Hs. eapply filter_set_ok; eassumption. Qed.

Lemma g_ustep_inv : forall c old new w mf st mr st',
  compare_ok_wf c -> conv_wf c -> wf_value (snd old) = true -> wf_value (snd new) = true ->
  gfilters_ok c -> uinv mf st -> ps_ok (mr_set (snd mr)) = true ->
  ustep c old new w (UOk st) mr = UOk st' -> uinv mf st'.
Proof.
  intros c old new w mf st mr st' Hcok Hcv Hwo Hwn Hfok Hinv Hrok H. unfold ustep in H.
  destruct (String.eqb (fst mr) w).
  { inversion H; subst; exact Hinv. }
  destruct (assoc_get (mr_ver (snd mr)) (us_versions st)) as [cmp|] eqn:Hget.
  { eapply with_cmp_inv; [exact Hinv| |exact Hrok|exact H].
    destruct Hinv as [_ [Hv _]]. apply assoc_get_in in Hget.
    rewrite Forall_forall in Hv. exact (Hv _ Hget). }
  unfold convert in H. cbn [fst snd] in H.
  assert (forall n1, uinv mf (mkUpd (mf_del (fst mr) (us_managers st)) (us_versions st)
                                 (us_conflicts st) (us_removed st) n1)) as Hdel.
  { intros n1. destruct Hinv as [Hsub [Hv [Hc Hr]]]. unfold uinv.
    cbn [us_managers us_versions us_conflicts us_removed].
    split; [apply sub_assoc_del; exact Hsub|]. split; [exact Hv|]. split; assumption. }
  destruct (cfg_convert c (us_n st) (fst old) (mr_ver (snd mr)) (snd old)) as [vold| |] eqn:Eo;
    [|inversion H; subst; apply Hdel|discriminate].
  destruct (cfg_convert c (S (us_n st)) (fst new) (mr_ver (snd mr)) (snd new)) as [vnew| |] eqn:En;
    [|inversion H; subst; apply Hdel|discriminate].
  destruct (compare_tv c (mr_ver (snd mr), vold) (mr_ver (snd mr), vnew)) as [cmp1|] eqn:Hcmp;
    [|discriminate].
  destruct (ignore_filter_for c (mr_ver (snd mr))) as [f1|] eqn:Hf; [|discriminate].
  assert (cmp_ok (filter_cmp f1 cmp1)) as Hc1.
  { eapply gfilter_cmp_ok; [exact Hfok|exact Hf|]. eapply Hcok; [| |exact Hcmp]; cbn [snd].
    - eapply Hcv; [exact Hwo|exact Eo].
    - eapply Hcv; [exact Hwn|exact En]. }
  eapply with_cmp_inv; [|exact Hc1|exact Hrok|exact H].
  destruct Hinv as [Hsub [Hv [Hc Hr]]]. unfold uinv.
  cbn [us_managers us_versions us_conflicts us_removed].
  split; [exact Hsub|]. split; [|split; assumption].
  apply Forall_app. split; [exact Hv|]. constructor; [exact Hc1|constructor].
Qed.

Lemma g_fold_ustep_inv : forall c old new w mf l st st',
  compare_ok_wf c -> conv_wf c -> wf_value (snd old) = true -> wf_value (snd new) = true ->
  gfilters_ok c ->
  (forall mr, In mr l -> ps_ok (mr_set (snd mr)) = true) ->
  uinv mf st -> fold_left (ustep c old new w) l (UOk st) = UOk st' -> uinv mf st'.
Proof.
  intros c old new w mf l. induction l as [|a l IH]; intros st st' Hcok Hcv Hwo Hwn Hfok Hl Hinv H.
  - inversion H; subst; exact Hinv.
  - cbn [fold_left] in H. destruct (ustep c old new w (UOk st) a) as [st1|e] eqn:E.
    + eapply (IH st1 st' Hcok Hcv Hwo Hwn Hfok); [|
        eapply g_ustep_inv; [exact Hcok|exact Hcv|exact Hwo|exact Hwn|exact Hfok|exact Hinv| |exact E] |exact H].
      * intros mr Hin. apply Hl. right; exact Hin.
      * apply Hl. left; reflexivity.
    + rewrite fold_ustep_err in H. discriminate.
Qed.

(* every record of the result, the actor's included, is a shrunk record of the input; the
   returned comparison is the filtered comparison of old and new *)
Lemma g_update_core_shrinks_all : forall c n old new ver mf w force mf' cmp n',
  mf_ok mf -> compare_ok_wf c -> conv_wf c -> wf_value (snd old) = true -> wf_value (snd new) = true ->
  gfilters_ok c ->
  update_core c n old new ver mf w force = UOk (mf', cmp, n') ->
  (exists cmp0 f0, compare_tv c old new = Some cmp0 /\ ignore_filter_for c ver = Some f0 /\
                   cmp = filter_cmp f0 cmp0 /\ cmp_ok cmp) /\
  mf_ok mf' /\
  (forall m r', mf_get m mf' = Some r' -> ps_empty (mr_set r') = false) /\
  forall m r', mf_get m mf' = Some r' -> exists r, mf_get m mf = Some r /\ shrinks r' r.
Proof.
  intros c n old new ver mf w force mf' cmp n' Hok Hcok Hcv Hwo Hwn Hfok H.
  rewrite update_core_unfold in H.
  destruct (compare_tv c old new) as [cmp0|] eqn:Hcmp; [|discriminate].
  destruct (ignore_filter_for c ver) as [f0|] eqn:Hf; [|discriminate].
  assert (cmp_ok (filter_cmp f0 cmp0)) as Hc0.
  { eapply gfilter_cmp_ok; [exact Hfok|exact Hf|]. eapply Hcok; [exact Hwo|exact Hwn|exact Hcmp]. }
  destruct (ufold c n old new ver mf w (filter_cmp f0 cmp0)) as [st|e] eqn:E; [|discriminate].
  unfold ufinish in H.
  match type of H with (if ?b then _ else _) = _ => destruct b end; [discriminate|].
  inversion H; subst mf' cmp n'; clear H.
  split.
  { exists cmp0, f0. repeat split; try reflexivity; apply Hc0. }
  apply (upost_shrinks mf st Hok).
  unfold ufold in E. eapply g_fold_ustep_inv; [exact Hcok|exact Hcv|exact Hwo|exact Hwn|exact Hfok| | |exact E].
  - intros mr Hin. destruct Hok as [_ Hall]. rewrite forallb_forall in Hall. exact (Hall mr Hin).
  - unfold uinv. cbn [us_managers us_versions us_conflicts us_removed].
    split; [split; [apply Hok|intros m r Hg; exact Hg]|].
    split; [constructor; [exact Hc0|constructor]|]. split; constructor.
Qed.

(* ================= sm_keeps: prefixes and Path.Equals ================= *)

Import IncludeFilter.

Lemma find_some_existsb : forall (A : Type) (f : A -> bool) l x, List.find f l = Some x -> existsb f l = true.
Proof.
  intros A f l x H. apply find_some in H. apply existsb_exists. exists x. exact H.
Qed.

Lemma wf_path_cons_inv : forall e p, wf_path (e :: p) = true -> wf_pe e = true /\ wf_path p = true.
Proof. intros e p H. unfold wf_path in H. cbn [forallb] in H. apply andb_true_iff in H. exact H. Qed.

(* a matcher that keeps a path keeps every non-empty prefix of it *)
Lemma sm_keeps_prefix : forall p m rest, p <> [] -> sm_keeps m (p ++ rest) = true -> sm_keeps m p = true.
Proof.
  induction p as [|e p IH]; intros m rest Hne H; [contradiction Hne; reflexivity|].
  cbn [app sm_keeps] in H. cbn [sm_keeps].
  destruct (sm_wild m); [reflexivity|].
  destruct p as [|e2 p].
  - cbn [app] in H. destruct rest as [|r rest].
    + exact H.
    + destruct (List.find (pm_matches e) (sm_members m)) as [kc|] eqn:E; [|discriminate H].
      eapply find_some_existsb. exact E.
  - cbn [app] in H. destruct (List.find (pm_matches e) (sm_members m)) as [kc|]; [|discriminate H].
    apply (IH (snd kc) rest); [discriminate|exact H].
Qed.

Lemma find_In_wf : forall (f : pematcher * smatcher -> bool) ms kc, Forall (fun kc => sm_wf (snd kc)) ms ->
  List.find f ms = Some kc -> sm_wf (snd kc).
Proof.
  intros f ms kc Hall H. apply find_some in H. rewrite Forall_forall in Hall. apply Hall. apply H.
Qed.

(* sm_keeps respects Path.Equals on lawful paths *)
Lemma sm_keeps_patheqb : forall p q m, sm_wf m -> wf_path p = true -> wf_path q = true ->
  patheqb p q = true -> sm_keeps m p = sm_keeps m q.
Proof.
  induction p as [|x p IH]; intros [|y q] m Hm Hp Hq Heq; try discriminate Heq; [reflexivity|].
  rewrite ReconcileBase.patheqb_cons in Heq. apply andb_true_iff in Heq. destruct Heq as [Hxy Hpq].
  apply wf_path_cons_inv in Hp. destruct Hp as [Hx Hp].
  apply wf_path_cons_inv in Hq. destruct Hq as [Hy Hq].
  destruct m as [w ms]. apply sm_wf_inv in Hm. destruct Hm as [_ [Hmk Hmc]].
  cbn [sm_keeps sm_wild sm_members]. destruct w; [reflexivity|].
  rewrite (existsb_matches_cong x y ms Hx Hy Hmk Hxy).
  rewrite (find_matches_cong x y ms Hx Hy Hmk Hxy).
  destruct p as [|x2 p]; destruct q as [|y2 q]; try discriminate Hpq; [reflexivity|].
  destruct (List.find (pm_matches y) ms) as [kc|] eqn:E; [|reflexivity].
  apply IH; [eapply find_In_wf; eassumption|exact Hp|exact Hq|exact Hpq].
Qed.

(* the same two facts for the reference notion of Spec/Patterns.v *)
Lemma include_keeps_sm : forall pats p, forallb IncludeLaws.wf_pattern pats = true -> wf_path p = true ->
  p <> [] ->
  sm_wf (include_matcher (map prefix_matcher pats)) /\
  sm_keeps (include_matcher (map prefix_matcher pats)) p = include_keeps pats p.
Proof.
  intros pats p Hpats Hp Hne.
  assert (Hwf : IncludeDenote.pats_wf pats).
  { unfold IncludeDenote.pats_wf. rewrite Forall_forall. rewrite forallb_forall in Hpats.
    intros x Hx. exact (Hpats x Hx). }
  destruct (IncludeDenote.include_matcher_keeps pats p Hwf Hp) as [H1 H2].
  split; [exact H1|]. rewrite H2. destruct p; [contradiction Hne; reflexivity|reflexivity].
Qed.

Lemma wf_path_app_l : forall p rest, wf_path (p ++ rest) = true -> wf_path p = true.
Proof. intros p rest H. unfold wf_path in *. rewrite forallb_app in H. apply andb_true_iff in H. apply H. Qed.

Theorem include_keeps_prefix : forall pats p rest,
  forallb IncludeLaws.wf_pattern pats = true -> wf_path (p ++ rest) = true -> p <> [] ->
  include_keeps pats (p ++ rest) = true -> include_keeps pats p = true.
Proof.
  intros pats p rest Hpats Hw Hne H.
  assert (p ++ rest <> []) as Hne2 by (destruct p; [contradiction Hne; reflexivity|discriminate]).
  destruct (include_keeps_sm pats (p ++ rest) Hpats Hw Hne2) as [_ E1].
  destruct (include_keeps_sm pats p Hpats (wf_path_app_l p rest Hw) Hne) as [_ E2].
  rewrite <- E2. apply (sm_keeps_prefix p _ rest Hne). rewrite E1. exact H.
Qed.

Theorem include_keeps_patheqb : forall pats p q,
  forallb IncludeLaws.wf_pattern pats = true -> wf_path p = true -> wf_path q = true ->
  patheqb p q = true -> include_keeps pats p = include_keeps pats q.
Proof.
  intros pats p q Hpats Hp Hq Heq.
  destruct p as [|x p]; destruct q as [|y q]; try discriminate Heq; [reflexivity|].
  destruct (include_keeps_sm pats (x :: p) Hpats Hp) as [Hm E1]; [discriminate|].
  destruct (include_keeps_sm pats (y :: q) Hpats Hq) as [_ E2]; [discriminate|].
  rewrite <- E1, <- E2. apply sm_keeps_patheqb; assumption.
Qed.

