(* Top-level mirrors of the closures of Model/Compare.v, the one-step unfolding lemma,
   and generic facts about the accumulator, the folds and gather_values. *)
From Coq Require Import List ZArith String Bool Arith Lia.
From SMD Require Import Model.Value Model.Order Model.PathElem Model.PathSet Model.Schema
  Model.Walk Model.Validate Model.Merge Model.Compare Spec.PathsAsSets Spec.RefValid
  Proofs.OrderLaws Proofs.KeyLaws Proofs.PesLaws Proofs.PathSetLaws Proofs.ValidateLaws
  Proofs.SchemaOk.
Import ListNotations.
Open Scope bool_scope.

(* ------------------------------------------------------------------ *)
(* mirrors *)

Definition do_leaf (p : path) (lhs rhs : option value) : bool * cmpacc * bool :=
  (false,
   match lhs, rhs with
   | None, _ => cmp_add p
   | _, None => cmp_rem p
   | Some l, Some r => if veqb r l then cmp_empty else cmp_mod p
   end, true).

Definition is_emp {A : Type} (x : option (list A)) : bool :=
  match x with None | Some [] => true | _ => false end.

Definition ol {A : Type} (x : option (list A)) : list A :=
  match x with Some x => x | None => [] end.

Definition all_pes (lValues : pem (list value)) (order1 rorder : list pe) : list pe :=
  order1 ++ filter (fun e => match pem_get e lValues with Some _ => false | None => true end) rorder.

Definition elem_res (item : pe -> option value -> option value -> bool * cmpacc)
  (pe_path : path) (e : pe) (lList rList : list value) : bool * cmpacc :=
  match lList, rList with
  | [], [] => (false, cmp_empty)
  | [], [rv] => item e None (Some rv)
  | [lv], [] => item e (Some lv) None
  | [lv], [rv] => item e (Some lv) (Some rv)
  | _ :: _ :: _, _ :: _ :: _ =>
      (false, if values_eqb lList rList then cmp_empty else cmp_mod pe_path)
  | _ :: _ :: _, [] => (false, cmp_rem pe_path)
  | _ :: _ :: _, [rv] =>
      let '(e1, c1) := item e None (Some rv) in
      (e1, cmp_app c1 (cmp_rem pe_path))
  | [], _ :: _ :: _ => (false, cmp_add pe_path)
  | [lv], _ :: _ :: _ =>
      let '(e1, c1) := item e (Some lv) None in
      (e1, cmp_app c1 (cmp_add pe_path))
  end.

Definition acc_step {X : Type} (F : X -> bool * cmpacc) (acc : bool * cmpacc) (x : X) : bool * cmpacc :=
  let '(e1, c1) := F x in (fst acc || e1, cmp_app (snd acc) c1).

Section Body.
  Variable rec : typeref -> path -> option value -> option value -> bool * cmpacc.
  Variable s : schema.
  Variable p : path.
  Variables lhs rhs : option value.

  Definition list_F (t : listT) (lValues rValues : pem (list value)) (e : pe) : bool * cmpacc :=
    elem_res (fun e lc rc => rec (list_elem t) (p ++ [e]) lc rc) (p ++ [e]) e
      (ol (pem_get e lValues)) (ol (pem_get e rValues)).

  Definition map_F (t : mapT) (lm rm : list (string * value)) (k : string) : bool * cmpacc :=
    rec (field_type t k) (p ++ [PEField k]) (assoc_get k lm) (assoc_get k rm).

  Definition handle_list (t : listT) : bool * cmpacc * bool :=
    let l := deref_list lhs in
    let r := deref_list rhs in
    if rel_is_atomic (list_rel t) || (is_emp l && is_emp r) then do_leaf p lhs rhs
    else
      let '(lValues, order1, err1) := gather_values s t (ol l) [] [] false in
      let '(rValues, rorder, err2) := gather_values s t (ol r) [] [] false in
      let '(e, c) := fold_left (acc_step (list_F t lValues rValues))
                       (all_pes lValues order1 rorder) (err1 || err2, cmp_empty) in
      (e, c, false).

  Definition handle_map (t : mapT) : bool * cmpacc * bool :=
    let l := deref_map lhs in
    let r := deref_map rhs in
    if rel_is_atomic (map_rel t) || (is_emp l && is_emp r) then do_leaf p lhs rhs
    else
      let '(e, c) := fold_left (acc_step (map_F t (ol l) (ol r)))
                       (keys_union (map fst (ol l)) (map fst (ol r))) (false, cmp_empty) in
      (e, c, false).

  Definition cmp_handle (h : handled) : bool * cmpacc * bool :=
    match h with
    | HInvalid => (true, cmp_empty, false)
    | HScalar t =>
        if validate_scalar t lhs && validate_scalar t rhs then (true, cmp_empty, false)
        else do_leaf p lhs rhs
    | HList t => handle_list t
    | HMap t => handle_map t
    end.

  Definition cmp_tail (leafed : bool) : cmpacc :=
    if leafed then cmp_empty
    else match lhs, rhs with
         | None, _ => cmp_add p
         | _, None => cmp_rem p
         | _, _ => cmp_empty
         end.

  Definition cmp_dispatch (a : atom) : bool * cmpacc * bool :=
    let alhs := deduce_atom a lhs in
    let arhs := deduce_atom a rhs in
    match rhs with
    | None => cmp_handle (handle_atom alhs)
    | Some _ =>
        match lhs with
        | None => cmp_handle (handle_atom arhs)
        | Some _ =>
            if atom_eqb alhs arhs then cmp_handle (handle_atom arhs)
            else
              let '(e1, c1, _) := cmp_handle (handle_atom alhs) in
              let '(e2, c2, lf) := cmp_handle (handle_atom arhs) in
              (e1 || e2, cmp_app c1 c2, lf)
        end
    end.

  Definition compare_body (tr : typeref) : bool * cmpacc :=
    match lhs, rhs with
    | None, None => (true, cmp_empty)
    | _, _ =>
        match resolve s tr with
        | None => (true, cmp_empty)
        | Some a =>
            let '(e, c, leafed) := cmp_dispatch a in
            (e, cmp_app c (cmp_tail leafed))
        end
    end.
End Body.

Lemma compare_w_S : forall f s tr p lhs rhs,
  compare_w (S f) s tr p lhs rhs = compare_body (compare_w f s) s p lhs rhs tr.
Proof. reflexivity. Qed.

(* ------------------------------------------------------------------ *)
(* accumulator algebra *)

Definition cmp_concat (cs : list cmpacc) : cmpacc := fold_right cmp_app cmp_empty cs.

Lemma cmp_app_empty_l : forall c, cmp_app cmp_empty c = c.
Proof. intros [a b c]. reflexivity. Qed.

Lemma cmp_app_empty_r : forall c, cmp_app c cmp_empty = c.
Proof. intros [a b c]. unfold cmp_app. simpl. rewrite !app_nil_r. reflexivity. Qed.

Lemma cmp_app_assoc : forall a b c, cmp_app (cmp_app a b) c = cmp_app a (cmp_app b c).
Proof. intros a b c. unfold cmp_app. simpl. rewrite <- !app_assoc. reflexivity. Qed.

Lemma fold_acc_step : forall (X : Type) (F : X -> bool * cmpacc) xs acc,
  fold_left (acc_step F) xs acc =
  (fst acc || existsb (fun x => fst (F x)) xs,
   cmp_app (snd acc) (cmp_concat (map (fun x => snd (F x)) xs))).
Proof.
  intros X F xs. induction xs as [|x xs IH]; intros [e0 c0]; simpl.
  - rewrite orb_false_r, cmp_app_empty_r. reflexivity.
  - rewrite IH. unfold acc_step. destruct (F x) as [e1 c1]. simpl.
    rewrite orb_assoc, cmp_app_assoc. reflexivity.
Qed.

(* a property of every path of an accumulator *)
Definition cmp_all (P : path -> Prop) (c : cmpacc) : Prop :=
  Forall P (c_removed c) /\ Forall P (c_modified c) /\ Forall P (c_added c).

Lemma cmp_all_empty : forall P, cmp_all P cmp_empty.
Proof. intros P. repeat split; constructor. Qed.

Lemma cmp_all_app : forall P a b, cmp_all P a -> cmp_all P b -> cmp_all P (cmp_app a b).
Proof.
  intros P a b (H1 & H2 & H3) (H4 & H5 & H6). unfold cmp_all, cmp_app. simpl.
  rewrite !Forall_app. tauto.
Qed.

Lemma cmp_all_rem : forall (P : path -> Prop) p, P p -> cmp_all P (cmp_rem p).
Proof. intros P p H. repeat split; repeat constructor; auto. Qed.
Lemma cmp_all_mod : forall (P : path -> Prop) p, P p -> cmp_all P (cmp_mod p).
Proof. intros P p H. repeat split; repeat constructor; auto. Qed.
Lemma cmp_all_add : forall (P : path -> Prop) p, P p -> cmp_all P (cmp_add p).
Proof. intros P p H. repeat split; repeat constructor; auto. Qed.

Lemma cmp_all_concat : forall P cs, Forall (cmp_all P) cs -> cmp_all P (cmp_concat cs).
Proof.
  intros P cs H. induction H as [|c cs Hc Hcs IH]; simpl.
  - apply cmp_all_empty.
  - apply cmp_all_app; assumption.
Qed.

Lemma cmp_concat_empty : forall cs, Forall (fun c => c = cmp_empty) cs -> cmp_concat cs = cmp_empty.
Proof.
  intros cs H. induction H as [|c cs Hc Hcs IH]; simpl.
  - reflexivity.
  - rewrite Hc, IH. reflexivity.
Qed.

(* membership in a concatenation *)
Lemma pmem_app : forall q a b, pmem q (a ++ b) = pmem q a || pmem q b.
Proof. intros q a b. unfold pmem. apply existsb_app. Qed.

Lemma pmem_concat_removed : forall q cs,
  pmem q (c_removed (cmp_concat cs)) = existsb (fun c => pmem q (c_removed c)) cs.
Proof.
  intros q cs. induction cs as [|c cs IH]; simpl.
  - reflexivity.
  - rewrite pmem_app, IH. reflexivity.
Qed.
Lemma pmem_concat_modified : forall q cs,
  pmem q (c_modified (cmp_concat cs)) = existsb (fun c => pmem q (c_modified c)) cs.
Proof.
  intros q cs. induction cs as [|c cs IH]; simpl.
  - reflexivity.
  - rewrite pmem_app, IH. reflexivity.
Qed.
Lemma pmem_concat_added : forall q cs,
  pmem q (c_added (cmp_concat cs)) = existsb (fun c => pmem q (c_added c)) cs.
Proof.
  intros q cs. induction cs as [|c cs IH]; simpl.
  - reflexivity.
  - rewrite pmem_app, IH. reflexivity.
Qed.

Lemma existsb_map : forall (A B : Type) (f : A -> B) (g : B -> bool) l,
  existsb g (map f l) = existsb (fun x => g (f x)) l.
Proof. intros A B f g l. induction l as [|a l IH]; simpl; congruence. Qed.

(* ------------------------------------------------------------------ *)
(* well-formedness of optional values and of the pieces taken from them *)

Definition wf_ov (o : option value) : bool :=
  match o with Some v => wf_value v | None => true end.

Lemma deref_list_wf : forall o, wf_ov o = true -> forallb wf_value (ol (deref_list o)) = true.
Proof. intros [[]|]; simpl; auto. Qed.

Lemma deref_map_wf : forall o, wf_ov o = true ->
  forallb (fun kv => wf_value (snd kv)) (ol (deref_map o)) = true.
Proof.
  intros [[]|]; simpl; auto. intros H. apply andb_true_iff in H. tauto.
Qed.

Lemma assoc_get_wf_ov : forall k (m : list (string * value)),
  forallb (fun kv => wf_value (snd kv)) m = true -> wf_ov (assoc_get k m) = true.
Proof.
  intros k m Hm. destruct (assoc_get k m) as [v|] eqn:E; simpl; auto.
  eapply assoc_get_wf; eassumption.
Qed.

Lemma wf_path_snoc : forall p e, wf_path p = true -> wf_pe e = true -> wf_path (p ++ [e]) = true.
Proof.
  intros p e Hp He. unfold wf_path in *. rewrite forallb_app. simpl. rewrite Hp, He. reflexivity.
Qed.

(* ------------------------------------------------------------------ *)
(* gather_values *)

Section Gather.
  Variables (s : schema) (t : listT).
  Hypothesis Hpe : forall child e, wf_value child = true ->
    list_item_to_pe s t child = Some e -> wf_pe e = true.

  Definition item_is (x : pe) (c : value) : bool :=
    match list_item_to_pe s t c with Some e => peeqb x e | None => false end.
  Definition grp (x : pe) (l : list value) : list value := filter (item_is x) l.

  Lemma grp_In : forall x l v, In v (grp x l) -> In v l.
  Proof. intros x l v H. apply filter_In in H. tauto. Qed.

  Lemma grp_wf : forall x l, forallb wf_value l = true -> forallb wf_value (grp x l) = true.
  Proof.
    intros x l H. rewrite forallb_forall in *. intros v Hv. apply H. eapply grp_In; eauto.
  Qed.

  Lemma grp_cong : forall x y l, wf_pe x = true -> wf_pe y = true -> forallb wf_value l = true ->
    peeqb x y = true -> grp x l = grp y l.
  Proof.
    intros x y l Hx Hy Hl Hxy. unfold grp. apply filter_ext_in.
    intros c Hc. unfold item_is. destruct (list_item_to_pe s t c) as [e|] eqn:Ee; auto.
    apply peeqb_cong_l; auto. eapply Hpe; eauto.
    rewrite forallb_forall in Hl. auto.
  Qed.

  Lemma pem_get_cong : forall (A : Type) x e (l : pem A), wf_pe x = true -> wf_pe e = true ->
    sorted_fst l = true -> forallb (fun ec => wf_pe (fst ec)) l = true ->
    peeqb x e = true -> pem_get x l = pem_get e l.
  Proof.
    intros A x e l Hx He Hsl Hwl Hxe. apply sorted_fst_iff in Hsl. apply wf_keys_iff in Hwl.
    rewrite !pem_get_look by auto. rewrite (klook_cong fst x e); auto.
  Qed.

  Lemma pem_insert_wfkeys : forall (A : Type) e (v : A) l,
    sorted_fst l = true -> forallb (fun ec => wf_pe (fst ec)) l = true -> wf_pe e = true ->
    forallb (fun ec => wf_pe (fst ec)) (pem_insert e v l) = true.
  Proof.
    intros A e v l H1 H2 H3. apply wf_keys_iff.
    destruct (pem_insert_facts A e v l H1 H2 H3) as (_ & H & _). exact H.
  Qed.

  Lemma pes_mem_app : forall x a b, pes_mem x (a ++ b) = pes_mem x a || pes_mem x b.
  Proof. intros x a b. unfold pes_mem. apply existsb_app. Qed.

  Lemma gather_inv : forall l vals order err vals' order' err',
    forallb wf_value l = true ->
    sorted_fst vals = true -> forallb (fun ec => wf_pe (fst ec)) vals = true ->
    forallb wf_pe order = true ->
    (forall x, wf_pe x = true -> pes_mem x order = isSome (pem_get x vals)) ->
    gather_values s t l vals order err = (vals', order', err') ->
    sorted_fst vals' = true /\ forallb (fun ec => wf_pe (fst ec)) vals' = true /\
    forallb wf_pe order' = true /\
    (forall x, wf_pe x = true -> pes_mem x order' = isSome (pem_get x vals')) /\
    (forall x, wf_pe x = true ->
       pem_get x vals' = match grp x l with
                         | [] => pem_get x vals
                         | g => Some (ol (pem_get x vals) ++ g)
                         end) /\
    err' = err || existsb (fun c => negb (isSome (list_item_to_pe s t c))) l.
  Proof.
    induction l as [|child rest IH]; intros vals order err vals' order' err' Hl Hsv Hwv Hwo Hinv Hg.
    - simpl in Hg. inversion Hg; subst. rewrite orb_false_r. repeat split; auto.
    - simpl in Hl. apply andb_true_iff in Hl. destruct Hl as [Hc Hrest].
      simpl in Hg. unfold grp. simpl filter. unfold item_is at 1. simpl existsb.
      destruct (list_item_to_pe s t child) as [e|] eqn:Ee.
      + assert (He : wf_pe e = true) by (eapply Hpe; eauto).
        destruct (pem_get e vals) as [vs|] eqn:Eg.
        * pose proof (pem_insert_wfkeys _ e (vs ++ [child]) vals Hsv Hwv He) as Hwv1.
          assert (Hsv1 : sorted_fst (pem_insert e (vs ++ [child]) vals) = true).
          { apply (pem_get_insert _ e e (vs ++ [child]) vals); auto. }
          assert (Hinv1 : forall x, wf_pe x = true ->
                    pes_mem x order = isSome (pem_get x (pem_insert e (vs ++ [child]) vals))).
          { intros x Hx. destruct (pem_get_insert _ e x (vs ++ [child]) vals Hsv Hwv He Hx) as [_ Hgi].
            rewrite Hgi. destruct (peeqb x e) eqn:Exe.
            - rewrite (Hinv x Hx). rewrite (pem_get_cong _ x e vals) by auto. rewrite Eg. reflexivity.
            - apply Hinv; auto. }
          destruct (IH _ _ _ _ _ _ Hrest Hsv1 Hwv1 Hwo Hinv1 Hg) as (R1 & R2 & R3 & R4 & R5 & R6).
          split; [auto|split; [auto|split; [auto|split; [auto|split]]]].
          -- intros x Hx. rewrite (R5 x Hx). fold (grp x rest).
             destruct (pem_get_insert _ e x (vs ++ [child]) vals Hsv Hwv He Hx) as [_ Hgi].
             rewrite Hgi. destruct (peeqb x e) eqn:Exe.
             ++ rewrite (pem_get_cong _ x e vals) by auto. rewrite Eg. simpl ol.
                destruct (grp x rest); simpl; rewrite <- ?app_assoc; reflexivity.
             ++ reflexivity.
          -- rewrite R6. reflexivity.
        * pose proof (pem_insert_wfkeys _ e [child] vals Hsv Hwv He) as Hwv1.
          assert (Hsv1 : sorted_fst (pem_insert e [child] vals) = true).
          { apply (pem_get_insert _ e e [child] vals); auto. }
          assert (Hwo1 : forallb wf_pe (order ++ [e]) = true).
          { rewrite forallb_app. simpl. rewrite Hwo, He. reflexivity. }
          assert (Hinv1 : forall x, wf_pe x = true ->
                    pes_mem x (order ++ [e]) = isSome (pem_get x (pem_insert e [child] vals))).
          { intros x Hx. destruct (pem_get_insert _ e x [child] vals Hsv Hwv He Hx) as [_ Hgi].
            rewrite Hgi, pes_mem_app. simpl. rewrite orb_false_r. destruct (peeqb x e) eqn:Exe.
            - rewrite orb_true_r. reflexivity.
            - rewrite orb_false_r. apply Hinv; auto. }
          destruct (IH _ _ _ _ _ _ Hrest Hsv1 Hwv1 Hwo1 Hinv1 Hg) as (R1 & R2 & R3 & R4 & R5 & R6).
          split; [auto|split; [auto|split; [auto|split; [auto|split]]]].
          -- intros x Hx. rewrite (R5 x Hx). fold (grp x rest).
             destruct (pem_get_insert _ e x [child] vals Hsv Hwv He Hx) as [_ Hgi].
             rewrite Hgi. destruct (peeqb x e) eqn:Exe.
             ++ rewrite (pem_get_cong _ x e vals) by auto. rewrite Eg. simpl ol.
                destruct (grp x rest); simpl; reflexivity.
             ++ reflexivity.
          -- rewrite R6. reflexivity.
      + destruct (IH _ _ _ _ _ _ Hrest Hsv Hwv Hwo Hinv Hg) as (R1 & R2 & R3 & R4 & R5 & R6).
        split; [auto|split; [auto|split; [auto|split; [auto|split; [auto|]]]]].
        rewrite R6. simpl. rewrite orb_true_r. reflexivity.
  Qed.

  Definition nonnil {A : Type} (l : list A) : bool := match l with [] => false | _ => true end.

  Lemma gather_spec : forall l vals order err,
    forallb wf_value l = true ->
    gather_values s t l [] [] false = (vals, order, err) ->
    sorted_fst vals = true /\ forallb (fun ec => wf_pe (fst ec)) vals = true /\
    forallb wf_pe order = true /\
    (forall x, wf_pe x = true -> pes_mem x order = nonnil (grp x l)) /\
    (forall x, wf_pe x = true -> ol (pem_get x vals) = grp x l) /\
    (forall x, wf_pe x = true -> isSome (pem_get x vals) = nonnil (grp x l)) /\
    err = existsb (fun c => negb (isSome (list_item_to_pe s t c))) l.
  Proof.
    intros l vals order err Hl Hg.
    destruct (gather_inv l [] [] false vals order err Hl eq_refl eq_refl eq_refl) as
      (R1 & R2 & R3 & R4 & R5 & R6); auto.
    assert (R5' : forall x, wf_pe x = true ->
              pem_get x vals = match grp x l with [] => None | g => Some g end).
    { intros x Hx. rewrite (R5 x Hx). destruct (grp x l); reflexivity. }
    repeat split; auto.
    - intros x Hx. rewrite (R4 x Hx), (R5' x Hx). destruct (grp x l); reflexivity.
    - intros x Hx. rewrite (R5' x Hx). destruct (grp x l); reflexivity.
    - intros x Hx. rewrite (R5' x Hx). destruct (grp x l); reflexivity.
  Qed.
End Gather.

(* ------------------------------------------------------------------ *)
(* reflexivity of the structural schema equality *)

Lemma Qeq_bool_refl : forall q, QArith_base.Qeq_bool q q = true.
Proof. intros q. apply QArith_base.Qeq_bool_iff. apply QArith_base.Qeq_refl. Qed.

Lemma value_deep_eqb_refl : forall v, value_deep_eqb v v = true.
Proof.
  induction v as [|b|z|q|str|l IHl|m IHm] using value_ind'; simpl.
  - reflexivity.
  - apply Bool.eqb_reflx.
  - apply Z.eqb_refl.
  - apply Qeq_bool_refl.
  - apply String.eqb_refl.
  - induction IHl as [|x l Hx Hl IH]; [reflexivity|]. rewrite Hx. exact IH.
  - induction IHm as [|[k x] m Hx Hm IH]; [reflexivity|]. simpl in Hx.
    rewrite String.eqb_refl, Hx. exact IH.
Qed.

Lemma scalar_eqb_refl : forall a, scalar_eqb a a = true.
Proof. intros []; simpl; auto. apply String.eqb_refl. Qed.
Lemma rel_eqb_refl : forall a, rel_eqb a a = true.
Proof. intros []; simpl; auto. apply String.eqb_refl. Qed.
Lemma opt_eqb_refl : forall (A : Type) (f : A -> A -> bool), (forall x, f x x = true) ->
  forall o, opt_eqb f o o = true.
Proof. intros A f H [x|]; simpl; auto. Qed.
Lemma list_eqb_refl : forall (A : Type) (f : A -> A -> bool), (forall x, f x x = true) ->
  forall l, list_eqb f l l = true.
Proof. intros A f H l. induction l as [|x l IH]; simpl; auto. rewrite H, IH. reflexivity. Qed.

Fixpoint tr_eqb_refl (a : typeref) : tr_eqb a a = true
with atom_eqb_refl (a : atom) : atom_eqb a a = true
with listT_eqb_refl (a : listT) : listT_eqb a a = true
with mapT_eqb_refl (a : mapT) : mapT_eqb a a = true
with sfield_eqb_refl (a : sfield) : sfield_eqb a a = true.
Proof.
  - destruct a as [n i r]. simpl.
    rewrite (opt_eqb_refl _ _ String.eqb_refl), (opt_eqb_refl _ _ rel_eqb_refl), (atom_eqb_refl i).
    reflexivity.
  - destruct a as [sc li ma]. simpl.
    rewrite (opt_eqb_refl _ _ scalar_eqb_refl).
    destruct li as [l|]; [rewrite (listT_eqb_refl l)|]; (destruct ma as [m|]; [rewrite (mapT_eqb_refl m)|]);
      reflexivity.
  - destruct a as [e r k]. simpl.
    rewrite (tr_eqb_refl e), rel_eqb_refl, (list_eqb_refl _ _ String.eqb_refl). reflexivity.
  - destruct a as [fs e r]. simpl.
    rewrite (tr_eqb_refl e), rel_eqb_refl. simpl.
    induction fs as [|x fs IH]; [reflexivity|].
    rewrite (sfield_eqb_refl x). exact IH.
  - destruct a as [n ty d]. simpl.
    rewrite String.eqb_refl, (opt_eqb_refl _ _ value_deep_eqb_refl), (tr_eqb_refl ty). reflexivity.
Qed.

(* ------------------------------------------------------------------ *)
(* atoms deduced from the same atom *)

Lemma atom_eqb_shape : forall s1 l1 m1 s2 l2 m2,
  atom_eqb (Atom s1 l1 m1) (Atom s2 l2 m2) = true ->
  isSome s1 = isSome s2 /\ isSome l1 = isSome l2 /\ isSome m1 = isSome m2.
Proof.
  intros s1 l1 m1 s2 l2 m2 H. simpl in H.
  apply andb_true_iff in H. destruct H as [H H3]. apply andb_true_iff in H. destruct H as [H1 H2].
  destruct s1, s2, l1, l2, m1, m2; simpl in *; try discriminate; auto.
Qed.

Lemma deduce_eqb_eq : forall a l r,
  atom_eqb (deduce_atom a l) (deduce_atom a r) = true -> deduce_atom a l = deduce_atom a r.
Proof.
  intros [[sc|] [li|] [ma|]] [[]|] [[]|]; cbn [deduce_atom is_scalar is_list is_map];
    try reflexivity; intros H; apply atom_eqb_shape in H; simpl in H; destruct H as (H1 & H2 & H3); discriminate.
Qed.

Lemma deduce_eqb_sym : forall a l r,
  atom_eqb (deduce_atom a l) (deduce_atom a r) = atom_eqb (deduce_atom a r) (deduce_atom a l).
Proof.
  intros a l r.
  destruct (atom_eqb (deduce_atom a l) (deduce_atom a r)) eqn:E1.
  - apply deduce_eqb_eq in E1. rewrite E1. symmetry. apply atom_eqb_refl.
  - destruct (atom_eqb (deduce_atom a r) (deduce_atom a l)) eqn:E2; auto.
    apply deduce_eqb_eq in E2. rewrite E2, atom_eqb_refl in E1. discriminate.
Qed.

Lemma deduce_list : forall a o t, atom_list (deduce_atom a o) = Some t -> atom_list a = Some t.
Proof.
  intros [sc li ma] [v|] t; simpl; auto.
  destruct (is_scalar v); [destruct sc; simpl; auto; discriminate|].
  destruct (is_list v); [destruct li; simpl; auto|].
  destruct (is_map v); [destruct ma; simpl; auto; discriminate|]. auto.
Qed.

Lemma deduce_map : forall a o m, atom_map (deduce_atom a o) = Some m -> atom_map a = Some m.
Proof.
  intros [sc li ma] [v|] m; simpl; auto.
  destruct (is_scalar v); [destruct sc; simpl; auto; discriminate|].
  destruct (is_list v); [destruct li; simpl; auto; discriminate|].
  destruct (is_map v); [destruct ma; simpl; auto|]. auto.
Qed.

Lemma handle_atom_list : forall a t, handle_atom a = HList t -> atom_list a = Some t.
Proof. intros [[sc|] [li|] [ma|]] t; simpl; intros H; inversion H; auto. Qed.

Lemma handle_atom_map : forall a m, handle_atom a = HMap m -> atom_map a = Some m.
Proof. intros [[sc|] [li|] [ma|]] m; simpl; intros H; inversion H; auto. Qed.

(* ------------------------------------------------------------------ *)
(* path elements of list items, relative to a closed set of references *)

Lemma find_field_default_wf' : forall fs k f d,
  wf_defaults_fields fs = true -> find_field fs k = Some f -> sf_default f = Some d ->
  wf_value d = true.
Proof.
  intros fs k f d. induction fs as [|[n ty dflt] fs IH]; simpl; intros Hfs Hf Hd.
  - discriminate.
  - apply andb_true_iff in Hfs. destruct Hfs as [Hd0 Hfs].
    destruct (find_field fs k) as [r|] eqn:Er.
    + apply IH; assumption.
    + destruct (String.eqb k n); [|discriminate].
      inversion Hf; subst. simpl in Hd. subst. exact Hd0.
Qed.

Section ItemPe.
  Variables (s : schema) (R : typeref -> Prop).
  Hypothesis Hok : schema_ok s R.

  Lemma key_default_wf' : forall t k d, R (list_elem t) ->
    key_default s t k = Some (Some d) -> wf_value d = true.
  Proof.
    intros t k d HR. unfold key_default.
    destruct (resolve s (list_elem t)) as [a|] eqn:Er; [|discriminate].
    pose proof (so_defaults s R Hok _ _ HR Er) as Hd.
    destruct a as [sc li [mt|]]; [|discriminate].
    destruct mt as [fs me mr]. simpl in Hd. simpl.
    destruct (find_field fs k) as [f|] eqn:Ef; [|discriminate].
    intros H. inversion H as [H']. eapply find_field_default_wf'; eassumption.
  Qed.

  Lemma keyed_go_wf' : forall t m, R (list_elem t) ->
    forallb (fun kv => wf_value (snd kv)) m = true ->
    forall keys fl, keyed_go s t m keys = Some fl -> wf_fl fl = true.
  Proof.
    intros t m HR Hm keys. induction keys as [|k ks IH]; simpl; intros fl Hgo.
    - inversion Hgo; subst. reflexivity.
    - destruct (assoc_get k m) as [v|] eqn:Eg.
      + destruct (keyed_go s t m ks) as [r|]; [|discriminate].
        inversion Hgo; subst. unfold wf_fl. simpl.
        rewrite (assoc_get_wf _ _ _ Hm Eg). simpl. apply (IH r). reflexivity.
      + destruct (key_default s t k) as [[d|]|] eqn:Ed; try discriminate.
        destruct (keyed_go s t m ks) as [r|]; [|discriminate].
        inversion Hgo; subst. unfold wf_fl. simpl.
        rewrite (key_default_wf' _ _ _ HR Ed). simpl. apply (IH r). reflexivity.
  Qed.

  Lemma item_pe_wf_elem : forall t child e, R (list_elem t) -> wf_value child = true ->
    list_item_to_pe s t child = Some e -> wf_pe e = true.
  Proof.
    intros t child e HR Hc. unfold list_item_to_pe.
    destruct (negb (rel_is_assoc (list_rel t))); [discriminate|].
    destruct (list_keys t) as [|k0 ks0] eqn:Ek.
    - destruct child; simpl; intros He; try discriminate; inversion He; subst; reflexivity.
    - destruct child as [| | | | |l|m]; try (simpl; discriminate).
      rewrite keyed_item_to_pe_eq.
      destruct (keyed_go s t m (list_keys t)) as [fl|] eqn:Eg; [|discriminate].
      intros He. inversion He; subst. simpl.
      apply fl_sort_wf. simpl in Hc. apply andb_true_iff in Hc. destruct Hc as [_ Hc].
      eapply keyed_go_wf'; eassumption.
  Qed.

  Lemma item_pe_wf : forall tr a t child e, R tr -> resolve s tr = Some a -> atom_list a = Some t ->
    wf_value child = true -> list_item_to_pe s t child = Some e -> wf_pe e = true.
  Proof.
    intros tr a t child e HR Hr Ha. apply item_pe_wf_elem.
    eapply (so_list s R Hok); eassumption.
  Qed.
End ItemPe.

(* ------------------------------------------------------------------ *)
(* equality tests on wf data *)

Lemma values_eqb_refl : forall l, forallb wf_value l = true -> values_eqb l l = true.
Proof.
  induction l as [|x l IH]; simpl; intros H; auto.
  apply andb_true_iff in H. destruct H as [Hx Hl]. rewrite (veqb_refl x Hx). auto.
Qed.

Lemma values_eqb_sym : forall a b, forallb wf_value a = true -> forallb wf_value b = true ->
  values_eqb a b = values_eqb b a.
Proof.
  induction a as [|x a IH]; intros [|y b]; simpl; intros Ha Hb; auto.
  apply andb_true_iff in Ha. destruct Ha as [Hx Ha].
  apply andb_true_iff in Hb. destruct Hb as [Hy Hb].
  rewrite (veqb_sym x y Hx Hy), (IH b Ha Hb). reflexivity.
Qed.

Lemma patheqb_cong_r : forall q a b, wf_path q = true -> wf_path a = true -> wf_path b = true ->
  patheqb a b = true -> patheqb q a = patheqb q b.
Proof.
  intros q a b Hq Ha Hb H. apply pathcmp_eq_iff in H; auto.
  apply Bool.eq_iff_eq_true. rewrite <- !pathcmp_eq_iff by auto.
  rewrite (pathcmp_eq_r q a b H). tauto.
Qed.

Lemma patheqb_snoc : forall p p' e e', patheqb p p' = true -> peeqb e e' = true ->
  patheqb (p ++ [e]) (p' ++ [e']) = true.
Proof.
  induction p as [|x p IH]; intros [|y p'] e e' Hp He; simpl in *; try discriminate.
  - rewrite He. reflexivity.
  - apply andb_true_iff in Hp. destruct Hp as [Hxy Hp]. rewrite Hxy. simpl. apply IH; auto.
Qed.

(* ------------------------------------------------------------------ *)
(* existsb over related lists *)

Lemma existsb_rel : forall (A B : Type) (Rel : A -> B -> Prop) (g : A -> bool) (g' : B -> bool) la lb,
  (forall a, In a la -> exists b, In b lb /\ Rel a b) ->
  (forall b, In b lb -> exists a, In a la /\ Rel a b) ->
  (forall a b, In a la -> In b lb -> Rel a b -> g a = g' b) ->
  existsb g la = existsb g' lb.
Proof.
  intros A B Rel g g' la lb H1 H2 H3. apply Bool.eq_iff_eq_true. rewrite !existsb_exists. split.
  - intros (a & Ha & Hg). destruct (H1 a Ha) as (b & Hb & Hr). exists b. split; auto.
    rewrite <- (H3 a b Ha Hb Hr). exact Hg.
  - intros (b & Hb & Hg). destruct (H2 b Hb) as (a & Ha & Hr). exists a. split; auto.
    rewrite (H3 a b Ha Hb Hr). exact Hg.
Qed.

Lemma pes_mem_true : forall x l, pes_mem x l = true -> exists y, In y l /\ peeqb x y = true.
Proof. intros x l H. unfold pes_mem in H. apply existsb_exists in H. exact H. Qed.

Lemma pes_mem_In : forall x l, wf_pe x = true -> In x l -> pes_mem x l = true.
Proof.
  intros x l Hx Hin. unfold pes_mem. apply existsb_exists. exists x. split; auto.
  apply peeqb_refl; auto.
Qed.

(* union of key lists *)
Lemma keys_union_In : forall k a b, In k (keys_union a b) <-> In k a \/ In k b.
Proof.
  intros k a. induction a as [|x xs IHa]; intros b.
  - destruct b; simpl; tauto.
  - induction b as [|y ys IHb].
    + simpl. tauto.
    + change (keys_union (x :: xs) (y :: ys)) with
        (match String.compare x y with
         | Lt => x :: keys_union xs (y :: ys)
         | Eq => x :: keys_union xs ys
         | Gt => y :: keys_union (x :: xs) ys
         end).
      destruct (String.compare x y) eqn:Ec.
      * apply str_cmp_eq in Ec. subst y. simpl. rewrite IHa. tauto.
      * simpl. rewrite IHa. simpl. tauto.
      * simpl. rewrite IHb. simpl. tauto.
Qed.

Lemma keys_union_self : forall a, keys_union a a = a.
Proof.
  induction a as [|x xs IH]; [reflexivity|].
  change (keys_union (x :: xs) (x :: xs)) with
    (match String.compare x x with
     | Lt => x :: keys_union xs (x :: xs)
     | Eq => x :: keys_union xs xs
     | Gt => x :: keys_union (x :: xs) xs
     end).
  rewrite str_cmp_refl, IH. reflexivity.
Qed.
