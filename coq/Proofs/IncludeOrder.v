(* Step 2 of C19, ordering part: member lists sorted by the matcher ordering, the bisection
   sm_find, the insertion sort sm_sort and a closed form of the member loop of
   SetMatcher.Merge. *)
From Coq Require Import List ZArith String Bool Arith Lia.
From SMD Require Import Base.Search Model.Value Model.Order Model.PathElem Model.PathSet Model.Matcher
  Proofs.OrderLaws Proofs.SearchLaws Proofs.IncludeFilter.
Import ListNotations.
Open Scope bool_scope.

Notation member := (pematcher * smatcher)%type.

(* ---------- derived facts of the matcher ordering ---------- *)
Lemma pm_cmp_refl : forall a, pm_cmp a a = Eq.
Proof.
  intros a. pose proof (pm_cmp_antisym a a) as H. destruct (pm_cmp a a); simpl in H; congruence.
Qed.

Lemma pm_cmp_eq_sym : forall a b, pm_cmp a b = Eq -> pm_cmp b a = Eq.
Proof. intros a b H. rewrite (pm_cmp_antisym b a), H. reflexivity. Qed.

Lemma pm_cmp_gt_lt : forall a b, pm_cmp a b = Gt <-> pm_cmp b a = Lt.
Proof.
  intros a b. rewrite (pm_cmp_antisym a b). destruct (pm_cmp b a); simpl; split; congruence.
Qed.

Lemma pm_cmp_neq_sym : forall a b, pm_cmp a b <> Eq -> pm_cmp b a <> Eq.
Proof. intros a b H Hc. apply H. apply pm_cmp_eq_sym. exact Hc. Qed.

Lemma pm_cmp_lt_neq : forall a b, pm_cmp a b = Lt -> pm_cmp a b <> Eq.
Proof. intros a b H. congruence. Qed.

Lemma pm_eqb_cmp : forall a b, wf_pm a = true -> wf_pm b = true -> pm_eqb a b = true -> pm_cmp a b = Eq.
Proof. intros a b Ha Hb H. apply pm_cmp_eq_iff; auto. Qed.

Lemma pm_cmp_neq_eqb : forall a b, wf_pm a = true -> wf_pm b = true -> pm_cmp a b <> Eq -> pm_eqb a b = false.
Proof.
  intros a b Ha Hb H. destruct (pm_eqb a b) eqn:E; auto.
  apply pm_cmp_eq_iff in E; auto. contradiction.
Qed.

Lemma pm_eqb_refl : forall a, wf_pm a = true -> pm_eqb a a = true.
Proof. intros a Ha. apply pm_cmp_eq_iff; auto. apply pm_cmp_refl. Qed.

(* ---------- sorted and distinct member lists ---------- *)
Lemma mlt_trans : forall a b l, pm_cmp a b = Lt -> mlt b l -> mlt a l.
Proof.
  intros a b l Hab H. unfold mlt in *. rewrite Forall_forall in *.
  intros x Hx. apply (pm_cmp_trans_lt a b (fst x)); auto.
Qed.

Lemma msorted_nth : forall l i j (a b : member), msorted l -> i < j ->
  nth_error l i = Some a -> nth_error l j = Some b -> pm_cmp (fst a) (fst b) = Lt.
Proof.
  intros l. induction l as [|x t IH]; intros i j a b Hs Hij Ha Hb.
  - destruct i; discriminate.
  - destruct Hs as [Hx Ht]. destruct j as [|j]; [lia|]. simpl in Hb.
    destruct i as [|i]; simpl in Ha.
    + inversion Ha; subst. apply nth_error_In in Hb.
      unfold mlt in Hx. rewrite Forall_forall in Hx. auto.
    + apply (IH i j); auto. lia.
Qed.

Definition mne (x : member) (l : list member) : Prop :=
  Forall (fun y => pm_cmp (fst x) (fst y) <> Eq) l.

Fixpoint mdistinct (l : list member) : Prop :=
  match l with [] => True | x :: t => mne x t /\ mdistinct t end.

Lemma msorted_distinct : forall l, msorted l -> mdistinct l.
Proof.
  intros l. induction l as [|x t IH]; simpl; auto.
  intros [Hx Ht]. split; auto. unfold mne, mlt in *.
  eapply Forall_impl; [|exact Hx]. simpl. intros a Ha. congruence.
Qed.

Lemma mdistinct_app : forall l1 l2, mdistinct l1 -> mdistinct l2 ->
  (forall x y, In x l1 -> In y l2 -> pm_cmp (fst x) (fst y) <> Eq) -> mdistinct (l1 ++ l2).
Proof.
  intros l1 l2. induction l1 as [|a t IH]; simpl; auto.
  intros [Ha Ht] H2 Hx. split.
  - unfold mne in *. apply Forall_app. split; auto.
    rewrite Forall_forall. intros y Hy. apply Hx; auto.
  - apply IH; auto.
Qed.

Lemma mdistinct_map : forall (f : member -> member) l, (forall x, fst (f x) = fst x) ->
  mdistinct l -> mdistinct (map f l).
Proof.
  intros f l Hf. induction l as [|a t IH]; simpl; auto.
  intros [Ha Ht]. split; auto. unfold mne in *. rewrite Forall_forall in *.
  intros y Hy. apply in_map_iff in Hy. destruct Hy as (z & <- & Hz).
  rewrite !Hf. auto.
Qed.

Lemma mdistinct_filter : forall (f : member -> bool) l, mdistinct l -> mdistinct (filter f l).
Proof.
  intros f l. induction l as [|a t IH]; simpl; auto.
  intros [Ha Ht]. destruct (f a); simpl; auto. split; auto.
  unfold mne in *. rewrite Forall_forall in *. intros y Hy.
  apply filter_In in Hy. apply Ha. tauto.
Qed.

(* equal keys in a sorted list: the same member *)
Lemma msorted_uniq : forall l (a b : member), msorted l -> In a l -> In b l ->
  pm_cmp (fst a) (fst b) = Eq -> a = b.
Proof.
  intros l a b Hs Ha Hb Heq.
  apply In_nth_error in Ha. destruct Ha as [i Hi].
  apply In_nth_error in Hb. destruct Hb as [j Hj].
  destruct (Nat.lt_trichotomy i j) as [Hlt|[->|Hgt]].
  - rewrite (msorted_nth l i j a b Hs Hlt Hi Hj) in Heq. discriminate.
  - congruence.
  - apply pm_cmp_eq_sym in Heq.
    rewrite (msorted_nth l j i b a Hs Hgt Hj Hi) in Heq. discriminate.
Qed.

(* a wildcard member of a sorted list is its first member *)
Lemma msorted_wild_head : forall l (kc : member), msorted l -> In kc l -> fst kc = PMWild ->
  exists t, l = kc :: t.
Proof.
  intros l kc Hs Hin Hk. destruct l as [|x t]; [destruct Hin|].
  destruct Hin as [->|Hin]; [exists t; reflexivity|].
  destruct Hs as [Hx _]. unfold mlt in Hx. rewrite Forall_forall in Hx.
  specialize (Hx kc Hin). rewrite Hk in Hx. destruct (fst x); discriminate.
Qed.

(* ---------- the bisection sort.Find ---------- *)
Definition ngt (c : comparison) : bool := match c with Gt => false | _ => true end.

Lemma find_go_search : forall fuel cmp i j,
  find_go fuel cmp i j = search_go fuel (fun h => ngt (cmp h)) i j.
Proof.
  intros fuel cmp. induction fuel as [|fuel IH]; intros i j; simpl; auto.
  destruct (Nat.ltb i j); auto. rewrite !IH.
  destruct (cmp (Nat.div2 (i + j))); reflexivity.
Qed.

Lemma nth_error_lt_ex : forall (A : Type) (l : list A) i, i < List.length l ->
  exists x, nth_error l i = Some x.
Proof.
  intros A l i H. destruct (nth_error l i) as [x|] eqn:E; eauto.
  apply nth_error_None in E. lia.
Qed.

Lemma find_spec : forall n cmp, monotone n (fun h => ngt (cmp h)) ->
  fst (find n cmp) <= n /\
  (forall k, k < fst (find n cmp) -> cmp k = Gt) /\
  (fst (find n cmp) < n -> cmp (fst (find n cmp)) <> Gt) /\
  snd (find n cmp) = Nat.ltb (fst (find n cmp)) n && is_eq (cmp (fst (find n cmp))).
Proof.
  intros n cmp Hmono. unfold find. cbn [fst snd]. rewrite find_go_search.
  change (search_go (S n) (fun h => ngt (cmp h)) 0 n) with (search n (fun h => ngt (cmp h))).
  destruct (search_spec n _ Hmono) as (R1 & R2 & R3).
  remember (search n (fun h => ngt (cmp h))) as i eqn:Hi. clear Hi.
  repeat split; auto.
  - intros k Hk. specialize (R2 k Hk). simpl in R2. destruct (cmp k); try discriminate. reflexivity.
  - intros Hlt Hc. specialize (R3 Hlt). simpl in R3. rewrite Hc in R3. discriminate.
Qed.

Lemma sm_find_spec : forall ms p, msorted ms ->
  (snd (sm_find p ms) = true ->
     exists kc, nth_error ms (fst (sm_find p ms)) = Some kc /\ pm_cmp p (fst kc) = Eq) /\
  (snd (sm_find p ms) = false -> forall kc, In kc ms -> pm_cmp p (fst kc) <> Eq).
Proof.
  intros ms p Hs. unfold sm_find.
  remember (fun i : nat => match nth_error ms i with Some (q, _) => pm_cmp p q | None => Lt end)
    as cmp eqn:Hcmpdef.
  assert (Hcmp : forall k kc, nth_error ms k = Some kc -> cmp k = pm_cmp p (fst kc)).
  { intros k [q c] Hk. rewrite Hcmpdef, Hk. reflexivity. }
  clear Hcmpdef.
  assert (Hmono : monotone (List.length ms) (fun h => ngt (cmp h))).
  { intros i j Hij Hj Hfi. simpl in *.
    destruct (Nat.eq_dec i j) as [->|Hne]; auto.
    destruct (nth_error_lt_ex _ ms i ltac:(lia)) as [a Ha].
    destruct (nth_error_lt_ex _ ms j Hj) as [b Hb].
    rewrite (Hcmp i a Ha) in Hfi. rewrite (Hcmp j b Hb).
    assert (Hab : pm_cmp (fst a) (fst b) = Lt) by (apply (msorted_nth ms i j); auto; lia).
    destruct (pm_cmp p (fst a)) eqn:Hpa; try discriminate.
    - rewrite (pm_cmp_eq_l p (fst a) (fst b) Hpa), Hab. reflexivity.
    - rewrite (pm_cmp_trans_lt p (fst a) (fst b) Hpa Hab). reflexivity. }
  destruct (find_spec (List.length ms) cmp Hmono) as (R1 & R2 & R3 & R4).
  remember (find (List.length ms) cmp) as r eqn:Hr. clear Hr. destruct r as [n ok].
  cbn [fst snd] in *. subst ok.
  split.
  - intros Hok. apply andb_true_iff in Hok. destruct Hok as [Hlt Heq].
    apply Nat.ltb_lt in Hlt.
    destruct (nth_error_lt_ex _ ms n Hlt) as [kc Hk].
    exists kc. split; auto. rewrite <- (Hcmp n kc Hk). destruct (cmp n); try discriminate. reflexivity.
  - intros Hok kc Hin. apply In_nth_error in Hin. destruct Hin as [k Hk].
    assert (Hkl : k < List.length ms) by (apply nth_error_Some; congruence).
    rewrite <- (Hcmp k kc Hk).
    destruct (Nat.lt_trichotomy k n) as [Hlt|[->|Hgt]].
    + rewrite (R2 k Hlt). congruence.
    + apply Nat.ltb_lt in Hkl. rewrite Hkl in Hok. simpl in Hok.
      destruct (cmp n); try discriminate; congruence.
    + assert (Hnl : n < List.length ms) by lia. specialize (R3 Hnl).
      destruct (nth_error_lt_ex _ ms n Hnl) as [a Ha].
      rewrite (Hcmp n a Ha) in R3. rewrite (Hcmp k kc Hk).
      assert (Hab : pm_cmp (fst a) (fst kc) = Lt) by (apply (msorted_nth ms n k); auto).
      destruct (pm_cmp p (fst a)) eqn:Hpa; try congruence.
      * rewrite (pm_cmp_eq_l p (fst a) (fst kc) Hpa), Hab. congruence.
      * rewrite (pm_cmp_trans_lt p (fst a) (fst kc) Hpa Hab). congruence.
Qed.

(* ---------- the insertion sort ---------- *)
Lemma sm_insert_In : forall x l y, In y (sm_insert_sorted x l) <-> y = x \/ In y l.
Proof.
  intros x l y. induction l as [|a t IH]; simpl.
  - split; [intros [H|[]]; auto | intros [H|[]]; auto].
  - destruct (pm_less (fst a) (fst x)); simpl; rewrite ?IH; intuition auto.
Qed.

Lemma sm_sort_cons : forall x l, sm_sort (x :: l) = sm_insert_sorted x (sm_sort l).
Proof. reflexivity. Qed.

Lemma sm_sort_In : forall l y, In y (sm_sort l) <-> In y l.
Proof.
  intros l y. induction l as [|a t IH]; [simpl; tauto|].
  rewrite sm_sort_cons, sm_insert_In, IH. simpl. intuition auto.
Qed.

Lemma sm_insert_sorted_ok : forall x l, msorted l -> mne x l -> msorted (sm_insert_sorted x l).
Proof.
  intros x l. induction l as [|a t IH]; intros Hs Hd.
  - simpl. split; [constructor|exact I].
  - destruct Hs as [Hlt Hs]. inversion Hd as [|? ? Hxa Hdt]; subst.
    cbn [sm_insert_sorted]. destruct (pm_less (fst a) (fst x)) eqn:Hl.
    + apply pm_less_iff in Hl. cbn [msorted]. split; [|apply IH; auto].
      unfold mlt in *. rewrite Forall_forall in *. intros y Hy.
      apply sm_insert_In in Hy. destruct Hy as [->|Hy]; auto.
    + assert (Hxlt : pm_cmp (fst x) (fst a) = Lt).
      { rewrite (pm_cmp_antisym (fst x) (fst a)).
        destruct (pm_cmp (fst a) (fst x)) eqn:Hc; simpl; auto.
        - exfalso. apply Hxa. apply pm_cmp_eq_sym. exact Hc.
        - apply pm_less_iff in Hc. congruence. }
      cbn [msorted]. repeat split; auto.
      constructor; auto. apply (mlt_trans (fst x) (fst a)); auto.
Qed.

Lemma sm_sort_sorted : forall l, mdistinct l -> msorted (sm_sort l).
Proof.
  intros l. induction l as [|a t IH]; [simpl; auto|].
  intros [Ha Ht]. rewrite sm_sort_cons. apply sm_insert_sorted_ok.
  - apply IH. exact Ht.
  - unfold mne in *. rewrite Forall_forall in *. intros y Hy. apply Ha. apply (proj1 (sm_sort_In t y)). exact Hy.
Qed.

(* ---------- positional replacement under a map ---------- *)
Lemma replace_at_cons_S : forall (A : Type) i (y a : A) l,
  replace_at (S i) y (a :: l) = a :: replace_at i y l.
Proof. reflexivity. Qed.

Lemma map_ext_nth : forall (A B : Type) (f g : A -> B) l,
  (forall j z, nth_error l j = Some z -> g z = f z) -> map f l = map g l.
Proof.
  intros A B f g l H. apply map_ext_in. intros z Hz.
  apply In_nth_error in Hz. destruct Hz as [j Hj]. symmetry. apply (H j). exact Hj.
Qed.

Lemma replace_at_map : forall (A B : Type) (f g : A -> B) l i x e y,
  nth_error l i = Some x -> y = g x ->
  (forall j z, j <> i -> nth_error l j = Some z -> g z = f z) ->
  replace_at i y (map f l ++ e) = map g l ++ e.
Proof.
  intros A B f g l. induction l as [|a t IH]; intros i x e y Hi Hy Hoth.
  - destruct i; discriminate.
  - destruct i as [|i]; simpl in Hi.
    + inversion Hi; subst a. subst y. unfold replace_at. simpl. f_equal. f_equal.
      apply map_ext_nth. intros j z Hj. apply (Hoth (S j)); auto.
    + simpl map. simpl app. rewrite replace_at_cons_S.
      rewrite <- (Hoth 0 a) by (auto; reflexivity). f_equal.
      apply (IH i x); auto. intros j z Hj Hz. apply (Hoth (S j)); auto.
Qed.
