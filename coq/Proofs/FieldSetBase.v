(* Basic facts for the field-set and remove walkers: atom dispatch, well-formed path
   elements of list items (relative to a closed set of type references), grouping of
   list items by path element, the duplicate-detection pass. *)
From Coq Require Import List ZArith String Bool Arith Lia.
From SMD Require Import Model.Value Model.Order Model.PathElem Model.PathSet Model.Schema
  Model.Walk Model.FieldSet Model.Remove Spec.PathsAsSets Spec.RefValid Spec.Resolve
  Proofs.OrderLaws Proofs.KeyLaws Proofs.PathSetLaws Proofs.ValidateLaws Proofs.SchemaOk
  Proofs.FieldSetMirrors.
Import ListNotations.
Open Scope bool_scope.

(* ---------- atom dispatch ---------- *)
Lemma handle_list_inv : forall a v t,
  handle_atom (deduce_atom a (Some v)) = HList t -> atom_list a = Some t.
Proof.
  intros [[sc|] [li|] [ma|]] v t; destruct v; simpl; intros H; inversion H; reflexivity.
Qed.

Lemma handle_map_inv : forall a v t,
  handle_atom (deduce_atom a (Some v)) = HMap t -> atom_map a = Some t.
Proof.
  intros [[sc|] [li|] [ma|]] v t; destruct v; simpl; intros H; inversion H; reflexivity.
Qed.

Lemma handle_vlist : forall sc t ma l,
  handle_atom (deduce_atom (Atom sc (Some t) ma) (Some (VList l))) = HList t.
Proof. intros. reflexivity. Qed.

Lemma handle_vmap : forall sc li t m,
  handle_atom (deduce_atom (Atom sc li (Some t)) (Some (VMap m))) = HMap t.
Proof. intros. reflexivity. Qed.

Section Closed.
  Variables (s : schema) (R : typeref -> Prop).
  Hypothesis Hok : schema_ok s R.

  Lemma R_list_elem : forall tr a v t, R tr -> resolve s tr = Some a ->
    handle_atom (deduce_atom a (Some v)) = HList t -> R (list_elem t).
  Proof.
    intros tr a v t Htr Hr Hh. eapply (so_list s R Hok); eauto using handle_list_inv.
  Qed.

  Lemma R_field_type : forall tr a v t k, R tr -> resolve s tr = Some a ->
    handle_atom (deduce_atom a (Some v)) = HMap t -> R (field_type t k).
  Proof.
    intros tr a v t k Htr Hr Hh. eapply (so_map s R Hok); eauto using handle_map_inv.
  Qed.

  (* well-formedness of list-item path elements *)
  Lemma find_field_default_wf' : forall fs k f d,
    wf_defaults_fields fs = true -> find_field fs k = Some f -> sf_default f = Some d ->
    wf_value d = true.
  Proof.
    intros fs k f d. induction fs as [|[n ty dflt] fs IH]; simpl; intros Hfs Hf Hd.
    - discriminate.
    - apply andb_true_iff in Hfs. destruct Hfs as [Hd0 Hfs].
      destruct (find_field fs k) as [r|] eqn:Er.
      + apply IH; assumption.
      + destruct (String.eqb k n); [|discriminate].
        inversion Hf; subst. simpl in Hd. subst. exact Hd0.
  Qed.

  Lemma key_default_wf' : forall t k d, R (list_elem t) ->
    key_default s t k = Some (Some d) -> wf_value d = true.
  Proof.
    intros t k d Ht. unfold key_default.
    destruct (resolve s (list_elem t)) as [a|] eqn:Er; [|discriminate].
    apply (so_defaults s R Hok _ _ Ht) in Er. destruct a as [sc li [mt|]]; [|discriminate].
    destruct mt as [fs me mr]. simpl in Er. simpl.
    destruct (find_field fs k) as [f|] eqn:Ef; [|discriminate].
    intros Hd. inversion Hd as [Hd']. eapply find_field_default_wf'; eassumption.
  Qed.

  Lemma keyed_go_wf' : forall t m, R (list_elem t) ->
    forallb (fun kv => wf_value (snd kv)) m = true ->
    forall keys fl, keyed_go s t m keys = Some fl -> wf_fl fl = true.
  Proof.
    intros t m Ht Hm keys. induction keys as [|k ks IH]; simpl; intros fl Hgo.
    - inversion Hgo; subst. reflexivity.
    - destruct (assoc_get k m) as [v|] eqn:Eg.
      + destruct (keyed_go s t m ks) as [r|]; [|discriminate].
        inversion Hgo; subst. unfold wf_fl. simpl.
        rewrite (assoc_get_wf _ _ _ Hm Eg). simpl. apply (IH r). reflexivity.
      + destruct (key_default s t k) as [[d|]|] eqn:Ed; try discriminate.
        destruct (keyed_go s t m ks) as [r|]; [|discriminate].
        inversion Hgo; subst. unfold wf_fl. simpl.
        rewrite (key_default_wf' _ _ _ Ht Ed). simpl. apply (IH r). reflexivity.
  Qed.

  Lemma lipe_wf_elem : forall t child e, R (list_elem t) -> wf_value child = true ->
    list_item_to_pe s t child = Some e -> wf_pe e = true.
  Proof.
    intros t child e Ht Hc. unfold list_item_to_pe.
    destruct (negb (rel_is_assoc (list_rel t))); [discriminate|].
    destruct (list_keys t) as [|k0 ks0] eqn:Ek.
    - destruct child; simpl; intros He; try discriminate; inversion He; subst; reflexivity.
    - destruct child as [| | | | |l|m]; try (simpl; discriminate).
      rewrite keyed_item_to_pe_eq.
      destruct (keyed_go s t m (list_keys t)) as [fl|] eqn:Eg; [|discriminate].
      intros He. inversion He; subst. simpl.
      apply fl_sort_wf. simpl in Hc. apply andb_true_iff in Hc. destruct Hc as [_ Hc].
      eapply keyed_go_wf'; eassumption.
  Qed.

  Lemma lipe_wf : forall tr a t child e, R tr -> resolve s tr = Some a ->
    atom_list a = Some t -> wf_value child = true ->
    list_item_to_pe s t child = Some e -> wf_pe e = true.
  Proof.
    intros tr a t child e Htr Hr Ha Hc He.
    eapply lipe_wf_elem; eauto. eapply (so_list s R Hok); eauto.
  Qed.
End Closed.

(* ---------- path elements of the items of a list ---------- *)
Definition pe_matches (s : schema) (t : listT) (e : pe) (x : value) : bool :=
  match list_item_to_pe s t x with Some e' => peeqb e' e | None => false end.
Definition occ (s : schema) (t : listT) (e : pe) (l : list value) : list value :=
  filter (pe_matches s t e) l.
Definition items_wf (s : schema) (t : listT) (l : list value) : Prop :=
  forall x e, In x l -> list_item_to_pe s t x = Some e -> wf_pe e = true.

Lemma items_wf_cons : forall s t x l, items_wf s t (x :: l) ->
  (forall e, list_item_to_pe s t x = Some e -> wf_pe e = true) /\ items_wf s t l.
Proof.
  intros s t x l H. split.
  - intros e He. apply (H x e); simpl; auto.
  - intros y e Hy He. apply (H y e); simpl; auto.
Qed.

Arguments occ : simpl never.

Lemma occ_cons : forall s t e x l,
  occ s t e (x :: l) = if pe_matches s t e x then x :: occ s t e l else occ s t e l.
Proof. reflexivity. Qed.

(* ---------- grouping ---------- *)
Section GIns.
  Variables (e : pe) (x : value).
  Fixpoint g_ins (acc : list (pe * list value)) : list (pe * list value) :=
    match acc with
    | [] => [(e, [x])]
    | (e', xs) :: t' => if peeqb e' e then (e', xs ++ [x]) :: t' else (e', xs) :: g_ins t'
    end.
End GIns.

Lemma group_items_cons : forall s t x rest acc,
  group_items s t (x :: rest) acc =
  match list_item_to_pe s t x with
  | None => None
  | Some e => group_items s t rest (g_ins e x acc)
  end.
Proof. reflexivity. Qed.

Definition reps_wf (g : list (pe * list value)) : Prop :=
  Forall (fun ex => wf_pe (fst ex) = true) g.

Lemma lookup_group_cons : forall e r xs g,
  lookup_group e ((r, xs) :: g) = if peeqb r e then Some xs else lookup_group e g.
Proof. intros e r xs g. unfold lookup_group. simpl. destruct (peeqb r e); reflexivity. Qed.

Lemma g_ins_wf : forall e x acc, wf_pe e = true -> reps_wf acc -> reps_wf (g_ins e x acc).
Proof.
  intros e x acc He Hacc. induction Hacc as [|[r xs] g Hr Hg IH]; simpl.
  - constructor; [exact He|constructor].
  - destruct (peeqb r e); constructor; auto.
Qed.

Lemma lookup_g_ins : forall e x e' acc, wf_pe e = true -> wf_pe e' = true -> reps_wf acc ->
  lookup_group e' (g_ins e x acc) =
  if peeqb e e' then Some (match lookup_group e' acc with Some ys => ys ++ [x] | None => [x] end)
  else lookup_group e' acc.
Proof.
  intros e x e' acc He He' Hacc. induction Hacc as [|[r xs] g Hr Hg IH]; simpl in *.
  - rewrite lookup_group_cons. destruct (peeqb e e'); reflexivity.
  - rewrite lookup_group_cons. destruct (peeqb r e) eqn:Ere.
    + rewrite lookup_group_cons.
      rewrite (peeqb_cong_l e' r e He' Hr He Ere).
      destruct (peeqb e e'); reflexivity.
    + rewrite lookup_group_cons, IH. destruct (peeqb r e') eqn:Ere'.
      * destruct (peeqb e e') eqn:Eee'; [|reflexivity].
        rewrite (peeqb_cong_r r e e' Hr He He' Eee') in Ere. congruence.
      * reflexivity.
Qed.

Lemma group_items_spec : forall s t l acc, items_wf s t l -> forallb (has_pe s t) l = true ->
  reps_wf acc ->
  exists g, group_items s t l acc = Some g /\ reps_wf g /\
    forall e', wf_pe e' = true ->
      lookup_group e' g =
      match lookup_group e' acc with
      | Some ys => Some (ys ++ occ s t e' l)
      | None => match occ s t e' l with [] => None | xs => Some xs end
      end.
Proof.
  intros s t l. induction l as [|x l IH]; intros acc Hwf Hhas Hacc.
  - exists acc. split; [reflexivity|]. split; [exact Hacc|].
    intros e' He'. simpl. destruct (lookup_group e' acc); [rewrite app_nil_r|]; reflexivity.
  - simpl in Hhas. apply andb_true_iff in Hhas. destruct Hhas as [Hx Hhas].
    apply items_wf_cons in Hwf. destruct Hwf as [Hwx Hwf].
    rewrite group_items_cons. unfold has_pe in Hx.
    destruct (list_item_to_pe s t x) as [e|] eqn:Ee; [|discriminate].
    assert (He : wf_pe e = true) by (apply Hwx; reflexivity).
    destruct (IH (g_ins e x acc) Hwf Hhas (g_ins_wf e x acc He Hacc)) as (g & Hg & Hgw & Hl).
    exists g. split; [exact Hg|]. split; [exact Hgw|].
    intros e' He'. rewrite (Hl e' He'), lookup_g_ins by auto.
    rewrite occ_cons. unfold pe_matches. rewrite Ee.
    destruct (peeqb e e'); [|reflexivity].
    destruct (lookup_group e' acc) as [ys|].
    + rewrite <- app_assoc. reflexivity.
    + reflexivity.
Qed.

Lemma group_items_nil_spec : forall s t l, items_wf s t l -> forallb (has_pe s t) l = true ->
  exists g, group_items s t l [] = Some g /\ reps_wf g /\
    forall e', wf_pe e' = true ->
      lookup_group e' g = match occ s t e' l with [] => None | xs => Some xs end.
Proof.
  intros s t l Hwf Hhas.
  destruct (group_items_spec s t l [] Hwf Hhas (Forall_nil _)) as (g & Hg & Hgw & Hl).
  exists g. split; [exact Hg|]. split; [exact Hgw|].
  intros e' He'. rewrite (Hl e' He'). reflexivity.
Qed.

Lemma group_items_none : forall s t l acc, forallb (has_pe s t) l = false ->
  group_items s t l acc = None.
Proof.
  intros s t l. induction l as [|x l IH]; intros acc H; [discriminate|].
  rewrite group_items_cons. simpl in H. unfold has_pe in H at 1.
  destruct (list_item_to_pe s t x) as [e|]; [|reflexivity].
  simpl in H. apply IH. exact H.
Qed.

Lemma group_items_some : forall s t l g, items_wf s t l -> group_items s t l [] = Some g ->
  forallb (has_pe s t) l = true /\ reps_wf g /\
  forall e', wf_pe e' = true ->
    lookup_group e' g = match occ s t e' l with [] => None | xs => Some xs end.
Proof.
  intros s t l g Hwf Hg. destruct (forallb (has_pe s t) l) eqn:Eh.
  - destruct (group_items_nil_spec s t l Hwf Eh) as (g' & Hg' & Hgw & Hl).
    rewrite Hg in Hg'. inversion Hg'; subst. auto.
  - rewrite (group_items_none s t l [] Eh) in Hg. discriminate.
Qed.

Lemma occ_In : forall s t e l x, In x (occ s t e l) -> In x l /\ pe_matches s t e x = true.
Proof. intros s t e l x H. unfold occ in H. apply filter_In in H. exact H. Qed.

Lemma In_occ : forall s t e l x, In x l -> pe_matches s t e x = true -> In x (occ s t e l).
Proof. intros s t e l x H1 H2. unfold occ. apply filter_In. auto. Qed.

Definition is_keyval (e : pe) : bool :=
  match e with PEKey _ | PEValue _ => true | _ => false end.

Lemma lipe_keyval : forall s t x e, list_item_to_pe s t x = Some e -> is_keyval e = true.
Proof.
  intros s t x e. unfold list_item_to_pe.
  destruct (negb (rel_is_assoc (list_rel t))); [discriminate|].
  destruct (list_keys t) as [|k0 ks] eqn:Ek.
  - destruct x; simpl; intros H; inversion H; reflexivity.
  - destruct x as [| | | | |l|m]; try (simpl; discriminate).
    rewrite keyed_item_to_pe_eq. destruct (keyed_go s t m (list_keys t)); intros H; inversion H.
    reflexivity.
Qed.

Lemma peeqb_keyval : forall e e', peeqb e e' = true -> is_keyval e = is_keyval e'.
Proof. intros e e'. destruct e, e'; simpl; intros H; try discriminate; reflexivity. Qed.

(* ---------- re-exports in terms of the definitions of PathSetLaws ---------- *)
Lemma pes_mem_cong : forall x y l, wf_pe x = true -> wf_pe y = true -> wf_pes l = true ->
  peeqb x y = true -> pes_mem x l = pes_mem y l.
Proof. exact PesLaws.pes_mem_cong. Qed.
Lemma ps_nonempty_witness : forall s, ps_ok s = true -> ps_empty s = false ->
  exists p, wf_path p = true /\ ps_has p s = true.
Proof. exact TrieBase.ps_nonempty_witness. Qed.
Lemma ps_has_nonempty : forall s p, ps_has p s = true -> ps_empty s = false.
Proof. exact TrieBase.ps_has_nonempty. Qed.
Lemma ps_empty_has : forall s p, ps_empty s = true -> ps_has p s = false.
Proof. exact TrieBase.ps_empty_has. Qed.
Lemma wf_path_cons : forall e p, wf_path (e :: p) = true <-> wf_pe e = true /\ wf_path p = true.
Proof. exact TrieBase.wf_path_cons. Qed.
Lemma pmem_app : forall p l1 l2, pmem p (l1 ++ l2) = pmem p l1 || pmem p l2.
Proof. exact TrieElems.pmem_app. Qed.
Lemma pmem_cons_map : forall e p k l, pmem (e :: p) (map (fun q => k :: q) l) = peeqb e k && pmem p l.
Proof. exact TrieElems.pmem_cons_map. Qed.
Lemma proper_prefix_cons : forall e p k q,
  proper_prefix (e :: p) (k :: q) = peeqb e k && proper_prefix p q.
Proof. exact TrieElems.proper_prefix_cons. Qed.
Lemma existsb_flat_map : forall (A B : Type) (f : B -> bool) (g : A -> list B) l,
  existsb f (flat_map g l) = existsb (fun x => existsb f (g x)) l.
Proof. exact TrieElems.existsb_flat_map. Qed.
Lemma existsb_andb_const : forall (A : Type) (b : bool) (f : A -> bool) l,
  existsb (fun x => b && f x) l = b && existsb f l.
Proof. exact TrieElems.existsb_andb_const. Qed.
Lemma existsb_map : forall (A B : Type) (f : B -> bool) (g : A -> B) l,
  existsb f (map g l) = existsb (fun x => f (g x)) l.
Proof. exact TrieOps.existsb_map. Qed.

(* ---------- the duplicate-detection pass ---------- *)
Lemma pass1_spec : forall s t pre l seen dups acc err,
  sorted_pes seen = true -> wf_pes seen = true -> sorted_pes dups = true -> wf_pes dups = true ->
  items_wf s t l -> forallb (has_pe s t) l = true ->
  exists dups' new,
    fs_pass1 s t pre l seen dups acc err = (dups', acc ++ new, err) /\
    sorted_pes dups' = true /\ wf_pes dups' = true /\
    (forall x, wf_pe x = true ->
       pes_mem x dups' = pes_mem x dups
                         || (pes_mem x seen && (1 <=? List.length (occ s t x l)))
                         || (2 <=? List.length (occ s t x l))) /\
    (forall q, In q new -> exists e, q = pre ++ [e] /\ wf_pe e = true /\
       (pes_mem e seen && (1 <=? List.length (occ s t e l))
        || (2 <=? List.length (occ s t e l))) = true).
Proof.
  intros s t pre l. induction l as [|x l IH]; intros seen dups acc err Hs1 Hs2 Hd1 Hd2 Hwf Hhas.
  - exists dups, []. simpl. rewrite app_nil_r. repeat split; auto.
    + intros y Hy. rewrite andb_false_r, !orb_false_r. reflexivity.
    + intros q [].
  - apply items_wf_cons in Hwf. destruct Hwf as [Hwx Hwf].
    simpl in Hhas. apply andb_true_iff in Hhas. destruct Hhas as [Hx Hhas].
    unfold has_pe in Hx.
    destruct (list_item_to_pe s t x) as [e|] eqn:Ee; [|discriminate]. clear Hx.
    cbn [fs_pass1]. rewrite (list_item_pe_or_zero_some s t x e Ee). cbv zeta.
    assert (He : wf_pe e = true) by (apply Hwx; reflexivity).
    assert (Hocc : forall y, wf_pe y = true ->
              List.length (occ s t y (x :: l)) =
              if peeqb y e then S (List.length (occ s t y l)) else List.length (occ s t y l)).
    { intros y Hy. rewrite occ_cons. unfold pe_matches. rewrite Ee.
      rewrite (peeqb_sym e y He Hy). destruct (peeqb y e); reflexivity. }
    rewrite (pes_has_spec e seen Hs1 Hs2 He).
    destruct (pes_mem e seen) eqn:Eseen.
    + rewrite (pes_has_spec e dups Hd1 Hd2 He).
      destruct (pes_mem e dups) eqn:Edups.
      * destruct (IH seen dups acc err Hs1 Hs2 Hd1 Hd2 Hwf Hhas) as (d' & new & Heq & Hsd & Hwd & Hmem & Hnew).
        exists d', new. rewrite Heq. simpl. repeat split; auto.
        -- intros y Hy. rewrite (Hmem y Hy), (Hocc y Hy).
           destruct (peeqb y e) eqn:Eye; [|reflexivity].
           rewrite (pes_mem_cong y e dups Hy He Hd2 Eye), Edups. reflexivity.
        -- intros q Hq. destruct (Hnew q Hq) as (e0 & H1 & H2 & H3). exists e0.
           split; [exact H1|]. split; [exact H2|]. rewrite (Hocc e0 H2).
           destruct (peeqb e0 e); [|exact H3].
           destruct (pes_mem e0 seen), (List.length (occ s t e0 l)) as [|[|n]]; simpl in *; auto.
      * destruct (pes_insert_sorted e dups Hd1 Hd2 He) as [Hd1' Hd2'].
        destruct (IH seen (pes_insert e dups) (acc ++ [pre ++ [e]]) err Hs1 Hs2 Hd1' Hd2' Hwf Hhas)
          as (d' & new & Heq & Hsd & Hwd & Hmem & Hnew).
        exists d', ((pre ++ [e]) :: new). rewrite Heq. rewrite <- app_assoc. simpl.
        repeat split; auto.
        -- intros y Hy. rewrite (Hmem y Hy), (Hocc y Hy).
           rewrite (pes_insert_mem e y dups Hd1 Hd2 He Hy).
           destruct (peeqb y e) eqn:Eye; [|reflexivity].
           rewrite (pes_mem_cong y e seen Hy He Hs2 Eye), Eseen. simpl.
           rewrite !orb_true_r. reflexivity.
        -- intros q [Hq|Hq].
           ++ exists e. split; [auto|]. split; [exact He|]. rewrite (Hocc e He), Eseen.
              rewrite (peeqb_refl e He). reflexivity.
           ++ destruct (Hnew q Hq) as (e0 & H1 & H2 & H3). exists e0.
              split; [exact H1|]. split; [exact H2|]. rewrite (Hocc e0 H2).
              destruct (peeqb e0 e); [|exact H3].
              destruct (pes_mem e0 seen), (List.length (occ s t e0 l)) as [|[|n]]; simpl in *; auto.
    + destruct (pes_insert_sorted e seen Hs1 Hs2 He) as [Hs1' Hs2'].
      destruct (IH (pes_insert e seen) dups acc err Hs1' Hs2' Hd1 Hd2 Hwf Hhas)
        as (d' & new & Heq & Hsd & Hwd & Hmem & Hnew).
      exists d', new. rewrite Heq. simpl. repeat split; auto.
      * intros y Hy. rewrite (Hmem y Hy), (Hocc y Hy).
        rewrite (pes_insert_mem e y seen Hs1 Hs2 He Hy).
        destruct (peeqb y e) eqn:Eye; [|reflexivity].
        rewrite (pes_mem_cong y e seen Hy He Hs2 Eye), Eseen. simpl.
        destruct (pes_mem y dups), (List.length (occ s t y l)) as [|[|n]]; reflexivity.
      * intros q Hq. destruct (Hnew q Hq) as (e0 & H1 & H2 & H3). exists e0.
        split; [exact H1|]. split; [exact H2|]. rewrite (Hocc e0 H2).
        rewrite (pes_insert_mem e e0 seen Hs1 Hs2 He H2) in H3.
        destruct (peeqb e0 e) eqn:Eye; [|exact H3].
        rewrite (pes_mem_cong e0 e seen H2 He Hs2 Eye), Eseen. simpl. simpl in H3.
        destruct (List.length (occ s t e0 l)) as [|[|n]]; simpl in *; auto.
Qed.
