(* C08: a conversion failure surfaces as an error.  First stage (reconcile). *)
From Coq Require Import List ZArith String Bool.
From SMD Require Import Model.Value Model.Order Model.PathSet Model.Reconcile Model.Updater.
Import ListNotations.

Lemma reconcile_fold_err : forall c live l e,
  fold_left
    (fun (acc : ures (managed * nat)) (mr : string * mrec) =>
       match acc with
       | UErr e => UErr e
       | UOk (res, n) =>
           let r := snd mr in
           let '(cr, n1) := convert c n live (mr_ver r) in
           match cr with
           | CMissing => UOk (res, n1)
           | CFail => UErr EOther
           | COk v =>
               match reconcile_field_set (schema_of c (mr_ver r)) (tr_of c (mr_ver r)) (mr_set r) with
               | None => UErr EOther
               | Some (Some s') => UOk (res ++ [(fst mr, mkRec s' (mr_ver r) (mr_applied r))], n1)
               | Some None => UOk (res ++ [mr], n1)
               end
           end
       end) l (UErr e) = UErr e.
Proof. intros c live l e. induction l as [|x t IH]; [reflexivity|]. simpl. exact IH. Qed.

Theorem reconcile_conversion_failure : forall c n live m r rest,
  cfg_convert c n (fst live) (mr_ver r) (snd live) = CFail ->
  reconcile_managed c n live ((m, r) :: rest) = UErr EOther.
Proof.
  intros c n live m r rest H. unfold reconcile_managed. simpl. unfold convert. rewrite H.
  apply reconcile_fold_err.
Qed.

(* hence Apply and Update fail, with no object, when the first conversion fails *)
Theorem apply_first_conversion_failure : forall c live cfg ver m r rest mgr force,
  cfg_convert c 0 (fst live) (mr_ver r) (snd live) = CFail ->
  apply_op c live cfg ver ((m, r) :: rest) mgr force = UErr EOther.
Proof.
  intros. unfold apply_op. rewrite reconcile_conversion_failure by assumption. reflexivity.
Qed.

Theorem update_first_conversion_failure : forall c live new ver m r rest mgr,
  cfg_convert c 0 (fst live) (mr_ver r) (snd live) = CFail ->
  update_op c live new ver ((m, r) :: rest) mgr = UErr EOther.
Proof.
  intros. unfold update_op. rewrite reconcile_conversion_failure by assumption. reflexivity.
Qed.
