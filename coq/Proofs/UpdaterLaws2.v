(* Second batch at the level of apply_op / update_op (Model/Updater.v):
   C05 (actor's record), C06 (part of the invariant), C19 (ignored fields never owned,
   exclusion sets), C20 (records at a vanished version are dropped).
   The hypotheses on the comparing walker, the field-set walker and the converter are
   RELATIVE to well-formed values (compare_ok_wf, fs_ok_wf, conv_wf): well-formedness of
   the objects is threaded through apply_op / update_op (merge, prune, conversions).
   They are satisfiable: see the last section (ex_config).  Every theorem is proved with Qed. *)
From Coq Require Import List ZArith String Bool Arith Lia.
From SMD Require Import Model.Value Model.Order Model.PathElem Model.PathSet Model.Schema
  Model.Walk Model.FieldSet Model.Remove Model.Merge Model.Compare Model.Matcher Model.Reconcile
  Model.Updater Spec.PathsAsSets Proofs.OrderLaws Proofs.PathSetLaws Proofs.UpdaterLaws.
(* Spec.Examples opens string_scope when imported: it is only required *)
From SMD Require Spec.Examples Proofs.PesLaws Proofs.TrieBase Proofs.SchemaOk Proofs.ValidateLaws Proofs.CompareLaws
  Proofs.MergeWf Proofs.RemoveWf Proofs.FieldSetWf.
Import ListNotations.
Open Scope bool_scope.

(* every comparison of well-formed objects yields well-formed sets (CompareLaws.compare_sets_ok
   discharges it for a configuration whose schemas are schema_ok) *)
Definition compare_ok_wf (c : config) : Prop :=
  forall a b cmp, wf_value (snd a) = true -> wf_value (snd b) = true ->
    compare_tv c a b = Some cmp -> cmp_ok cmp.

(* the field set of a well-formed object is well formed (FieldSetWf.to_field_set_ok) *)
Definition fs_ok_wf (c : config) : Prop :=
  forall o fs, wf_value (snd o) = true -> to_fs c o = Some fs -> ps_ok fs = true.

(* the converter maps well-formed values to well-formed values *)
Definition conv_wf (c : config) : Prop :=
  forall n from to v v', wf_value v = true -> cfg_convert c n from to v = COk v' -> wf_value v' = true.

(* ================= auxiliary: association lists, removal and append ================= *)

Section Assoc2.
  Context {A : Type}.

  Lemma in_assoc_remove : forall k (l : list (string * A)) x, In x (assoc_remove k l) -> In x l.
  Proof.
    intros k l x. induction l as [|[k0 v0] t IH]; simpl; [intros []|].
    destruct (String.eqb k k0).
    - intros H; right; exact H.
    - intros [H|H]; [left; exact H|right; apply IH; exact H].
  Qed.

  Lemma assoc_remove_sorted : forall k (l : list (string * A)),
    sorted_keys l = true -> sorted_keys (assoc_remove k l) = true.
  Proof.
    intros k l. induction l as [|[k0 v0] t IH]; intros Hs; [reflexivity|].
    apply sorted_keys_cons_iff in Hs. destruct Hs as [Hg Hs].
    simpl. destruct (String.eqb k k0); [exact Hs|].
    apply sorted_keys_cons_iff. split; [|apply IH; exact Hs].
    intros k2 v2 Hin. apply in_assoc_remove in Hin. eapply Hg; exact Hin.
  Qed.

  Lemma assoc_get_remove : forall k' k (l : list (string * A)), sorted_keys l = true ->
    assoc_get k' (assoc_remove k l) = if String.eqb k' k then None else assoc_get k' l.
  Proof.
    intros k' k l. induction l as [|[k0 v0] t IH]; intros Hs.
    - simpl. destruct (String.eqb k' k); reflexivity.
    - apply sorted_keys_cons_iff in Hs. destruct Hs as [Hg Hs].
      simpl. destruct (String.eqb k k0) eqn:E.
      + apply String.eqb_eq in E. subst k0.
        destruct (String.eqb k' k) eqn:E1; [|reflexivity].
        apply String.eqb_eq in E1. subst k'. apply assoc_get_kgt. exact Hg.
      + simpl. rewrite (IH Hs). destruct (String.eqb k' k0) eqn:E0; [|reflexivity].
        apply String.eqb_eq in E0. subst k'. rewrite String.eqb_sym, E. reflexivity.
  Qed.
End Assoc2.

(* ================= update_core, any configuration ================= *)

Definition filters_ok (c : config) : Prop :=
  forall v f, ignore_filter_for c v = Some (Some f) -> exists ex, f = FExclude ex /\ ps_ok ex = true.

Lemma filter_set_ok : forall c v f s, filters_ok c -> ignore_filter_for c v = Some f ->
  ps_ok s = true -> ps_ok (filter_set f s) = true.
Proof.
  intros c v f s Hf Hv Hs. destruct f as [f|]; [|exact Hs].
  destruct (Hf v f Hv) as [ex [Hex Hok]]. subst f. simpl.
  apply ps_rdiff_spec; assumption.
Qed.

Lemma filter_cmp_ok : forall c v f cmp, filters_ok c -> ignore_filter_for c v = Some f ->
  cmp_ok cmp -> cmp_ok (filter_cmp f cmp).
Proof.
  intros c v f cmp Hf Hv [HR [HM HA]]. unfold filter_cmp, cmp_ok. cbn [removed modified added].
  split; [|split]; eapply filter_set_ok; eassumption.
Qed.

(* the managers of the state are those of the input, some deleted, none altered *)
Definition sub_assoc (a b : managed) : Prop :=
  sorted_keys a = true /\ forall m r, mf_get m a = Some r -> mf_get m b = Some r.

Definition sets_ok (L : list (string * pset)) : Prop :=
  Forall (fun ms : string * pset => ps_ok (snd ms) = true) L.

Definition uinv (mf : managed) (st : upd_state) : Prop :=
  sub_assoc (us_managers st) mf /\
  Forall (fun vc : string * comparison3 => cmp_ok (snd vc)) (us_versions st) /\
  sets_ok (us_conflicts st) /\ sets_ok (us_removed st).

Lemma sub_assoc_del : forall m a b, sub_assoc a b -> sub_assoc (mf_del m a) b.
Proof.
  intros m a b [Hs Hg]. split.
  - unfold mf_del. apply assoc_remove_sorted. exact Hs.
  - intros m' r H. unfold mf_get, mf_del in H. rewrite (assoc_get_remove m' m a Hs) in H.
    destruct (String.eqb m' m); [discriminate|]. apply Hg. exact H.
Qed.

Lemma with_cmp_inv : forall mf m r st cmp st',
  uinv mf st -> cmp_ok cmp -> ps_ok (mr_set r) = true ->
  with_cmp m r st cmp = UOk st' -> uinv mf st'.
Proof.
  intros mf m r st cmp st' [Hsub [Hv [Hc Hr]]] Hcmp Hrok H.
  unfold with_cmp in H. inversion H; subst st'; clear H.
  destruct (cset_spec cmp r Hcmp Hrok) as [HokC _]. unfold cset in HokC.
  destruct Hcmp as [HR [HM HA]].
  unfold uinv. cbn [us_managers us_versions us_conflicts us_removed].
  split; [exact Hsub|]. split; [exact Hv|]. split.
  - destruct (ps_empty (ps_inter (mr_set r) (ps_union (modified cmp) (added cmp)))); [exact Hc|].
    apply Forall_app. split; [exact Hc|]. constructor; [exact HokC|constructor].
  - destruct (ps_empty (removed cmp)); [exact Hr|].
    apply Forall_app. split; [exact Hr|]. constructor; [exact HR|constructor].
Qed.

Lemma ustep_inv : forall c old new w mf st mr st',
  compare_ok_wf c -> conv_wf c -> wf_value (snd old) = true -> wf_value (snd new) = true ->
  filters_ok c -> uinv mf st -> ps_ok (mr_set (snd mr)) = true ->
  ustep c old new w (UOk st) mr = UOk st' -> uinv mf st'.
Proof.
  intros c old new w mf st mr st' Hcok Hcv Hwo Hwn Hfok Hinv Hrok H. unfold ustep in H.
  destruct (String.eqb (fst mr) w).
  { inversion H; subst; exact Hinv. }
  destruct (assoc_get (mr_ver (snd mr)) (us_versions st)) as [cmp|] eqn:Hget.
  { eapply with_cmp_inv; [exact Hinv| |exact Hrok|exact H].
    destruct Hinv as [_ [Hv _]]. apply assoc_get_in in Hget.
    rewrite Forall_forall in Hv. exact (Hv _ Hget). }
  unfold convert in H. simpl in H.
  assert (forall n1, uinv mf (mkUpd (mf_del (fst mr) (us_managers st)) (us_versions st)
                                 (us_conflicts st) (us_removed st) n1)) as Hdel.
  { intros n1. destruct Hinv as [Hsub [Hv [Hc Hr]]]. unfold uinv.
    cbn [us_managers us_versions us_conflicts us_removed].
    split; [apply sub_assoc_del; exact Hsub|]. split; [exact Hv|]. split; assumption. }
  destruct (cfg_convert c (us_n st) (fst old) (mr_ver (snd mr)) (snd old)) as [vold| |] eqn:Eo;
    [|inversion H; subst; apply Hdel|discriminate].
  destruct (cfg_convert c (S (us_n st)) (fst new) (mr_ver (snd mr)) (snd new)) as [vnew| |] eqn:En;
    [|inversion H; subst; apply Hdel|discriminate].
  destruct (compare_tv c (mr_ver (snd mr), vold) (mr_ver (snd mr), vnew)) as [cmp1|] eqn:Hcmp;
    [|discriminate].
  destruct (ignore_filter_for c (mr_ver (snd mr))) as [f1|] eqn:Hf; [|discriminate].
  assert (cmp_ok (filter_cmp f1 cmp1)) as Hc1.
  { eapply filter_cmp_ok; [exact Hfok|exact Hf|]. eapply Hcok; [| |exact Hcmp]; cbn [snd].
    - eapply Hcv; [exact Hwo|exact Eo].
    - eapply Hcv; [exact Hwn|exact En]. }
  eapply with_cmp_inv; [|exact Hc1|exact Hrok|exact H].
  destruct Hinv as [Hsub [Hv [Hc Hr]]]. unfold uinv.
  cbn [us_managers us_versions us_conflicts us_removed].
  split; [exact Hsub|]. split; [|split; assumption].
  apply Forall_app. split; [exact Hv|]. constructor; [exact Hc1|constructor].
Qed.

Lemma fold_ustep_inv : forall c old new w mf l st st',
  compare_ok_wf c -> conv_wf c -> wf_value (snd old) = true -> wf_value (snd new) = true ->
  filters_ok c ->
  (forall mr, In mr l -> ps_ok (mr_set (snd mr)) = true) ->
  uinv mf st -> fold_left (ustep c old new w) l (UOk st) = UOk st' -> uinv mf st'.
Proof.
  intros c old new w mf l. induction l as [|a l IH]; intros st st' Hcok Hcv Hwo Hwn Hfok Hl Hinv H.
  - inversion H; subst; exact Hinv.
  - cbn [fold_left] in H. destruct (ustep c old new w (UOk st) a) as [st1|e] eqn:E.
    + eapply (IH st1 st' Hcok Hcv Hwo Hwn Hfok); [|
        eapply ustep_inv; [exact Hcok|exact Hcv|exact Hwo|exact Hwn|exact Hfok|exact Hinv| |exact E] |exact H].
      * intros mr Hin. apply Hl. right; exact Hin.
      * apply Hl. left; reflexivity.
    + rewrite fold_ustep_err in H. discriminate.
Qed.

(* ---- post-processing only shrinks ---- *)

Definition shrinks (r' r : mrec) : Prop :=
  mr_ver r' = mr_ver r /\ mr_applied r' = mr_applied r /\ ps_ok (mr_set r') = true /\
  forall p, wf_path p = true -> ps_has p (mr_set r') = true -> ps_has p (mr_set r) = true.

Lemma fold_rdiff_shrinks : forall L r,
  Forall (fun s => ps_ok s = true) L -> ps_ok (mr_set r) = true ->
  shrinks (fold_left rdiff L r) r.
Proof.
  induction L as [|s L IH]; intros r HL Hr.
  - simpl. unfold shrinks. repeat split; auto.
  - inversion HL as [|x y Hs HL']; subst. cbn [fold_left].
    destruct (ps_diff_spec _ _ Hr Hs) as [HokD HD].
    destruct (IH (rdiff r s) HL' HokD) as [Hv [Ha [Hok Hsub]]].
    unfold shrinks. split; [exact Hv|]. split; [exact Ha|]. split; [exact Hok|].
    intros p Hp Hhas. pose proof (Hsub p Hp Hhas) as H1. cbn [rdiff mr_set] in H1.
    rewrite (HD p Hp) in H1. apply andb_true_iff in H1. apply H1.
Qed.

Lemma subs_for_ok : forall m L, sets_ok L -> Forall (fun s => ps_ok s = true) (subs_for m L).
Proof.
  intros m L HL. unfold subs_for. apply Forall_forall. intros s Hin.
  apply in_map_iff in Hin. destruct Hin as [ms [Hs Hin]]. subst s.
  apply filter_In in Hin. destruct Hin as [Hin _].
  unfold sets_ok in HL. rewrite Forall_forall in HL. exact (HL ms Hin).
Qed.

Lemma shrinks_trans : forall a b c, shrinks a b -> shrinks b c -> shrinks a c.
Proof.
  intros a b c [H1 [H2 [H3 H4]]] [G1 [G2 [G3 G4]]]. unfold shrinks.
  split; [congruence|]. split; [congruence|]. split; [exact H3|].
  intros p Hp Hh. apply G4; [exact Hp|]. apply H4; assumption.
Qed.

Lemma upost_shrinks : forall mf st, mf_ok mf -> uinv mf st ->
  mf_ok (upost st) /\
  (forall m r', mf_get m (upost st) = Some r' -> ps_empty (mr_set r') = false) /\
  forall m r', mf_get m (upost st) = Some r' -> exists r, mf_get m mf = Some r /\ shrinks r' r.
Proof.
  intros mf st Hok [[Hs Hsub] [_ [Hc Hr]]].
  set (mf2 := fold_left usub (us_removed st) (fold_left usub (us_conflicts st) (us_managers st))).
  assert (sorted_keys mf2 = true) as Hs2.
  { unfold mf2. apply fold_usub_sorted. apply fold_usub_sorted. exact Hs. }
  assert (forall m r', mf_get m (upost st) = Some r' ->
            ps_empty (mr_set r') = false /\ exists r, mf_get m mf = Some r /\ shrinks r' r) as Hfrom.
  { intros m r' Hg. unfold upost in Hg. fold mf2 in Hg. unfold mf_get in Hg.
    rewrite (assoc_get_filter nonempty_rec mf2 m Hs2) in Hg.
    destruct (assoc_get m mf2) as [r2|] eqn:E2; [|discriminate].
    unfold nonempty_rec in Hg. cbn [snd] in Hg.
    destruct (ps_empty (mr_set r2)) eqn:Ee; [discriminate|]. cbn [negb] in Hg.
    inversion Hg; subst r2; clear Hg. split; [exact Ee|].
    fold (mf_get m mf2) in E2. unfold mf2 in E2. rewrite !fold_usub_get in E2.
    destruct (mf_get m (us_managers st)) as [r|] eqn:Er; [|discriminate].
    cbn [option_map] in E2. inversion E2 as [E3]; clear E2.
    exists r. split; [apply Hsub; exact Er|].
    assert (ps_ok (mr_set r) = true) as Hrok.
    { eapply mf_ok_get; [exact Hok|]. apply Hsub. exact Er. }
    pose proof (fold_rdiff_shrinks _ r (subs_for_ok m _ Hc) Hrok) as S1.
    pose proof S1 as [_ [_ [Hok1 _]]].
    pose proof (fold_rdiff_shrinks _ _ (subs_for_ok m _ Hr) Hok1) as S2.
    eapply shrinks_trans; eassumption. }
  assert (sorted_keys (upost st) = true) as Hs'.
  { unfold upost. apply filter_sorted. exact Hs2. }
  split.
  { split; [exact Hs'|]. apply forallb_forall. intros [m r'] Hin.
    apply (in_assoc_get _ _ _ Hs') in Hin. destruct (Hfrom m r' Hin) as [_ [r [_ [_ [_ [Hok' _]]]]]].
    exact Hok'. }
  split.
  { intros m r' Hg. apply (Hfrom m r' Hg). }
  intros m r' Hg. apply (Hfrom m r' Hg).
Qed.

(* the strong form: every record of the result, the actor's included, is a shrunk record
   of the input; and the returned comparison is the filtered comparison of old and new *)
Lemma update_core_shrinks_all : forall c n old new ver mf w force mf' cmp n',
  mf_ok mf -> compare_ok_wf c -> conv_wf c -> wf_value (snd old) = true -> wf_value (snd new) = true ->
  filters_ok c ->
  update_core c n old new ver mf w force = UOk (mf', cmp, n') ->
  (exists cmp0 f0, compare_tv c old new = Some cmp0 /\ ignore_filter_for c ver = Some f0 /\
                   cmp = filter_cmp f0 cmp0 /\ cmp_ok cmp) /\
  mf_ok mf' /\
  (forall m r', mf_get m mf' = Some r' -> ps_empty (mr_set r') = false) /\
  forall m r', mf_get m mf' = Some r' -> exists r, mf_get m mf = Some r /\ shrinks r' r.
Proof.
  intros c n old new ver mf w force mf' cmp n' Hok Hcok Hcv Hwo Hwn Hfok H.
  rewrite update_core_unfold in H.
  destruct (compare_tv c old new) as [cmp0|] eqn:Hcmp; [|discriminate].
  destruct (ignore_filter_for c ver) as [f0|] eqn:Hf; [|discriminate].
  assert (cmp_ok (filter_cmp f0 cmp0)) as Hc0.
  { eapply filter_cmp_ok; [exact Hfok|exact Hf|]. eapply Hcok; [exact Hwo|exact Hwn|exact Hcmp]. }
  destruct (ufold c n old new ver mf w (filter_cmp f0 cmp0)) as [st|e] eqn:E; [|discriminate].
  unfold ufinish in H.
  match type of H with (if ?b then _ else _) = _ => destruct b end; [discriminate|].
  inversion H; subst mf' cmp n'; clear H.
  split.
  { exists cmp0, f0. repeat split; try reflexivity; apply Hc0. }
  apply (upost_shrinks mf st Hok).
  unfold ufold in E. eapply fold_ustep_inv; [exact Hcok|exact Hcv|exact Hwo|exact Hwn|exact Hfok| | |exact E].
  - intros mr Hin. destruct Hok as [_ Hall]. rewrite forallb_forall in Hall. exact (Hall mr Hin).
  - unfold uinv. cbn [us_managers us_versions us_conflicts us_removed].
    split; [split; [apply Hok|intros m r Hg; exact Hg]|].
    split; [constructor; [exact Hc0|constructor]|]. split; constructor.
Qed.

(* ---- general facts (any configuration) ---- *)

(* records of managers other than the actor only shrink, keep version and flag, and no
   other manager appears *)
Theorem update_core_others_shrink : forall c n old new ver mf w force mf' cmp n',
  mf_ok mf -> compare_ok_wf c -> conv_wf c ->
  wf_value (snd old) = true -> wf_value (snd new) = true ->
  (forall v f, ignore_filter_for c v = Some (Some f) -> exists ex, f = FExclude ex /\ ps_ok ex = true) ->
  update_core c n old new ver mf w force = UOk (mf', cmp, n') ->
  mf_ok mf' /\
  (forall m r', mf_get m mf' = Some r' -> ps_empty (mr_set r') = false) /\
  forall m r', m <> w -> mf_get m mf' = Some r' ->
    exists r, mf_get m mf = Some r /\ mr_ver r' = mr_ver r /\ mr_applied r' = mr_applied r /\
      forall p, wf_path p = true -> ps_has p (mr_set r') = true -> ps_has p (mr_set r) = true.
Proof.
  intros c n old new ver mf w force mf' cmp n' Hok Hcok Hcv Hwo Hwn Hfok H.
  destruct (update_core_shrinks_all c n old new ver mf w force mf' cmp n' Hok Hcok Hcv Hwo Hwn Hfok H)
    as [_ [Hok' [Hne Hall]]].
  split; [exact Hok'|]. split; [exact Hne|].
  intros m r' _ Hg. destruct (Hall m r' Hg) as [r [Hr [Hv [Ha [_ Hsub]]]]].
  exists r. repeat split; assumption.
Qed.

(* ================= reconcile_managed ================= *)

Definition rstep (c : config) (live : tv) (acc : ures (managed * nat)) (mr : string * mrec)
  : ures (managed * nat) :=
  match acc with
  | UErr e => UErr e
  | UOk (res, n) =>
      let r := snd mr in
      let '(cr, n1) := convert c n live (mr_ver r) in
      match cr with
      | CMissing => UOk (res, n1)
      | CFail => UErr EOther
      | COk v =>
          match reconcile_field_set (schema_of c (mr_ver r)) (tr_of c (mr_ver r)) (mr_set r) with
          | None => UErr EOther
          | Some (Some s') => UOk (res ++ [(fst mr, mkRec s' (mr_ver r) (mr_applied r))], n1)
          | Some None => UOk (res ++ [mr], n1)
          end
      end
  end.

Lemma reconcile_managed_unfold : forall c n live managers,
  reconcile_managed c n live managers = fold_left (rstep c live) managers (UOk ([], n)).
Proof. reflexivity. Qed.

(* what a kept record looks like *)
Definition rkeep (c : config) (live : tv) (mr : string * mrec) (r0 : mrec) : Prop :=
  mr_ver r0 = mr_ver (snd mr) /\ mr_applied r0 = mr_applied (snd mr) /\
  (exists n, cfg_convert c n (fst live) (mr_ver (snd mr)) (snd live) <> CMissing) /\
  (r0 = snd mr \/
   reconcile_field_set (schema_of c (mr_ver (snd mr))) (tr_of c (mr_ver (snd mr))) (mr_set (snd mr))
   = Some (Some (mr_set r0))).

Lemma rstep_ok : forall c live res n mr res' n',
  rstep c live (UOk (res, n)) mr = UOk (res', n') ->
  res' = res \/ exists r0, res' = res ++ [(fst mr, r0)] /\ rkeep c live mr r0.
Proof.
  intros c live res n [m r] res' n' H. unfold rstep, convert in H. cbn [fst snd] in H.
  destruct (cfg_convert c n (fst live) (mr_ver r) (snd live)) as [v| |] eqn:Hcv;
    [|inversion H; left; reflexivity|discriminate].
  destruct (reconcile_field_set (schema_of c (mr_ver r)) (tr_of c (mr_ver r)) (mr_set r))
    as [[s'|]|] eqn:Hrec; [| |discriminate].
  - inversion H; subst res' n'. right. exists (mkRec s' (mr_ver r) (mr_applied r)).
    split; [reflexivity|]. unfold rkeep. cbn [fst snd mr_ver mr_applied mr_set].
    split; [reflexivity|]. split; [reflexivity|]. split.
    + exists n. rewrite Hcv. discriminate.
    + right. exact Hrec.
  - inversion H; subst res' n'. right. exists r.
    split; [reflexivity|]. unfold rkeep. cbn [fst snd].
    split; [reflexivity|]. split; [reflexivity|]. split.
    + exists n. rewrite Hcv. discriminate.
    + left. reflexivity.
Qed.

Lemma fold_rstep_err : forall c live l e, fold_left (rstep c live) l (UErr e) = UErr e.
Proof. intros c live l e. induction l as [|a l IH]; [reflexivity|exact IH]. Qed.

(* add is obtained from l by skipping entries and replacing records by kept versions *)
Inductive rrel (c : config) (live : tv) : managed -> managed -> Prop :=
| rr_nil : rrel c live [] []
| rr_skip : forall mr l add, rrel c live l add -> rrel c live (mr :: l) add
| rr_keep : forall mr r0 l add, rkeep c live mr r0 -> rrel c live l add ->
    rrel c live (mr :: l) ((fst mr, r0) :: add).

Lemma fold_rstep_rrel : forall c live l res n res' n',
  fold_left (rstep c live) l (UOk (res, n)) = UOk (res', n') ->
  exists add, res' = res ++ add /\ rrel c live l add.
Proof.
  intros c live l. induction l as [|mr l IH]; intros res n res' n' H.
  - inversion H; subst. exists []. split; [rewrite app_nil_r; reflexivity|constructor].
  - cbn [fold_left] in H. destruct (rstep c live (UOk (res, n)) mr) as [[res1 n1]|e] eqn:E.
    + destruct (IH res1 n1 res' n' H) as [add [Heq Hrel]].
      destruct (rstep_ok c live res n mr res1 n1 E) as [H1|[r0 [H1 Hk]]].
      * subst res1. exists add. split; [exact Heq|]. apply rr_skip. exact Hrel.
      * subst res1. exists ((fst mr, r0) :: add). split.
        { rewrite Heq. rewrite <- app_assoc. reflexivity. }
        apply rr_keep; assumption.
    + rewrite fold_rstep_err in H. discriminate.
Qed.

Lemma rrel_in : forall c live l add, rrel c live l add ->
  forall k r0, In (k, r0) add -> exists r, In (k, r) l /\ rkeep c live (k, r) r0.
Proof.
  intros c live l add Hrel. induction Hrel as [|mr l add Hrel IH|mr r0' l add Hk Hrel IH];
    intros k r0 Hin.
  - destruct Hin.
  - destruct (IH k r0 Hin) as [r [Hr Hkp]]. exists r. split; [right; exact Hr|exact Hkp].
  - destruct Hin as [Heq|Hin].
    + inversion Heq; subst. destruct mr as [k r]. exists r. split; [left; reflexivity|exact Hk].
    + destruct (IH k r0 Hin) as [r [Hr Hkp]]. exists r. split; [right; exact Hr|exact Hkp].
Qed.

Lemma rrel_sorted : forall c live l add, rrel c live l add ->
  sorted_keys l = true -> sorted_keys add = true.
Proof.
  intros c live l add Hrel. induction Hrel as [|mr l add Hrel IH|mr r0' l add Hk Hrel IH];
    intros Hs.
  - reflexivity.
  - destruct mr as [k r]. apply sorted_keys_cons_iff in Hs. apply IH. apply Hs.
  - destruct mr as [k r]. apply sorted_keys_cons_iff in Hs. destruct Hs as [Hg Hs].
    cbn [fst]. apply sorted_keys_cons_iff. split; [|apply IH; exact Hs].
    intros k2 v2 Hin. destruct (rrel_in c live l add Hrel k2 v2 Hin) as [r2 [Hr2 _]].
    eapply Hg; exact Hr2.
Qed.

(* the complete description of a successful reconcile *)
Lemma reconcile_managed_rel : forall c n live mf mf0 n0,
  sorted_keys mf = true ->
  reconcile_managed c n live mf = UOk (mf0, n0) ->
  sorted_keys mf0 = true /\
  forall m r0, mf_get m mf0 = Some r0 -> exists r, mf_get m mf = Some r /\ rkeep c live (m, r) r0.
Proof.
  intros c n live mf mf0 n0 Hs H. rewrite reconcile_managed_unfold in H.
  destruct (fold_rstep_rrel c live mf [] n mf0 n0 H) as [add [Heq Hrel]].
  simpl in Heq. subst add.
  split; [eapply rrel_sorted; eassumption|].
  intros m r0 Hg. apply assoc_get_in in Hg.
  destruct (rrel_in c live mf mf0 Hrel m r0 Hg) as [r [Hr Hk]].
  exists r. split; [|exact Hk]. apply in_assoc_get; assumption.
Qed.

(* reconcile keeps the managers whose version still converts, with the same version and
   flag, and drops exactly those whose version the converter reports as gone *)
Theorem reconcile_managed_spec : forall c n live mf mf0 n0,
  mf_ok mf ->
  reconcile_managed c n live mf = UOk (mf0, n0) ->
  sorted_keys mf0 = true /\
  forall m, match mf_get m mf0 with
            | Some r0 => exists r, mf_get m mf = Some r /\ mr_ver r0 = mr_ver r /\ mr_applied r0 = mr_applied r
            | None => True
            end.
Proof.
  intros c n live mf mf0 n0 [Hs _] H.
  destruct (reconcile_managed_rel c n live mf mf0 n0 Hs H) as [Hs0 Hall].
  split; [exact Hs0|]. intros m. destruct (mf_get m mf0) as [r0|] eqn:E; [|exact I].
  destruct (Hall m r0 E) as [r [Hr [Hv [Ha _]]]]. exists r. cbn [snd] in Hv, Ha.
  split; [exact Hr|]. split; assumption.
Qed.

(* C20: a manager recorded at a version the converter reports as gone is dropped *)
Theorem reconcile_drops_gone_versions : forall c n live mf mf0 n0 gone,
  mf_ok mf ->
  (forall k from x, cfg_convert c k from gone x = CMissing) ->
  reconcile_managed c n live mf = UOk (mf0, n0) ->
  forall m r, mf_get m mf0 = Some r -> mr_ver r <> gone.
Proof.
  intros c n live mf mf0 n0 gone [Hs _] Hgone H m r0 Hg Heq.
  destruct (reconcile_managed_rel c n live mf mf0 n0 Hs H) as [_ Hall].
  destruct (Hall m r0 Hg) as [r [_ [Hv [_ [[k Hk] _]]]]]. cbn [snd] in Hv, Hk.
  apply Hk. rewrite <- Hv, Heq. apply Hgone.
Qed.

(* ================= reconcile_field_set keeps sets well formed ================= *)

Lemma fold_left_inv : forall (A B : Type) (P : A -> Prop) (f : A -> B -> A) (l : list B) (a : A),
  P a -> (forall a b, In b l -> P a -> P (f a b)) -> P (fold_left f l a).
Proof.
  intros A B P f l. induction l as [|b l IH]; intros a Ha Hf; [exact Ha|].
  cbn [fold_left]. apply IH.
  - apply Hf; [left; reflexivity|exact Ha].
  - intros a' b' Hin. apply Hf. right; exact Hin.
Qed.

Lemma wf_path_snoc : forall p e, wf_path p = true -> wf_pe e = true -> wf_path (p ++ [e]) = true.
Proof.
  intros p e Hp He. unfold wf_path in *. rewrite forallb_app, Hp. simpl. rewrite He. reflexivity.
Qed.

Lemma ps_wfv_parts : forall f, ps_wfv f = true ->
  (forall e, In e (ps_members f) -> wf_pe e = true) /\
  (forall ec, In ec (ps_children f) -> wf_pe (fst ec) = true /\ ps_wfv (snd ec) = true).
Proof.
  intros [m c] H. cbn [ps_wfv] in H. apply andb_true_iff in H. destruct H as [Hm Hc].
  cbn [ps_members ps_children]. split.
  - intros e Hin. unfold wf_pes in Hm. rewrite forallb_forall in Hm. exact (Hm e Hin).
  - intros ec Hin. rewrite forallb_forall in Hc. apply andb_true_iff. exact (Hc ec Hin).
Qed.

Lemma snm_get_wfv : forall f e, ps_wfv f = true ->
  match snm_get e (ps_children f) with Some sub => ps_wfv sub = true | None => True end.
Proof.
  intros f e Hf. destruct (snm_get e (ps_children f)) as [sub|] eqn:E; [|exact I].
  unfold snm_get in E. apply PesLaws.pem_get_In in E. destruct E as [e' [Hin _]].
  destruct (ps_wfv_parts f Hf) as [_ Hc]. apply (Hc (e', sub) Hin).
Qed.

Lemma reconcile_w_wf : forall fuel s tr p fs isAtomic,
  wf_path p = true ->
  match fs with Some f => ps_wfv f = true | None => True end ->
  forallb wf_path (snd (reconcile_w fuel s tr p fs isAtomic)) = true.
Proof.
  induction fuel as [|fuel IH]; intros s tr p fs isAtomic Hp Hfs; [reflexivity|].
  cbn [reconcile_w].
  destruct (resolve s tr) as [a|]; [|reflexivity].
  pose (P := fun acc : bool * list path => forallb wf_path (snd acc) = true).
  assert (forall f, ps_wfv f = true -> forall ctr e b acc, wf_pe e = true -> P acc ->
            P (let '(e1, r1) := reconcile_w fuel s ctr (p ++ [e]) (snm_get e (ps_children f)) b in
               (fst acc || e1, snd acc ++ r1))) as Hh.
  { intros f Hf ctr e b acc He Hacc.
    pose proof (IH s ctr (p ++ [e]) (snm_get e (ps_children f)) b
                  (wf_path_snoc p e Hp He) (snm_get_wfv f e Hf)) as H1.
    destruct (reconcile_w fuel s ctr (p ++ [e]) (snm_get e (ps_children f)) b) as [e1 r1].
    unfold P in *. cbn [snd] in *. rewrite forallb_app, Hacc, H1. reflexivity. }
  assert (P (false, [])) as P0 by reflexivity.
  assert (forallb wf_path [p] = true) as Hp1.
  { simpl. rewrite Hp. reflexivity. }
  destruct (handle_atom a) as [t|k|t|]; try reflexivity.
  - destruct (is_untyped_deduced_map t); [reflexivity|].
    destruct (negb isAtomic && rel_is_atomic (map_rel t)).
    + destruct fs as [f|]; [|reflexivity]. destruct (0 <? ps_size f); [exact Hp1|reflexivity].
    + destruct fs as [f|]; [|reflexivity].
      destruct (ps_wfv_parts f Hfs) as [Hm Hc].
      apply (fold_left_inv _ _ P).
      * apply (fold_left_inv _ _ P); [exact P0|].
        intros acc ec Hin Hacc. destruct (pes_has (fst ec) (ps_members f)); [exact Hacc|].
        destruct (type_ref_at_path t (fst ec)) as [ctr|]; [|exact Hacc].
        apply (Hh f Hfs); [apply (Hc ec Hin)|exact Hacc].
      * intros acc e Hin Hacc. destruct (type_ref_at_path t e) as [ctr|]; [|exact Hacc].
        apply (Hh f Hfs); [apply (Hm e Hin)|exact Hacc].
  - destruct (negb isAtomic && rel_is_atomic (list_rel t)); [exact Hp1|].
    destruct fs as [f|]; [|reflexivity].
    destruct (ps_wfv_parts f Hfs) as [Hm Hc].
    apply (fold_left_inv _ _ P).
    + apply (fold_left_inv _ _ P); [exact P0|].
      intros acc ec Hin Hacc. destruct (pes_has (fst ec) (ps_members f)); [exact Hacc|].
      apply (Hh f Hfs); [apply (Hc ec Hin)|exact Hacc].
    + intros acc e Hin Hacc. apply (Hh f Hfs); [apply (Hm e Hin)|exact Hacc].
Qed.

Lemma ps_ok_wfv : forall s, ps_ok s = true -> ps_wfv s = true.
Proof. intros s H. unfold ps_ok in H. apply andb_true_iff in H. apply H. Qed.

(* a path with a prefix in b witnesses that b is not empty *)
Lemma has_prefix_in_nonempty : forall p b, has_prefix_in p b = true -> ps_empty b = false.
Proof.
  intros p b H. unfold has_prefix_in in H. apply existsb_exists in H.
  destruct H as [n [_ Hh]]. eapply TrieBase.ps_has_nonempty. exact Hh.
Qed.

Lemma reconcile_field_set_ok : forall s tr fs s',
  ps_ok fs = true -> reconcile_field_set s tr fs = Some (Some s') ->
  ps_ok s' = true /\ (ps_empty fs = false -> ps_empty s' = false).
Proof.
  intros s tr fs s' Hok H. unfold reconcile_field_set in H.
  pose proof (reconcile_w_wf (S (ps_depth fs)) s tr [] (Some fs) false eq_refl (ps_ok_wfv fs Hok)) as Hwf.
  destruct (reconcile_w (S (ps_depth fs)) s tr [] (Some fs) false) as [e ps].
  cbn [snd] in Hwf. destruct e; [discriminate|].
  destruct ps as [|q ps]; [discriminate|].
  inversion H; subst s'; clear H.
  set (t := ps_of_paths (q :: ps)) in *.
  assert (ps_ok t = true) as Ht by (apply ps_of_paths_ok; exact Hwf).
  destruct (ps_rdiff_spec fs t Hok Ht) as [HokR HR].
  destruct (ps_union_spec _ _ HokR Ht) as [HokU HU].
  split; [exact HokU|].
  intros Hne. destruct (ps_nonempty_has fs Hok Hne) as [p [Hp [_ Hhas]]].
  destruct (has_prefix_in p t) eqn:Hpre.
  - apply has_prefix_in_nonempty in Hpre.
    destruct (ps_nonempty_has t Ht Hpre) as [p2 [Hp2 [_ Hhas2]]].
    apply (TrieBase.ps_has_nonempty _ p2). rewrite (HU p2 Hp2), Hhas2. apply orb_true_r.
  - apply (TrieBase.ps_has_nonempty _ p). rewrite (HU p Hp), (HR p Hp), Hhas, Hpre. reflexivity.
Qed.

(* ================= well-formedness of the objects along Apply ================= *)

Lemma convert_wf : forall c n o ver v n', conv_wf c -> wf_value (snd o) = true ->
  convert c n o ver = (COk v, n') -> wf_value v = true.
Proof.
  intros c n o ver v n' Hcv Ho H. unfold convert in H. inversion H as [[H1 H2]].
  eapply Hcv; [exact Ho|exact H1].
Qed.

Lemma remove_tv_wf : forall c o items, wf_value (snd o) = true -> wf_value (snd (remove_tv c o items)) = true.
Proof. intros c o items Ho. unfold remove_tv. cbn [snd]. apply RemoveWf.remove_wf. exact Ho. Qed.

Lemma add_back_dangling_wf : forall c n merged pruned last p' n',
  conv_wf c -> wf_value (snd merged) = true ->
  add_back_dangling c n merged pruned last = UOk (p', n') -> wf_value (snd p') = true.
Proof.
  intros c n merged pruned last p' n' Hcv Hm H. unfold add_back_dangling in H.
  destruct (convert c n pruned (mr_ver last)) as [r1 n1].
  destruct r1 as [pv| |]; [|inversion H; subst; exact Hm|discriminate].
  destruct (to_fs c (mr_ver last, pv)) as [prunedSet|]; [|discriminate].
  destruct (to_fs c merged) as [mergedSet|]; [|discriminate].
  inversion H; subst p' n'. apply remove_tv_wf. exact Hm.
Qed.

Lemma prune_wf : forall c n merged mf applying last pruned n',
  conv_wf c -> wf_value (snd merged) = true ->
  prune c n merged mf applying last = UOk (pruned, n') -> wf_value (snd pruned) = true.
Proof.
  intros c n merged mf applying last pruned n' Hcv Hm H. unfold prune in H.
  destruct last as [last|]; [|inversion H; subst; exact Hm].
  destruct (ps_empty (mr_set last)); [inversion H; subst; exact Hm|].
  destruct (convert c n merged (mr_ver last)) as [r1 n1] eqn:E1.
  destruct r1 as [mv| |]; [|inversion H; subst; exact Hm|discriminate].
  pose proof (convert_wf c n merged (mr_ver last) mv n1 Hcv Hm E1) as Hmv.
  destruct (add_back_owned c n1 (mr_ver last, mv)
              (remove_tv c (mr_ver last, mv) (en c (mr_ver last) (mr_set last))) (mr_ver last) mf)
    as [[pruned1 n2]|e] eqn:E2; [|discriminate].
  destruct (add_back_dangling c n2 (mr_ver last, mv) pruned1 last) as [[pruned2 n3]|e] eqn:E3;
    [|discriminate].
  pose proof (add_back_dangling_wf c n2 (mr_ver last, mv) pruned1 last pruned2 n3 Hcv Hmv E3) as Hp2.
  match type of H with context [convert c n3 pruned2 ?target] =>
    destruct (convert c n3 pruned2 target) as [r4 n4] eqn:E4
  end.
  destruct r4 as [v| |]; [|discriminate|discriminate].
  inversion H; subst pruned n'. cbn [snd].
  eapply convert_wf; [exact Hcv|exact Hp2|exact E4].
Qed.

(* ================= C05: the actor's record ================= *)

Lemma compare_ok_wf_at : forall c a b, compare_ok_wf c ->
  wf_value (snd a) = true -> wf_value (snd b) = true ->
  forall cmp0, compare_tv c a b = Some cmp0 -> cmp_ok cmp0.
Proof. intros c a b H Ha Hb cmp0 Hc. exact (H a b cmp0 Ha Hb Hc). Qed.

Lemma mf_set_ok : forall m r mf, mf_ok mf -> ps_ok (mr_set r) = true -> mf_ok (mf_set m r mf).
Proof.
  intros m r mf [Hs Hall] Hr. split.
  - unfold mf_set. apply assoc_set_sorted. exact Hs.
  - apply forallb_forall. intros x Hin. unfold mf_set in Hin. apply in_assoc_set in Hin.
    destruct Hin as [Heq|Hin]; [subst x; exact Hr|].
    rewrite forallb_forall in Hall. exact (Hall x Hin).
Qed.

Lemma mf_set_single : forall ver m r mf, single_version ver mf -> mr_ver r = ver ->
  single_version ver (mf_set m r mf).
Proof.
  intros ver m r mf Hall Hr. unfold single_version in *. apply forallb_forall. intros x Hin.
  unfold mf_set in Hin. apply in_assoc_set in Hin.
  destruct Hin as [Heq|Hin]; [subst x; cbn [snd]; rewrite Hr; apply String.eqb_refl|].
  rewrite forallb_forall in Hall. exact (Hall x Hin).
Qed.

Lemma mf_get_set_same : forall m r mf, mf_get m (mf_set m r mf) = Some r.
Proof. intros m r mf. unfold mf_get, mf_set. rewrite assoc_get_set, String.eqb_refl. reflexivity. Qed.

Lemma mf_get_set_other : forall m' m r mf, m' <> m -> mf_get m' (mf_set m r mf) = mf_get m' mf.
Proof.
  intros m' m r mf Hne. unfold mf_get, mf_set. rewrite assoc_get_set.
  apply String.eqb_neq in Hne. rewrite Hne. reflexivity.
Qed.

Lemma mf_del_ok : forall m mf, mf_ok mf -> mf_ok (mf_del m mf).
Proof.
  intros m mf [Hs Hall]. split.
  - unfold mf_del. apply assoc_remove_sorted. exact Hs.
  - apply forallb_forall. intros x Hin. unfold mf_del in Hin. apply in_assoc_remove in Hin.
    rewrite forallb_forall in Hall. exact (Hall x Hin).
Qed.

Lemma mf_get_del : forall m' m mf, sorted_keys mf = true ->
  mf_get m' (mf_del m mf) = if String.eqb m' m then None else mf_get m' mf.
Proof. intros m' m mf Hs. unfold mf_get, mf_del. apply assoc_get_remove. exact Hs. Qed.

(* the common prefix of Apply: reconcile, merge, field set, filter, prune, update_core *)
Lemma apply_op_inv : forall c live cfg ver mf mf0 n0 mgr force o mf',
  conv_wf c -> wf_value (snd live) = true -> wf_value (snd cfg) = true ->
  reconcile_managed c O live mf = UOk (mf0, n0) ->
  apply_op c live cfg ver mf mgr force = UOk (o, mf') ->
  exists set0 f pruned n1 cmp n2,
    to_fs c cfg = Some set0 /\ ignore_filter_for c ver = Some f /\
    wf_value (snd pruned) = true /\
    update_core c n1 live pruned ver (mf_set mgr (mkRec (filter_set f set0) ver true) mf0) mgr force
      = UOk (mf', cmp, n2).
Proof.
  intros c live cfg ver mf mf0 n0 mgr force o mf' Hcv Hwl Hwc Hrec H.
  unfold apply_op in H. rewrite Hrec in H.
  destruct (merge (schema_of c (fst live)) (tr_of c (fst live)) (snd live) (snd cfg))
    as [[nv|]|] eqn:Hmerge; [| discriminate | discriminate].
  pose proof (MergeWf.merge_wf _ _ _ _ _ Hwl Hwc Hmerge) as Hnv.
  destruct (to_fs c cfg) as [set0|] eqn:Hfs; [|discriminate].
  destruct (ignore_filter_for c ver) as [f|] eqn:Hf; [|discriminate].
  destruct (prune c n0 (fst live, nv) (mf_set mgr (mkRec set0 ver true) mf0) mgr
              (mf_get mgr mf0)) as [[pruned n1]|e] eqn:Hpr; [|discriminate].
  pose proof (prune_wf c n0 (fst live, nv) _ _ _ _ _ Hcv Hnv Hpr) as Hwp.
  destruct (update_core c n1 live pruned ver (mf_set mgr (mkRec (filter_set f set0) ver true) mf0) mgr force)
    as [[[mf2 cmp] n2]|e] eqn:Hupd; [|discriminate].
  assert (mf' = mf2) as Hmf'.
  { destruct (negb (cfg_return_input_on_noop c) && veqb (snd live) (snd pruned));
      inversion H; reflexivity. }
  subst mf'. exists set0, f, pruned, n1, cmp, n2.
  split; [reflexivity|]. split; [reflexivity|]. split; [exact Hwp|exact Hupd].
Qed.

Theorem apply_op_actor_record : forall c live cfg ver mf mf0 n0 mgr force o mf',
  no_ignore c -> compare_ok_wf c -> fs_ok_wf c -> conv_wf c ->
  wf_value (snd live) = true -> wf_value (snd cfg) = true ->
  reconcile_managed c O live mf = UOk (mf0, n0) -> mf_ok mf0 -> single_version ver mf0 ->
  apply_op c live cfg ver mf mgr force = UOk (o, mf') ->
  exists fs, to_fs c cfg = Some fs /\
    mf_get mgr mf' = (if ps_empty fs then None else Some (mkRec fs ver true)).
Proof.
  intros c live cfg ver mf mf0 n0 mgr force o mf' Hni Hcok Hfsok Hcv Hwl Hwc Hrec Hok0 Hsv H.
  destruct (apply_op_inv c live cfg ver mf mf0 n0 mgr force o mf' Hcv Hwl Hwc Hrec H)
    as [set0 [f [pruned [n1 [cmp [n2 [Hfs [Hf [Hwp Hupd]]]]]]]]].
  rewrite (no_ignore_filter c ver Hni) in Hf. inversion Hf; subst f. cbn [filter_set] in Hupd.
  exists set0. split; [exact Hfs|].
  pose proof (Hfsok cfg set0 Hwc Hfs) as Hset0.
  assert (mf_ok (mf_set mgr (mkRec set0 ver true) mf0)) as Hok1 by (apply mf_set_ok; assumption).
  assert (single_version ver (mf_set mgr (mkRec set0 ver true) mf0)) as Hsv1
    by (apply mf_set_single; [assumption|reflexivity]).
  destruct (update_core_records c n1 live pruned ver _ mgr force mf' cmp n2 Hni Hsv1 Hok1
              (compare_ok_wf_at c live pruned Hcok Hwl Hwp) Hupd) as [_ [_ [_ [_ [_ [Hw _]]]]]].
  rewrite Hw. rewrite mf_get_set_same. reflexivity.
Qed.

Lemma ps_has_empty_set : forall p, ps_has p ps_empty_set = false.
Proof. intros p. apply TrieBase.ps_empty_has. reflexivity. Qed.

(* membership in the set recorded for the updater *)
Lemma update_set_spec : forall cur cmp, ps_ok cur = true -> cmp_ok cmp ->
  ps_ok (ps_union (ps_union (ps_diff cur (removed cmp)) (modified cmp)) (added cmp)) = true /\
  forall p, wf_path p = true ->
    ps_has p (ps_union (ps_union (ps_diff cur (removed cmp)) (modified cmp)) (added cmp)) =
    (ps_has p cur && negb (ps_has p (removed cmp))) || ps_has p (modified cmp) || ps_has p (added cmp).
Proof.
  intros cur cmp Hcur [HR [HM HA]].
  destruct (ps_diff_spec _ _ Hcur HR) as [HokD HD].
  destruct (ps_union_spec _ _ HokD HM) as [HokU HU].
  destruct (ps_union_spec _ _ HokU HA) as [HokU2 HU2].
  split; [exact HokU2|]. intros p Hp. rewrite (HU2 p Hp), (HU p Hp), (HD p Hp). reflexivity.
Qed.

Theorem update_op_actor_record : forall c live new ver mf mf0 n0 mgr o mf',
  no_ignore c -> compare_ok_wf c ->
  wf_value (snd live) = true -> wf_value (snd new) = true ->
  reconcile_managed c O live mf = UOk (mf0, n0) -> mf_ok mf0 -> single_version ver mf0 ->
  update_op c live new ver mf mgr = UOk (o, mf') ->
  o = new /\
  exists cmp, compare_tv c live new = Some cmp /\
    let before p := match mf_get mgr mf0 with Some r => ps_has p (mr_set r) | None => false end in
    let after p := (before p && negb (ps_has p (removed cmp))) || ps_has p (modified cmp) || ps_has p (added cmp) in
    match mf_get mgr mf' with
    | Some r' => mr_ver r' = ver /\ mr_applied r' = false /\ ps_ok (mr_set r') = true /\
                 forall p, wf_path p = true -> p <> [] -> ps_has p (mr_set r') = after p
    | None => forall p, wf_path p = true -> p <> [] -> after p = false
    end.
Proof.
  intros c live new ver mf mf0 n0 mgr o mf' Hni Hcok Hwl Hwn Hrec Hok0 Hsv H.
  unfold update_op in H. rewrite Hrec in H.
  destruct (update_core c n0 live new ver mf0 mgr true) as [[[mf1 cmp] n1]|e] eqn:Hupd; [|discriminate].
  rewrite (no_ignore_filter c ver Hni) in H. cbn [filter_set] in H.
  destruct (update_core_records c n0 live new ver mf0 mgr true mf1 cmp n1 Hni Hsv Hok0
              (compare_ok_wf_at c live new Hcok Hwl Hwn) Hupd) as [Hcmp [_ [Hok1 [_ [_ [Hw _]]]]]].
  pose proof (Hcok live new cmp Hwl Hwn Hcmp) as Hc.
  set (cur := match mf_get mgr mf1 with Some r => mr_set r | None => ps_empty_set end) in *.
  set (before := fun p => match mf_get mgr mf0 with Some r => ps_has p (mr_set r) | None => false end).
  assert (ps_ok cur = true /\ forall p, wf_path p = true -> ps_has p cur = before p) as [Hcur Hbefore].
  { unfold cur, before. rewrite Hw. destruct (mf_get mgr mf0) as [r|] eqn:Er.
    - pose proof (mf_ok_get mf0 mgr r Hok0 Er) as Hrok.
      destruct (ps_empty (mr_set r)) eqn:Ee.
      + split; [apply ps_ok_empty|]. intros p Hp. rewrite ps_has_empty_set.
        symmetry. apply ps_empty_has; assumption.
      + split; [exact Hrok|]. intros p Hp. reflexivity.
    - split; [apply ps_ok_empty|]. intros p Hp. apply ps_has_empty_set. }
  destruct (update_set_spec cur cmp Hcur Hc) as [Hok2 Hhas2].
  set (set0 := ps_union (ps_union (ps_diff cur (removed cmp)) (modified cmp)) (added cmp)) in *.
  split.
  { destruct (ps_empty set0); inversion H; reflexivity. }
  exists cmp. split; [exact Hcmp|]. fold before. cbv zeta.
  destruct (ps_empty set0) eqn:Ee; inversion H; subst o mf'; clear H.
  - rewrite (mf_get_del mgr mgr mf1 (proj1 Hok1)), String.eqb_refl.
    intros p Hp _. rewrite <- (Hbefore p Hp), <- (Hhas2 p Hp). apply ps_empty_has; assumption.
  - rewrite mf_get_set_same. cbn [mr_ver mr_applied mr_set].
    split; [reflexivity|]. split; [reflexivity|]. split; [exact Hok2|].
    intros p Hp _. rewrite (Hhas2 p Hp), (Hbefore p Hp). reflexivity.
Qed.

(* ================= C06 (part): representation invariant of the ownership map ================= *)

Definition records_inv (mf : managed) : Prop :=
  mf_ok mf /\ forall m r, mf_get m mf = Some r -> ps_empty (mr_set r) = false.

Lemma reconcile_records_inv : forall c n live mf mf0 n0,
  records_inv mf -> reconcile_managed c n live mf = UOk (mf0, n0) -> records_inv mf0.
Proof.
  intros c n live mf mf0 n0 [Hok Hne] H.
  destruct (reconcile_managed_rel c n live mf mf0 n0 (proj1 Hok) H) as [Hs0 Hall].
  assert (forall m r0, mf_get m mf0 = Some r0 ->
            ps_ok (mr_set r0) = true /\ ps_empty (mr_set r0) = false) as Hboth.
  { intros m r0 Hg. destruct (Hall m r0 Hg) as [r [Hr [_ [_ [_ Hset]]]]]. cbn [snd] in Hset.
    pose proof (mf_ok_get mf m r Hok Hr) as Hrok. pose proof (Hne m r Hr) as Hrne.
    destruct Hset as [Heq|Hrf].
    - subst r0. split; assumption.
    - destruct (reconcile_field_set_ok _ _ _ _ Hrok Hrf) as [H1 H2]. split; [exact H1|apply H2; exact Hrne]. }
  split.
  - split; [exact Hs0|]. apply forallb_forall. intros [m r0] Hin.
    apply (in_assoc_get _ _ _ Hs0) in Hin. apply (Hboth m r0 Hin).
  - intros m r0 Hg. apply (Hboth m r0 Hg).
Qed.

Lemma no_ignore_filters_ok : forall c, no_ignore c -> filters_ok c.
Proof.
  intros c Hni v f H. rewrite (no_ignore_filter c v Hni) in H. discriminate.
Qed.

Theorem apply_op_records_inv : forall c live cfg ver mf mgr force o mf',
  no_ignore c -> compare_ok_wf c -> fs_ok_wf c -> conv_wf c ->
  wf_value (snd live) = true -> wf_value (snd cfg) = true -> records_inv mf ->
  apply_op c live cfg ver mf mgr force = UOk (o, mf') -> records_inv mf'.
Proof.
  intros c live cfg ver mf mgr force o mf' Hni Hcok Hfsok Hcv Hwl Hwc Hinv H.
  destruct (reconcile_managed c 0 live mf) as [[mf0 n0]|e] eqn:Hrec.
  2:{ unfold apply_op in H. rewrite Hrec in H. discriminate. }
  destruct (reconcile_records_inv c 0 live mf mf0 n0 Hinv Hrec) as [Hok0 _].
  destruct (apply_op_inv c live cfg ver mf mf0 n0 mgr force o mf' Hcv Hwl Hwc Hrec H)
    as [set0 [f [pruned [n1 [cmp [n2 [Hfs [Hf [Hwp Hupd]]]]]]]]].
  rewrite (no_ignore_filter c ver Hni) in Hf. inversion Hf; subst f. cbn [filter_set] in Hupd.
  assert (mf_ok (mf_set mgr (mkRec set0 ver true) mf0)) as Hok1.
  { apply mf_set_ok; [exact Hok0|]. exact (Hfsok cfg set0 Hwc Hfs). }
  destruct (update_core_shrinks_all c n1 live pruned ver _ mgr force mf' cmp n2 Hok1 Hcok Hcv Hwl Hwp
              (no_ignore_filters_ok c Hni) Hupd) as [_ [Hok2 [Hne2 _]]].
  split; assumption.
Qed.

Lemma cur_ok : forall mgr mf, mf_ok mf ->
  ps_ok (match mf_get mgr mf with Some r => mr_set r | None => ps_empty_set end) = true.
Proof.
  intros mgr mf Hok. destruct (mf_get mgr mf) as [r|] eqn:E.
  - eapply mf_ok_get; eassumption.
  - apply ps_ok_empty.
Qed.

Lemma records_inv_del : forall m mf, records_inv mf -> records_inv (mf_del m mf).
Proof.
  intros m mf [Hok Hne]. split; [apply mf_del_ok; exact Hok|].
  intros m' r Hg. rewrite (mf_get_del m' m mf (proj1 Hok)) in Hg.
  destruct (String.eqb m' m); [discriminate|]. eapply Hne; exact Hg.
Qed.

Lemma records_inv_set : forall m r mf, records_inv mf -> ps_ok (mr_set r) = true ->
  ps_empty (mr_set r) = false -> records_inv (mf_set m r mf).
Proof.
  intros m r mf [Hok Hne] Hr He. split; [apply mf_set_ok; assumption|].
  intros m' r' Hg. unfold mf_get, mf_set in Hg. rewrite assoc_get_set in Hg.
  destruct (String.eqb m' m).
  - inversion Hg; subst r'. exact He.
  - eapply Hne; exact Hg.
Qed.

Theorem update_op_records_inv : forall c live new ver mf mgr o mf',
  no_ignore c -> compare_ok_wf c -> conv_wf c ->
  wf_value (snd live) = true -> wf_value (snd new) = true -> records_inv mf ->
  update_op c live new ver mf mgr = UOk (o, mf') -> records_inv mf'.
Proof.
  intros c live new ver mf mgr o mf' Hni Hcok Hcv Hwl Hwn Hinv H.
  unfold update_op in H.
  destruct (reconcile_managed c 0 live mf) as [[mf0 n0]|e] eqn:Hrec; [|discriminate].
  destruct (reconcile_records_inv c 0 live mf mf0 n0 Hinv Hrec) as [Hok0 _].
  destruct (update_core c n0 live new ver mf0 mgr true) as [[[mf1 cmp] n1]|e] eqn:Hupd; [|discriminate].
  destruct (update_core_shrinks_all c n0 live new ver mf0 mgr true mf1 cmp n1 Hok0 Hcok Hcv Hwl Hwn
              (no_ignore_filters_ok c Hni) Hupd) as [[cmp0 [f0 [_ [_ [_ Hc]]]]] [Hok1 [Hne1 _]]].
  rewrite (no_ignore_filter c ver Hni) in H. cbn [filter_set] in H.
  destruct (update_set_spec _ cmp (cur_ok mgr mf1 Hok1) Hc) as [Hok2 _].
  assert (records_inv mf1) as Hinv1 by (split; assumption).
  match type of H with (UOk (_, if ps_empty ?s then _ else _)) = _ => destruct (ps_empty s) eqn:Ee end;
    inversion H; subst o mf'; clear H.
  - apply records_inv_del. exact Hinv1.
  - apply records_inv_set; [exact Hinv1|exact Hok2|exact Ee].
Qed.

(* ================= C19: with exclusion sets in force no record holds an ignored path ================= *)

(* p is ignored at version v: at or beneath a member of the exclusion set of v *)
Definition ignored_at (c : config) (v : string) (p : path) : bool :=
  match cfg_ignored_fields c with
  | Some sets => match assoc_get v sets with Some ex => has_prefix_in p ex | None => false end
  | None => false
  end.

Definition never_owned (c : config) (mf : managed) : Prop :=
  forall m r p, mf_get m mf = Some r -> wf_path p = true -> ps_has p (mr_set r) = true ->
    ignored_at c (mr_ver r) p = false.

Definition exclusion_config (c : config) : Prop :=
  cfg_ignore_filter c = None /\
  match cfg_ignored_fields c with
  | Some sets => forallb (fun vs : string * pset => ps_ok (snd vs)) sets = true
  | None => True
  end.

Lemma exclusion_filter : forall c v, exclusion_config c ->
  exists f, ignore_filter_for c v = Some f /\
    forall s, ps_ok s = true ->
      ps_ok (filter_set f s) = true /\
      forall p, wf_path p = true -> ps_has p (filter_set f s) = ps_has p s && negb (ignored_at c v p).
Proof.
  intros c v [H2 H1]. unfold ignore_filter_for, ignored_at. rewrite H2.
  destruct (cfg_ignored_fields c) as [sets|].
  - destruct (assoc_get v sets) as [ex|] eqn:E.
    + exists (Some (FExclude ex)). split; [reflexivity|]. intros s Hs.
      assert (ps_ok ex = true) as Hex.
      { apply assoc_get_in in E. rewrite forallb_forall in H1. exact (H1 (v, ex) E). }
      cbn [filter_set apply_filter]. apply ps_rdiff_spec; assumption.
    + exists None. split; [reflexivity|]. intros s Hs. cbn [filter_set]. split; [exact Hs|].
      intros p Hp. rewrite andb_true_r. reflexivity.
  - exists None. split; [reflexivity|]. intros s Hs. cbn [filter_set]. split; [exact Hs|].
    intros p Hp. rewrite andb_true_r. reflexivity.
Qed.

Lemma exclusion_filters_ok : forall c, exclusion_config c -> filters_ok c.
Proof.
  intros c [H2 H1] v f H. unfold ignore_filter_for in H. rewrite H2 in H.
  destruct (cfg_ignored_fields c) as [sets|]; [|discriminate].
  destruct (assoc_get v sets) as [ex|] eqn:E; [|discriminate].
  inversion H; subst f. exists ex. split; [reflexivity|].
  apply assoc_get_in in E. rewrite forallb_forall in H1. exact (H1 (v, ex) E).
Qed.

Lemma never_owned_shrinks : forall c mf mf',
  (forall m r', mf_get m mf' = Some r' -> exists r, mf_get m mf = Some r /\ shrinks r' r) ->
  never_owned c mf -> never_owned c mf'.
Proof.
  intros c mf mf' Hall Hno m r' p Hg Hp Hhas.
  destruct (Hall m r' Hg) as [r [Hr [Hv [_ [_ Hsub]]]]].
  rewrite Hv. eapply Hno; [exact Hr|exact Hp|]. apply Hsub; assumption.
Qed.

Lemma never_owned_set : forall c v f m s ver b mf,
  ignore_filter_for c ver = Some f ->
  (ps_ok (filter_set f s) = true /\
   forall p, wf_path p = true -> ps_has p (filter_set f s) = ps_has p s && negb (ignored_at c ver p)) ->
  v = ver -> never_owned c mf -> never_owned c (mf_set m (mkRec (filter_set f s) v b) mf).
Proof.
  intros c v f m s ver b mf _ [_ Hspec] Hv Hno m' r p Hg Hp Hhas. subst v.
  unfold mf_get, mf_set in Hg. rewrite assoc_get_set in Hg.
  destruct (String.eqb m' m).
  - inversion Hg; subst r. cbn [mr_ver mr_set] in *. rewrite (Hspec p Hp) in Hhas.
    apply andb_true_iff in Hhas. destruct Hhas as [_ Hn]. apply negb_true_iff in Hn. exact Hn.
  - eapply Hno; eassumption.
Qed.

(* stated from the reconciled map mf0 (what reconcile does to the records is C20) *)
Theorem apply_op_never_owned : forall c live cfg ver mf mf0 n0 mgr force o mf',
  exclusion_config c -> compare_ok_wf c -> fs_ok_wf c -> conv_wf c ->
  wf_value (snd live) = true -> wf_value (snd cfg) = true ->
  reconcile_managed c O live mf = UOk (mf0, n0) -> records_inv mf0 -> never_owned c mf0 ->
  apply_op c live cfg ver mf mgr force = UOk (o, mf') -> never_owned c mf'.
Proof.
  intros c live cfg ver mf mf0 n0 mgr force o mf' Hex Hcok Hfsok Hcv Hwl Hwc Hrec [Hok0 _] Hno H.
  destruct (apply_op_inv c live cfg ver mf mf0 n0 mgr force o mf' Hcv Hwl Hwc Hrec H)
    as [set0 [f [pruned [n1 [cmp [n2 [Hfs [Hf [Hwp Hupd]]]]]]]]].
  destruct (exclusion_filter c ver Hex) as [f' [Hf' Hspec]]. rewrite Hf in Hf'. inversion Hf'; subst f'.
  pose proof (Hspec set0 (Hfsok cfg set0 Hwc Hfs)) as Hspec0.
  set (mf1 := mf_set mgr (mkRec (filter_set f set0) ver true) mf0) in *.
  assert (mf_ok mf1) as Hok1.
  { unfold mf1. apply mf_set_ok; [exact Hok0|]. apply Hspec0. }
  assert (never_owned c mf1) as Hno1.
  { unfold mf1. eapply never_owned_set; [exact Hf|exact Hspec0|reflexivity|exact Hno]. }
  destruct (update_core_shrinks_all c n1 live pruned ver mf1 mgr force mf' cmp n2 Hok1 Hcok Hcv Hwl Hwp
              (exclusion_filters_ok c Hex) Hupd) as [_ [_ [_ Hall]]].
  eapply never_owned_shrinks; eassumption.
Qed.

Theorem update_op_never_owned : forall c live new ver mf mf0 n0 mgr o mf',
  exclusion_config c -> compare_ok_wf c -> conv_wf c ->
  wf_value (snd live) = true -> wf_value (snd new) = true ->
  reconcile_managed c O live mf = UOk (mf0, n0) -> records_inv mf0 -> never_owned c mf0 ->
  update_op c live new ver mf mgr = UOk (o, mf') -> never_owned c mf'.
Proof.
  intros c live new ver mf mf0 n0 mgr o mf' Hex Hcok Hcv Hwl Hwn Hrec [Hok0 _] Hno H.
  unfold update_op in H. rewrite Hrec in H.
  destruct (update_core c n0 live new ver mf0 mgr true) as [[[mf1 cmp] n1]|e] eqn:Hupd; [|discriminate].
  destruct (update_core_shrinks_all c n0 live new ver mf0 mgr true mf1 cmp n1 Hok0 Hcok Hcv Hwl Hwn
              (exclusion_filters_ok c Hex) Hupd) as [[cmp0 [f0 [_ [_ [_ Hc]]]]] [Hok1 [_ Hall]]].
  assert (never_owned c mf1) as Hno1 by (eapply never_owned_shrinks; eassumption).
  destruct (exclusion_filter c ver Hex) as [f [Hf Hspec]]. rewrite Hf in H.
  destruct (update_set_spec _ cmp (cur_ok mgr mf1 Hok1) Hc) as [Hok2 _].
  pose proof (Hspec _ Hok2) as Hspec2.
  match type of H with (UOk (_, if ps_empty ?s then _ else _)) = _ => destruct (ps_empty s) end;
    inversion H; subst o mf'; clear H.
  - intros m r p Hg Hp Hhas. rewrite (mf_get_del m mgr mf1 (proj1 Hok1)) in Hg.
    destruct (String.eqb m mgr); [discriminate|]. eapply Hno1; eassumption.
  - eapply never_owned_set; [exact Hf|exact Hspec2|reflexivity|exact Hno1].
Qed.

(* ================= the hypotheses are satisfiable: ex_config ================= *)

(* a configuration all of whose versions resolve to a schema_ok schema satisfies the two
   walker hypotheses *)
Lemma compare_ok_wf_of_schema_ok : forall c,
  (forall ver, exists R, SchemaOk.schema_ok (schema_of c ver) R /\ R (tr_of c ver)) -> compare_ok_wf c.
Proof.
  intros c Hs a b cmp Ha Hb H. destruct (Hs (fst a)) as [R [Hok HR]].
  unfold compare_tv in H. unfold cmp_ok.
  exact (CompareLaws.compare_sets_ok _ R _ _ _ _ Hok HR Ha Hb H).
Qed.

Lemma fs_ok_wf_of_schema_ok : forall c,
  (forall ver, exists R, SchemaOk.schema_ok (schema_of c ver) R /\ R (tr_of c ver)) -> fs_ok_wf c.
Proof.
  intros c Hs o fs Ho H. destruct (Hs (fst o)) as [R [Hok HR]].
  unfold to_fs in H. exact (FieldSetWf.to_field_set_ok _ R _ _ _ Hok HR Ho H).
Qed.

Local Notation ex_config := Examples.ex_config.

Lemma ex_config_schemas_ok : forall ver,
  exists R, SchemaOk.schema_ok (schema_of ex_config ver) R /\ R (tr_of ex_config ver).
Proof.
  intros ver. exists ValidateLaws.ex_R. split; [exact ValidateLaws.ex_schema_ok|exact ValidateLaws.ex_rt_in_R].
Qed.

Theorem ex_config_compare_ok : compare_ok_wf ex_config.
Proof. apply compare_ok_wf_of_schema_ok. exact ex_config_schemas_ok. Qed.

Theorem ex_config_fs_ok : fs_ok_wf ex_config.
Proof. apply fs_ok_wf_of_schema_ok. exact ex_config_schemas_ok. Qed.

Theorem ex_config_conv_wf : conv_wf ex_config.
Proof. intros n from to v v' Hv H. cbn in H. inversion H; subst v'. exact Hv. Qed.

Theorem ex_config_no_ignore : no_ignore ex_config.
Proof. split; reflexivity. Qed.

