(* What the reference diff (Spec/RefDiff.v) says about presence (Spec/Resolve.v):
   every added or modified path designates a node of the right-hand object, and a path
   that designates a node of the left-hand object and is not removed designates a node
   of the right-hand object.  Used for C06 (Proofs/UpdateInv.v). *)
From Coq Require Import List ZArith String Bool Arith Lia.
From SMD Require Import Model.Value Model.Order Model.PathElem Model.PathSet Model.Schema Model.Walk
  Model.Validate Model.Merge Spec.PathsAsSets Spec.RefValid Spec.Resolve Spec.RefDiff
  Proofs.OrderLaws Proofs.KeyLaws Proofs.ValidateLaws Proofs.SchemaOk Proofs.FieldSetBase Proofs.FieldSetPaths
  Proofs.CompareBase Proofs.CompareTotal Proofs.RefDiffBase Proofs.RefDiffOneSided.
From SMD Require Proofs.ResolveLaws.
Import ListNotations.
Open Scope bool_scope.

(* ---------- small facts ---------- *)
Lemma assoc_get_some_in : forall (m : list (string * value)) k c,
  assoc_get k m = Some c -> In (k, c) m.
Proof.
  induction m as [|[k' c'] m IH]; intros k c H; simpl in H; [discriminate|].
  destruct (String.eqb_spec k k') as [E|E].
  - inversion H; subst. left. reflexivity.
  - right. apply IH. exact H.
Qed.

Lemma assoc_get_some_key : forall (m : list (string * value)) k c,
  assoc_get k m = Some c -> In k (map fst m).
Proof.
  intros m k c H. apply assoc_get_some_in in H. apply in_map_iff. exists (k, c). auto.
Qed.

Lemma rd_fold_in : forall (proj : rdiff -> list path),
  (forall a b, proj (rd_app a b) = proj a ++ proj b) ->
  forall (X : Type) (G : X -> rdiff) xs acc p,
    In p (proj (fold_left (fun acc x => rd_app acc (G x)) xs acc)) <->
    In p (proj acc) \/ exists x, In x xs /\ In p (proj (G x)).
Proof.
  intros proj Hp X G xs. induction xs as [|a xs IH]; intros acc p; simpl.
  - split; [auto|]. intros [H|(x & [] & _)]. exact H.
  - rewrite IH, Hp, in_app_iff. split.
    + intros [[H|H]|(x & Hx & H)]; [left; exact H|right; exists a; auto|right; exists x; auto].
    + intros [H|(x & [Hx|Hx] & H)]; [left; left; exact H|subst; left; right; exact H|right; exists x; auto].
Qed.

Lemma occ_not_keyval : forall s t e l, is_keyval e = false -> occ s t e l = [].
Proof.
  intros s t e l He. unfold occ. induction l as [|x l IH]; simpl; [reflexivity|].
  destruct (pe_matches s t e x) eqn:E; [|exact IH].
  apply ResolveLaws.pe_matches_keyval in E. congruence.
Qed.

Lemma pq_cons : forall x p y q, patheqb (x :: p) (y :: q) = peeqb x y && patheqb p q.
Proof. reflexivity. Qed.

Lemma occ_nil : forall s t e, occ s t e [] = [].
Proof. reflexivity. Qed.

Section RDP.
  Variables (s : schema) (R : typeref -> Prop).
  Hypothesis Hok : schema_ok s R.
  Hypothesis Hfam : family_refs s R.

  (* every path of L is q ++ a path designating a node of v *)
  Definition snd_in (q : path) (tr : typeref) (v : value) (L : list path) : Prop :=
    forall x, In x L ->
      exists p2, x = q ++ p2 /\ wf_path p2 = true /\ present s tr v p2 = true.

  (* a node of l is a node of r, or listed in L (beneath q, up to Path.Equals) *)
  Definition cov (q : path) (tr : typeref) (l r : value) (L : list path) : Prop :=
    forall p1, wf_path p1 = true -> p1 <> [] -> present s tr l p1 = true ->
      present s tr r p1 = true \/ exists p2, patheqb p1 p2 = true /\ In (q ++ p2) L.

  Definition rd_good (q : path) (tr : typeref) (l r : value) (D : rdiff) : Prop :=
    snd_in q tr r (rd_added D) /\ snd_in q tr r (rd_modified D) /\ cov q tr l r (rd_removed D).

  (* ---------- node enumeration: sound and complete for presence ---------- *)
  Lemma nodes_snd : forall f v tr q, R tr -> wf_value v = true ->
    snd_in q tr v (map fst (nodes_fuel f s tr v q)).
  Proof.
    intros f v tr q Htr Hwf x Hx. apply in_map_iff in Hx. destruct Hx as ([p b] & E & Hin).
    simpl in E. subst p.
    destruct (ResolveLaws.nodes_fuel_sound s R Hok _ _ _ _ _ _ Htr Hwf Hin)
      as (p' & Hp & Hne & Hwp & n & Hres & _).
    exists p'. split; [exact Hp|]. split; [exact Hwp|]. unfold present. rewrite Hres. reflexivity.
  Qed.

  Lemma nodes_cov : forall f v tr q p1, R tr -> wf_value v = true -> vdepth v < f ->
    wf_path p1 = true -> p1 <> [] -> present s tr v p1 = true ->
    exists p2, patheqb p1 p2 = true /\ In (q ++ p2) (map fst (nodes_fuel f s tr v q)).
  Proof.
    induction f as [|f IH]; intros v tr q p1 Htr Hwf Hd Hp1 Hne Hpr; [lia|].
    destruct p1 as [|e rest]; [contradiction Hne; reflexivity|].
    apply wf_path_cons in Hp1. destruct Hp1 as [He Hrest].
    destruct (kind_of s tr v) as [|t m|t l0|] eqn:Ek.
    - unfold present in Hpr. rewrite resolve_path_leaf in Hpr by (rewrite Ek; exact I). discriminate.
    - destruct (kind_map_inv _ _ _ _ _ Ek) as (a & Hr & Ham & Hv & _ & _). subst v.
      destruct e as [k|k|k|k];
        try (unfold present in Hpr; rewrite (resolve_path_map_other _ _ _ _ _ _ _ Ek) in Hpr by exact I;
             discriminate).
      unfold present in Hpr. rewrite (resolve_path_map _ _ _ _ _ _ _ Ek) in Hpr.
      destruct (assoc_get k m) as [c|] eqn:Eg; [|discriminate].
      pose proof (assoc_get_some_in m k c Eg) as Hin.
      assert (Hct : R (field_type t k)) by (eapply (so_map s R Hok); eauto).
      assert (Hwc : wf_value c = true) by (eapply wf_value_map_in; eauto).
      pose proof (vdepth_map_get m k c Eg) as Hdc.
      rewrite (nodes_fuel_map f s tr (VMap m) q t m Ek).
      destruct rest as [|e2 rest2].
      + exists [PEField k]. split; [simpl; rewrite String.eqb_refl; reflexivity|].
        apply in_map_iff. eexists. split; [|apply in_flat_map; exists (k, c); split; [exact Hin|left; reflexivity]].
        reflexivity.
      + destruct (IH c (field_type t k) (q ++ [PEField k]) (e2 :: rest2) Hct Hwc) as (p2 & Hpp & Hin2);
          [lia|exact Hrest|discriminate|exact Hpr|].
        exists (PEField k :: p2). split.
        * rewrite pq_cons. cbn [peeqb]. rewrite String.eqb_refl. exact Hpp.
        * apply in_map_iff in Hin2. destruct Hin2 as ([pp b] & E & Hin2). simpl in E.
          apply in_map_iff. exists (pp, b). split.
          { simpl. rewrite E, <- app_assoc. reflexivity. }
          apply in_flat_map. exists (k, c). split; [exact Hin|right; exact Hin2].
    - destruct (kind_list_inv _ _ _ _ _ Ek) as (a & Hr & Hal & Hv & _ & _). subst v.
      assert (Hte : R (list_elem t)) by (eapply (so_list s R Hok); eauto).
      assert (Hiw : items_wf s t l0) by (eapply items_wf_R; eauto).
      unfold present in Hpr.
      rewrite (ResolveLaws.resolve_path_list_occ s R Hok tr (VList l0) t l0 e rest Htr Hwf Ek He) in Hpr.
      destruct (forallb (has_pe s t) l0) eqn:Eh; [|discriminate].
      destruct (is_keyval e) eqn:Ekv; [|discriminate]. cbn [andb] in Hpr.
      destruct (group_items_nil_spec s t l0 Hiw Eh) as (g & Hg & Hgw & Hlk).
      rewrite (nodes_fuel_list f s tr (VList l0) q t l0 Ek), Hg.
      pose proof (Hlk e He) as Hle.
      destruct (occ s t e l0) as [|x [|y more]] eqn:Eocc; [discriminate| |].
      + apply lookup_group_In in Hle. destruct Hle as ([e' xs] & Hex & Hee & Hxs). simpl in Hee, Hxs. subst xs.
        assert (He' : wf_pe e' = true).
        { unfold reps_wf in Hgw. rewrite Forall_forall in Hgw. apply (Hgw (e', [x]) Hex). }
        assert (Hx : In x l0).
        { assert (Hx : In x (occ s t e l0)) by (rewrite Eocc; left; reflexivity). apply occ_In in Hx. apply Hx. }
        assert (Hwx : wf_value x = true) by (eapply wf_value_list_in; eauto).
        pose proof (vdepth_list_In l0 x Hx) as Hdx.
        destruct rest as [|e2 rest2].
        * exists [e']. split; [simpl; rewrite (peeqb_sym e e' He He'), Hee; reflexivity|].
          apply in_map_iff. eexists. split; [|apply in_flat_map; exists (e', [x]); split; [exact Hex|left; reflexivity]].
          reflexivity.
        * destruct (IH x (list_elem t) (q ++ [e']) (e2 :: rest2) Hte Hwx) as (p2 & Hpp & Hin2);
            [lia|exact Hrest|discriminate|unfold present; exact Hpr|].
          exists (e' :: p2). split.
          { rewrite pq_cons, (peeqb_sym e e' He He'), Hee. exact Hpp. }
          apply in_map_iff in Hin2. destruct Hin2 as ([pp b] & E & Hin2). simpl in E.
          apply in_map_iff. exists (pp, b). split.
          { simpl. rewrite E, <- app_assoc. reflexivity. }
          apply in_flat_map. exists (e', [x]). split; [exact Hex|right; exact Hin2].
      + destruct rest as [|e2 rest2]; [|discriminate].
        apply lookup_group_In in Hle. destruct Hle as ([e' xs] & Hex & Hee & Hxs). simpl in Hee, Hxs. subst xs.
        assert (He' : wf_pe e' = true).
        { unfold reps_wf in Hgw. rewrite Forall_forall in Hgw. apply (Hgw _ Hex). }
        exists [e']. split; [simpl; rewrite (peeqb_sym e e' He He'), Hee; reflexivity|].
        apply in_map_iff. eexists. split; [|apply in_flat_map; eexists; split; [exact Hex|left; reflexivity]].
        reflexivity.
    - unfold present in Hpr. rewrite resolve_path_leaf in Hpr by (rewrite Ek; exact I). discriminate.
  Qed.

  (* ---------- a value present on one side only ---------- *)
  Lemma one_sided_added_snd : forall ct v q, R ct -> wf_value v = true ->
    snd_in q ct v (rd_added (one_sided true s ct v q)).
  Proof.
    intros ct v q Hct Hwf x Hx. unfold one_sided in Hx. cbn [rd_added] in Hx. destruct Hx as [E|Hx].
    - subst x. exists []. split; [rewrite app_nil_r; reflexivity|]. split; reflexivity.
    - apply (nodes_snd _ v ct q Hct Hwf x Hx).
  Qed.

  Lemma one_sided_removed_cov : forall ct v q p1, R ct -> wf_value v = true ->
    wf_path p1 = true -> present s ct v p1 = true ->
    exists p2, patheqb p1 p2 = true /\ In (q ++ p2) (rd_removed (one_sided false s ct v q)).
  Proof.
    intros ct v q p1 Hct Hwf Hp1 Hpr. unfold one_sided. cbn [rd_removed].
    destruct p1 as [|e rest].
    - exists []. split; [reflexivity|]. left. rewrite app_nil_r. reflexivity.
    - destruct (nodes_cov (S (vdepth v)) v ct q (e :: rest) Hct Hwf) as (p2 & Hpp & Hin);
        [lia|exact Hp1|discriminate|exact Hpr|].
      exists p2. split; [exact Hpp|]. right. exact Hin.
  Qed.

  Lemma one_sided_added_nil : forall ct v q,
    rd_removed (one_sided true s ct v q) = [] /\ rd_modified (one_sided true s ct v q) = [].
  Proof. intros. split; reflexivity. Qed.

  Lemma one_sided_removed_nil : forall ct v q,
    rd_added (one_sided false s ct v q) = [] /\ rd_modified (one_sided false s ct v q) = [].
  Proof. intros. split; reflexivity. Qed.

  (* ---------- how a value is seen one step down ---------- *)
  Definition map_view (tr : typeref) (v : value) (t : mapT) (m : list (string * value)) : Prop :=
    forall e rest, present s tr v (e :: rest) =
      match e with
      | PEField k =>
          match assoc_get k m with Some c => present s (field_type t k) c rest | None => false end
      | _ => false
      end.

  Definition list_view (tr : typeref) (v : value) (t : listT) (l : list value) : Prop :=
    forall e rest, wf_pe e = true -> present s tr v (e :: rest) =
      match occ s t e l with
      | [] => false
      | [x] => present s (list_elem t) x rest
      | _ :: _ :: _ => match rest with [] => true | _ => false end
      end.

  Lemma map_view_kind : forall tr v t m, kind_of s tr v = KMap t m -> map_view tr v t m.
  Proof.
    intros tr v t m Ek e rest. unfold present. destruct e as [k|k|k|k];
      try (rewrite (resolve_path_map_other _ _ _ _ _ _ _ Ek) by exact I; reflexivity).
    rewrite (resolve_path_map _ _ _ _ _ _ _ Ek). destruct (assoc_get k m); reflexivity.
  Qed.

  Lemma map_view_leaf : forall tr v t, kind_of s tr v = KLeaf -> map_view tr v t [].
  Proof.
    intros tr v t Ek e rest. unfold present. rewrite resolve_path_leaf by (rewrite Ek; exact I).
    destruct e; reflexivity.
  Qed.

  Lemma list_view_kind : forall tr v t l, R tr -> wf_value v = true -> kind_of s tr v = KList t l ->
    forallb (has_pe s t) l = true -> list_view tr v t l.
  Proof.
    intros tr v t l Htr Hwf Ek Hh e rest He. unfold present.
    rewrite (ResolveLaws.resolve_path_list_occ s R Hok tr v t l e rest Htr Hwf Ek He), Hh.
    cbn [andb]. destruct (is_keyval e) eqn:Ekv.
    - destruct (occ s t e l) as [|x [|y more]]; try reflexivity. destruct rest; reflexivity.
    - rewrite (occ_not_keyval s t e l Ekv). reflexivity.
  Qed.

  Lemma list_view_leaf : forall tr v t, kind_of s tr v = KLeaf -> list_view tr v t [].
  Proof.
    intros tr v t Ek e rest He. unfold present. rewrite resolve_path_leaf by (rewrite Ek; exact I).
    rewrite occ_nil. reflexivity.
  Qed.

  Lemma leaf_cov : forall q tr l r L, kind_of s tr l = KLeaf -> cov q tr l r L.
  Proof.
    intros q tr l r L Ek p1 _ Hne Hpr. destruct p1 as [|e rest]; [contradiction Hne; reflexivity|].
    unfold present in Hpr. rewrite resolve_path_leaf in Hpr by (rewrite Ek; exact I). discriminate.
  Qed.

  Definition child_ok (ct : typeref) (c : value) (n : nat) : Prop :=
    R ct /\ wf_value c = true /\ conforms s ct true c = true /\ vdepth c < n.

  (* ---------- two maps ---------- *)
  Section Maps.
    Variable rrec : typeref -> path -> value -> value -> rdiff.
    Variables (q : path) (tr : typeref) (l r : value) (t : mapT) (lm rm : list (string * value)).
    Variables (nl nr : nat).
    Hypothesis Vl : map_view tr l t lm.
    Hypothesis Vr : map_view tr r t rm.
    Hypothesis Cl : forall k c, assoc_get k lm = Some c -> child_ok (field_type t k) c nl.
    Hypothesis Cr : forall k c, assoc_get k rm = Some c -> child_ok (field_type t k) c nr.
    Hypothesis IH : forall ct q' x y, child_ok ct x nl -> child_ok ct y nr ->
      rd_good q' ct x y (rrec ct q' x y).

    Let G := rd_map_G rrec s q t lm rm.

    Lemma map_lift_snd : forall k y L, assoc_get k rm = Some y ->
      snd_in (q ++ [PEField k]) (field_type t k) y L -> snd_in q tr r L.
    Proof.
      intros k y L Er H x Hx. destruct (H x Hx) as (p2 & E & W & P).
      exists (PEField k :: p2). split; [rewrite E, <- app_assoc; reflexivity|].
      split; [apply wf_path_cons; split; [reflexivity|exact W]|].
      rewrite Vr, Er. exact P.
    Qed.

    Lemma mapG_added : forall k, snd_in q tr r (rd_added (G k)).
    Proof.
      intros k. unfold G, rd_map_G.
      destruct (assoc_get k lm) as [c|] eqn:El; destruct (assoc_get k rm) as [y|] eqn:Er;
        try (intros x Hx; solve [destruct Hx]).
      - apply (map_lift_snd k y _ Er). apply (IH _ _ c y (Cl k c El) (Cr k y Er)).
      - apply (map_lift_snd k y _ Er). destruct (Cr k y Er) as (H1 & H2 & _).
        apply one_sided_added_snd; assumption.
    Qed.

    Lemma mapG_modified : forall k, snd_in q tr r (rd_modified (G k)).
    Proof.
      intros k. unfold G, rd_map_G.
      destruct (assoc_get k lm) as [c|] eqn:El; destruct (assoc_get k rm) as [y|] eqn:Er;
        try (intros x Hx; solve [destruct Hx]).
      apply (map_lift_snd k y _ Er). apply (IH _ _ c y (Cl k c El) (Cr k y Er)).
    Qed.

    Lemma mapG_cov : forall k c rest, assoc_get k lm = Some c -> wf_path rest = true ->
      present s (field_type t k) c rest = true ->
      present s tr r (PEField k :: rest) = true \/
      exists p2, patheqb rest p2 = true /\ In ((q ++ [PEField k]) ++ p2) (rd_removed (G k)).
    Proof.
      intros k c rest El Hw Hpr. unfold G, rd_map_G. rewrite El.
      destruct (assoc_get k rm) as [y|] eqn:Er.
      - destruct rest as [|e2 rest2]; [left; rewrite Vr, Er; reflexivity|].
        destruct (IH (field_type t k) (q ++ [PEField k]) c y (Cl k c El) (Cr k y Er)) as (_ & _ & Hc).
        destruct (Hc (e2 :: rest2) Hw) as [H|H]; [discriminate|exact Hpr| |].
        + left. rewrite Vr, Er. exact H.
        + right. exact H.
      - right. destruct (Cl k c El) as (H1 & H2 & _). apply one_sided_removed_cov; assumption.
    Qed.

    Lemma maps_good : rd_good q tr l r (rd_maps rrec s q t lm rm).
    Proof.
      unfold rd_maps. fold G. split; [|split].
      - intros x Hx. apply (rd_fold_in rd_added (fun a b => eq_refl)) in Hx.
        destruct Hx as [[]|(k & _ & Hx)]. apply (mapG_added k x Hx).
      - intros x Hx. apply (rd_fold_in rd_modified (fun a b => eq_refl)) in Hx.
        destruct Hx as [[]|(k & _ & Hx)]. apply (mapG_modified k x Hx).
      - intros p1 Hw Hne Hpr. destruct p1 as [|e rest]; [contradiction Hne; reflexivity|].
        apply wf_path_cons in Hw. destruct Hw as [He Hrest].
        rewrite Vl in Hpr. destruct e as [k|k|k|k]; try discriminate.
        destruct (assoc_get k lm) as [c|] eqn:El; [|discriminate].
        destruct (mapG_cov k c rest El Hrest Hpr) as [H|(p2 & Hpp & Hin)]; [left; exact H|].
        right. exists (PEField k :: p2). split.
        + rewrite pq_cons. cbn [peeqb]. rewrite String.eqb_refl. exact Hpp.
        + apply (rd_fold_in rd_removed (fun a b => eq_refl)). right. exists k. split.
          * apply keys_union_In. left. apply (assoc_get_some_key lm k c El).
          * rewrite <- app_assoc in Hin. exact Hin.
    Qed.
  End Maps.

  (* ---------- two associative lists ---------- *)
  Section Lists.
    Variable rrec : typeref -> path -> value -> value -> rdiff.
    Variables (q : path) (tr : typeref) (l r : value) (t : listT) (ll rl : list value).
    Variables (gl gr : list (pe * list value)) (nl nr : nat).
    Hypothesis Vl : list_view tr l t ll.
    Hypothesis Vr : list_view tr r t rl.
    Hypothesis Il : items_wf s t ll.
    Hypothesis Ir : items_wf s t rl.
    Hypothesis Hgl : group_items s t ll [] = Some gl.
    Hypothesis Hgr : group_items s t rl [] = Some gr.
    Hypothesis Cl : forall x, In x ll -> child_ok (list_elem t) x nl.
    Hypothesis Cr : forall x, In x rl -> child_ok (list_elem t) x nr.
    Hypothesis IH : forall ct q' x y, child_ok ct x nl -> child_ok ct y nr ->
      rd_good q' ct x y (rrec ct q' x y).

    Let G := rd_list_G rrec s q t gl gr.

    Lemma Lkl : forall e, wf_pe e = true ->
      lookup_group e gl = match occ s t e ll with [] => None | xs => Some xs end.
    Proof. intros e He. apply (group_items_some s t ll gl Il Hgl). exact He. Qed.

    Lemma Lkr : forall e, wf_pe e = true ->
      lookup_group e gr = match occ s t e rl with [] => None | xs => Some xs end.
    Proof. intros e He. apply (group_items_some s t rl gr Ir Hgr). exact He. Qed.

    Lemma all_wf : forall e, In e (rd_all gl gr) -> wf_pe e = true.
    Proof.
      intros e Hin. unfold rd_all in Hin. apply in_app_iff in Hin.
      destruct (group_items_some s t ll gl Il Hgl) as (_ & Wl & _).
      destruct (group_items_some s t rl gr Ir Hgr) as (_ & Wr & _).
      unfold reps_wf in Wl, Wr. rewrite Forall_forall in Wl, Wr.
      destruct Hin as [Hin|Hin]; apply in_map_iff in Hin; destruct Hin as (ex & E & Hin); subst e.
      - apply (Wl ex Hin).
      - apply filter_In in Hin. apply (Wr ex (proj1 Hin)).
    Qed.

    Lemma occ_child_l : forall e x, In x (occ s t e ll) -> child_ok (list_elem t) x nl.
    Proof. intros e x H. apply occ_In in H. apply Cl. apply H. Qed.

    Lemma occ_child_r : forall e x, In x (occ s t e rl) -> child_ok (list_elem t) x nr.
    Proof. intros e x H. apply occ_In in H. apply Cr. apply H. Qed.

    Lemma list_lift_snd : forall e y L, wf_pe e = true -> occ s t e rl = [y] ->
      snd_in (q ++ [e]) (list_elem t) y L -> snd_in q tr r L.
    Proof.
      intros e y L He Er H x Hx. destruct (H x Hx) as (p2 & E & W & P).
      exists (e :: p2). split; [rewrite E, <- app_assoc; reflexivity|].
      split; [apply wf_path_cons; split; [exact He|exact W]|].
      rewrite (Vr e p2 He), Er. exact P.
    Qed.

    Lemma single_snd : forall e y1 y2 ys, wf_pe e = true -> occ s t e rl = y1 :: y2 :: ys ->
      snd_in q tr r [q ++ [e]].
    Proof.
      intros e y1 y2 ys He Er x [E|[]]. subst x. exists [e]. split; [reflexivity|].
      split; [simpl; rewrite He; reflexivity|]. rewrite (Vr e [] He), Er. reflexivity.
    Qed.

    Lemma listG_added : forall e, wf_pe e = true -> snd_in q tr r (rd_added (G e)).
    Proof.
      intros e He. unfold G, rd_list_G. rewrite (Lkl e He), (Lkr e He).
      destruct (occ s t e ll) as [|x1 [|x2 xs]] eqn:El;
        destruct (occ s t e rl) as [|y1 [|y2 ys]] eqn:Er; cbv beta iota zeta;
        try (intros x Hx; solve [destruct Hx]);
        try (destruct (values_eqb_dup _ _); intros x Hx; solve [destruct Hx]).
      - apply (list_lift_snd e y1 _ He Er).
        destruct (occ_child_r e y1) as (H1 & H2 & _); [rewrite Er; left; reflexivity|].
        apply one_sided_added_snd; assumption.
      - apply (single_snd e y1 y2 ys He Er).
      - apply (list_lift_snd e y1 _ He Er). apply IH.
        + apply (occ_child_l e). rewrite El. left. reflexivity.
        + apply (occ_child_r e). rewrite Er. left. reflexivity.
      - apply (single_snd e y1 y2 ys He Er).
      - apply (list_lift_snd e y1 _ He Er).
        destruct (occ_child_r e y1) as (H1 & H2 & _); [rewrite Er; left; reflexivity|].
        apply (one_sided_added_snd (list_elem t) y1 (q ++ [e]) H1 H2).
    Qed.

    Lemma listG_modified : forall e, wf_pe e = true -> snd_in q tr r (rd_modified (G e)).
    Proof.
      intros e He. unfold G, rd_list_G. rewrite (Lkl e He), (Lkr e He).
      destruct (occ s t e ll) as [|x1 [|x2 xs]] eqn:El;
        destruct (occ s t e rl) as [|y1 [|y2 ys]] eqn:Er; cbv beta iota zeta;
        try (intros x Hx; solve [destruct Hx]).
      - apply (list_lift_snd e y1 _ He Er). apply IH.
        + apply (occ_child_l e). rewrite El. left. reflexivity.
        + apply (occ_child_r e). rewrite Er. left. reflexivity.
      - destruct (values_eqb_dup _ _); [intros x []|].
        apply (single_snd e y1 y2 ys He Er).
    Qed.

    Lemma listG_cov : forall e rest, wf_pe e = true -> wf_path rest = true ->
      present s tr l (e :: rest) = true ->
      present s tr r (e :: rest) = true \/
      exists p2, patheqb rest p2 = true /\ In ((q ++ [e]) ++ p2) (rd_removed (G e)).
    Proof.
      intros e rest He Hw Hpr. rewrite (Vl e rest He) in Hpr. rewrite (Vr e rest He).
      unfold G, rd_list_G. rewrite (Lkl e He), (Lkr e He).
      destruct (occ s t e ll) as [|x1 [|x2 xs]] eqn:El; [discriminate| |].
      - destruct (occ_child_l e x1) as (H1 & H2 & _); [rewrite El; left; reflexivity|].
        destruct (occ s t e rl) as [|y1 [|y2 ys]] eqn:Er; cbv beta iota zeta.
        + right. apply one_sided_removed_cov; assumption.
        + destruct rest as [|e2 rest2]; [left; reflexivity|].
          destruct (IH (list_elem t) (q ++ [e]) x1 y1) as (_ & _ & Hc).
          { apply (occ_child_l e). rewrite El. left. reflexivity. }
          { apply (occ_child_r e). rewrite Er. left. reflexivity. }
          destruct (Hc (e2 :: rest2) Hw) as [H|H]; [discriminate|exact Hpr|left; exact H|right; exact H].
        + right. destruct (one_sided_removed_cov (list_elem t) x1 (q ++ [e]) rest H1 H2 Hw Hpr) as (p2 & Hpp & Hin).
          exists p2. split; [exact Hpp|]. cbn [rd_removed rd_app]. apply in_or_app. left. exact Hin.
      - destruct rest as [|e2 rest2]; [|discriminate].
        destruct (occ s t e rl) as [|y1 [|y2 ys]] eqn:Er; cbv beta iota zeta.
        + right. exists []. split; [reflexivity|]. rewrite app_nil_r. left. reflexivity.
        + right. exists []. split; [reflexivity|]. rewrite app_nil_r. left. reflexivity.
        + left. reflexivity.
    Qed.

    Lemma lists_good : rd_good q tr l r (rd_lists rrec s q t ll rl).
    Proof.
      unfold rd_lists. rewrite Hgl, Hgr. fold G. split; [|split].
      - intros x Hx. apply (rd_fold_in rd_added (fun a b => eq_refl)) in Hx.
        destruct Hx as [[]|(e & He & Hx)]. apply (listG_added e (all_wf e He) x Hx).
      - intros x Hx. apply (rd_fold_in rd_modified (fun a b => eq_refl)) in Hx.
        destruct Hx as [[]|(e & He & Hx)]. apply (listG_modified e (all_wf e He) x Hx).
      - intros p1 Hw Hne Hpr. destruct p1 as [|e rest]; [contradiction Hne; reflexivity|].
        apply wf_path_cons in Hw. destruct Hw as [He Hrest].
        (* the representative of e's group *)
        assert (exists e', In e' (rd_all gl gr) /\ wf_pe e' = true /\ peeqb e e' = true) as (e' & Hin' & He' & Hee).
        { pose proof (Lkl e He) as Hlk. rewrite (Vl e rest He) in Hpr.
          destruct (occ s t e ll) as [|x1 xs] eqn:El; [discriminate|].
          apply lookup_group_In in Hlk. destruct Hlk as (ex & Hex & Hpe & _).
          assert (In (fst ex) (rd_all gl gr)) as Hall.
          { unfold rd_all. apply in_or_app. left. apply in_map. exact Hex. }
          exists (fst ex). split; [exact Hall|]. pose proof (all_wf _ Hall) as W. split; [exact W|].
          rewrite (peeqb_sym e (fst ex) He W). exact Hpe. }
        assert (present s tr l (e' :: rest) = true) as Hpr'.
        { rewrite (Vl e' rest He'). rewrite <- (occ_cong s t ll e e' Il He He' Hee).
          rewrite <- (Vl e rest He). exact Hpr. }
        destruct (listG_cov e' rest He' Hrest Hpr') as [H|(p2 & Hpp & Hin)].
        + left. rewrite (Vr e rest He). rewrite (occ_cong s t rl e e' Ir He He' Hee).
          rewrite <- (Vr e' rest He'). exact H.
        + right. exists (e' :: p2). split; [rewrite pq_cons, Hee; exact Hpp|].
          apply (rd_fold_in rd_removed (fun a b => eq_refl)). right. exists e'. split; [exact Hin'|].
          rewrite <- app_assoc in Hin. exact Hin.
    Qed.
  End Lists.

  (* ---------- a change of kind ---------- *)
  Lemma snd_in_nil : forall q tr v, snd_in q tr v [].
  Proof. intros q tr v x []. Qed.

  Lemma snd_in_self : forall q tr v, snd_in q tr v [q].
  Proof.
    intros q tr v x [E|[]]. subst x. exists []. split; [rewrite app_nil_r; reflexivity|].
    split; reflexivity.
  Qed.

  Lemma beneath_cov : forall q tr l r, R tr -> wf_value l = true ->
    cov q tr l r (map fst (nodes_fuel (S (vdepth l)) s tr l q)).
  Proof.
    intros q tr l r Htr Hwf p1 Hw Hne Hpr. right.
    apply (nodes_cov (S (vdepth l)) l tr q p1 Htr Hwf); auto.
  Qed.

  Lemma leaf_vs_container : forall q tr l r, R tr -> wf_value r = true -> kind_of s tr l = KLeaf ->
    rd_good q tr l r (rd_app (mkRD [] [q] []) (rd_beneath s tr q true r)).
  Proof.
    intros q tr l r Htr Hwf Kl. split; [|split].
    - unfold rd_beneath; cbn [rd_added rd_modified rd_removed rd_app app]. apply nodes_snd; assumption.
    - unfold rd_beneath; cbn [rd_added rd_modified rd_removed rd_app app]. apply snd_in_self.
    - apply leaf_cov. exact Kl.
  Qed.

  Lemma container_vs_leaf : forall q tr l r, R tr -> wf_value l = true ->
    rd_good q tr l r (rd_app (mkRD [] [q] []) (rd_beneath s tr q false l)).
  Proof.
    intros q tr l r Htr Hwf. split; [|split].
    - unfold rd_beneath; cbn [rd_added rd_modified rd_removed rd_app app]. apply snd_in_nil.
    - unfold rd_beneath; cbn [rd_added rd_modified rd_removed rd_app app]. apply snd_in_self.
    - unfold rd_beneath; cbn [rd_added rd_modified rd_removed rd_app app]. apply beneath_cov; assumption.
  Qed.

  Lemma mixed_good : forall q tr l r, R tr -> wf_value l = true -> wf_value r = true ->
    rd_good q tr l r (rd_app (mkRD [] [q] [])
                        (rd_app (rd_beneath s tr q false l) (rd_beneath s tr q true r))).
  Proof.
    intros q tr l r Htr Hl Hr. split; [|split].
    - unfold rd_beneath; cbn [rd_added rd_modified rd_removed rd_app app]. apply nodes_snd; assumption.
    - unfold rd_beneath; cbn [rd_added rd_modified rd_removed rd_app app]. apply snd_in_self.
    - unfold rd_beneath; cbn [rd_added rd_modified rd_removed rd_app app]. rewrite app_nil_r. apply beneath_cov; assumption.
  Qed.

  Lemma match_map_good : forall (P : rdiff -> Prop) (v : value) A B, P A -> P B ->
    P (match v with VNull | VMap [] => A | _ => B end).
  Proof. intros P v A B HA HB. destruct v as [| | | | | |[|]]; assumption. Qed.

  Lemma match_list_good : forall (P : rdiff -> Prop) (v : value) A B, P A -> P B ->
    P (match v with VNull | VList [] => A | _ => B end).
  Proof. intros P v A B HA HB. destruct v as [| | | | |[|]|]; assumption. Qed.

  (* ---------- the children of a granular container ---------- *)
  Lemma map_side : forall tr a v t m, R tr -> resolve s tr = Some a -> wf_value v = true ->
    conforms s tr true v = true -> kind_of s tr v = KMap t m ->
    atom_map a = Some t /\
    forall k c, assoc_get k m = Some c -> child_ok (field_type t k) c (vdepth v).
  Proof.
    intros tr a v t m Htr Hres Hwf Hc Ek.
    destruct (kind_map_inv _ _ _ _ _ Ek) as (a' & Hr & Ham & Hv & _ & _). subst v.
    rewrite Hres in Hr. inversion Hr; subst a'. split; [exact Ham|].
    intros k c Eg. destruct (conf_map_inv s tr a m Hres Hc) as (t' & Ht' & C1).
    rewrite Ham in Ht'. inversion Ht'; subst t'.
    split; [eapply (so_map s R Hok); eauto|]. split.
    - simpl in Hwf. apply andb_true_iff in Hwf. eapply assoc_get_wf; [apply Hwf|exact Eg].
    - split; [eapply cmap_each_get; eauto|apply (vdepth_map_get m k c Eg)].
  Qed.

  Lemma list_side : forall tr a v t l0, R tr -> resolve s tr = Some a -> wf_value v = true ->
    conforms s tr true v = true -> kind_of s tr v = KList t l0 ->
    atom_list a = Some t /\ items_wf s t l0 /\ forallb (has_pe s t) l0 = true /\
    (exists g, group_items s t l0 [] = Some g) /\
    forall x, In x l0 -> child_ok (list_elem t) x (vdepth v).
  Proof.
    intros tr a v t l0 Htr Hres Hwf Hc Ek.
    destruct (kind_list_inv _ _ _ _ _ Ek) as (a' & Hr & Hal & Hv & Hna & _). subst v.
    rewrite Hres in Hr. inversion Hr; subst a'. split; [exact Hal|].
    assert (Hte : R (list_elem t)) by (eapply (so_list s R Hok); eauto).
    assert (Hiw : items_wf s t l0) by (eapply items_wf_R; eauto).
    destruct (conf_list_inv s tr a l0 Hres Hc) as (t' & Ht' & C1 & C2).
    rewrite Hal in Ht'. inversion Ht'; subst t'.
    assert (Hh : forallb (has_pe s t) l0 = true).
    { apply C2. destruct (Hfam tr a t Htr Hres Hal) as [E|E]; [exact E|].
      rewrite E in Hna. discriminate. }
    split; [exact Hiw|]. split; [exact Hh|]. split.
    - destruct (group_items_nil_spec s t l0 Hiw Hh) as (g & Hg & _). exists g. exact Hg.
    - intros x Hx. split; [exact Hte|]. split; [eapply wf_value_list_in; eauto|]. split.
      + rewrite forallb_forall in C1. apply C1. exact Hx.
      + apply (vdepth_list_In l0 x Hx).
  Qed.

  Lemma nil_children : forall (t : mapT) n k c, assoc_get k (@nil (string * value)) = Some c ->
    child_ok (field_type t k) c n.
  Proof. intros t n k c H. discriminate. Qed.

  Lemma items_wf_nil : forall t, items_wf s t [].
  Proof. intros t x e []. Qed.

  (* ---------- the reference diff, any sufficient fuel ---------- *)
  Theorem ref_diff_fuel_good : forall f q tr l r, R tr ->
    wf_value l = true -> wf_value r = true ->
    conforms s tr true l = true -> conforms s tr true r = true ->
    vdepth l + vdepth r < f ->
    rd_good q tr l r (ref_diff_fuel f s tr q l r).
  Proof.
    induction f as [|f IHf]; intros q tr l r Htr Hl Hr Cl Cr Hf; [lia|].
    rewrite ref_diff_fuel_S. unfold ref_body.
    destruct (conf_resolve s tr true l Cl) as [a Hres].
    pose proof (conf_not_bad s tr a Hres l Cl) as Nl.
    pose proof (conf_not_bad s tr a Hres r Cr) as Nr.
    assert (IH' : forall ct q' x y, child_ok ct x (vdepth l) -> child_ok ct y (vdepth r) ->
              rd_good q' ct x y (ref_diff_fuel f s ct q' x y)).
    { intros ct q' x y (A1 & A2 & A3 & A4) (B1 & B2 & B3 & B4). apply IHf; auto. lia. }
    destruct (kind_of s tr l) as [|t lm|t ll|] eqn:Kl; [| | |contradiction Nl; reflexivity];
      (destruct (kind_of s tr r) as [|t2 rm|t2 rl|] eqn:Kr; [| | |contradiction Nr; reflexivity]).
    - (* leaf, leaf *)
      destruct (veqb r l); (split; [apply snd_in_nil|split; [|apply leaf_cov; exact Kl]]).
      + apply snd_in_nil.
      + apply snd_in_self.
    - (* leaf, map *)
      destruct (map_side tr a r t2 rm Htr Hres Hr Cr Kr) as [_ Hcr].
      apply match_map_good.
      + apply (maps_good (ref_diff_fuel f s) q tr l r t2 [] rm (vdepth l) (vdepth r)
                 (map_view_leaf tr l t2 Kl) (map_view_kind tr r t2 rm Kr)
                 (nil_children t2 (vdepth l)) Hcr IH').
      + apply leaf_vs_container; assumption.
    - (* leaf, list *)
      destruct (list_side tr a r t2 rl Htr Hres Hr Cr Kr) as (_ & Hiw & Hh & (gr & Hgr) & Hcr).
      apply match_list_good.
      + apply (lists_good (ref_diff_fuel f s) q tr l r t2 [] rl [] gr (vdepth l) (vdepth r)
                 (list_view_leaf tr l t2 Kl) (list_view_kind tr r t2 rl Htr Hr Kr Hh)
                 (items_wf_nil t2) Hiw eq_refl Hgr).
        * intros x [].
        * exact Hcr.
        * exact IH'.
      + apply leaf_vs_container; assumption.
    - (* map, leaf *)
      destruct (map_side tr a l t lm Htr Hres Hl Cl Kl) as [_ Hcl].
      apply match_map_good.
      + apply (maps_good (ref_diff_fuel f s) q tr l r t lm [] (vdepth l) (vdepth r)
                 (map_view_kind tr l t lm Kl) (map_view_leaf tr r t Kr)
                 Hcl (nil_children t (vdepth r)) IH').
      + apply container_vs_leaf; assumption.
    - (* map, map *)
      destruct (map_side tr a l t lm Htr Hres Hl Cl Kl) as [Ht Hcl].
      destruct (map_side tr a r t2 rm Htr Hres Hr Cr Kr) as [Ht2 Hcr].
      rewrite Ht in Ht2. inversion Ht2; subst t2.
      apply (maps_good (ref_diff_fuel f s) q tr l r t lm rm (vdepth l) (vdepth r)
               (map_view_kind tr l t lm Kl) (map_view_kind tr r t rm Kr) Hcl Hcr IH').
    - (* map, list *)
      apply mixed_good; assumption.
    - (* list, leaf *)
      destruct (list_side tr a l t ll Htr Hres Hl Cl Kl) as (_ & Hiw & Hh & (gl & Hgl) & Hcl).
      apply match_list_good.
      + apply (lists_good (ref_diff_fuel f s) q tr l r t ll [] gl [] (vdepth l) (vdepth r)
                 (list_view_kind tr l t ll Htr Hl Kl Hh) (list_view_leaf tr r t Kr)
                 Hiw (items_wf_nil t) Hgl eq_refl).
        * exact Hcl.
        * intros x [].
        * exact IH'.
      + apply container_vs_leaf; assumption.
    - (* list, map *)
      apply mixed_good; assumption.
    - (* list, list *)
      destruct (list_side tr a l t ll Htr Hres Hl Cl Kl) as (Ht & Hiwl & Hhl & (gl & Hgl) & Hcl).
      destruct (list_side tr a r t2 rl Htr Hres Hr Cr Kr) as (Ht2 & Hiwr & Hhr & (gr & Hgr) & Hcr).
      rewrite Ht in Ht2. inversion Ht2; subst t2.
      apply (lists_good (ref_diff_fuel f s) q tr l r t ll rl gl gr (vdepth l) (vdepth r)
               (list_view_kind tr l t ll Htr Hl Kl Hhl) (list_view_kind tr r t rl Htr Hr Kr Hhr)
               Hiwl Hiwr Hgl Hgr Hcl Hcr IH').
  Qed.

  (* ---------- the statement used for C06 ---------- *)
  Theorem ref_diff_present : forall tr l r, R tr ->
    wf_value l = true -> wf_value r = true ->
    conforms s tr true l = true -> conforms s tr true r = true ->
    forall p, wf_path p = true -> p <> [] ->
      (present s tr l p = true -> pmem p (rd_removed (ref_diff s tr l r)) = false ->
       present s tr r p = true) /\
      (pmem p (rd_modified (ref_diff s tr l r)) = true -> present s tr r p = true) /\
      (pmem p (rd_added (ref_diff s tr l r)) = true -> present s tr r p = true).
  Proof.
    intros tr l r Htr Hl Hr Cl Cr p Hp Hne.
    destruct (ref_diff_fuel_good (merge_fuel l r) [] tr l r Htr Hl Hr Cl Cr) as (Ha & Hm & Hc).
    { unfold merge_fuel. lia. }
    fold (ref_diff s tr l r) in Ha, Hm, Hc.
    assert (forall L, snd_in [] tr r L -> pmem p L = true -> present s tr r p = true) as Hsnd.
    { intros L HL Hmem. unfold pmem in Hmem. apply existsb_exists in Hmem.
      destruct Hmem as (x & Hx & Hpx). destruct (HL x Hx) as (p2 & E & W & P).
      simpl in E. subst x. rewrite (present_patheqb s R Hok p p2 Hpx Hp W r tr Htr Hr). exact P. }
    split; [|split].
    - intros Hpl Hnr. destruct (Hc p Hp Hne Hpl) as [H|(p2 & Hpp & Hin)]; [exact H|].
      simpl in Hin. assert (pmem p (rd_removed (ref_diff s tr l r)) = true) as Hy.
      { unfold pmem. apply existsb_exists. exists p2. auto. }
      congruence.
    - apply Hsnd. exact Hm.
    - apply Hsnd. exact Ha.
  Qed.
End RDP.
