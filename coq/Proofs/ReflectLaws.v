(* C18: laws about Model/Reflect.v -- on the family of types the reflection view and the
   JSON view coincide; outside it they differ. *)
From Coq Require Import List ZArith QArith String Bool Arith Lia.
From SMD Require Import Model.Value Model.Order Model.Reflect.
Import ListNotations.
Open Scope bool_scope.

(* ------------------------------------------------------------------------- *)
(* one-step unfoldings                                                        *)

Definition deref (t : gtype) (v : gval) : gtype * gval * bool :=
  match t, v with
  | GPtr t', GVPtr v' => (t', v', true)
  | _, _ => (t, v, false)
  end.

Definition slice_go (g : gval -> option value) : list gval -> option value :=
  fix go (l : list gval) : option value :=
    match l with
    | [] => Some (VList [])
    | x :: rest =>
        match g x, go rest with
        | Some y, Some (VList ys) => Some (VList (y :: ys))
        | _, _ => None
        end
    end.

Definition map_go (g : gval -> option value) : list (string * gval) -> option value :=
  fix go (kvs : list (string * gval)) : option value :=
    match kvs with
    | [] => Some (VMap [])
    | (k, x) :: rest =>
        match g x, go rest with
        | Some y, Some (VMap m) => Some (VMap (put k y m))
        | _, _ => None
        end
    end.

Definition core (strict : bool) (f : nat) (t1 : gtype) (v1 : gval) (derefd : bool)
  : option value :=
  match t1, v1 with
  | _, GVNil => Some VNull
  | GPtr t2, GVPtr v2 =>
      if strict && derefd then None
      else view strict f (GPtr t2) (GVPtr v2)
  | GIface, GVIface u =>
      if strict && derefd then None
      else Some u
  | GBool, GVBool b => Some (VBool b)
  | GInt, GVInt z => Some (VInt z)
  | GFloat, GVFloat q => Some (VFloat q)
  | GString, GVString s => Some (VStr s)
  | GBytes, GVBytes s => Some (VStr s)
  | GSlice te, GVSlice l => slice_go (view strict f te) l
  | GMap te, GVMap kvs => map_go (view strict f te) kvs
  | GStruct fs, GVStruct vs =>
      match struct_fields strict f fs vs with
      | Some m => Some (VMap m)
      | None => None
      end
  | _, _ => None
  end.

Lemma view_S : forall strict f t v,
  view strict (S f) t v =
  let '(t1, v1, d) := deref t v in core strict f t1 v1 d.
Proof. reflexivity. Qed.

Definition inline_step (strict : bool) (f : nat) (fd : gfield) (fv : gval)
  (rest : list (string * value)) : option (list (string * value)) :=
  match gf_type fd, fv with
  | GStruct ifs, GVStruct ivs =>
      match struct_fields strict f ifs ivs with
      | Some inner => Some (fold_right (fun kv acc => put (fst kv) (snd kv) acc) rest inner)
      | None => None
      end
  | GPtr (GStruct ifs), GVPtr (GVStruct ivs) =>
      match struct_fields strict f ifs ivs with
      | Some inner => Some (fold_right (fun kv acc => put (fst kv) (snd kv) acc) rest inner)
      | None => None
      end
  | GPtr (GStruct _), GVNil => Some rest
  | _, _ => Some rest
  end.

Lemma struct_fields_S : forall strict f fs vs,
  struct_fields strict (S f) fs vs =
  match fs, vs with
  | [], _ => Some []
  | _ :: _, [] => None
  | fd :: fs', fv :: vs' =>
      match struct_fields strict f fs' vs' with
      | None => None
      | Some rest =>
          if gf_skip fd then Some rest
          else if gf_inline fd then inline_step strict f fd fv rest
          else if can_omit fd fv then Some rest
          else
            match view strict f (gf_type fd) fv with
            | Some y => Some (put (gf_jsonname fd) y rest)
            | None => None
            end
      end
  end.
Proof. reflexivity. Qed.

(* ------------------------------------------------------------------------- *)
(* the family                                                                 *)

Definition fam_field (n : nat) (fd : gfield) : bool :=
  gf_skip fd ||
  (if gf_inline fd then
     gf_embedded fd &&
     match gf_type fd with GStruct _ | GPtr (GStruct _) => true | _ => false end
   else negb (gf_embedded fd)) &&
  family_t n (gf_type fd).

Lemma family_struct : forall n fs,
  family_t (S n) (GStruct fs) = forallb (fam_field n) fs.
Proof. reflexivity. Qed.

Lemma family_0 : forall t, family_t 0 t = false.
Proof. reflexivity. Qed.

Lemma family_ptr_ptr : forall n t, family_t n (GPtr (GPtr t)) = false.
Proof. intros n t. destruct n as [|n]; reflexivity. Qed.

Lemma family_ptr_iface : forall n, family_t n (GPtr GIface) = false.
Proof. intros n. destruct n as [|n]; reflexivity. Qed.

(* a pointer in the family points to a family member that is neither a pointer nor an
   interface *)
Lemma family_ptr_inv : forall n t,
  family_t n (GPtr t) = true ->
  exists n', n = S n' /\ family_t n' t = true /\
             (forall t2, t <> GPtr t2) /\ t <> GIface.
Proof.
  intros n t H.
  destruct n as [|n']; [discriminate H|].
  exists n'. split; [reflexivity|].
  destruct t; simpl in H; try discriminate H;
    (split; [exact H | split; [intros t2 E; discriminate E | intros E; discriminate E]]).
Qed.

Lemma family_slice_inv : forall n t,
  family_t n (GSlice t) = true -> exists n', family_t n' t = true.
Proof.
  intros n t H. destruct n as [|n']; [discriminate H|]. exists n'. exact H.
Qed.

Lemma family_map_inv : forall n t,
  family_t n (GMap t) = true -> exists n', family_t n' t = true.
Proof.
  intros n t H. destruct n as [|n']; [discriminate H|]. exists n'. exact H.
Qed.

Lemma family_struct_inv : forall n fs,
  family_t n (GStruct fs) = true -> exists n', forallb (fam_field n') fs = true.
Proof.
  intros n fs H. destruct n as [|n']; [discriminate H|]. exists n'.
  rewrite <- family_struct. exact H.
Qed.

(* ------------------------------------------------------------------------- *)
(* the inner loops                                                            *)

Lemma slice_go_ext : forall g1 g2,
  (forall x, g1 x = g2 x) -> forall l, slice_go g1 l = slice_go g2 l.
Proof.
  intros g1 g2 Hg l. induction l as [|x rest IHl]; [reflexivity|].
  simpl. rewrite Hg, IHl. reflexivity.
Qed.

Lemma map_go_ext : forall g1 g2,
  (forall x, g1 x = g2 x) -> forall l, map_go g1 l = map_go g2 l.
Proof.
  intros g1 g2 Hg l. induction l as [|[k x] rest IHl]; [reflexivity|].
  simpl. rewrite Hg, IHl. reflexivity.
Qed.

(* ------------------------------------------------------------------------- *)
(* the induction                                                              *)

Definition agree_v (f : nat) : Prop :=
  forall n t v, family_t n t = true -> view true f t v = view false f t v.

Definition agree_s (f : nat) : Prop :=
  forall n fs vs, forallb (fam_field n) fs = true ->
                  struct_fields true f fs vs = struct_fields false f fs vs.

Lemma core_agree : forall f,
  agree_v f -> agree_s f ->
  forall n t1 v1 d,
    family_t n t1 = true ->
    (d = true -> (forall t2, t1 <> GPtr t2) /\ t1 <> GIface) ->
    core true f t1 v1 d = core false f t1 v1 d.
Proof.
  intros f IHv IHs n t1 v1 d Hfam Hd.
  destruct t1 as [ | | | | | t2 | te | te | | fs];
    destruct v1 as [b | z | q | s | s | | v2 | l | kvs | u | vs];
    try reflexivity.
  - (* GPtr t2, GVPtr v2 *)
    unfold core. destruct d.
    + destruct (Hd eq_refl) as [Hnp _]. exfalso. apply (Hnp t2). reflexivity.
    + simpl. apply (IHv n). exact Hfam.
  - (* GSlice *)
    unfold core. destruct (family_slice_inv _ _ Hfam) as [n' Hn'].
    apply slice_go_ext. intros x. apply (IHv n'). exact Hn'.
  - (* GMap *)
    unfold core. destruct (family_map_inv _ _ Hfam) as [n' Hn'].
    apply map_go_ext. intros x. apply (IHv n'). exact Hn'.
  - (* GIface, GVIface *)
    unfold core. destruct d.
    + destruct (Hd eq_refl) as [_ Hni]. exfalso. apply Hni. reflexivity.
    + reflexivity.
  - (* GStruct *)
    unfold core. destruct (family_struct_inv _ _ Hfam) as [n' Hn'].
    rewrite (IHs n' fs vs Hn'). reflexivity.
Qed.

Lemma view_step : forall f, agree_v f -> agree_s f -> agree_v (S f).
Proof.
  intros f IHv IHs n t v Hfam.
  rewrite !view_S.
  assert (Hgen : forall d, d = false ->
            core true f t v d = core false f t v d).
  { intros d Hd. apply (core_agree f IHv IHs n); [exact Hfam|].
    intros Hd'. rewrite Hd in Hd'. discriminate Hd'. }
  destruct t as [ | | | | | t' | te | te | | fs];
    try (destruct v; exact (Hgen false eq_refl)).
  (* t = GPtr t' *)
  destruct v as [b | z | q | s | s | | v' | l | kvs | u | vs];
    try exact (Hgen false eq_refl).
  simpl.
  destruct (family_ptr_inv _ _ Hfam) as [n' [_ [Hn' [Hnp Hni]]]].
  apply (core_agree f IHv IHs n'); [exact Hn'|].
  intros _. split; assumption.
Qed.

Lemma inline_agree : forall f, agree_s f ->
  forall n fd fv rest,
    family_t n (gf_type fd) = true ->
    inline_step true f fd fv rest = inline_step false f fd fv rest.
Proof.
  intros f IHs n fd fv rest Hfam.
  unfold inline_step.
  destruct (gf_type fd) as [ | | | | | t' | te | te | | ifs] eqn:Ety;
    try reflexivity.
  - (* GPtr t' *)
    destruct t' as [ | | | | | t2 | te | te | | ifs]; try reflexivity.
    destruct fv as [b | z | q | s | s | | v' | l | kvs | u | vs]; try reflexivity.
    destruct v' as [b | z | q | s | s | | v2 | l | kvs | u | ivs]; try reflexivity.
    destruct (family_ptr_inv _ _ Hfam) as [n' [_ [Hn' _]]].
    destruct (family_struct_inv _ _ Hn') as [n2 Hn2].
    rewrite (IHs n2 ifs ivs Hn2). reflexivity.
  - (* GStruct ifs *)
    destruct fv as [b | z | q | s | s | | v' | l | kvs | u | ivs]; try reflexivity.
    destruct (family_struct_inv _ _ Hfam) as [n2 Hn2].
    rewrite (IHs n2 ifs ivs Hn2). reflexivity.
Qed.

Lemma struct_step : forall f, agree_v f -> agree_s f -> agree_s (S f).
Proof.
  intros f IHv IHs n fs vs Hall.
  rewrite !struct_fields_S.
  destruct fs as [|fd fs']; [reflexivity|].
  destruct vs as [|fv vs']; [reflexivity|].
  simpl in Hall. apply andb_true_iff in Hall. destruct Hall as [Hfd Hrest].
  rewrite (IHs n fs' vs' Hrest).
  destruct (struct_fields false f fs' vs') as [rest|]; [|reflexivity].
  destruct (gf_skip fd) eqn:Eskip; [reflexivity|].
  unfold fam_field in Hfd. rewrite Eskip in Hfd. simpl in Hfd.
  apply andb_true_iff in Hfd. destruct Hfd as [_ Hty].
  destruct (gf_inline fd) eqn:Einl.
  - apply (inline_agree f IHs n). exact Hty.
  - destruct (can_omit fd fv); [reflexivity|].
    rewrite (IHv n (gf_type fd) fv Hty). reflexivity.
Qed.

Lemma agree_both : forall f, agree_v f /\ agree_s f.
Proof.
  induction f as [|f [IHv IHs]].
  - split.
    + intros n t v _. reflexivity.
    + intros n fs vs _. reflexivity.
  - split.
    + apply view_step; assumption.
    + apply struct_step; assumption.
Qed.

(* ------------------------------------------------------------------------- *)
(* the delivered statements                                                   *)

(* on the family (single pointers to non-pointer, non-interface types; inline only on
   embedded structs or pointers to them) SMD's reflection view and the JSON view coincide,
   for every value and every amount of fuel: in particular neither panics unless both do *)
Theorem views_agree : forall n t fuel v,
  family_t n t = true -> view true fuel t v = view false fuel t v.
Proof.
  intros n t fuel v H.
  destruct (agree_both fuel) as [Hv _].
  apply (Hv n). exact H.
Qed.

Theorem reflect_view_is_json_view : forall n t v,
  family_t n t = true -> reflect_view t v = json_view t v.
Proof.
  intros n t v H. unfold reflect_view, json_view.
  apply (views_agree n). exact H.
Qed.

(* outside the family they differ: a pointer to a pointer panics in SMD's view only *)
Theorem double_pointer_differs :
  reflect_view (GPtr (GPtr GInt)) (GVPtr (GVPtr (GVInt 1))) = None /\
  json_view (GPtr (GPtr GInt)) (GVPtr (GVPtr (GVInt 1))) = Some (VInt 1).
Proof. vm_compute. split; reflexivity. Qed.

