(* C02, "every field owned by another manager keeps its value unless the configuration
   itself sets it": the step theorem, in a Section whose hypotheses are those of
   Proofs/OthersKeep_statements.v plus [anc_shared] (Proofs/AncSharedDef.v).
   Assembled into the final statements in Proofs/OthersKeep.v. *)
From Coq Require Import List ZArith String Bool Arith Lia.
From SMD Require Import Model.Value Model.Order Model.PathElem Model.PathSet Model.Schema Model.Walk
  Model.Validate Model.FieldSet Model.Remove Model.Merge Model.Compare Model.Matcher Model.Reconcile
  Model.Updater
  Spec.PathsAsSets Spec.RefValid Spec.Resolve Spec.Agree Spec.RefDiff Spec.Examples
  Proofs.OrderLaws Proofs.PathSetLaws Proofs.SchemaOk Proofs.FieldSetBase Proofs.FieldSetPaths
  Proofs.FieldSetWf Proofs.FieldSetLaws Proofs.RemoveAbsent Proofs.RemoveWf Proofs.ResolveLaws
  Proofs.UpdaterLaws Proofs.UpdaterLaws2 Proofs.MergeLaws Proofs.MergeAgree
  Proofs.RemoveFrame Proofs.EnLaws Proofs.NodeSet Proofs.KeyFields Proofs.VeqbResolve
  Proofs.SetCheckers Proofs.ApplyEffect Proofs.RefDiffBoth Proofs.RefDiffLaws Proofs.RefDiffPresent
  Proofs.ApplyInv Proofs.History
  Proofs.RemoveMono Proofs.TreeFacts Proofs.MergeKeeps Proofs.PruneShape Proofs.ApplyPruneBase
  Proofs.ApplyPrune Proofs.RefDiffChar Proofs.MergeThru Proofs.AncSharedDef Proofs.OthersKeepPass.
Import ListNotations.
Open Scope bool_scope.
Open Scope list_scope.

Local Arguments ps_has : simpl never.
Local Arguments ps_with_prefix : simpl never.
Local Arguments ps_empty : simpl never.

(* the closure is monotone *)
Lemma en_sub : forall s tr A B p, ps_ok A = true -> ps_ok B = true ->
  (forall q, wf_path q = true -> ps_has q A = true -> ps_has q B = true) ->
  wf_path p = true -> ps_has p (ps_en s tr A) = true -> ps_has p (ps_en s tr B) = true.
Proof.
  intros s tr A B p HA HB Hsub Hp H.
  pose proof (has_nonnil _ _ H) as Hne.
  apply (en_has_iff s p tr A HA Hp Hne) in H. apply (en_has_iff s p tr B HB Hp Hne).
  destruct H as [H|(pre & n & E & Hn & r & Hrne & Hr & Hh)].
  - left. apply Hsub; assumption.
  - right. exists pre, n. split; [exact E|]. split; [exact Hn|]. exists r.
    split; [exact Hrne|]. split; [exact Hr|]. apply Hsub; [|exact Hh].
    apply ReconcileBase.wf_path_app. auto.
Qed.

(* ================= what the hypothesis on the nodes of the configuration gives ================= *)
Section CfgNodes.
  Variables (s : schema) (R : typeref -> Prop) (tr : typeref).
  Hypothesis Hok : schema_ok s R.
  Hypothesis Htr : R tr.
  Variable cfg : value.
  Hypothesis Hwc : wf_value cfg = true.

  (* the configuration says nothing at or beneath p, and what it has above p is interior *)
  Definition silent_about (p : path) : Prop :=
    forall q, In q (map fst (nodes s tr cfg)) ->
      is_prefix p q = false /\
      (is_prefix q p = true ->
       exists trq y, resolve_path s tr cfg q = Some (RNode trq y) /\ ~ leafy s trq y).

  Lemma silent_interior : forall p, wf_path p = true -> p <> [] -> granular s tr cfg ->
    silent_about p ->
    (forall j, j < List.length p -> interior_or_absent s tr cfg (firstn j p)) /\
    resolve_path s tr cfg p = None.
  Proof.
    intros p Hp Hne Hgr Hsil. split.
    - intros j Hj. unfold interior_or_absent. destruct j as [|j].
      { simpl. exact Hgr. }
      set (q' := firstn (S j) p).
      assert (Hq' : wf_path q' = true) by (apply ReconcileBase.wf_path_firstn; exact Hp).
      assert (Hne' : q' <> []).
      { unfold q'. destruct p; [congruence|discriminate]. }
      destruct (resolve_path s tr cfg q') as [nd|] eqn:E; [|exact I].
      assert (Hpr : present s tr cfg q' = true) by (unfold present; rewrite E; reflexivity).
      destruct (nodes_cov s R Hok (S (vdepth cfg)) cfg tr [] q' Htr Hwc (Nat.lt_succ_diag_r _) Hq' Hne' Hpr)
        as (q2 & Heq & Hin).
      cbn [app] in Hin. fold (nodes s tr cfg) in Hin.
      assert (Hq2 : wf_path q2 = true).
      { apply in_map_iff in Hin. destruct Hin as ([q2' b] & E2 & Hin). simpl in E2. subst q2'.
        apply (nodes_sound s R Hok cfg tr q2 b Htr Hwc Hin). }
      destruct (Hsil q2 Hin) as [_ H2].
      assert (Hpre : is_prefix q2 p = true).
      { rewrite <- (is_prefix_cong_l q' q2 p Hq' Hq2 Hp Heq). apply is_prefix_firstn. exact Hp. }
      destruct (H2 Hpre) as (trq & y & Hr2 & Hnl).
      rewrite (resolve_patheqb s R Hok q' q2 Heq Hq' Hq2 cfg tr Htr Hwc), Hr2 in E.
      inversion E; subst nd.
      destruct (leafy_or_granular s trq y) as [Hl|Hg]; [contradiction|exact Hg].
    - pose proof (no_node_beneath s R tr Hok Htr cfg Hwc p Hp Hne (fun q Hin => proj1 (Hsil q Hin)) [] eq_refl) as H.
      rewrite app_nil_r in H. exact H.
  Qed.
End CfgNodes.

(* ================= the step ================= *)
Section Step.
  Variables (c : config) (R : typeref -> Prop) (ver : string) (live : value) (mf : managed)
            (mgr : string) (cfg : value) (force : bool) (o : option tv) (mf' : managed)
            (m : string) (r : mrec) (p : path) (tr' : typeref) (x : value).
  Let s := schema_of c ver.
  Let tr := tr_of c ver.
  Hypothesis Hset : setting_ok c R ver.
  Hypothesis Hst : state_ok c ver live mf.
  Hypothesis Hanc : anc_shared s tr mf.
  Hypothesis Hop : op_ok c ver (HApply mgr cfg force).
  Hypothesis Happly : apply_op c (ver, live) (ver, cfg) ver mf mgr force = UOk (o, mf').
  Hypothesis Hm : m <> mgr.
  Hypothesis Hget : mf_get m mf = Some r.
  Hypothesis Hp : wf_path p = true.
  Hypothesis Hpr : ps_has p (mr_set r) = true.
  Hypothesis Hsil : silent_about s tr cfg p.
  Hypothesis Hres : resolve_path s tr live p = Some (RNode tr' x).
  Hypothesis Hleaf : leafy s tr' x.
  Hypothesis Hxne : x <> VList [].

  Let res : value := match o with Some t => snd t | None => live end.

  Theorem keeps_others_fields :
    (exists y, resolve_path s tr res p = Some (RNode tr' y) /\ veqb x y = true)
    \/
    (exists q last, wf_path q = true /\ is_prefix q p = true /\ q <> p /\ mf_get mgr mf = Some last /\
                    ps_has q (ps_en s tr (mr_set last)) = true /\
                    present s tr res q = false).
  Proof.
    pose proof (state_ok_conforms c ver live mf _ Hst Hop) as Hcl. fold s tr in Hcl.
    pose proof Hset as (Hni & Hcid & Hok & Hfam & Hpure & Htr & Hkp).
    fold s tr in Hok, Hfam, Hpure, Htr, Hkp.
    pose proof Hkp as [Hnd Hks].
    pose proof Hop as (Hwc & Hcc & Hpl & Hgr). fold s tr in Hcc, Hgr.
    pose proof (so_wf c ver live mf Hst) as Hwl. pose proof (so_mf c ver live mf Hst) as Hmf.
    pose proof (so_single c ver live mf Hst) as Hsv. pose proof (so_current c ver live mf Hst) as Hcur.
    pose proof (so_present c ver live mf Hst) as Hown. fold s tr in Hown.
    assert (Hothers : forall m0 r0, m0 <> mgr -> mf_get m0 mf = Some r0 -> owns_live_keys s tr live (mr_set r0)).
    { intros m0 r0 _ Hg. apply (so_records c ver live mf Hst m0 r0 Hg). }
    assert (Hpne : p <> []) by (apply (has_nonnil _ _ Hpr)).
    destruct (resolve_sub s R Hok Hfam p live tr true tr' x Htr Hwl Hcl Hp Hres) as (Htr' & Hwx & Hcx).
    assert (Hleafb : rnode_is_leaf s (RNode tr' x) = true).
    { simpl. unfold leafy in Hleaf. destruct (kind_of s tr' x); try contradiction; reflexivity. }
    (* the "no change" answer: the result is the live object *)
    unfold res. destruct o as [t|].
    2:{ left. exists x. split; [exact Hres|apply veqb_refl; exact Hwx]. }
    destruct (run_setup c R ver live cfg mf mgr force (Some t) mf' Hni Hcid Hok Hfam Htr Hsv Hmf Hcur
                Hwl Hwc Hcl Hcc Happly)
      as (M & set0 & n0 & pruned & n1 & Em & Eset0 & HwM & HcM & Hlf & Eprune & Ho).
    fold s tr in Em, Eset0, HcM, Hlf.
    destruct Ho as [[Ho _]|Ho]; [discriminate|]. inversion Ho; subst t. clear Ho. cbn [snd].
    (* the merged object has at p what the live object has *)
    destruct (silent_interior s R tr Hok Htr cfg Hwc p Hp Hpne Hgr Hsil) as [Hint Hnone].
    pose proof (merge_keeps_thru s R Hok Hfam Hpure tr live cfg M p (RNode tr' x) Htr Hwl Hwc Hcl Hcc Hpl Em
                  Hp Hint Hnone Hres) as HresM.
    assert (Hsame : forall P, P = M ->
              exists y, resolve_path s tr P p = Some (RNode tr' y) /\ veqb x y = true).
    { intros P ->. exists x. split; [exact HresM|apply veqb_refl; exact Hwx]. }
    destruct (mf_get mgr mf) as [last|] eqn:Hlast.
    2:{ left. apply Hsame. unfold prune in Eprune. inversion Eprune. reflexivity. }
    destruct (ps_empty (mr_set last)) eqn:Hlne.
    1:{ left. apply Hsame. unfold prune in Eprune. rewrite Hlne in Eprune. inversion Eprune. reflexivity. }
    assert (Hset0ok : ps_ok set0 = true) by (apply (to_field_set_ok s R tr cfg set0 Hok Htr Hwc Eset0)).
    destruct (managers_sets s tr ver live mf mgr set0 Hsv Hmf Hset0ok Hothers)
      as (HU & HUcfg & HUown & Hmav & Htarget & _).
    set (mfp := mf_set mgr {| mr_set := set0; mr_ver := ver; mr_applied := true |} mf) in *.
    set (U := union_all mfp ps_empty_set) in *.
    assert (Hlv : mr_ver last = ver).
    { apply String.eqb_eq. apply (single_version_get ver mf mgr last Hsv Hlast). }
    pose proof (mf_ok_get mf mgr last Hmf Hlast) as Hlok.
    pose proof (mf_ok_get mf m r Hmf Hget) as Hrok.
    assert (Hlrec : applier_record_ok s tr (mr_set last)).
    { apply (so_records c ver live mf Hst mgr last Hlast). }
    destruct (prune_shape_pass s R tr Hok Hfam Htr Hnd Hks live cfg M Hwc Hcc Hpl HwM HcM Hlf set0 U Eset0 HU
                HUcfg HUown c ver Hcid eq_refl eq_refl n0 mfp mgr last pruned n1
                Hmav Htarget Hlv Hlok Hlrec Hlne Eprune) as (T0 & Hn0 & Hpruned).
    destruct (pass_set s R tr Hok Hfam Htr Hnd Hks live cfg M Hwc Hcc Hpl HwM HcM Hlf set0 U Eset0 HU
                HUcfg HUown T0 Hn0) as (HokT1 & HhasT1 & Hn1).
    set (T1 := pass_T s tr M U T0) in *.
    destruct (dangling_set s R tr Hok Hfam Htr Hnd Hks M HwM HcM T1 (mr_set last) Hn1 Hlok (proj1 Hlrec))
      as (HokT2 & HhasT2 & HnT2).
    set (T2 := dangling_T s tr M T1 (mr_set last)) in *.
    destruct (removed_obj s R tr Hok Hfam Htr Hnd M HwM HcM T1 Hn1) as [HwP1 HcP1].
    subst pruned. cbn [snd].
    (* the record of m is part of U *)
    assert (HrU : forall q, wf_path q = true -> ps_has q (mr_set r) = true -> ps_has q U = true).
    { intros q Hq Hqr.
      assert (Hmfp : mf_ok mfp) by (apply mf_set_ok; assumption).
      assert (Hokp : forall mr, In mr mfp -> ps_ok (mr_set (snd mr)) = true).
      { intros mr Hin. destruct Hmfp as [_ Hall]. rewrite forallb_forall in Hall. exact (Hall mr Hin). }
      destruct (union_all_spec mfp ps_empty_set ps_ok_empty Hokp) as [_ HhasU]. fold U in HhasU.
      rewrite (HhasU q Hq), ps_has_empty_set. cbn [orb]. apply existsb_exists.
      exists (m, r). split; [|exact Hqr]. apply assoc_get_in.
      change (mf_get m mfp = Some r). unfold mfp. rewrite (mf_get_set_other m mgr _ mf Hm). exact Hget. }
    assert (HpenU : ps_has p (ps_en s tr U) = true).
    { apply (en_has_mono s tr U p HU Hp). apply (HrU p Hp Hpr). }
    (* every non-empty prefix of p is a visible node of the merged object *)
    assert (HpNM : forall j, 1 <= j -> ps_has (firstn j p) (node_set s tr M) = true).
    { intros j Hj.
      apply (node_set_has s R Hok Hfam (firstn j p) (skipn j p) tr M tr' x Htr HwM HcM).
      - rewrite firstn_skipn. exact Hp.
      - apply firstn_nonnil; assumption.
      - rewrite firstn_skipn. exact HresM.
      - exact Hleaf.
      - exact Hxne. }
    assert (Hsp1 : sub_present s tr M T1).
    { intros q Hq Hq1. rewrite (HhasT1 q Hq) in Hq1. apply andb_true_iff in Hq1.
      apply (node_set_present s R Hok Hfam tr M q Htr HwM HcM Hq). apply Hq1. }
    assert (Hsp2 : sub_present s tr M T2).
    { intros q Hq Hq2. rewrite (HhasT2 q Hq) in Hq2. apply andb_true_iff in Hq2. destruct Hq2 as [Hq2 _].
      apply andb_true_iff in Hq2.
      apply (node_set_present s R Hok Hfam tr M q Htr HwM HcM Hq). apply Hq2. }
    destruct (touches p T2) eqn:Et.
    - (* some prefix of p is removed: a PROPER prefix is *)
      right.
      assert (Hq : exists j, 1 <= j < List.length p /\ ps_has (firstn j p) T2 = true).
      { apply (touches_iff p T2 HokT2 Hp) in Et. destruct Et as (j & Hj & Hmem).
        destruct (Nat.lt_ge_cases j (List.length p)) as [Hlt|Hge]; [exists j; split; [lia|exact Hmem]|].
        rewrite firstn_all2 in Hmem by exact Hge.
        rewrite (HhasT2 p Hp) in Hmem. apply andb_true_iff in Hmem. destruct Hmem as [Hmem HpL].
        apply andb_true_iff in Hmem. destruct Hmem as [_ HnotP1]. apply negb_true_iff in HnotP1.
        (* p is in the applier's previous record itself *)
        assert (Hplast : ps_has p (mr_set last) = true).
        { apply (en_has_iff s p tr _ Hlok Hp Hpne) in HpL.
          destruct HpL as [H|(pre & n & E & _ & r' & Hr'ne & Hr' & Hh)]; [exact H|]. exfalso.
          assert (Hpr' : wf_path (p ++ r') = true) by (apply ReconcileBase.wf_path_app; auto).
          pose proof (Hown mgr last (p ++ r') Hlast Hpr' Hh) as Hprs.
          unfold present in Hprs. rewrite resolve_path_app, Hres in Hprs.
          destruct r' as [|e0 r'']; [congruence|].
          rewrite resolve_path_leaf in Hprs; [discriminate|].
          unfold leafy in Hleaf. destruct (kind_of s tr' x); try contradiction; exact I. }
        (* the pass that precedes the dangling stage removed a prefix of p *)
        assert (Et1 : touches p T1 = true).
        { destruct (touches p T1) eqn:E; [reflexivity|]. exfalso.
          destruct (remove_keeps s R Hok Hfam Hnd p M tr true T1 (RNode tr' x) Htr HwM HcM Hn1 Hp Hpne HresM E)
            as (n' & Hn' & Hsm).
          rewrite (Hsm (or_introl Hsp1) Hleafb) in Hn'.
          assert (HinP1 : ps_has p (node_set s tr (remove s tr M T1)) = true).
          { apply (node_set_has s R Hok Hfam p [] tr _ tr' x Htr HwP1 HcP1); rewrite ?app_nil_r; auto. }
          rewrite HinP1 in HnotP1. discriminate. }
        apply (touches_iff p T1 HokT1 Hp) in Et1. destruct Et1 as (j1 & Hj1 & Hmem1).
        assert (Hlt1 : j1 < List.length p).
        { destruct (Nat.lt_ge_cases j1 (List.length p)) as [Hlt|Hge1]; [exact Hlt|]. exfalso.
          rewrite firstn_all2 in Hmem1 by exact Hge1.
          rewrite (HhasT1 p Hp), HpenU, orb_true_r, andb_false_r in Hmem1. discriminate. }
        exists j1. split; [lia|].
        set (q1 := firstn j1 p) in *.
        assert (Hq1 : wf_path q1 = true) by (apply ReconcileBase.wf_path_firstn; exact Hp).
        assert (Hq1ne : q1 <> []) by (apply firstn_nonnil; [lia|exact Hpne]).
        assert (Hr1ne : skipn j1 p <> []).
        { intros E. pose proof (firstn_skipn j1 p) as Hfs. rewrite E, app_nil_r in Hfs.
          pose proof (firstn_length_le p (Nat.lt_le_incl _ _ Hlt1)) as Hlen. rewrite Hfs in Hlen. lia. }
        pose proof Hmem1 as Hmem1'.
        rewrite (HhasT1 q1 Hq1) in Hmem1. apply andb_true_iff in Hmem1. destruct Hmem1 as [_ Hnot].
        apply negb_true_iff in Hnot. apply orb_false_iff in Hnot. destruct Hnot as [_ HnotU].
        rewrite (HhasT2 q1 Hq1).
        pose proof (HpNM j1 (proj1 Hj1)) as HqM. fold q1 in HqM. rewrite HqM. cbn [andb].
        (* q1 is absent from the object the pass built *)
        assert (HabsP1 : ps_has q1 (node_set s tr (remove s tr M T1)) = false).
        { destruct (ps_has q1 (node_set s tr (remove s tr M T1))) eqn:E; [|reflexivity].
          pose proof (node_set_present s R Hok Hfam tr _ q1 Htr HwP1 HcP1 Hq1 E) as Hprs.
          pose proof (remove_drops s R Hok Hfam Hnd q1 M tr true T1 Htr HwM HcM Hn1 Hq1
                        (touches_self q1 T1 HokT1 Hq1 Hmem1')) as Hdr.
          change (remove_items s false tr T1 M) with (remove s tr M T1) in Hdr.
          rewrite Hdr in Hprs. discriminate. }
        rewrite HabsP1. cbn [negb andb].
        (* of the two owners of p, the applier owns q1: the other manager's record is part of U *)
        assert (Hpeq : q1 ++ skipn j1 p = p) by (apply firstn_skipn).
        destruct (Hanc mgr m last r q1 (skipn j1 p) (fun E => Hm (eq_sym E)) Hlast Hget)
          as [H|H]; try (rewrite Hpeq); auto.
        rewrite (en_sub s tr (mr_set r) U q1 Hrok HU HrU Hq1 H) in HnotU. discriminate. }
      destruct Hq as (j & Hj & Hmem).
      set (q := firstn j p) in *.
      assert (Hq : wf_path q = true) by (apply ReconcileBase.wf_path_firstn; exact Hp).
      exists q, last. split; [exact Hq|]. split; [apply is_prefix_firstn; exact Hp|].
      split.
      { intros E. pose proof (firstn_length_le p (Nat.lt_le_incl _ _ (proj2 Hj))) as Hlen.
        fold q in Hlen. rewrite E in Hlen. lia. }
      split; [reflexivity|]. split.
      + rewrite (HhasT2 q Hq) in Hmem. apply andb_true_iff in Hmem. apply Hmem.
      + apply (remove_drops s R Hok Hfam Hnd q M tr true T2 Htr HwM HcM HnT2 Hq).
        apply (touches_self q T2 HokT2 Hq Hmem).
    - (* no prefix of p is removed *)
      left.
      destruct (remove_keeps s R Hok Hfam Hnd p M tr true T2 (RNode tr' x) Htr HwM HcM HnT2 Hp Hpne HresM Et)
        as (n' & Hn' & Hsm).
      rewrite (Hsm (or_introl Hsp2) Hleafb) in Hn'.
      exists x. split; [exact Hn'|apply veqb_refl; exact Hwx].
  Qed.
End Step.
