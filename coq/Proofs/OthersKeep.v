(* C02, "every field owned by another manager keeps its value unless the configuration
   itself sets it".  Setting of Proofs/History.v (one API version, identity converter, no
   ignore configuration).  Statement: Proofs/OthersKeep_statements.v.

   [apply_keeps_others_fields]  at a state satisfying the invariant [state_ok], after a
     successful apply by [mgr], a LEAF p (not an empty list) that another manager m owns and
     about which the configuration says nothing (no node of the configuration at or beneath
     p; its nodes above p are interior) is still there with an equal value -- or sits
     strictly beneath a path q of the closure of the applier's own previous record that is
     absent from the result ("a field owned by another manager inside an item that only the
     applier owns is removed with the item").

   !!! ONE DIFFERENCE from Proofs/OthersKeep_statements.v: the added hypothesis
         anc_shared (schema_of c ver) (tr_of c ver) mf           (Proofs/AncSharedDef.v)
       "of two managers that own the same field, at least one owns, in the closed sense of
       EnsureNamedFieldsAreMembers, each ancestor of the field".
       * The statement WITHOUT it is FALSE [apply_keeps_others_fields_as_stated_refuted]:
         [state_ok] allows the state  live = {items: [{name: x, vv: 1}]},  a owns
         items[x].vv,  b owns items[x].vv,  NOBODY owns the member items[x] (nor its key
         field).  When a applies {aa: 1} the first removal takes out items (the closure of
         a's record), the add-back pass finds the member items[x] neither in the pruned object
         nor in the closure of the union of the records and removes it, so b's field
         items[x].vv does not come back; the dangling stage then removes exactly items[x].vv
         (in a's closure, a visible node of the merged object, absent from the pruned one):
         result {aa: 1, items: [{name: x}]}.  b's field is gone, its record is dropped,
         and every proper prefix of the field is still there.
       * It is NOT a restriction on histories: it holds at every reachable state
         [Proofs/AncShared.v, anc_shared_reachable] -- two managers come to own the same
         field only when the later one APPLIES a configuration that spells the field out,
         and the field set of a configuration contains every list member and every map key
         above each of its members; an owner of a field and of one of its ancestors never
         loses the ancestor alone.  So the theorem along histories
         [apply_keeps_others_fields_along_histories] has NO extra hypothesis, and the state
         of the refutation is unreachable.
       Nothing else is changed: [same_root_kind] is not needed as a hypothesis ([setting_ok]
       contains [lists_pure]: a type with a granular list has no map, so the configuration and
       the live object cannot differ in kind at a node they share), and the conclusion is
       verbatim.  [apply_keeps_others_fields_wf] is the same theorem with "q is well formed"
       added to the second alternative (used by the examples).

   How the proof goes (Proofs/OthersKeepStep.v): the merged object M resolves p as the live
   object does [Proofs/MergeThru.v, merge_keeps_thru: the merge descends through the interior
   nodes of the configuration above p and copies where the configuration stops]; the result
   is  remove M T2  with  T2 = (nodes M \ nodes P1) n en(last)  and  P1 = remove M T1  the
   result of an add-back PASS,  T1 = nodes M \ (nodes P0 u en U)  [Proofs/OthersKeepPass.v,
   prune_shape_pass: the loop runs at least one pass].  If no prefix of p is in T2, p keeps
   its value [remove_keeps].  If a proper prefix is, that is the second alternative
   [remove_drops].  If p itself is in T2 then p is in the applier's record and p is not a
   node of P1; p is in en U (the other manager owns it), so p is not in T1, so a PROPER
   prefix q1 of p is in T1: q1 is not in en U, hence not in the closure of the other
   manager's record, hence -- [anc_shared] -- in the closure of the applier's record; q1 is
   absent from P1; so q1 is in T2: the second alternative again.

   Non-vacuity [others_field_survives], [others_field_goes_with_member]: a history over the
   example schema after which "b" owns the field vv of the list members x and y that "a"
   applied; "a" then applies a configuration with the member y only: the member x is pruned,
   (a) b's field items[y].vv is still there with its value 7 -- the sibling x was pruned --,
   (b) b's field items[x].vv went away with the member x, which only "a" owned: both BY THE
   THEOREM (along histories), the other alternative being refuted by evaluation. *)
From Coq Require Import List ZArith String Bool Arith Lia.
From SMD Require Import Model.Value Model.Order Model.PathElem Model.PathSet Model.Schema Model.Walk
  Model.Validate Model.FieldSet Model.Remove Model.Merge Model.Compare Model.Matcher Model.Reconcile
  Model.Updater
  Spec.PathsAsSets Spec.RefValid Spec.Resolve Spec.Agree Spec.RefDiff Spec.Examples
  Proofs.OrderLaws Proofs.PathSetLaws Proofs.SchemaOk Proofs.FieldSetBase Proofs.FieldSetPaths
  Proofs.FieldSetWf Proofs.FieldSetLaws Proofs.RemoveAbsent Proofs.RemoveWf Proofs.ResolveLaws
  Proofs.UpdaterLaws Proofs.UpdaterLaws2 Proofs.MergeLaws Proofs.MergeAgree
  Proofs.RemoveFrame Proofs.EnLaws Proofs.NodeSet Proofs.KeyFields Proofs.VeqbResolve
  Proofs.SetCheckers Proofs.ApplyEffect Proofs.RefDiffBoth Proofs.RefDiffLaws Proofs.RefDiffPresent
  Proofs.ApplyInv Proofs.History
  Proofs.ReconcileLaws Proofs.TreeFacts Proofs.ApplyPrune
  Proofs.AncSharedDef Proofs.AncShared Proofs.OthersKeepStep.
Import ListNotations.
Open Scope bool_scope.
Open Scope list_scope.

Local Arguments ps_has : simpl never.
Local Arguments ps_empty : simpl never.

(* ================= the step theorem ================= *)

(* the conclusion, with "q is well formed" in the second alternative *)
Theorem apply_keeps_others_fields_wf : forall c R ver live mf mgr cfg force o mf' m r p tr' x,
  setting_ok c R ver -> state_ok c ver live mf ->
  anc_shared (schema_of c ver) (tr_of c ver) mf ->
  op_ok c ver (HApply mgr cfg force) ->
  apply_op c (ver, live) (ver, cfg) ver mf mgr force = UOk (o, mf') ->
  m <> mgr -> mf_get m mf = Some r -> wf_path p = true -> ps_has p (mr_set r) = true ->
  (forall q, In q (map fst (nodes (schema_of c ver) (tr_of c ver) cfg)) ->
             is_prefix p q = false /\ (is_prefix q p = true ->
               exists trq y, resolve_path (schema_of c ver) (tr_of c ver) cfg q = Some (RNode trq y) /\
                             ~ leafy (schema_of c ver) trq y)) ->
  resolve_path (schema_of c ver) (tr_of c ver) live p = Some (RNode tr' x) ->
  leafy (schema_of c ver) tr' x -> x <> VList [] ->
  let res := match o with Some t => snd t | None => live end in
  (exists y, resolve_path (schema_of c ver) (tr_of c ver) res p = Some (RNode tr' y) /\ veqb x y = true)
  \/
  (exists q last, wf_path q = true /\ is_prefix q p = true /\ q <> p /\ mf_get mgr mf = Some last /\
                  ps_has q (ps_en (schema_of c ver) (tr_of c ver) (mr_set last)) = true /\
                  present (schema_of c ver) (tr_of c ver) res q = false).
Proof.
  intros c R ver live mf mgr cfg force o mf' m r p tr' x Hset Hst Hanc Hop Happly Hm Hget Hp Hpr Hsil
    Hres Hleaf Hxne res.
  apply (keeps_others_fields c R ver live mf mgr cfg force o mf' m r p tr' x Hset Hst Hanc Hop Happly
           Hm Hget Hp Hpr Hsil Hres Hleaf Hxne).
Qed.

(* the statement of Proofs/OthersKeep_statements.v, with the hypothesis [anc_shared] ADDED
   (third hypothesis): see the header, and [apply_keeps_others_fields_as_stated_refuted] *)
Theorem apply_keeps_others_fields : forall c R ver live mf mgr cfg force o mf' m r p tr' x,
  setting_ok c R ver -> state_ok c ver live mf ->
  anc_shared (schema_of c ver) (tr_of c ver) mf ->
  op_ok c ver (HApply mgr cfg force) ->
  apply_op c (ver, live) (ver, cfg) ver mf mgr force = UOk (o, mf') ->
  m <> mgr -> mf_get m mf = Some r -> wf_path p = true -> ps_has p (mr_set r) = true ->
  (* the configuration says nothing at, above as a leaf, or beneath p *)
  (forall q, In q (map fst (nodes (schema_of c ver) (tr_of c ver) cfg)) ->
             is_prefix p q = false /\ (is_prefix q p = true ->
               exists trq y, resolve_path (schema_of c ver) (tr_of c ver) cfg q = Some (RNode trq y) /\
                             ~ leafy (schema_of c ver) trq y)) ->
  resolve_path (schema_of c ver) (tr_of c ver) live p = Some (RNode tr' x) ->
  leafy (schema_of c ver) tr' x -> x <> VList [] ->
  let res := match o with Some t => snd t | None => live end in
  (exists y, resolve_path (schema_of c ver) (tr_of c ver) res p = Some (RNode tr' y) /\ veqb x y = true)
  \/
  (exists q last, is_prefix q p = true /\ q <> p /\ mf_get mgr mf = Some last /\
                  ps_has q (ps_en (schema_of c ver) (tr_of c ver) (mr_set last)) = true /\
                  present (schema_of c ver) (tr_of c ver) res q = false).
Proof.
  intros c R ver live mf mgr cfg force o mf' m r p tr' x Hset Hst Hanc Hop Happly Hm Hget Hp Hpr Hsil
    Hres Hleaf Hxne res.
  destruct (apply_keeps_others_fields_wf c R ver live mf mgr cfg force o mf' m r p tr' x Hset Hst Hanc Hop
              Happly Hm Hget Hp Hpr Hsil Hres Hleaf Hxne) as [H|(q & last & _ & H)].
  - left. exact H.
  - right. exists q, last. exact H.
Qed.

(* ================= along histories: no extra hypothesis ================= *)

Theorem apply_keeps_others_fields_along_histories_wf : forall c R ver ops mgr cfg force o mf' m r p tr' x,
  setting_ok c R ver -> Forall (op_ok c ver) ops -> op_ok c ver (HApply mgr cfg force) ->
  apply_op c (ver, fst (run c ver ops)) (ver, cfg) ver (snd (run c ver ops)) mgr force = UOk (o, mf') ->
  m <> mgr -> mf_get m (snd (run c ver ops)) = Some r -> wf_path p = true -> ps_has p (mr_set r) = true ->
  (forall q, In q (map fst (nodes (schema_of c ver) (tr_of c ver) cfg)) ->
             is_prefix p q = false /\ (is_prefix q p = true ->
               exists trq y, resolve_path (schema_of c ver) (tr_of c ver) cfg q = Some (RNode trq y) /\
                             ~ leafy (schema_of c ver) trq y)) ->
  resolve_path (schema_of c ver) (tr_of c ver) (fst (run c ver ops)) p = Some (RNode tr' x) ->
  leafy (schema_of c ver) tr' x -> x <> VList [] ->
  let res := match o with Some t => snd t | None => fst (run c ver ops) end in
  (exists y, resolve_path (schema_of c ver) (tr_of c ver) res p = Some (RNode tr' y) /\ veqb x y = true)
  \/
  (exists q last, wf_path q = true /\ is_prefix q p = true /\ q <> p /\
                  mf_get mgr (snd (run c ver ops)) = Some last /\
                  ps_has q (ps_en (schema_of c ver) (tr_of c ver) (mr_set last)) = true /\
                  present (schema_of c ver) (tr_of c ver) res q = false).
Proof.
  intros c R ver ops mgr cfg force o mf' m r p tr' x Hset Hall Hop Happly Hm Hget Hp Hpr Hsil Hres Hleaf Hxne.
  apply (apply_keeps_others_fields_wf c R ver (fst (run c ver ops)) (snd (run c ver ops)) mgr cfg force o mf'
           m r p tr' x Hset (reachable_states_ok c R ver ops Hset Hall)
           (anc_shared_reachable c R ver ops Hset Hall) Hop Happly Hm Hget Hp Hpr Hsil Hres Hleaf Hxne).
Qed.

(* C02 at every reachable state, in the form of Proofs/OthersKeep_statements.v *)
Theorem apply_keeps_others_fields_along_histories : forall c R ver ops mgr cfg force o mf' m r p tr' x,
  setting_ok c R ver -> Forall (op_ok c ver) ops -> op_ok c ver (HApply mgr cfg force) ->
  apply_op c (ver, fst (run c ver ops)) (ver, cfg) ver (snd (run c ver ops)) mgr force = UOk (o, mf') ->
  m <> mgr -> mf_get m (snd (run c ver ops)) = Some r -> wf_path p = true -> ps_has p (mr_set r) = true ->
  (forall q, In q (map fst (nodes (schema_of c ver) (tr_of c ver) cfg)) ->
             is_prefix p q = false /\ (is_prefix q p = true ->
               exists trq y, resolve_path (schema_of c ver) (tr_of c ver) cfg q = Some (RNode trq y) /\
                             ~ leafy (schema_of c ver) trq y)) ->
  resolve_path (schema_of c ver) (tr_of c ver) (fst (run c ver ops)) p = Some (RNode tr' x) ->
  leafy (schema_of c ver) tr' x -> x <> VList [] ->
  let res := match o with Some t => snd t | None => fst (run c ver ops) end in
  (exists y, resolve_path (schema_of c ver) (tr_of c ver) res p = Some (RNode tr' y) /\ veqb x y = true)
  \/
  (exists q last, is_prefix q p = true /\ q <> p /\ mf_get mgr (snd (run c ver ops)) = Some last /\
                  ps_has q (ps_en (schema_of c ver) (tr_of c ver) (mr_set last)) = true /\
                  present (schema_of c ver) (tr_of c ver) res q = false).
Proof.
  intros c R ver ops mgr cfg force o mf' m r p tr' x Hset Hall Hop Happly Hm Hget Hp Hpr Hsil Hres Hleaf Hxne res.
  destruct (apply_keeps_others_fields_along_histories_wf c R ver ops mgr cfg force o mf' m r p tr' x Hset Hall
              Hop Happly Hm Hget Hp Hpr Hsil Hres Hleaf Hxne) as [H|(q & last & _ & H)].
  - left. exact H.
  - right. exists q, last. exact H.
Qed.

(* ================= presence along [is_prefix] ================= *)

Lemma is_prefix_patheqb_firstn : forall q p, is_prefix q p = true ->
  patheqb q (firstn (List.length q) p) = true.
Proof.
  induction q as [|a q IH]; intros [|b p] H; simpl in H; try discriminate; try reflexivity.
  apply andb_true_iff in H. destruct H as [Hab Hqp]. simpl. rewrite Hab, (IH p Hqp). reflexivity.
Qed.

Lemma present_of_prefix : forall s R, schema_ok s R -> forall tr v q p, R tr -> wf_value v = true ->
  wf_path q = true -> wf_path p = true -> is_prefix q p = true ->
  present s tr v p = true -> present s tr v q = true.
Proof.
  intros s R Hok tr v q p Htr Hwv Hq Hp Hpre Hpr.
  rewrite (present_patheqb s R Hok q (firstn (List.length q) p) (is_prefix_patheqb_firstn q p Hpre) Hq
             (ReconcileBase.wf_path_firstn _ p Hp) v tr Htr Hwv).
  apply (present_prefix s tr v (firstn (List.length q) p) (skipn (List.length q) p)).
  rewrite firstn_skipn. exact Hpr.
Qed.

(* ================= non-vacuity ================= *)

(* "a" applies aa and the list members x and y; "b" updates the field vv of both members
   (and so takes these two fields over from "a", which keeps the members and their keys).
   Then "a" applies a configuration that has the member y only. *)
Section Example.
  Open Scope string_scope.
  Let F := PEField.
  Let K (n : string) := PEKey [("name", VStr n)].
  Let item (n : string) (v : Z) := VMap [("name", VStr n); ("vv", VInt v)].
  Let itemn (n : string) := VMap [("name", VStr n)].

  Definition okx_ops : list hop :=
    [ HApply "a" (VMap [("aa", VInt 1); ("items", VList [item "x" 1; item "y" 2])]) false;
      HUpdate "b" (VMap [("aa", VInt 1); ("items", VList [item "x" 5; item "y" 7])]) ].

  Definition okx_obj : value := VMap [("aa", VInt 1); ("items", VList [item "x" 5; item "y" 7])].
  Definition okx_set_a : pset :=
    ps_of_paths [[F "aa"]; [F "items"; K "x"]; [F "items"; K "x"; F "name"];
                 [F "items"; K "y"]; [F "items"; K "y"; F "name"]].
  Definition okx_set_b : pset := ps_of_paths [[F "items"; K "x"; F "vv"]; [F "items"; K "y"; F "vv"]].
  Definition okx_mf : managed := [("a", mkRec okx_set_a "v1" true); ("b", mkRec okx_set_b "v1" false)].

  Definition okx_cfg : value := VMap [("items", VList [itemn "y"])].
  Definition okx_res : value := VMap [("items", VList [item "y" 7])].

  Lemma okx_ops_ok : Forall (op_ok ex_config "v1") okx_ops.
  Proof. repeat constructor; try (vm_compute; reflexivity); vm_compute; exact I. Qed.

  Lemma okx_cfg_ok : op_ok ex_config "v1" (HApply "a" okx_cfg false).
  Proof. repeat split; try (vm_compute; reflexivity); vm_compute; exact I. Qed.

  Lemma okx_run : run ex_config "v1" okx_ops = (okx_obj, okx_mf).
  Proof. vm_compute. reflexivity. Qed.

  (* the apply succeeds: the member x is pruned *)
  Lemma okx_apply : exists mf',
    apply_op ex_config ("v1", okx_obj) ("v1", okx_cfg) "v1" okx_mf "a" false = UOk (Some ("v1", okx_res), mf').
  Proof. eexists. vm_compute. reflexivity. Qed.

  (* the configuration says nothing about the field vv of either member *)
  Lemma okx_silent : forall n, n = "x" \/ n = "y" ->
    forall q, In q (map fst (nodes (schema_of ex_config "v1") (tr_of ex_config "v1") okx_cfg)) ->
      is_prefix [F "items"; K n; F "vv"] q = false /\
      (is_prefix q [F "items"; K n; F "vv"] = true ->
       exists trq y, resolve_path (schema_of ex_config "v1") (tr_of ex_config "v1") okx_cfg q = Some (RNode trq y) /\
                     ~ leafy (schema_of ex_config "v1") trq y).
  Proof.
    intros n Hn q Hq. vm_compute in Hq.
    destruct Hn as [-> | ->]; destruct Hq as [<-|[<-|[<-|[]]]];
      (split; [vm_compute; reflexivity|]); intros Hpre;
      first [ vm_compute in Hpre; discriminate Hpre
            | eexists; eexists; split; [vm_compute; reflexivity|vm_compute; intros HF; exact HF] ].
  Qed.

  (* the theorem along histories, at this state *)
  Lemma okx_theorem : forall n v, n = "x" \/ n = "y" ->
    resolve_path ex_schema ex_rt okx_obj [F "items"; K n; F "vv"] = Some (RNode ex_num (VInt v)) ->
    (exists y, resolve_path ex_schema ex_rt okx_res [F "items"; K n; F "vv"] = Some (RNode ex_num y) /\
               veqb (VInt v) y = true)
    \/
    (exists q last, wf_path q = true /\ is_prefix q [F "items"; K n; F "vv"] = true /\
                    q <> [F "items"; K n; F "vv"] /\ mf_get "a" okx_mf = Some last /\
                    ps_has q (ps_en ex_schema ex_rt (mr_set last)) = true /\
                    present ex_schema ex_rt okx_res q = false).
  Proof.
    intros n v Hn Hres. destruct okx_apply as (mf' & Happly).
    pose proof (apply_keeps_others_fields_along_histories_wf ex_config FieldSetLaws.ex_R "v1" okx_ops "a" okx_cfg
                  false (Some ("v1", okx_res)) mf' "b" (mkRec okx_set_b "v1" false) [F "items"; K n; F "vv"]
                  ex_num (VInt v) ex_setting_ok okx_ops_ok okx_cfg_ok) as T.
    rewrite okx_run in T. cbn [fst snd] in T.
    apply T; clear T.
    - exact Happly.
    - discriminate.
    - reflexivity.
    - destruct Hn as [-> | ->]; reflexivity.
    - destruct Hn as [-> | ->]; vm_compute; reflexivity.
    - apply okx_silent. exact Hn.
    - exact Hres.
    - vm_compute. exact I.
    - discriminate.
  Qed.

  (* (a) "b"'s field items[y].vv survives the apply that prunes the sibling member x *)
  Example others_field_survives :
    present ex_schema ex_rt okx_obj [F "items"; K "x"] = true /\
    present ex_schema ex_rt okx_res [F "items"; K "x"] = false /\
    exists y, resolve_path ex_schema ex_rt okx_res [F "items"; K "y"; F "vv"] = Some (RNode ex_num y) /\
              veqb (VInt 7) y = true.
  Proof.
    split; [vm_compute; reflexivity|]. split; [vm_compute; reflexivity|].
    destruct (okx_theorem "y" 7%Z (or_intror eq_refl)) as [H|(q & last & Hq & Hpre & _ & _ & _ & Habs)].
    - vm_compute. reflexivity.
    - exact H.
    - (* the second alternative is refuted: the field is there, hence so is every prefix *)
      exfalso.
      rewrite (present_of_prefix ex_schema FieldSetLaws.ex_R FieldSetLaws.ex_schema_ok ex_rt okx_res q
                 [F "items"; K "y"; F "vv"] FieldSetLaws.ex_R_root) in Habs; try discriminate; auto;
        vm_compute; reflexivity.
  Qed.

  (* (b) "b"'s field items[x].vv, inside the member x that only "a" owned, goes away with it *)
  Example others_field_goes_with_member :
    resolve_path ex_schema ex_rt okx_res [F "items"; K "x"; F "vv"] = None /\
    exists q last, wf_path q = true /\ is_prefix q [F "items"; K "x"; F "vv"] = true /\
                   q <> [F "items"; K "x"; F "vv"] /\ mf_get "a" okx_mf = Some last /\
                   ps_has q (ps_en ex_schema ex_rt (mr_set last)) = true /\
                   present ex_schema ex_rt okx_res q = false.
  Proof.
    split; [vm_compute; reflexivity|].
    destruct (okx_theorem "x" 5%Z (or_introl eq_refl)) as [(y & Hy & _)|H].
    - vm_compute. reflexivity.
    - (* the first alternative is refuted by evaluation *)
      vm_compute in Hy. discriminate Hy.
    - exact H.
  Qed.
End Example.

(* ================= the statement as given is false ================= *)

(* Proofs/OthersKeep_statements.v, verbatim (no [anc_shared]) *)
Definition apply_keeps_others_fields_as_stated : Prop :=
  forall c R ver live mf mgr cfg force o mf' m r p tr' x,
  setting_ok c R ver -> state_ok c ver live mf -> op_ok c ver (HApply mgr cfg force) ->
  apply_op c (ver, live) (ver, cfg) ver mf mgr force = UOk (o, mf') ->
  m <> mgr -> mf_get m mf = Some r -> wf_path p = true -> ps_has p (mr_set r) = true ->
  (forall q, In q (map fst (nodes (schema_of c ver) (tr_of c ver) cfg)) ->
             is_prefix p q = false /\ (is_prefix q p = true ->
               exists trq y, resolve_path (schema_of c ver) (tr_of c ver) cfg q = Some (RNode trq y) /\
                             ~ leafy (schema_of c ver) trq y)) ->
  resolve_path (schema_of c ver) (tr_of c ver) live p = Some (RNode tr' x) ->
  leafy (schema_of c ver) tr' x -> x <> VList [] ->
  let res := match o with Some t => snd t | None => live end in
  (exists y, resolve_path (schema_of c ver) (tr_of c ver) res p = Some (RNode tr' y) /\ veqb x y = true)
  \/
  (exists q last, is_prefix q p = true /\ q <> p /\ mf_get mgr mf = Some last /\
                  ps_has q (ps_en (schema_of c ver) (tr_of c ver) (mr_set last)) = true /\
                  present (schema_of c ver) (tr_of c ver) res q = false).

(* membership of all the elements gives [owned_present]-style presence *)
Lemma elems_present : forall s R, schema_ok s R -> forall tr v S, R tr -> wf_value v = true ->
  ps_ok S = true -> forallb (fun q => present s tr v q) (ps_elems S) = true ->
  forall p, wf_path p = true -> ps_has p S = true -> present s tr v p = true.
Proof.
  intros s R Hok tr v S Htr Hwv HS Hall p Hp Hh.
  destruct (has_in_elems S p HS Hp Hh) as (m0 & Hin & Hw0 & Heq).
  rewrite forallb_forall in Hall.
  rewrite (present_patheqb s R Hok p m0 Heq Hp Hw0 v tr Htr Hwv). apply Hall. exact Hin.
Qed.

Section Refutation.
  Open Scope string_scope.
  Let F := PEField.
  Let kx := PEKey [("name", VStr "x")].

  (* the member x is in nobody's record; both managers own its field vv *)
  Definition bad_live : value := VMap [("items", VList [VMap [("name", VStr "x"); ("vv", VInt 1)]])].
  Definition bad_set : pset := ps_of_paths [[F "items"; kx; F "vv"]].
  Definition bad_mf : managed := [("a", mkRec bad_set "v1" true); ("b", mkRec bad_set "v1" true)].
  Definition bad_cfg : value := VMap [("aa", VInt 1)].
  Definition bad_res : value := VMap [("aa", VInt 1); ("items", VList [VMap [("name", VStr "x")]])].

  (* "a" applies {aa: 1}: the field vv of the member x, which "b" owns, is removed; the
     member and the list stay; "b" loses its record *)
  Example bad_apply :
    apply_op ex_config ("v1", bad_live) ("v1", bad_cfg) "v1" bad_mf "a" false
      = UOk (Some ("v1", bad_res), [("a", mkRec (ps_of_paths [[F "aa"]]) "v1" true)]).
  Proof. vm_compute. reflexivity. Qed.

  Lemma bad_get : forall m r, mf_get m bad_mf = Some r -> r = mkRec bad_set "v1" true.
  Proof.
    intros m r Hg. apply assoc_get_in in Hg. simpl in Hg.
    destruct Hg as [H|[H|[]]]; inversion H; reflexivity.
  Qed.

  (* the state satisfies the invariant of Proofs/History.v *)
  Lemma bad_state_ok : state_ok ex_config "v1" bad_live bad_mf.
  Proof.
    constructor.
    - vm_compute. reflexivity.
    - right. vm_compute. reflexivity.
    - split; vm_compute; reflexivity.
    - vm_compute. reflexivity.
    - intros m r s' Hg. rewrite (bad_get m r Hg). vm_compute. discriminate.
    - intros m r Hg. rewrite (bad_get m r Hg). cbn [mr_set]. split; [split|].
      + apply keys_closed_b_sound; vm_compute; reflexivity.
      + apply (no_atomic_free ex_schema FieldSetLaws.ex_R FieldSetLaws.ex_schema_ok).
        * unfold FieldSetLaws.ex_R. simpl. tauto.
        * exact ex_no_atomic.
        * exact FieldSetLaws.ex_R_root.
      + unfold owns_live_keys. intros pre fl k.
        apply (owns_live_keys_b_sound ex_schema FieldSetLaws.ex_R FieldSetLaws.ex_schema_ok
                 ex_rt bad_live bad_set FieldSetLaws.ex_R_root); vm_compute; reflexivity.
    - intros m r p Hg Hp Hh. rewrite (bad_get m r Hg) in Hh. cbn [mr_set] in Hh.
      apply (elems_present ex_schema FieldSetLaws.ex_R FieldSetLaws.ex_schema_ok ex_rt bad_live bad_set
               FieldSetLaws.ex_R_root); auto; vm_compute; reflexivity.
    - intros m r Hg. rewrite (bad_get m r Hg). vm_compute. reflexivity.
  Qed.

  (* ... but not [anc_shared]: nobody owns the member x *)
  Example bad_not_anc_shared : ~ anc_shared ex_schema ex_rt bad_mf.
  Proof.
    intros H.
    destruct (H "a" "b" (mkRec bad_set "v1" true) (mkRec bad_set "v1" true) [F "items"; kx] [F "vv"])
      as [E|E]; try discriminate; try reflexivity; vm_compute in E; discriminate E.
  Qed.

  Lemma veqb_str_inv : forall v k, veqb v (VStr k) = true -> v = VStr k.
  Proof.
    intros v k H. destruct v; try (vm_compute in H; discriminate H).
    simpl in H. apply String.eqb_eq in H. subst. reflexivity.
  Qed.

  Theorem apply_keeps_others_fields_as_stated_refuted : ~ apply_keeps_others_fields_as_stated.
  Proof.
    intros H.
    pose proof (H ex_config FieldSetLaws.ex_R "v1" bad_live bad_mf "a" bad_cfg false
                  (Some ("v1", bad_res)) [("a", mkRec (ps_of_paths [[F "aa"]]) "v1" true)]
                  "b" (mkRec bad_set "v1" true) [F "items"; kx; F "vv"] ex_num (VInt 1)
                  ex_setting_ok bad_state_ok) as Hc.
    assert (Hcon :
      (exists y, resolve_path ex_schema ex_rt bad_res [F "items"; kx; F "vv"] = Some (RNode ex_num y) /\
                 veqb (VInt 1) y = true)
      \/
      (exists q last, is_prefix q [F "items"; kx; F "vv"] = true /\ q <> [F "items"; kx; F "vv"] /\
                      mf_get "a" bad_mf = Some last /\
                      ps_has q (ps_en ex_schema ex_rt (mr_set last)) = true /\
                      present ex_schema ex_rt bad_res q = false)).
    { apply Hc; clear Hc.
      - repeat split; try (vm_compute; reflexivity); vm_compute; exact I.
      - exact bad_apply.
      - discriminate.
      - reflexivity.
      - reflexivity.
      - vm_compute. reflexivity.
      - intros q Hq. vm_compute in Hq. destruct Hq as [<-|[]].
        split; [vm_compute; reflexivity|]. intros Hpre. vm_compute in Hpre. discriminate Hpre.
      - vm_compute. reflexivity.
      - vm_compute. exact I.
      - discriminate. }
    destruct Hcon as [(y & Hy & _)|(q & last & Hpre & Hne & Hlast & Hen & Habs)].
    - vm_compute in Hy. discriminate Hy.
    - vm_compute in Hlast. inversion Hlast; subst last. cbn [mr_set] in Hen.
      (* q is a proper prefix of the field: [], items or items[x]: none is both in the
         closure of a's record and absent from the result *)
      destruct q as [|e1 q]; [vm_compute in Hen; discriminate Hen|].
      simpl in Hpre. apply andb_true_iff in Hpre. destruct Hpre as [H1 Hpre].
      destruct e1 as [k1| | |]; try discriminate H1. simpl in H1. apply String.eqb_eq in H1. subst k1.
      destruct q as [|e2 q]; [vm_compute in Habs; discriminate Habs|].
      simpl in Hpre. apply andb_true_iff in Hpre. destruct Hpre as [H2 Hpre].
      destruct e2 as [|fl2| |]; try discriminate H2. simpl in H2.
      destruct fl2 as [|[n2 v2] fl2]; [discriminate H2|].
      destruct fl2 as [|[n3 v3] fl3]; [|simpl in H2; rewrite andb_false_r in H2; discriminate H2].
      simpl in H2. rewrite andb_true_r in H2. apply andb_true_iff in H2. destruct H2 as [Hn2 Hv2].
      apply String.eqb_eq in Hn2. subst n2. apply veqb_str_inv in Hv2. subst v2.
      destruct q as [|e3 q]; [vm_compute in Hen; discriminate Hen|].
      simpl in Hpre. apply andb_true_iff in Hpre. destruct Hpre as [H3 Hpre].
      destruct e3 as [k3| | |]; try discriminate H3. simpl in H3. apply String.eqb_eq in H3. subst k3.
      destruct q as [|e4 q]; [|discriminate Hpre].
      apply Hne. reflexivity.
  Qed.
End Refutation.

