(* Step 1 of C19 (include-pattern filter): abstract semantics [sm_keeps] of a SetMatcher and
   the proof that Set.FilterIncludeMatches keeps exactly the members accepted by it. *)
From Coq Require Import List ZArith String Bool Arith Lia.
From SMD Require Import Base.Search Model.Value Model.Order Model.PathElem Model.PathSet Model.Matcher
  Proofs.OrderLaws Proofs.SearchLaws Proofs.KeyLaws Proofs.PesLaws Proofs.TrieBase.
Import ListNotations.
Open Scope bool_scope.

(* ---------- induction principle for the nested type ---------- *)
Section smatcher_ind'.
  Variable P : smatcher -> Prop.
  Hypothesis H : forall w ms, Forall (fun kc => P (snd kc)) ms -> P (SM w ms).
  Fixpoint smatcher_ind' (m : smatcher) : P m :=
    match m with
    | SM w ms =>
        H w ms ((fix go (l : list (pematcher * smatcher)) : Forall (fun kc => P (snd kc)) l :=
                   match l with
                   | [] => Forall_nil _
                   | kc :: t => Forall_cons _ (smatcher_ind' (snd kc)) (go t)
                   end) ms)
    end.
End smatcher_ind'.

(* ---------- members sorted strictly by the matcher ordering ---------- *)
Definition mlt (k : pematcher) (l : list (pematcher * smatcher)) : Prop :=
  Forall (fun a => pm_cmp k (fst a) = Lt) l.

Fixpoint msorted (l : list (pematcher * smatcher)) : Prop :=
  match l with [] => True | x :: t => mlt (fst x) t /\ msorted t end.

Definition mkwf (l : list (pematcher * smatcher)) : Prop :=
  Forall (fun a => wf_pm (fst a) = true) l.

(* the invariant of matchers: members strictly sorted, lawful keys, recursively *)
Inductive sm_wf : smatcher -> Prop :=
| sm_wf_intro : forall w ms,
    msorted ms -> mkwf ms -> Forall (fun kc => sm_wf (snd kc)) ms -> sm_wf (SM w ms).

Lemma sm_wf_inv : forall w ms, sm_wf (SM w ms) ->
  msorted ms /\ mkwf ms /\ Forall (fun kc => sm_wf (snd kc)) ms.
Proof. intros w ms H. inversion H; subst. auto. Qed.

(* ---------- the abstract semantics of a matcher ---------- *)
Definition pm_matches (e : pe) (pm : pematcher * smatcher) : bool :=
  match fst pm with PMWild => true | PMElem x => peeqb x e end.

Fixpoint sm_keeps (m : smatcher) (p : path) {struct p} : bool :=
  match p with
  | [] => false
  | e :: rest =>
      if sm_wild m then true
      else
        match rest with
        | [] => existsb (pm_matches e) (sm_members m)
        | _ :: _ =>
            match List.find (pm_matches e) (sm_members m) with
            | Some kc => sm_keeps (snd kc) rest
            | None => false
            end
        end
  end.

Lemma pm_matches_cong : forall x e kc, wf_pe x = true -> wf_pe e = true -> wf_pm (fst kc) = true ->
  peeqb x e = true -> pm_matches x kc = pm_matches e kc.
Proof.
  intros x e [k c] Hx He Hk Hxe. unfold pm_matches. simpl in *. destruct k as [|y]; auto.
  apply peeqb_cong_r; auto.
Qed.

Lemma existsb_matches_cong : forall x e ms, wf_pe x = true -> wf_pe e = true -> mkwf ms ->
  peeqb x e = true -> existsb (pm_matches x) ms = existsb (pm_matches e) ms.
Proof.
  intros x e ms Hx He Hwf Hxe. induction Hwf as [|kc t Hkc Ht IH]; simpl; auto.
  rewrite (pm_matches_cong x e kc), IH; auto.
Qed.

Lemma find_matches_cong : forall x e ms, wf_pe x = true -> wf_pe e = true -> mkwf ms ->
  peeqb x e = true -> List.find (pm_matches x) ms = List.find (pm_matches e) ms.
Proof.
  intros x e ms Hx He Hwf Hxe. induction Hwf as [|kc t Hkc Ht IH]; simpl; auto.
  rewrite (pm_matches_cong x e kc), IH; auto.
Qed.

(* ---------- unfolding of the filter ---------- *)
Definition fi_members (ms : list (pematcher * smatcher)) (m : pes) : pes :=
  fold_left (fun acc e => if existsb (pm_matches e) ms then pes_insert e acc else acc) m [].

Fixpoint fi_children (ms : list (pematcher * smatcher)) (c : list (pe * pset)) : list (pe * pset) :=
  match c with
  | [] => []
  | ec :: rest =>
      match List.find (pm_matches (fst ec)) ms with
      | Some kc =>
          let r := ps_filter_include (snd ec) (snd kc) in
          if Nat.ltb 0 (ps_size r) then (fst ec, r) :: fi_children ms rest else fi_children ms rest
      | None => fi_children ms rest
      end
  end.

Lemma ps_filter_include_unfold : forall m c pat,
  ps_filter_include (PSet m c) pat =
    if sm_wild pat then PSet m c
    else PSet (fi_members (sm_members pat) m) (fi_children (sm_members pat) c).
Proof.
  intros m c pat. cbn [ps_filter_include]. destruct (sm_wild pat); [reflexivity|].
  f_equal. induction c as [|[e sub] t IH]; [reflexivity|].
  cbn [fi_children fst snd]. rewrite <- IH.
  change (fun pm : pematcher * smatcher => match fst pm with PMWild => true | PMElem x => peeqb x e end)
    with (pm_matches e).
  destruct (List.find (pm_matches e) (sm_members pat)) as [[k child]|]; reflexivity.
Qed.

(* ---------- members ---------- *)
Lemma fold_insert_if : forall (f : pe -> bool) l acc,
  sorted_pes acc = true -> wf_pes acc = true -> wf_pes l = true ->
  let r := fold_left (fun acc e => if f e then pes_insert e acc else acc) l acc in
  sorted_pes r = true /\ wf_pes r = true /\
  forall x, wf_pe x = true ->
    pes_mem x r = pes_mem x acc || existsb (fun e => peeqb x e && f e) l.
Proof.
  intros f l. induction l as [|e t IH]; intros acc Hs Hw Hl; simpl.
  - repeat split; auto. intros x _. rewrite orb_false_r. reflexivity.
  - unfold wf_pes in Hl. simpl in Hl. apply andb_true_iff in Hl. destruct Hl as [He Ht].
    destruct (f e) eqn:Hfe.
    + destruct (pes_insert_sorted e acc Hs Hw He) as [Hs' Hw'].
      destruct (IH (pes_insert e acc) Hs' Hw' Ht) as (R1 & R2 & R3).
      repeat split; auto. intros x Hx. rewrite (R3 x Hx).
      rewrite pes_insert_mem by auto. rewrite andb_true_r.
      destruct (peeqb x e), (pes_mem x acc); reflexivity.
    + destruct (IH acc Hs Hw Ht) as (R1 & R2 & R3).
      repeat split; auto. intros x Hx. rewrite (R3 x Hx). rewrite andb_false_r. reflexivity.
Qed.

Lemma fi_members_spec : forall ms m, mkwf ms -> wf_pes m = true ->
  sorted_pes (fi_members ms m) = true /\ wf_pes (fi_members ms m) = true /\
  forall x, wf_pe x = true ->
    pes_mem x (fi_members ms m) = pes_mem x m && existsb (pm_matches x) ms.
Proof.
  intros ms m Hk Hm. unfold fi_members.
  destruct (fold_insert_if (fun e => existsb (pm_matches e) ms) m [] eq_refl eq_refl Hm)
    as (R1 & R2 & R3).
  repeat split; auto. intros x Hx. rewrite (R3 x Hx). simpl.
  clear R1 R2 R3. unfold pes_mem. unfold wf_pes in Hm.
  induction m as [|e t IH]; simpl; auto.
  simpl in Hm. apply andb_true_iff in Hm. destruct Hm as [He Ht].
  rewrite (IH Ht). destruct (peeqb x e) eqn:Hxe; simpl; auto.
  rewrite (existsb_matches_cong x e ms) by auto.
  destruct (existsb (pm_matches e) ms); simpl; auto.
  rewrite andb_false_r. reflexivity.
Qed.

(* ---------- children ---------- *)
Lemma ps_size_pos_nonempty : forall r, Nat.ltb 0 (ps_size r) = negb (ps_empty r).
Proof.
  intros r. rewrite ps_size_elems. destruct (ps_empty r) eqn:He.
  - apply ps_empty_elems in He. rewrite He. reflexivity.
  - destruct (ps_elems r) eqn:Hl; [|reflexivity].
    apply ps_empty_elems in Hl. congruence.
Qed.

Lemma fi_children_In : forall ms c x, In x (fi_children ms c) ->
  exists sub, In (fst x, sub) c.
Proof.
  intros ms c x. induction c as [|[e sub] t IH]; simpl; [tauto|].
  intros Hin.
  assert (Htl : In x (fi_children ms t) -> exists sub0, (e, sub) = (fst x, sub0) \/ In (fst x, sub0) t).
  { intros Hx. destruct (IH Hx) as [s0 Hs0]. exists s0. auto. }
  destruct (List.find (pm_matches e) ms) as [kc|]; auto.
  destruct (Nat.ltb 0 (ps_size (ps_filter_include sub (snd kc)))); auto.
  destruct Hin as [Heq|Hin]; auto. subst x. simpl. exists sub. auto.
Qed.

Lemma fi_children_klt : forall ms c e, klt fst e c -> klt fst e (fi_children ms c).
Proof.
  intros ms c e H. unfold klt in *. rewrite Forall_forall in *.
  intros x Hx. destruct (fi_children_In ms c x Hx) as [sub Hsub].
  apply (H (fst x, sub) Hsub).
Qed.

Lemma fi_children_sorted : forall ms c, ksorted fst c -> ksorted fst (fi_children ms c).
Proof.
  intros ms c. induction c as [|[e sub] t IH]; simpl; auto.
  intros [Hlt Hs]. specialize (IH Hs).
  destruct (List.find (pm_matches e) ms) as [kc|]; auto.
  destruct (Nat.ltb 0 (ps_size (ps_filter_include sub (snd kc)))); auto.
  simpl. split; auto. apply fi_children_klt. exact Hlt.
Qed.

(* ---------- the filter against the abstract semantics ---------- *)
Theorem filter_include_keeps : forall s, ps_ok s = true -> forall m, sm_wf m ->
  ps_ok (ps_filter_include s m) = true /\
  forall p, wf_path p = true ->
    ps_has p (ps_filter_include s m) = ps_has p s && sm_keeps m p.
Proof.
  intros s. induction s as [mem c IH] using pset_ind'. intros Hok [w ms] Hwf.
  rewrite ps_filter_include_unfold. simpl sm_wild. simpl sm_members.
  destruct w.
  { split; auto. intros p _. destruct p as [|e rest]; [reflexivity|].
    simpl sm_keeps. rewrite andb_true_r. reflexivity. }
  apply sm_wf_inv in Hwf. destruct Hwf as (Hms & Hmk & Hmc).
  pose proof Hok as Hok'. apply ps_ok_PSet in Hok'. destruct Hok' as (H1 & H2 & H3 & H4).
  destruct (fi_members_spec ms mem Hmk H2) as (M1 & M2 & M3).
  (* facts about the children *)
  assert (Hcok : Forall cok (fi_children ms c)).
  { clear H3 Hok. induction c as [|[e sub] t IHc]; simpl; [constructor|].
    inversion IH as [|? ? IHe IHt]; subst. inversion H4 as [|? ? Hce Hct]; subst.
    specialize (IHc IHt Hct).
    destruct (List.find (pm_matches e) ms) as [kc|] eqn:Hf; auto.
    rewrite ps_size_pos_nonempty.
    destruct (ps_empty (ps_filter_include sub (snd kc))) eqn:Hemp; simpl; auto.
    constructor; auto. destruct Hce as (Hwe & Hoks & _). simpl in *.
    apply find_some in Hf. destruct Hf as [Hin _].
    rewrite Forall_forall in Hmc. specialize (Hmc kc Hin).
    destruct (IHe Hoks (snd kc) Hmc) as [Hr _].
    repeat split; auto. }
  assert (Hsorted : ksorted fst (fi_children ms c)) by (apply fi_children_sorted; auto).
  assert (Hok2 : ps_ok (PSet (fi_members ms mem) (fi_children ms c)) = true).
  { apply ps_ok_PSet. auto. }
  split; [exact Hok2|].
  intros p Hp. destruct p as [|e [|p0 p']]; [reflexivity| |].
  - apply wf_path_cons in Hp. destruct Hp as [He _].
    rewrite !ps_has_one by auto. rewrite M3 by auto. reflexivity.
  - apply wf_path_cons in Hp. destruct Hp as [He Hp].
    rewrite !ps_has_more by auto.
    cbn [sm_keeps sm_wild sm_members].
    clear Hok Hok2 M1 M2 M3 H1 H2.
    induction c as [|[e1 sub] t IHc]; [reflexivity|].
    inversion IH as [|? ? IHe IHt]; subst. inversion H4 as [|? ? Hce Hct]; subst.
    destruct H3 as [Hlt Hst]. destruct Hce as (Hwe & Hoks & Hne). simpl in Hwe, Hoks, Hne.
    simpl in IHe.
    rewrite (klook_cons fst e (e1, sub) t). simpl fst.
    destruct (peeqb e e1) eqn:Hee.
    + (* the looked-up child *)
      assert (Habove : klook fst e (fi_children ms t) = None).
      { apply (klook_above_eq fst e e1); auto.
        - apply cok_kwf. simpl in Hcok.
          assert (Forall cok (fi_children ms t)) as Hc'.
          { clear - Hcok.
            destruct (List.find (pm_matches e1) ms) as [kc|]; auto.
            destruct (Nat.ltb 0 (ps_size (ps_filter_include sub (snd kc)))); auto.
            inversion Hcok; auto. }
          exact Hc'.
        - apply fi_children_klt. exact Hlt. }
      rewrite (find_matches_cong e e1 ms) by auto.
      cbn [fi_children fst snd].
      destruct (List.find (pm_matches e1) ms) as [kc|] eqn:Hf.
      * apply find_some in Hf. destruct Hf as [Hin _].
        rewrite Forall_forall in Hmc. pose proof (Hmc kc Hin) as Hwfc.
        destruct (IHe Hoks (snd kc) Hwfc) as [Hr Hhas].
        rewrite ps_size_pos_nonempty.
        destruct (ps_empty (ps_filter_include sub (snd kc))) eqn:Hemp; simpl negb; cbv iota.
        -- rewrite Habove. cbn [chas snd].
           rewrite <- Hhas by exact Hp.
           rewrite (ps_empty_has _ _ Hemp). reflexivity.
        -- rewrite klook_cons. simpl fst. rewrite Hee. cbn [chas snd].
           apply Hhas. exact Hp.
      * rewrite Habove. cbn [chas snd]. rewrite andb_false_r. reflexivity.
    + (* another child *)
      assert (Hskip : klook fst e (fi_children ms ((e1, sub) :: t)) = klook fst e (fi_children ms t)).
      { cbn [fi_children fst snd].
        destruct (List.find (pm_matches e1) ms) as [kc|]; auto.
        destruct (Nat.ltb 0 (ps_size (ps_filter_include sub (snd kc)))); auto.
        rewrite klook_cons. simpl fst. rewrite Hee. reflexivity. }
      rewrite Hskip. apply IHc; auto.
      * clear - Hcok. simpl in Hcok.
        destruct (List.find (pm_matches e1) ms) as [kc|]; auto.
        destruct (Nat.ltb 0 (ps_size (ps_filter_include sub (snd kc)))); auto.
        inversion Hcok; auto.
      * apply fi_children_sorted; auto.
Qed.
