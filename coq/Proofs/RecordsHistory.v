(* C05 along histories: at every state satisfying the invariant of Proofs/History.v -- hence
   at every reachable state -- the ownership records are updated exactly.  The record sets
   are described through the independent reference diff (Spec/RefDiff.v) between the live
   object and the resulting object, not through the sets of the comparing walker.

   Statements: Proofs/RecordsHistory_statements.v; both theorems are proved VERBATIM.
   They are compositions of
     History.reconcile_id / update_step / apply_step   the opening reconciliation is the identity,
                                                       the invariant is preserved;
     UpdaterLaws.update_core_records,
     UpdaterLaws2.update_set_spec                      the records after the step, in terms of [compare];
     RefDiffLaws.compare_refines_ref_diff_restricted   [compare] is pathwise the reference diff;
     ApplyInv.apply_unfold                             the stages of an apply;
     RefDiffVeqb.ref_diff_same / compare_veqb_quiet    the "nothing changed" answer of Apply.
   Corollaries at every reachable state: [update_records_exact_along_histories],
   [apply_records_exact_along_histories]; non-vacuity: [records_example_update],
   [records_example_apply]. *)
From Coq Require Import List ZArith String Bool Arith Lia.
From SMD Require Import Model.Value Model.Order Model.PathElem Model.PathSet Model.Schema Model.Walk
  Model.Validate Model.FieldSet Model.Remove Model.Merge Model.Compare Model.Matcher Model.Reconcile
  Model.Updater
  Spec.PathsAsSets Spec.RefValid Spec.Resolve Spec.Agree Spec.RefDiff Spec.Examples
  Proofs.OrderLaws Proofs.PathSetLaws Proofs.SchemaOk Proofs.FieldSetBase Proofs.FieldSetPaths
  Proofs.FieldSetWf Proofs.FieldSetLaws Proofs.RemoveAbsent Proofs.RemoveWf Proofs.ResolveLaws
  Proofs.UpdaterLaws Proofs.UpdaterLaws2 Proofs.MergeLaws Proofs.MergeAgree
  Proofs.RemoveFrame Proofs.EnLaws Proofs.NodeSet Proofs.KeyFields Proofs.VeqbResolve
  Proofs.SetCheckers Proofs.ApplyEffect Proofs.RefDiffBoth Proofs.RefDiffLaws Proofs.RefDiffPresent
  Proofs.ApplyInv Proofs.History.
From SMD Require Proofs.CompareLaws Proofs.RefDiffVeqb Proofs.TrieBase.
Import ListNotations.
Open Scope bool_scope.
Open Scope list_scope.

Local Arguments ps_has : simpl never.
Local Arguments ps_empty : simpl never.

(* what another manager keeps: the two ways of writing it *)
Lemma keeps_touched : forall a rm md ad : bool,
  a && negb (md || ad) && negb rm = a && negb (rm || md || ad).
Proof. intros [] [] [] []; reflexivity. Qed.

Section RecordsHistory.
  Variables (c : config) (R : typeref -> Prop) (ver : string).
  Let s := schema_of c ver.
  Let tr := tr_of c ver.

  (* the records of the managers other than the actor, after [update_core], in terms of a
     diff [D] that the comparison refines pathwise *)
  Lemma others_exact : forall (mf mf1 mf' : managed) (mgr : string) (cmp : comparison3) (D : RefDiff.rdiff),
    (forall m, m <> mgr -> mf_get m mf' = mf_get m mf1) ->
    (forall m, m <> mgr ->
       match mf_get m mf with
       | Some r =>
           match mf_get m mf1 with
           | Some r' => mr_ver r' = mr_ver r /\ mr_applied r' = mr_applied r /\
                        (forall p, wf_path p = true -> p <> [] -> ps_has p (mr_set r') = keeps r cmp p)
           | None => forall p, wf_path p = true -> p <> [] -> keeps r cmp p = false
           end
       | None => mf_get m mf1 = None
       end) ->
    (forall p, wf_path p = true -> p <> [] ->
       ps_has p (removed cmp) = pmem p (rd_removed D) /\
       ps_has p (modified cmp) = pmem p (rd_modified D) /\
       ps_has p (added cmp) = pmem p (rd_added D)) ->
    forall m, m <> mgr ->
    forall p, wf_path p = true -> p <> [] ->
    match mf_get m mf with
    | Some r =>
        match mf_get m mf' with
        | Some r' => mr_applied r' = mr_applied r /\ mr_ver r' = mr_ver r /\
                     ps_has p (mr_set r') =
                     (ps_has p (mr_set r) &&
                      negb (pmem p (rd_removed D) || pmem p (rd_modified D) || pmem p (rd_added D)))
        | None => (ps_has p (mr_set r) &&
                   negb (pmem p (rd_removed D) || pmem p (rd_modified D) || pmem p (rd_added D))) = false
        end
    | None => mf_get m mf' = None
    end.
  Proof.
    intros mf mf1 mf' mgr cmp D Hsame Hothers Href m Hm p Hp Hne.
    rewrite (Hsame m Hm). pose proof (Hothers m Hm) as Ho.
    destruct (Href p Hp Hne) as (E1 & E2 & E3).
    destruct (mf_get m mf) as [r|]; [|exact Ho].
    destruct (mf_get m mf1) as [r'|].
    - destruct Ho as (Hv & Ha & Hk). split; [exact Ha|]. split; [exact Hv|].
      rewrite (Hk p Hp Hne). unfold keeps. rewrite E1, E2, E3. apply keeps_touched.
    - rewrite <- (Ho p Hp Hne). unfold keeps. rewrite E1, E2, E3. symmetry. apply keeps_touched.
  Qed.

  (* Update: the submitted object comes back unaltered; the updater owns what it owned minus
     what was removed plus what was changed or created, not flagged as applied; every other
     manager loses exactly the changed, created and removed fields and keeps its flag;
     a record that becomes empty disappears *)
  Theorem update_records_exact : forall live mf mgr obj o mf',
    setting_ok c R ver -> state_ok c ver live mf -> op_ok c ver (HUpdate mgr obj) ->
    update_op c (ver, live) (ver, obj) ver mf mgr = UOk (o, mf') ->
    let d := ref_diff s tr live obj in
    let touched (p : path) := pmem p (rd_removed d) || pmem p (rd_modified d) || pmem p (rd_added d) in
    o = (ver, obj) /\
    (forall p, wf_path p = true -> p <> [] ->
       let before := match mf_get mgr mf with Some r => ps_has p (mr_set r) | None => false end in
       let after := (before && negb (pmem p (rd_removed d))) || pmem p (rd_modified d) || pmem p (rd_added d) in
       match mf_get mgr mf' with
       | Some r' => mr_applied r' = false /\ mr_ver r' = ver /\ ps_has p (mr_set r') = after
       | None => after = false
       end) /\
    (forall m, m <> mgr ->
       forall p, wf_path p = true -> p <> [] ->
       match mf_get m mf with
       | Some r =>
           match mf_get m mf' with
           | Some r' => mr_applied r' = mr_applied r /\ mr_ver r' = mr_ver r /\
                        ps_has p (mr_set r') = (ps_has p (mr_set r) && negb (touched p))
           | None => (ps_has p (mr_set r) && negb (touched p)) = false
           end
       | None => mf_get m mf' = None
       end) /\
    (forall m r', mf_get m mf' = Some r' -> ps_empty (mr_set r') = false).
  Proof.
    intros live mf mgr obj o mf' Hset Hst Hop Hupdate. cbv zeta.
    destruct (update_step c R ver live mf mgr obj o mf' Hset Hst Hop Hupdate) as [Ho Hst'].
    pose proof (state_ok_conforms c ver live mf _ Hst Hop) as Hcl. fold s tr in Hcl.
    pose proof Hset as (Hni & Hcid & Hok & Hfam & Hpure & Htr & Hkp).
    fold s tr in Hok, Hfam, Hpure, Htr, Hkp.
    destruct Hop as (Hwn & Hcn). fold s tr in Hcn.
    pose proof (so_wf c ver live mf Hst) as Hwl. pose proof (so_mf c ver live mf Hst) as Hmf.
    pose proof (so_single c ver live mf Hst) as Hsv.
    split; [exact Ho|].
    (* the stages of the update *)
    unfold update_op in Hupdate.
    destruct (reconcile_managed c 0 (ver, live) mf) as [[mf0 n0]|e] eqn:Hrec; [|discriminate Hupdate].
    pose proof (reconcile_id c R ver live mf mf0 n0 Hset Hst Hrec) as E. subst mf0.
    destruct (update_core c n0 (ver, live) (ver, obj) ver mf mgr true) as [[[mf1 cmp] n1]|e] eqn:Hupd;
      [|discriminate Hupdate].
    rewrite (no_ignore_filter c ver Hni) in Hupdate. cbn [filter_set] in Hupdate.
    assert (Hcok : forall cmp0, compare_tv c (ver, live) (ver, obj) = Some cmp0 -> cmp_ok cmp0).
    { intros cmp0 Hc0. unfold compare_tv in Hc0. cbn [fst snd] in Hc0.
      exact (CompareLaws.compare_sets_ok _ R _ _ _ _ Hok Htr Hwl Hwn Hc0). }
    destruct (update_core_records c n0 (ver, live) (ver, obj) ver mf mgr true mf1 cmp n1 Hni Hsv Hmf Hcok Hupd)
      as (Hcmp & _ & Hok1 & _ & _ & Hw & Hothers).
    pose proof (Hcok cmp Hcmp) as Hc.
    unfold compare_tv in Hcmp. cbn [fst snd] in Hcmp. fold s tr in Hcmp.
    (* the comparison is the reference diff *)
    pose proof (compare_refines_ref_diff_restricted s R tr live obj cmp Hok Hfam Hpure Htr Hwl Hwn Hcl Hcn Hcmp)
      as Href.
    (* the updater's set *)
    set (cur := match mf_get mgr mf1 with Some r => mr_set r | None => ps_empty_set end) in *.
    assert (Hcur : ps_ok cur = true) by (apply cur_ok; exact Hok1).
    assert (Hbefore : forall p, ps_has p cur =
              match mf_get mgr mf with Some r => ps_has p (mr_set r) | None => false end).
    { intros p. unfold cur. rewrite Hw. destruct (mf_get mgr mf) as [r|] eqn:Er.
      - rewrite (so_nonempty c ver live mf Hst mgr r Er). reflexivity.
      - apply ps_has_empty_set. }
    destruct (update_set_spec cur cmp Hcur Hc) as [Hok2 Hhas2].
    set (set0 := ps_union (ps_union (ps_diff cur (removed cmp)) (modified cmp)) (added cmp)) in *.
    assert (Hmgr : mf_get mgr mf' =
              if ps_empty set0 then None else Some {| mr_set := set0; mr_ver := ver; mr_applied := false |}).
    { destruct (ps_empty set0); inversion Hupdate; subst o mf'.
      - rewrite (mf_get_del mgr mgr mf1 (proj1 Hok1)), String.eqb_refl. reflexivity.
      - apply mf_get_set_same. }
    assert (Hsame : forall m, m <> mgr -> mf_get m mf' = mf_get m mf1).
    { intros m Hm. destruct (ps_empty set0); inversion Hupdate; subst o mf'.
      - rewrite (mf_get_del m mgr mf1 (proj1 Hok1)).
        destruct (String.eqb_spec m mgr) as [E|_]; [contradiction (Hm E)|reflexivity].
      - apply (mf_get_set_other m mgr _ mf1 Hm). }
    split; [|split].
    - (* the updater *)
      intros p Hp Hne. destruct (Href p Hp Hne) as (E1 & E2 & E3).
      pose proof (Hhas2 p Hp) as Hafter. rewrite (Hbefore p), E1, E2, E3 in Hafter.
      rewrite Hmgr. destruct (ps_empty set0) eqn:Ee.
      + rewrite <- Hafter. apply TrieBase.ps_empty_has. exact Ee.
      + cbn [mr_applied mr_ver mr_set]. split; [reflexivity|]. split; [reflexivity|exact Hafter].
    - (* the others *)
      exact (others_exact mf mf1 mf' mgr cmp (ref_diff s tr live obj) Hsame Hothers Href).
    - (* no empty record *)
      exact (so_nonempty c ver obj mf' Hst').
  Qed.

  (* Apply: the applier owns exactly the field set of its configuration, flagged as applied;
     the others lose exactly what the apply changed, created or removed *)
  Theorem apply_records_exact : forall live mf mgr cfg force o mf' fs,
    setting_ok c R ver -> state_ok c ver live mf -> op_ok c ver (HApply mgr cfg force) ->
    apply_op c (ver, live) (ver, cfg) ver mf mgr force = UOk (o, mf') ->
    to_field_set s tr cfg = Some fs ->
    let res := match o with Some t => snd t | None => live end in
    let d := ref_diff s tr live res in
    let touched (p : path) := pmem p (rd_removed d) || pmem p (rd_modified d) || pmem p (rd_added d) in
    (match mf_get mgr mf' with
     | Some r' => mr_applied r' = true /\ mr_ver r' = ver /\
                  forall p, wf_path p = true -> p <> [] -> ps_has p (mr_set r') = ps_has p fs
     | None => ps_empty fs = true
     end) /\
    (forall m, m <> mgr ->
       forall p, wf_path p = true -> p <> [] ->
       match mf_get m mf with
       | Some r =>
           match mf_get m mf' with
           | Some r' => mr_applied r' = mr_applied r /\ mr_ver r' = mr_ver r /\
                        ps_has p (mr_set r') = (ps_has p (mr_set r) && negb (touched p))
           | None => (ps_has p (mr_set r) && negb (touched p)) = false
           end
       | None => mf_get m mf' = None
       end).
  Proof.
    intros live mf mgr cfg force o mf' fs Hset Hst Hop Happly Hfs. cbv zeta.
    pose proof (state_ok_conforms c ver live mf _ Hst Hop) as Hcl. fold s tr in Hcl.
    pose proof Hset as (Hni & Hcid & Hok & Hfam & Hpure & Htr & Hkp).
    fold s tr in Hok, Hfam, Hpure, Htr, Hkp.
    destruct Hop as (Hwc & Hcc & Hpl & Hgr). fold s tr in Hcc, Hgr.
    pose proof (so_wf c ver live mf Hst) as Hwl. pose proof (so_mf c ver live mf Hst) as Hmf.
    pose proof (so_single c ver live mf Hst) as Hsv. pose proof (so_current c ver live mf Hst) as Hcur.
    assert (Hmine : forall r, mf_get mgr mf = Some r -> applier_record_ok s tr (mr_set r)).
    { intros r Hg. apply (so_records c ver live mf Hst mgr r Hg). }
    assert (Hothers : forall m r, m <> mgr -> mf_get m mf = Some r -> owns_live_keys s tr live (mr_set r)).
    { intros m r _ Hg. apply (so_records c ver live mf Hst m r Hg). }
    (* the stages of the apply *)
    destruct (apply_unfold c R ver (ver, live) (ver, cfg) mf mgr force o mf'
                Hni Hcid Hok Hfam Htr Hkp eq_refl eq_refl Hsv Hmf Hcur Hmine Hothers
                Hwl Hwc Hcl Hcc Hpl Hgr Happly)
      as (set0 & px & n1 & cmp & n2 & Eset0 & Hset0ok & HwP & HcP & _ & Hupd & Hres).
    cbn [fst snd] in Eset0, HcP, Hupd, Hres. fold s tr in Eset0, HcP.
    rewrite Hfs in Eset0. inversion Eset0; subst set0. clear Eset0.
    set (mfp := mf_set mgr {| mr_set := fs; mr_ver := ver; mr_applied := true |} mf) in *.
    assert (Hmfp : mf_ok mfp) by (apply mf_set_ok; assumption).
    assert (Hsvp : single_version ver mfp) by (apply mf_set_single; [assumption|reflexivity]).
    assert (Hcok : forall cmp0, compare_tv c (ver, live) (ver, px) = Some cmp0 -> cmp_ok cmp0).
    { intros cmp0 Hc0. unfold compare_tv in Hc0. cbn [fst snd] in Hc0.
      exact (CompareLaws.compare_sets_ok _ R _ _ _ _ Hok Htr Hwl HwP Hc0). }
    destruct (update_core_records c n1 (ver, live) (ver, px) ver mfp mgr force mf' cmp n2 Hni Hsvp Hmfp Hcok Hupd)
      as (Hcmp & _ & _ & _ & _ & Hw & Hoth).
    unfold compare_tv in Hcmp. cbn [fst snd] in Hcmp. fold s tr in Hcmp.
    (* the comparison of the live object with the pruned one is the reference diff between
       the live object and the answer *)
    assert (Href : forall p, wf_path p = true -> p <> [] ->
              ps_has p (removed cmp) =
                pmem p (rd_removed (ref_diff s tr live (match o with Some t => snd t | None => live end))) /\
              ps_has p (modified cmp) =
                pmem p (rd_modified (ref_diff s tr live (match o with Some t => snd t | None => live end))) /\
              ps_has p (added cmp) =
                pmem p (rd_added (ref_diff s tr live (match o with Some t => snd t | None => live end)))).
    { intros p Hp Hne. destruct Hres as [[Eo Hv]|Eo]; rewrite Eo; cbn [snd].
      - (* "nothing changed": the answer is the live object, equal to the pruned one *)
        rewrite (RefDiffVeqb.ref_diff_same s R Hok Hfam tr live Htr Hwl Hcl). cbn [rd_removed rd_modified rd_added pmem existsb].
        apply (RefDiffVeqb.compare_veqb_quiet s R Hok Hfam Hpure tr live px cmp Htr Hwl HwP Hcl HcP Hv Hcmp p Hp Hne).
      - apply (compare_refines_ref_diff_restricted s R tr live px cmp Hok Hfam Hpure Htr Hwl HwP Hcl HcP Hcmp p Hp Hne). }
    split.
    - (* the applier *)
      rewrite Hw. unfold mfp. rewrite mf_get_set_same. cbn [mr_set].
      destruct (ps_empty fs); [reflexivity|].
      cbn [mr_applied mr_ver mr_set]. split; [reflexivity|]. split; [reflexivity|]. intros p _ _. reflexivity.
    - (* the others *)
      apply (others_exact mf mf' mf' mgr cmp _ (fun m _ => eq_refl)); [|exact Href].
      intros m Hm. pose proof (Hoth m Hm) as Ho. unfold mfp in Ho.
      rewrite (mf_get_set_other m mgr _ mf Hm) in Ho. exact Ho.
  Qed.

  (* ================= at every reachable state ================= *)

  Corollary update_records_exact_along_histories : forall ops mgr obj o mf',
    setting_ok c R ver -> Forall (op_ok c ver) ops -> op_ok c ver (HUpdate mgr obj) ->
    let live := fst (run c ver ops) in
    let mf := snd (run c ver ops) in
    update_op c (ver, live) (ver, obj) ver mf mgr = UOk (o, mf') ->
    let d := ref_diff s tr live obj in
    let touched (p : path) := pmem p (rd_removed d) || pmem p (rd_modified d) || pmem p (rd_added d) in
    o = (ver, obj) /\
    (forall p, wf_path p = true -> p <> [] ->
       let before := match mf_get mgr mf with Some r => ps_has p (mr_set r) | None => false end in
       let after := (before && negb (pmem p (rd_removed d))) || pmem p (rd_modified d) || pmem p (rd_added d) in
       match mf_get mgr mf' with
       | Some r' => mr_applied r' = false /\ mr_ver r' = ver /\ ps_has p (mr_set r') = after
       | None => after = false
       end) /\
    (forall m, m <> mgr ->
       forall p, wf_path p = true -> p <> [] ->
       match mf_get m mf with
       | Some r =>
           match mf_get m mf' with
           | Some r' => mr_applied r' = mr_applied r /\ mr_ver r' = mr_ver r /\
                        ps_has p (mr_set r') = (ps_has p (mr_set r) && negb (touched p))
           | None => (ps_has p (mr_set r) && negb (touched p)) = false
           end
       | None => mf_get m mf' = None
       end) /\
    (forall m r', mf_get m mf' = Some r' -> ps_empty (mr_set r') = false).
  Proof.
    intros ops mgr obj o mf' Hset Hall Hop live mf Hupdate.
    exact (update_records_exact live mf mgr obj o mf' Hset (reachable_states_ok c R ver ops Hset Hall) Hop Hupdate).
  Qed.

  Corollary apply_records_exact_along_histories : forall ops mgr cfg force o mf' fs,
    setting_ok c R ver -> Forall (op_ok c ver) ops -> op_ok c ver (HApply mgr cfg force) ->
    let live := fst (run c ver ops) in
    let mf := snd (run c ver ops) in
    apply_op c (ver, live) (ver, cfg) ver mf mgr force = UOk (o, mf') ->
    to_field_set s tr cfg = Some fs ->
    let res := match o with Some t => snd t | None => live end in
    let d := ref_diff s tr live res in
    let touched (p : path) := pmem p (rd_removed d) || pmem p (rd_modified d) || pmem p (rd_added d) in
    (match mf_get mgr mf' with
     | Some r' => mr_applied r' = true /\ mr_ver r' = ver /\
                  forall p, wf_path p = true -> p <> [] -> ps_has p (mr_set r') = ps_has p fs
     | None => ps_empty fs = true
     end) /\
    (forall m, m <> mgr ->
       forall p, wf_path p = true -> p <> [] ->
       match mf_get m mf with
       | Some r =>
           match mf_get m mf' with
           | Some r' => mr_applied r' = mr_applied r /\ mr_ver r' = mr_ver r /\
                        ps_has p (mr_set r') = (ps_has p (mr_set r) && negb (touched p))
           | None => (ps_has p (mr_set r) && negb (touched p)) = false
           end
       | None => mf_get m mf' = None
       end).
  Proof.
    intros ops mgr cfg force o mf' fs Hset Hall Hop live mf Happly Hfs.
    exact (apply_records_exact live mf mgr cfg force o mf' fs Hset
             (reachable_states_ok c R ver ops Hset Hall) Hop Happly Hfs).
  Qed.
End RecordsHistory.

(* ================= non-vacuity ================= *)

(* At the final state of the history [History.hx_ops] over the example schema
   (object [hx_obj]; "a" owns aa and the member y with its name, "b" the member z with its
   name and vv, "c" mm.k, "d" y.vv):
   - manager "e" UPDATES the object, removing the map mm (whose entry k is owned by "c") and
     changing the field vv of member z (owned by "b");
   - manager "a" APPLIES (forced) a configuration made of member z only, abandoning aa and
     the member y (whose field vv is owned by "d") and changing z.vv (owned by "b").
   The operations are admissible and succeed (by evaluation); what the records become follows
   FROM THE THEOREMS and the reference diffs: "e" owns z.vv, not flagged; "b" keeps z and
   loses z.vv; the record of "c" (resp. "d") disappears; "a" owns z, z.name, z.vv, flagged. *)
Section Example.
  Open Scope string_scope.
  Let F := PEField.
  Let K (n : string) := PEKey [("name", VStr n)].
  Let item (n : string) (v : Z) := VMap [("name", VStr n); ("vv", VInt v)].

  (* evaluates the closed right-hand side of a membership equation about the record [r] *)
  Local Ltac eval_has H r :=
    match type of H with
    | context [ps_has ?p (mr_set r) = ?b] =>
        let v := eval vm_compute in b in change (ps_has p (mr_set r) = b) with (ps_has p (mr_set r) = v) in H
    end.

  Lemma rx_state_ok : state_ok ex_config "v1" hx_obj hx_mf.
  Proof. exact (proj2 (proj2 (proj2 history_example))). Qed.

  (* a record all of whose members are touched disappears *)
  Lemma record_gone : forall (mf' : managed) (m : string) (L T : list path),
    mf_ok mf' ->
    (forall m r', mf_get m mf' = Some r' -> ps_empty (mr_set r') = false) ->
    forallb wf_path L = true ->
    (forall p, wf_path p = true -> p <> [] ->
       match mf_get m mf' with
       | Some r' => ps_has p (mr_set r') = (ps_has p (ps_of_paths L) && negb (pmem p T))
       | None => True
       end) ->
    (forall p, pmem p L = true -> pmem p T = true) ->
    mf_get m mf' = None.
  Proof.
    intros mf' m L T Hmf Hne HL Hrec Hsub.
    destruct (mf_get m mf') as [r'|] eqn:Eg; [exfalso|reflexivity].
    destruct (ps_nonempty_has (mr_set r') (mf_ok_get mf' m r' Hmf Eg) (Hne m r' Eg)) as (p & Hp & Hpne & Hh).
    pose proof (Hrec p Hp Hpne) as Hr. rewrite Hh, (ps_has_of_paths L p HL Hp Hpne) in Hr.
    destruct (pmem p L) eqn:EL; [|discriminate Hr].
    rewrite (Hsub p EL) in Hr. discriminate Hr.
  Qed.

  (* a list of paths is part of another: case analysis on the path comparisons *)
  Local Ltac pmem_sub :=
    let p := fresh "p" in
    intros p; unfold pmem; cbn [existsb app];
    repeat match goal with |- context [patheqb p ?q] => destruct (patheqb p q) end;
    cbn; intros; (reflexivity || discriminate).

  (* ---------------- the update ---------------- *)
  Definition rx_obj : value := VMap [("aa", VInt 2); ("items", VList [item "y" 7; item "z" 4])].

  Definition rx_mf_update : managed :=
    [("a", mkRec (ps_of_paths [[F "aa"]; [F "items"; K "y"]; [F "items"; K "y"; F "name"]]) "v1" true);
     ("b", mkRec (ps_of_paths [[F "items"; K "z"]; [F "items"; K "z"; F "name"]]) "v1" false);
     ("d", mkRec (ps_of_paths [[F "items"; K "y"; F "vv"]]) "v1" false);
     ("e", mkRec (ps_of_paths [[F "items"; K "z"; F "vv"]]) "v1" false)].

  Lemma rx_update_ok : op_ok ex_config "v1" (HUpdate "e" rx_obj).
  Proof. split; vm_compute; reflexivity. Qed.

  Lemma rx_update_diff :
    ref_diff (schema_of ex_config "v1") (tr_of ex_config "v1") hx_obj rx_obj =
    mkRD [[F "mm"]; [F "mm"; F "k"]] [[F "items"; K "z"; F "vv"]] [].
  Proof. vm_compute. reflexivity. Qed.

  Example records_example_update :
    setting_ok ex_config FieldSetLaws.ex_R "v1" /\
    Forall (op_ok ex_config "v1") hx_ops /\ run ex_config "v1" hx_ops = (hx_obj, hx_mf) /\
    op_ok ex_config "v1" (HUpdate "e" rx_obj) /\
    update_op ex_config ("v1", hx_obj) ("v1", rx_obj) "v1" hx_mf "e" = UOk (("v1", rx_obj), rx_mf_update) /\
    forall o mf',
      update_op ex_config ("v1", hx_obj) ("v1", rx_obj) "v1" hx_mf "e" = UOk (o, mf') ->
      o = ("v1", rx_obj) /\
      (exists re, mf_get "e" mf' = Some re /\ mr_applied re = false /\
                  ps_has [F "items"; K "z"; F "vv"] (mr_set re) = true /\
                  ps_has [F "mm"; F "k"] (mr_set re) = false /\
                  ps_has [F "items"; K "z"] (mr_set re) = false) /\
      (exists rb, mf_get "b" mf' = Some rb /\ mr_applied rb = false /\
                  ps_has [F "items"; K "z"; F "vv"] (mr_set rb) = false /\
                  ps_has [F "items"; K "z"] (mr_set rb) = true /\
                  ps_has [F "items"; K "z"; F "name"] (mr_set rb) = true) /\
      mf_get "c" mf' = None /\
      (exists ra, mf_get "a" mf' = Some ra /\ mr_applied ra = true /\ ps_has [F "aa"] (mr_set ra) = true).
  Proof.
    split; [exact ex_setting_ok|]. split; [exact hx_ops_ok|]. split; [exact hx_run|].
    split; [exact rx_update_ok|]. split; [vm_compute; reflexivity|].
    intros o mf' H.
    pose proof (update_records_exact ex_config FieldSetLaws.ex_R "v1" hx_obj hx_mf "e" rx_obj o mf'
                  ex_setting_ok rx_state_ok rx_update_ok H) as T.
    cbv zeta in T. rewrite rx_update_diff in T. cbn [rd_removed rd_modified rd_added] in T.
    destruct T as (To & Tmgr & Toth & Tne).
    destruct (update_step ex_config FieldSetLaws.ex_R "v1" hx_obj hx_mf "e" rx_obj o mf'
                ex_setting_ok rx_state_ok rx_update_ok H) as [_ Hst'].
    pose proof (so_mf ex_config "v1" rx_obj mf' Hst') as Hmf'.
    split; [exact To|]. split; [|split; [|split]].
    - (* the updater *)
      pose proof (Tmgr [F "items"; K "z"; F "vv"] eq_refl ltac:(discriminate)) as T1.
      pose proof (Tmgr [F "mm"; F "k"] eq_refl ltac:(discriminate)) as T2.
      pose proof (Tmgr [F "items"; K "z"] eq_refl ltac:(discriminate)) as T3.
      cbv zeta in T1, T2, T3.
      destruct (mf_get "e" mf') as [re|]; [|vm_compute in T1; discriminate T1].
      exists re. split; [reflexivity|].
      destruct T1 as (Ha & _ & T1). destruct T2 as (_ & _ & T2). destruct T3 as (_ & _ & T3).
      eval_has T1 re. eval_has T2 re. eval_has T3 re. auto.
    - (* "b" loses z.vv, keeps z and z.name *)
      assert (Hb : "b" <> "e") by discriminate.
      pose proof (Toth "b" Hb [F "items"; K "z"; F "vv"] eq_refl ltac:(discriminate)) as T1.
      pose proof (Toth "b" Hb [F "items"; K "z"] eq_refl ltac:(discriminate)) as T2.
      pose proof (Toth "b" Hb [F "items"; K "z"; F "name"] eq_refl ltac:(discriminate)) as T3.
      change (mf_get "b" hx_mf) with
        (Some (mkRec (ps_of_paths [[F "items"; K "z"]; [F "items"; K "z"; F "name"]; [F "items"; K "z"; F "vv"]]) "v1" false))
        in T1, T2, T3.
      cbv iota beta in T1, T2, T3.
      destruct (mf_get "b" mf') as [rb|]; [|vm_compute in T2; discriminate T2].
      exists rb. split; [reflexivity|].
      destruct T1 as (Ha & _ & T1). destruct T2 as (_ & _ & T2). destruct T3 as (_ & _ & T3).
      eval_has T1 rb. eval_has T2 rb. eval_has T3 rb. cbn [mr_applied] in Ha. auto.
    - (* the record of "c" disappears *)
      assert (Hc : "c" <> "e") by discriminate.
      apply (record_gone mf' "c" [[F "mm"; F "k"]]
               (([[F "mm"]; [F "mm"; F "k"]] ++ [[F "items"; K "z"; F "vv"]]) ++ []) Hmf' Tne eq_refl).
      + intros p Hp Hpne. pose proof (Toth "c" Hc p Hp Hpne) as T1.
        change (mf_get "c" hx_mf) with (Some (mkRec (ps_of_paths [[F "mm"; F "k"]]) "v1" true)) in T1.
        cbv iota beta in T1. cbn [mr_set] in T1.
        destruct (mf_get "c" mf') as [rc|]; [|exact I].
        destruct T1 as (_ & _ & T1). rewrite T1. rewrite !FieldSetBase.pmem_app. reflexivity.
      + pmem_sub.
    - (* "a" is untouched *)
      assert (Ha : "a" <> "e") by discriminate.
      pose proof (Toth "a" Ha [F "aa"] eq_refl ltac:(discriminate)) as T1.
      change (mf_get "a" hx_mf) with
        (Some (mkRec (ps_of_paths [[F "aa"]; [F "items"; K "y"]; [F "items"; K "y"; F "name"]]) "v1" true)) in T1.
      cbv iota beta in T1.
      destruct (mf_get "a" mf') as [ra|]; [|vm_compute in T1; discriminate T1].
      exists ra. split; [reflexivity|]. destruct T1 as (Hap & _ & T1). eval_has T1 ra.
      cbn [mr_applied] in Hap. auto.
  Qed.

  (* ---------------- the apply ---------------- *)
  Definition rx_cfg : value := VMap [("items", VList [item "z" 9])].
  Definition rx_res : value := VMap [("items", VList [item "z" 9]); ("mm", VMap [("k", VInt 2)])].
  Definition rx_fs : pset := ps_of_paths [[F "items"; K "z"]; [F "items"; K "z"; F "name"]; [F "items"; K "z"; F "vv"]].

  Definition rx_mf_apply : managed :=
    [("a", mkRec rx_fs "v1" true);
     ("b", mkRec (ps_of_paths [[F "items"; K "z"]; [F "items"; K "z"; F "name"]]) "v1" false);
     ("c", mkRec (ps_of_paths [[F "mm"; F "k"]]) "v1" true)].

  Lemma rx_apply_ok : op_ok ex_config "v1" (HApply "a" rx_cfg true).
  Proof. repeat split; try (vm_compute; reflexivity); vm_compute; exact I. Qed.

  Lemma rx_cfg_fs : to_field_set (schema_of ex_config "v1") (tr_of ex_config "v1") rx_cfg = Some rx_fs.
  Proof. vm_compute. reflexivity. Qed.

  Lemma rx_apply_diff :
    ref_diff (schema_of ex_config "v1") (tr_of ex_config "v1") hx_obj rx_res =
    mkRD [[F "aa"]; [F "items"; K "y"]; [F "items"; K "y"; F "name"]; [F "items"; K "y"; F "vv"]]
         [[F "items"; K "z"; F "vv"]] [].
  Proof. vm_compute. reflexivity. Qed.

  Example records_example_apply :
    op_ok ex_config "v1" (HApply "a" rx_cfg true) /\
    apply_op ex_config ("v1", hx_obj) ("v1", rx_cfg) "v1" hx_mf "a" true = UOk (Some ("v1", rx_res), rx_mf_apply) /\
    forall mf',
      apply_op ex_config ("v1", hx_obj) ("v1", rx_cfg) "v1" hx_mf "a" true = UOk (Some ("v1", rx_res), mf') ->
      (exists ra, mf_get "a" mf' = Some ra /\ mr_applied ra = true /\
                  ps_has [F "items"; K "z"; F "vv"] (mr_set ra) = true /\
                  ps_has [F "aa"] (mr_set ra) = false /\
                  ps_has [F "items"; K "y"] (mr_set ra) = false) /\
      (exists rb, mf_get "b" mf' = Some rb /\ mr_applied rb = false /\
                  ps_has [F "items"; K "z"; F "vv"] (mr_set rb) = false /\
                  ps_has [F "items"; K "z"] (mr_set rb) = true) /\
      (exists rc, mf_get "c" mf' = Some rc /\ mr_applied rc = true /\ ps_has [F "mm"; F "k"] (mr_set rc) = true) /\
      mf_get "d" mf' = None.
  Proof.
    split; [exact rx_apply_ok|]. split; [vm_compute; reflexivity|].
    intros mf' H.
    pose proof (apply_records_exact ex_config FieldSetLaws.ex_R "v1" hx_obj hx_mf "a" rx_cfg true
                  (Some ("v1", rx_res)) mf' rx_fs ex_setting_ok rx_state_ok rx_apply_ok H rx_cfg_fs) as T.
    cbv zeta in T. cbn [snd] in T. rewrite rx_apply_diff in T. cbn [rd_removed rd_modified rd_added] in T.
    destruct T as (Tmgr & Toth).
    split; [|split; [|split]].
    - (* the applier *)
      destruct (mf_get "a" mf') as [ra|]; [|vm_compute in Tmgr; discriminate Tmgr].
      exists ra. split; [reflexivity|]. destruct Tmgr as (Ha & _ & Th).
      split; [exact Ha|].
      rewrite (Th [F "items"; K "z"; F "vv"] eq_refl ltac:(discriminate)),
              (Th [F "aa"] eq_refl ltac:(discriminate)), (Th [F "items"; K "y"] eq_refl ltac:(discriminate)).
      vm_compute. auto.
    - (* "b" loses z.vv *)
      assert (Hb : "b" <> "a") by discriminate.
      pose proof (Toth "b" Hb [F "items"; K "z"; F "vv"] eq_refl ltac:(discriminate)) as T1.
      pose proof (Toth "b" Hb [F "items"; K "z"] eq_refl ltac:(discriminate)) as T2.
      change (mf_get "b" hx_mf) with
        (Some (mkRec (ps_of_paths [[F "items"; K "z"]; [F "items"; K "z"; F "name"]; [F "items"; K "z"; F "vv"]]) "v1" false))
        in T1, T2.
      cbv iota beta in T1, T2.
      destruct (mf_get "b" mf') as [rb|]; [|vm_compute in T2; discriminate T2].
      exists rb. split; [reflexivity|].
      destruct T1 as (Ha & _ & T1). destruct T2 as (_ & _ & T2).
      eval_has T1 rb. eval_has T2 rb. cbn [mr_applied] in Ha. auto.
    - (* "c" is untouched *)
      assert (Hc : "c" <> "a") by discriminate.
      pose proof (Toth "c" Hc [F "mm"; F "k"] eq_refl ltac:(discriminate)) as T1.
      change (mf_get "c" hx_mf) with (Some (mkRec (ps_of_paths [[F "mm"; F "k"]]) "v1" true)) in T1.
      cbv iota beta in T1.
      destruct (mf_get "c" mf') as [rc|]; [|vm_compute in T1; discriminate T1].
      exists rc. split; [reflexivity|]. destruct T1 as (Hap & _ & T1). eval_has T1 rc.
      cbn [mr_applied] in Hap. auto.
    - (* the record of "d" disappears: the member y goes away with the field "d" owned *)
      pose proof (apply_step ex_config FieldSetLaws.ex_R "v1" hx_obj hx_mf "a" rx_cfg true
                    (Some ("v1", rx_res)) mf' ex_setting_ok rx_state_ok rx_apply_ok H) as Hst'.
      cbn [snd] in Hst'.
      pose proof (so_mf ex_config "v1" rx_res mf' Hst') as Hmf'.
      pose proof (so_nonempty ex_config "v1" rx_res mf' Hst') as Tne.
      assert (Hd : "d" <> "a") by discriminate.
      apply (record_gone mf' "d" [[F "items"; K "y"; F "vv"]]
               (([[F "aa"]; [F "items"; K "y"]; [F "items"; K "y"; F "name"]; [F "items"; K "y"; F "vv"]]
                   ++ [[F "items"; K "z"; F "vv"]]) ++ []) Hmf' Tne eq_refl).
      + intros p Hp Hpne. pose proof (Toth "d" Hd p Hp Hpne) as T1.
        change (mf_get "d" hx_mf) with (Some (mkRec (ps_of_paths [[F "items"; K "y"; F "vv"]]) "v1" false)) in T1.
        cbv iota beta in T1. cbn [mr_set] in T1.
        destruct (mf_get "d" mf') as [rd|]; [|exact I].
        destruct T1 as (_ & _ & T1). rewrite T1. rewrite !FieldSetBase.pmem_app. reflexivity.
      + pmem_sub.
  Qed.
End Example.

