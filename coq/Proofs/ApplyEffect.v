(* C01, general theorem: an applied configuration takes effect.
   Single API version, identity converter, no ignore configuration.

   After a successful Apply the resulting object agrees with the applied configuration on
   every field the configuration specifies, whatever the live object contained and whatever
   the other managers own.

   Structure of the proof.  Apply computes  merged = merge live cfg  (which agrees with cfg:
   Proofs/MergeAgree.v) and then prunes it.  With one version every object the prune stage
   builds is  remove merged T  for a set T computed from field sets:
     pruned0 = remove merged (en last)                                   (last: the applier's record)
     pass:     remove merged (en(fs merged) \ (en(fs pruned) U en(owned)))  (add back owned items)
     final:    remove merged ((en(fs merged) \ en(fs pruned)) n en last)    (dangling items)
   [pass_nice] shows that a pass yields the removal of a set that is "nice" for merged
   (Proofs/RemoveFrame.v), mentions only paths of merged and avoids every path of cfg;
   [dangling_frame] shows the same for the final set, whence agreement by the frame lemma
   [remove_frame].  The second half of the file unfolds [apply_op] down to these sets. *)
From Coq Require Import List ZArith String Bool Arith Lia.
From SMD Require Import Model.Value Model.Order Model.PathElem Model.PathSet Model.Schema Model.Walk
  Model.Validate Model.FieldSet Model.Remove Model.Merge Model.Compare Model.Matcher Model.Reconcile
  Model.Updater
  Spec.PathsAsSets Spec.RefValid Spec.Resolve Spec.Agree Spec.Examples
  Proofs.OrderLaws Proofs.PathSetLaws Proofs.SchemaOk Proofs.FieldSetBase Proofs.FieldSetPaths
  Proofs.FieldSetWf Proofs.FieldSetLaws Proofs.RemoveAbsent Proofs.RemoveWf Proofs.ResolveLaws
  Proofs.UpdaterLaws Proofs.UpdaterLaws2 Proofs.MergeLaws Proofs.MergeAgree
  Proofs.RemoveFrame Proofs.EnLaws Proofs.NodeSet Proofs.KeyFields Proofs.VeqbResolve
  Proofs.SetCheckers.
Import ListNotations.
Open Scope bool_scope.
Open Scope list_scope.

Local Arguments ps_has : simpl never.
Local Arguments ps_with_prefix : simpl never.
Local Arguments ps_empty : simpl never.

(* ================= the hypotheses of the theorem ================= *)

(* the converter returns its input whatever the versions *)
Definition conv_id (c : config) : Prop := forall n from to v, cfg_convert c n from to v = COk v.

(* schemas whose keyed lists have scalar key fields without default values *)
Definition keys_plain (s : schema) (R : typeref -> Prop) : Prop :=
  keys_nodefault s R /\ keys_scalar s R.

(* no recorded set needs reconciling with the (unchanged) schema: none has a member beneath
   a field that the schema declares atomic *)
Definition records_current (c : config) (ver : string) (mf : managed) : Prop :=
  forall m r s', mf_get m mf = Some r ->
    reconcile_field_set (schema_of c ver) (tr_of c ver) (mr_set r) <> Some (Some s').

(* the record of the applying manager: whoever owns (anything beneath) a key field of a
   keyed-list member owns the member; nothing is owned beneath a member of atomic type *)
Definition applier_record_ok (s : schema) (tr : typeref) (S : pset) : Prop :=
  keys_closed S /\ atomic_items_free s tr S.

(* the record of another manager: whoever owns a keyed-list member of the live object owns
   the key fields the live object gives it *)
Definition owns_live_keys (s : schema) (tr : typeref) (live : value) (S : pset) : Prop :=
  forall (pre : path) fl k,
    wf_path (pre ++ [PEKey fl; PEField k]) = true -> In k (map fst fl) ->
    ps_has (pre ++ [PEKey fl]) S = true ->
    present s tr live (pre ++ [PEKey fl; PEField k]) = true ->
    ps_has (pre ++ [PEKey fl; PEField k]) S = true.

(* ================= the sets the prune stage removes ================= *)

Lemma veqb_nil_list : forall x, veqb x (VList []) = true -> x = VList [].
Proof.
  intros x H. destruct x as [| | | | |l|m]; try (simpl in H; discriminate).
  rewrite veqb_list in H. destruct l; [reflexivity|discriminate].
Qed.

Lemma plain_sub : forall s R, schema_ok s R -> forall p v tr tr' x, R tr -> wf_value v = true ->
  wf_path p = true -> plain v = true ->
  resolve_path s tr v p = Some (RNode tr' x) -> plain x = true.
Proof.
  intros s R Hok p. induction p as [|e rest IH]; intros v tr tr' x Htr Hwf Hp Hpl Hres.
  - simpl in Hres. inversion Hres; subst. exact Hpl.
  - apply wf_path_cons in Hp. destruct Hp as [He Hrest].
    destruct (kind_of s tr v) as [|t m|t l|] eqn:Ek.
    + rewrite resolve_path_leaf in Hres by (rewrite Ek; exact I). discriminate.
    + destruct (kind_map_inv _ _ _ _ _ Ek) as (a & Hr & Ham & Hv & _ & _). subst v.
      destruct e as [k|fl|ev|i];
        try (rewrite (resolve_path_map_other _ _ _ _ _ _ _ Ek) in Hres by exact I; discriminate).
      rewrite (resolve_path_map _ _ _ _ _ _ _ Ek) in Hres.
      destruct (assoc_get k m) as [c|] eqn:Eg; [|discriminate].
      pose proof (assoc_get_In m k c Eg) as Hin.
      apply (IH c (field_type t k) tr' x); auto.
      * eapply (so_map s R Hok); eauto.
      * apply (wf_value_map_in m k c Hwf Hin).
      * apply (plain_map_in m k c Hpl Hin).
    + destruct (kind_list_inv _ _ _ _ _ Ek) as (a & Hr & Hal & Hv & _ & _). subst v.
      rewrite (resolve_path_list_occ s R Hok tr _ t l e rest Htr Hwf Ek He) in Hres.
      destruct (forallb (ValidateLaws.has_pe s t) l && is_keyval e); [|discriminate].
      destruct (occ s t e l) as [|x0 [|y more]] eqn:Eo; [discriminate| |destruct rest; discriminate].
      assert (Hx0 : In x0 (occ s t e l)) by (rewrite Eo; left; reflexivity).
      apply occ_In in Hx0. destruct Hx0 as [Hx0 _].
      apply (IH x0 (list_elem t) tr' x); auto.
      * eapply (so_list s R Hok); eauto.
      * apply (wf_value_list_in l x0 Hwf Hx0).
      * apply (plain_list_in l x0 Hpl Hx0).
    + rewrite resolve_path_leaf in Hres by (rewrite Ek; exact I). discriminate.
Qed.

Section Core.
  Variables (s : schema) (R : typeref -> Prop) (tr : typeref).
  Hypothesis Hok : schema_ok s R.
  Hypothesis Hfam : family_refs s R.
  Hypothesis Htr : R tr.
  Hypothesis Hnd : keys_nodefault s R.
  Hypothesis Hks : keys_scalar s R.

  Variables (live cfg M : value).
  Hypothesis Hwl : wf_value live = true.
  Hypothesis Hwc : wf_value cfg = true.
  Hypothesis Hcc : conforms s tr false cfg = true.
  Hypothesis Hpl : plain cfg = true.
  Hypothesis Hroot : granular s tr cfg.
  Hypothesis HwM : wf_value M = true.
  Hypothesis HcM : conforms s tr true M = true.
  Hypothesis Hagr : AgrP s tr cfg M.
  Hypothesis Hlf : LeafP s tr (Some live) (Some cfg) M.

  (* the field set of the configuration, and the union U of the sets recorded for the
     managers (the applier's new record included) *)
  Variables (set0 U : pset).
  Hypothesis Hset0 : to_field_set s tr cfg = Some set0.
  Hypothesis HU : ps_ok U = true.
  Hypothesis HUcfg : forall q, wf_path q = true -> ps_has q set0 = true -> ps_has q U = true.
  Hypothesis HUown : forall q, wf_path q = true -> ps_has q U = true ->
    ps_has q set0 = true \/
    exists S, ps_ok S = true /\ owns_live_keys s tr live S /\ ps_has q S = true /\
              forall q', wf_path q' = true -> ps_has q' S = true -> ps_has q' U = true.

  Let Hcc' : conforms s tr true cfg = true := MergeBase.conforms_dup_mono s cfg tr Hcc.

  (* T contains no path of the configuration *)
  Definition avoids (T : pset) : Prop :=
    forall q c, wf_path q = true -> q <> [] -> resolve_path s tr cfg q = Some c ->
      touches q T = false.

  (* P is the removal from M of a nice set; when [b], one made of paths of M that avoids
     the configuration *)
  Definition nice_rm (b : bool) (P : value) : Prop :=
    exists T, nice s tr M T /\ P = remove s tr M T /\
      (b = true -> sub_present s tr M T /\ avoids T).

  Lemma nice_rm_weaken : forall b P, nice_rm true P -> nice_rm b P.
  Proof. intros b P (T & Hn & HP & Hb). exists T. split; [exact Hn|]. split; [exact HP|]. intros _. apply Hb. reflexivity. Qed.

  Lemma nice_rm_obj : forall b P, nice_rm b P ->
    wf_value P = true /\ conforms s tr true P = true.
  Proof.
    intros b P (T & Hn & -> & _). split.
    - apply remove_wf. exact HwM.
    - apply (remove_conforms s R Hok Hfam Hnd M tr T Htr HwM HcM Hn).
  Qed.

  (* ---------- the nodes of the configuration ---------- *)

  Lemma cfg_node_leaf : forall q c, wf_path q = true -> resolve_path s tr cfg q = Some c ->
    exists r tr' x, wf_path r = true /\ resolve_path s tr cfg (q ++ r) = Some (RNode tr' x) /\
      leafy s tr' x /\ x <> VList [].
  Proof.
    intros q c Hq Hres. destruct c as [tq xq|tq xs].
    2:{ exfalso. apply (conforms_no_dup s R Hok Hfam q cfg tr tq xs Htr Hwc Hcc Hq Hres). }
    destruct (resolve_sub s R Hok Hfam q cfg tr false tq xq Htr Hwc Hcc Hq Hres) as (Htq & Hwq & Hcq).
    pose proof (plain_sub s R Hok q cfg tr tq xq Htr Hwc Hq Hpl Hres) as Hpq.
    destruct (plain_visible_value s R Hok Hfam xq tq Htq Hwq Hcq Hpq) as (r & tr' & x & Hr & Hres' & Hl & Hx).
    exists r, tr', x. repeat split; auto. rewrite resolve_path_app, Hres. exact Hres'.
  Qed.

  Lemma cfg_nodes_in : forall q c, wf_path q = true -> q <> [] ->
    resolve_path s tr cfg q = Some c -> ps_has q (ps_en s tr set0) = true.
  Proof.
    intros q c Hq Hne Hres.
    destruct (cfg_node_leaf q c Hq Hres) as (r & tr' & x & Hr & Hres' & Hl & Hx).
    rewrite (to_field_set_node_set s R tr cfg set0 Htr Hwc Hcc' Hset0).
    apply (node_set_has s R Hok Hfam q r tr cfg tr' x); auto.
    apply ReconcileBase.wf_path_app. auto.
  Qed.

  Lemma cfg_nodes_in_U : forall q c, wf_path q = true -> q <> [] ->
    resolve_path s tr cfg q = Some c -> ps_has q (ps_en s tr U) = true.
  Proof.
    intros q c Hq Hne Hres.
    apply (en_mono_sub s tr set0 U); auto.
    - apply (to_field_set_ok s R tr cfg set0 Hok Htr Hwc Hset0).
    - eapply cfg_nodes_in; eauto.
  Qed.

  (* an object that agrees with the configuration has the configuration's nodes *)
  Lemma cfg_nodes_in_obj : forall P q c, wf_value P = true -> conforms s tr true P = true ->
    AgrP s tr cfg P -> wf_path q = true -> q <> [] ->
    resolve_path s tr cfg q = Some c -> ps_has q (node_set s tr P) = true.
  Proof.
    intros P q c HwP HcP HagrP Hq Hne Hres.
    destruct (cfg_node_leaf q c Hq Hres) as (r & tr' & x & Hr & Hres' & Hl & Hx).
    assert (Hqr : wf_path (q ++ r) = true) by (apply ReconcileBase.wf_path_app; auto).
    destruct (HagrP (q ++ r) _ Hqr Hres') as (o & Ho & Heq).
    assert (Hleaf : rnode_is_leaf s (RNode tr' x) = true).
    { simpl. unfold leafy in Hl. destruct (kind_of s tr' x); try contradiction; reflexivity. }
    specialize (Heq Hleaf).
    pose proof (rnode_eqb_leaf s (q ++ r) cfg P tr _ o Hres' Ho Heq Hleaf) as Hol.
    destruct o as [to y|to ys]; [|discriminate].
    apply (node_set_has s R Hok Hfam q r tr P to y); auto.
    - unfold leafy. simpl in Hol. destruct (kind_of s to y); try discriminate; exact I.
    - intros ->. simpl in Heq. apply Hx. apply veqb_nil_list. exact Heq.
  Qed.

  (* ---------- a key field of a member that a removal keeps ---------- *)

  Lemma key_item_kept : forall T0 (pre : path) fl k tk x, nice s tr M T0 ->
    wf_path (pre ++ [PEKey fl; PEField k]) = true -> In k (map fst fl) ->
    resolve_path s tr M (pre ++ [PEKey fl; PEField k]) = Some (RNode tk x) ->
    (is_scalar x = true \/ x = VNull) ->
    present s tr (remove s tr M T0) (pre ++ [PEKey fl]) = true ->
    ps_has (pre ++ [PEKey fl; PEField k]) (node_set s tr (remove s tr M T0)) = true.
  Proof.
    intros T0 pre fl k tk x Hn0 Hwf Hin Hres Hsimple Hpr.
    pose proof (n_ok _ _ _ _ Hn0) as HT0.
    assert (HwI : wf_path (pre ++ [PEKey fl]) = true).
    { apply (wf_path_key_prefix pre fl k []). exact Hwf. }
    assert (Happ : pre ++ [PEKey fl; PEField k] = (pre ++ [PEKey fl]) ++ [PEField k])
      by (rewrite <- app_assoc; reflexivity).
    assert (HtI : touches (pre ++ [PEKey fl]) T0 = false).
    { destruct (touches (pre ++ [PEKey fl]) T0) eqn:E; [|reflexivity].
      unfold remove in Hpr.
      rewrite (remove_drops s R Hok Hfam Hnd _ M tr true T0 Htr HwM HcM Hn0 HwI E) in Hpr.
      discriminate. }
    assert (HtK : touches (pre ++ [PEKey fl; PEField k]) T0 = false).
    { rewrite Happ. rewrite touches_snoc by (auto; rewrite <- Happ; exact Hwf).
      rewrite HtI. cbn [orb]. rewrite <- Happ.
      destruct (ps_has (pre ++ [PEKey fl; PEField k]) T0) eqn:E; [|reflexivity].
      rewrite (n_guard _ _ _ _ Hn0 pre fl k [] Hwf Hin E) in HtI. discriminate. }
    assert (Hne : pre ++ [PEKey fl; PEField k] <> []) by (destruct pre; discriminate).
    destruct (remove_keeps s R Hok Hfam Hnd _ M tr true T0 _ Htr HwM HcM Hn0 Hwf Hne Hres HtK)
      as (n' & Hn' & Hsame).
    assert (Hl : leafy s tk x).
    { destruct Hsimple as [Hs|Hs]; [apply scalar_leafy; exact Hs|subst x; apply kind_null]. }
    assert (Hleaf : rnode_is_leaf s (RNode tk x) = true).
    { simpl. unfold leafy in Hl. destruct (kind_of s tk x); try contradiction; reflexivity. }
    rewrite (Hsame (or_intror Hsimple) Hleaf) in Hn'.
    pose proof (node_set_has s R Hok Hfam (pre ++ [PEKey fl; PEField k]) [] tr (remove s tr M T0) tk x Htr
                  (remove_wf s tr M T0 HwM)
                  (remove_conforms s R Hok Hfam Hnd M tr T0 Htr HwM HcM Hn0)) as Hhas.
    rewrite app_nil_r in Hhas. apply Hhas; auto.
    destruct Hsimple as [Hs|Hs]; intros ->; discriminate.
  Qed.

  (* a member of the node set of M through a key field *)
  Lemma key_path_in_M : forall (pre : path) fl k rest,
    wf_path (pre ++ PEKey fl :: PEField k :: rest) = true -> In k (map fst fl) ->
    ps_has (pre ++ PEKey fl :: PEField k :: rest) (node_set s tr M) = true ->
    rest = [] /\
    exists tk x, resolve_path s tr M (pre ++ [PEKey fl; PEField k]) = Some (RNode tk x) /\
      (is_scalar x = true \/ x = VNull) /\
      ps_has (pre ++ [PEKey fl]) (node_set s tr M) = true.
  Proof.
    intros pre fl k rest Hwf Hin Hhas.
    pose proof (node_set_present s R Hok Hfam tr M _ Htr HwM HcM Hwf Hhas) as Hpr.
    destruct (key_field_leaf s R Hok Hfam Hks pre fl k rest M tr true Htr HwM HcM Hwf Hin Hpr)
      as (-> & tk & x & Hres & Hsimple).
    split; [reflexivity|]. exists tk, x. repeat split; auto.
    assert (Happ : pre ++ [PEKey fl; PEField k] = (pre ++ [PEKey fl]) ++ [PEField k])
      by (rewrite <- app_assoc; reflexivity).
    apply (node_set_has s R Hok Hfam (pre ++ [PEKey fl]) [PEField k] tr M tk x); auto.
    - rewrite <- Happ. exact Hwf.
    - destruct pre; discriminate.
    - rewrite <- Happ. exact Hres.
    - destruct Hsimple as [Hs|Hs]; [apply scalar_leafy; exact Hs|subst x; apply kind_null].
    - destruct Hsimple as [Hs|Hs]; intros ->; discriminate.
  Qed.

  (* ---------- one pass of add-back ---------- *)

  Theorem pass_nice : forall b P SP SM, nice_rm b P ->
    to_field_set s tr M = Some SM -> to_field_set s tr P = Some SP ->
    nice_rm true
      (remove s tr M (ps_diff (ps_en s tr SM) (ps_union (ps_en s tr SP) (ps_en s tr U)))).
  Proof.
    intros b P SP SM HP HSM HSP.
    destruct (nice_rm_obj b P HP) as [HwP HcP].
    destruct HP as (T0 & Hn0 & -> & _).
    rewrite (to_field_set_node_set s R tr M SM Htr HwM HcM HSM).
    rewrite (to_field_set_node_set s R tr _ SP Htr HwP HcP HSP).
    set (P := remove s tr M T0) in *.
    pose proof (node_set_ok s R Hok tr M Htr HwM) as HokM.
    pose proof (node_set_ok s R Hok tr P Htr HwP) as HokP.
    pose proof (ps_en_ok s U tr HU) as HokEU.
    destruct (ps_union_spec _ _ HokP HokEU) as [HokUn HhasUn].
    destruct (ps_diff_spec _ _ HokM HokUn) as [HokT HhasT].
    set (T1 := ps_diff (node_set s tr M) (ps_union (node_set s tr P) (ps_en s tr U))) in *.
    assert (Hhas : forall q, wf_path q = true ->
              ps_has q T1 = ps_has q (node_set s tr M) &&
                            negb (ps_has q (node_set s tr P) || ps_has q (ps_en s tr U))).
    { intros q Hq. rewrite (HhasT q Hq), (HhasUn q Hq). reflexivity. }
    assert (Hsp : sub_present s tr M T1).
    { intros q Hq Hq1. rewrite (Hhas q Hq) in Hq1. apply andb_true_iff in Hq1.
      apply (node_set_present s R Hok Hfam tr M q Htr HwM HcM Hq). apply Hq1. }
    assert (Hav : avoids T1).
    { intros q c Hq Hne Hres. destruct (touches q T1) eqn:Et; [|reflexivity]. exfalso.
      apply (touches_iff q T1 HokT Hq) in Et. destruct Et as (n & Hn & Hmem).
      assert (Hq' : wf_path (firstn n q) = true) by (apply ReconcileBase.wf_path_firstn; exact Hq).
      assert (Hne' : firstn n q <> []).
      { apply firstn_nonnil; [lia|exact Hne]. }
      assert (Hres' : exists c', resolve_path s tr cfg (firstn n q) = Some c').
      { rewrite <- (firstn_skipn n q) in Hres. rewrite resolve_path_app in Hres.
        destruct (resolve_path s tr cfg (firstn n q)) as [c'|]; [eauto|discriminate]. }
      destruct Hres' as (c' & Hres').
      rewrite (Hhas _ Hq'), (cfg_nodes_in_U _ c' Hq' Hne' Hres'), orb_true_r, andb_false_r in Hmem.
      discriminate. }
    assert (Hkg : keys_guarded T1).
    { intros pre fl k rest Hwf Hin Hmem.
      destruct (touches (pre ++ [PEKey fl]) T1) eqn:Et; [reflexivity|]. exfalso.
      rewrite (Hhas _ Hwf) in Hmem. apply andb_true_iff in Hmem. destruct Hmem as [HinM Hnot].
      apply negb_true_iff in Hnot. apply orb_false_iff in Hnot. destruct Hnot as [HnotP HnotU].
      destruct (key_path_in_M pre fl k rest Hwf Hin HinM) as (-> & tk & x & Hres & Hsimple & HI).
      assert (HwI : wf_path (pre ++ [PEKey fl]) = true) by (eapply wf_path_key_prefix; eauto).
      pose proof (touches_false_has _ _ HokT HwI Et) as HI1.
      rewrite (Hhas _ HwI), HI in HI1. cbn [andb] in HI1.
      apply negb_false_iff in HI1. apply orb_true_iff in HI1.
      (* the key field is a node of the configuration: then it is owned *)
      assert (Hcfgk : forall c, resolve_path s tr cfg (pre ++ [PEKey fl; PEField k]) = Some c -> False).
      { intros c Hc. rewrite (cfg_nodes_in_U _ c Hwf ltac:(destruct pre; discriminate) Hc) in HnotU.
        discriminate. }
      destruct HI1 as [HIP|HIU].
      - (* the pruned object still has the member: it still has its key field *)
        pose proof (node_set_present s R Hok Hfam tr P _ Htr HwP HcP HwI HIP) as Hpr.
        pose proof (key_item_kept T0 pre fl k tk x Hn0 Hwf Hin Hres Hsimple Hpr) as Hkept.
        change (remove s tr M T0) with P in Hkept. rewrite Hkept in HnotP. discriminate.
      - (* somebody owns the member *)
        rewrite (en_has_nonfield s tr U pre (PEKey fl) HU HwI I) in HIU.
        destruct (HUown _ HwI HIU) as [Hcfg|(S & HS & HK2 & HIS & HSU)].
        + (* the configuration has the member, hence its key field *)
          pose proof (field_set_paths_resolve s R tr cfg set0 _ Hok Htr Hfam Hwc Hcc' Hset0 HwI Hcfg) as Hprc.
          unfold present in Hprc.
          destruct (resolve_path s tr cfg (pre ++ [PEKey fl])) as [[ti xi|ti xs]|] eqn:Eitem;
            [|exfalso; apply (conforms_no_dup s R Hok Hfam _ cfg tr ti xs Htr Hwc Hcc HwI Eitem)|discriminate].
          destruct (item_key_explicit s R Hok Hfam Hnd pre fl k cfg tr false ti xi Htr Hwc Hcc HwI Eitem Hin)
            as (m & val & -> & Hval).
          assert (Happ : pre ++ [PEKey fl; PEField k] = (pre ++ [PEKey fl]) ++ [PEField k])
            by (rewrite <- app_assoc; reflexivity).
          (* the member of M at the same place is a granular map of the same type *)
          rewrite Happ, resolve_path_app in Hres.
          destruct (resolve_path s tr M (pre ++ [PEKey fl])) as [[ti' xi'|ti' xs']|] eqn:EitemM; try discriminate.
          pose proof (resolve_type_eq s _ cfg M tr ti (VMap m) ti' xi' Eitem EitemM) as <-.
          destruct (kind_of s ti xi') as [|tm m'|tm l'|] eqn:Ekm;
            try (rewrite resolve_path_leaf in Hres by (rewrite Ekm; exact I); discriminate).
          2:{ rewrite (resolve_path_list_other _ _ _ _ _ _ _ Ekm) in Hres by reflexivity. discriminate. }
          destruct (kind_map_inv _ _ _ _ _ Ekm) as (a & Hr & Ham & _ & Hna & _).
          destruct a as [sc li ma]. simpl in Ham. subst ma.
          assert (Ekc : kind_of s ti (VMap m) = KMap tm m).
          { unfold kind_of. rewrite Hr, Hna. destruct m; [discriminate|reflexivity]. }
          apply (Hcfgk (RNode (field_type tm k) val)).
          rewrite Happ, resolve_path_app, Eitem, (resolve_path_map _ _ _ _ _ _ _ Ekc), Hval. reflexivity.
        + (* another manager owns the member: it owns the key field the live object gives it *)
          assert (Hleaf : rnode_is_leaf s (RNode tk x) = true).
          { simpl. destruct Hsimple as [Hs|Hs].
            - pose proof (scalar_leafy s tk x Hs) as Hl. unfold leafy in Hl.
              destruct (kind_of s tk x); try contradiction; reflexivity.
            - subst x. pose proof (kind_null s tk) as Hl. destruct (kind_of s tk VNull); try contradiction; reflexivity. }
          destruct (Hlf _ _ Hwf Hres Hleaf) as [Hfrom|Hfrom]; simpl in Hfrom; unfold has_leaf in Hfrom.
          * destruct (resolve_path s tr cfg (pre ++ [PEKey fl; PEField k])) as [c|] eqn:Ec; [|discriminate].
            apply (Hcfgk c eq_refl).
          * assert (Hprl : present s tr live (pre ++ [PEKey fl; PEField k]) = true).
            { unfold present. destruct (resolve_path s tr live (pre ++ [PEKey fl; PEField k])); [reflexivity|discriminate]. }
            pose proof (HK2 pre fl k Hwf Hin HIS Hprl) as HkS.
            rewrite (en_has_mono s tr U _ HU Hwf (HSU _ Hwf HkS)) in HnotU. discriminate. }
    exists T1. split; [|split; [reflexivity|intros _; split; assumption]].
    apply (sub_present_nice s R Hok Hfam M tr true T1 Htr HwM HcM HokT Hkg Hsp).
  Qed.

  (* ---------- the dangling-items stage ---------- *)

  Theorem dangling_frame : forall P1 S1 SM last, nice_rm true P1 ->
    to_field_set s tr M = Some SM -> to_field_set s tr P1 = Some S1 ->
    ps_ok last = true -> keys_closed last ->
    let T2 := ps_inter (ps_diff (ps_en s tr SM) (ps_en s tr S1)) (ps_en s tr last) in
    AgrP s tr cfg (remove s tr M T2) /\
    wf_value (remove s tr M T2) = true /\ conforms s tr true (remove s tr M T2) = true.
  Proof.
    intros P1 S1 SM last HP HSM HS1 Hlast Hkc.
    destruct (nice_rm_obj true P1 HP) as [HwP HcP].
    destruct HP as (T1 & Hn1 & -> & Hb). destruct (Hb eq_refl) as [Hsp1 Hav1]. clear Hb.
    rewrite (to_field_set_node_set s R tr M SM Htr HwM HcM HSM).
    rewrite (to_field_set_node_set s R tr _ S1 Htr HwP HcP HS1).
    set (P1 := remove s tr M T1) in *.
    assert (Hrootleaf : rnode_is_leaf s (RNode tr cfg) = false).
    { simpl. unfold granular in Hroot. destruct (kind_of s tr cfg); try contradiction; reflexivity. }
    assert (HagrP : AgrP s tr cfg P1).
    { apply (remove_frame s R Hok Hfam Hnd tr true cfg M T1 Htr HwM HcM Hn1 Hsp1 Hagr Hrootleaf Hav1). }
    pose proof (node_set_ok s R Hok tr M Htr HwM) as HokM.
    pose proof (node_set_ok s R Hok tr P1 Htr HwP) as HokP.
    pose proof (ps_en_ok s last tr Hlast) as HokL.
    destruct (ps_diff_spec _ _ HokM HokP) as [HokD HhasD].
    destruct (ps_inter_spec _ _ HokD HokL) as [HokT HhasT].
    set (T2 := ps_inter (ps_diff (node_set s tr M) (node_set s tr P1)) (ps_en s tr last)) in *.
    assert (Hhas : forall q, wf_path q = true ->
              ps_has q T2 = ps_has q (node_set s tr M) && negb (ps_has q (node_set s tr P1)) &&
                            ps_has q (ps_en s tr last)).
    { intros q Hq. rewrite (HhasT q Hq), (HhasD q Hq). reflexivity. }
    assert (Hsp : sub_present s tr M T2).
    { intros q Hq Hq1. rewrite (Hhas q Hq) in Hq1. apply andb_true_iff in Hq1. destruct Hq1 as [Hq1 _].
      apply andb_true_iff in Hq1.
      apply (node_set_present s R Hok Hfam tr M q Htr HwM HcM Hq). apply Hq1. }
    assert (Hav : avoids T2).
    { intros q c Hq Hne Hres. destruct (touches q T2) eqn:Et; [|reflexivity]. exfalso.
      apply (touches_iff q T2 HokT Hq) in Et. destruct Et as (n & Hn & Hmem).
      assert (Hq' : wf_path (firstn n q) = true) by (apply ReconcileBase.wf_path_firstn; exact Hq).
      assert (Hne' : firstn n q <> []) by (apply firstn_nonnil; [lia|exact Hne]).
      assert (Hres' : exists c', resolve_path s tr cfg (firstn n q) = Some c').
      { rewrite <- (firstn_skipn n q) in Hres. rewrite resolve_path_app in Hres.
        destruct (resolve_path s tr cfg (firstn n q)) as [c'|]; [eauto|discriminate]. }
      destruct Hres' as (c' & Hres').
      rewrite (Hhas _ Hq'), (cfg_nodes_in_obj P1 _ c' HwP HcP HagrP Hq' Hne' Hres') in Hmem.
      rewrite andb_false_r in Hmem. discriminate. }
    assert (Hkg : keys_guarded T2).
    { intros pre fl k rest Hwf Hin Hmem.
      destruct (touches (pre ++ [PEKey fl]) T2) eqn:Et; [reflexivity|]. exfalso.
      rewrite (Hhas _ Hwf) in Hmem. apply andb_true_iff in Hmem. destruct Hmem as [Hmem HinL].
      apply andb_true_iff in Hmem. destruct Hmem as [HinM HnotP]. apply negb_true_iff in HnotP.
      destruct (key_path_in_M pre fl k rest Hwf Hin HinM) as (-> & tk & x & Hres & Hsimple & HI).
      assert (HwI : wf_path (pre ++ [PEKey fl]) = true) by (eapply wf_path_key_prefix; eauto).
      pose proof (en_keys_closed s tr last Hlast Hkc pre fl k [] Hwf Hin HinL) as HIL.
      pose proof (touches_false_has _ _ HokT HwI Et) as HI2.
      rewrite (Hhas _ HwI), HI, HIL in HI2. cbn [andb] in HI2. rewrite andb_true_r in HI2.
      apply negb_false_iff in HI2.
      pose proof (node_set_present s R Hok Hfam tr P1 _ Htr HwP HcP HwI HI2) as Hpr.
      pose proof (key_item_kept T1 pre fl k tk x Hn1 Hwf Hin Hres Hsimple Hpr) as Hkept.
      change (remove s tr M T1) with P1 in Hkept. rewrite Hkept in HnotP. discriminate. }
    pose proof (sub_present_nice s R Hok Hfam M tr true T2 Htr HwM HcM HokT Hkg Hsp) as Hn2.
    split; [|split].
    - apply (remove_frame s R Hok Hfam Hnd tr true cfg M T2 Htr HwM HcM Hn2 Hsp Hagr Hrootleaf Hav).
    - apply remove_wf. exact HwM.
    - apply (remove_conforms s R Hok Hfam Hnd M tr T2 Htr HwM HcM Hn2).
  Qed.

  (* ---------- the first removal: what the applier applied before ---------- *)

  Lemma first_removal_nice : forall last, ps_ok last = true -> applier_record_ok s tr last ->
    nice_rm false (remove s tr M (ps_en s tr last)).
  Proof.
    intros last Hlast [Hkc Hfree].
    pose proof (ps_en_ok s last tr Hlast) as HokL.
    exists (ps_en s tr last). split; [|split; [reflexivity|discriminate]].
    split; [exact HokL| |].
    - apply keys_closed_guarded; [exact HokL|]. apply en_keys_closed; assumption.
    - apply (items_ok_of_free s R Hok Hfam Hnd M tr true _ Htr HwM HcM HokL).
      apply atomic_items_free_en; assumption.
  Qed.

  (* ================= the prune stage of the updater, unfolded ================= *)

  Variables (c : config) (ver : string).
  Hypothesis Hcid : conv_id c.
  Hypothesis Hsch : schema_of c ver = s.
  Hypothesis Htrr : tr_of c ver = tr.

  Lemma to_fs_ver : forall x, to_fs c (ver, x) = to_field_set s tr x.
  Proof. intros x. unfold to_fs. cbn [fst snd]. rewrite Hsch, Htrr. reflexivity. Qed.

  Lemma en_ver : forall S, en c ver S = ps_en s tr S.
  Proof. intros S. unfold en. rewrite Hsch, Htrr. reflexivity. Qed.

  Lemma remove_tv_ver : forall x T, remove_tv c (ver, x) T = (ver, remove s tr x T).
  Proof. intros x T. unfold remove_tv. cbn [fst snd]. rewrite Hsch, Htrr. reflexivity. Qed.

  Lemma convert_id : forall n o v, convert c n o v = (COk (snd o), S n).
  Proof. intros n o v. unfold convert. rewrite Hcid. reflexivity. Qed.

  Lemma tv_eta : forall p : tv, fst p = ver -> p = (ver, snd p).
  Proof. intros [v x] H. simpl in H. subst v. reflexivity. Qed.

  (* one pass of addBackOwnedItemsForVersion *)
  Lemma afv_nice : forall n p b m' p'' added n', fst p = ver -> nice_rm b (snd p) ->
    add_back_for_version c n (ver, M) p ver U = UOk (m', p'', added, n') ->
    m' = (ver, M) /\ fst p'' = ver /\ nice_rm true (snd p'').
  Proof.
    intros n p b m' p'' added n' Hp HP H.
    unfold add_back_for_version in H. rewrite !convert_id in H. cbn [snd] in H.
    rewrite !to_fs_ver in H.
    destruct (to_field_set s tr M) as [SM|] eqn:ESM; [|discriminate].
    destruct (to_field_set s tr (snd p)) as [SP|] eqn:ESP; [|discriminate].
    rewrite !en_ver, remove_tv_ver in H. rewrite to_fs_ver in H.
    destruct (to_field_set s tr (remove s tr M _)) as [newSet|]; [|discriminate].
    inversion H; subst. clear H. cbn [fst snd]. repeat split; auto.
    apply (pass_nice b (snd p) SP SM HP ESM ESP).
  Qed.

  Definition ab_step (acc : ures (tv * tv * bool * nat)) (v : string) : ures (tv * tv * bool * nat) :=
    match acc with
    | UErr e => UErr e
    | UOk (m, p, ch, n) =>
        match assoc_get v [(ver, U)] with
        | Some s0 =>
            match add_back_for_version c n m p v s0 with
            | UErr e => UErr e
            | UOk (m', p', added, n') => UOk (m', p', ch || added, n')
            end
        | None => acc
        end
    end.

  Lemma ab_step_err : forall vs e, fold_left ab_step vs (UErr e) = UErr e.
  Proof. induction vs as [|v vs IH]; intros e; [reflexivity|]. simpl. apply IH. Qed.

  Lemma round_nice : forall vs n p b ch m' p' ch' n', fst p = ver -> nice_rm b (snd p) ->
    fold_left ab_step vs (UOk ((ver, M), p, ch, n)) = UOk (m', p', ch', n') ->
    m' = (ver, M) /\ fst p' = ver /\ nice_rm b (snd p') /\ (In ver vs -> nice_rm true (snd p')).
  Proof.
    induction vs as [|v vs IH]; intros n p b ch m' p' ch' n' Hp HP H.
    - simpl in H. inversion H; subst. repeat split; auto. intros [].
    - cbn [fold_left] in H. unfold ab_step at 2 in H. cbn [assoc_get] in H.
      destruct (String.eqb v ver) eqn:Ev.
      + apply String.eqb_eq in Ev. subst v.
        destruct (add_back_for_version c n (ver, M) p ver U) as [[[[m1 p1] added] n1]|e] eqn:Eafv;
          [|rewrite ab_step_err in H; discriminate].
        destruct (afv_nice n p b m1 p1 added n1 Hp HP Eafv) as (-> & Hp1 & HP1).
        destruct (IH n1 p1 true (ch || added) m' p' ch' n' Hp1 HP1 H) as (Hm & Hp' & HP' & _).
        repeat split; auto. apply nice_rm_weaken. exact HP'.
      + destruct (IH n p b ch m' p' ch' n' Hp HP H) as (Hm & Hp' & HP' & Hin).
        repeat split; auto. intros [Heq|Hin']; [|auto].
        subst v. rewrite String.eqb_refl in Ev. discriminate.
  Qed.

  Lemma add_back_round_fold : forall vs n m p,
    add_back_round c [(ver, U)] vs n m p = fold_left ab_step vs (UOk (m, p, false, n)).
  Proof. intros vs n m p. reflexivity. Qed.

  Lemma rounds_nice : forall fuel os n p b prev p' n', fst p = ver -> nice_rm b (snd p) ->
    add_back_rounds fuel c [(ver, U)] (ver :: os) n (ver, M) p prev = UOk (p', n') ->
    fst p' = ver /\ nice_rm true (snd p').
  Proof.
    induction fuel as [|fuel IH]; intros os n p b prev p' n' Hp HP H; [discriminate|].
    cbn [add_back_rounds] in H. rewrite add_back_round_fold in H.
    match type of H with
    | context [fold_left ?f ?l ?a] =>
        destruct (fold_left f l a) as [[[[m1 p1] ch1] n1]|e] eqn:Er; [|discriminate H]
    end.
    destruct (round_nice (ver :: os) n p b false m1 p1 ch1 n1 Hp HP Er) as (-> & Hp1 & _ & HP1).
    specialize (HP1 (or_introl eq_refl)).
    match type of H with context [if ?bb then _ else _] => destruct bb end.
    - match type of H with context [if ?bb then _ else _] => destruct bb end.
      + inversion H; subst. auto.
      + apply (IH os n1 p1 true (Some p1) p' n' Hp1 HP1 H).
    - inversion H; subst. auto.
  Qed.

  (* the whole prune stage *)
  Theorem prune_agrees : forall n mfp mgr lastrec pruned n1,
    managed_at_version mfp = [(ver, U)] ->
    (forall r, mf_get mgr mfp = Some r -> mr_ver r = ver) ->
    (forall last, lastrec = Some last ->
       mr_ver last = ver /\ ps_ok (mr_set last) = true /\ applier_record_ok s tr (mr_set last)) ->
    prune c n (ver, M) mfp mgr lastrec = UOk (pruned, n1) ->
    fst pruned = ver /\ AgrP s tr cfg (snd pruned) /\
    wf_value (snd pruned) = true /\ conforms s tr true (snd pruned) = true.
  Proof.
    intros n mfp mgr lastrec pruned n1 Hmav Htarget Hlast H.
    unfold prune in H.
    destruct lastrec as [last|]; [|inversion H; subst; cbn [fst snd]; auto].
    destruct (Hlast last eq_refl) as (Hlv & Hlok & Hlrec).
    destruct (ps_empty (mr_set last)); [inversion H; subst; cbn [fst snd]; auto|].
    rewrite Hlv in H. rewrite convert_id in H. cbn [snd] in H.
    rewrite en_ver, remove_tv_ver in H.
    unfold add_back_owned in H. rewrite Hmav in H. cbn [assoc_get assoc_remove map] in H.
    rewrite String.eqb_refl in H. cbn [app] in H.
    set (P0 := (ver, remove s tr M (ps_en s tr (mr_set last)))) in H.
    assert (HP0 : nice_rm false (snd P0)) by (apply first_removal_nice; assumption).
    assert (Hrounds : exists pruned1 n2, fst pruned1 = ver /\ nice_rm true (snd pruned1) /\
              match add_back_dangling c n2 (ver, M) pruned1 last with
              | UOk (pruned2, n3) =>
                  match convert c n3 pruned2
                          match mf_get mgr mfp with Some r => mr_ver r | None => ver end with
                  | (COk v, n4) =>
                      UOk (match mf_get mgr mfp with Some r => mr_ver r | None => ver end, v, n4)
                  | _ => UErr EOther
                  end
              | UErr e => UErr e
              end = UOk (pruned, n1)).
    { match type of H with
      | context [add_back_rounds ?fu c ?mv (ver :: ?o) ?nn ?mm ?pp ?pv] =>
          destruct (add_back_rounds fu c mv (ver :: o) nn mm pp pv) as [[pruned1 n2]|e] eqn:Erounds;
            [|discriminate H];
          destruct (rounds_nice fu o nn pp false pv pruned1 n2 eq_refl HP0 Erounds) as [Hp1 HP1]
      end.
      exists pruned1, n2. auto. }
    clear H. destruct Hrounds as (pruned1 & n2 & Hp1 & HP1 & H).
    unfold add_back_dangling in H. rewrite Hlv, convert_id in H. cbn [fst snd] in H.
    rewrite !to_fs_ver in H.
    destruct (to_field_set s tr (snd pruned1)) as [S1|] eqn:ES1; [|discriminate].
    destruct (to_field_set s tr M) as [SM|] eqn:ESM; [|discriminate].
    rewrite !en_ver, remove_tv_ver in H.
    assert (Htv : (match mf_get mgr mfp with Some r => mr_ver r | None => ver end) = ver).
    { destruct (mf_get mgr mfp) as [r|] eqn:E; [apply Htarget; reflexivity|reflexivity]. }
    rewrite Htv, convert_id in H. cbn [snd] in H.
    inversion H; subst. clear H. cbn [fst snd].
    split; [reflexivity|].
    apply (dangling_frame (snd pruned1) S1 SM (mr_set last) HP1 ESM ES1 Hlok (proj1 Hlrec)).
  Qed.
End Core.

(* ================= the managers' sets ================= *)

Definition union_all (l : managed) (A : pset) : pset :=
  fold_left (fun a (mr : string * mrec) => ps_union a (mr_set (snd mr))) l A.

Lemma union_all_spec : forall l A, ps_ok A = true ->
  (forall mr, In mr l -> ps_ok (mr_set (snd mr)) = true) ->
  ps_ok (union_all l A) = true /\
  forall q, wf_path q = true ->
    ps_has q (union_all l A) = ps_has q A || existsb (fun mr => ps_has q (mr_set (snd mr))) l.
Proof.
  induction l as [|x l IH]; intros A HA Hl.
  - split; [exact HA|]. intros q _. simpl. rewrite orb_false_r. reflexivity.
  - destruct (ps_union_spec A (mr_set (snd x)) HA (Hl x (or_introl eq_refl))) as [Hu Hhu].
    destruct (IH (ps_union A (mr_set (snd x))) Hu (fun mr H => Hl mr (or_intror H))) as [H1 H2].
    split; [exact H1|]. intros q Hq. cbn [union_all fold_left existsb].
    change (fold_left _ l (ps_union A (mr_set (snd x)))) with (union_all l (ps_union A (mr_set (snd x)))).
    rewrite (H2 q Hq), (Hhu q Hq), orb_assoc. reflexivity.
Qed.

Lemma mav_fold : forall ver l A, (forall mr, In mr l -> mr_ver (snd mr) = ver) ->
  fold_left (fun acc (mr : string * mrec) =>
               let v := mr_ver (snd mr) in
               let cur := match assoc_get v acc with Some s => s | None => ps_empty_set end in
               assoc_set v (ps_union cur (mr_set (snd mr))) acc) l [(ver, A)]
  = [(ver, union_all l A)].
Proof.
  intros ver l. induction l as [|x l IH]; intros A Hl; [reflexivity|].
  cbn [fold_left]. rewrite (Hl x (or_introl eq_refl)). cbn [assoc_get assoc_set].
  rewrite String.eqb_refl, str_cmp_refl.
  rewrite IH by (intros mr H; apply Hl; right; exact H). reflexivity.
Qed.

Lemma mav_single : forall ver l, l <> [] -> (forall mr, In mr l -> mr_ver (snd mr) = ver) ->
  managed_at_version l = [(ver, union_all l ps_empty_set)].
Proof.
  intros ver l Hne Hl. destruct l as [|x l]; [congruence|].
  unfold managed_at_version. cbn [fold_left]. rewrite (Hl x (or_introl eq_refl)).
  cbn [assoc_get assoc_set].
  rewrite mav_fold by (intros mr H; apply Hl; right; exact H). reflexivity.
Qed.

(* ================= reconciliation changes nothing ================= *)

Lemma fold_rstep_id : forall c live ver l res n res' n', conv_id c ->
  (forall mr, In mr l -> mr_ver (snd mr) = ver) ->
  (forall mr s', In mr l ->
     reconcile_field_set (schema_of c ver) (tr_of c ver) (mr_set (snd mr)) <> Some (Some s')) ->
  fold_left (rstep c live) l (UOk (res, n)) = UOk (res', n') -> res' = res ++ l.
Proof.
  intros c live ver l. induction l as [|mr l IH]; intros res n res' n' Hcid Hv Hrec H.
  - simpl in H. inversion H; subst. rewrite app_nil_r. reflexivity.
  - cbn [fold_left] in H. unfold rstep at 2 in H. unfold convert in H. rewrite Hcid in H.
    rewrite (Hv mr (or_introl eq_refl)) in H.
    destruct (reconcile_field_set (schema_of c ver) (tr_of c ver) (mr_set (snd mr))) as [[s'|]|] eqn:Er.
    + exfalso. apply (Hrec mr s' (or_introl eq_refl) Er).
    + rewrite (IH _ _ _ _ Hcid (fun x Hx => Hv x (or_intror Hx))
                 (fun x s' Hx => Hrec x s' (or_intror Hx)) H).
      rewrite <- app_assoc. reflexivity.
    + rewrite fold_rstep_err in H. discriminate.
Qed.

(* ================= the theorem ================= *)

(* After a successful apply the resulting object agrees with the applied configuration
   on every field the configuration specifies, whatever the live object contained and
   whatever the other managers own.

   Hypotheses added to the statement of Proofs/ApplyEffect_statements.v:
   - [granular .. (snd cfg)]: the configuration is a granular map or list at the root.
     NECESSARY: [apply_takes_effect_needs_root] below refutes the statement without it
     (atomic map at the root: removal from an atomic value yields null).
   The following four keep every intermediate object of the prune stage a valid object
   (every member of a keyed list keeps its key fields, hence its identity), which is what
   the proof needs to speak about the field sets of those objects.  They are invariants of
   the states of a history (single version, unchanged schema without key defaults).  They are
   NOT known to be necessary for the truth of the statement: in the violations evaluated so
   far the prune stage either repairs itself in the dangling-items stage, or builds a list
   member without its key and Apply then FAILS in the final comparison (no path element for
   the member) instead of returning a wrong object.
   - [keys_plain]: key fields of keyed lists are scalars and have no default value
     (with defaults, removing a key field can change the identity of a member, see
     FieldSetLaws.remove_absent_counterexample; with map-valued keys, removing beneath a key
     field does, see remove_absent_counterexample_mapkey);
   - [records_current]: reconciliation with the schema leaves the records as they are
     (the conditions below are stated on the records before reconciliation);
   - [applier_record_ok] for the applier's record: it owns a keyed-list member whenever it
     owns (anything beneath) one of its key fields, and owns nothing beneath a member of an
     atomic map type;
   - [owns_live_keys] for the other records: a manager that owns a keyed-list member of the
     live object owns the key fields the live object gives that member.
   Executable checks of the last two: Proofs/SetCheckers.v. *)
Theorem apply_takes_effect : forall c R ver live cfg mf mgr force o mf',
  no_ignore c -> conv_id c ->
  schema_ok (schema_of c ver) R -> family_refs (schema_of c ver) R -> R (tr_of c ver) ->
  keys_plain (schema_of c ver) R ->
  fst live = ver -> fst cfg = ver -> single_version ver mf -> mf_ok mf ->
  records_current c ver mf ->
  (forall r, mf_get mgr mf = Some r ->
     applier_record_ok (schema_of c ver) (tr_of c ver) (mr_set r)) ->
  (forall m r, m <> mgr -> mf_get m mf = Some r ->
     owns_live_keys (schema_of c ver) (tr_of c ver) (snd live) (mr_set r)) ->
  wf_value (snd live) = true -> wf_value (snd cfg) = true ->
  conforms (schema_of c ver) (tr_of c ver) true (snd live) = true ->
  conforms (schema_of c ver) (tr_of c ver) false (snd cfg) = true ->
  plain (snd cfg) = true ->
  granular (schema_of c ver) (tr_of c ver) (snd cfg) ->
  apply_op c live cfg ver mf mgr force = UOk (o, mf') ->
  agrees (schema_of c ver) (tr_of c ver) (snd cfg)
         (match o with Some t => snd t | None => snd live end) = true.
Proof.
  intros c R ver [lv lx] [cv cx] mf mgr force o mf' Hni Hcid Hok Hfam Htr [Hnd Hks]
    Hlv Hcv Hsv Hmf Hcur Hmine Hothers Hwl Hwc Hcl Hcc Hpl Hroot Happly.
  cbn [fst snd] in *. subst lv cv.
  set (s := schema_of c ver) in *. set (tr := tr_of c ver) in *.
  unfold apply_op in Happly. cbn [fst snd] in Happly.
  (* reconciliation returns the records unchanged *)
  destruct (reconcile_managed c 0 (ver, lx) mf) as [[mf0 n0]|e] eqn:Erec; [|discriminate].
  assert (Hmf0 : mf0 = mf).
  { rewrite reconcile_managed_unfold in Erec.
    apply (fold_rstep_id c (ver, lx) ver mf [] 0 mf0 n0 Hcid) in Erec; [exact Erec| |].
    - intros [m r] Hin. cbn [snd]. unfold single_version in Hsv. rewrite forallb_forall in Hsv.
      apply String.eqb_eq. exact (Hsv (m, r) Hin).
    - intros [m r] s' Hin. cbn [snd]. apply (Hcur m r s').
      apply in_assoc_get; [apply Hmf|exact Hin]. }
  subst mf0.
  fold s tr in Happly.
  destruct (merge s tr lx cx) as [[M|]|] eqn:Em; try discriminate.
  unfold to_fs in Happly. cbn [fst snd] in Happly. fold s tr in Happly.
  destruct (to_field_set s tr cx) as [set0|] eqn:Eset0; [|discriminate].
  rewrite (no_ignore_filter c ver Hni) in Happly. cbn [filter_set] in Happly.
  set (mfp := mf_set mgr {| mr_set := set0; mr_ver := ver; mr_applied := true |} mf) in *.
  destruct (prune c n0 (ver, M) mfp mgr (mf_get mgr mf)) as [[pruned n1]|e] eqn:Eprune; [|discriminate].
  destruct (update_core c n1 (ver, lx) pruned ver mfp mgr force) as [[[mf2 cmp] n2]|e]; [|discriminate].
  (* the merged object *)
  destruct (merge_conforms s R tr lx cx M Hok Hfam Htr Hwl Hwc Hcl Hcc Em) as [HcM HwM].
  pose proof (merge_inv s tr lx cx M Em) as Hmw.
  assert (Hagr : AgrP s tr cx M).
  { apply (right_wins_w s R Hok Hfam (merge_fuel lx cx) tr (Some lx) cx M); auto.
    - unfold merge_fuel. simpl. lia.
    - split; assumption. }
  assert (Hlf : LeafP s tr (Some lx) (Some cx) M).
  { apply (leaves_w s R Hok Hfam (merge_fuel lx cx) tr (Some lx) (Some cx) M); auto.
    - unfold merge_fuel. simpl. lia.
    - split; assumption.
    - split; assumption.
    - left. discriminate. }
  (* the managers' sets *)
  assert (Hset0ok : ps_ok set0 = true) by (apply (to_field_set_ok s R tr cx set0 Hok Htr Hwc Eset0)).
  assert (Hmfp : mf_ok mfp) by (apply mf_set_ok; assumption).
  assert (Hsvp : single_version ver mfp) by (apply mf_set_single; [assumption|reflexivity]).
  assert (Hverp : forall mr, In mr mfp -> mr_ver (snd mr) = ver).
  { intros mr Hin. unfold single_version in Hsvp. rewrite forallb_forall in Hsvp.
    apply String.eqb_eq. exact (Hsvp mr Hin). }
  assert (Hokp : forall mr, In mr mfp -> ps_ok (mr_set (snd mr)) = true).
  { intros mr Hin. destruct Hmfp as [_ Hall]. rewrite forallb_forall in Hall. exact (Hall mr Hin). }
  assert (Hnew : In (mgr, {| mr_set := set0; mr_ver := ver; mr_applied := true |}) mfp).
  { apply assoc_get_in. apply mf_get_set_same. }
  assert (Hne : mfp <> []) by (intros E; rewrite E in Hnew; destruct Hnew).
  set (U := union_all mfp ps_empty_set).
  destruct (union_all_spec mfp ps_empty_set ps_ok_empty Hokp) as [HU HhasU]. fold U in HU, HhasU.
  assert (HhasU' : forall q, wf_path q = true ->
            ps_has q U = existsb (fun mr : string * mrec => ps_has q (mr_set (snd mr))) mfp).
  { intros q Hq. rewrite (HhasU q Hq), ps_has_empty_set. reflexivity. }
  assert (HUcfg : forall q, wf_path q = true -> ps_has q set0 = true -> ps_has q U = true).
  { intros q Hq Hq0. rewrite (HhasU' q Hq). apply existsb_exists.
    exists (mgr, {| mr_set := set0; mr_ver := ver; mr_applied := true |}). split; [exact Hnew|exact Hq0]. }
  assert (HUown : forall q, wf_path q = true -> ps_has q U = true ->
            ps_has q set0 = true \/
            exists S, ps_ok S = true /\ owns_live_keys s tr lx S /\ ps_has q S = true /\
                      forall q', wf_path q' = true -> ps_has q' S = true -> ps_has q' U = true).
  { intros q Hq HqU. rewrite (HhasU' q Hq) in HqU. apply existsb_exists in HqU.
    destruct HqU as ([m r] & Hin & Hqr). cbn [snd] in Hqr.
    pose proof (in_assoc_get mfp m r (proj1 Hmfp) Hin) as Hget.
    destruct (String.eqb_spec m mgr) as [->|Hmm].
    - unfold mfp in Hget. change (assoc_get mgr (mf_set mgr ?x mf)) with (mf_get mgr (mf_set mgr x mf)) in Hget.
      rewrite mf_get_set_same in Hget. inversion Hget; subst r. left. exact Hqr.
    - right. exists (mr_set r).
      assert (Hget' : mf_get m mf = Some r).
      { rewrite <- (mf_get_set_other m mgr {| mr_set := set0; mr_ver := ver; mr_applied := true |} mf Hmm).
        exact Hget. }
      split; [apply (Hokp (m, r) Hin)|]. split; [apply (Hothers m r Hmm Hget')|].
      split; [exact Hqr|]. intros q' Hq' Hq'r. rewrite (HhasU' q' Hq'). apply existsb_exists.
      exists (m, r). split; [exact Hin|exact Hq'r]. }
  (* the prune stage *)
  destruct (prune_agrees s R tr Hok Hfam Htr Hnd Hks lx cx M Hwc Hcc Hpl Hroot HwM HcM Hagr Hlf
              set0 U Eset0 HU HUcfg HUown c ver Hcid eq_refl eq_refl n0 mfp mgr (mf_get mgr mf) pruned n1)
    as (Hpv & HagrP & HwP & HcP); auto.
  { apply mav_single; assumption. }
  { intros r Hr. apply (Hverp (mgr, r)). apply assoc_get_in. exact Hr. }
  { intros last Hlast. split; [|split].
    - apply String.eqb_eq. apply (single_version_get ver mf mgr last Hsv Hlast).
    - apply (mf_ok_get mf mgr last Hmf Hlast).
    - apply (Hmine last Hlast). }
  (* the answer *)
  destruct (negb (cfg_return_input_on_noop c) && veqb lx (snd pruned)) eqn:Enoop;
    inversion Happly; subst o mf'; cbn [snd].
  - apply andb_true_iff in Enoop. destruct Enoop as [_ Hv].
    apply (agrees_of_AgrP s R Hok tr cx lx Htr Hwc).
    apply (AgrP_veqb s R Hok Hfam tr cx (snd pruned) lx Htr Hwc HwP Hwl HcP Hcl); [|exact HagrP].
    rewrite (veqb_sym (snd pruned) lx HwP Hwl). exact Hv.
  - apply (agrees_of_AgrP s R Hok tr cx (snd pruned) Htr Hwc). exact HagrP.
Qed.

(* ================= the hypotheses are satisfiable ================= *)

(* A state of a history over the example schema: manager "a" applied earlier a configuration
   with the field aa and the list member x; manager "b" owns the member y and mm.k.  Now "a"
   applies a configuration that keeps aa, abandons x and adds the member z: the prune stage
   removes x (nobody else owns it), keeps what "b" owns, and the result agrees with the
   configuration -- by the theorem, not by evaluation. *)
Section Example.
  Open Scope string_scope.
  Let F := PEField.
  Let kx := PEKey [("name", VStr "x")].
  Let ky := PEKey [("name", VStr "y")].

  Definition ate_live : value :=
    VMap [("aa", VInt 1);
          ("items", VList [VMap [("name", VStr "x"); ("vv", VInt 1)];
                           VMap [("name", VStr "y"); ("vv", VInt 2)]]);
          ("mm", VMap [("k", VInt 5)])].
  Definition ate_set_a : pset :=
    ps_of_paths [[F "aa"]; [F "items"; kx]; [F "items"; kx; F "name"]; [F "items"; kx; F "vv"]].
  Definition ate_set_b : pset :=
    ps_of_paths [[F "items"; ky]; [F "items"; ky; F "name"]; [F "items"; ky; F "vv"]; [F "mm"; F "k"]].
  Definition ate_mf : managed :=
    [("a", mkRec ate_set_a "v1" true); ("b", mkRec ate_set_b "v1" false)].
  Definition ate_cfg : value :=
    VMap [("aa", VInt 2); ("items", VList [VMap [("name", VStr "z")]])].
  Definition ate_result : value :=
    VMap [("aa", VInt 2);
          ("items", VList [VMap [("name", VStr "y"); ("vv", VInt 2)]; VMap [("name", VStr "z")]]);
          ("mm", VMap [("k", VInt 5)])].

  Lemma ex_keys_plain : keys_plain ex_schema FieldSetLaws.ex_R.
  Proof.
    split.
    - intros tr a t k d HR Hr Hal Hk. unfold FieldSetLaws.ex_R in HR.
      FieldSetLaws.split_in HR; vm_compute in Hr; inversion Hr; subst a; simpl in Hal;
        try discriminate; inversion Hal; subst t; simpl in Hk; try contradiction.
      destruct Hk as [<-|[]]. vm_compute. discriminate.
    - intros tr a t k ea mt HR Hr Hal Hk Hre Ham. unfold FieldSetLaws.ex_R in HR.
      FieldSetLaws.split_in HR; vm_compute in Hr; inversion Hr; subst a; simpl in Hal;
        try discriminate; inversion Hal; subst t; simpl in Hk; try contradiction.
      destruct Hk as [<-|[]]. vm_compute in Hre. inversion Hre; subst ea.
      simpl in Ham. inversion Ham; subst mt. eexists. reflexivity.
  Qed.

  Lemma ex_no_atomic : forall t, FieldSetLaws.ex_R t -> atomic_map_type ex_schema t = false.
  Proof. intros t HR. unfold FieldSetLaws.ex_R in HR. FieldSetLaws.split_in HR; reflexivity. Qed.

  Example apply_takes_effect_example :
    apply_op ex_config ("v1", ate_live) ("v1", ate_cfg) "v1" ate_mf "a" false
      = UOk (Some ("v1", ate_result),
             [("a", mkRec (ps_of_paths [[F "aa"]; [F "items"; PEKey [("name", VStr "z")]];
                                         [F "items"; PEKey [("name", VStr "z")]; F "name"]]) "v1" true);
              ("b", mkRec ate_set_b "v1" false)]) /\
    (* the earlier member x is gone, the member y of the other manager is still there *)
    present ex_schema ex_rt ate_live [F "items"; kx] = true /\
    present ex_schema ex_rt ate_result [F "items"; kx] = false /\
    present ex_schema ex_rt ate_result [F "items"; ky; F "vv"] = true /\
    agrees ex_schema ex_rt ate_cfg ate_result = true.
  Proof.
    assert (Happly : apply_op ex_config ("v1", ate_live) ("v1", ate_cfg) "v1" ate_mf "a" false
      = UOk (Some ("v1", ate_result),
             [("a", mkRec (ps_of_paths [[F "aa"]; [F "items"; PEKey [("name", VStr "z")]];
                                         [F "items"; PEKey [("name", VStr "z")]; F "name"]]) "v1" true);
              ("b", mkRec ate_set_b "v1" false)])) by (vm_compute; reflexivity).
    split; [exact Happly|]. split; [vm_compute; reflexivity|]. split; [vm_compute; reflexivity|].
    split; [vm_compute; reflexivity|].
    refine (apply_takes_effect ex_config FieldSetLaws.ex_R "v1" ("v1", ate_live) ("v1", ate_cfg) ate_mf "a" false
              (Some ("v1", ate_result)) _ ex_config_no_ignore _ FieldSetLaws.ex_schema_ok FieldSetLaws.ex_family
              FieldSetLaws.ex_R_root ex_keys_plain eq_refl eq_refl _ _ _ _ _ _ _ _ _ _ _ Happly).
    - intros n from to v. reflexivity.
    - vm_compute. reflexivity.
    - split; vm_compute; reflexivity.
    - intros m r s' Hget. apply assoc_get_in in Hget. simpl in Hget.
      destruct Hget as [H|[H|[]]]; inversion H; subst m r; vm_compute; discriminate.
    - intros r Hget. vm_compute in Hget. inversion Hget; subst r. cbn [mr_set]. split.
      + apply keys_closed_b_sound; vm_compute; reflexivity.
      + apply (no_atomic_free ex_schema FieldSetLaws.ex_R FieldSetLaws.ex_schema_ok).
        * unfold FieldSetLaws.ex_R. simpl. tauto.
        * exact ex_no_atomic.
        * exact FieldSetLaws.ex_R_root.
    - intros m r Hm Hget. apply assoc_get_in in Hget. simpl in Hget.
      destruct Hget as [H|[H|[]]]; inversion H; subst m r; [congruence|]. cbn [mr_set snd].
      unfold owns_live_keys. intros pre fl k.
      apply (owns_live_keys_b_sound ex_schema FieldSetLaws.ex_R FieldSetLaws.ex_schema_ok
               ex_rt ate_live ate_set_b FieldSetLaws.ex_R_root); vm_compute; reflexivity.
    - vm_compute. reflexivity.
    - vm_compute. reflexivity.
    - vm_compute. reflexivity.
    - vm_compute. reflexivity.
    - vm_compute. reflexivity.
    - vm_compute. exact I.
  Qed.
End Example.

(* ================= the root of the configuration must be granular ================= *)

(* The statement without the hypothesis that the configuration is a granular map or list at
   the root is false: with an atomic map at the root the prune stage (removal from an atomic
   value yields null) returns null.  The other added hypotheses are not involved: no keyed
   list, no reconciliation, and the applier's record is closed. *)
Definition apply_takes_effect_without_root : Prop :=
  forall c R ver live cfg mf mgr force o mf',
  no_ignore c -> conv_id c ->
  schema_ok (schema_of c ver) R -> family_refs (schema_of c ver) R -> R (tr_of c ver) ->
  fst live = ver -> fst cfg = ver -> single_version ver mf -> mf_ok mf ->
  wf_value (snd live) = true -> wf_value (snd cfg) = true ->
  conforms (schema_of c ver) (tr_of c ver) true (snd live) = true ->
  conforms (schema_of c ver) (tr_of c ver) false (snd cfg) = true ->
  plain (snd cfg) = true ->
  apply_op c live cfg ver mf mgr force = UOk (o, mf') ->
  agrees (schema_of c ver) (tr_of c ver) (snd cfg)
         (match o with Some t => snd t | None => snd live end) = true.

Section RootCounterexample.
  Open Scope string_scope.
  Definition atr_root : typeref := TR None (Atom None None (Some (MapT [] ex_num RAtomic))) None.
  Definition atr_config : config :=
    mkConfig (fun _ => ([], atr_root)) (fun _ _ _ v => COk v) None None false (fun l => l).
  Definition atr_live : value := VMap [("a", VInt 1)].
  Definition atr_cfg : value := VMap [("b", VInt 2)].
  Definition atr_mf : managed := [("a", mkRec (ps_of_paths [[PEField "a"]]) "v1" true)].

  Example root_atomic_counterexample :
    apply_op atr_config ("v1", atr_live) ("v1", atr_cfg) "v1" atr_mf "a" true
      = UOk (Some ("v1", VNull), []) /\
    agrees [] atr_root atr_cfg VNull = false.
  Proof. split; vm_compute; reflexivity. Qed.

  Theorem apply_takes_effect_needs_root : ~ apply_takes_effect_without_root.
  Proof.
    intros H.
    pose proof (H atr_config (fun t => In t [atr_root; ex_num]) "v1" ("v1", atr_live) ("v1", atr_cfg)
                  atr_mf "a" true (Some ("v1", VNull)) []) as Hc.
    assert (Hfalse : agrees [] atr_root atr_cfg VNull = true).
    { apply Hc; try (vm_compute; reflexivity).
      - split; reflexivity.
      - apply ReconcileLaws.schema_ok_finite. intros t Ht.
        destruct Ht as [<-|[<-|[]]].
        + vm_compute. split; [reflexivity|]. split.
          * intros li Hli. discriminate Hli.
          * intros m Hm. inversion Hm; subst m. split; [right; left; reflexivity|intros f []].
        + vm_compute. split; [reflexivity|]. split; intros x Hx; discriminate Hx.
      - intros t a l Ht Hr Hl. destruct Ht as [<-|[<-|[]]]; vm_compute in Hr; inversion Hr; subst a;
          discriminate Hl.
      - left. reflexivity.
      - split; vm_compute; reflexivity. }
    vm_compute in Hfalse. discriminate.
  Qed.
End RootCounterexample.

