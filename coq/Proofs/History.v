(* C06 / C01 / C03 along histories: the side conditions of the step theorems
   (Proofs/ApplyEffect.v, Proofs/ApplyInv.v, Proofs/UpdateInv.v, Proofs/ApplyPrune.v) form an
   invariant of every state reachable from the empty object by apply / forced apply /
   update operations, so the step theorems hold at every reachable state.
   Single API version, identity converter, no ignore.

   Statements: Proofs/History_statements.v.  ONE difference: the clause [so_conforms] of
   [state_ok] reads "the object is null or valid" instead of "the object is valid", because
   a schema may give the root a type under which not even null is valid (the empty atom):
   no operation is admissible then, the history stays at the empty state, and the clause as
   stated fails there although every hypothesis holds [so_conforms_as_stated_refuted].  The
   clause as stated holds at every reachable state of a non-empty history, or when null is
   valid at the root [reachable_objects_valid].  [op_ok], [hop], [hstep], [run], [setting_ok]
   and the three theorems are verbatim; NO restriction of [op_ok] was needed: every clause of
   the invariant is preserved by every admissible operation.
   Corollaries at every reachable state: [owned_paths_present_along_histories] (C06),
   [apply_removes_abandoned_along_histories] (C03), [apply_removes_only_own_along_histories]
   (C02, removal half); non-vacuity: [history_example], [history_example_apply].

   The proof of the step rests on
     Proofs/RefDiffChar.v       what the comparison reports, in terms of the nodes of the objects;
     Proofs/KeySync.v           [key_sync]: a record holds a keyed-list member iff it holds the key
                                fields the object spells out for it -- preserved by what Update
                                and Apply do to the records, and equivalent (for records whose
                                members are nodes of the object) to the side conditions
                                [keys_closed] + [owns_live_keys]; [atomic_items_free] comes for free;
     Proofs/ReconcileCurrent.v  records whose members are nodes of a valid object need no
                                reconciliation ([records_current]). *)
From Coq Require Import List ZArith String Bool Arith Lia.
From SMD Require Import Model.Value Model.Order Model.PathElem Model.PathSet Model.Schema Model.Walk
  Model.Validate Model.FieldSet Model.Remove Model.Merge Model.Compare Model.Matcher Model.Reconcile
  Model.Updater
  Spec.PathsAsSets Spec.RefValid Spec.Resolve Spec.Agree Spec.RefDiff Spec.Examples
  Proofs.OrderLaws Proofs.PathSetLaws Proofs.SchemaOk Proofs.FieldSetBase Proofs.FieldSetPaths
  Proofs.FieldSetWf Proofs.FieldSetLaws Proofs.RemoveAbsent Proofs.RemoveWf Proofs.ResolveLaws
  Proofs.UpdaterLaws Proofs.UpdaterLaws2 Proofs.MergeLaws Proofs.MergeAgree
  Proofs.RemoveFrame Proofs.EnLaws Proofs.NodeSet Proofs.KeyFields Proofs.VeqbResolve
  Proofs.SetCheckers Proofs.ApplyEffect Proofs.RefDiffBoth Proofs.RefDiffLaws Proofs.RefDiffPresent
  Proofs.ApplyInv Proofs.ValidateLaws Proofs.CompareLaws
  Proofs.RefDiffChar Proofs.KeySync Proofs.ReconcileCurrent.
From SMD Require Proofs.UpdateInv Proofs.ApplyPrune Proofs.MergeBase Proofs.MergeKeeps.
Import ListNotations.
Open Scope bool_scope.
Open Scope list_scope.

Local Arguments ps_has : simpl never.
Local Arguments ps_empty : simpl never.

(* whatever is valid, null is valid too: the type resolves to a non-empty atom *)
Lemma conforms_null_of : forall s tr dup v, conforms s tr dup v = true -> conforms s tr true VNull = true.
Proof.
  intros s tr dup v H. rewrite conforms_eq in *.
  destruct (resolve s tr) as [[sc li ma]|]; [|discriminate].
  destruct v as [| | | | |l|m].
  - exact H.
  - destruct sc; [reflexivity|discriminate].
  - destruct sc; [reflexivity|discriminate].
  - destruct sc; [reflexivity|discriminate].
  - destruct sc; [reflexivity|discriminate].
  - destruct li; [|discriminate]. destruct sc; reflexivity.
  - destruct ma; [|discriminate]. destruct sc; destruct li; reflexivity.
Qed.

Lemma key_sync_ext : forall s tr a b S,
  (forall q, wf_path q = true -> present s tr a q = present s tr b q) ->
  key_sync s tr a S -> key_sync s tr b S.
Proof.
  intros s tr a b S Hext H pre fl k Hwf Hk Hpr. apply (H pre fl k Hwf Hk).
  rewrite (Hext _ Hwf). exact Hpr.
Qed.

Section History.
  Variables (c : config) (R : typeref -> Prop) (ver : string).
  Let s := schema_of c ver.
  Let tr := tr_of c ver.

  (* the fixed setting *)
  Definition setting_ok : Prop :=
    no_ignore c /\ conv_id c /\ schema_ok s R /\ family_refs s R /\ lists_pure s R /\ R tr /\
    keys_plain s R.

  (* the invariant *)
  Record state_ok (live : value) (mf : managed) : Prop := mkStateOk {
    so_wf : wf_value live = true;
    so_conforms : live = VNull \/ conforms s tr true live = true;
    so_mf : mf_ok mf;
    so_single : single_version ver mf;
    so_current : records_current c ver mf;
    so_records : forall m r, mf_get m mf = Some r ->
                   applier_record_ok s tr (mr_set r) /\ owns_live_keys s tr live (mr_set r);
    so_present : owned_present s tr live mf;
    so_nonempty : forall m r, mf_get m mf = Some r -> ps_empty (mr_set r) = false
  }.

  (* operations of a history; [HApply] carries a configuration, [HUpdate] a whole object *)
  Inductive hop : Type :=
  | HApply (mgr : string) (cfg : value) (force : bool)
  | HUpdate (mgr : string) (obj : value).

  (* what a caller may submit: a valid plain granular configuration; a valid object *)
  Definition op_ok (o : hop) : Prop :=
    match o with
    | HApply _ cfg _ => wf_value cfg = true /\ conforms s tr false cfg = true /\ plain cfg = true /\ granular s tr cfg
    | HUpdate _ obj => wf_value obj = true /\ conforms s tr true obj = true
    end.

  (* a failing operation (conflict, error) leaves the state as it is *)
  Definition hstep (st : value * managed) (o : hop) : value * managed :=
    match o with
    | HApply mgr cfg force =>
        match apply_op c (ver, fst st) (ver, cfg) ver (snd st) mgr force with
        | UOk (Some t, mf') => (snd t, mf')
        | UOk (None, mf') => (fst st, mf')
        | UErr _ => st
        end
    | HUpdate mgr obj =>
        match update_op c (ver, fst st) (ver, obj) ver (snd st) mgr with
        | UOk (t, mf') => (snd t, mf')
        | UErr _ => st
        end
    end.

  Definition run (ops : list hop) : value * managed := fold_left hstep ops (VNull, []).

  (* ================= the invariant, in terms of [key_sync] ================= *)

  Lemma state_ok_intro : forall live mf, setting_ok ->
    wf_value live = true -> conforms s tr true live = true ->
    mf_ok mf -> single_version ver mf -> owned_present s tr live mf ->
    (forall m r, mf_get m mf = Some r -> ps_empty (mr_set r) = false) ->
    (forall m r, mf_get m mf = Some r -> key_sync s tr live (mr_set r)) ->
    state_ok live mf.
  Proof.
    intros live mf (Hni & Hcid & Hok & Hfam & Hpure & Htr & Hnd & Hks) Hwl Hcl Hmf Hsv Hown Hne Hsync.
    assert (Hmp : forall m r, mf_get m mf = Some r -> members_present s tr live (mr_set r)).
    { intros m r Hg p Hp Hh. apply (Hown m r p Hg Hp Hh). }
    constructor; auto.
    - intros m r s' Hg.
      apply (present_records_current s R Hok Hfam Hpure tr live (mr_set r) s' Htr Hwl Hcl
               (mf_ok_get mf m r Hmf Hg) (Hne m r Hg)).
      intros p Hp Hh. apply (Hown m r p Hg Hp Hh).
    - intros m r Hg. split; [split|].
      + apply (keys_closed_of_key_sync s R Hok Hfam Hks tr live true (mr_set r) Htr Hwl Hcl (Hmp m r Hg) (Hsync m r Hg)).
      + apply (atomic_free_of_present s R Hok Hfam Hpure tr live true (mr_set r) Htr Hwl Hcl (Hmp m r Hg)).
      + apply owns_of_key_sync. apply (Hsync m r Hg).
  Qed.

  Lemma state_ok_sync : forall live mf m r, state_ok live mf -> mf_get m mf = Some r ->
    members_present s tr live (mr_set r) /\ key_sync s tr live (mr_set r).
  Proof.
    intros live mf m r Hst Hg. split.
    - intros p Hp Hh. apply (so_present live mf Hst m r p Hg Hp Hh).
    - destruct (so_records live mf Hst m r Hg) as [[Hkc _] Holk]. apply key_sync_of; assumption.
  Qed.

  Lemma state_ok_conforms : forall live mf o, state_ok live mf -> op_ok o ->
    conforms s tr true live = true.
  Proof.
    intros live mf o Hst Hop. destruct (so_conforms live mf Hst) as [->|H]; [|exact H].
    destruct o as [mgr cfg force|mgr obj]; simpl in Hop.
    - destruct Hop as (_ & Hcc & _). apply (conforms_null_of s tr false cfg Hcc).
    - destruct Hop as (_ & Hco). apply (conforms_null_of s tr true obj Hco).
  Qed.

  (* the opening reconciliation returns the records unchanged *)
  Lemma reconcile_id : forall live mf mf0 n0, setting_ok -> state_ok live mf ->
    reconcile_managed c O (ver, live) mf = UOk (mf0, n0) -> mf0 = mf.
  Proof.
    intros live mf mf0 n0 (Hni & Hcid & _) Hst Erec.
    rewrite reconcile_managed_unfold in Erec.
    apply (fold_rstep_id c (ver, live) ver mf [] 0 mf0 n0 Hcid) in Erec; [exact Erec| |].
    - intros [m r] Hin. cbn [snd]. pose proof (so_single live mf Hst) as Hsv.
      unfold single_version in Hsv. rewrite forallb_forall in Hsv.
      apply String.eqb_eq. exact (Hsv (m, r) Hin).
    - intros [m r] s' Hin. cbn [snd]. apply (so_current live mf Hst m r s').
      apply in_assoc_get; [apply (so_mf live mf Hst)|exact Hin].
  Qed.

  (* ================= Apply ================= *)
  Lemma apply_step : forall live mf mgr cfg force o mf',
    setting_ok -> state_ok live mf -> op_ok (HApply mgr cfg force) ->
    apply_op c (ver, live) (ver, cfg) ver mf mgr force = UOk (o, mf') ->
    state_ok (match o with Some t => snd t | None => live end) mf'.
  Proof.
    intros live mf mgr cfg force o mf' Hset Hst Hop Happly.
    pose proof (state_ok_conforms live mf _ Hst Hop) as Hcl.
    pose proof Hset as (Hni & Hcid & Hok & Hfam & Hpure & Htr & Hkp).
    pose proof Hkp as [Hnd Hks].
    destruct Hop as (Hwc & Hcc & Hpl & Hgr).
    pose proof (so_wf live mf Hst) as Hwl. pose proof (so_mf live mf Hst) as Hmf.
    pose proof (so_single live mf Hst) as Hsv. pose proof (so_current live mf Hst) as Hcur.
    pose proof (so_present live mf Hst) as Hown.
    assert (Hmine : forall r, mf_get mgr mf = Some r -> applier_record_ok s tr (mr_set r)).
    { intros r Hg. apply (so_records live mf Hst mgr r Hg). }
    assert (Hothers : forall m r, m <> mgr -> mf_get m mf = Some r -> owns_live_keys s tr live (mr_set r)).
    { intros m r _ Hg. apply (so_records live mf Hst m r Hg). }
    destruct (apply_preserves_owned_present c R ver (ver, live) (ver, cfg) mf mgr force o mf'
                Hni Hcid Hok Hfam Hpure Htr Hkp eq_refl eq_refl Hsv Hmf Hcur Hmine Hothers
                Hwl Hwc Hcl Hcc Hpl Hgr Hown Happly)
      as (Hwres & Hcres & Hown' & Hmf' & Hsv' & Hne').
    destruct (apply_unfold c R ver (ver, live) (ver, cfg) mf mgr force o mf'
                Hni Hcid Hok Hfam Htr Hkp eq_refl eq_refl Hsv Hmf Hcur Hmine Hothers
                Hwl Hwc Hcl Hcc Hpl Hgr Happly)
      as (set0 & px & n1 & cmp & n2 & Eset0 & Hset0ok & HwP & HcP & HagrP & Hupd & Hres).
    cbn [fst snd] in *.
    set (mfp := mf_set mgr {| mr_set := set0; mr_ver := ver; mr_applied := true |} mf) in *.
    assert (Hmfp : mf_ok mfp) by (apply mf_set_ok; assumption).
    assert (Hsvp : single_version ver mfp) by (apply mf_set_single; [assumption|reflexivity]).
    assert (Hcok : forall cmp0, compare_tv c (ver, live) (ver, px) = Some cmp0 -> cmp_ok cmp0).
    { intros cmp0 Hc0. unfold compare_tv in Hc0. cbn [fst snd] in Hc0.
      exact (compare_sets_ok _ R _ _ _ _ Hok Htr Hwl HwP Hc0). }
    destruct (update_core_records c n1 (ver, live) (ver, px) ver mfp mgr force mf' cmp n2 Hni Hsvp Hmfp Hcok Hupd)
      as (Hcmp & _ & _ & _ & _ & Hw & Hoth).
    unfold compare_tv in Hcmp. cbn [fst snd] in Hcmp.
    (* every new record is in step with the pruned object *)
    assert (HsyncP : forall m r, mf_get m mf' = Some r -> key_sync s tr px (mr_set r)).
    { intros m r Hg. destruct (String.eqb_spec m mgr) as [->|Hm].
      - rewrite Hw in Hg. unfold mfp in Hg. rewrite mf_get_set_same in Hg. cbn [mr_set] in Hg.
        destruct (ps_empty set0); [discriminate|]. inversion Hg; subst r. cbn [mr_set].
        apply (key_sync_field_set s R Hok Hfam Hnd Hks tr cfg set0 px Htr Hwc Hcc Eset0 HwP HcP).
      - pose proof (Hoth m Hm) as Ho. unfold mfp in Ho. rewrite (mf_get_set_other m mgr _ mf Hm) in Ho.
        destruct (mf_get m mf) as [r0|] eqn:E0; [|congruence].
        rewrite Hg in Ho. destruct Ho as (_ & _ & Hk).
        destruct (state_ok_sync live mf m r0 Hst E0) as [Hmp0 Hsync0].
        apply (key_sync_keeps s R Hok Hfam Hpure Hnd Hks tr live px cmp Htr Hwl HwP Hcl HcP Hcmp r0 (mr_set r)
                 Hmp0 Hsync0 Hk). }
    destruct Hres as [[-> Hv]| ->]; cbn [snd] in *.
    - (* "no change": the answer is the live object, which equals the pruned one *)
      apply state_ok_intro; auto.
      intros m r Hg. apply (key_sync_ext s tr px live (mr_set r)); [|apply (HsyncP m r Hg)].
      intros q Hq. symmetry.
      apply (ApplyPrune.veqb_present s R Hok Hfam tr live px q Htr Hwl HwP Hcl HcP Hv Hq).
    - apply state_ok_intro; auto.
  Qed.

  (* ================= Update ================= *)
  Lemma update_step : forall live mf mgr obj o mf',
    setting_ok -> state_ok live mf -> op_ok (HUpdate mgr obj) ->
    update_op c (ver, live) (ver, obj) ver mf mgr = UOk (o, mf') ->
    o = (ver, obj) /\ state_ok obj mf'.
  Proof.
    intros live mf mgr obj o mf' Hset Hst Hop Hupdate.
    pose proof (state_ok_conforms live mf _ Hst Hop) as Hcl.
    pose proof Hset as (Hni & Hcid & Hok & Hfam & Hpure & Htr & Hkp).
    pose proof Hkp as [Hnd Hks].
    destruct Hop as (Hwn & Hcn).
    pose proof (so_wf live mf Hst) as Hwl. pose proof (so_mf live mf Hst) as Hmf.
    pose proof (so_single live mf Hst) as Hsv. pose proof (so_present live mf Hst) as Hown.
    destruct (UpdateInv.update_preserves_owned_present c R ver (ver, live) (ver, obj) mf mgr o mf'
                Hni Hcid Hok Hfam Hpure Htr eq_refl eq_refl Hsv Hmf Hwl Hwn Hcl Hcn Hown Hupdate)
      as (Ho & Hown' & Hmf' & Hsv' & Hne').
    split; [exact Ho|]. cbn [snd] in Hown'.
    apply state_ok_intro; auto.
    (* the records, one by one *)
    unfold update_op in Hupdate.
    destruct (reconcile_managed c 0 (ver, live) mf) as [[mf0 n0]|e] eqn:Hrec; [|discriminate].
    pose proof (reconcile_id live mf mf0 n0 Hset Hst Hrec) as E. subst mf0.
    destruct (update_core c n0 (ver, live) (ver, obj) ver mf mgr true) as [[[mf1 cmp] n1]|e] eqn:Hupd; [|discriminate].
    rewrite (no_ignore_filter c ver Hni) in Hupdate. cbn [filter_set] in Hupdate.
    assert (Hcok : forall cmp0, compare_tv c (ver, live) (ver, obj) = Some cmp0 -> cmp_ok cmp0).
    { intros cmp0 Hc0. unfold compare_tv in Hc0. cbn [fst snd] in Hc0.
      exact (compare_sets_ok _ R _ _ _ _ Hok Htr Hwl Hwn Hc0). }
    destruct (update_core_records c n0 (ver, live) (ver, obj) ver mf mgr true mf1 cmp n1 Hni Hsv Hmf Hcok Hupd)
      as (Hcmp & _ & Hok1 & _ & _ & Hw & Hothers).
    pose proof (Hcok cmp Hcmp) as Hc.
    unfold compare_tv in Hcmp. cbn [fst snd] in Hcmp.
    (* the records of the other managers *)
    assert (Hoth : forall m r, m <> mgr -> mf_get m mf1 = Some r -> key_sync s tr obj (mr_set r)).
    { intros m r Hm Hg. pose proof (Hothers m Hm) as Hom.
      destruct (mf_get m mf) as [r0|] eqn:E0; [|congruence].
      rewrite Hg in Hom. destruct Hom as (_ & _ & Hk).
      destruct (state_ok_sync live mf m r0 Hst E0) as [Hmp0 Hsync0].
      apply (key_sync_keeps s R Hok Hfam Hpure Hnd Hks tr live obj cmp Htr Hwl Hwn Hcl Hcn Hcmp r0 (mr_set r)
               Hmp0 Hsync0 Hk). }
    (* the updater's set *)
    set (cur := match mf_get mgr mf1 with Some r => mr_set r | None => ps_empty_set end) in *.
    assert (Hcur : ps_ok cur = true) by (apply cur_ok; exact Hok1).
    assert (Hcurs : members_present s tr live cur /\ key_sync s tr live cur).
    { unfold cur. rewrite Hw. destruct (mf_get mgr mf) as [r|] eqn:Er.
      - destruct (ps_empty (mr_set r)).
        + split; [intros p _ Hh|intros pre fl k _ _ _]; rewrite ?ps_has_empty_set in *; [discriminate|reflexivity].
        + apply (state_ok_sync live mf mgr r Hst Er).
      - split; [intros p _ Hh|intros pre fl k _ _ _]; rewrite ?ps_has_empty_set in *; [discriminate|reflexivity]. }
    destruct Hcurs as [Hcurp Hcursync].
    destruct (update_set_spec cur cmp Hcur Hc) as [Hok2 Hhas2].
    set (set0 := ps_union (ps_union (ps_diff cur (removed cmp)) (modified cmp)) (added cmp)) in *.
    assert (Hset0 : key_sync s tr obj set0).
    { apply (key_sync_update_set s R Hok Hfam Hpure Hnd Hks tr live obj cmp Htr Hwl Hwn Hcl Hcn Hcmp cur set0
               Hcurp Hcursync).
      intros p Hp _. apply (Hhas2 p Hp). }
    intros m r Hg.
    destruct (ps_empty set0) eqn:Ee; inversion Hupdate; subst o mf'; clear Hupdate.
    - rewrite (mf_get_del m mgr mf1 (proj1 Hok1)) in Hg.
      destruct (String.eqb_spec m mgr) as [E|E]; [discriminate|]. apply (Hoth m r E Hg).
    - destruct (String.eqb_spec m mgr) as [E|E].
      + subst m. rewrite mf_get_set_same in Hg. inversion Hg; subst r. cbn [mr_set]. exact Hset0.
      + rewrite (mf_get_set_other m mgr _ mf1 E) in Hg. apply (Hoth m r E Hg).
  Qed.

  (* ================= the theorems ================= *)

  (* 1. one step preserves the invariant *)
  Theorem step_preserves_state_ok : forall live mf o,
    setting_ok -> state_ok live mf -> op_ok o ->
    state_ok (fst (hstep (live, mf) o)) (snd (hstep (live, mf) o)).
  Proof.
    intros live mf o Hset Hst Hop. destruct o as [mgr cfg force|mgr obj]; cbn [hstep fst snd].
    - destruct (apply_op c (ver, live) (ver, cfg) ver mf mgr force) as [[o mf']|e] eqn:Happly; [|exact Hst].
      pose proof (apply_step live mf mgr cfg force o mf' Hset Hst Hop Happly) as H.
      destruct o as [t|]; exact H.
    - destruct (update_op c (ver, live) (ver, obj) ver mf mgr) as [[t mf']|e] eqn:Hupdate; [|exact Hst].
      destruct (update_step live mf mgr obj t mf' Hset Hst Hop Hupdate) as [-> H]. exact H.
  Qed.

  Lemma initial_state_ok : state_ok VNull [].
  Proof.
    constructor.
    - reflexivity.
    - left. reflexivity.
    - split; reflexivity.
    - reflexivity.
    - intros m r s' Hg. discriminate Hg.
    - intros m r Hg. discriminate Hg.
    - intros m r p Hg. discriminate Hg.
    - intros m r Hg. discriminate Hg.
  Qed.

  Lemma run_from_ok : forall ops st, setting_ok -> Forall op_ok ops ->
    state_ok (fst st) (snd st) ->
    state_ok (fst (fold_left hstep ops st)) (snd (fold_left hstep ops st)).
  Proof.
    induction ops as [|o ops IH]; intros [live mf] Hset Hall Hst; [exact Hst|].
    cbn [fold_left]. inversion Hall as [|? ? Ho Hrest]; subst.
    apply IH; auto. apply (step_preserves_state_ok live mf o Hset Hst Ho).
  Qed.

  (* 2. hence every reachable state satisfies it *)
  Theorem reachable_states_ok : forall ops,
    setting_ok -> Forall op_ok ops -> state_ok (fst (run ops)) (snd (run ops)).
  Proof.
    intros ops Hset Hall. unfold run. apply run_from_ok; auto. exact initial_state_ok.
  Qed.

  (* the clause of Proofs/History_statements.v ("the object is valid") holds at every
     reachable state as soon as the history is not empty, or null is valid at the root *)
  Theorem reachable_objects_valid : forall ops,
    setting_ok -> Forall op_ok ops -> (ops <> [] \/ conforms s tr true VNull = true) ->
    conforms s tr true (fst (run ops)) = true.
  Proof.
    intros ops Hset Hall Hne.
    pose proof (reachable_states_ok ops Hset Hall) as Hst.
    destruct Hne as [Hne|Hnull].
    - destruct ops as [|o rest]; [contradiction Hne; reflexivity|].
      inversion Hall as [|? ? Ho _]; subst.
      apply (state_ok_conforms _ _ o Hst Ho).
    - destruct (so_conforms _ _ Hst) as [E|H]; [rewrite E; exact Hnull|exact H].
  Qed.

  (* 3. C01 at every reachable state: whatever the history, a successful apply returns an
        object that agrees with the configuration *)
  Theorem apply_takes_effect_along_histories : forall ops mgr cfg force o mf',
    setting_ok -> Forall op_ok ops -> op_ok (HApply mgr cfg force) ->
    apply_op c (ver, fst (run ops)) (ver, cfg) ver (snd (run ops)) mgr force = UOk (o, mf') ->
    agrees s tr cfg (match o with Some t => snd t | None => fst (run ops) end) = true.
  Proof.
    intros ops mgr cfg force o mf' Hset Hall Hop Happly.
    pose proof (reachable_states_ok ops Hset Hall) as Hst.
    pose proof (state_ok_conforms _ _ _ Hst Hop) as Hcl.
    destruct Hset as (Hni & Hcid & Hok & Hfam & Hpure & Htr & Hkp).
    destruct Hop as (Hwc & Hcc & Hpl & Hgr).
    apply (apply_takes_effect c R ver (ver, fst (run ops)) (ver, cfg) (snd (run ops)) mgr force o mf'
             Hni Hcid Hok Hfam Htr Hkp eq_refl eq_refl (so_single _ _ Hst) (so_mf _ _ Hst) (so_current _ _ Hst)); auto.
    - intros r Hg. apply (so_records _ _ Hst mgr r Hg).
    - intros m r _ Hg. apply (so_records _ _ Hst m r Hg).
    - apply (so_wf _ _ Hst).
  Qed.

  (* ================= the other step theorems at every reachable state ================= *)

  (* the side conditions of the step theorems about Apply, at a reachable state *)
  Lemma reachable_side_conditions : forall ops mgr cfg force,
    setting_ok -> Forall op_ok ops -> op_ok (HApply mgr cfg force) ->
    let live := fst (run ops) in let mf := snd (run ops) in
    single_version ver mf /\ mf_ok mf /\ records_current c ver mf /\
    (forall r, mf_get mgr mf = Some r -> applier_record_ok s tr (mr_set r)) /\
    (forall m r, m <> mgr -> mf_get m mf = Some r -> owns_live_keys s tr live (mr_set r)) /\
    wf_value live = true /\ conforms s tr true live = true /\ owned_present s tr live mf.
  Proof.
    intros ops mgr cfg force Hset Hall Hop live mf.
    pose proof (reachable_states_ok ops Hset Hall) as Hst. fold live mf in Hst.
    split; [apply (so_single _ _ Hst)|]. split; [apply (so_mf _ _ Hst)|].
    split; [apply (so_current _ _ Hst)|].
    split; [intros r Hg; apply (so_records _ _ Hst mgr r Hg)|].
    split; [intros m r _ Hg; apply (so_records _ _ Hst m r Hg)|].
    split; [apply (so_wf _ _ Hst)|]. split; [apply (state_ok_conforms _ _ _ Hst Hop)|].
    apply (so_present _ _ Hst).
  Qed.

  (* C06 at every reachable state: every recorded path designates a node of the object *)
  Theorem owned_paths_present_along_histories : forall ops m r p,
    setting_ok -> Forall op_ok ops ->
    mf_get m (snd (run ops)) = Some r -> wf_path p = true -> ps_has p (mr_set r) = true ->
    present s tr (fst (run ops)) p = true.
  Proof.
    intros ops m r p Hset Hall Hg Hp Hh.
    apply (so_present _ _ (reachable_states_ok ops Hset Hall) m r p Hg Hp Hh).
  Qed.

  (* C03 at every reachable state (Proofs/ApplyPrune.v, apply_removes_abandoned): a path of
     the applier's previous record that the new configuration no longer mentions and that
     no other manager owns is absent from the result -- provided that, if the object has
     it, the object has at or beneath it a leaf a field set can see (anything but an
     empty list; that proviso is necessary, see ApplyPrune.apply_removes_abandoned_needs_visible,
     and is NOT an invariant of histories: an Update may write an empty list) *)
  Theorem apply_removes_abandoned_along_histories : forall ops mgr cfg force o mf' last fscfg p,
    setting_ok -> Forall op_ok ops -> op_ok (HApply mgr cfg force) ->
    apply_op c (ver, fst (run ops)) (ver, cfg) ver (snd (run ops)) mgr force = UOk (o, mf') ->
    mf_get mgr (snd (run ops)) = Some last ->
    to_field_set s tr cfg = Some fscfg ->
    wf_path p = true -> p <> [] ->
    ps_has p (mr_set last) = true ->
    (forall q, In q (map fst (nodes s tr cfg)) -> is_prefix p q = false) ->
    ps_has p (ps_en s tr (ApplyPrune.others_union mgr (snd (run ops)))) = false ->
    (present s tr (fst (run ops)) p = true ->
     exists r tr' x, wf_path r = true /\
       resolve_path s tr (fst (run ops)) (p ++ r) = Some (RNode tr' x) /\
       leafy s tr' x /\ x <> VList []) ->
    present s tr (match o with Some t => snd t | None => fst (run ops) end) p = false.
  Proof.
    intros ops mgr cfg force o mf' last fscfg p Hset Hall Hop Happly Hlast Hfs Hp Hne Hpl Hnone Hnoto Hvis.
    destruct (reachable_side_conditions ops mgr cfg force Hset Hall Hop)
      as (Hsv & Hmf & Hcur & Hmine & Hothers & Hwl & Hcl & _).
    destruct Hset as (Hni & Hcid & Hok & Hfam & Hpure & Htr & Hkp).
    destruct Hop as (Hwc & Hcc & Hplain & Hgr).
    apply (ApplyPrune.apply_removes_abandoned c R ver (ver, fst (run ops)) (ver, cfg) (snd (run ops)) mgr force o mf'
             last fscfg p Hni Hcid Hok Hfam Htr Hkp eq_refl eq_refl Hsv Hmf Hcur Hmine Hothers
             Hwl Hwc Hcl Hcc Hplain Hgr Happly Hlast Hfs Hp Hne Hpl Hnone Hnoto Hvis).
  Qed.

  (* C02 (removal half) at every reachable state (apply_removes_only_own): a node of the
     object that a successful apply makes disappear, and that is not at or beneath a node
     of the configuration, lies at or beneath a path of the applier's previous record *)
  Theorem apply_removes_only_own_along_histories : forall ops mgr cfg force o mf' p,
    setting_ok -> Forall op_ok ops -> op_ok (HApply mgr cfg force) ->
    apply_op c (ver, fst (run ops)) (ver, cfg) ver (snd (run ops)) mgr force = UOk (o, mf') ->
    wf_path p = true -> p <> [] ->
    present s tr (fst (run ops)) p = true ->
    present s tr (match o with Some t => snd t | None => fst (run ops) end) p = false ->
    (forall q, In q (map fst (nodes s tr cfg)) -> is_prefix q p = false) ->
    MergeKeeps.same_root_kind s tr (fst (run ops)) cfg ->
    exists last q, mf_get mgr (snd (run ops)) = Some last /\ is_prefix q p = true /\
                   ps_has q (ps_en s tr (mr_set last)) = true.
  Proof.
    intros ops mgr cfg force o mf' p Hset Hall Hop Happly Hp Hne Hpl Habs Hnone Hsk.
    destruct (reachable_side_conditions ops mgr cfg force Hset Hall Hop)
      as (Hsv & Hmf & Hcur & Hmine & Hothers & Hwl & Hcl & _).
    destruct Hset as (Hni & Hcid & Hok & Hfam & Hpure & Htr & Hkp).
    destruct Hop as (Hwc & Hcc & Hplain & Hgr).
    apply (ApplyPrune.apply_removes_only_own c R ver (ver, fst (run ops)) (ver, cfg) (snd (run ops)) mgr force o mf' p
             Hni Hcid Hok Hfam Htr Hkp eq_refl eq_refl Hsv Hmf Hcur Hmine Hothers
             Hwl Hwc Hcl Hcc Hplain Hgr Happly Hp Hne Hpl Habs Hnone Hsk).
  Qed.
End History.

(* ================= non-vacuity ================= *)

(* A history of six operations by four managers over the example schema (Spec/Examples.v:
   a number, a list of items keyed by name, a map of numbers): applies, a forced apply that
   abandons a list member, updates that change fields of members owned by others and add
   members.  Every operation is admissible and succeeds; the final state has four
   managers with non-empty records; it satisfies the invariant BY THE THEOREM. *)
Section Example.
  Open Scope string_scope.
  Let F := PEField.
  Let K (n : string) := PEKey [("name", VStr n)].
  Let item (n : string) (v : Z) := VMap [("name", VStr n); ("vv", VInt v)].
  Let itemn (n : string) := VMap [("name", VStr n)].

  Definition hx_ops : list hop :=
    [ HApply "a" (VMap [("aa", VInt 1); ("items", VList [item "x" 1; item "y" 2])]) false;
      HUpdate "b" (VMap [("aa", VInt 1); ("items", VList [item "x" 5; item "y" 2; item "z" 3]);
                         ("mm", VMap [("k", VInt 1)])]);
      HApply "c" (VMap [("items", VList [itemn "x"; item "w" 1])]) false;
      HApply "a" (VMap [("aa", VInt 2); ("items", VList [itemn "y"])]) true;
      HUpdate "d" (VMap [("aa", VInt 2); ("items", VList [item "y" 7; item "z" 3; itemn "x"])]);
      HApply "c" (VMap [("mm", VMap [("k", VInt 2)])]) true ].

  Definition hx_obj : value :=
    VMap [("aa", VInt 2); ("items", VList [item "y" 7; item "z" 3]); ("mm", VMap [("k", VInt 2)])].

  Definition hx_mf : managed :=
    [("a", mkRec (ps_of_paths [[F "aa"]; [F "items"; K "y"]; [F "items"; K "y"; F "name"]]) "v1" true);
     ("b", mkRec (ps_of_paths [[F "items"; K "z"]; [F "items"; K "z"; F "name"]; [F "items"; K "z"; F "vv"]]) "v1" false);
     ("c", mkRec (ps_of_paths [[F "mm"; F "k"]]) "v1" true);
     ("d", mkRec (ps_of_paths [[F "items"; K "y"; F "vv"]]) "v1" false)].

  Lemma ex_setting_ok : setting_ok ex_config FieldSetLaws.ex_R "v1".
  Proof.
    split; [exact ex_config_no_ignore|]. split; [intros n from to v; reflexivity|].
    split; [exact FieldSetLaws.ex_schema_ok|]. split; [exact FieldSetLaws.ex_family|].
    split; [exact ex_lists_pure_fs|]. split; [exact FieldSetLaws.ex_R_root|exact ex_keys_plain].
  Qed.

  Lemma hx_ops_ok : Forall (op_ok ex_config "v1") hx_ops.
  Proof.
    repeat constructor; try (vm_compute; reflexivity); vm_compute; exact I.
  Qed.

  Lemma hx_run : run ex_config "v1" hx_ops = (hx_obj, hx_mf).
  Proof. vm_compute. reflexivity. Qed.

  Example history_example :
    setting_ok ex_config FieldSetLaws.ex_R "v1" /\
    Forall (op_ok ex_config "v1") hx_ops /\
    run ex_config "v1" hx_ops = (hx_obj, hx_mf) /\
    state_ok ex_config "v1" hx_obj hx_mf.
  Proof.
    split; [exact ex_setting_ok|]. split; [exact hx_ops_ok|]. split; [exact hx_run|].
    pose proof (reachable_states_ok ex_config FieldSetLaws.ex_R "v1" hx_ops ex_setting_ok hx_ops_ok) as H.
    rewrite hx_run in H. exact H.
  Qed.

  (* at that state manager "b" applies (forced) a configuration that changes the member z,
     claims the member y and the number: the apply succeeds, and its result agrees with the
     configuration -- by theorem 3, not by evaluation *)
  Definition hx_cfg : value :=
    VMap [("aa", VInt 5); ("items", VList [item "z" 9; itemn "y"])].

  Example history_example_apply :
    (exists o mf', apply_op ex_config ("v1", hx_obj) ("v1", hx_cfg) "v1" hx_mf "b" true = UOk (o, mf')) /\
    forall o mf',
      apply_op ex_config ("v1", hx_obj) ("v1", hx_cfg) "v1" hx_mf "b" true = UOk (o, mf') ->
      agrees ex_schema ex_rt hx_cfg (match o with Some t => snd t | None => hx_obj end) = true.
  Proof.
    split.
    - eexists. eexists. vm_compute. reflexivity.
    - intros o mf' H.
      pose proof (apply_takes_effect_along_histories ex_config FieldSetLaws.ex_R "v1" hx_ops "b" hx_cfg true o mf'
                    ex_setting_ok hx_ops_ok) as T.
      rewrite hx_run in T. cbn [fst snd] in T. apply T; [|exact H].
      repeat split; try (vm_compute; reflexivity); vm_compute; exact I.
  Qed.
End Example.

(* ================= why [so_conforms] reads "null or valid" ================= *)

(* With the clause as in Proofs/History_statements.v ("the object is valid") the second
   theorem is false: a schema may type the root by the empty atom, under which not even
   null is valid; every hypothesis of [setting_ok] holds (vacuously), and the empty
   history ends in (null, no records). *)
Section Degenerate.
  Definition deg_config : config :=
    mkConfig (fun _ => ([], empty_tr)) (fun _ _ _ v => COk v) None None false (fun l => l).
  Definition deg_R (t : typeref) : Prop := t = empty_tr.

  Lemma deg_setting_ok : setting_ok deg_config deg_R "v1"%string.
  Proof.
    split; [split; reflexivity|]. split; [intros n from to v; reflexivity|].
    split.
    { constructor.
      - intros tr a t Htr Hr Ha. unfold deg_R in Htr. subst tr. vm_compute in Hr. inversion Hr; subst a. discriminate Ha.
      - intros tr a m k Htr Hr Ha. unfold deg_R in Htr. subst tr. vm_compute in Hr. inversion Hr; subst a. discriminate Ha.
      - intros tr a Htr Hr. unfold deg_R in Htr. subst tr. vm_compute in Hr. inversion Hr; subst a. reflexivity. }
    split.
    { intros tr a t Htr Hr Ha. unfold deg_R in Htr. subst tr. vm_compute in Hr. inversion Hr; subst a. discriminate Ha. }
    split.
    { intros tr sc t ma Htr Hr. unfold deg_R in Htr. subst tr. vm_compute in Hr. discriminate Hr. }
    split; [reflexivity|]. split.
    - intros tr a t k d Htr Hr Ha. unfold deg_R in Htr. subst tr. vm_compute in Hr. inversion Hr; subst a. discriminate Ha.
    - intros tr a t k ea mt Htr Hr Ha. unfold deg_R in Htr. subst tr. vm_compute in Hr. inversion Hr; subst a. discriminate Ha.
  Qed.

  Theorem so_conforms_as_stated_refuted :
    setting_ok deg_config deg_R "v1"%string /\
    Forall (op_ok deg_config "v1"%string) [] /\
    conforms (schema_of deg_config "v1"%string) (tr_of deg_config "v1"%string) true
             (fst (run deg_config "v1"%string [])) = false.
  Proof. split; [exact deg_setting_ok|]. split; [constructor|]. vm_compute. reflexivity. Qed.
End Degenerate.

