(* Removal never adds a node: a path that resolves in [remove_items T v] (T nice for v)
   resolves in v.  Companion of [remove_keeps] / [remove_drops] (Proofs/RemoveFrame.v). *)
From Coq Require Import List ZArith String Bool Arith Lia.
From SMD Require Import Model.Value Model.Order Model.PathElem Model.PathSet Model.Schema
  Model.Walk Model.FieldSet Model.Remove Spec.PathsAsSets Spec.RefValid Spec.Resolve Spec.Agree
  Proofs.OrderLaws Proofs.KeyLaws Proofs.PathSetLaws Proofs.ValidateLaws Proofs.SchemaOk
  Proofs.FieldSetMirrors Proofs.FieldSetBase Proofs.FieldSetShape Proofs.FieldSetPaths
  Proofs.RemoveBase Proofs.ExtractBase Proofs.ExtractLaws Proofs.RemoveAbsent Proofs.RemoveWf
  Proofs.ResolveLaws Proofs.ReconcileBase Proofs.RemoveFrame.
Import ListNotations.
Open Scope bool_scope.

Local Arguments ps_has : simpl never.
Local Arguments ps_with_prefix : simpl never.
Local Arguments ps_empty : simpl never.

Section Mono.
  Variables (s : schema) (R : typeref -> Prop).
  Hypothesis Hok : schema_ok s R.
  Hypothesis Hfam : family_refs s R.
  Hypothesis Hnd : keys_nodefault s R.

  Theorem remove_mono : forall p v tr dup T, R tr -> wf_value v = true ->
    conforms s tr dup v = true -> nice s tr v T -> wf_path p = true -> p <> [] ->
    present s tr (remove_items s false tr T v) p = true -> present s tr v p = true.
  Proof.
    induction p as [|e rest IH]; intros v tr dup T Htr Hwf Hc Hn Hp Hne Hpr; [congruence|].
    apply wf_path_cons in Hp. destruct Hp as [He Hrest].
    pose proof (n_ok _ _ _ _ Hn) as HT.
    destruct (kind_of s tr v) as [|t m|t l|] eqn:Ek.
    - rewrite present_leaf_false in Hpr; [discriminate| |discriminate].
      apply (remove_leafy s tr dup v T Hc). unfold leafy. rewrite Ek. exact I.
    - destruct (kind_map_inv _ _ _ _ _ Ek) as (a & Hr & Ham & Hv & Hna & Hmne). subst v.
      unfold present in *.
      destruct e as [k|fl|ev|i];
        try (rewrite (rm_resolve_map_other s tr t m T _ rest Ek) in Hpr by exact I; discriminate).
      rewrite (rm_resolve_map s tr t m T k rest Ek) in Hpr.
      destruct (ps_has [PEField k] T) eqn:Eh; [discriminate|].
      rewrite (resolve_path_map _ _ _ _ _ _ _ Ek).
      destruct (assoc_get k m) as [c|] eqn:Eg; [|discriminate].
      unfold kept_value in Hpr.
      destruct (negb (ps_empty (ps_with_prefix (PEField k) T))) eqn:Ee; [|exact Hpr].
      destruct rest as [|e2 rest2]; [reflexivity|].
      pose proof (assoc_get_In m k c Eg) as Hin.
      apply (IH c (field_type t k) dup (ps_with_prefix (PEField k) T)); auto.
      + eapply (so_map s R Hok); eauto.
      + eapply wf_value_map_in; eauto.
      + pose proof Hc as Hc'. rewrite conforms_eq, Hr in Hc'.
        destruct a as [sc li ma]. simpl in Ham. subst ma. eapply cmap_each_in; eauto.
      + eapply nice_map_child; eauto.
      + discriminate.
    - destruct (kind_list_inv _ _ _ _ _ Ek) as (a & Hr0 & Hal & Hv & _ & _). subst v.
      destruct (conf_list_facts s R Hok Hfam tr dup t l Htr Hc Ek) as (sc & ma & Hr & Hte & Hna & Hlne & Hhp & Hcs & _).
      unfold present in *.
      destruct (is_keyval e) eqn:Ekv;
        [|rewrite (rm_resolve_list_other s R Hok Hfam tr dup t l T e rest Htr Hc Ek Ekv) in Hpr; discriminate].
      rewrite (rm_resolve_list s R Hok Hfam Hnd tr dup t l T e rest Htr Hwf Hc Ek Hn He Ekv) in Hpr.
      destruct (ps_has [e] T) eqn:Eh; [discriminate|].
      rewrite (resolve_path_list_occ s R Hok tr _ t l e rest Htr Hwf Ek He), Hhp, Ekv. cbn [andb].
      assert (Hiw : items_wf s t l) by (eapply items_wf_R; eauto).
      destruct (occ s t e l) as [|x [|y more]] eqn:Eo; [discriminate| |].
      + assert (Hxo : In x (occ s t e l)) by (rewrite Eo; left; reflexivity).
        apply occ_In in Hxo. destruct Hxo as [Hx Hm]. unfold pe_matches in Hm.
        destruct (list_item_to_pe s t x) as [ex|] eqn:Ex; [|discriminate].
        assert (Hwex : wf_pe ex = true) by (apply (Hiw x ex Hx Ex)).
        assert (Hnoex : ps_has [ex] T = false).
        { rewrite <- Eh. apply ps_has_patheqb; auto; try (apply wf_path_cons; auto).
          simpl. rewrite Hm. reflexivity. }
        unfold kept_item in Hpr. rewrite (list_item_pe_or_zero_some s t x ex Ex) in Hpr. cbv zeta in Hpr.
        destruct (negb (ps_empty (ps_with_prefix ex T))) eqn:Ee; [|exact Hpr].
        destruct rest as [|e2 rest2]; [reflexivity|].
        apply (IH x (list_elem t) dup (ps_with_prefix ex T)); auto.
        * eapply wf_value_list_in; eauto.
        * rewrite forallb_forall in Hcs. exact (Hcs x Hx).
        * eapply nice_item_child; eauto.
        * discriminate.
      + destruct rest; [reflexivity|discriminate].
    - rewrite present_leaf_false in Hpr; [discriminate| |discriminate].
      apply (remove_leafy s tr dup v T Hc). unfold leafy. rewrite Ek. exact I.
  Qed.
End Mono.
