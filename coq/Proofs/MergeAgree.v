(* C12/C01: the right-hand side wins, nothing else changes, merging R again is a no-op.
   Proofs of the statements of Proofs/MergeAgree_statements.v. *)
From Coq Require Import List ZArith String Bool Arith Lia.
From SMD Require Import Model.Value Model.Order Model.PathElem Model.PathSet Model.Schema
  Model.Walk Model.Merge Spec.PathsAsSets Spec.RefValid Spec.Resolve Spec.Agree
  Proofs.OrderLaws Proofs.KeyLaws Proofs.PathSetLaws Proofs.SchemaOk Proofs.MergeLaws.
From SMD Require Import Proofs.FieldSetBase Proofs.FieldSetPaths Proofs.ResolveLaws
  Proofs.PesLaws Proofs.MergeBase Proofs.MergeLoop Proofs.MergeWalk Proofs.MergeConf
  Proofs.MergeInter Proofs.MergeVeqb Proofs.MergeDescent.
Import ListNotations.
Open Scope bool_scope.

(* ------------------------------------------------------------------ *)
(* small helpers *)
Lemma dm_some : forall o, dm o <> [] -> exists m, o = Some (VMap m) /\ m <> [].
Proof.
  intros o H. destruct o as [[| | | | |l|m]|]; cbv [dm deref_map] in H; try congruence.
  exists m. split; [reflexivity|exact H].
Qed.

Lemma dl_some : forall o, dl o <> [] -> exists l, o = Some (VList l) /\ l <> [].
Proof.
  intros o H. destruct o as [[| | | | |l|m]|]; cbv [dl deref_list] in H; try congruence.
  exists l. split; [reflexivity|exact H].
Qed.

Lemma plain_map_in : forall m k x, plain (VMap m) = true -> In (k, x) m -> plain x = true.
Proof.
  intros m k x H Hin. destruct m as [|kv m']; [destruct Hin|].
  simpl in H. change (forallb (fun kv => plain (snd kv)) (kv :: m') = true) in H.
  rewrite forallb_forall in H. apply (H (k, x) Hin).
Qed.

Lemma plain_list_in : forall l x, plain (VList l) = true -> In x l -> plain x = true.
Proof.
  intros l x H Hin. destruct l as [|y l']; [destruct Hin|].
  simpl in H. change (forallb plain (y :: l') = true) in H.
  rewrite forallb_forall in H. apply (H x Hin).
Qed.

Lemma assoc_get_built : forall (g : string -> value) keys k, In k keys ->
  assoc_get k (map (fun k => (k, g k)) keys) = Some (g k).
Proof.
  intros g keys k Hin. rewrite assoc_get_map_keys.
  destruct (in_dec string_dec k keys); [reflexivity|contradiction].
Qed.

Lemma assoc_get_built_inv : forall (g : string -> value) keys k x,
  assoc_get k (map (fun k => (k, g k)) keys) = Some x -> In k keys /\ x = g k.
Proof.
  intros g keys k x H. rewrite assoc_get_map_keys in H.
  destruct (in_dec string_dec k keys); [|discriminate]. inversion H. auto.
Qed.

Lemma built_nonempty : forall (g : string -> value) keys, keys <> [] ->
  map (fun k => (k, g k)) keys <> [].
Proof. intros g keys H E. destruct keys; [congruence|discriminate]. Qed.

Lemma map_snd_nonempty : forall (tl : list (pe * value)), tl <> [] -> map snd tl <> [].
Proof. intros tl H E. destruct tl; [congruence|discriminate]. Qed.

Section Agree.
  Variables (s : schema) (R : typeref -> Prop).
  Hypothesis Hok : schema_ok s R.
  Hypothesis Hfam : family_refs s R.

  (* the one-step list resolver, with the [has_pe] of Proofs/MergeBase.v *)
  Lemma rpl_occ : forall tr v t l e rest,
    R tr -> wf_value v = true -> kind_of s tr v = KList t l -> wf_pe e = true ->
    resolve_path s tr v (e :: rest) =
    if forallb (MergeBase.has_pe s t) l && is_keyval e then
      match occ s t e l with
      | [] => None
      | [x] => resolve_path s (list_elem t) x rest
      | x :: y :: more =>
          match rest with [] => Some (RDup (list_elem t) (x :: y :: more)) | _ => None end
      end
    else None.
  Proof. exact (resolve_path_list_occ s R Hok). Qed.

  Lemma items_wf_of : forall tr a t l, R tr -> resolve s tr = Some a -> atom_list a = Some t ->
    forallb wf_value l = true -> items_wf s t l.
  Proof.
    intros tr a t l HR Hr Hl Hw. apply (items_wf_R s R Hok).
    - apply (so_list s R Hok tr a t); auto.
    - exact Hw.
  Qed.

  (* resolution of a member of a conforming granular list *)
  Lemma resolve_member : forall tr a t dup l e x rest, R tr -> resolve s tr = Some a ->
    atom_list a = Some t -> rel_is_atomic (list_rel t) = false ->
    conforms s tr dup (VList l) = true -> wf_value (VList l) = true ->
    wf_pe e = true -> occ s t e l = [x] ->
    resolve_path s tr (VList l) (e :: rest) = resolve_path s (list_elem t) x rest.
  Proof.
    intros tr a t dup l e x rest HR Hr Hl Hna Hc Hw He Hocc.
    assert (Hne : l <> []) by (intros E; subst l; discriminate).
    pose proof (kind_of_list s tr a t l Hr Hl Hna Hne) as Hk.
    pose proof (list_rel_assoc t (Hfam tr a t HR Hr Hl) Hna) as Hrel.
    destruct (conf_list_assoc s tr a t dup l Hr Hl Hrel Hc) as (Hpe & _ & _).
    rewrite (rpl_occ tr (VList l) t l e rest HR Hw Hk He), Hpe, Hocc.
    assert (Hkv : is_keyval e = true).
    { assert (Hin : In x (occ s t e l)) by (rewrite Hocc; left; reflexivity).
      apply occ_In in Hin. apply (pe_matches_keyval s t e x). apply Hin. }
    rewrite Hkv. reflexivity.
  Qed.

  (* ---------------------------------------------------------------- *)
  (* the right-hand side wins *)
  Lemma AgrP_refl : forall tr r, R tr -> wf_value r = true -> AgrP s tr r r.
  Proof.
    intros tr r HR Hw p c Hp Hres. exists c. split; [exact Hres|]. intros _.
    apply (resolve_path_eqb_refl s R Hok p r tr c HR Hw Hp Hres).
  Qed.

  Lemma right_wins_w : forall f tr lo r out, R tr -> odepth lo + vdepth r < f ->
    oconf s tr true lo -> conforms s tr false r = true -> wf_value r = true -> plain r = true ->
    merge_w f s tr lo (Some r) = (false, Some out) -> AgrP s tr r out.
  Proof.
    induction f as [|f IH]; intros tr lo r out HR Hd Hcl Hcr Hwr Hpl Hm; [lia|].
    assert (Hd' : odepth lo + odepth (Some r) < S f) by (simpl; lia).
    destruct (merge_conf_w s R Hok Hfam (S f) tr lo (Some r) out HR Hd' Hcl (conj Hcr Hwr) Hm)
      as (Hco & Hwo & _).
    destruct (merge_cases f s tr false lo r out Hcr Hm)
      as [Heq|[(a & mt & Hr & Hmt & Hna & Hne & Hshape & Hmm & Hhm)|(a & t & Hr & Hlt & Hna & Hne & Hshape & Hml & Hhl)]].
    - subst out. apply AgrP_refl; assumption.
    - (* granular map *)
      destruct Hshape as [Hn|[m Hrm]]; [subst r; discriminate|]. subst r.
      assert (Hmne : m <> []) by (intros E; subst m; discriminate).
      destruct (map_descent s R Hok Hfam f tr a mt lo (Some (VMap m)) out HR Hr Hmt Hd' Hcl
                  (conj Hcr Hwr) Hna Hne Hmm) as (g & Hout & Hkne & Hg).
      change (dm (Some (VMap m))) with m in *.
      set (keys := keys_union (map fst (dm lo)) (map fst m)) in *.
      pose proof (kind_of_map s tr a mt m Hr Hmt Hna Hmne) as Hkr.
      pose proof (kind_of_map s tr a mt _ Hr Hmt Hna (built_nonempty g keys Hkne)) as Hko.
      rewrite <- Hout in Hko.
      intros p c Hp Hres. destruct p as [|e rest].
      + simpl in Hres. inversion Hres; subst c. exists (RNode tr out). split; [reflexivity|].
        simpl. rewrite Hkr. discriminate.
      + apply wf_path_cons in Hp. destruct Hp as [He Hp].
        destruct e as [k|k|k|k];
          try (rewrite (resolve_path_map_other _ _ _ _ _ _ _ Hkr) in Hres by exact I; discriminate).
        rewrite (resolve_path_map _ _ _ _ _ _ _ Hkr) in Hres.
        destruct (assoc_get k m) as [rk|] eqn:Eg; [|discriminate].
        assert (Hk : In k keys).
        { apply keys_union_in. right. apply (assoc_get_some_keys _ m k rk Eg). }
        rewrite (resolve_path_map _ _ _ _ _ _ _ Hko).
        rewrite (assoc_get_built g keys k Hk).
        destruct (map_sub s R Hok f tr a mt lo (Some (VMap m)) k HR Hr Hmt Hd' Hcl (conj Hcr Hwr) Hne Hk)
          as (H1 & H2 & H3 & H4 & _).
        change (dm (Some (VMap m))) with m in *. rewrite Eg in *.
        destruct H4 as [H4c H4w]. simpl in H2.
        pose proof (Hg k Hk) as Hmk. rewrite Eg in Hmk.
        apply (IH (field_type mt k) (assoc_get k (dm lo)) rk (g k) H1 H2 H3 H4c H4w
                 (plain_map_in m k rk Hpl (assoc_get_in _ k m rk Eg)) Hmk rest c Hp Hres).
    - (* granular list *)
      destruct Hshape as [Hn|[l Hrl]]; [subst r; discriminate|]. subst r.
      assert (Hlne : l <> []) by (intros E; subst l; discriminate).
      pose proof (list_rel_assoc t (Hfam tr a t HR Hr Hlt) Hna) as Hrel.
      destruct (list_descent s R Hok Hfam f tr a t lo (Some (VList l)) out HR Hr Hlt Hd' Hcl
                  (conj Hcr Hwr) Hna Hne Hml) as (gR & tl & Hout & Htlne & Hil & HgR).
      destruct (list_descent_items s R Hok Hfam f tr a t lo (Some (VList l)) gR tl HR Hr Hlt Hd' Hcl
                  (conj Hcr Hwr) Hrel Hil HgR) as (Hitems & HA).
      change (dl (Some (VList l))) with l in *.
      destruct (oconf_dl s tr a t true lo Hr Hlt Hrel Hcl) as (HpeL & HallL & HwL & _).
      destruct (conf_list_assoc s tr a t false l Hr Hlt Hrel Hcr) as (HpeR & HallR & HdisR).
      specialize (HdisR eq_refl).
      pose proof (elem_ok s R Hok tr a t HR Hr Hlt) as Helem.
      pose proof (so_list s R Hok tr a t HR Hr Hlt) as HRelem.
      assert (HwfpeL : forall e, In e (pes_of s t (dl lo)) -> wf_pe e = true) by (apply pes_of_wf; auto).
      assert (HwfpeR : forall e, In e (pes_of s t l) -> wf_pe e = true) by (apply pes_of_wf; auto).
      pose proof (kind_of_list s tr a t l Hr Hlt Hna Hlne) as Hkr.
      intros p c Hp Hres. destruct p as [|e rest].
      + simpl in Hres. inversion Hres; subst c. exists (RNode tr out). split; [reflexivity|].
        simpl. rewrite Hkr. discriminate.
      + apply wf_path_cons in Hp. destruct Hp as [He Hp].
        rewrite (rpl_occ tr (VList l) t l e rest HR Hwr Hkr He), HpeR in Hres.
        destruct (is_keyval e) eqn:Ekv; [|discriminate]. simpl in Hres.
        rewrite (occ_distinct s t l e HwfpeR HdisR He) in Hres.
        destruct (lfind s t e l) as [x|] eqn:Elf; [|discriminate].
        apply lfind_some in Elf. destruct Elf as [e' [Hin' Hee']].
        assert (Hine' : In e' (pes_of s t l)).
        { rewrite <- ipairs_fst. apply in_map_iff. exists (e', x). auto. }
        pose proof (HwfpeR e' Hine') as He'.
        pose proof (lfind_in s t l e' x HwfpeR HdisR Hin') as Hlf'.
        apply ipairs_in in Hin'. destruct Hin' as [Hinx Hpex].
        assert (Hocc : occ s t e (map snd tl) = [gR e']).
        { apply (occ_R s t (dl lo) l gR tl HwfpeL HwfpeR HdisR Hil Hitems e e' He Hine').
          rewrite (peeqb_sym e' e He' He). exact Hee'. }
        subst out.
        rewrite (resolve_member tr a t true (map snd tl) e (gR e') rest HR Hr Hlt Hna Hco Hwo He Hocc).
        destruct (obsL_ok s tr a t lo e' Hr Hlt Hrel Hcl) as (Ho1 & Ho2 & _).
        pose proof (HgR e' Hine') as Hme. rewrite Hlf' in Hme.
        pose proof (vdepth_list_in l x Hinx) as Hdx.
        apply (IH (list_elem t) (obsL s t (dl lo) e') x (gR e')); auto.
        * lia.
        * rewrite forallb_forall in HallR. apply HallR. exact Hinx.
        * apply (wf_list_in l x Hwr Hinx).
        * apply (plain_list_in l x Hpl Hinx).
  Qed.
End Agree.

(* ------------------------------------------------------------------ *)
(* nothing else changes *)
Section Leaves.
  Variables (s : schema) (R : typeref -> Prop).
  Hypothesis Hok : schema_ok s R.
  Hypothesis Hfam : family_refs s R.

  Lemma has_leaf_refl : forall tr v p n, R tr -> wf_value v = true -> wf_path p = true ->
    resolve_path s tr v p = Some n -> rnode_is_leaf s n = true -> has_leaf s tr v p n = true.
  Proof.
    intros tr v p n HR Hw Hp Hres Hleaf. unfold has_leaf. rewrite Hres, Hleaf.
    apply (resolve_path_eqb_refl s R Hok p v tr n HR Hw Hp Hres).
  Qed.

  Lemma LeafP_refl_l : forall tr l ro, R tr -> wf_value l = true -> LeafP s tr (Some l) ro l.
  Proof.
    intros tr l ro HR Hw p n Hp Hres Hleaf. right. simpl.
    apply (has_leaf_refl tr l p n HR Hw Hp Hres Hleaf).
  Qed.

  Lemma LeafP_refl_r : forall tr lo r, R tr -> wf_value r = true -> LeafP s tr lo (Some r) r.
  Proof.
    intros tr lo r HR Hw p n Hp Hres Hleaf. left. simpl.
    apply (has_leaf_refl tr r p n HR Hw Hp Hres Hleaf).
  Qed.

  (* lifting a leaf of a map entry to the map *)
  Lemma ohas_leaf_map_step : forall tr a mt o k rest n, resolve s tr = Some a ->
    atom_map a = Some mt -> rel_is_atomic (map_rel mt) = false ->
    ohas_leaf s (field_type mt k) (assoc_get k (dm o)) rest n = true ->
    ohas_leaf s tr o (PEField k :: rest) n = true.
  Proof.
    intros tr a mt o k rest n Hr Hmt Hna H.
    destruct (assoc_get k (dm o)) as [x|] eqn:Eg; [|discriminate].
    assert (Hne : dm o <> []) by (intros E; rewrite E in Eg; discriminate).
    destruct (dm_some o Hne) as [m [Eo Hmne]]. subst o. change (dm (Some (VMap m))) with m in Eg.
    simpl in *. unfold has_leaf in *.
    rewrite (resolve_path_map _ _ _ _ _ _ _ (kind_of_map s tr a mt m Hr Hmt Hna Hmne)), Eg.
    exact H.
  Qed.

  (* lifting a leaf of a list member to the list *)
  Lemma ohas_leaf_list_step : forall tr a t dup o e x rest n, R tr -> resolve s tr = Some a ->
    atom_list a = Some t -> rel_is_atomic (list_rel t) = false ->
    oconf s tr dup o -> wf_pe e = true -> occ s t e (dl o) = [x] ->
    has_leaf s (list_elem t) x rest n = true ->
    ohas_leaf s tr o (e :: rest) n = true.
  Proof.
    intros tr a t dup o e x rest n HR Hr Hlt Hna Hc He Hocc H.
    assert (Hne : dl o <> []) by (intros E; rewrite E in Hocc; discriminate).
    destruct (dl_some o Hne) as [l [Eo Hlne]]. subst o. change (dl (Some (VList l))) with l in Hocc.
    destruct Hc as [Hc Hw]. simpl. unfold has_leaf in *.
    rewrite (resolve_member s R Hok Hfam tr a t dup l e x rest HR Hr Hlt Hna Hc Hw He Hocc).
    exact H.
  Qed.

  Lemma leaves_w : forall f tr lo ro out, R tr -> odepth lo + odepth ro < f ->
    oconf s tr true lo -> oconf s tr false ro -> (lo <> None \/ ro <> None) ->
    merge_w f s tr lo ro = (false, Some out) -> LeafP s tr lo ro out.
  Proof.
    induction f as [|f IH]; intros tr lo ro out HR Hd Hcl Hcr Hsome Hm; [lia|].
    destruct (merge_conf_w s R Hok Hfam (S f) tr lo ro out HR Hd Hcl Hcr Hm) as (Hco & Hwo & _).
    destruct ro as [r|].
    2:{ destruct lo as [l|]; [|destruct Hsome; congruence].
        destruct Hcl as [Hcl Hwl].
        rewrite (merge_absent_right s R Hok Hfam (S f) tr l HR) in Hm; auto; [|simpl in Hd; lia].
        inversion Hm; subst out. apply LeafP_refl_l; assumption. }
    destruct Hcr as [Hcr Hwr].
    destruct (merge_cases f s tr false lo r out Hcr Hm)
      as [Heq|[(a & mt & Hr & Hmt & Hna & Hne & Hshape & Hmm & Hhm)|(a & t & Hr & Hlt & Hna & Hne & Hshape & Hml & Hhl)]].
    - subst out. apply LeafP_refl_r; assumption.
    - (* granular map *)
      destruct (map_descent s R Hok Hfam f tr a mt lo (Some r) out HR Hr Hmt Hd Hcl
                  (conj Hcr Hwr) Hna Hne Hmm) as (g & Hout & Hkne & Hg).
      set (keys := keys_union (map fst (dm lo)) (map fst (dm (Some r)))) in *.
      pose proof (kind_of_map s tr a mt _ Hr Hmt Hna (built_nonempty g keys Hkne)) as Hko.
      rewrite <- Hout in Hko.
      intros p n Hp Hres Hleaf. destruct p as [|e rest].
      + simpl in Hres. inversion Hres; subst n. simpl in Hleaf. rewrite Hko in Hleaf. discriminate.
      + apply wf_path_cons in Hp. destruct Hp as [He Hp].
        destruct e as [k|k|k|k];
          try (rewrite (resolve_path_map_other _ _ _ _ _ _ _ Hko) in Hres by exact I; discriminate).
        rewrite (resolve_path_map _ _ _ _ _ _ _ Hko) in Hres.
        destruct (assoc_get k (map (fun k => (k, g k)) keys)) as [ok|] eqn:Eg; [|discriminate].
        apply assoc_get_built_inv in Eg. destruct Eg as [Hk Eok]. subst ok.
        destruct (map_sub s R Hok f tr a mt lo (Some r) k HR Hr Hmt Hd Hcl (conj Hcr Hwr) Hne Hk)
          as (H1 & H2 & H3 & H4 & H5).
        destruct (IH (field_type mt k) _ _ (g k) H1 H2 H3 H4 H5 (Hg k Hk) rest n Hp Hres Hleaf) as [HL|HL].
        * left. apply (ohas_leaf_map_step tr a mt (Some r) k rest n Hr Hmt Hna HL).
        * right. apply (ohas_leaf_map_step tr a mt lo k rest n Hr Hmt Hna HL).
    - (* granular list *)
      pose proof (list_rel_assoc t (Hfam tr a t HR Hr Hlt) Hna) as Hrel.
      destruct (list_descent s R Hok Hfam f tr a t lo (Some r) out HR Hr Hlt Hd Hcl
                  (conj Hcr Hwr) Hna Hne Hml) as (gR & tl & Hout & Htlne & Hil & HgR).
      destruct (list_descent_items s R Hok Hfam f tr a t lo (Some r) gR tl HR Hr Hlt Hd Hcl
                  (conj Hcr Hwr) Hrel Hil HgR) as (Hitems & HA).
      set (rl := dl (Some r)) in *.
      destruct (oconf_dl s tr a t true lo Hr Hlt Hrel Hcl) as (HpeL & HallL & HwL & _).
      destruct (oconf_dl s tr a t false (Some r) Hr Hlt Hrel (conj Hcr Hwr)) as (HpeR & HallR & HwR & HdisR).
      specialize (HdisR eq_refl). fold rl in HpeR, HallR, HwR, HdisR.
      pose proof (elem_ok s R Hok tr a t HR Hr Hlt) as Helem.
      pose proof (so_list s R Hok tr a t HR Hr Hlt) as HRelem.
      assert (HwfpeL : forall e, In e (pes_of s t (dl lo)) -> wf_pe e = true) by (apply pes_of_wf; auto).
      assert (HwfpeR : forall e, In e (pes_of s t rl) -> wf_pe e = true) by (apply pes_of_wf; auto).
      pose proof (kind_of_list s tr a t _ Hr Hlt Hna (map_snd_nonempty tl Htlne)) as Hko.
      rewrite <- Hout in Hko.
      destruct (conf_list_assoc s tr a t true (map snd tl) Hr Hlt Hrel) as (HpeO & _ & _);
        [rewrite <- Hout; exact Hco|].
      intros p n Hp Hres Hleaf. destruct p as [|e rest].
      + simpl in Hres. inversion Hres; subst n. simpl in Hleaf. rewrite Hko in Hleaf. discriminate.
      + apply wf_path_cons in Hp. destruct Hp as [He Hp].
        rewrite (rpl_occ s R Hok tr out t (map snd tl) e rest HR Hwo Hko He), HpeO in Hres.
        destruct (is_keyval e) eqn:Ekv; [|discriminate]. simpl in Hres.
        destruct (lfind s t e rl) as [x|] eqn:Elf.
        * (* a member of the right-hand side *)
          pose proof Elf as Elf0.
          apply lfind_some in Elf. destruct Elf as [e' [Hin' Hee']].
          assert (Hine' : In e' (pes_of s t rl)).
          { rewrite <- ipairs_fst. apply in_map_iff. exists (e', x). auto. }
          pose proof (HwfpeR e' Hine') as He'.
          pose proof (lfind_in s t rl e' x HwfpeR HdisR Hin') as Hlf'.
          apply ipairs_in in Hin'. destruct Hin' as [Hinx Hpex].
          assert (He'e : peeqb e' e = true) by (rewrite (peeqb_sym e' e He' He); exact Hee').
          rewrite (occ_R s t (dl lo) rl gR tl HwfpeL HwfpeR HdisR Hil Hitems e e' He Hine' He'e) in Hres.
          assert (Hcx : conforms s (list_elem t) false x = true)
            by (rewrite forallb_forall in HallR; apply HallR; exact Hinx).
          assert (Hwx : wf_value x = true)
            by (rewrite forallb_forall in HwR; apply HwR; exact Hinx).
          pose proof (dl_depth_in (Some r) x Hinx) as Hdx.
          pose proof (HgR e' Hine') as Hme. fold rl in Hme. rewrite Hlf' in Hme.
          assert (Hright : has_leaf s (list_elem t) x rest n = true ->
                           ohas_leaf s tr (Some r) (e :: rest) n = true).
          { apply (ohas_leaf_list_step tr a t false (Some r) e x rest n HR Hr Hlt Hna (conj Hcr Hwr) He).
            fold rl. rewrite (occ_distinct s t rl e HwfpeR HdisR He), Elf0. reflexivity. }
          destruct (obsL_ok s tr a t lo e' Hr Hlt Hrel Hcl) as (Ho1 & Ho2 & _).
          unfold obsL in Hme, Ho1, Ho2.
          destruct (occ s t e' (dl lo)) as [|v [|w more]] eqn:Eocc.
          -- (* no left counterpart *)
             assert (Hdd : odepth None + odepth (Some x) < f) by (simpl; lia).
             assert (Hsx : @None value <> None \/ Some x <> None) by (right; discriminate).
             destruct (IH (list_elem t) None (Some x) (gR e') HRelem Hdd I (conj Hcx Hwx) Hsx Hme
                         rest n Hp Hres Hleaf) as [HL|HL]; [|discriminate HL].
             left. apply Hright. exact HL.
          -- (* one left counterpart *)
             assert (Hdd : odepth (Some v) + odepth (Some x) < f) by (simpl in *; lia).
             assert (Hsx : Some v <> None \/ Some x <> None) by (right; discriminate).
             destruct (IH (list_elem t) (Some v) (Some x) (gR e') HRelem Hdd Ho1 (conj Hcx Hwx) Hsx Hme
                         rest n Hp Hres Hleaf) as [HL|HL]; [left; apply Hright; exact HL|].
             right.
             apply (ohas_leaf_list_step tr a t true lo e v rest n HR Hr Hlt Hna Hcl He); [|exact HL].
             rewrite <- Eocc. symmetry.
             apply (occ_cong s t (dl lo) e' e (items_wf_of s R Hok tr a t (dl lo) HR Hr Hlt HwL) He' He He'e).
          -- (* duplicated on the left: merged with null *)
             assert (Hnl : dl lo <> []) by (intros E; rewrite E in Eocc; discriminate).
             pose proof (dl_depth_null lo Hnl) as Hdl.
             rewrite (merge_null_left_w s R Hok Hfam f (list_elem t) x HRelem) in Hme; auto; [|simpl in Hdx, Hd; lia].
             inversion Hme as [Hgx]. rewrite <- Hgx in Hres.
             left. apply Hright. apply (has_leaf_refl (list_elem t) x rest n HRelem Hwx Hp Hres Hleaf).
        * (* only on the left *)
          rewrite (occ_L s t (dl lo) rl gR tl HwfpeL HwfpeR Hil Hitems e He Elf) in Hres.
          right.
          assert (Hnl : dl lo <> []).
          { intros E. rewrite E in Hres. discriminate. }
          destruct (dl_some lo Hnl) as [ll [Elo Hllne]]. subst lo.
          change (dl (Some (VList ll))) with ll in *.
          destruct Hcl as [Hcl Hwl]. simpl.
          pose proof (kind_of_list s tr a t ll Hr Hlt Hna Hllne) as Hkl.
          apply (has_leaf_refl tr (VList ll) (e :: rest) n HR Hwl).
          -- apply wf_path_cons. split; assumption.
          -- rewrite (rpl_occ s R Hok tr (VList ll) t ll e rest HR Hwl Hkl He), HpeL, Ekv. exact Hres.
          -- exact Hleaf.
  Qed.
End Leaves.

(* ------------------------------------------------------------------ *)
(* merging R again is a no-op *)
Lemma ssorted_head_notin : forall x l, ssorted (x :: l) -> ~ In x l.
Proof.
  intros x l [H _] Hin. rewrite Forall_forall in H. specialize (H x Hin).
  rewrite str_cmp_refl in H. discriminate.
Qed.

Lemma keys_union_absorb : forall u b, ssorted u -> ssorted b -> incl b u -> keys_union u b = u.
Proof.
  induction u as [|x u IHu]; intros b Hu Hb Hincl.
  - destruct b as [|y b]; [reflexivity|]. exfalso. apply (Hincl y). left. reflexivity.
  - induction b as [|y b IHb]; [apply keys_union_nil_r|].
    rewrite keys_union_cons.
    destruct Hu as [Hx Hu]. destruct Hb as [Hy Hb].
    rewrite Forall_forall in Hx, Hy.
    destruct (String.compare x y) eqn:E.
    + apply str_cmp_eq in E. subst y. f_equal. apply IHu; auto.
      intros z Hz. destruct (Hincl z (or_intror Hz)) as [Hzx|Hzu]; [|exact Hzu].
      subst z. specialize (Hy x Hz). rewrite str_cmp_refl in Hy. discriminate.
    + f_equal. apply IHu; auto; [split; [apply Forall_forall; exact Hy|exact Hb]|].
      intros z Hz. destruct (Hincl z Hz) as [Hzx|Hzu]; [|exact Hzu].
      subst z. destruct Hz as [Hz|Hz].
      * subst y. rewrite str_cmp_refl in E. discriminate.
      * specialize (Hy x Hz).
        pose proof (str_cmp_trans _ _ _ E Hy) as Hc. rewrite str_cmp_refl in Hc. discriminate.
    + exfalso. apply str_cmp_gt_lt in E.
      destruct (Hincl y (or_introl eq_refl)) as [Hyx|Hyu].
      * subst y. rewrite str_cmp_refl in E. discriminate.
      * specialize (Hx y Hyu). pose proof (str_cmp_trans _ _ _ E Hx) as Hc.
        rewrite str_cmp_refl in Hc. discriminate.
Qed.

Lemma map_fst_built : forall (g : string -> value) keys, map fst (map (fun k => (k, g k)) keys) = keys.
Proof. intros g keys. rewrite map_map. simpl. apply map_id. Qed.

Section Idem.
  Variables (s : schema) (R : typeref -> Prop).
  Hypothesis Hok : schema_ok s R.
  Hypothesis Hfam : family_refs s R.

  Definition ap_of (t : listT) (it : pe * value) : pe :=
    match list_item_to_pe s t (snd it) with Some e => e | None => fst it end.

  Lemma idem_w : forall f f' tr lo r out, R tr -> odepth lo + vdepth r < f ->
    oconf s tr true lo -> conforms s tr false r = true -> wf_value r = true ->
    merge_w f s tr lo (Some r) = (false, Some out) ->
    vdepth out + vdepth r < f' ->
    merge_w f' s tr (Some out) (Some r) = (false, Some out).
  Proof.
    induction f as [|f IH]; intros f' tr lo r out HR Hd Hcl Hcr Hwr Hm Hd2; [lia|].
    destruct f' as [|f']; [lia|].
    assert (Hd' : odepth lo + odepth (Some r) < S f) by (simpl; lia).
    destruct (merge_conf_w s R Hok Hfam (S f) tr lo (Some r) out HR Hd' Hcl (conj Hcr Hwr) Hm)
      as (Hco & Hwo & _).
    destruct (merge_cases f s tr false lo r out Hcr Hm)
      as [Heq|[(a & mt & Hr & Hmt & Hna & Hne & Hshape & Hmm & Hhm)|(a & t & Hr & Hlt & Hna & Hne & Hshape & Hml & Hhl)]].
    - subst out. apply (merge_self_w s R Hok Hfam); auto. lia.
    - (* granular map *)
      destruct (merge_total_w s R Hok Hfam (S f') tr (Some out) (Some r) HR) as [out' Hm'];
        [simpl; lia|split; assumption|split; assumption|left; discriminate|].
      pose proof (merge_w_rhs f' s tr a (Some out) r out' Hr Hm') as Hh'. rewrite Hhm in Hh'.
      simpl handle in Hh'.
      destruct (map_descent s R Hok Hfam f tr a mt lo (Some r) out HR Hr Hmt Hd' Hcl
                  (conj Hcr Hwr) Hna Hne Hmm) as (g & Hout & Hkne & Hg).
      set (rm := dm (Some r)) in *.
      set (keys := keys_union (map fst (dm lo)) (map fst rm)) in *.
      set (om := map (fun k => (k, g k)) keys) in *.
      assert (Homne : om <> []) by (apply built_nonempty; exact Hkne).
      assert (Hkeys2 : keys_union (map fst om) (map fst rm) = keys).
      { unfold om. rewrite map_fst_built. apply keys_union_absorb.
        - apply keys_union_sorted; apply sorted_keys_ssorted.
          + apply (dm_sorted s tr true lo Hcl).
          + apply (dm_sorted s tr false (Some r) (conj Hcr Hwr)).
        - apply sorted_keys_ssorted. apply (dm_sorted s tr false (Some r) (conj Hcr Hwr)).
        - intros k Hk. apply keys_union_in. right. exact Hk. }
      assert (Hsub : forall k, In k keys ->
                merge_w f' s (field_type mt k) (assoc_get k om) (assoc_get k rm) = (false, Some (g k))).
      { intros k Hk. unfold om. rewrite (assoc_get_built g keys k Hk).
        destruct (map_sub s R Hok f tr a mt lo (Some r) k HR Hr Hmt Hd' Hcl (conj Hcr Hwr) Hne Hk)
          as (H1 & H2 & H3 & H4 & H5).
        fold rm in H2, H4, H5.
        destruct (merge_conf_w s R Hok Hfam f (field_type mt k) _ _ (g k) H1 H2 H3 H4 (Hg k Hk))
          as (Hcg & Hwg & _).
        assert (Hdg : vdepth (g k) < vdepth out).
        { rewrite Hout. apply (vdepth_map_in om k (g k)). unfold om. apply in_map_iff. exists k. auto. }
        pose proof (Hg k Hk) as Hgk.
        destruct (assoc_get k rm) as [rk|] eqn:Eg.
        - destruct H4 as [H4c H4w].
          apply (IH f' (field_type mt k) (assoc_get k (dm lo)) rk (g k)); auto.
          assert (Hdr : vdepth rk < vdepth r).
          { assert (Hrmne : rm <> []) by (intros E; rewrite E in Eg; discriminate).
            pose proof (dm_depth_lt (Some r) k Hrmne) as X. fold rm in X. rewrite Eg in X. exact X. }
          lia.
        - apply (merge_absent_right s R Hok Hfam); auto. lia. }
      assert (Hgoal : merge_map f' s mt (Some out) (Some r) = (false, Some out)).
      { unfold merge_map. rewrite Hna.
        rewrite (dm_empty_iff (Some out) (Some r)) by (left; rewrite Hout; exact Homne).
        simpl orb. cbv iota. fold rm.
        replace (dm (Some out)) with om by (rewrite Hout; reflexivity).
        rewrite Hkeys2, (fold_map_ok f' s mt om rm g keys false [] Hsub). simpl app. fold om.
        rewrite Hout. destruct om; [congruence|reflexivity]. }
      rewrite Hgoal in Hh'. inversion Hh'; subst out'. exact Hm'.
    - (* granular list *)
      destruct (merge_total_w s R Hok Hfam (S f') tr (Some out) (Some r) HR) as [out' Hm'];
        [simpl; lia|split; assumption|split; assumption|left; discriminate|].
      pose proof (merge_w_rhs f' s tr a (Some out) r out' Hr Hm') as Hh'. rewrite Hhl in Hh'.
      simpl handle in Hh'.
      pose proof (list_rel_assoc t (Hfam tr a t HR Hr Hlt) Hna) as Hrel.
      destruct (list_descent s R Hok Hfam f tr a t lo (Some r) out HR Hr Hlt Hd' Hcl
                  (conj Hcr Hwr) Hna Hne Hml) as (gR & tl & Hout & Htlne & Hil & HgR).
      destruct (list_descent_items s R Hok Hfam f tr a t lo (Some r) gR tl HR Hr Hlt Hd' Hcl
                  (conj Hcr Hwr) Hrel Hil HgR) as (Hitems & HA).
      set (rl := dl (Some r)) in *.
      set (res := map snd tl) in *.
      assert (Hresne : res <> []) by (apply map_snd_nonempty; exact Htlne).
      destruct (oconf_dl s tr a t true lo Hr Hlt Hrel Hcl) as (HpeL & HallL & HwL & _).
      destruct (oconf_dl s tr a t false (Some r) Hr Hlt Hrel (conj Hcr Hwr)) as (HpeR & HallR & HwR & HdisR).
      specialize (HdisR eq_refl). fold rl in HpeR, HallR, HwR, HdisR.
      pose proof (elem_ok s R Hok tr a t HR Hr Hlt) as Helem.
      pose proof (so_list s R Hok tr a t HR Hr Hlt) as HRelem.
      assert (HwfpeL : forall e, In e (pes_of s t (dl lo)) -> wf_pe e = true) by (apply pes_of_wf; auto).
      assert (HwfpeR : forall e, In e (pes_of s t rl) -> wf_pe e = true) by (apply pes_of_wf; auto).
      destruct (conf_list_assoc s tr a t true res Hr Hlt Hrel) as (HpeO & HallO & _);
        [rewrite <- Hout; exact Hco|].
      assert (HwO : forallb wf_value res = true) by (rewrite Hout in Hwo; exact Hwo).
      assert (HwfpeO : forall e, In e (pes_of s t res) -> wf_pe e = true) by (apply pes_of_wf; auto).
      destruct (index_nodup s t false rl [] [] false (pem_ok_nil _) HwfpeR HpeR HdisR)
        as [oR [HidxR [HoR HgetR]]].
      { intros e _. apply pem_get_nil. }
      destruct (index_dup_occ s t res [] [] false (pem_ok_nil _) HwfpeO HpeO)
        as [oL [HidxL [HoL HgetL]]].
      assert (HgetR' : forall x, wf_pe x = true -> pem_get x oR = lfind s t x rl).
      { intros x Hx. rewrite (HgetR x Hx), pem_get_nil. destruct (lfind s t x rl); reflexivity. }
      assert (HgetL' : forall x, wf_pe x = true -> pem_get x oL = obsL s t res x).
      { intros x Hx. rewrite (HgetL x Hx), pem_get_nil. apply obs_of_none. }
      assert (Hgoal : merge_list f' s t (Some out) (Some r) = (false, Some out)).
      { unfold merge_list. rewrite Hna.
        rewrite (dl_empty_iff (Some out) (Some r)) by (left; rewrite Hout; exact Hresne).
        simpl orb. cbv iota. fold rl.
        replace (dl (Some out)) with res by (rewrite Hout; reflexivity).
        rewrite HidxR. cbv beta iota. rewrite HidxL. cbv beta iota. simpl orb. cbv iota. simpl app.
        destruct (pop_shared (shared_order oL (pes_of s t rl))) as [ns so].
        rewrite (ipairs_combine s t res HpeO).
        unfold res at 2. rewrite (ipairs_map_snd s t tl Hitems).
        set (M := merge_w f' s (list_elem t)).
        change (fun _ : pe => M) with (mi_of M).
        replace (pes_of s t rl) with (map fst (map (fun e => (e, gR e)) (pes_of s t rl)))
          by (rewrite map_map; simpl; apply map_id).
        change (fun it : pe * value =>
                  (match list_item_to_pe s t (snd it) with Some e => e | None => fst it end, snd it))
          with (fun it : pe * value => (ap_of t it, snd it)).
        rewrite (loop_replay M oL oR HoR (ap_of t) _ _ tl Hil).
        - simpl app. fold res. rewrite Hout. destruct res; [congruence|reflexivity].
        - (* merged right-hand members *)
          intros x Hx.
          assert (Hxtl : In x tl) by (apply (interleave_in _ _ _ _ x Hil); left; exact Hx).
          apply in_map_iff in Hx. destruct Hx as [e0 [Hx Hin]]. subst x. simpl fst. simpl snd.
          rewrite Forall_forall in Hitems. destruct (Hitems _ Hxtl) as (Hw0 & ey & Hpey & Hwy & Heqy).
          simpl in Hw0, Hpey, Heqy.
          assert (Hap : ap_of t (e0, gR e0) = ey) by (unfold ap_of; simpl; rewrite Hpey; reflexivity).
          rewrite Hap.
          destruct (HA e0 Hin) as (c & Hinc & Hpec & Hlf & Hcc & Hwc & Hcg & Hwg). fold rl in Hinc, Hlf.
          split; [exact Hw0|]. split; [exact Hwy|]. split; [exact Heqy|]. split.
          + rewrite (HgetR' e0 Hw0), Hlf. discriminate.
          + rewrite (pem_get_cong _ ey e0 oR HoR Hwy Hw0 Heqy), (HgetR' e0 Hw0), Hlf.
            rewrite (HgetL' ey Hwy). unfold obsL.
            assert (Hitems' : Forall (item_ok s t) tl) by (apply Forall_forall; exact Hitems).
            assert (Heq0 : peeqb e0 ey = true) by (rewrite (peeqb_sym e0 ey Hw0 Hwy); exact Heqy).
            unfold res.
            rewrite (occ_R s t (dl lo) rl gR tl HwfpeL HwfpeR HdisR Hil Hitems' ey e0 Hwy Hin Heq0).
            destruct (obsL_ok s tr a t lo e0 Hr Hlt Hrel Hcl) as (Ho1 & Ho2 & _).
            pose proof (HgR e0 Hin) as Hme. fold rl in Hme. rewrite Hlf in Hme.
            pose proof (dl_depth_in (Some r) c Hinc) as Hdc. simpl in Hdc.
            assert (Hdg : vdepth (gR e0) < vdepth out).
            { rewrite Hout. apply vdepth_list_in. fold res. unfold res.
              apply in_map_iff. exists (e0, gR e0). auto. }
            apply (IH f' (list_elem t) (obsL s t (dl lo) e0) c (gR e0)); auto; lia.
        - (* left-only members *)
          intros x Hx.
          assert (Hxtl : In x tl) by (apply (interleave_in _ _ _ _ x Hil); right; exact Hx).
          apply filter_In in Hx. destruct Hx as [Hx Hn]. destruct x as [e1 c1].
          pose proof (ipairs_in s t _ e1 c1 Hx) as [Hinc Hpec].
          assert (Hw1 : wf_pe e1 = true).
          { apply HwfpeL. rewrite <- ipairs_fst. apply in_map_iff. exists (e1, c1). auto. }
          simpl fst. simpl snd.
          split; [exact Hw1|]. split; [unfold ap_of; simpl; rewrite Hpec; reflexivity|]. split.
          + rewrite (HgetR' e1 Hw1). unfold notR_of in Hn. simpl in Hn.
            destruct (lfind s t e1 rl); [discriminate|reflexivity].
          + assert (Hdc : vdepth c1 < vdepth out).
            { rewrite Hout. apply vdepth_list_in. fold res. unfold res.
              apply in_map_iff. exists (e1, c1). auto. }
            apply (merge_absent_right s R Hok Hfam); auto.
            * lia.
            * rewrite forallb_forall in HallL. apply HallL. exact Hinc.
            * rewrite forallb_forall in HwL. apply HwL. exact Hinc.
        - assert (Hlen : List.length res = List.length tl) by (unfold res; apply map_length).
          lia. }
      rewrite Hgoal in Hh'. inversion Hh'; subst out'. exact Hm'.
  Qed.
End Idem.

(* ------------------------------------------------------------------ *)
(* the statements of Proofs/MergeAgree_statements.v *)
Lemma merge_inv : forall s tr l r out, merge s tr l r = Some (Some out) ->
  merge_w (merge_fuel l r) s tr (Some l) (Some r) = (false, Some out).
Proof.
  intros s tr l r out H. unfold merge in H.
  destruct (merge_w (merge_fuel l r) s tr (Some l) (Some r)) as [e o].
  destruct e; [discriminate|]. inversion H; subst o. reflexivity.
Qed.

(* every field of a plain right-hand side is present in the result with R's value *)
Theorem merge_right_wins : forall s R tr l r out,
  schema_ok s R -> family_refs s R -> R tr ->
  wf_value l = true -> wf_value r = true ->
  conforms s tr true l = true -> conforms s tr false r = true -> plain r = true ->
  merge s tr l r = Some (Some out) ->
  agrees s tr r out = true.
Proof.
  intros s R tr l r out Hok Hfam HR Hwl Hwr Hcl Hcr Hpl Hm.
  apply merge_inv in Hm.
  apply (agrees_of_AgrP s R Hok tr r out HR Hwr).
  apply (right_wins_w s R Hok Hfam (merge_fuel l r) tr (Some l) r out); auto.
  - unfold merge_fuel. simpl. lia.
  - split; assumption.
Qed.

(* nothing outside R's fields changes: every leaf of the result is R's or L's *)
Theorem merge_leaves_from_operands : forall s R tr l r out,
  schema_ok s R -> family_refs s R -> R tr ->
  wf_value l = true -> wf_value r = true ->
  conforms s tr true l = true -> conforms s tr false r = true ->
  merge s tr l r = Some (Some out) ->
  forallb (fun pn : path * rnode => has_leaf s tr r (fst pn) (snd pn) || has_leaf s tr l (fst pn) (snd pn))
          (leaf_nodes s tr out) = true.
Proof.
  intros s R tr l r out Hok Hfam HR Hwl Hwr Hcl Hcr Hm.
  pose proof (merge_conforms s R tr l r out Hok Hfam HR Hwl Hwr Hcl Hcr Hm) as [_ Hwo].
  apply merge_inv in Hm.
  apply (leaves_of_LeafP s R Hok tr l r out HR Hwo).
  apply (leaves_w s R Hok Hfam (merge_fuel l r) tr (Some l) (Some r) out); auto.
  - unfold merge_fuel. simpl. lia.
  - split; assumption.
  - split; assumption.
  - left. discriminate.
Qed.

(* merging R again is a no-op *)
Theorem merge_idempotent : forall s R tr l r out,
  schema_ok s R -> family_refs s R -> R tr ->
  wf_value l = true -> wf_value r = true ->
  conforms s tr true l = true -> conforms s tr false r = true ->
  merge s tr l r = Some (Some out) ->
  merge s tr out r = Some (Some out).
Proof.
  intros s R tr l r out Hok Hfam HR Hwl Hwr Hcl Hcr Hm.
  apply merge_inv in Hm. apply merge_of_w.
  apply (idem_w s R Hok Hfam (merge_fuel l r) (merge_fuel out r) tr (Some l) r out); auto.
  - unfold merge_fuel. simpl. lia.
  - split; assumption.
  - unfold merge_fuel. lia.
Qed.

