(* C07, first sentence: applying the same configuration again by the same manager right
   after it succeeded changes no field and no ownership record.  Setting of Proofs/History.v
   (single API version, identity converter, no ignore configuration).

   Statement: Proofs/Reapply_statements.v.  ONE difference, flagged at the theorem:
   [reapply_is_a_fixed_point] has the additional hypothesis
       cfg_return_input_on_noop c = false
   (Go: Updater.returnInputOnNoop off, the default).  It is NECESSARY: with the option on,
   Apply never answers "nothing to persist", so the second apply returns the object
   [reapply_needs_noop_option: every hypothesis of the original statement holds and the
   second apply answers Some].  [reapply_general] covers both values of the option: the
   second apply succeeds without force, keeps every record, and returns None, or (option
   on) exactly the object it was given.  No other hypothesis was added; [dup_free .. live] is
   kept in the statement but is NOT used (the theorem holds with duplicates in the object).

   Delivered:
     reapply_general               both values of the option, no [dup_free]
     reapply_is_a_fixed_point      the statement (+ the hypothesis above)
     reapply_along_histories       the same at every state [run ops] of a history
     reapply_history_fixed_point   run (ops ++ [apply; same apply]) = run (ops ++ [apply]) (object
                                   equal, records equal as sets), whatever the option
     reapply_needs_noop_option     the added hypothesis is necessary
     reapply_example               non-vacuity on ex_config: the first apply prunes a list member,
                                   another manager owns something, the second apply is a fixed
                                   point by the theorem

   Proof.  Let M = merge live cfg, px the object the prune stage returns, (res, mf') the
   state after the first apply; it satisfies the invariant [History.apply_step].
   1. The prune stage of a single-version apply always succeeds and returns
      remove M D with D = dangling_T T1 last, D nice for M, made of paths of M, avoiding
      the nodes of cfg, inside the closure of the applier's previous record
      [PruneTotal.prune_total, prune_cases].
   2. Hence px is a FIXED POINT of merging cfg, syntactically: merge px cfg = px
      [MergeFix.merge_remove_fixed: removal of a set that avoids cfg commutes with being a
      fixed point; prune_fixed].
   3. When the first apply answered None (veqb live px) the set D has no member -- a member
      would be a path of the applier's previous record, present in live (invariant) but
      absent from px -- so px = M [prune_noop], and the second apply merges the same
      operands again.
   4. Second apply at (res, mf'): reconciliation is the identity and does not fail
      [ReconcileTotal.reconcile_managed_id]; the merged object M2 is px (2.) resp. M (3.);
      the applier's previous record is now the field set of cfg, every member of its closure
      is a node of cfg, the dangling set avoids the nodes of cfg, so it has no member and
      the prune stage returns M2 itself [prune_same_cfg]; the comparison of res with M2
      reports nothing at the paths the other managers own -- it is compare px px
      [compare_self], resp. the comparison of the first apply, whose reports were already
      subtracted from the other records -- so there is no conflict and no record changes
      [update_quiet, second_apply]. *)
From Coq Require Import List ZArith String Bool Arith Lia.
From SMD Require Import Model.Value Model.Order Model.PathElem Model.PathSet Model.Schema Model.Walk
  Model.Validate Model.FieldSet Model.Remove Model.Merge Model.Compare Model.Matcher Model.Reconcile
  Model.Updater
  Spec.PathsAsSets Spec.RefValid Spec.Resolve Spec.Agree Spec.RefDiff Spec.Examples
  Proofs.OrderLaws Proofs.PathSetLaws Proofs.SchemaOk Proofs.FieldSetBase Proofs.FieldSetPaths
  Proofs.FieldSetWf Proofs.FieldSetLaws Proofs.RemoveAbsent Proofs.RemoveWf Proofs.ResolveLaws
  Proofs.UpdaterLaws Proofs.UpdaterLaws2 Proofs.MergeLaws Proofs.MergeAgree
  Proofs.RemoveFrame Proofs.EnLaws Proofs.NodeSet Proofs.KeyFields Proofs.VeqbResolve
  Proofs.SetCheckers Proofs.ApplyEffect Proofs.RefDiffBoth Proofs.RefDiffLaws Proofs.RefDiffPresent
  Proofs.ApplyInv Proofs.History.
From SMD Require Import Proofs.CompareLaws Proofs.PruneShape Proofs.ApplyPruneBase Proofs.RemoveExt
  Proofs.RemoveBase Proofs.ReconcileTotal Proofs.PruneTotal Proofs.MergeFix.
From SMD Require Proofs.MergeBase Proofs.TrieBase Proofs.ReconcileBase.
Import ListNotations.
Open Scope bool_scope.
Open Scope list_scope.

Local Arguments ps_has : simpl never.
Local Arguments ps_with_prefix : simpl never.
Local Arguments ps_empty : simpl never.

(* same records: same managers, same version and flag, sets equal as sets of paths *)
Definition same_records (a b : managed) : Prop :=
  forall m, match mf_get m a, mf_get m b with
            | Some r, Some r' => mr_ver r = mr_ver r' /\ mr_applied r = mr_applied r' /\
                                 ps_equals (mr_set r) (mr_set r') = true
            | None, None => True
            | _, _ => False
            end.

(* ================= small facts ================= *)

(* a set without members removes nothing from a granular object *)
Lemma memberless_remove : forall s R, schema_ok s R -> family_refs s R ->
  forall tr v T, R tr -> wf_value v = true -> conforms s tr true v = true -> granular s tr v ->
  ps_ok T = true -> (forall q, wf_path q = true -> ps_has q T = false) ->
  remove s tr v T = v.
Proof.
  intros s R Hok Hfam tr v T Htr Hwv Hcv Hg HT Hnone.
  rewrite <- (remove_nothing_gen s tr v Hg) at 2. unfold remove.
  apply (remove_ext s R Hok Hfam v tr true T ps_empty_set Htr Hwv Hcv HT ps_ok_empty).
  - intros p Hp Hh. rewrite (Hnone p Hp) in Hh. discriminate.
  - intros p Hp Hh. rewrite ps_has_empty_set in Hh. discriminate.
  - intros q Hq Hne Hpr.
    assert (H1 : touches q T = false).
    { destruct (touches q T) eqn:E; [|reflexivity]. exfalso.
      apply (touches_iff q T HT Hq) in E. destruct E as (n & Hn & Hh).
      rewrite (Hnone _ (ReconcileBase.wf_path_firstn n q Hq)) in Hh. discriminate. }
    assert (H2 : touches q ps_empty_set = false).
    { destruct (touches q ps_empty_set) eqn:E; [|reflexivity]. exfalso.
      apply (touches_iff q ps_empty_set ps_ok_empty Hq) in E. destruct E as (n & Hn & Hh).
      rewrite ps_has_empty_set in Hh. discriminate. }
    rewrite H1, H2. reflexivity.
Qed.

(* what a successful merge gives *)
Lemma merge_facts : forall s R, schema_ok s R -> family_refs s R ->
  forall tr l r M, R tr -> wf_value l = true -> wf_value r = true ->
  conforms s tr true l = true -> conforms s tr false r = true -> plain r = true ->
  merge s tr l r = Some (Some M) ->
  wf_value M = true /\ conforms s tr true M = true /\ AgrP s tr r M /\
  LeafP s tr (Some l) (Some r) M.
Proof.
  intros s R Hok Hfam tr l r M Htr Hwl Hwr Hcl Hcr Hpl Em.
  destruct (merge_conforms s R tr l r M Hok Hfam Htr Hwl Hwr Hcl Hcr Em) as [HcM HwM].
  pose proof (merge_inv s tr l r M Em) as Hmw.
  split; [exact HwM|]. split; [exact HcM|]. split.
  - apply (right_wins_w s R Hok Hfam (merge_fuel l r) tr (Some l) r M); auto.
    + unfold merge_fuel. simpl. lia.
    + split; assumption.
  - apply (leaves_w s R Hok Hfam (merge_fuel l r) tr (Some l) (Some r) M); auto.
    + unfold merge_fuel. simpl. lia.
    + split; assumption.
    + split; assumption.
    + left. discriminate.
Qed.

(* apply_op, computed forward from its stages *)
Lemma apply_op_intro : forall c ver lx cx mf mgr force mf0 n0 M set0 pruned n1 mf2 cmp n2,
  no_ignore c ->
  reconcile_managed c O (ver, lx) mf = UOk (mf0, n0) ->
  merge (schema_of c ver) (tr_of c ver) lx cx = Some (Some M) ->
  to_field_set (schema_of c ver) (tr_of c ver) cx = Some set0 ->
  prune c n0 (ver, M) (mf_set mgr (mkRec set0 ver true) mf0) mgr (mf_get mgr mf0) = UOk (pruned, n1) ->
  update_core c n1 (ver, lx) pruned ver (mf_set mgr (mkRec set0 ver true) mf0) mgr force = UOk (mf2, cmp, n2) ->
  apply_op c (ver, lx) (ver, cx) ver mf mgr force =
  if negb (cfg_return_input_on_noop c) && veqb lx (snd pruned) then UOk (None, mf2)
  else UOk (Some pruned, mf2).
Proof.
  intros c ver lx cx mf mgr force mf0 n0 M set0 pruned n1 mf2 cmp n2 Hni Erec Em Eset0 Epr Eupd.
  unfold apply_op. cbn [fst snd]. rewrite Erec, Em. unfold to_fs. cbn [fst snd]. rewrite Eset0.
  rewrite (no_ignore_filter c ver Hni). cbn [filter_set]. rewrite Epr, Eupd. reflexivity.
Qed.

(* apply_op unfolded: the merged object, the prune stage and the update of the records *)
Lemma apply_full : forall c ver lx cx mf mgr force o mf',
  no_ignore c -> conv_id c -> single_version ver mf -> mf_ok mf -> records_current c ver mf ->
  apply_op c (ver, lx) (ver, cx) ver mf mgr force = UOk (o, mf') ->
  exists M set0 n0 pruned n1 cmp n2,
    merge (schema_of c ver) (tr_of c ver) lx cx = Some (Some M) /\
    to_field_set (schema_of c ver) (tr_of c ver) cx = Some set0 /\
    prune c n0 (ver, M) (mf_set mgr (mkRec set0 ver true) mf) mgr (mf_get mgr mf) = UOk (pruned, n1) /\
    update_core c n1 (ver, lx) pruned ver (mf_set mgr (mkRec set0 ver true) mf) mgr force
      = UOk (mf', cmp, n2) /\
    ((o = None /\ cfg_return_input_on_noop c = false /\ veqb lx (snd pruned) = true) \/ o = Some pruned).
Proof.
  intros c ver lx cx mf mgr force o mf' Hni Hcid Hsv Hmf Hcur Happly.
  unfold apply_op in Happly. cbn [fst snd] in Happly.
  destruct (reconcile_managed c 0 (ver, lx) mf) as [[mf0 n0]|e] eqn:Erec; [|discriminate].
  assert (Hmf0 : mf0 = mf).
  { rewrite reconcile_managed_unfold in Erec.
    apply (fold_rstep_id c (ver, lx) ver mf [] 0 mf0 n0 Hcid) in Erec; [exact Erec| |].
    - intros [m r] Hin. cbn [snd]. unfold single_version in Hsv. rewrite forallb_forall in Hsv.
      apply String.eqb_eq. exact (Hsv (m, r) Hin).
    - intros [m r] s' Hin. cbn [snd]. apply (Hcur m r s').
      apply in_assoc_get; [apply Hmf|exact Hin]. }
  subst mf0.
  destruct (merge (schema_of c ver) (tr_of c ver) lx cx) as [[M|]|] eqn:Em; try discriminate.
  unfold to_fs in Happly. cbn [fst snd] in Happly.
  destruct (to_field_set (schema_of c ver) (tr_of c ver) cx) as [set0|] eqn:Eset0; [|discriminate].
  rewrite (no_ignore_filter c ver Hni) in Happly. cbn [filter_set] in Happly.
  destruct (prune c n0 (ver, M) (mf_set mgr {| mr_set := set0; mr_ver := ver; mr_applied := true |} mf)
              mgr (mf_get mgr mf)) as [[pruned n1]|e] eqn:Eprune; [|discriminate].
  destruct (update_core c n1 (ver, lx) pruned ver _ mgr force) as [[[mf2 cmp] n2]|e] eqn:Eupd; [|discriminate].
  exists M, set0, n0, pruned, n1, cmp, n2. split; [reflexivity|]. split; [reflexivity|]. split; [exact Eprune|].
  destruct (negb (cfg_return_input_on_noop c) && veqb lx (snd pruned)) eqn:Enoop;
    inversion Happly; subst o mf'.
  - split; [exact Eupd|]. left. split; [reflexivity|]. apply andb_true_iff in Enoop.
    destruct Enoop as [E1 E2]. split; [|exact E2]. apply negb_true_iff. exact E1.
  - split; [exact Eupd|]. right. reflexivity.
Qed.

(* ================= the prune stage ================= *)

Section Prune.
  Variables (s : schema) (R : typeref -> Prop) (tr : typeref).
  Hypothesis Hok : schema_ok s R.
  Hypothesis Hfam : family_refs s R.
  Hypothesis Htr : R tr.
  Hypothesis Hnd : keys_nodefault s R.
  Hypothesis Hks : keys_scalar s R.

  Variables (live cfg M : value).
  Hypothesis Hwl : wf_value live = true.
  Hypothesis Hwc : wf_value cfg = true.
  Hypothesis Hcc : conforms s tr false cfg = true.
  Hypothesis Hpl : plain cfg = true.
  Hypothesis Hroot : granular s tr cfg.
  Hypothesis HwM : wf_value M = true.
  Hypothesis HcM : conforms s tr true M = true.
  Hypothesis Hagr : AgrP s tr cfg M.
  Hypothesis Hlf : LeafP s tr (Some live) (Some cfg) M.

  Variables (set0 U : pset).
  Hypothesis Hset0 : to_field_set s tr cfg = Some set0.
  Hypothesis HU : ps_ok U = true.
  Hypothesis HUcfg : forall q, wf_path q = true -> ps_has q set0 = true -> ps_has q U = true.
  Hypothesis HUown : forall q, wf_path q = true -> ps_has q U = true ->
    ps_has q set0 = true \/
    exists S, ps_ok S = true /\ owns_live_keys s tr live S /\ ps_has q S = true /\
              forall q', wf_path q' = true -> ps_has q' S = true -> ps_has q' U = true.

  Variables (c : config) (ver : string).
  Hypothesis Hcid : conv_id c.
  Hypothesis Hsch : schema_of c ver = s.
  Hypothesis Htrr : tr_of c ver = tr.

  Let Hcc' : conforms s tr true cfg = true := MergeBase.conforms_dup_mono s cfg tr Hcc.
  Let Hset0ok : ps_ok set0 = true := to_field_set_ok s R tr cfg set0 Hok Htr Hwc Hset0.

  (* the merged object is a granular container, as the configuration is *)
  Lemma merged_granular : granular s tr M.
  Proof.
    assert (Hex : exists p, wf_path p = true /\ p <> [] /\ present s tr cfg p = true).
    { destruct (ps_empty set0) eqn:Ee.
      - (* the field set of a plain granular configuration is not empty: it has a node *)
        exfalso.
        destruct (cfg_node_leaf s R tr Hok Hfam Htr cfg Hwc Hcc Hpl [] (RNode tr cfg) eq_refl eq_refl)
          as (r & tr' & x & Hr & Hres & Hl & Hx).
        cbn [app] in Hres.
        destruct r as [|e r'].
        + simpl in Hres. inversion Hres; subst tr' x. unfold granular in Hroot. unfold leafy in Hl.
          destruct (kind_of s tr cfg); contradiction.
        + assert (Hne : e :: r' <> []) by discriminate.
          pose proof (cfg_nodes_in s R tr Hok Hfam Htr cfg Hwc Hcc Hpl set0 Hset0 (e :: r') _ Hr Hne Hres) as Hin.
          destruct (en_has_prefix s tr set0 _ Hset0ok Hr Hin) as (r2 & _ & Hh).
          rewrite (TrieBase.ps_empty_has set0 _ Ee) in Hh. discriminate.
      - destruct (ps_nonempty_has set0 Hset0ok Ee) as (p & Hp & Hne & Hh).
        exists p. split; [exact Hp|]. split; [exact Hne|].
        apply (field_set_paths_resolve s R tr cfg set0 p Hok Htr Hfam Hwc Hcc' Hset0 Hp Hh). }
    destruct Hex as (p & Hp & Hne & Hpr).
    apply (present_granular s tr M p Hne). apply (AgrP_present s tr cfg M p Hagr Hp Hpr).
  Qed.

  (* members of the closure of the configuration's field set are nodes of the configuration *)
  Lemma en_set0_nodes : forall q, wf_path q = true -> ps_has q (ps_en s tr set0) = true ->
    q <> [] /\ exists n, resolve_path s tr cfg q = Some n.
  Proof.
    intros q Hq Hh. split; [apply (has_nonnil _ _ Hh)|].
    destruct (en_has_prefix s tr set0 q Hset0ok Hq Hh) as (r & Hr & Hm).
    assert (Hqr : wf_path (q ++ r) = true) by (apply ReconcileBase.wf_path_app; auto).
    pose proof (field_set_paths_resolve s R tr cfg set0 (q ++ r) Hok Htr Hfam Hwc Hcc' Hset0 Hqr Hm) as Hpr.
    apply present_prefix in Hpr. apply present_resolve in Hpr. exact Hpr.
  Qed.

  (* what the prune stage returns: the merged object, or the merged object minus a set of
     its paths that avoids the configuration and lies within the closure of the applier's
     previous record *)
  Lemma prune_cases : forall n mfp mgr lastrec pruned n1,
    managed_at_version mfp = [(ver, U)] ->
    (forall r, mf_get mgr mfp = Some r -> mr_ver r = ver) ->
    (forall last, lastrec = Some last ->
       mr_ver last = ver /\ ps_ok (mr_set last) = true /\ applier_record_ok s tr (mr_set last)) ->
    prune c n (ver, M) mfp mgr lastrec = UOk (pruned, n1) ->
    pruned = (ver, M) \/
    exists last D, lastrec = Some last /\ nice s tr M D /\ sub_present s tr M D /\
      avoids s tr cfg D /\
      (forall q, wf_path q = true -> ps_has q D = true -> ps_has q (ps_en s tr (mr_set last)) = true) /\
      pruned = (ver, remove s tr M D).
  Proof.
    intros n mfp mgr lastrec pruned n1 Hmav Htarget Hlast H.
    destruct lastrec as [last|]; [|left; unfold prune in H; inversion H; reflexivity].
    destruct (Hlast last eq_refl) as (Hlv & Hlok & Hlrec).
    destruct (ps_empty (mr_set last)) eqn:Ee.
    { left. unfold prune in H. rewrite Ee in H. inversion H. reflexivity. }
    right.
    destruct (prune_total s R tr Hok Hfam Htr Hnd Hks live cfg M Hwc Hcc Hpl Hroot HwM HcM Hagr Hlf
                set0 U Hset0 HU HUcfg HUown c ver Hcid Hsch Htrr n mfp mgr last Hmav Htarget Hlv Hlok Hlrec Ee)
      as (T1 & n1' & Hn1 & Hsp1 & Hav1 & HnD & HspD & HavD & Epr).
    rewrite Epr in H. inversion H; subst pruned n1. clear H.
    exists last, (dangling_T s tr M T1 (mr_set last)).
    split; [reflexivity|]. split; [exact HnD|]. split; [exact HspD|]. split; [exact HavD|].
    split; [|reflexivity].
    intros q Hq Hh.
    destruct (dangling_set s R tr Hok Hfam Htr Hnd Hks M HwM HcM T1 (mr_set last) Hn1 Hlok (proj1 Hlrec))
      as (_ & Hchar & _).
    rewrite (Hchar q Hq) in Hh. apply andb_true_iff in Hh. apply Hh.
  Qed.

  (* when the applier's previous record is the field set of the configuration itself, the
     prune stage succeeds and returns the merged object *)
  Lemma prune_same_cfg : forall n mfp mgr lastrec,
    managed_at_version mfp = [(ver, U)] ->
    (forall r, mf_get mgr mfp = Some r -> mr_ver r = ver) ->
    (lastrec = None \/ (lastrec = Some (mkRec set0 ver true) /\ applier_record_ok s tr set0)) ->
    exists n1, prune c n (ver, M) mfp mgr lastrec = UOk ((ver, M), n1).
  Proof.
    intros n mfp mgr lastrec Hmav Htarget [->|[-> Hrec]].
    - exists n. reflexivity.
    - destruct (ps_empty set0) eqn:Ee.
      { exists n. unfold prune. cbn [mr_set]. rewrite Ee. reflexivity. }
      destruct (prune_total s R tr Hok Hfam Htr Hnd Hks live cfg M Hwc Hcc Hpl Hroot HwM HcM Hagr Hlf
                  set0 U Hset0 HU HUcfg HUown c ver Hcid Hsch Htrr n mfp mgr (mkRec set0 ver true)
                  Hmav Htarget eq_refl Hset0ok Hrec Ee)
        as (T1 & n1 & Hn1 & Hsp1 & Hav1 & HnD & HspD & HavD & Epr).
      cbn [mr_set] in *.
      exists n1. rewrite Epr. f_equal. f_equal. f_equal.
      apply (memberless_remove s R Hok Hfam tr M _ Htr HwM HcM merged_granular (n_ok _ _ _ _ HnD)).
      intros q Hq. destruct (ps_has q (dangling_T s tr M T1 set0)) eqn:Eh; [|reflexivity]. exfalso.
      destruct (dangling_set s R tr Hok Hfam Htr Hnd Hks M HwM HcM T1 set0 Hn1 Hset0ok (proj1 Hrec))
        as (_ & Hchar & _).
      pose proof Eh as Eh'. rewrite (Hchar q Hq) in Eh'. apply andb_true_iff in Eh'. destruct Eh' as [_ Hen].
      destruct (en_set0_nodes q Hq Hen) as (Hne & n0 & Hres).
      pose proof (HavD q n0 Hq Hne Hres) as Hto.
      rewrite (touches_self q _ (n_ok _ _ _ _ HnD) Hq Eh) in Hto. discriminate.
  Qed.
  (* ---- the first apply ---- *)
  Hypothesis Hcl : conforms s tr true live = true.
  Hypothesis Em : merge s tr live cfg = Some (Some M).

  (* "nothing changed": the prune stage returned the merged object itself *)
  Lemma prune_noop : forall n mfp mgr lastrec pruned n1,
    managed_at_version mfp = [(ver, U)] ->
    (forall r, mf_get mgr mfp = Some r -> mr_ver r = ver) ->
    (forall last, lastrec = Some last ->
       mr_ver last = ver /\ ps_ok (mr_set last) = true /\ applier_record_ok s tr (mr_set last)) ->
    (forall last p, lastrec = Some last -> wf_path p = true -> ps_has p (mr_set last) = true ->
       present s tr live p = true) ->
    prune c n (ver, M) mfp mgr lastrec = UOk (pruned, n1) ->
    veqb live (snd pruned) = true ->
    pruned = (ver, M).
  Proof.
    intros n mfp mgr lastrec pruned n1 Hmav Htarget Hlast Hpres H Hv.
    destruct (prune_cases n mfp mgr lastrec pruned n1 Hmav Htarget Hlast H)
      as [E|(last & D & -> & HnD & HspD & HavD & Hin & ->)]; [exact E|].
    destruct (Hlast last eq_refl) as (Hlv & Hlok & Hlrec).
    cbn [snd] in Hv. f_equal.
    apply (memberless_remove s R Hok Hfam tr M D Htr HwM HcM merged_granular (n_ok _ _ _ _ HnD)).
    intros q Hq. destruct (ps_has q D) eqn:Eh; [|reflexivity]. exfalso.
    pose proof (touches_self q D (n_ok _ _ _ _ HnD) Hq Eh) as Hto.
    pose proof (remove_drops s R Hok Hfam Hnd q M tr true D Htr HwM HcM HnD Hq Hto) as Hgone.
    destruct (en_has_prefix s tr (mr_set last) q Hlok Hq (Hin q Hq Eh)) as (r & Hr & Hm).
    assert (Hqr : wf_path (q ++ r) = true) by (apply ReconcileBase.wf_path_app; auto).
    pose proof (Hpres last (q ++ r) eq_refl Hqr Hm) as Hpl'. apply present_prefix in Hpl'.
    assert (Hpx : present s tr (remove s tr M D) q = true).
    { apply (veqb_present s R Hok Hfam tr live (remove s tr M D) q Htr Hwl); auto.
      - apply remove_wf. exact HwM.
      - apply (remove_conforms s R Hok Hfam Hnd M tr D Htr HwM HcM HnD). }
    unfold remove in Hpx. rewrite Hgone in Hpx. discriminate.
  Qed.

  (* whatever the prune stage returns is a fixed point of merging the configuration *)
  Lemma prune_fixed : forall n mfp mgr lastrec pruned n1,
    managed_at_version mfp = [(ver, U)] ->
    (forall r, mf_get mgr mfp = Some r -> mr_ver r = ver) ->
    (forall last, lastrec = Some last ->
       mr_ver last = ver /\ ps_ok (mr_set last) = true /\ applier_record_ok s tr (mr_set last)) ->
    prune c n (ver, M) mfp mgr lastrec = UOk (pruned, n1) ->
    fst pruned = ver /\ merge s tr (snd pruned) cfg = Some (Some (snd pruned)).
  Proof.
    intros n mfp mgr lastrec pruned n1 Hmav Htarget Hlast H.
    destruct (prune_cases n mfp mgr lastrec pruned n1 Hmav Htarget Hlast H)
      as [->|(last & D & -> & HnD & HspD & HavD & Hin & ->)]; cbn [fst snd]; (split; [reflexivity|]).
    - apply (merge_idempotent s R tr live cfg M Hok Hfam Htr Hwl Hwc Hcl Hcc Em).
    - apply (merge_remove_fixed s R tr live cfg M D Hok Hfam Hnd Htr Hwl Hwc Hcl Hcc Hpl Hroot Em HnD HspD).
      exact HavD.
  Qed.
End Prune.

(* ================= the records ================= *)

(* A non-forced update of the records by a comparison that reports nothing at the paths the
   other managers own: it succeeds and leaves every record as it is. *)
Lemma update_quiet : forall c n old new ver mf1 mgr cmp,
  no_ignore c -> single_version ver mf1 -> mf_ok mf1 ->
  compare_tv c old new = Some cmp -> cmp_ok cmp ->
  (forall m r p, m <> mgr -> mf_get m mf1 = Some r -> wf_path p = true -> p <> [] ->
     ps_has p (mr_set r) = true ->
     ps_has p (modified cmp) = false /\ ps_has p (added cmp) = false /\ ps_has p (removed cmp) = false) ->
  (forall m r, m <> mgr -> mf_get m mf1 = Some r -> ps_empty (mr_set r) = false) ->
  exists mf2 n2,
    update_core c n old new ver mf1 mgr false = UOk (mf2, cmp, n2) /\
    mf_get mgr mf2 = match mf_get mgr mf1 with
                     | Some r => if ps_empty (mr_set r) then None else Some r
                     | None => None
                     end /\
    forall m, m <> mgr ->
      match mf_get m mf1, mf_get m mf2 with
      | Some r, Some r' => mr_ver r = mr_ver r' /\ mr_applied r = mr_applied r' /\
                           ps_equals (mr_set r) (mr_set r') = true
      | None, None => True
      | _, _ => False
      end.
Proof.
  intros c n old new ver mf1 mgr cmp Hni Hsv Hmf Hcmp Hc Hquiet Hne.
  assert (Hcok : forall cmp0, compare_tv c old new = Some cmp0 -> cmp_ok cmp0).
  { intros cmp0 E. rewrite Hcmp in E. inversion E; subst cmp0. exact Hc. }
  (* the update does not fail *)
  assert (Hex : exists r, update_core c n old new ver mf1 mgr false = UOk r).
  { destruct (update_core c n old new ver mf1 mgr false) as [r|e] eqn:Eu; [exists r; reflexivity|].
    exfalso.
    pose proof Eu as Eu'.
    rewrite (update_core_single c n old new ver mf1 mgr false cmp Hni Hsv Hcmp) in Eu'.
    unfold ufinish in Eu'.
    match type of Eu' with (if ?b then _ else _) = _ => destruct b; [|discriminate] end.
    inversion Eu'; subst e. clear Eu'.
    assert (Hc' : exists cs, update_core c n old new ver mf1 mgr false = UErr (EConflict cs)) by (eexists; exact Eu).
    apply (update_core_conflict_iff c n old new ver mf1 mgr cmp Hni Hsv Hmf Hcmp Hc) in Hc'.
    destruct Hc' as (m & p & Hp & Hpne & Hcf).
    unfold is_conflict in Hcf. apply andb_true_iff in Hcf. destruct Hcf as [Hm Hcf].
    apply negb_true_iff in Hm. apply String.eqb_neq in Hm.
    destruct (mf_get m mf1) as [r|] eqn:Er; [|discriminate].
    apply andb_true_iff in Hcf. destruct Hcf as [Hh Hma].
    destruct (Hquiet m r p Hm Er Hp Hpne Hh) as (H1 & H2 & _).
    rewrite H1, H2 in Hma. discriminate. }
  destruct Hex as ([[mf2 cmp2] n2] & Eu).
  destruct (update_core_records c n old new ver mf1 mgr false mf2 cmp2 n2 Hni Hsv Hmf Hcok Eu)
    as (Hcmp2 & _ & Hmf2 & _ & _ & Hw & Hoth).
  rewrite Hcmp in Hcmp2. inversion Hcmp2; subst cmp2. clear Hcmp2.
  exists mf2, n2. split; [exact Eu|]. split; [exact Hw|].
  intros m Hm. pose proof (Hoth m Hm) as Ho.
  destruct (mf_get m mf1) as [r|] eqn:Er; [|rewrite Ho; exact I].
  assert (Hkeep : forall p, wf_path p = true -> p <> [] -> keeps r cmp p = ps_has p (mr_set r)).
  { intros p Hp Hpne. unfold keeps. destruct (ps_has p (mr_set r)) eqn:Eh; [|reflexivity].
    destruct (Hquiet m r p Hm Er Hp Hpne Eh) as (H1 & H2 & H3). rewrite H1, H2, H3. reflexivity. }
  pose proof (mf_ok_get mf1 m r Hmf Er) as Hrok.
  destruct (mf_get m mf2) as [r'|] eqn:Er'.
  - destruct Ho as (Hv & Ha & Hhas). split; [symmetry; exact Hv|]. split; [symmetry; exact Ha|].
    apply ps_equals_ext; [exact Hrok|apply (mf_ok_get mf2 m r' Hmf2 Er')|].
    intros p Hp. destruct p as [|e p']; [reflexivity|].
    rewrite (Hhas _ Hp ltac:(discriminate)). symmetry. apply Hkeep; [exact Hp|discriminate].
  - destruct (ps_nonempty_has (mr_set r) Hrok (Hne m r Hm Er)) as (p & Hp & Hpne & Hh).
    rewrite <- (Hkeep p Hp Hpne), (Ho p Hp Hpne) in Hh. discriminate.
Qed.

(* ================= the second apply ================= *)

Section Second.
  Variables (c : config) (R : typeref -> Prop) (ver : string).
  Let s := schema_of c ver.
  Let tr := tr_of c ver.

  (* The apply of [cfg] by [mgr] at a state [(res, mf')] where [mgr]'s record is the field
     set of [cfg], the object merged with [cfg] is some [M2], and the comparison of [res]
     with [M2] reports nothing at the paths the other managers own: it succeeds without
     force, the pruned object is [M2] itself, and no record changes. *)
  Lemma second_apply : forall res mf' mgr cfg force0 set0 M2 cmp',
    setting_ok c R ver -> state_ok c ver res mf' -> op_ok c ver (HApply mgr cfg force0) ->
    to_field_set s tr cfg = Some set0 ->
    merge s tr res cfg = Some (Some M2) ->
    mf_get mgr mf' = (if ps_empty set0 then None else Some (mkRec set0 ver true)) ->
    compare s tr res M2 = Some cmp' ->
    (forall m r p, m <> mgr -> mf_get m mf' = Some r -> wf_path p = true -> p <> [] ->
       ps_has p (mr_set r) = true ->
       ps_has p (modified cmp') = false /\ ps_has p (added cmp') = false /\
       ps_has p (removed cmp') = false) ->
    exists mf'',
      apply_op c (ver, res) (ver, cfg) ver mf' mgr false =
        (if negb (cfg_return_input_on_noop c) && veqb res M2 then UOk (None, mf'')
         else UOk (Some (ver, M2), mf'')) /\
      same_records mf' mf''.
  Proof.
    intros res mf' mgr cfg force0 set0 M2 cmp' Hset Hst Hop Eset0 Em Hmine Hcmp Hquiet.
    pose proof (state_ok_conforms c ver res mf' _ Hst Hop) as Hcr. fold s tr in Hcr.
    pose proof Hset as (Hni & Hcid & Hok & Hfam & Hpure & Htr & Hkp). fold s tr in Hok, Hfam, Hpure, Htr, Hkp.
    pose proof Hkp as [Hnd Hks].
    destruct Hop as (Hwc & Hcc & Hpl & Hgr). fold s tr in Hcc, Hgr.
    pose proof (so_wf c ver res mf' Hst) as Hwr. pose proof (so_mf c ver res mf' Hst) as Hmf.
    pose proof (so_single c ver res mf' Hst) as Hsv.
    destruct (merge_facts s R Hok Hfam tr res cfg M2 Htr Hwr Hwc Hcr Hcc Hpl Em) as (HwM & HcM & Hagr & Hlf).
    pose proof (to_field_set_ok s R tr cfg set0 Hok Htr Hwc Eset0) as Hset0ok.
    set (rec0 := mkRec set0 ver true) in *.
    set (mfp := mf_set mgr rec0 mf').
    assert (Hmfp : mf_ok mfp) by (apply mf_set_ok; assumption).
    assert (Hsvp : single_version ver mfp) by (apply mf_set_single; [assumption|reflexivity]).
    assert (Hothers : forall m r, m <> mgr -> mf_get m mf' = Some r -> owns_live_keys s tr res (mr_set r)).
    { intros m r _ Hg. apply (so_records c ver res mf' Hst m r Hg). }
    pose proof (managers_sets s tr ver res mf' mgr set0 Hsv Hmf Hset0ok Hothers) as HM.
    cbv zeta in HM. fold rec0 in HM. fold mfp in HM.
    destruct HM as (HU & HUcfg & HUown & Hmav & Htarget & _).
    set (U := union_all mfp ps_empty_set) in *.
    (* reconciliation *)
    destruct (reconcile_managed_id c R ver res mf' Hcid Hok Hfam Hpure Htr Hwr Hcr Hmf Hsv
                (so_nonempty c ver res mf' Hst) (so_present c ver res mf' Hst)) as (n0 & Erec).
    (* the prune stage returns the merged object *)
    assert (Hlastc : mf_get mgr mf' = None \/
                     (mf_get mgr mf' = Some rec0 /\ applier_record_ok s tr set0)).
    { destruct (ps_empty set0) eqn:Ee; [left; exact Hmine|right].
      split; [exact Hmine|].
      apply (so_records c ver res mf' Hst mgr rec0 Hmine). }
    destruct (prune_same_cfg s R tr Hok Hfam Htr Hnd Hks res cfg M2 Hwc Hcc Hpl Hgr HwM HcM Hagr Hlf
                set0 U Eset0 HU HUcfg HUown c ver Hcid eq_refl eq_refl n0 mfp mgr (mf_get mgr mf')
                Hmav Htarget Hlastc) as (n1 & Epr).
    (* the records *)
    assert (Hcmp_tv : compare_tv c (ver, res) (ver, M2) = Some cmp') by exact Hcmp.
    assert (Hc : cmp_ok cmp') by (apply (compare_sets_ok s R tr res M2 cmp' Hok Htr Hwr HwM Hcmp)).
    destruct (update_quiet c n1 (ver, res) (ver, M2) ver mfp mgr cmp' Hni Hsvp Hmfp Hcmp_tv Hc)
      as (mf2 & n2 & Eupd & Hw2 & Hoth2).
    { intros m r p Hm Hg. unfold mfp in Hg. rewrite (mf_get_set_other m mgr rec0 mf' Hm) in Hg.
      apply (Hquiet m r p Hm Hg). }
    { intros m r Hm Hg. unfold mfp in Hg. rewrite (mf_get_set_other m mgr rec0 mf' Hm) in Hg.
      apply (so_nonempty c ver res mf' Hst m r Hg). }
    exists mf2. split.
    - rewrite (apply_op_intro c ver res cfg mf' mgr false mf' n0 M2 set0 (ver, M2) n1 mf2 cmp' n2
                 Hni Erec Em Eset0 Epr Eupd). reflexivity.
    - intros m. destruct (String.eqb_spec m mgr) as [->|Hm].
      + rewrite Hw2. unfold mfp. rewrite mf_get_set_same. cbn [mr_set rec0]. rewrite Hmine.
        destruct (ps_empty set0); [exact I|].
        split; [reflexivity|]. split; [reflexivity|].
        apply ps_equals_ext; auto.
      + pose proof (Hoth2 m Hm) as Ho. unfold mfp in Ho.
        rewrite (mf_get_set_other m mgr rec0 mf' Hm) in Ho. exact Ho.
  Qed.
End Second.

(* ================= the theorem ================= *)

(* General form: whatever the option [cfg_return_input_on_noop] (Go: returnInputOnNoop),
   the second apply succeeds without force, leaves every record as it is and computes the
   SAME object (syntactically); it answers "nothing to persist" unless the option asks for
   the object to be returned always, and then it returns the object it was given. *)
Theorem reapply_general : forall c R ver live mf mgr cfg force o mf',
  setting_ok c R ver -> state_ok c ver live mf -> op_ok c ver (HApply mgr cfg force) ->
  apply_op c (ver, live) (ver, cfg) ver mf mgr force = UOk (o, mf') ->
  let res := match o with Some t => snd t | None => live end in
  exists mf'',
    apply_op c (ver, res) (ver, cfg) ver mf' mgr false =
      UOk ((if cfg_return_input_on_noop c then Some (ver, res) else None), mf'') /\
    same_records mf' mf''.
Proof.
  intros c R ver live mf mgr cfg force o mf' Hset Hst Hop Happly res.
  set (s := schema_of c ver) in *. set (tr := tr_of c ver) in *.
  pose proof (apply_step c R ver live mf mgr cfg force o mf' Hset Hst Hop Happly) as Hst'.
  fold res in Hst'.
  pose proof (state_ok_conforms c ver live mf _ Hst Hop) as Hcl. fold s tr in Hcl.
  pose proof Hset as (Hni & Hcid & Hok & Hfam & Hpure & Htr & Hkp). fold s tr in Hok, Hfam, Hpure, Htr, Hkp.
  pose proof Hkp as [Hnd Hks].
  pose proof Hop as (Hwc & Hcc & Hpl & Hgr). fold s tr in Hcc, Hgr.
  pose proof (so_wf c ver live mf Hst) as Hwl. pose proof (so_mf c ver live mf Hst) as Hmf.
  pose proof (so_single c ver live mf Hst) as Hsv. pose proof (so_current c ver live mf Hst) as Hcur.
  destruct (apply_full c ver live cfg mf mgr force o mf' Hni Hcid Hsv Hmf Hcur Happly)
    as (M & set0 & n0 & pruned & n1 & cmp & n2 & Em & Eset0 & Epr & Eupd & Ho).
  fold s tr in Em, Eset0.
  destruct (merge_facts s R Hok Hfam tr live cfg M Htr Hwl Hwc Hcl Hcc Hpl Em) as (HwM & HcM & Hagr & Hlf).
  pose proof (to_field_set_ok s R tr cfg set0 Hok Htr Hwc Eset0) as Hset0ok.
  set (rec0 := mkRec set0 ver true) in *.
  set (mfp := mf_set mgr rec0 mf) in *.
  assert (Hmfp : mf_ok mfp) by (apply mf_set_ok; assumption).
  assert (Hsvp : single_version ver mfp) by (apply mf_set_single; [assumption|reflexivity]).
  assert (Hothers : forall m r, m <> mgr -> mf_get m mf = Some r -> owns_live_keys s tr live (mr_set r)).
  { intros m r _ Hg. apply (so_records c ver live mf Hst m r Hg). }
  pose proof (managers_sets s tr ver live mf mgr set0 Hsv Hmf Hset0ok Hothers) as HM.
  cbv zeta in HM. fold rec0 in HM. fold mfp in HM.
  destruct HM as (HU & HUcfg & HUown & Hmav & Htarget & _).
  set (U := union_all mfp ps_empty_set) in *.
  assert (Hlast : forall last, mf_get mgr mf = Some last ->
            mr_ver last = ver /\ ps_ok (mr_set last) = true /\ applier_record_ok s tr (mr_set last)).
  { intros last Hg. split; [|split].
    - apply String.eqb_eq. apply (single_version_get ver mf mgr last Hsv Hg).
    - apply (mf_ok_get mf mgr last Hmf Hg).
    - apply (so_records c ver live mf Hst mgr last Hg). }
  (* the pruned object is a fixed point of merging the configuration *)
  destruct (prune_fixed s R tr Hok Hfam Htr Hnd Hks live cfg M Hwl Hwc Hcc Hpl Hgr HwM HcM Hagr Hlf
              set0 U Eset0 HU HUcfg HUown c ver Hcid eq_refl eq_refl Hcl Em
              n0 mfp mgr (mf_get mgr mf) pruned n1 Hmav Htarget Hlast Epr) as (Hpv & Hfix).
  destruct (prune_agrees s R tr Hok Hfam Htr Hnd Hks live cfg M Hwc Hcc Hpl Hgr HwM HcM Hagr Hlf
              set0 U Eset0 HU HUcfg HUown c ver Hcid eq_refl eq_refl
              n0 mfp mgr (mf_get mgr mf) pruned n1 Hmav Htarget Hlast Epr) as (_ & HagrP & HwP & HcP).
  destruct pruned as [pv px]. cbn [fst snd] in *. subst pv.
  (* the records after the first apply *)
  assert (Hcok : forall cmp0, compare_tv c (ver, live) (ver, px) = Some cmp0 -> cmp_ok cmp0).
  { intros cmp0 Hc0. exact (compare_sets_ok s R tr live px cmp0 Hok Htr Hwl HwP Hc0). }
  destruct (update_core_records c n1 (ver, live) (ver, px) ver mfp mgr force mf' cmp n2 Hni Hsvp Hmfp Hcok Eupd)
    as (Hcmp & _ & _ & _ & _ & Hw & Hoth).
  assert (Hmine : mf_get mgr mf' = (if ps_empty set0 then None else Some rec0)).
  { rewrite Hw. unfold mfp. rewrite mf_get_set_same. reflexivity. }
  destruct Ho as [(-> & Hflag & Hv)| ->].
  - (* the first apply answered "nothing to persist": the pruned object is the merged one *)
    assert (Epx : (ver, px) = (ver, M)).
    { apply (prune_noop s R tr Hok Hfam Htr Hnd Hks live cfg M Hwl Hwc Hcc Hpl Hgr HwM HcM Hagr Hlf
               set0 U Eset0 HU HUcfg HUown c ver Hcid eq_refl eq_refl Hcl
               n0 mfp mgr (mf_get mgr mf) (ver, px) n1 Hmav Htarget Hlast); auto.
      intros last p Hg Hp Hh. apply (so_present c ver live mf Hst mgr last p Hg Hp Hh). }
    inversion Epx; subst px. clear Epx.
    unfold res in *. clear res.
    destruct (second_apply c R ver live mf' mgr cfg force set0 M cmp Hset Hst' Hop Eset0 Em Hmine Hcmp)
      as (mf'' & Happ2 & Hsame).
    { (* what the other managers kept is not reported by the comparison *)
      intros m r' p Hm Hg' Hp Hpne Hh.
      pose proof (Hoth m Hm) as Ho. unfold mfp in Ho. rewrite (mf_get_set_other m mgr rec0 mf Hm) in Ho.
      destruct (mf_get m mf) as [r|]; [|congruence].
      rewrite Hg' in Ho. destruct Ho as (_ & _ & Hk).
      rewrite (Hk p Hp Hpne) in Hh. unfold keeps in Hh.
      apply andb_true_iff in Hh. destruct Hh as [Hh Hr]. apply andb_true_iff in Hh. destruct Hh as [_ Hma].
      apply negb_true_iff in Hr. apply negb_true_iff in Hma. apply orb_false_iff in Hma.
      destruct Hma as [H1 H2]. auto. }
    exists mf''. split; [|exact Hsame].
    rewrite Happ2, Hflag, Hv. reflexivity.
  - (* the first apply returned the pruned object *)
    cbn [snd] in res. unfold res in *. clear res.
    destruct (compare_total s R tr px px Hok Hfam Htr HwP HwP HcP HcP) as (cmp' & Hcmp').
    pose proof (compare_self s R tr px cmp' Hok Htr HwP Hcmp') as Hsame0.
    unfold c3_is_same in Hsame0. apply andb_true_iff in Hsame0. destruct Hsame0 as [Hsame0 E3].
    apply andb_true_iff in Hsame0. destruct Hsame0 as [E1 E2].
    destruct (second_apply c R ver px mf' mgr cfg force set0 px cmp' Hset Hst' Hop Eset0 Hfix Hmine Hcmp')
      as (mf'' & Happ2 & Hsame).
    { intros m r' p _ _ _ _ _.
      rewrite (TrieBase.ps_empty_has _ p E1), (TrieBase.ps_empty_has _ p E2), (TrieBase.ps_empty_has _ p E3).
      auto. }
    exists mf''. split; [|exact Hsame].
    rewrite Happ2, (veqb_refl px HwP). destruct (cfg_return_input_on_noop c); reflexivity.
Qed.

(* The statement of Proofs/Reapply_statements.v, with ONE added hypothesis:
   [cfg_return_input_on_noop c = false] (Go: Updater.returnInputOnNoop is off, the
   default).  It is NECESSARY: with the option on, Apply never answers "nothing to persist"
   (it returns the object it computed, always), see [reapply_needs_noop_option] below;
   [reapply_general] says what happens then.  The hypothesis [dup_free .. live] of the
   statement is kept but is NOT used: the theorem holds with duplicates in the live object
   ([reapply_general] does not assume it). *)
Theorem reapply_is_a_fixed_point : forall c R ver live mf mgr cfg force o mf',
  setting_ok c R ver -> state_ok c ver live mf -> op_ok c ver (HApply mgr cfg force) ->
  dup_free (schema_of c ver) (tr_of c ver) live = true ->
  cfg_return_input_on_noop c = false ->
  apply_op c (ver, live) (ver, cfg) ver mf mgr force = UOk (o, mf') ->
  let res := match o with Some t => snd t | None => live end in
  exists mf'',
    apply_op c (ver, res) (ver, cfg) ver mf' mgr false = UOk (None, mf'') /\
    same_records mf' mf''.
Proof.
  intros c R ver live mf mgr cfg force o mf' Hset Hst Hop _ Hflag Happly res.
  destruct (reapply_general c R ver live mf mgr cfg force o mf' Hset Hst Hop Happly) as (mf'' & H & Hs).
  fold res in H. rewrite Hflag in H. exists mf''. split; assumption.
Qed.

(* ================= along histories ================= *)

(* at every state reachable from the empty object by admissible operations *)
Theorem reapply_along_histories : forall c R ver ops mgr cfg force o mf',
  setting_ok c R ver -> Forall (op_ok c ver) ops -> op_ok c ver (HApply mgr cfg force) ->
  dup_free (schema_of c ver) (tr_of c ver) (fst (run c ver ops)) = true ->
  cfg_return_input_on_noop c = false ->
  apply_op c (ver, fst (run c ver ops)) (ver, cfg) ver (snd (run c ver ops)) mgr force = UOk (o, mf') ->
  let res := match o with Some t => snd t | None => fst (run c ver ops) end in
  exists mf'',
    apply_op c (ver, res) (ver, cfg) ver mf' mgr false = UOk (None, mf'') /\
    same_records mf' mf''.
Proof.
  intros c R ver ops mgr cfg force o mf' Hset Hall Hop Hdf Hflag Happly.
  apply (reapply_is_a_fixed_point c R ver (fst (run c ver ops)) (snd (run c ver ops)) mgr cfg force o mf'
           Hset (reachable_states_ok c R ver ops Hset Hall) Hop Hdf Hflag Happly).
Qed.

(* the same, in terms of histories: appending the same apply (without force) to a history
   whose last operation is a successful apply changes neither the object nor the records
   (whatever the option [cfg_return_input_on_noop], and with or without duplicates) *)
Theorem reapply_history_fixed_point : forall c R ver ops mgr cfg force o mf',
  setting_ok c R ver -> Forall (op_ok c ver) ops -> op_ok c ver (HApply mgr cfg force) ->
  apply_op c (ver, fst (run c ver ops)) (ver, cfg) ver (snd (run c ver ops)) mgr force = UOk (o, mf') ->
  fst (run c ver (ops ++ [HApply mgr cfg force; HApply mgr cfg false]))
    = fst (run c ver (ops ++ [HApply mgr cfg force])) /\
  same_records (snd (run c ver (ops ++ [HApply mgr cfg force])))
               (snd (run c ver (ops ++ [HApply mgr cfg force; HApply mgr cfg false]))).
Proof.
  intros c R ver ops mgr cfg force o mf' Hset Hall Hop Happly.
  destruct (reapply_general c R ver (fst (run c ver ops)) (snd (run c ver ops)) mgr cfg force o mf'
              Hset (reachable_states_ok c R ver ops Hset Hall) Hop Happly) as (mf'' & H2 & Hs).
  set (res := match o with Some t => snd t | None => fst (run c ver ops) end) in *.
  assert (E1 : hstep c ver (run c ver ops) (HApply mgr cfg force) = (res, mf')).
  { unfold res. destruct (run c ver ops) as [live mf]. cbn [hstep fst snd] in *. rewrite Happly.
    destruct o as [t|]; reflexivity. }
  assert (E2 : hstep c ver (res, mf') (HApply mgr cfg false) = (res, mf'')).
  { cbn [hstep fst snd]. rewrite H2. destruct (cfg_return_input_on_noop c); reflexivity. }
  unfold run. rewrite !fold_left_app. cbn [fold_left]. fold (run c ver ops).
  rewrite E1, E2. cbn [fst snd]. split; [reflexivity|exact Hs].
Qed.

(* ================= the added hypothesis is necessary ================= *)

Section NoopOption.
  Open Scope string_scope.

  (* the example configuration with returnInputOnNoop switched on *)
  Definition noop_config : config :=
    mkConfig (fun _ => (ex_schema, ex_rt)) (fun _ _ _ v => COk v) None None true (fun l => l).

  Lemma noop_setting_ok : setting_ok noop_config FieldSetLaws.ex_R "v1".
  Proof.
    split; [split; reflexivity|]. split; [intros n from to v; reflexivity|].
    split; [exact FieldSetLaws.ex_schema_ok|]. split; [exact FieldSetLaws.ex_family|].
    split; [exact ex_lists_pure_fs|]. split; [exact FieldSetLaws.ex_R_root|exact ex_keys_plain].
  Qed.

  Definition noop_cfg : value := VMap [("aa", VInt 1)].

  (* every hypothesis of Proofs/Reapply_statements.v holds (empty state, one number applied
     by "a"), the first apply succeeds, and the second apply returns the object instead of
     "nothing to persist" *)
  Theorem reapply_needs_noop_option :
    setting_ok noop_config FieldSetLaws.ex_R "v1" /\
    state_ok noop_config "v1" VNull [] /\
    op_ok noop_config "v1" (HApply "a" noop_cfg false) /\
    dup_free (schema_of noop_config "v1") (tr_of noop_config "v1") VNull = true /\
    exists mf',
      apply_op noop_config ("v1", VNull) ("v1", noop_cfg) "v1" [] "a" false
        = UOk (Some ("v1", noop_cfg), mf') /\
      apply_op noop_config ("v1", noop_cfg) ("v1", noop_cfg) "v1" mf' "a" false
        = UOk (Some ("v1", noop_cfg), mf').
  Proof.
    split; [exact noop_setting_ok|]. split; [apply initial_state_ok|].
    split; [repeat split; try (vm_compute; reflexivity); vm_compute; exact I|].
    split; [vm_compute; reflexivity|].
    eexists. split; [vm_compute; reflexivity|]. vm_compute. reflexivity.
  Qed.
End NoopOption.

(* ================= non-vacuity ================= *)

(* A history over the example schema: "a" applies a number and two list members, "b"
   updates the object adding a map entry (which "b" then owns).  At that state "a" applies
   a configuration that abandons the member y: the apply succeeds, PRUNES y, and "b" still
   owns its entry.  Applying the same configuration again changes nothing -- by the
   theorem, not by evaluation. *)
Section Example.
  Open Scope string_scope.
  Let item (n : string) (v : Z) := VMap [("name", VStr n); ("vv", VInt v)].

  Definition rx_ops : list hop :=
    [ HApply "a" (VMap [("aa", VInt 1); ("items", VList [item "x" 1; item "y" 2])]) false;
      HUpdate "b" (VMap [("aa", VInt 1); ("items", VList [item "x" 1; item "y" 2]);
                         ("mm", VMap [("k", VInt 1)])]) ].
  Definition rx_cfg : value := VMap [("aa", VInt 1); ("items", VList [item "x" 1])].
  Definition rx_live : value :=
    VMap [("aa", VInt 1); ("items", VList [item "x" 1; item "y" 2]); ("mm", VMap [("k", VInt 1)])].
  Definition rx_res : value :=
    VMap [("aa", VInt 1); ("items", VList [item "x" 1]); ("mm", VMap [("k", VInt 1)])].

  Lemma rx_ops_ok : Forall (op_ok ex_config "v1") rx_ops.
  Proof. repeat constructor; try (vm_compute; reflexivity); vm_compute; exact I. Qed.

  Lemma rx_cfg_ok : op_ok ex_config "v1" (HApply "a" rx_cfg false).
  Proof. repeat split; try (vm_compute; reflexivity); vm_compute; exact I. Qed.

  Example reapply_example :
    (* the state before: the member y is there, "b" owns something *)
    fst (run ex_config "v1" rx_ops) = rx_live /\
    (exists rb, mf_get "b" (snd (run ex_config "v1" rx_ops)) = Some rb /\ ps_empty (mr_set rb) = false) /\
    (* the first apply succeeds and prunes the member y; "b" keeps its record *)
    (exists mf', apply_op ex_config ("v1", rx_live) ("v1", rx_cfg) "v1" (snd (run ex_config "v1" rx_ops)) "a" false
                   = UOk (Some ("v1", rx_res), mf') /\
                 present ex_schema ex_rt rx_live [PEField "items"; PEKey [("name", VStr "y")]] = true /\
                 present ex_schema ex_rt rx_res [PEField "items"; PEKey [("name", VStr "y")]] = false /\
                 mf_get "b" mf' = mf_get "b" (snd (run ex_config "v1" rx_ops))) /\
    (* and, by the theorem, the same apply again is a fixed point *)
    (forall o mf',
       apply_op ex_config ("v1", fst (run ex_config "v1" rx_ops)) ("v1", rx_cfg) "v1"
                (snd (run ex_config "v1" rx_ops)) "a" false = UOk (o, mf') ->
       exists mf'',
         apply_op ex_config ("v1", match o with Some t => snd t | None => fst (run ex_config "v1" rx_ops) end)
                  ("v1", rx_cfg) "v1" mf' "a" false = UOk (None, mf'') /\
         same_records mf' mf'').
  Proof.
    split; [vm_compute; reflexivity|].
    split.
    { eexists. split; [vm_compute; reflexivity|]. vm_compute. reflexivity. }
    split.
    { eexists. split; [vm_compute; reflexivity|]. split; [vm_compute; reflexivity|].
      split; [vm_compute; reflexivity|]. vm_compute. reflexivity. }
    intros o mf' H.
    apply (reapply_along_histories ex_config FieldSetLaws.ex_R "v1" rx_ops "a" rx_cfg false o mf'
             ex_setting_ok rx_ops_ok rx_cfg_ok); [vm_compute; reflexivity|reflexivity|exact H].
  Qed.
End Example.

