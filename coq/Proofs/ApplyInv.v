(* C06, the Apply step: after a successful apply every path of every record designates a
   node of the resulting object, the object is well formed and valid, and the record map
   stays well formed (single version, no empty record).

   Setting and side conditions of Proofs/ApplyEffect.v (single API version, identity
   converter, no ignore configuration); [owned_present] as in Proofs/UpdateInv.v (the local
   copy below is the same definition; Proofs/UpdateInv.v is required but NOT imported
   because it defines [conv_id] a second time; its lemma [compare_present] is used by its
   qualified name).  Every theorem is proved with Qed.

   Structure.  [apply_unfold] unfolds [apply_op] exactly as the proof of
   [apply_takes_effect] does, down to the object [pruned] that the prune stage returns and
   the call of [update_core] on (live, pruned); [prune_agrees] (Proofs/ApplyEffect.v) gives
   that [pruned] is well formed, valid, and agrees with the configuration.
   - the applier's new record is the field set of the configuration: each member designates
     a node of the configuration ([field_set_paths_resolve]), hence of [pruned] (agreement);
   - another manager's new record is [keeps r cmp] with cmp = compare live pruned: a kept
     path was present in live and is not reported removed, hence is present in [pruned]
     ([UpdateInv.compare_present]);
   - when Apply answers "no change" (the result is the live object) [pruned] and live are
     equal, and presence passes from one to the other ([veqb_resolve]). *)
From Coq Require Import List ZArith String Bool Arith Lia.
From SMD Require Import Model.Value Model.Order Model.PathElem Model.PathSet Model.Schema Model.Walk
  Model.Validate Model.FieldSet Model.Remove Model.Merge Model.Compare Model.Matcher Model.Reconcile
  Model.Updater
  Spec.PathsAsSets Spec.RefValid Spec.Resolve Spec.Agree Spec.RefDiff Spec.Examples
  Proofs.OrderLaws Proofs.PathSetLaws Proofs.SchemaOk Proofs.FieldSetBase Proofs.FieldSetPaths
  Proofs.FieldSetWf Proofs.FieldSetLaws Proofs.RemoveAbsent Proofs.RemoveWf Proofs.ResolveLaws
  Proofs.UpdaterLaws Proofs.UpdaterLaws2 Proofs.MergeLaws Proofs.MergeAgree
  Proofs.RemoveFrame Proofs.EnLaws Proofs.NodeSet Proofs.KeyFields Proofs.VeqbResolve
  Proofs.SetCheckers Proofs.ApplyEffect Proofs.RefDiffBoth Proofs.RefDiffLaws Proofs.RefDiffPresent.
From SMD Require Proofs.CompareLaws Proofs.UpdateInv Proofs.MergeBase Proofs.ReconcileLaws.
Import ListNotations.
Open Scope bool_scope.
Open Scope list_scope.

Local Arguments ps_has : simpl never.
Local Arguments ps_empty : simpl never.

Definition owned_present (s : schema) (tr : typeref) (v : value) (mf : managed) : Prop :=
  forall m r p, mf_get m mf = Some r -> wf_path p = true -> ps_has p (mr_set r) = true ->
                present s tr v p = true.

(* the local copy and the one of Proofs/UpdateInv.v are the same predicate *)
Lemma owned_present_same : forall s tr v mf,
  owned_present s tr v mf <-> UpdateInv.owned_present s tr v mf.
Proof. intros s tr v mf. split; intros H; exact H. Qed.

(* ================= presence ================= *)

Lemma present_resolve : forall s tr v p, present s tr v p = true <-> exists n, resolve_path s tr v p = Some n.
Proof.
  intros s tr v p. unfold present. destruct (resolve_path s tr v p) as [n|].
  - split; [intros _; exists n; reflexivity|reflexivity].
  - split; [discriminate|intros (n & Hn); discriminate].
Qed.

(* an object that agrees with a configuration has every node of the configuration *)
Lemma AgrP_present : forall s tr cfg out p, AgrP s tr cfg out -> wf_path p = true ->
  present s tr cfg p = true -> present s tr out p = true.
Proof.
  intros s tr cfg out p HA Hp Hpr. apply present_resolve in Hpr. destruct Hpr as (n & Hn).
  destruct (HA p n Hp Hn) as (o & Ho & _). apply present_resolve. exists o. exact Ho.
Qed.

(* equal objects have the same nodes *)
Lemma veqb_present : forall s R, schema_ok s R -> family_refs s R ->
  forall tr a b p, R tr -> wf_value a = true -> wf_value b = true ->
  conforms s tr true a = true -> conforms s tr true b = true -> veqb a b = true ->
  wf_path p = true -> present s tr a p = true -> present s tr b p = true.
Proof.
  intros s R Hok Hfam tr a b p Htr Hwa Hwb Hca Hcb Hv Hp Hpr.
  apply present_resolve in Hpr. destruct Hpr as (n & Hn).
  destruct (veqb_resolve s R Hok Hfam p a b tr n Htr Hwa Hwb Hca Hcb Hv Hp Hn) as (n' & Hn' & _).
  apply present_resolve. exists n'. exact Hn'.
Qed.

(* ================= Apply, unfolded ================= *)

(* What a successful apply computes, under the side conditions of [apply_takes_effect]:
   an object [pruned] that is well formed, valid and agrees with the configuration; the
   records are those [update_core] computes from (live, pruned) and the old records with
   the applier's replaced by the field set of the configuration; the answer is [pruned], or
   "no change" when [pruned] equals the live object. *)
Lemma apply_unfold : forall c R ver live cfg mf mgr force o mf',
  no_ignore c -> conv_id c ->
  schema_ok (schema_of c ver) R -> family_refs (schema_of c ver) R -> R (tr_of c ver) ->
  keys_plain (schema_of c ver) R ->
  fst live = ver -> fst cfg = ver -> single_version ver mf -> mf_ok mf ->
  records_current c ver mf ->
  (forall r, mf_get mgr mf = Some r ->
     applier_record_ok (schema_of c ver) (tr_of c ver) (mr_set r)) ->
  (forall m r, m <> mgr -> mf_get m mf = Some r ->
     owns_live_keys (schema_of c ver) (tr_of c ver) (snd live) (mr_set r)) ->
  wf_value (snd live) = true -> wf_value (snd cfg) = true ->
  conforms (schema_of c ver) (tr_of c ver) true (snd live) = true ->
  conforms (schema_of c ver) (tr_of c ver) false (snd cfg) = true ->
  plain (snd cfg) = true ->
  granular (schema_of c ver) (tr_of c ver) (snd cfg) ->
  apply_op c live cfg ver mf mgr force = UOk (o, mf') ->
  exists set0 px n1 cmp n2,
    to_field_set (schema_of c ver) (tr_of c ver) (snd cfg) = Some set0 /\
    ps_ok set0 = true /\
    wf_value px = true /\ conforms (schema_of c ver) (tr_of c ver) true px = true /\
    AgrP (schema_of c ver) (tr_of c ver) (snd cfg) px /\
    update_core c n1 live (ver, px) ver (mf_set mgr (mkRec set0 ver true) mf) mgr force
      = UOk (mf', cmp, n2) /\
    ((o = None /\ veqb (snd live) px = true) \/ o = Some (ver, px)).
Proof.
  intros c R ver [lv lx] [cv cx] mf mgr force o mf' Hni Hcid Hok Hfam Htr [Hnd Hks]
    Hlv Hcv Hsv Hmf Hcur Hmine Hothers Hwl Hwc Hcl Hcc Hpl Hroot Happly.
  cbn [fst snd] in *. subst lv cv.
  set (s := schema_of c ver) in *. set (tr := tr_of c ver) in *.
  unfold apply_op in Happly. cbn [fst snd] in Happly.
  (* reconciliation returns the records unchanged *)
  destruct (reconcile_managed c 0 (ver, lx) mf) as [[mf0 n0]|e] eqn:Erec; [|discriminate].
  assert (Hmf0 : mf0 = mf).
  { rewrite reconcile_managed_unfold in Erec.
    apply (fold_rstep_id c (ver, lx) ver mf [] 0 mf0 n0 Hcid) in Erec; [exact Erec| |].
    - intros [m r] Hin. cbn [snd]. unfold single_version in Hsv. rewrite forallb_forall in Hsv.
      apply String.eqb_eq. exact (Hsv (m, r) Hin).
    - intros [m r] s' Hin. cbn [snd]. apply (Hcur m r s').
      apply in_assoc_get; [apply Hmf|exact Hin]. }
  subst mf0.
  fold s tr in Happly.
  destruct (merge s tr lx cx) as [[M|]|] eqn:Em; try discriminate.
  unfold to_fs in Happly. cbn [fst snd] in Happly. fold s tr in Happly.
  destruct (to_field_set s tr cx) as [set0|] eqn:Eset0; [|discriminate].
  rewrite (no_ignore_filter c ver Hni) in Happly. cbn [filter_set] in Happly.
  set (mfp := mf_set mgr {| mr_set := set0; mr_ver := ver; mr_applied := true |} mf) in *.
  destruct (prune c n0 (ver, M) mfp mgr (mf_get mgr mf)) as [[pruned n1]|e] eqn:Eprune; [|discriminate].
  destruct (update_core c n1 (ver, lx) pruned ver mfp mgr force) as [[[mf2 cmp] n2]|e] eqn:Eupd; [|discriminate].
  (* the merged object *)
  destruct (merge_conforms s R tr lx cx M Hok Hfam Htr Hwl Hwc Hcl Hcc Em) as [HcM HwM].
  pose proof (merge_inv s tr lx cx M Em) as Hmw.
  assert (Hagr : AgrP s tr cx M).
  { apply (right_wins_w s R Hok Hfam (merge_fuel lx cx) tr (Some lx) cx M); auto.
    - unfold merge_fuel. simpl. lia.
    - split; assumption. }
  assert (Hlf : LeafP s tr (Some lx) (Some cx) M).
  { apply (leaves_w s R Hok Hfam (merge_fuel lx cx) tr (Some lx) (Some cx) M); auto.
    - unfold merge_fuel. simpl. lia.
    - split; assumption.
    - split; assumption.
    - left. discriminate. }
  (* the managers' sets *)
  assert (Hset0ok : ps_ok set0 = true) by (apply (to_field_set_ok s R tr cx set0 Hok Htr Hwc Eset0)).
  assert (Hmfp : mf_ok mfp) by (apply mf_set_ok; assumption).
  assert (Hsvp : single_version ver mfp) by (apply mf_set_single; [assumption|reflexivity]).
  assert (Hverp : forall mr, In mr mfp -> mr_ver (snd mr) = ver).
  { intros mr Hin. unfold single_version in Hsvp. rewrite forallb_forall in Hsvp.
    apply String.eqb_eq. exact (Hsvp mr Hin). }
  assert (Hokp : forall mr, In mr mfp -> ps_ok (mr_set (snd mr)) = true).
  { intros mr Hin. destruct Hmfp as [_ Hall]. rewrite forallb_forall in Hall. exact (Hall mr Hin). }
  assert (Hnew : In (mgr, {| mr_set := set0; mr_ver := ver; mr_applied := true |}) mfp).
  { apply assoc_get_in. apply mf_get_set_same. }
  assert (Hne : mfp <> []) by (intros E; rewrite E in Hnew; destruct Hnew).
  set (U := union_all mfp ps_empty_set).
  destruct (union_all_spec mfp ps_empty_set ps_ok_empty Hokp) as [HU HhasU]. fold U in HU, HhasU.
  assert (HhasU' : forall q, wf_path q = true ->
            ps_has q U = existsb (fun mr : string * mrec => ps_has q (mr_set (snd mr))) mfp).
  { intros q Hq. rewrite (HhasU q Hq), ps_has_empty_set. reflexivity. }
  assert (HUcfg : forall q, wf_path q = true -> ps_has q set0 = true -> ps_has q U = true).
  { intros q Hq Hq0. rewrite (HhasU' q Hq). apply existsb_exists.
    exists (mgr, {| mr_set := set0; mr_ver := ver; mr_applied := true |}). split; [exact Hnew|exact Hq0]. }
  assert (HUown : forall q, wf_path q = true -> ps_has q U = true ->
            ps_has q set0 = true \/
            exists S, ps_ok S = true /\ owns_live_keys s tr lx S /\ ps_has q S = true /\
                      forall q', wf_path q' = true -> ps_has q' S = true -> ps_has q' U = true).
  { intros q Hq HqU. rewrite (HhasU' q Hq) in HqU. apply existsb_exists in HqU.
    destruct HqU as ([m r] & Hin & Hqr). cbn [snd] in Hqr.
    pose proof (in_assoc_get mfp m r (proj1 Hmfp) Hin) as Hget.
    destruct (String.eqb_spec m mgr) as [->|Hmm].
    - unfold mfp in Hget. change (assoc_get mgr (mf_set mgr ?x mf)) with (mf_get mgr (mf_set mgr x mf)) in Hget.
      rewrite mf_get_set_same in Hget. inversion Hget; subst r. left. exact Hqr.
    - right. exists (mr_set r).
      assert (Hget' : mf_get m mf = Some r).
      { rewrite <- (mf_get_set_other m mgr {| mr_set := set0; mr_ver := ver; mr_applied := true |} mf Hmm).
        exact Hget. }
      split; [apply (Hokp (m, r) Hin)|]. split; [apply (Hothers m r Hmm Hget')|].
      split; [exact Hqr|]. intros q' Hq' Hq'r. rewrite (HhasU' q' Hq'). apply existsb_exists.
      exists (m, r). split; [exact Hin|exact Hq'r]. }
  (* the prune stage *)
  destruct (prune_agrees s R tr Hok Hfam Htr Hnd Hks lx cx M Hwc Hcc Hpl Hroot HwM HcM Hagr Hlf
              set0 U Eset0 HU HUcfg HUown c ver Hcid eq_refl eq_refl n0 mfp mgr (mf_get mgr mf) pruned n1)
    as (Hpv & HagrP & HwP & HcP); auto.
  { apply mav_single; assumption. }
  { intros r Hr. apply (Hverp (mgr, r)). apply assoc_get_in. exact Hr. }
  { intros last Hlast. split; [|split].
    - apply String.eqb_eq. apply (single_version_get ver mf mgr last Hsv Hlast).
    - apply (mf_ok_get mf mgr last Hmf Hlast).
    - apply (Hmine last Hlast). }
  destruct pruned as [pv px]. cbn [fst snd] in *. subst pv.
  exists set0, px, n1, cmp, n2.
  split; [reflexivity|]. split; [exact Hset0ok|]. split; [exact HwP|]. split; [exact HcP|].
  split; [exact HagrP|].
  destruct (negb (cfg_return_input_on_noop c) && veqb lx px) eqn:Enoop;
    inversion Happly; subst o mf'.
  - split; [exact Eupd|]. left. split; [reflexivity|].
    apply andb_true_iff in Enoop. apply Enoop.
  - split; [exact Eupd|]. right. reflexivity.
Qed.

(* ================= the theorem ================= *)

Theorem apply_preserves_owned_present : forall c R ver live cfg mf mgr force o mf',
  no_ignore c -> conv_id c ->
  schema_ok (schema_of c ver) R -> family_refs (schema_of c ver) R -> lists_pure (schema_of c ver) R ->
  R (tr_of c ver) ->
  keys_plain (schema_of c ver) R ->
  fst live = ver -> fst cfg = ver -> single_version ver mf -> mf_ok mf ->
  records_current c ver mf ->
  (forall r, mf_get mgr mf = Some r ->
     applier_record_ok (schema_of c ver) (tr_of c ver) (mr_set r)) ->
  (forall m r, m <> mgr -> mf_get m mf = Some r ->
     owns_live_keys (schema_of c ver) (tr_of c ver) (snd live) (mr_set r)) ->
  wf_value (snd live) = true -> wf_value (snd cfg) = true ->
  conforms (schema_of c ver) (tr_of c ver) true (snd live) = true ->
  conforms (schema_of c ver) (tr_of c ver) false (snd cfg) = true ->
  plain (snd cfg) = true ->
  granular (schema_of c ver) (tr_of c ver) (snd cfg) ->
  owned_present (schema_of c ver) (tr_of c ver) (snd live) mf ->
  apply_op c live cfg ver mf mgr force = UOk (o, mf') ->
  let res := match o with Some t => snd t | None => snd live end in
  wf_value res = true /\
  conforms (schema_of c ver) (tr_of c ver) true res = true /\
  owned_present (schema_of c ver) (tr_of c ver) res mf' /\
  mf_ok mf' /\ single_version ver mf' /\
  (forall m r, mf_get m mf' = Some r -> ps_empty (mr_set r) = false).
Proof.
  intros c R ver live cfg mf mgr force o mf' Hni Hcid Hok Hfam Hpure Htr Hkp
    Hlv Hcv Hsv Hmf Hcur Hmine Hothers Hwl Hwc Hcl Hcc Hpl Hroot Hown Happly.
  destruct (apply_unfold c R ver live cfg mf mgr force o mf' Hni Hcid Hok Hfam Htr Hkp
              Hlv Hcv Hsv Hmf Hcur Hmine Hothers Hwl Hwc Hcl Hcc Hpl Hroot Happly)
    as (set0 & px & n1 & cmp & n2 & Eset0 & Hset0ok & HwP & HcP & HagrP & Hupd & Hres).
  set (s := schema_of c ver) in *. set (tr := tr_of c ver) in *.
  set (mfp := mf_set mgr {| mr_set := set0; mr_ver := ver; mr_applied := true |} mf) in *.
  assert (Hmfp : mf_ok mfp) by (apply mf_set_ok; assumption).
  assert (Hsvp : single_version ver mfp) by (apply mf_set_single; [assumption|reflexivity]).
  (* the comparison of the live and the pruned object *)
  assert (Hcok : forall cmp0, compare_tv c live (ver, px) = Some cmp0 -> cmp_ok cmp0).
  { intros cmp0 Hc0. unfold compare_tv in Hc0. rewrite Hlv in Hc0. cbn [snd] in Hc0.
    exact (CompareLaws.compare_sets_ok _ R _ _ _ _ Hok Htr Hwl HwP Hc0). }
  destruct (update_core_records c n1 live (ver, px) ver mfp mgr force mf' cmp n2 Hni Hsvp Hmfp Hcok Hupd)
    as (Hcmp & _ & Hok1 & Hsv1 & Hne1 & Hw & Hoth).
  assert (Hkey : forall p, wf_path p = true -> p <> [] ->
    present s tr (snd live) p = true -> ps_has p (removed cmp) = false -> present s tr px p = true).
  { intros p Hp Hne. unfold compare_tv in Hcmp. rewrite Hlv in Hcmp. cbn [snd] in Hcmp.
    apply (UpdateInv.compare_present s R tr (snd live) px cmp Hok Hfam Hpure Htr Hwl HwP Hcl HcP Hcmp p Hp Hne). }
  (* every new record designates nodes of the pruned object *)
  assert (HownP : owned_present s tr px mf').
  { intros m r p Hg Hp Hh.
    destruct (String.eqb_spec m mgr) as [->|Hm].
    - (* the applier: the field set of the configuration *)
      rewrite Hw in Hg. unfold mfp in Hg. rewrite mf_get_set_same in Hg. cbn [mr_set] in Hg.
      destruct (ps_empty set0); [discriminate|]. inversion Hg; subst r. cbn [mr_set] in Hh.
      apply (AgrP_present s tr (snd cfg) px p HagrP Hp).
      apply (field_set_paths_resolve s R tr (snd cfg) set0 p Hok Htr Hfam Hwc
               (MergeBase.conforms_dup_mono s (snd cfg) tr Hcc) Eset0 Hp Hh).
    - (* another manager: what it keeps was present and is not reported removed *)
      assert (Np : p <> []) by (intros ->; discriminate Hh).
      pose proof (Hoth m Hm) as Ho. unfold mfp in Ho. rewrite (mf_get_set_other m mgr _ mf Hm) in Ho.
      destruct (mf_get m mf) as [r0|] eqn:E0; [|congruence].
      rewrite Hg in Ho. destruct Ho as (_ & _ & Hk). rewrite (Hk p Hp Np) in Hh.
      unfold keeps in Hh. apply andb_true_iff in Hh. destruct Hh as [Hh H3].
      apply andb_true_iff in Hh. destruct Hh as [H1 _]. apply negb_true_iff in H3.
      apply (Hkey p Hp Np); [apply (Hown m r0 p E0 Hp H1)|exact H3]. }
  destruct Hres as [[-> Hv]| ->]; cbn [snd].
  - (* "no change": the answer is the live object, which equals the pruned one *)
    split; [exact Hwl|]. split; [exact Hcl|]. split; [|auto].
    intros m r p Hg Hp Hh.
    apply (veqb_present s R Hok Hfam tr px (snd live) p Htr HwP Hwl HcP Hcl); auto.
    + rewrite (veqb_sym px (snd live) HwP Hwl). exact Hv.
    + apply (HownP m r p Hg Hp Hh).
  - split; [exact HwP|]. split; [exact HcP|]. split; [exact HownP|auto].
Qed.

(* ================= non-vacuity ================= *)

(* the example schema and the family FieldSetLaws.ex_R (the one for which [ex_keys_plain] is
   proved) satisfy [lists_pure]: same members as CompareLaws.ex_R *)
Lemma ex_lists_pure_fs : lists_pure ex_schema FieldSetLaws.ex_R.
Proof.
  intros t sc lt ma HR. apply (RefDiffLaws.ex_lists_pure t sc lt ma).
  unfold FieldSetLaws.ex_R in HR. unfold CompareLaws.ex_R. simpl in *. tauto.
Qed.

(* A state of a history over the example schema with two managers.  "a" applied earlier a
   configuration with aa, the list member x and mm.j; "b" owns the member y and mm.k.
   Now "a" applies (with force) a configuration that changes aa, abandons x and mm.j, adds
   the member z, and sets mm.k to another value (a conflict with "b", overridden):
   the prune stage removes x and mm.j, "b" loses mm.k, and every path of the two new
   records designates a node of the result -- by the theorem, not by evaluation. *)
Section Example.
  Open Scope string_scope.
  Let F := PEField.
  Let kx := PEKey [("name", VStr "x")].
  Let ky := PEKey [("name", VStr "y")].
  Let kz := PEKey [("name", VStr "z")].

  Definition ai_live : value :=
    VMap [("aa", VInt 1);
          ("items", VList [VMap [("name", VStr "x"); ("vv", VInt 1)];
                           VMap [("name", VStr "y"); ("vv", VInt 2)]]);
          ("mm", VMap [("j", VInt 6); ("k", VInt 5)])].
  Definition ai_set_a : pset :=
    ps_of_paths [[F "aa"]; [F "items"; kx]; [F "items"; kx; F "name"]; [F "items"; kx; F "vv"];
                 [F "mm"; F "j"]].
  Definition ai_set_b : pset :=
    ps_of_paths [[F "items"; ky]; [F "items"; ky; F "name"]; [F "items"; ky; F "vv"]; [F "mm"; F "k"]].
  Definition ai_mf : managed :=
    [("a", mkRec ai_set_a "v1" true); ("b", mkRec ai_set_b "v1" false)].
  Definition ai_cfg : value :=
    VMap [("aa", VInt 2); ("items", VList [VMap [("name", VStr "z")]]); ("mm", VMap [("k", VInt 7)])].
  Definition ai_result : value :=
    VMap [("aa", VInt 2);
          ("items", VList [VMap [("name", VStr "y"); ("vv", VInt 2)]; VMap [("name", VStr "z")]]);
          ("mm", VMap [("k", VInt 7)])].
  Definition ai_mf' : managed :=
    [("a", mkRec (ps_of_paths [[F "aa"]; [F "items"; kz]; [F "items"; kz; F "name"]; [F "mm"; F "k"]]) "v1" true);
     ("b", mkRec (ps_of_paths [[F "items"; ky]; [F "items"; ky; F "name"]; [F "items"; ky; F "vv"]]) "v1" false)].

  Example ai_apply_computed :
    apply_op ex_config ("v1", ai_live) ("v1", ai_cfg) "v1" ai_mf "a" true
      = UOk (Some ("v1", ai_result), ai_mf').
  Proof. vm_compute. reflexivity. Qed.

  (* without force the same apply is refused: mm.k belongs to "b" *)
  Example ai_apply_conflict :
    apply_op ex_config ("v1", ai_live) ("v1", ai_cfg) "v1" ai_mf "a" false
      = UErr (EConflict [("b", [F "mm"; F "k"])]).
  Proof. vm_compute. reflexivity. Qed.

  Example apply_preserves_owned_present_example :
    wf_value ai_result = true /\
    conforms ex_schema ex_rt true ai_result = true /\
    owned_present ex_schema ex_rt ai_result ai_mf' /\
    mf_ok ai_mf' /\ single_version "v1" ai_mf' /\
    (forall m r, mf_get m ai_mf' = Some r -> ps_empty (mr_set r) = false).
  Proof.
    refine (apply_preserves_owned_present ex_config FieldSetLaws.ex_R "v1" ("v1", ai_live) ("v1", ai_cfg)
              ai_mf "a" true (Some ("v1", ai_result)) ai_mf' ex_config_no_ignore _
              FieldSetLaws.ex_schema_ok FieldSetLaws.ex_family ex_lists_pure_fs
              FieldSetLaws.ex_R_root ex_keys_plain eq_refl eq_refl _ _ _ _ _ _ _ _ _ _ _ _ ai_apply_computed).
    - intros n from to v. reflexivity.
    - vm_compute. reflexivity.
    - split; vm_compute; reflexivity.
    - intros m r s' Hget. apply assoc_get_in in Hget. simpl in Hget.
      destruct Hget as [H|[H|[]]]; inversion H; subst m r; vm_compute; discriminate.
    - intros r Hget. vm_compute in Hget. inversion Hget; subst r. cbn [mr_set]. split.
      + apply keys_closed_b_sound; vm_compute; reflexivity.
      + apply (no_atomic_free ex_schema FieldSetLaws.ex_R FieldSetLaws.ex_schema_ok).
        * unfold FieldSetLaws.ex_R. simpl. tauto.
        * exact ex_no_atomic.
        * exact FieldSetLaws.ex_R_root.
    - intros m r Hm Hget. apply assoc_get_in in Hget. simpl in Hget.
      destruct Hget as [H|[H|[]]]; inversion H; subst m r; [congruence|]. cbn [mr_set snd].
      unfold owns_live_keys. intros pre fl k.
      apply (owns_live_keys_b_sound ex_schema FieldSetLaws.ex_R FieldSetLaws.ex_schema_ok
               ex_rt ai_live ai_set_b FieldSetLaws.ex_R_root); vm_compute; reflexivity.
    - vm_compute. reflexivity.
    - vm_compute. reflexivity.
    - vm_compute. reflexivity.
    - vm_compute. reflexivity.
    - vm_compute. reflexivity.
    - vm_compute. exact I.
    - apply (UpdateInv.owned_present_check ex_schema FieldSetLaws.ex_R ex_rt ai_live ai_mf
               FieldSetLaws.ex_schema_ok FieldSetLaws.ex_R_root).
      + vm_compute. reflexivity.
      + split; vm_compute; reflexivity.
      + vm_compute. reflexivity.
  Qed.

  (* the example is not degenerate: the apply really pruned the member x and the field mm.j,
     both owned by "a" and present before; "b" owned mm.k, still present but with the value
     of the configuration, and no longer owns it; what "b" keeps is still there *)
  Example ai_example_facts :
    (forall r, mf_get "a" ai_mf = Some r ->
       ps_has [F "items"; kx] (mr_set r) = true /\ ps_has [F "mm"; F "j"] (mr_set r) = true) /\
    present ex_schema ex_rt ai_live [F "items"; kx] = true /\
    present ex_schema ex_rt ai_live [F "mm"; F "j"] = true /\
    present ex_schema ex_rt ai_result [F "items"; kx] = false /\
    present ex_schema ex_rt ai_result [F "mm"; F "j"] = false /\
    (forall r, mf_get "a" ai_mf' = Some r ->
       ps_has [F "items"; kx] (mr_set r) = false /\ ps_has [F "mm"; F "j"] (mr_set r) = false /\
       ps_has [F "items"; kz] (mr_set r) = true /\ ps_has [F "mm"; F "k"] (mr_set r) = true) /\
    (forall r, mf_get "b" ai_mf = Some r -> ps_has [F "mm"; F "k"] (mr_set r) = true) /\
    (forall r, mf_get "b" ai_mf' = Some r ->
       ps_has [F "mm"; F "k"] (mr_set r) = false /\ ps_has [F "items"; ky; F "vv"] (mr_set r) = true) /\
    present ex_schema ex_rt ai_result [F "items"; ky; F "vv"] = true /\
    veqb ai_live ai_result = false.
  Proof.
    repeat split; try (vm_compute; reflexivity);
      intros; match goal with H : mf_get _ _ = Some _ |- _ => vm_compute in H; inversion H; subst end;
      vm_compute; reflexivity.
  Qed.

  (* the "no change" branch of the theorem: "b" re-applies what it owns; Apply answers None,
     the records are unchanged up to the applied flag, and the theorem speaks of the live
     object *)
  Definition ai_cfg_b : value :=
    VMap [("items", VList [VMap [("name", VStr "y"); ("vv", VInt 2)]]); ("mm", VMap [("k", VInt 5)])].
  Definition ai_mf_b : managed :=
    [("a", mkRec ai_set_a "v1" true); ("b", mkRec ai_set_b "v1" true)].

  Example ai_apply_noop :
    apply_op ex_config ("v1", ai_live) ("v1", ai_cfg_b) "v1" ai_mf "b" false = UOk (None, ai_mf_b).
  Proof. vm_compute. reflexivity. Qed.

  Example apply_preserves_owned_present_noop_example :
    wf_value ai_live = true /\
    conforms ex_schema ex_rt true ai_live = true /\
    owned_present ex_schema ex_rt ai_live ai_mf_b /\
    mf_ok ai_mf_b /\ single_version "v1" ai_mf_b /\
    (forall m r, mf_get m ai_mf_b = Some r -> ps_empty (mr_set r) = false).
  Proof.
    refine (apply_preserves_owned_present ex_config FieldSetLaws.ex_R "v1" ("v1", ai_live) ("v1", ai_cfg_b)
              ai_mf "b" false None ai_mf_b ex_config_no_ignore _
              FieldSetLaws.ex_schema_ok FieldSetLaws.ex_family ex_lists_pure_fs
              FieldSetLaws.ex_R_root ex_keys_plain eq_refl eq_refl _ _ _ _ _ _ _ _ _ _ _ _ ai_apply_noop).
    - intros n from to v. reflexivity.
    - vm_compute. reflexivity.
    - split; vm_compute; reflexivity.
    - intros m r s' Hget. apply assoc_get_in in Hget. simpl in Hget.
      destruct Hget as [H|[H|[]]]; inversion H; subst m r; vm_compute; discriminate.
    - intros r Hget. vm_compute in Hget. inversion Hget; subst r. cbn [mr_set]. split.
      + apply keys_closed_b_sound; vm_compute; reflexivity.
      + apply (no_atomic_free ex_schema FieldSetLaws.ex_R FieldSetLaws.ex_schema_ok).
        * unfold FieldSetLaws.ex_R. simpl. tauto.
        * exact ex_no_atomic.
        * exact FieldSetLaws.ex_R_root.
    - intros m r Hm Hget. apply assoc_get_in in Hget. simpl in Hget.
      destruct Hget as [H|[H|[]]]; inversion H; subst m r; [|congruence]. cbn [mr_set snd].
      unfold owns_live_keys. intros pre fl k.
      apply (owns_live_keys_b_sound ex_schema FieldSetLaws.ex_R FieldSetLaws.ex_schema_ok
               ex_rt ai_live ai_set_a FieldSetLaws.ex_R_root); vm_compute; reflexivity.
    - vm_compute. reflexivity.
    - vm_compute. reflexivity.
    - vm_compute. reflexivity.
    - vm_compute. reflexivity.
    - vm_compute. reflexivity.
    - vm_compute. exact I.
    - apply (UpdateInv.owned_present_check ex_schema FieldSetLaws.ex_R ex_rt ai_live ai_mf
               FieldSetLaws.ex_schema_ok FieldSetLaws.ex_R_root).
      + vm_compute. reflexivity.
      + split; vm_compute; reflexivity.
      + vm_compute. reflexivity.
  Qed.
End Example.

