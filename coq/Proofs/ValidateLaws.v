(* C13: the validating walker accepts exactly the conforming values. *)
From Coq Require Import List ZArith String Bool Arith Lia.
From SMD Require Import Model.Value Model.Order Model.PathElem Model.PathSet Model.Schema
  Model.Walk Model.Validate Spec.RefValid Spec.Examples Proofs.OrderLaws Proofs.PathSetLaws
  Proofs.SchemaOk.
Import ListNotations.
(* Spec.Examples opens string_scope; put lists and booleans back on top *)
Open Scope list_scope.
Open Scope bool_scope.

(* ------------------------------------------------------------------ *)
(* top-level mirrors of the inner loops *)
Section Mirrors.
  Variables (s : schema) (dup : bool).

  Section ListLoop.
    Variable t : listT.
    Fixpoint vlist_go (l : list value) (observed : pes) {struct l} : bool :=
      match l with
      | [] => false
      | child :: rest =>
          if negb (rel_is_assoc (list_rel t)) then
            validate s dup (list_elem t) child || vlist_go rest observed
          else
            match list_item_to_pe s t child with
            | None => true
            | Some e =>
                (pes_has e observed && negb dup)
                || validate s dup (list_elem t) child
                || vlist_go rest (pes_insert e observed)
            end
      end.
  End ListLoop.

  Section MapLoop.
    Variable t : mapT.
    Fixpoint vmap_go (m : list (string * value)) {struct m} : bool :=
      match m with
      | [] => false
      | (k, child) :: rest =>
          if has_field t k then
            validate s dup (field_type t k) child || vmap_go rest
          else if is_empty_tr (map_elem t) then true
          else validate s dup (map_elem t) child || vmap_go rest
      end.

    Fixpoint cmap_each (m : list (string * value)) {struct m} : bool :=
      match m with
      | [] => true
      | (k, x) :: rest =>
          (if has_field t k then conforms s (field_type t k) dup x
           else negb (is_empty_tr (map_elem t)) && conforms s (map_elem t) dup x)
          && cmap_each rest
      end.
  End MapLoop.
End Mirrors.

Section KeyedMirror.
  Variables (s : schema) (t : listT) (m : list (string * value)).
  Fixpoint keyed_go (keys : list string) : option fieldlist :=
    match keys with
    | [] => Some []
    | k :: ks =>
        match assoc_get k m with
        | Some v =>
            match keyed_go ks with Some r => Some ((k, v) :: r) | None => None end
        | None =>
            match key_default s t k with
            | Some (Some d) =>
                match keyed_go ks with Some r => Some ((k, d) :: r) | None => None end
            | _ => None
            end
        end
    end.
End KeyedMirror.

Lemma keyed_item_to_pe_eq : forall s t m,
  keyed_item_to_pe s t (VMap m) =
  match keyed_go s t m (list_keys t) with
  | Some fl => Some (PEKey (fl_sort fl))
  | None => None
  end.
Proof. reflexivity. Qed.

Definition has_pe (s : schema) (t : listT) (x : value) : bool :=
  match list_item_to_pe s t x with Some _ => true | None => false end.
Definition pes_of (s : schema) (t : listT) (l : list value) : list pe :=
  flat_map (fun x => match list_item_to_pe s t x with Some e => [e] | None => [] end) l.

Lemma validate_eq : forall s dup tr v,
  validate s dup tr v =
  match resolve s tr with
  | None => true
  | Some a =>
      match handle_atom (deduce_atom a (Some v)) with
      | HInvalid => true
      | HScalar t => validate_scalar t (Some v)
      | HList t =>
          match v with
          | VNull => false
          | VList l => vlist_go s dup t l []
          | _ => true
          end
      | HMap t =>
          match v with
          | VNull => false
          | VMap m => vmap_go s dup t m
          | _ => true
          end
      end
  end.
Proof. intros s dup tr v. destruct v; reflexivity. Qed.

Lemma conforms_eq : forall s tr dup v,
  conforms s tr dup v =
  match resolve s tr with
  | None => false
  | Some (Atom sc li ma as a) =>
      match v with
      | VNull => atom_nonempty a
      | VList l =>
          match li with
          | None => false
          | Some t =>
              match list_rel t with
              | RAssociative =>
                  forallb (has_pe s t) l
                  && forallb (fun x => conforms s (list_elem t) dup x) l
                  && (dup || all_distinct (pes_of s t l))
              | _ => forallb (fun x => conforms s (list_elem t) dup x) l
              end
          end
      | VMap m =>
          match ma with
          | None => false
          | Some t => cmap_each s dup t m
          end
      | _ =>
          match sc with
          | Some t => scalar_ok t v
          | None => false
          end
      end
  end.
Proof. intros s tr dup v. destruct v; reflexivity. Qed.

(* ------------------------------------------------------------------ *)
(* well-formedness of list-item path elements *)
Lemma fl_insert_wf : forall x l, wf_fl (fl_insert x l) = wf_value (snd x) && wf_fl l.
Proof.
  intros x l. unfold wf_fl. induction l as [|y l IH]; simpl.
  - reflexivity.
  - destruct (str_ltb (fst y) (fst x)); simpl.
    + rewrite IH. destruct (wf_value (snd y)), (wf_value (snd x)); reflexivity.
    + reflexivity.
Qed.

Lemma fl_sort_wf : forall l, wf_fl l = true -> wf_fl (fl_sort l) = true.
Proof.
  induction l as [|x l IH]; intros Hl.
  - reflexivity.
  - unfold wf_fl in Hl. simpl in Hl. apply andb_true_iff in Hl. destruct Hl as [Hx Hl].
    change (fl_sort (x :: l)) with (fl_insert x (fl_sort l)).
    rewrite fl_insert_wf, Hx. simpl. apply IH. exact Hl.
Qed.

Lemma assoc_get_wf : forall k (m : list (string * value)) v,
  forallb (fun kv => wf_value (snd kv)) m = true -> assoc_get k m = Some v -> wf_value v = true.
Proof.
  intros k m v. induction m as [|[k' v'] m IH]; simpl; intros Hm Hg.
  - discriminate.
  - apply andb_true_iff in Hm. destruct Hm as [Hv' Hm].
    destruct (String.eqb k k').
    + inversion Hg; subst. exact Hv'.
    + apply IH; assumption.
Qed.

Lemma find_field_default_wf : forall fs k f d,
  wf_defaults_fields fs = true -> find_field fs k = Some f -> sf_default f = Some d ->
  wf_value d = true.
Proof.
  intros fs k f d. induction fs as [|[n ty dflt] fs IH]; simpl; intros Hfs Hf Hd.
  - discriminate.
  - apply andb_true_iff in Hfs. destruct Hfs as [Hd0 Hfs].
    destruct (find_field fs k) as [r|] eqn:Er.
    + apply IH; assumption.
    + destruct (String.eqb k n); [|discriminate].
      inversion Hf; subst. simpl in Hd. subst. exact Hd0.
Qed.

Lemma key_default_wf : forall s R t k d, schema_ok s R -> R (list_elem t) ->
  key_default s t k = Some (Some d) -> wf_value d = true.
Proof.
  intros s R t k d Hs Hel. unfold key_default.
  destruct (resolve s (list_elem t)) as [a|] eqn:Er; [|discriminate].
  apply (so_defaults s R Hs _ _ Hel) in Er. destruct a as [sc li [mt|]]; [|discriminate].
  destruct mt as [fs me mr]. simpl in Er. simpl.
  destruct (find_field fs k) as [f|] eqn:Ef; [|discriminate].
  intros Hd. inversion Hd as [Hd']. eapply find_field_default_wf; eassumption.
Qed.

Lemma keyed_go_wf : forall s R t m, schema_ok s R -> R (list_elem t) ->
  forallb (fun kv => wf_value (snd kv)) m = true ->
  forall keys fl, keyed_go s t m keys = Some fl -> wf_fl fl = true.
Proof.
  intros s R t m Hs Hel Hm keys. induction keys as [|k ks IH]; simpl; intros fl Hgo.
  - inversion Hgo; subst. reflexivity.
  - destruct (assoc_get k m) as [v|] eqn:Eg.
    + destruct (keyed_go s t m ks) as [r|]; [|discriminate].
      inversion Hgo; subst. unfold wf_fl. simpl.
      rewrite (assoc_get_wf _ _ _ Hm Eg). simpl. apply (IH r). reflexivity.
    + destruct (key_default s t k) as [[d|]|] eqn:Ed; try discriminate.
      destruct (keyed_go s t m ks) as [r|]; [|discriminate].
      inversion Hgo; subst. unfold wf_fl. simpl.
      rewrite (key_default_wf _ _ _ _ _ Hs Hel Ed). simpl. apply (IH r). reflexivity.
Qed.

Lemma list_item_to_pe_wf_el : forall s R t child e, schema_ok s R -> R (list_elem t) ->
  wf_value child = true -> list_item_to_pe s t child = Some e -> wf_pe e = true.
Proof.
  intros s R t child e Hs Hel Hc. unfold list_item_to_pe.
  destruct (negb (rel_is_assoc (list_rel t))); [discriminate|].
  destruct (list_keys t) as [|k0 ks0] eqn:Ek.
  - destruct child; simpl; intros He; try discriminate; inversion He; subst; reflexivity.
  - destruct child as [| | | | |l|m]; try (simpl; discriminate).
    rewrite keyed_item_to_pe_eq.
    destruct (keyed_go s t m (list_keys t)) as [fl|] eqn:Eg; [|discriminate].
    intros He. inversion He; subst. simpl.
    apply fl_sort_wf. simpl in Hc. apply andb_true_iff in Hc. destruct Hc as [_ Hc].
    eapply keyed_go_wf; eassumption.
Qed.

(* listItemToPathElement with its error ignored: the zero element is an index *)
Lemma pe_zero_wf : wf_pe pe_zero = true.
Proof. reflexivity. Qed.

Lemma list_item_pe_or_zero_some : forall s t child e, list_item_to_pe s t child = Some e ->
  list_item_pe_or_zero s t child = e.
Proof. intros s t child e H. unfold list_item_pe_or_zero. rewrite H. reflexivity. Qed.

Lemma list_item_pe_or_zero_none : forall s t child, list_item_to_pe s t child = None ->
  list_item_pe_or_zero s t child = pe_zero.
Proof. intros s t child H. unfold list_item_pe_or_zero. rewrite H. reflexivity. Qed.

Lemma list_item_pe_or_zero_wf_el : forall s R t child, schema_ok s R -> R (list_elem t) ->
  wf_value child = true -> wf_pe (list_item_pe_or_zero s t child) = true.
Proof.
  intros s R t child Hs Hel Hc. unfold list_item_pe_or_zero.
  destruct (list_item_to_pe s t child) as [e|] eqn:He; [|exact pe_zero_wf].
  eapply list_item_to_pe_wf_el; eassumption.
Qed.

(* the list type handed to the walker is the list member of the atom resolved from tr *)
Lemma list_item_to_pe_wf : forall s R tr a t child e, schema_ok s R -> R tr ->
  resolve s tr = Some a -> atom_list a = Some t -> wf_value child = true ->
  list_item_to_pe s t child = Some e -> wf_pe e = true.
Proof.
  intros s R tr a t child e Hs Htr Hr Ha Hc He.
  eapply list_item_to_pe_wf_el; try eassumption.
  eapply so_list; eassumption.
Qed.

(* ------------------------------------------------------------------ *)
(* the loops *)
Definition vP (s : schema) (R : typeref -> Prop) (dup : bool) (x : value) : Prop :=
  forall tr, R tr -> wf_value x = true -> validate s dup tr x = negb (conforms s tr dup x).

Lemma existsb_ext_in : forall (A : Type) (f g : A -> bool) (l : list A),
  (forall x, In x l -> f x = g x) -> existsb f l = existsb g l.
Proof.
  intros A f g l. induction l as [|a l IH]; simpl; intros H.
  - reflexivity.
  - rewrite (H a (or_introl eq_refl)). rewrite IH; [reflexivity|].
    intros x Hx. apply H. right. exact Hx.
Qed.

Lemma existsb_orb : forall (A : Type) (f g : A -> bool) (l : list A),
  existsb (fun x => f x || g x) l = existsb f l || existsb g l.
Proof.
  intros A f g l. induction l as [|a l IH]; simpl.
  - reflexivity.
  - rewrite IH. destruct (f a), (g a), (existsb f l), (existsb g l); reflexivity.
Qed.

Lemma pes_of_wf : forall s R t l, schema_ok s R -> R (list_elem t) ->
  forallb wf_value l = true ->
  forall e, In e (pes_of s t l) -> wf_pe e = true.
Proof.
  intros s R t l Hs Hel. induction l as [|x l IH]; simpl; intros Hl e He.
  - contradiction.
  - apply andb_true_iff in Hl. destruct Hl as [Hx Hl].
    apply in_app_or in He. destruct He as [He|He].
    + destruct (list_item_to_pe s t x) as [e0|] eqn:Ee; simpl in He; [|contradiction].
      destruct He as [He|[]]. subst e0. eapply list_item_to_pe_wf_el; eassumption.
    + apply IH; assumption.
Qed.

Lemma vlist_go_nonassoc : forall s (R : typeref -> Prop) dup t, R (list_elem t) ->
  rel_is_assoc (list_rel t) = false ->
  forall l, forallb wf_value l = true -> Forall (vP s R dup) l ->
  forall obs, vlist_go s dup t l obs = negb (forallb (fun x => conforms s (list_elem t) dup x) l).
Proof.
  intros s R dup t Hel Hrel l. induction l as [|x rest IHl]; intros Hwf HP obs.
  - reflexivity.
  - simpl in Hwf. apply andb_true_iff in Hwf. destruct Hwf as [Hwx Hwrest].
    inversion HP as [|x' rest' HPx HPrest]; subst.
    simpl. rewrite Hrel. simpl.
    rewrite (HPx (list_elem t) Hel Hwx). rewrite (IHl Hwrest HPrest obs).
    rewrite negb_andb. reflexivity.
Qed.

Lemma vlist_go_assoc : forall s R dup t, schema_ok s R -> R (list_elem t) ->
  rel_is_assoc (list_rel t) = true ->
  forall l, forallb wf_value l = true -> Forall (vP s R dup) l ->
  forall obs, sorted_pes obs = true -> wf_pes obs = true ->
  vlist_go s dup t l obs =
  negb (forallb (has_pe s t) l
        && forallb (fun x => conforms s (list_elem t) dup x) l
        && (dup || (all_distinct (pes_of s t l)
                    && negb (existsb (fun e => pes_mem e obs) (pes_of s t l))))).
Proof.
  intros s R dup t Hs Hel Hrel l. induction l as [|x rest IHl]; intros Hwf HP obs Hsorted Hwfo.
  - simpl. destruct dup; reflexivity.
  - simpl in Hwf. apply andb_true_iff in Hwf. destruct Hwf as [Hwx Hwrest].
    inversion HP as [|x' rest' HPx HPrest]; subst.
    assert (Hwfrest : forall e', In e' (pes_of s t rest) -> wf_pe e' = true)
      by (eapply pes_of_wf; eassumption).
    simpl vlist_go. rewrite Hrel. simpl negb at 1. cbv iota.
    simpl forallb. unfold has_pe at 1. unfold pes_of at 1 2. simpl flat_map.
    fold (pes_of s t rest).
    destruct (list_item_to_pe s t x) as [e|] eqn:Ee.
    + assert (Hwe : wf_pe e = true) by (eapply list_item_to_pe_wf_el; eassumption).
      destruct (pes_insert_sorted e obs Hsorted Hwfo Hwe) as [Hsorted' Hwfo'].
      rewrite (IHl Hwrest HPrest (pes_insert e obs) Hsorted' Hwfo').
      rewrite (HPx (list_elem t) Hel Hwx).
      rewrite (pes_has_spec e obs Hsorted Hwfo Hwe).
      rewrite (existsb_ext_in _ (fun e' => pes_mem e' (pes_insert e obs))
                 (fun e' => peeqb e e' || pes_mem e' obs) (pes_of s t rest)).
      2:{ intros e' He'. rewrite (pes_insert_mem e e' obs Hsorted Hwfo Hwe (Hwfrest e' He')).
          rewrite (peeqb_sym e' e (Hwfrest e' He') Hwe). reflexivity. }
      rewrite existsb_orb.
      change ([e] ++ pes_of s t rest) with (e :: pes_of s t rest).
      simpl all_distinct. simpl existsb.
      destruct (pes_mem e obs), (conforms s (list_elem t) dup x),
        (forallb (has_pe s t) rest),
        (forallb (fun x0 => conforms s (list_elem t) dup x0) rest),
        (all_distinct (pes_of s t rest)),
        (existsb (peeqb e) (pes_of s t rest)),
        (existsb (fun e0 => pes_mem e0 obs) (pes_of s t rest)), dup; reflexivity.
    + reflexivity.
Qed.

Lemma vmap_go_spec : forall s (R : typeref -> Prop) dup t m, (forall k, R (field_type t k)) ->
  forallb (fun kv => wf_value (snd kv)) m = true ->
  Forall (fun kv => vP s R dup (snd kv)) m ->
  vmap_go s dup t m = negb (cmap_each s dup t m).
Proof.
  intros s R dup t m Hft. induction m as [|[k x] rest IHm]; intros Hwf HP.
  - reflexivity.
  - simpl in Hwf. apply andb_true_iff in Hwf. destruct Hwf as [Hwx Hwrest].
    inversion HP as [|kv' rest' HPx HPrest]; subst. simpl in HPx.
    simpl. rewrite (IHm Hwrest HPrest).
    destruct (has_field t k) eqn:Ehf.
    + rewrite (HPx _ (Hft k) Hwx). rewrite negb_andb. reflexivity.
    + assert (Hme : R (map_elem t)).
      { generalize (Hft k). unfold field_type. unfold has_field in Ehf.
        destruct (find_field (map_fields t) k); [discriminate|]. auto. }
      destruct (is_empty_tr (map_elem t)); simpl.
      * reflexivity.
      * rewrite (HPx _ Hme Hwx). rewrite negb_andb. reflexivity.
Qed.

Lemma existsb_false : forall (A : Type) (l : list A), existsb (fun _ => false) l = false.
Proof. intros A l. induction l as [|a l IH]; simpl; auto. Qed.

Theorem validate_exact : forall s R dup tr v, schema_ok s R -> R tr -> wf_value v = true ->
  validate s dup tr v = negb (conforms s tr dup v).
Proof.
  intros s R dup tr v Hs. revert tr. change (vP s R dup v).
  induction v as [|b|z|q|str|l IHl|m IHm] using value_ind'; intros tr Htr Hwf;
    rewrite validate_eq, conforms_eq;
    (destruct (resolve s tr) as [[sc li ma]|] eqn:Er; [|reflexivity]).
  - (* null *)
    destruct sc, li, ma; reflexivity.
  - destruct sc as [[]|], li, ma; reflexivity.
  - destruct sc as [[]|], li, ma; reflexivity.
  - destruct sc as [[]|], li, ma; reflexivity.
  - destruct sc as [[]|], li, ma; reflexivity.
  - (* list *)
    destruct li as [t|].
    + assert (Hel : R (list_elem t)) by (eapply (so_list s R Hs); [exact Htr|exact Er|reflexivity]).
      simpl deduce_atom. simpl handle_atom. simpl in Hwf.
      destruct (list_rel t) eqn:Erel;
        try (apply (vlist_go_nonassoc s R); [exact Hel|rewrite Erel; reflexivity|assumption|assumption]).
      rewrite (vlist_go_assoc s R dup t Hs Hel) by (try rewrite Erel; auto).
      simpl pes_mem. rewrite existsb_false. simpl. rewrite andb_true_r. reflexivity.
    + destruct sc as [[]|], ma; reflexivity.
  - (* map *)
    destruct ma as [t|].
    + assert (Hft : forall k, R (field_type t k))
        by (intros k; eapply (so_map s R Hs); [exact Htr|exact Er|reflexivity]).
      simpl deduce_atom. simpl handle_atom. simpl in Hwf.
      apply andb_true_iff in Hwf. destruct Hwf as [_ Hwf].
      apply (vmap_go_spec s R); assumption.
    + destruct sc as [[]|], li; reflexivity.
Qed.

Theorem validate_null_accepted : forall s dup tr a,
  resolve s tr = Some a -> atom_nonempty a = true -> validate s dup tr VNull = false.
Proof.
  intros s dup tr a Hr Ha. rewrite validate_eq, Hr.
  destruct a as [[sc|] [li|] [ma|]]; try reflexivity. discriminate.
Qed.

(* ------------------------------------------------------------------ *)
(* the hypothesis is satisfiable: the example schema, with the references reachable
   from its root *)
Definition ex_items_tr : typeref :=
  TR None (Atom None (Some (ListT (ex_named "item") RAssociative ["name"%string])) None) None.
Definition ex_tags_tr : typeref :=
  TR None (Atom None (Some (ListT ex_str RAssociative [])) None) None.
Definition ex_mm_tr : typeref :=
  TR None (Atom None None (Some (MapT [] ex_num RUnset))) None.

Definition ex_R : typeref -> Prop := fun tr =>
  In tr [ex_rt; ex_named "item"; ex_items_tr; ex_tags_tr; ex_mm_tr; ex_str; ex_num; empty_tr].

Ltac ex_in_list :=
  solve [unfold ex_R; simpl; repeat (first [left; reflexivity | right])].

Ltac ex_cases H :=
  unfold ex_R in H; simpl in H;
  repeat (destruct H as [H|H]; [subst|]); [..|contradiction].

Lemma ex_rt_in_R : ex_R ex_rt.
Proof. ex_in_list. Qed.

Lemma ex_schema_ok : schema_ok ex_schema ex_R.
Proof.
  constructor.
  - intros tr a t Htr Hr Ha.
    ex_cases Htr; vm_compute in Hr; inversion Hr; subst a; vm_compute in Ha;
      try discriminate; inversion Ha; subst t; ex_in_list.
  - intros tr a m k Htr Hr Ha.
    ex_cases Htr; vm_compute in Hr; inversion Hr; subst a; vm_compute in Ha;
      try discriminate; inversion Ha; subst m; unfold field_type; simpl;
      repeat match goal with
             | |- context [String.eqb k ?x] => destruct (String.eqb k x)
             end; ex_in_list.
  - intros tr a Htr Hr.
    ex_cases Htr; vm_compute in Hr; inversion Hr; subst a; reflexivity.
Qed.

(* the theorem instantiated at the example *)
Corollary ex_validate_exact : forall dup v, wf_value v = true ->
  validate ex_schema dup ex_rt v = negb (conforms ex_schema ex_rt dup v).
Proof.
  intros dup v Hv. apply (validate_exact ex_schema ex_R); [exact ex_schema_ok|exact ex_rt_in_R|exact Hv].
Qed.

