(* The merging walker (Model/Merge.v) preserves well-formedness of values: no hypothesis
   on the schema. *)
From Coq Require Import List ZArith String Bool Arith Lia.
From SMD Require Import Model.Value Model.Order Model.PathElem Model.PathSet Model.Schema
  Model.Walk Model.Merge Proofs.OrderLaws Proofs.PathSetLaws Proofs.UpdaterLaws.
From SMD Require Proofs.PesLaws.
Import ListNotations.
Open Scope bool_scope.

Definition wf_ov (o : option value) : bool :=
  match o with Some v => wf_value v | None => true end.

Definition vals_wf (obs : pem value) : Prop := forall e v, In (e, v) obs -> wf_value v = true.

Lemma pem_get_wf : forall obs e, vals_wf obs -> wf_ov (pem_get e obs) = true.
Proof.
  intros obs e H. destruct (pem_get e obs) as [v|] eqn:E; [|reflexivity].
  apply PesLaws.pem_get_In in E. destruct E as [e' [Hin _]]. exact (H e' v Hin).
Qed.

Lemma pem_insert_wf : forall obs e v, vals_wf obs -> wf_value v = true -> vals_wf (pem_insert e v obs).
Proof.
  intros obs e v H Hv e' v' Hin. apply PesLaws.pem_insert_In in Hin.
  destruct Hin as [[Hs _]|Hin]; [cbn [snd] in Hs; subst v'; exact Hv|exact (H e' v' Hin)].
Qed.

Lemma index_list_pes_wf : forall s t d l acc obs err acc' obs' err',
  forallb wf_value l = true -> vals_wf obs ->
  index_list_pes s t d l acc obs err = (acc', obs', err') -> vals_wf obs'.
Proof.
  intros s t d l. induction l as [|child rest IH]; intros acc obs err acc' obs' err' Hl Hobs H.
  - inversion H; subst. exact Hobs.
  - cbn [forallb] in Hl. apply andb_true_iff in Hl. destruct Hl as [Hc Hr].
    cbn [index_list_pes] in H.
    destruct (list_item_to_pe s t child) as [e|]; [|eapply IH; eassumption].
    destruct (pem_get e obs).
    + destruct d; [|eapply IH; eassumption].
      eapply IH; [exact Hr| |exact H]. apply pem_insert_wf; [exact Hobs|reflexivity].
    + eapply IH; [exact Hr| |exact H]. apply pem_insert_wf; assumption.
Qed.

Ltac pair_step H :=
  match type of H with context [let '(_, _) := ?X in _] =>
    let a := fresh "ns'" in let b := fresh "so'" in destruct X as [a b]
  end.

Ltac fin_step IH H Hl Hout :=
  eapply IH; [ | | exact H];
  [ let x := fresh "x" in let Hx := fresh "Hx" in
    intros x Hx; first [ destruct Hx; fail | apply Hl; first [exact Hx | right; exact Hx] ]
  | first [ exact Hout
          | match goal with
            | Hw : wf_ov ?o = true |- forallb wf_value (match ?o with Some _ => _ | None => _ end) = true =>
                destruct o; [cbn [forallb]; cbn [wf_ov] in Hw; rewrite Hw; exact Hout | exact Hout]
            end ] ].

Section LoopWf.
  Variable merge_item : pe -> option value -> option value -> bool * option value.
  Variables obsL obsR : pem value.
  Hypothesis Hitem : forall e lc rc, wf_ov lc = true -> wf_ov rc = true ->
    wf_ov (snd (merge_item e lc rc)) = true.
  Hypothesis HL : vals_wf obsL.
  Hypothesis HR : vals_wf obsR.

  Ltac item_step H Hitem :=
    match type of H with context [merge_item ?e ?lc ?rc] =>
      let Hw := fresh "Hw" in let e0 := fresh "e0" in let o := fresh "o" in
      assert (wf_ov (snd (merge_item e lc rc)) = true) as Hw
        by (apply Hitem; first [apply pem_get_wf; assumption | reflexivity
             | match goal with Hl : forall x, In x _ -> _ |- _ =>
                 cbn [wf_ov]; eapply (Hl (_, _)); left; reflexivity end]);
      destruct (merge_item e lc rc) as [e0 o]; cbn [snd] in Hw
    end.

  Lemma merge_loop_wf : forall fuel lhs rhs ns so mr out err res e',
    (forall x, In x lhs -> wf_value (snd x) = true) -> forallb wf_value out = true ->
    merge_loop merge_item obsL obsR fuel lhs rhs ns so mr out err = Some (res, e') ->
    forallb wf_value res = true.
  Proof.
    induction fuel as [|fuel IH]; intros lhs rhs ns so mr out err res e' Hl Hout H; [discriminate|].
    cbn [merge_loop] in H.
    destruct lhs as [|[lpe lchild] lrest]; destruct rhs as [|rpe rrest].
    - inversion H; subst. apply forallb_forall. intros x Hx. apply in_rev in Hx.
      rewrite forallb_forall in Hout. exact (Hout x Hx).
    - item_step H Hitem. pair_step H. fin_step IH H Hl Hout.
    - destruct (pem_get lpe obsR) as [x|] eqn:ER.
      + destruct (pem_get lpe mr); fin_step IH H Hl Hout.
      + item_step H Hitem. fin_step IH H Hl Hout.
    - destruct (peeqb lpe rpe).
      + item_step H Hitem. pair_step H. fin_step IH H Hl Hout.
      + destruct (pem_get lpe obsR) as [x|] eqn:ER.
        * destruct (opt_pe_eqb_neg ns lpe).
          -- fin_step IH H Hl Hout.
          -- item_step H Hitem. pair_step H. destruct (pem_get lpe mr); fin_step IH H Hl Hout.
        * item_step H Hitem. fin_step IH H Hl Hout.
  Qed.
End LoopWf.

(* ---- the key union of two sorted key lists is sorted ---- *)

Definition kall (k : string) (l : list string) : Prop :=
  forall k', In k' l -> String.compare k k' = Lt.

Inductive ssorted : list string -> Prop :=
| ss_nil : ssorted []
| ss_cons : forall k l, kall k l -> ssorted l -> ssorted (k :: l).

Lemma sorted_keys_ssorted : forall (A : Type) (m : list (string * A)),
  sorted_keys m = true -> ssorted (map fst m).
Proof.
  intros A m. induction m as [|[k v] t IH]; intros Hs; [constructor|].
  apply sorted_keys_cons_iff in Hs. destruct Hs as [Hg Hs]. cbn [map fst]. constructor.
  - intros k' Hin. apply in_map_iff in Hin. destruct Hin as [[k2 v2] [Heq Hin]].
    cbn [fst] in Heq. subst k2. eapply Hg; exact Hin.
  - apply IH; exact Hs.
Qed.

Lemma keys_union_nil_l : forall b, keys_union [] b = b.
Proof. intros b. destruct b; reflexivity. Qed.

Lemma keys_union_cons : forall x xs y ys,
  keys_union (x :: xs) (y :: ys) =
  match String.compare x y with
  | Lt => x :: keys_union xs (y :: ys)
  | Eq => x :: keys_union xs ys
  | Gt => y :: keys_union (x :: xs) ys
  end.
Proof. reflexivity. Qed.

Lemma keys_union_in : forall a b k, In k (keys_union a b) -> In k a \/ In k b.
Proof.
  induction a as [|x xs IHa]; intros b k Hin.
  - rewrite keys_union_nil_l in Hin. right; exact Hin.
  - induction b as [|y ys IHb]; [left; exact Hin|].
    rewrite keys_union_cons in Hin. destruct (String.compare x y).
    + destruct Hin as [Heq|Hin]; [left; left; exact Heq|].
      destruct (IHa ys k Hin) as [H|H]; [left; right; exact H|right; right; exact H].
    + destruct Hin as [Heq|Hin]; [left; left; exact Heq|].
      destruct (IHa (y :: ys) k Hin) as [H|H]; [left; right; exact H|right; exact H].
    + destruct Hin as [Heq|Hin]; [right; left; exact Heq|].
      destruct (IHb Hin) as [H|H]; [left; exact H|right; right; exact H].
Qed.

Lemma keys_union_sorted : forall a b, ssorted a -> ssorted b -> ssorted (keys_union a b).
Proof.
  induction a as [|x xs IHa]; intros b Ha Hb.
  - rewrite keys_union_nil_l. exact Hb.
  - inversion Ha as [|x0 l0 Hax Hxs]; subst.
    induction b as [|y ys IHb]; [exact Ha|].
    inversion Hb as [|y0 l1 Hby Hys]; subst.
    rewrite keys_union_cons. destruct (String.compare x y) eqn:E.
    + apply str_cmp_eq in E. subst y. constructor; [|apply IHa; assumption].
      intros k' Hin. apply keys_union_in in Hin. destruct Hin as [H|H]; [apply Hax|apply Hby]; exact H.
    + constructor; [|apply IHa; assumption].
      intros k' Hin. apply keys_union_in in Hin. destruct Hin as [H|[H|H]].
      * apply Hax; exact H.
      * subst k'. exact E.
      * eapply str_cmp_trans; [exact E|apply Hby; exact H].
    + apply str_cmp_gt_lt in E. constructor; [|apply IHb; assumption].
      intros k' Hin. apply keys_union_in in Hin. destruct Hin as [[H|H]|H].
      * subst k'. exact E.
      * eapply str_cmp_trans; [exact E|apply Hax; exact H].
      * apply Hby; exact H.
Qed.

Lemma sorted_keys_snoc : forall (A : Type) (l : list (string * A)) k x,
  sorted_keys l = true -> (forall k' v', In (k', v') l -> String.compare k' k = Lt) ->
  sorted_keys (l ++ [(k, x)]) = true.
Proof.
  intros A l k x. induction l as [|[k0 v0] t IH]; intros Hs Hlt; [reflexivity|].
  apply sorted_keys_cons_iff in Hs. destruct Hs as [Hg Hs].
  cbn [app]. apply sorted_keys_cons_iff. split.
  - intros k2 v2 Hin. apply in_app_or in Hin. destruct Hin as [Hin|[Heq|[]]].
    + eapply Hg; exact Hin.
    + inversion Heq; subst. apply (Hlt k0 v0). left; reflexivity.
  - apply IH; [exact Hs|]. intros k' v' Hin. apply (Hlt k' v'). right; exact Hin.
Qed.

Definition mvals_wf (m : list (string * value)) : bool := forallb (fun kv => wf_value (snd kv)) m.

(* a fold that appends, for some of the keys in order, a well-formed value *)
Lemma fold_keys_wf : forall (step : bool * list (string * value) -> string -> bool * list (string * value)),
  (forall acc k, snd (step acc k) = snd acc \/
                 exists x, wf_value x = true /\ snd (step acc k) = snd acc ++ [(k, x)]) ->
  forall keys acc, ssorted keys -> sorted_keys (snd acc) = true -> mvals_wf (snd acc) = true ->
    (forall k v k', In (k, v) (snd acc) -> In k' keys -> String.compare k k' = Lt) ->
    sorted_keys (snd (fold_left step keys acc)) = true /\ mvals_wf (snd (fold_left step keys acc)) = true.
Proof.
  intros step Hstep keys. induction keys as [|k ks IH]; intros acc Hk Hs Hv Hlt.
  - split; assumption.
  - inversion Hk as [|k0 l0 Hall Hks]; subst. cbn [fold_left].
    destruct (Hstep acc k) as [Heq|[x [Hx Heq]]]; apply IH; try exact Hks; rewrite Heq.
    + exact Hs.
    + exact Hv.
    + intros k1 v1 k' Hin Hin'. apply (Hlt k1 v1 k' Hin). right; exact Hin'.
    + apply sorted_keys_snoc; [exact Hs|]. intros k' v' Hin. apply (Hlt k' v' k Hin). left; reflexivity.
    + unfold mvals_wf in *. rewrite forallb_app, Hv. cbn [forallb snd]. rewrite Hx. reflexivity.
    + intros k1 v1 k' Hin Hin'. apply in_app_or in Hin. destruct Hin as [Hin|[Heq1|[]]].
      * apply (Hlt k1 v1 k' Hin). right; exact Hin'.
      * inversion Heq1; subst. apply Hall. exact Hin'.
Qed.

(* ---- the walker in named pieces ---- *)

Definition mhandle (rec : typeref -> option value -> option value -> bool * option value)
  (s : schema) (lhs rhs : option value) (h : handled) : bool * option value :=
  let do_leaf := (false, keep_rhs lhs rhs) in
  match h with
  | HInvalid => (true, None)
  | HScalar t =>
      if validate_scalar t lhs && validate_scalar t rhs then (true, None)
      else do_leaf
  | HList t =>
      let l := deref_list lhs in
      let r := deref_list rhs in
      let is_empty (x : option (list value)) :=
        match x with None | Some [] => true | _ => false end in
      if rel_is_atomic (list_rel t) || (is_empty l && is_empty r) then do_leaf
      else
        let ll := match l with Some x => x | None => [] end in
        let rl := match r with Some x => x | None => [] end in
        let '(rhsPEs, observedRHS, rerr) := index_list_pes s t false rl [] [] false in
        let '(lhsPEs, observedLHS, lerr) := index_list_pes s t true ll [] [] false in
        if rerr || lerr then (true, None)
        else
          let sharedOrder :=
            filter (fun e => match pem_get e observedLHS with Some _ => true | None => false end) rhsPEs in
          let '(ns, so) := pop_shared sharedOrder in
          let merge_item (e : pe) (lc rc : option value) := rec (list_elem t) lc rc in
          match merge_loop merge_item observedLHS observedRHS
                  (2 * (List.length ll + List.length rl) + 2)
                  (combine lhsPEs ll) rhsPEs ns so [] [] false with
          | None => (true, None)
          | Some (out, e) =>
              (e, match out with [] => None | _ => Some (VList out) end)
          end
  | HMap t =>
      let l := deref_map lhs in
      let r := deref_map rhs in
      let is_empty (x : option (list (string * value))) :=
        match x with None | Some [] => true | _ => false end in
      if rel_is_atomic (map_rel t) || (is_empty l && is_empty r) then do_leaf
      else
        let lm := match l with Some x => x | None => [] end in
        let rm := match r with Some x => x | None => [] end in
        let keys := keys_union (map fst lm) (map fst rm) in
        let '(e, out) :=
          fold_left
            (fun (acc : bool * list (string * value)) k =>
               let '(e1, o) := rec (field_type t k) (assoc_get k lm) (assoc_get k rm) in
               (fst acc || e1,
                match o with Some x => snd acc ++ [(k, x)] | None => snd acc end))
            keys (false, []) in
        (e, match out with [] => None | _ => Some (VMap out) end)
  end.

Lemma merge_w_S : forall f s tr lhs rhs,
  merge_w (S f) s tr lhs rhs =
  match lhs, rhs with
  | None, None => (true, None)
  | _, _ =>
      match resolve s tr with
      | None => (true, None)
      | Some a =>
          let handle := mhandle (merge_w f s) s lhs rhs in
          let alhs := deduce_atom a lhs in
          let arhs := deduce_atom a rhs in
          match rhs with
          | None => handle (handle_atom alhs)
          | Some _ =>
              match lhs with
              | None => handle (handle_atom arhs)
              | Some _ =>
                  if atom_eqb alhs arhs then handle (handle_atom arhs)
                  else
                    let '(e1, _) := handle (handle_atom alhs) in
                    let '(e2, o) := handle (handle_atom arhs) in
                    (e1 || e2, o)
              end
          end
      end
  end.
Proof. reflexivity. Qed.

Lemma keep_rhs_wf : forall l r, wf_ov l = true -> wf_ov r = true -> wf_ov (keep_rhs l r) = true.
Proof. intros l r Hl Hr. destruct r; [exact Hr|exact Hl]. Qed.

Lemma deref_map_sorted : forall o, wf_ov o = true ->
  sorted_keys (match deref_map o with Some x => x | None => [] end) = true /\
  mvals_wf (match deref_map o with Some x => x | None => [] end) = true.
Proof.
  intros [[]|]; cbn; auto. intros H. apply andb_true_iff in H. exact H.
Qed.

Lemma deref_list_wf : forall o, wf_ov o = true ->
  forallb wf_value (match deref_list o with Some x => x | None => [] end) = true.
Proof. intros [[]|]; cbn; auto. Qed.

Lemma assoc_get_wf_ov : forall k (m : list (string * value)), mvals_wf m = true -> wf_ov (assoc_get k m) = true.
Proof.
  intros k m. induction m as [|[k' v'] m IH]; intros Hm; [reflexivity|].
  unfold mvals_wf in Hm. cbn [forallb snd] in Hm. apply andb_true_iff in Hm. destruct Hm as [Hv Hm].
  cbn [assoc_get]. destruct (String.eqb k k'); [exact Hv|apply IH; exact Hm].
Qed.

Lemma vals_wf_nil : vals_wf [].
Proof. intros e v []. Qed.

Lemma mhandle_wf : forall rec s lhs rhs h,
  (forall tr l r, wf_ov l = true -> wf_ov r = true -> wf_ov (snd (rec tr l r)) = true) ->
  wf_ov lhs = true -> wf_ov rhs = true -> wf_ov (snd (mhandle rec s lhs rhs h)) = true.
Proof.
  intros rec s lhs rhs h Hrec Hl Hr.
  pose proof (keep_rhs_wf lhs rhs Hl Hr) as Hleaf.
  destruct h as [t|t|t|]; cbn [mhandle].
  - (* map *)
    destruct (rel_is_atomic (map_rel t) || _); [exact Hleaf|].
    destruct (deref_map_sorted lhs Hl) as [Hls Hlv]. destruct (deref_map_sorted rhs Hr) as [Hrs Hrv].
    set (lm := match deref_map lhs with Some x => x | None => [] end) in *.
    set (rm := match deref_map rhs with Some x => x | None => [] end) in *.
    match goal with |- context [fold_left ?step ?ks ?ac] =>
      assert (sorted_keys (snd (fold_left step ks ac)) = true /\
              mvals_wf (snd (fold_left step ks ac)) = true) as [F1 F2];
        [apply (fold_keys_wf step)|]
    end.
    + intros acc k. pose proof (Hrec (field_type t k) (assoc_get k lm) (assoc_get k rm)
                                  (assoc_get_wf_ov k lm Hlv) (assoc_get_wf_ov k rm Hrv)) as Hw.
      destruct (rec (field_type t k) (assoc_get k lm) (assoc_get k rm)) as [e1 [x|]]; cbn [snd] in *.
      * right. exists x. split; [exact Hw|reflexivity].
      * left. reflexivity.
    + apply keys_union_sorted; apply sorted_keys_ssorted; assumption.
    + reflexivity.
    + reflexivity.
    + intros k v k' [].
    + match goal with |- context [fold_left ?step ?ks ?ac] =>
        destruct (fold_left step ks ac) as [e out]
      end.
      cbn [snd] in *. destruct out as [|kv out]; [reflexivity|].
      cbn [wf_ov wf_value]. unfold mvals_wf in F2. rewrite F1, F2. reflexivity.
  - (* scalar *)
    destruct (validate_scalar t lhs && validate_scalar t rhs); [reflexivity|exact Hleaf].
  - (* list *)
    destruct (rel_is_atomic (list_rel t) || _); [exact Hleaf|].
    pose proof (deref_list_wf lhs Hl) as Hll. pose proof (deref_list_wf rhs Hr) as Hrl.
    set (ll := match deref_list lhs with Some x => x | None => [] end) in *.
    set (rl := match deref_list rhs with Some x => x | None => [] end) in *.
    destruct (index_list_pes s t false rl [] [] false) as [[rhsPEs obsR] rerr] eqn:ER.
    destruct (index_list_pes s t true ll [] [] false) as [[lhsPEs obsL] lerr] eqn:EL.
    destruct (rerr || lerr); [reflexivity|].
    pose proof (index_list_pes_wf _ _ _ _ _ _ _ _ _ _ Hrl vals_wf_nil ER) as HobsR.
    pose proof (index_list_pes_wf _ _ _ _ _ _ _ _ _ _ Hll vals_wf_nil EL) as HobsL.
    destruct (pop_shared _) as [ns so].
    match goal with |- context [merge_loop ?mi ?oL ?oR ?fu ?lh ?rh ?n ?sso ?mr ?out ?er] =>
      destruct (merge_loop mi oL oR fu lh rh n sso mr out er) as [[res e]|] eqn:EM
    end; [|reflexivity].
    cbn [snd]. destruct res as [|x res]; [reflexivity|].
    cbn [wf_ov wf_value].
    eapply (merge_loop_wf _ obsL obsR); [ |exact HobsL|exact HobsR| | |exact EM].
    + intros e0 lc rc Hlc Hrc. apply Hrec; assumption.
    + intros [e0 v0] Hin. apply in_combine_r in Hin. cbn [snd].
      rewrite forallb_forall in Hll. exact (Hll v0 Hin).
    + reflexivity.
  - reflexivity.
Qed.

Theorem merge_w_wf : forall fuel s tr lhs rhs, wf_ov lhs = true -> wf_ov rhs = true ->
  wf_ov (snd (merge_w fuel s tr lhs rhs)) = true.
Proof.
  induction fuel as [|fuel IH]; intros s tr lhs rhs Hl Hr; [reflexivity|].
  rewrite merge_w_S.
  assert (forall h, wf_ov (snd (mhandle (merge_w fuel s) s lhs rhs h)) = true) as Hh.
  { intros h. apply mhandle_wf; [|exact Hl|exact Hr]. intros tr0 l r H1 H2. apply IH; assumption. }
  assert (wf_ov (snd match resolve s tr with
                     | None => (true, None)
                     | Some a =>
                         let handle := mhandle (merge_w fuel s) s lhs rhs in
                         let alhs := deduce_atom a lhs in
                         let arhs := deduce_atom a rhs in
                         match rhs with
                         | None => handle (handle_atom alhs)
                         | Some _ =>
                             match lhs with
                             | None => handle (handle_atom arhs)
                             | Some _ =>
                                 if atom_eqb alhs arhs then handle (handle_atom arhs)
                                 else
                                   let '(e1, _) := handle (handle_atom alhs) in
                                   let '(e2, o) := handle (handle_atom arhs) in
                                   (e1 || e2, o)
                             end
                         end
                     end) = true) as Hmain.
  { destruct (resolve s tr) as [a|]; [|reflexivity]. cbv zeta.
    destruct rhs as [rv|]; [|apply Hh]. destruct lhs as [lv|]; [|apply Hh].
    destruct (atom_eqb _ _); [apply Hh|].
    pose proof (Hh (handle_atom (deduce_atom a (Some rv)))) as H2.
    destruct (mhandle (merge_w fuel s) s (Some lv) (Some rv) (handle_atom (deduce_atom a (Some lv)))) as [e1 o1].
    destruct (mhandle (merge_w fuel s) s (Some lv) (Some rv) (handle_atom (deduce_atom a (Some rv)))) as [e2 o2].
    exact H2. }
  destruct lhs, rhs; try exact Hmain. reflexivity.
Qed.

(* merging two well-formed values yields a well-formed value *)
Theorem merge_wf : forall s tr l r out, wf_value l = true -> wf_value r = true ->
  merge s tr l r = Some (Some out) -> wf_value out = true.
Proof.
  intros s tr l r out Hl Hr H. unfold merge in H.
  pose proof (merge_w_wf (merge_fuel l r) s tr (Some l) (Some r) Hl Hr) as Hw.
  destruct (merge_w (merge_fuel l r) s tr (Some l) (Some r)) as [e o].
  destruct e; [discriminate|]. inversion H; subst o. exact Hw.
Qed.

