(* C12: merging R over L removes no node of L, except beneath a node to which R gives a
   leaf value. *)
From Coq Require Import List ZArith String Bool Arith Lia.
From SMD Require Import Model.Value Model.Order Model.PathElem Model.PathSet Model.Schema
  Model.Walk Model.Merge Spec.PathsAsSets Spec.RefValid Spec.Resolve Spec.Agree
  Proofs.OrderLaws Proofs.KeyLaws Proofs.PathSetLaws Proofs.ValidateLaws Proofs.SchemaOk Proofs.MergeLaws.
From SMD Require Import Proofs.FieldSetBase Proofs.FieldSetPaths Proofs.ResolveLaws
  Proofs.PesLaws Proofs.MergeBase Proofs.MergeLoop Proofs.MergeWalk Proofs.MergeConf
  Proofs.MergeInter Proofs.MergeVeqb Proofs.MergeDescent Proofs.MergeAgree.
From SMD Require Import Proofs.MergeKeeps Proofs.RemoveFrame Proofs.RefDiffBoth Proofs.MergeThru
  Proofs.ReconcileBase Proofs.TreeFacts Proofs.MergeRestBase.
Import ListNotations.
Open Scope bool_scope.

Section RemovesNothing.
  Variables (s : schema) (R : typeref -> Prop).
  Hypothesis Hok : schema_ok s R.
  Hypothesis Hfam : family_refs s R.

  (* along the proper prefixes of p, either R has only interior nodes (or none), or some
     prefix carries a leaf of R *)
  Lemma prefixes_decide : forall tr r p, R tr -> wf_value r = true ->
    conforms s tr false r = true -> wf_path p = true ->
    forall n, n <= List.length p ->
    (forall j, j < n -> interior_or_absent s tr r (firstn j p)) \/
    (exists j, j < n /\ exists tq y, resolve_path s tr r (firstn j p) = Some (RNode tq y) /\ leafy s tq y).
  Proof.
    intros tr r p HR Hwr Hcr Hp n. induction n as [|n IH]; intros Hn.
    - left. intros j Hj. lia.
    - destruct (IH ltac:(lia)) as [Hall|(j & Hj & Hex)].
      2:{ right. exists j. split; [lia|exact Hex]. }
      destruct (resolve_path s tr r (firstn n p)) as [[tq y|tq ys]|] eqn:Er.
      + destruct (leafy_or_granular s tq y) as [Hl|Hg].
        * right. exists n. split; [lia|]. exists tq, y. auto.
        * left. intros j Hj. destruct (Nat.eq_dec j n) as [->|Hne]; [|apply Hall; lia].
          unfold interior_or_absent. rewrite Er. exact Hg.
      + exfalso. apply (no_rdup s R Hok Hfam (firstn n p) tr r tq ys HR Hwr Hcr); auto.
        apply wf_path_firstn. exact Hp.
      + left. intros j Hj. destruct (Nat.eq_dec j n) as [->|Hne]; [|apply Hall; lia].
        unfold interior_or_absent. rewrite Er. exact I.
  Qed.
End RemovesNothing.

(* the form the proof gives: the replaced node is at a syntactic proper prefix of p *)
Lemma merge_removes_nothing_j : forall s R tr l r out p,
  schema_ok s R -> family_refs s R -> lists_pure s R -> R tr ->
  wf_value l = true -> wf_value r = true ->
  conforms s tr true l = true -> conforms s tr false r = true -> plain r = true ->
  merge s tr l r = Some (Some out) ->
  wf_path p = true -> present s tr l p = true ->
  present s tr out p = true \/
  (exists j, j < List.length p /\
     exists tq y, resolve_path s tr r (firstn j p) = Some (RNode tq y) /\ leafy s tq y).
Proof.
  intros s R tr l r out p Hok Hfam Hpure HR Hwl Hwr Hcl Hcr Hpl Hm Hp Hpres.
  destruct (prefixes_decide s R Hok Hfam tr r p HR Hwr Hcr Hp (List.length p) (le_n _))
    as [Hall|Hex]; [|right; exact Hex].
  left. unfold present in Hpres |- *.
  destruct (resolve_path s tr l p) as [n|] eqn:El; [|discriminate].
  destruct (resolve_path s tr r p) as [c|] eqn:Er.
  - pose proof Hm as Hm'. apply merge_inv in Hm'.
    assert (HA : AgrP s tr r out).
    { apply (right_wins_w s R Hok Hfam (merge_fuel l r) tr (Some l) r out); auto.
      - unfold merge_fuel. simpl. lia.
      - split; assumption. }
    destruct (HA p c Hp Er) as (o & Ho & _). rewrite Ho. reflexivity.
  - rewrite (merge_keeps_thru s R Hok Hfam Hpure tr l r out p n HR Hwl Hwr Hcl Hcr Hpl Hm Hp Hall Er El).
    reflexivity.
Qed.

Theorem merge_removes_nothing : forall s R tr l r out p,
  schema_ok s R -> family_refs s R -> lists_pure s R -> R tr ->
  wf_value l = true -> wf_value r = true ->
  conforms s tr true l = true -> conforms s tr false r = true -> plain r = true ->
  merge s tr l r = Some (Some out) ->
  wf_path p = true -> present s tr l p = true ->
  present s tr out p = true \/
  (exists q, is_prefix q p = true /\ q <> p /\
     exists tq y, resolve_path s tr r q = Some (RNode tq y) /\ leafy s tq y).
Proof.
  intros s R tr l r out p Hok Hfam Hpure HR Hwl Hwr Hcl Hcr Hpl Hm Hp Hpres.
  destruct (merge_removes_nothing_j s R tr l r out p Hok Hfam Hpure HR Hwl Hwr Hcl Hcr Hpl Hm Hp Hpres)
    as [H|(j & Hj & tq & y & Hres & Hleaf)]; [left; exact H|].
  right. exists (firstn j p). split; [apply is_prefix_firstn; exact Hp|]. split.
  - intros E. apply (f_equal (@List.length pe)) in E. rewrite firstn_length in E. lia.
  - exists tq, y. auto.
Qed.
