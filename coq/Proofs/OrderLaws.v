(* Ordering laws (C17): every statement of OrderLaws_statements.v, proved. *)
From Coq Require Import List ZArith QArith String Ascii Bool Lia.
From SMD Require Import Model.Value Model.Order Model.PathElem Model.Matcher.
Import ListNotations.
Open Scope bool_scope.

Local Arguments Qcompare : simpl never.
Local Arguments Qeq_bool : simpl never.
Local Arguments inject_Z : simpl never.

(* ---- strings ---- *)
Lemma ascii_cmp_refl : forall c, Ascii.compare c c = Eq.
Proof. intro c. unfold Ascii.compare. apply N.compare_refl. Qed.

Lemma ascii_cmp_trans : forall a b c,
  Ascii.compare a b = Lt -> Ascii.compare b c = Lt -> Ascii.compare a c = Lt.
Proof.
  unfold Ascii.compare. intros a b c H1 H2.
  rewrite N.compare_lt_iff in *. eapply N.lt_trans; eassumption.
Qed.

Lemma str_cmp_refl : forall s, String.compare s s = Eq.
Proof.
  induction s as [|c s IH]; simpl; auto.
  rewrite ascii_cmp_refl. exact IH.
Qed.

Lemma str_cmp_eq : forall a b, String.compare a b = Eq <-> a = b.
Proof.
  intros a b. split.
  - apply String.compare_eq_iff.
  - intros ->. apply str_cmp_refl.
Qed.

Lemma str_cmp_trans : forall a b c, String.compare a b = Lt -> String.compare b c = Lt -> String.compare a c = Lt.
Proof.
  induction a as [|x a IH]; intros [|y b] [|z c] H1 H2; simpl in *; try discriminate; auto.
  destruct (Ascii.compare x y) eqn:Exy; try discriminate;
  destruct (Ascii.compare y z) eqn:Eyz; try discriminate.
  - apply Ascii.compare_eq_iff in Exy. apply Ascii.compare_eq_iff in Eyz. subst.
    rewrite ascii_cmp_refl. eapply IH; eassumption.
  - apply Ascii.compare_eq_iff in Exy. subst. rewrite Eyz. reflexivity.
  - apply Ascii.compare_eq_iff in Eyz. subst. rewrite Exy. reflexivity.
  - rewrite (ascii_cmp_trans _ _ _ Exy Eyz). reflexivity.
Qed.

Lemma str_cmp_lt_neq : forall a b, String.compare a b = Lt -> a <> b.
Proof. intros a b H E. subst. rewrite str_cmp_refl in H. discriminate. Qed.

Lemma str_cmp_gt_lt : forall a b, String.compare a b = Gt -> String.compare b a = Lt.
Proof. intros a b H. rewrite String.compare_antisym, H. reflexivity. Qed.

(* a comparison function is lawful w.r.t. an equality test *)
Definition cmp_antisym {A} (cmp : A -> A -> comparison) :=
  forall a b, cmp a b = CompOpp (cmp b a).
Definition cmp_trans_lt {A} (cmp : A -> A -> comparison) :=
  forall a b c, cmp a b = Lt -> cmp b c = Lt -> cmp a c = Lt.
Definition cmp_eq_l {A} (cmp : A -> A -> comparison) :=
  forall a b c, cmp a b = Eq -> cmp a c = cmp b c.
Definition cmp_eq_r {A} (cmp : A -> A -> comparison) :=
  forall a b c, cmp b c = Eq -> cmp a b = cmp a c.

Definition is_eq (c : comparison) : bool := match c with Eq => true | _ => false end.

Lemma is_eq_iff : forall c b, is_eq c = b -> (c = Eq <-> b = true).
Proof. intros c b <-. destruct c; simpl; split; congruence. Qed.

Lemma is_eq_lex : forall c d, is_eq (match c with Eq => d | _ => c end) = is_eq c && is_eq d.
Proof. intros [] d; reflexivity. Qed.

Lemma bool_eq_of_iff : forall a b : bool, (a = true <-> b = true) -> a = b.
Proof. intros [] [] [H1 H2]; auto; try (symmetry; auto). Qed.

(* ---- generic facts ---- *)
Section Generic.
  Context {A : Type}.
  Variable cmp : A -> A -> comparison.

  Lemma antisym_eq_r : cmp_antisym cmp -> cmp_eq_l cmp -> cmp_eq_r cmp.
  Proof.
    intros Ha Hl a b c H.
    assert (Hcb : cmp c b = Eq) by (rewrite Ha, H; reflexivity).
    rewrite (Ha a b), (Ha a c). f_equal. symmetry. apply Hl. exact Hcb.
  Qed.

  Lemma antisym_refl : cmp_antisym cmp -> forall a, cmp a a = Eq.
  Proof. intros Ha a. specialize (Ha a a). destruct (cmp a a); simpl in Ha; congruence. Qed.

  (* lexicographic comparison, a proper prefix first *)
  Fixpoint lexcmp (l1 l2 : list A) : comparison :=
    match l1, l2 with
    | [], [] => Eq
    | [], _ :: _ => Lt
    | _ :: _, [] => Gt
    | x :: xs, y :: ys => match cmp x y with Eq => lexcmp xs ys | c => c end
    end.

  Lemma lexcmp_antisym : forall l1,
    Forall (fun x => forall y, cmp x y = CompOpp (cmp y x)) l1 ->
    forall l2, lexcmp l1 l2 = CompOpp (lexcmp l2 l1).
  Proof.
    induction 1 as [|x xs Hx Hxs IH]; intros [|y ys]; simpl; auto.
    rewrite (Hx y). destruct (cmp y x); simpl; auto.
  Qed.

  Lemma lexcmp_eq_l : forall l1,
    Forall (fun x => forall y z, cmp x y = Eq -> cmp x z = cmp y z) l1 ->
    forall l2 l3, lexcmp l1 l2 = Eq -> lexcmp l1 l3 = lexcmp l2 l3.
  Proof.
    induction 1 as [|x xs Hx Hxs IH]; intros [|y ys] l3 H; simpl in H; try discriminate; auto.
    destruct (cmp x y) eqn:E; try discriminate.
    destruct l3 as [|z zs]; simpl; auto.
    rewrite (Hx y z E). destruct (cmp y z); auto.
  Qed.

  Lemma lexcmp_trans_lt :
    cmp_eq_l cmp -> cmp_eq_r cmp ->
    forall l1,
    Forall (fun x => forall y z, cmp x y = Lt -> cmp y z = Lt -> cmp x z = Lt) l1 ->
    forall l2 l3, lexcmp l1 l2 = Lt -> lexcmp l2 l3 = Lt -> lexcmp l1 l3 = Lt.
  Proof.
    intros Hl Hr.
    induction 1 as [|x xs Hx Hxs IH]; intros [|y ys] [|z zs] H1 H2; simpl in *;
      try discriminate; auto.
    destruct (cmp x y) eqn:Exy; try discriminate;
    destruct (cmp y z) eqn:Eyz; try discriminate.
    - rewrite (Hl x y z Exy), Eyz. eapply IH; eassumption.
    - rewrite (Hl x y z Exy), Eyz. reflexivity.
    - rewrite <- (Hr x y z Eyz), Exy. reflexivity.
    - rewrite (Hx y z Exy Eyz). reflexivity.
  Qed.

  Variable eqb : A -> A -> bool.
  Variable wf : A -> bool.

  Fixpoint all2b (l1 l2 : list A) : bool :=
    match l1, l2 with
    | [], [] => true
    | x :: xs, y :: ys => eqb x y && all2b xs ys
    | _, _ => false
    end.

  Lemma lexcmp_is_eq : forall l1,
    Forall (fun x => forall y, wf x = true -> wf y = true -> is_eq (cmp x y) = eqb x y) l1 ->
    forall l2, forallb wf l1 = true -> forallb wf l2 = true ->
    is_eq (lexcmp l1 l2) = all2b l1 l2.
  Proof.
    induction 1 as [|x xs Hx Hxs IH]; intros [|y ys] W1 W2; simpl; auto.
    simpl in W1, W2.
    apply andb_prop in W1. destruct W1 as [Wx Wxs].
    apply andb_prop in W2. destruct W2 as [Wy Wys].
    rewrite <- (Hx y Wx Wy), <- (IH ys Wxs Wys). destruct (cmp x y); reflexivity.
  Qed.
End Generic.

(* ---- unfolding the nested fixpoints of vcmp / veqb ---- *)
Definition pcmp (p q : string * value) : comparison :=
  match String.compare (fst p) (fst q) with
  | Eq => vcmp (snd p) (snd q)
  | c => c
  end.

Definition peqb (p q : string * value) : bool :=
  String.eqb (fst p) (fst q) && veqb (snd p) (snd q).

Lemma vcmp_list : forall l1 l2, vcmp (VList l1) (VList l2) = lexcmp vcmp l1 l2.
Proof.
  induction l1 as [|x xs IH]; intros [|y ys]; try reflexivity.
  all: simpl; destruct (vcmp x y); try reflexivity; exact (IH ys).
Qed.

Lemma vcmp_map : forall m1 m2, vcmp (VMap m1) (VMap m2) = lexcmp pcmp m1 m2.
Proof.
  induction m1 as [|[k1 v1] t1 IH]; intros [|[k2 v2] t2]; try reflexivity.
  all: simpl; unfold pcmp; simpl;
    destruct (String.compare k1 k2); try reflexivity;
    destruct (vcmp v1 v2); try reflexivity; exact (IH t2).
Qed.

Lemma fl_cmp_lex : forall f g, fl_cmp f g = lexcmp pcmp f g.
Proof.
  induction f as [|[k1 v1] t1 IH]; intros [|[k2 v2] t2]; try reflexivity.
  all: simpl; unfold pcmp; simpl;
    destruct (String.compare k1 k2); try reflexivity;
    destruct (vcmp v1 v2); try reflexivity; exact (IH t2).
Qed.

Lemma fl_eqb_all2b : forall f g, fl_eqb f g = all2b peqb f g.
Proof.
  induction f as [|[k1 v1] t1 IH]; intros [|[k2 v2] t2]; try reflexivity.
  all: simpl; unfold peqb; simpl; rewrite IH; reflexivity.
Qed.

Section Meq.
  Variable eqb : value -> value -> bool.
  Variable m2 : list (string * value).
  Fixpoint meqf (m1 : list (string * value)) : bool :=
    match m1 with
    | [] => true
    | (k, v) :: t =>
        match assoc_get k m2 with
        | Some v' => eqb v v' && meqf t
        | None => false
        end
    end.
End Meq.

Lemma veqb_list : forall l1 l2, veqb (VList l1) (VList l2) = all2b veqb l1 l2.
Proof.
  induction l1 as [|x xs IH]; intros [|y ys]; try reflexivity.
  all: simpl; f_equal; exact (IH ys).
Qed.

Lemma veqb_map : forall m1 m2,
  veqb (VMap m1) (VMap m2) = Nat.eqb (List.length m1) (List.length m2) && meqf veqb m2 m1.
Proof.
  intros m1 m2. reflexivity.
Qed.

(* ---- pairs ---- *)
Lemma pcmp_antisym_at : forall p,
  (forall y, vcmp (snd p) y = CompOpp (vcmp y (snd p))) ->
  forall q, pcmp p q = CompOpp (pcmp q p).
Proof.
  intros p H q. unfold pcmp.
  rewrite (String.compare_antisym (fst q) (fst p)).
  destruct (String.compare (fst p) (fst q)); simpl; auto.
Qed.

Lemma pcmp_eq_inv : forall p q, pcmp p q = Eq -> fst p = fst q /\ vcmp (snd p) (snd q) = Eq.
Proof.
  intros p q H. unfold pcmp in H.
  destruct (String.compare (fst p) (fst q)) eqn:E; try discriminate.
  apply str_cmp_eq in E. auto.
Qed.

Lemma pcmp_eq_l_at : forall p,
  (forall y z, vcmp (snd p) y = Eq -> vcmp (snd p) z = vcmp y z) ->
  forall q r, pcmp p q = Eq -> pcmp p r = pcmp q r.
Proof.
  intros p H q r Hpq. apply pcmp_eq_inv in Hpq. destruct Hpq as [Hk Hv].
  unfold pcmp. rewrite Hk. rewrite (H _ (snd r) Hv). reflexivity.
Qed.

(* ---- values ---- *)
Lemma vcmp_antisym : cmp_antisym vcmp.
Proof.
  unfold cmp_antisym.
  induction a using value_ind'; intros b'.
  - destruct b'; reflexivity.
  - destruct b'; try reflexivity. destruct b, b0; reflexivity.
  - destruct b'; try reflexivity; simpl; rewrite Qcompare_antisym; reflexivity.
  - destruct b'; try reflexivity; simpl; rewrite Qcompare_antisym; reflexivity.
  - destruct b'; try reflexivity. simpl. apply String.compare_antisym.
  - destruct b'; try reflexivity. rewrite !vcmp_list.
    apply lexcmp_antisym. exact H.
  - destruct b'; try reflexivity. rewrite !vcmp_map.
    apply lexcmp_antisym.
    eapply Forall_impl; [|exact H]. intros p Hp. apply pcmp_antisym_at. exact Hp.
Qed.

Lemma vcmp_refl : forall a, vcmp a a = Eq.
Proof. apply antisym_refl. exact vcmp_antisym. Qed.

Lemma Qcompare_eq_l : forall x y z, Qcompare x y = Eq -> Qcompare x z = Qcompare y z.
Proof. intros x y z H. apply Qeq_alt in H. rewrite H. reflexivity. Qed.

Lemma vcmp_eq_l : cmp_eq_l vcmp.
Proof.
  unfold cmp_eq_l.
  induction a using value_ind'; intros b' c' Hab.
  - destruct b'; try (simpl in Hab; discriminate Hab). reflexivity.
  - destruct b'; try (simpl in Hab; discriminate Hab).
    destruct b, b0; simpl in Hab; try discriminate Hab; reflexivity.
  - destruct b'; try (simpl in Hab; discriminate Hab); simpl in Hab;
      destruct c'; try reflexivity; simpl; apply Qcompare_eq_l; exact Hab.
  - destruct b'; try (simpl in Hab; discriminate Hab); simpl in Hab;
      destruct c'; try reflexivity; simpl; apply Qcompare_eq_l; exact Hab.
  - destruct b'; try (simpl in Hab; discriminate Hab). simpl in Hab.
    apply str_cmp_eq in Hab. subst. reflexivity.
  - destruct b'; try (simpl in Hab; discriminate Hab).
    destruct c'; try reflexivity.
    rewrite !vcmp_list in *. eapply lexcmp_eq_l; eassumption.
  - destruct b'; try (simpl in Hab; discriminate Hab).
    destruct c'; try reflexivity.
    rewrite !vcmp_map in *. eapply lexcmp_eq_l; [|eassumption].
    eapply Forall_impl; [|exact H]. intros p Hp. apply pcmp_eq_l_at. exact Hp.
Qed.

Lemma vcmp_eq_r : cmp_eq_r vcmp.
Proof. apply antisym_eq_r. exact vcmp_antisym. exact vcmp_eq_l. Qed.

Lemma pcmp_eq_l : cmp_eq_l pcmp.
Proof. intros p q r. apply pcmp_eq_l_at. intros y z. apply vcmp_eq_l. Qed.

Lemma pcmp_antisym : cmp_antisym pcmp.
Proof. intros p q. apply pcmp_antisym_at. intros y. apply vcmp_antisym. Qed.

Lemma pcmp_eq_r : cmp_eq_r pcmp.
Proof. apply antisym_eq_r. exact pcmp_antisym. exact pcmp_eq_l. Qed.

Lemma pcmp_trans_lt_at : forall p,
  (forall y z, vcmp (snd p) y = Lt -> vcmp y z = Lt -> vcmp (snd p) z = Lt) ->
  forall q r, pcmp p q = Lt -> pcmp q r = Lt -> pcmp p r = Lt.
Proof.
  intros p H q r. unfold pcmp.
  destruct (String.compare (fst p) (fst q)) eqn:E1; try discriminate;
  destruct (String.compare (fst q) (fst r)) eqn:E2; try discriminate; intros H1 H2.
  - apply str_cmp_eq in E1. apply str_cmp_eq in E2. rewrite E1, E2, str_cmp_refl.
    eapply H; eassumption.
  - apply str_cmp_eq in E1. rewrite E1, E2. reflexivity.
  - apply str_cmp_eq in E2. rewrite <- E2, E1. reflexivity.
  - rewrite (str_cmp_trans _ _ _ E1 E2). reflexivity.
Qed.

Lemma Qcompare_trans_lt : forall x y z, Qcompare x y = Lt -> Qcompare y z = Lt -> Qcompare x z = Lt.
Proof. intros x y z H1 H2. rewrite <- Qlt_alt in *. eapply Qlt_trans; eassumption. Qed.

Lemma vcmp_trans_lt : cmp_trans_lt vcmp.
Proof.
  unfold cmp_trans_lt.
  induction a using value_ind'; intros b' c' Hab Hbc.
  - destruct b'; simpl in Hab; discriminate Hab.
  - destruct b'; try (simpl in Hab; discriminate Hab);
      destruct c'; try (simpl in Hbc; discriminate Hbc); try reflexivity.
    destruct b, b0, b1; simpl in *; try discriminate; reflexivity.
  - destruct b'; try (simpl in Hab; discriminate Hab);
      destruct c'; try (simpl in Hbc; discriminate Hbc); try reflexivity;
      simpl in *; eapply Qcompare_trans_lt; eassumption.
  - destruct b'; try (simpl in Hab; discriminate Hab);
      destruct c'; try (simpl in Hbc; discriminate Hbc); try reflexivity;
      simpl in *; eapply Qcompare_trans_lt; eassumption.
  - destruct b'; try (simpl in Hab; discriminate Hab);
      destruct c'; try (simpl in Hbc; discriminate Hbc); try reflexivity.
    simpl in *. eapply str_cmp_trans; eassumption.
  - destruct b'; try (simpl in Hab; discriminate Hab);
      destruct c'; try (simpl in Hbc; discriminate Hbc); try reflexivity.
    rewrite !vcmp_list in *.
    eapply (lexcmp_trans_lt vcmp vcmp_eq_l vcmp_eq_r); eassumption.
  - destruct b'; try (simpl in Hab; discriminate Hab);
      destruct c'; try (simpl in Hbc; discriminate Hbc); try reflexivity.
    rewrite !vcmp_map in *.
    eapply (lexcmp_trans_lt pcmp pcmp_eq_l pcmp_eq_r); [|eassumption|eassumption].
    eapply Forall_impl; [|exact H]. intros p Hp. apply pcmp_trans_lt_at. exact Hp.
Qed.

(* ---- sorted association lists ---- *)
Definition keys_gt (k : string) (m : list (string * value)) : Prop :=
  Forall (fun kv => String.compare k (fst kv) = Lt) m.

Lemma keys_gt_trans : forall k k' m, String.compare k k' = Lt -> keys_gt k' m -> keys_gt k m.
Proof.
  intros k k' m Hk Hm. unfold keys_gt in *.
  eapply Forall_impl; [|exact Hm]. intros p Hp. eapply str_cmp_trans; eassumption.
Qed.

Lemma sorted_keys_cons : forall (t : list (string * value)) k v,
  sorted_keys ((k, v) :: t) = true -> sorted_keys t = true /\ keys_gt k t.
Proof.
  induction t as [|[k' v'] t' IH]; intros k v H.
  - split; [reflexivity|constructor].
  - change (sorted_keys ((k, v) :: (k', v') :: t'))
      with (str_ltb k k' && sorted_keys ((k', v') :: t')) in H.
    apply andb_prop in H. destruct H as [Hlt Hs]. split; [exact Hs|].
    assert (Hk : String.compare k k' = Lt).
    { unfold str_ltb in Hlt. destruct (String.compare k k'); try discriminate. reflexivity. }
    constructor; [exact Hk|].
    eapply keys_gt_trans; [exact Hk|]. exact (proj2 (IH k' v' Hs)).
Qed.

Lemma assoc_get_gt : forall k (m : list (string * value)), keys_gt k m -> assoc_get k m = None.
Proof.
  intros k m H. induction H as [|[k' v'] t Hk Ht IH]; simpl; auto.
  simpl in Hk. destruct (String.eqb_spec k k') as [E|E].
  - subst. rewrite str_cmp_refl in Hk. discriminate.
  - exact IH.
Qed.

Lemma meqf_cons : forall eqb m2 k v t,
  meqf eqb m2 ((k, v) :: t) =
  match assoc_get k m2 with Some v' => eqb v v' && meqf eqb m2 t | None => false end.
Proof. reflexivity. Qed.

Lemma meqf_skip : forall eqb k2 v2 t2 m1, keys_gt k2 m1 ->
  meqf eqb ((k2, v2) :: t2) m1 = meqf eqb t2 m1.
Proof.
  intros eqb k2 v2 t2 m1 H. induction H as [|[k v] t Hk Ht IH]; auto.
  rewrite !meqf_cons, IH. simpl in *.
  destruct (String.eqb_spec k k2) as [E|E].
  - subst. rewrite str_cmp_refl in Hk. discriminate.
  - reflexivity.
Qed.

Lemma meqf_len : forall eqb m2 m1,
  sorted_keys m1 = true -> sorted_keys m2 = true -> meqf eqb m2 m1 = true ->
  (List.length m1 <= List.length m2)%nat.
Proof.
  intros eqb. induction m2 as [|[k2 v2] t2 IH]; intros m1 S1 S2 H.
  - destruct m1 as [|[k v] t]; simpl in *; [lia|discriminate].
  - destruct m1 as [|[k1 v1] t1]; [simpl; lia|].
    destruct (sorted_keys_cons _ _ _ S1) as [S1' G1].
    destruct (sorted_keys_cons _ _ _ S2) as [S2' G2].
    destruct (String.compare k1 k2) eqn:E.
    + apply str_cmp_eq in E. subst.
      rewrite meqf_cons in H. simpl in H. rewrite String.eqb_refl in H.
      apply andb_prop in H. destruct H as [_ H].
      rewrite meqf_skip in H by exact G1.
      specialize (IH t1 S1' S2' H). simpl. lia.
    + rewrite meqf_cons in H.
      rewrite assoc_get_gt in H; [discriminate|].
      constructor; [exact E|]. eapply keys_gt_trans; eassumption.
    + apply str_cmp_gt_lt in E.
      rewrite meqf_skip in H.
      * specialize (IH _ S1 S2' H). simpl in *. lia.
      * constructor; [exact E|]. eapply keys_gt_trans; eassumption.
Qed.

Lemma mcmp_is_eq : forall m1,
  Forall (fun kv => forall b, wf_value (snd kv) = true -> wf_value b = true ->
                    is_eq (vcmp (snd kv) b) = veqb (snd kv) b) m1 ->
  forall m2, sorted_keys m1 = true -> sorted_keys m2 = true ->
  forallb (fun kv => wf_value (snd kv)) m1 = true ->
  forallb (fun kv => wf_value (snd kv)) m2 = true ->
  is_eq (lexcmp pcmp m1 m2) = Nat.eqb (List.length m1) (List.length m2) && meqf veqb m2 m1.
Proof.
  induction 1 as [|[k1 v1] t1 Hx Hxs IH]; intros [|[k2 v2] t2] S1 S2 W1 W2; try reflexivity.
  destruct (sorted_keys_cons _ _ _ S1) as [S1' G1].
  destruct (sorted_keys_cons _ _ _ S2) as [S2' G2].
  simpl in W1, W2.
  apply andb_prop in W1. destruct W1 as [Wx Wxs].
  apply andb_prop in W2. destruct W2 as [Wy Wys].
  simpl in Hx.
  change (lexcmp pcmp ((k1, v1) :: t1) ((k2, v2) :: t2))
    with (match pcmp (k1, v1) (k2, v2) with Eq => lexcmp pcmp t1 t2 | c => c end).
  unfold pcmp. simpl fst. simpl snd.
  destruct (String.compare k1 k2) eqn:E.
  - apply str_cmp_eq in E. subst.
    rewrite meqf_cons. simpl assoc_get. rewrite String.eqb_refl.
    rewrite meqf_skip by exact G1. simpl List.length. simpl Nat.eqb.
    rewrite <- (Hx v2 Wx Wy).
    destruct (vcmp v1 v2); simpl; rewrite ?andb_false_r; try reflexivity.
    apply (IH t2 S1' S2' Wxs Wys).
  - simpl is_eq. rewrite meqf_cons.
    rewrite assoc_get_gt.
    + rewrite andb_false_r. reflexivity.
    + constructor; [exact E|]. eapply keys_gt_trans; eassumption.
  - simpl is_eq. apply str_cmp_gt_lt in E.
    rewrite meqf_skip.
    + destruct (meqf veqb t2 ((k1, v1) :: t1)) eqn:M; [|rewrite andb_false_r; reflexivity].
      apply (meqf_len veqb t2 ((k1, v1) :: t1) S1 S2') in M.
      rewrite andb_true_r. symmetry. apply Nat.eqb_neq. simpl in *. lia.
    + constructor; [exact E|]. eapply keys_gt_trans; eassumption.
Qed.

Lemma Qcompare_is_eq : forall x y, is_eq (Qcompare x y) = Qeq_bool x y.
Proof.
  intros x y. destruct (Qeq_bool x y) eqn:E.
  - apply Qeq_bool_iff in E. apply Qeq_alt in E. rewrite E. reflexivity.
  - destruct (Qcompare x y) eqn:C; auto.
    apply Qeq_alt in C. apply Qeq_bool_iff in C. congruence.
Qed.

Lemma str_cmp_is_eq : forall a b, is_eq (String.compare a b) = String.eqb a b.
Proof.
  intros a b. destruct (String.eqb_spec a b) as [E|E].
  - subst. rewrite str_cmp_refl. reflexivity.
  - destruct (String.compare a b) eqn:C; auto. apply str_cmp_eq in C. contradiction.
Qed.

Lemma vcmp_is_eq : forall a b, wf_value a = true -> wf_value b = true ->
  is_eq (vcmp a b) = veqb a b.
Proof.
  induction a using value_ind'; intros b' Wa Wb.
  - destruct b'; reflexivity.
  - destruct b'; try reflexivity. destruct b, b0; reflexivity.
  - destruct b'; try reflexivity; try (simpl; apply Qcompare_is_eq). simpl.
    destruct (Z.eqb_spec z z0) as [E|E].
    + subst. rewrite (proj1 (Qeq_alt _ _) (Qeq_refl _)). reflexivity.
    + destruct (Qcompare (inject_Z z) (inject_Z z0)) eqn:C; auto.
      apply (proj2 (Qeq_alt _ _)) in C. apply (proj1 (inject_Z_injective _ _)) in C.
      contradiction.
  - destruct b'; try reflexivity; simpl; apply Qcompare_is_eq.
  - destruct b'; try reflexivity. simpl. apply str_cmp_is_eq.
  - destruct b'; try reflexivity.
    rewrite vcmp_list, veqb_list. simpl in Wa, Wb.
    eapply lexcmp_is_eq; eassumption.
  - destruct b'; try reflexivity.
    rewrite vcmp_map, veqb_map. simpl in Wa, Wb.
    apply andb_prop in Wa. destruct Wa as [Sa Wa].
    apply andb_prop in Wb. destruct Wb as [Sb Wb].
    apply mcmp_is_eq; assumption.
Qed.

(* Compare = 0 exactly when Equals; maps need unique sorted keys (the representation
   invariant of the model, which Go maps satisfy by construction) *)
Lemma vcmp_eq_iff_veqb : forall a b, wf_value a = true -> wf_value b = true ->
  (vcmp a b = Eq <-> veqb a b = true).
Proof. intros a b Wa Wb. apply is_eq_iff. apply vcmp_is_eq; assumption. Qed.

Lemma veqb_refl : forall a, wf_value a = true -> veqb a a = true.
Proof. intros a W. apply (vcmp_eq_iff_veqb a a W W). apply vcmp_refl. Qed.

Lemma veqb_sym : forall a b, wf_value a = true -> wf_value b = true -> veqb a b = veqb b a.
Proof.
  intros a b Wa Wb. rewrite <- !vcmp_is_eq by assumption.
  rewrite (vcmp_antisym b a). destruct (vcmp a b); reflexivity.
Qed.

Lemma vless_iff : forall a b, vless a b = true <-> vcmp a b = Lt.
Proof. intros a b. unfold vless. destruct (vcmp a b); split; congruence. Qed.

Lemma vcmp_int_float : forall z q, vcmp (VInt z) (VFloat q) = Qcompare (inject_Z z) q.
Proof. reflexivity. Qed.
Lemma vcmp_float_int : forall z q, vcmp (VFloat q) (VInt z) = Qcompare q (inject_Z z).
Proof. reflexivity. Qed.
Lemma veqb_int_float : forall z q, veqb (VInt z) (VFloat q) = Qeq_bool (inject_Z z) q.
Proof. reflexivity. Qed.

(* ---- key lists ---- *)
Definition wf_fl (f : fieldlist) : bool := forallb (fun kv => wf_value (snd kv)) f.

Lemma Forall_all : forall {A} (P : A -> Prop) (l : list A), (forall x, P x) -> Forall P l.
Proof. intros A P l H. apply Forall_forall. intros x _. apply H. Qed.

Lemma fl_cmp_antisym : cmp_antisym fl_cmp.
Proof.
  intros a b. rewrite !fl_cmp_lex. apply lexcmp_antisym.
  apply Forall_all. intros x y. apply pcmp_antisym.
Qed.

Lemma fl_cmp_eq_l : cmp_eq_l fl_cmp.
Proof.
  intros a b c H. rewrite !fl_cmp_lex in *. eapply lexcmp_eq_l; [|exact H].
  apply Forall_all. intros x y z. apply pcmp_eq_l.
Qed.

Lemma fl_cmp_eq_r : cmp_eq_r fl_cmp.
Proof. apply antisym_eq_r. exact fl_cmp_antisym. exact fl_cmp_eq_l. Qed.

Lemma pcmp_trans_lt : cmp_trans_lt pcmp.
Proof. intros p q r. apply pcmp_trans_lt_at. intros y z. apply vcmp_trans_lt. Qed.

Lemma fl_cmp_trans_lt : cmp_trans_lt fl_cmp.
Proof.
  intros a b c H1 H2. rewrite !fl_cmp_lex in *.
  eapply (lexcmp_trans_lt pcmp pcmp_eq_l pcmp_eq_r); [|eassumption|eassumption].
  apply Forall_all. intros x y z. apply pcmp_trans_lt.
Qed.

Lemma pcmp_is_eq : forall p q, wf_value (snd p) = true -> wf_value (snd q) = true ->
  is_eq (pcmp p q) = peqb p q.
Proof.
  intros p q Wp Wq. unfold pcmp, peqb.
  rewrite <- str_cmp_is_eq, <- (vcmp_is_eq _ _ Wp Wq).
  destruct (String.compare (fst p) (fst q)); reflexivity.
Qed.

Lemma fl_cmp_is_eq : forall a b, wf_fl a = true -> wf_fl b = true ->
  is_eq (fl_cmp a b) = fl_eqb a b.
Proof.
  intros a b Wa Wb. rewrite fl_cmp_lex, fl_eqb_all2b.
  eapply lexcmp_is_eq; [|exact Wa|exact Wb].
  apply Forall_all. intros x y. apply pcmp_is_eq.
Qed.

Lemma fl_cmp_eq_iff : forall a b, wf_fl a = true -> wf_fl b = true ->
  (fl_cmp a b = Eq <-> fl_eqb a b = true).
Proof. intros a b Wa Wb. apply is_eq_iff. apply fl_cmp_is_eq; assumption. Qed.

Lemma fl_eqb_refl : forall a, wf_fl a = true -> fl_eqb a a = true.
Proof.
  intros a W. apply (fl_cmp_eq_iff a a W W). apply antisym_refl. exact fl_cmp_antisym.
Qed.

Lemma fl_eqb_sym : forall a b, wf_fl a = true -> wf_fl b = true -> fl_eqb a b = fl_eqb b a.
Proof.
  intros a b Wa Wb. rewrite <- !fl_cmp_is_eq by assumption.
  rewrite (fl_cmp_antisym b a). destruct (fl_cmp a b); reflexivity.
Qed.

(* ---- path elements ---- *)
Definition wf_pe (e : pe) : bool :=
  match e with PEKey k => wf_fl k | PEValue v => wf_value v | _ => true end.

Lemma pecmp_antisym : cmp_antisym pecmp.
Proof.
  intros a b. destruct a, b; simpl; try reflexivity.
  - apply String.compare_antisym.
  - apply fl_cmp_antisym.
  - apply vcmp_antisym.
  - apply Z.compare_antisym.
Qed.

Lemma pecmp_trans_lt : cmp_trans_lt pecmp.
Proof.
  intros a b c. destruct a, b; simpl; try discriminate; destruct c; simpl;
    try discriminate; try reflexivity.
  - apply str_cmp_trans.
  - apply fl_cmp_trans_lt.
  - apply vcmp_trans_lt.
  - intros H1 H2. rewrite Z.compare_lt_iff in *. lia.
Qed.

Lemma pecmp_eq_l : cmp_eq_l pecmp.
Proof.
  intros a b c. destruct a, b; simpl; try discriminate; intros H.
  - apply str_cmp_eq in H. subst. reflexivity.
  - destruct c; simpl; try reflexivity. apply fl_cmp_eq_l. exact H.
  - destruct c; simpl; try reflexivity. apply vcmp_eq_l. exact H.
  - apply Z.compare_eq in H. subst. reflexivity.
Qed.

Lemma pecmp_eq_r : cmp_eq_r pecmp.
Proof. apply antisym_eq_r. exact pecmp_antisym. exact pecmp_eq_l. Qed.

Lemma pecmp_refl : forall a, pecmp a a = Eq.
Proof. apply antisym_refl. exact pecmp_antisym. Qed.

Lemma pecmp_is_eq : forall a b, wf_pe a = true -> wf_pe b = true ->
  is_eq (pecmp a b) = peeqb a b.
Proof.
  intros a b Wa Wb. destruct a, b; simpl in *; try reflexivity.
  - apply str_cmp_is_eq.
  - apply fl_cmp_is_eq; assumption.
  - apply vcmp_is_eq; assumption.
  - rewrite Z.eqb_compare. reflexivity.
Qed.

Lemma pecmp_eq_iff : forall a b, wf_pe a = true -> wf_pe b = true ->
  (pecmp a b = Eq <-> peeqb a b = true).
Proof. intros a b Wa Wb. apply is_eq_iff. apply pecmp_is_eq; assumption. Qed.

Lemma peeqb_refl : forall a, wf_pe a = true -> peeqb a a = true.
Proof. intros a W. apply (pecmp_eq_iff a a W W). apply pecmp_refl. Qed.

Lemma peeqb_sym : forall a b, wf_pe a = true -> wf_pe b = true -> peeqb a b = peeqb b a.
Proof.
  intros a b Wa Wb. rewrite <- !pecmp_is_eq by assumption.
  rewrite (pecmp_antisym b a). destruct (pecmp a b); reflexivity.
Qed.

Lemma peless_iff : forall a b, peless a b = true <-> pecmp a b = Lt.
Proof. intros a b. unfold peless. destruct (pecmp a b); split; congruence. Qed.

(* ---- paths ---- *)
Definition wf_path (p : path) : bool := forallb wf_pe p.

Lemma pathcmp_lex : forall p q, pathcmp p q = lexcmp pecmp p q.
Proof.
  induction p as [|x xs IH]; intros [|y ys]; try reflexivity.
  all: simpl; rewrite IH; reflexivity.
Qed.

Lemma patheqb_all2b : forall p q, patheqb p q = all2b peeqb p q.
Proof.
  induction p as [|x xs IH]; intros [|y ys]; try reflexivity.
  all: simpl; rewrite IH; reflexivity.
Qed.

Lemma pathcmp_antisym : cmp_antisym pathcmp.
Proof.
  intros a b. rewrite !pathcmp_lex. apply lexcmp_antisym.
  apply Forall_all. intros x y. apply pecmp_antisym.
Qed.

Lemma pathcmp_trans_lt : cmp_trans_lt pathcmp.
Proof.
  intros a b c H1 H2. rewrite !pathcmp_lex in *.
  eapply (lexcmp_trans_lt pecmp pecmp_eq_l pecmp_eq_r); [|eassumption|eassumption].
  apply Forall_all. intros x y z. apply pecmp_trans_lt.
Qed.

Lemma pathcmp_eq_l : cmp_eq_l pathcmp.
Proof.
  intros a b c H. rewrite !pathcmp_lex in *. eapply lexcmp_eq_l; [|exact H].
  apply Forall_all. intros x y z. apply pecmp_eq_l.
Qed.

Lemma pathcmp_eq_r : cmp_eq_r pathcmp.
Proof. apply antisym_eq_r. exact pathcmp_antisym. exact pathcmp_eq_l. Qed.

Lemma pathcmp_is_eq : forall a b, wf_path a = true -> wf_path b = true ->
  is_eq (pathcmp a b) = patheqb a b.
Proof.
  intros a b Wa Wb. rewrite pathcmp_lex, patheqb_all2b.
  eapply lexcmp_is_eq; [|exact Wa|exact Wb].
  apply Forall_all. intros x y. apply pecmp_is_eq.
Qed.

Lemma pathcmp_eq_iff : forall a b, wf_path a = true -> wf_path b = true ->
  (pathcmp a b = Eq <-> patheqb a b = true).
Proof. intros a b Wa Wb. apply is_eq_iff. apply pathcmp_is_eq; assumption. Qed.

Lemma patheqb_refl : forall a, wf_path a = true -> patheqb a a = true.
Proof.
  intros a W. apply (pathcmp_eq_iff a a W W). apply antisym_refl. exact pathcmp_antisym.
Qed.

Lemma patheqb_sym : forall a b, wf_path a = true -> wf_path b = true -> patheqb a b = patheqb b a.
Proof.
  intros a b Wa Wb. rewrite <- !pathcmp_is_eq by assumption.
  rewrite (pathcmp_antisym b a). destruct (pathcmp a b); reflexivity.
Qed.

(* ---- path-element matchers ---- *)
Definition wf_pm (m : pematcher) : bool := match m with PMWild => true | PMElem e => wf_pe e end.

Lemma pm_cmp_antisym : cmp_antisym pm_cmp.
Proof. intros a b. destruct a, b; simpl; try reflexivity. apply pecmp_antisym. Qed.

Lemma pm_cmp_trans_lt : cmp_trans_lt pm_cmp.
Proof.
  intros a b c. destruct a, b; simpl; try discriminate; destruct c; simpl;
    try discriminate; try reflexivity.
  apply pecmp_trans_lt.
Qed.

Lemma pm_cmp_eq_l : cmp_eq_l pm_cmp.
Proof.
  intros a b c. destruct a, b; simpl; try discriminate; intros H; try reflexivity.
  destruct c; simpl; try reflexivity. apply pecmp_eq_l. exact H.
Qed.

Lemma pm_cmp_eq_r : cmp_eq_r pm_cmp.
Proof. apply antisym_eq_r. exact pm_cmp_antisym. exact pm_cmp_eq_l. Qed.

Lemma pm_cmp_eq_iff : forall a b, wf_pm a = true -> wf_pm b = true ->
  (pm_cmp a b = Eq <-> pm_eqb a b = true).
Proof.
  intros a b Wa Wb. destruct a, b; simpl in *; try (split; congruence).
  apply pecmp_eq_iff; assumption.
Qed.

Lemma pm_less_iff : forall a b, pm_less a b = true <-> pm_cmp a b = Lt.
Proof.
  intros a b. destruct a, b; simpl; try (split; congruence).
  apply peless_iff.
Qed.

