(* The schema reconciliation that opens every operation (Model/Reconcile.v) only replaces
   members of a set by non-empty proper prefixes of members: every member of the
   reconciled set is a member of the original set or (up to Path.Equals) a non-empty
   proper prefix of one.  No hypothesis on the schema.  Used for C06 (Proofs/UpdateInv.v):
   a prefix of a path that designates a node designates a node. *)
From Coq Require Import List ZArith String Bool Arith Lia.
From SMD Require Import Model.Value Model.Order Model.PathElem Model.PathSet Model.Schema
  Model.Walk Model.Reconcile Spec.PathsAsSets Spec.Resolve
  Proofs.OrderLaws Proofs.PathSetLaws Proofs.ReconcileBase.
From SMD Require Proofs.TrieBase Proofs.UpdaterLaws2.
Import ListNotations.
Open Scope bool_scope.

(* ---------- a prefix of a path that designates a node designates a node ---------- *)
Lemma present_prefix : forall s p q tr v,
  present s tr v (p ++ q) = true -> present s tr v p = true.
Proof.
  intros s p. induction p as [|e p IH]; intros q tr v H; [reflexivity|].
  unfold present in *. cbn [app resolve_path] in *.
  destruct (kind_of s tr v) as [|t m|t l|]; try discriminate H.
  - destruct e as [k|k|k|k]; try discriminate H.
    destruct (assoc_get k m) as [c|]; [|discriminate H]. apply (IH q _ _ H).
  - destruct e as [k|k|k|k]; try discriminate H;
      (destruct (group_items s t l []) as [g|]; [|discriminate H]);
      (match goal with |- context [lookup_group ?e g] =>
         destruct (lookup_group e g) as [[|x [|y more]]|]; try discriminate H end);
      try (apply (IH q _ _ H));
      (destruct p; [reflexivity|discriminate H]).
Qed.

(* ---------- what the walker reports ---------- *)
(* every reported path is the walker's position itself (only when the position is not
   flagged atomic), or the position followed by a non-empty proper prefix of a member *)
Definition rw_pref (p : path) (fs : option pset) (isAtomic : bool) (L : list path) : Prop :=
  forall q0, In q0 L ->
    (q0 = p /\ isAtomic = false) \/
    exists f m q' rest, fs = Some f /\ wf_path m = true /\ ps_has m f = true /\
      m = q' ++ rest /\ q' <> [] /\ rest <> [] /\ q0 = p ++ q'.

Lemma rw_visit_in : forall rec p child_tr ms cs q,
  In q (snd (rw_visit rec p child_tr (PSet ms cs))) ->
  (exists ec er, In ec cs /\ pes_has (fst ec) ms = false /\
                 rw_call rec p child_tr cs false (fst ec) = Some er /\ In q (snd er)) \/
  (exists e er, In e ms /\ rw_call rec p child_tr cs true e = Some er /\ In q (snd er)).
Proof.
  intros rec p child_tr ms cs q H. unfold rw_visit in H. cbn [ps_members ps_children] in H.
  rewrite (fold_rw_add _ (fun ec : pe * pset =>
             if pes_has (fst ec) ms then None else rw_call rec p child_tr cs false (fst ec))) in H.
  rewrite (fold_rw_add _ (fun e => rw_call rec p child_tr cs true e)) in H.
  cbn [fst snd app] in H. rewrite in_app_iff, !in_flat_map in H.
  destruct H as [(ec & Hin & Hq)|(e & Hin & Hq)].
  - left. destruct (pes_has (fst ec) ms) eqn:Ep; [destruct Hq|].
    destruct (rw_call rec p child_tr cs false (fst ec)) as [er|] eqn:E; [|destruct Hq].
    exists ec, er. auto.
  - right. destruct (rw_call rec p child_tr cs true e) as [er|] eqn:E; [|destruct Hq].
    exists e, er. auto.
Qed.

(* a call on an element that has something beneath it, seen from the parent *)
Lemma call_pref : forall p ms cs e sube isAtomic L,
  ps_ok (PSet ms cs) = true -> wf_pe e = true -> snm_get e cs = Some sube ->
  rw_pref (p ++ [e]) (Some sube) false L ->
  rw_pref p (Some (PSet ms cs)) isAtomic L.
Proof.
  intros p ms cs e sube isAtomic L Hok We Hg HL q0 Hq0. right.
  destruct (snm_get_cok ms cs e sube Hok Hg) as (Hoks & Hnes & _ & _).
  destruct (HL q0 Hq0) as [[E _]|(f & m & q' & rest & Ef & Wm & Hm & Em & Nq & Nr & E)].
  - destruct (TrieBase.ps_nonempty_witness sube Hoks Hnes) as (mw & Wmw & Hmw).
    destruct mw as [|xw rw]; [discriminate|].
    exists (PSet ms cs), (e :: xw :: rw), [e], (xw :: rw).
    split; [reflexivity|]. split; [apply wf_path_cons; auto|]. split.
    { rewrite ps_has_more_get, Hg. exact Hmw. }
    split; [reflexivity|]. split; [discriminate|]. split; [discriminate|exact E].
  - inversion Ef; subst f. clear Ef.
    exists (PSet ms cs), (e :: m), (e :: q'), rest.
    split; [reflexivity|]. split; [apply wf_path_cons; auto|]. split.
    { destruct m as [|x r]; [discriminate|]. rewrite ps_has_more_get, Hg. exact Hm. }
    split; [rewrite Em; reflexivity|]. split; [discriminate|]. split; [exact Nr|].
    rewrite E, <- app_assoc. reflexivity.
Qed.

Lemma visit_pref : forall fuel s p child_tr f isAtomic,
  (forall tr p fs isAtomic, match fs with Some f => ps_ok f = true | None => True end ->
     rw_pref p fs isAtomic (snd (reconcile_w fuel s tr p fs isAtomic))) ->
  ps_ok f = true ->
  rw_pref p (Some f) isAtomic (snd (rw_visit (reconcile_w fuel s) p child_tr f)).
Proof.
  intros fuel s p child_tr [ms cs] isAtomic IH Hok q0 Hq0.
  apply rw_visit_in in Hq0.
  destruct Hq0 as [(ec & er & Hin & _ & Hcall & Hq)|(e & er & Hin & Hcall & Hq)].
  - destruct (snm_get_In ms cs ec Hok Hin) as [W Hg].
    unfold rw_call in Hcall. destruct (child_tr (fst ec)) as [ctr|]; [|discriminate].
    rewrite Hg in Hcall. cbn [has_sub andb] in Hcall. inversion Hcall; subst er. clear Hcall.
    destruct (snm_get_cok ms cs (fst ec) (snd ec) Hok Hg) as (Hoks & _).
    apply (call_pref p ms cs (fst ec) (snd ec) isAtomic _ Hok W Hg
             (IH ctr (p ++ [fst ec]) (Some (snd ec)) false Hoks) q0 Hq).
  - destruct (member_has ms cs e Hok Hin) as [W _].
    unfold rw_call in Hcall. destruct (child_tr e) as [ctr|]; [|discriminate].
    destruct (snm_get e cs) as [sube|] eqn:Hg.
    + cbn [has_sub andb negb] in Hcall. inversion Hcall; subst er. clear Hcall.
      destruct (snm_get_cok ms cs e sube Hok Hg) as (Hoks & _).
      apply (call_pref p ms cs e sube isAtomic _ Hok W Hg
               (IH ctr (p ++ [e]) (Some sube) false Hoks) q0 Hq).
    + cbn [has_sub andb negb] in Hcall. inversion Hcall; subst er. clear Hcall.
      destruct (IH ctr (p ++ [e]) None true I q0 Hq) as [[_ E]|(f & m & q' & rest & Ef & _)];
        discriminate.
Qed.

Lemma rw_pref_main : forall fuel s tr p fs isAtomic,
  match fs with Some f => ps_ok f = true | None => True end ->
  rw_pref p fs isAtomic (snd (reconcile_w fuel s tr p fs isAtomic)).
Proof.
  induction fuel as [|fuel IH]; intros s tr p fs isAtomic Hfs; [intros q0 []|].
  rewrite reconcile_w_S.
  destruct (resolve s tr) as [a|]; [|intros q0 []].
  destruct (handle_atom a) as [t|k|t|]; try (intros q0 []).
  - destruct (is_untyped_deduced_map t); [intros q0 []|].
    destruct isAtomic; cbn [negb andb].
    + destruct fs as [f|]; [|intros q0 []]. apply visit_pref; [intros; apply IH; assumption|exact Hfs].
    + destruct (rel_is_atomic (map_rel t)).
      * destruct fs as [f|]; [|intros q0 []]. destruct (0 <? ps_size f); [|intros q0 []].
        intros q0 [E|[]]. left. auto.
      * destruct fs as [f|]; [|intros q0 []]. apply visit_pref; [intros; apply IH; assumption|exact Hfs].
  - destruct isAtomic; cbn [negb andb].
    + destruct fs as [f|]; [|intros q0 []]. apply visit_pref; [intros; apply IH; assumption|exact Hfs].
    + destruct (rel_is_atomic (list_rel t)).
      * intros q0 [E|[]]. left. auto.
      * destruct fs as [f|]; [|intros q0 []]. apply visit_pref; [intros; apply IH; assumption|exact Hfs].
Qed.

(* ---------- the reconciled set ---------- *)
Theorem reconcile_field_set_members : forall s tr fs out,
  ps_ok fs = true -> reconcile_field_set s tr fs = Some (Some out) ->
  forall p, wf_path p = true -> ps_has p out = true ->
    ps_has p fs = true \/
    exists m q' rest, wf_path m = true /\ ps_has m fs = true /\ m = q' ++ rest /\
                      wf_path q' = true /\ patheqb p q' = true.
Proof.
  intros s tr fs out Hok H p Hp Hhas. unfold reconcile_field_set in H.
  pose proof (UpdaterLaws2.reconcile_w_wf (S (ps_depth fs)) s tr [] (Some fs) false eq_refl
                (UpdaterLaws2.ps_ok_wfv fs Hok)) as Hwf.
  pose proof (rw_pref_main (S (ps_depth fs)) s tr [] (Some fs) false Hok) as Hpref.
  destruct (reconcile_w (S (ps_depth fs)) s tr [] (Some fs) false) as [e L].
  cbn [snd] in Hwf, Hpref. destruct e; [discriminate|].
  destruct L as [|q L]; [discriminate|].
  inversion H; subst out; clear H.
  set (T := ps_of_paths (q :: L)) in *.
  assert (ps_ok T = true) as HT by (apply ps_of_paths_ok; exact Hwf).
  destruct (ps_rdiff_spec fs T Hok HT) as [HokR HR].
  destruct (ps_union_spec _ _ HokR HT) as [_ HU].
  rewrite (HU p Hp), (HR p Hp) in Hhas. apply orb_true_iff in Hhas.
  destruct Hhas as [Hh|Hh].
  - left. apply andb_true_iff in Hh. apply Hh.
  - right. assert (p <> []) as Np by (intros E; subst p; discriminate Hp || destruct T; discriminate Hh).
    unfold T in Hh. rewrite (ps_has_of_paths (q :: L) p Hwf Hp Np) in Hh.
    unfold pmem in Hh. apply existsb_exists in Hh. destruct Hh as (q0 & Hq0 & Hpq).
    destruct (Hpref q0 Hq0) as [[E _]|(f & m & q' & rest & Ef & Wm & Hm & Em & Nq & Nr & E)].
    + subst q0. destruct p; [contradiction Np; reflexivity|discriminate Hpq].
    + inversion Ef; subst f. cbn [app] in E. subst q0.
      exists m, q', rest. split; [exact Wm|]. split; [exact Hm|]. split; [exact Em|].
      split; [|exact Hpq]. rewrite Em in Wm. apply wf_path_app in Wm. apply Wm.
Qed.
