(* scratch: pseudo-random histories over the schema of Proofs/HistTest.v, checked with the
   executable invariant [state_ok_b]; [search] returns the first history on which some state
   violates it (None: no violation).  Runs done with 3000 histories of 8 operations on each
   pool, and exhaustively on all 175616 histories of 3 operations of [pool objs] (56 operations):
   no violation. *)
From Coq Require Import List ZArith String Bool Arith.
From SMD Require Import Model.Value Model.PathElem Model.PathSet Model.Schema Model.Updater Proofs.HistTest.
Import ListNotations.
Open Scope string_scope.

(* pseudo-random histories *)
Definition lcg (x : Z) : Z := Z.modulo (x * 1103515245 + 12345) 2147483648.
Fixpoint rand_hist (pool : list hop) (seed : Z) (len : nat) : list hop :=
  match len with
  | O => []
  | S n => let x := lcg seed in
           nth (Z.to_nat (Z.modulo (Z.div x 65536) (Z.of_nat (List.length pool)))) pool (HUpdate "a" VNull)
           :: rand_hist pool x n
  end.

Definition sub3 := VMap [("items", VList [VMap [("name", VStr "x"); ("sub", VList [VMap [("id", VInt 1)]; VMap [("id", VInt 1); ("w", VInt 3)]])]])].
Definition xonly := VMap [("items", VList [itemn "x"])].
Definition yonly := VMap [("items", VList [itemn "y"; item "x" 9])].
Definition tagx := VMap [("items", VList [VMap [("name", VStr "x"); ("tags", VList [VStr "t1"; VStr "t2"])]])].
Definition tagx2 := VMap [("items", VList [VMap [("name", VStr "x"); ("tags", VList [VStr "t2"; VStr "t2"])]; item "y" 3])].
Definition objs2 := [dupx; onex; onex2; subx; subx2; sub3; xonly; yonly; tagx; tagx2; emp; nul; VMap [("aa", VInt 1)]].

Definition pool3 (objs : list value) : list hop :=
  flat_map (fun o => app [HUpdate "a" o; HUpdate "b" o; HUpdate "c" o]
                     (if op_ok_b t_schema t_rt (HApply "a" o true) then [HApply "a" o true; HApply "b" o true; HApply "c" o true; HApply "b" o false; HApply "c" o false] else [])) objs.

Definition search (pool : list hop) (n len : nat) : option (list hop) :=
  find (fun ops => negb (all_ok t_config "v1" ops)) (map (fun i => rand_hist pool (Z.of_nat i * 7919 + 13) len) (seq 0 n)).

Time Eval vm_compute in search (pool3 objs2) 300 8.
Time Eval vm_compute in search (pool3 objs) 300 8.
