(* What the merging walker computes when the right-hand side is present: either the
   right-hand side itself (leaf cases), or a map built key by key, or a list that is an
   interleaving of the merged right-hand members and the left-only members. *)
From Coq Require Import List ZArith String Bool Arith Lia.
From SMD Require Import Model.Value Model.Order Model.PathElem Model.PathSet Model.Schema
  Model.Walk Model.Merge Spec.RefValid Spec.Resolve Proofs.OrderLaws Proofs.KeyLaws Proofs.PesLaws
  Proofs.SchemaOk Proofs.FieldSetBase Proofs.MergeBase Proofs.MergeLoop Proofs.MergeWalk
  Proofs.MergeConf Proofs.MergeInter Proofs.MergeVeqb.
Import ListNotations.
Open Scope bool_scope.

(* ------------------------------------------------------------------ *)
(* occurrences *)
Lemma pe_matches_item : forall s t e c ec, list_item_to_pe s t c = Some ec ->
  pe_matches s t e c = peeqb ec e.
Proof. intros s t e c ec H. unfold pe_matches. rewrite H. reflexivity. Qed.

Lemma occ_nil : forall s t e, occ s t e [] = [].
Proof. reflexivity. Qed.

(* the observed map built by indexListPathElements when duplicates are allowed *)
Definition obs_of (s : schema) (t : listT) (x : pe) (l : list value) (o : option value) : option value :=
  match occ s t x l with
  | [] => o
  | [v] => match o with None => Some v | Some _ => Some VNull end
  | _ :: _ :: _ => Some VNull
  end.

Definition obsL (s : schema) (t : listT) (l : list value) (x : pe) : option value :=
  match occ s t x l with
  | [] => None
  | [v] => Some v
  | _ :: _ :: _ => Some VNull
  end.

Lemma obs_of_none : forall s t x l, obs_of s t x l None = obsL s t l x.
Proof. intros s t x l. unfold obs_of, obsL. destruct (occ s t x l) as [|v [|w more]]; reflexivity. Qed.

Lemma index_dup_occ : forall s t l acc obs err,
  pem_ok obs -> (forall e, In e (pes_of s t l) -> wf_pe e = true) ->
  forallb (has_pe s t) l = true ->
  exists obs', index_list_pes s t true l acc obs err = (acc ++ pes_of s t l, obs', err) /\
    pem_ok obs' /\
    forall x, wf_pe x = true -> pem_get x obs' = obs_of s t x l (pem_get x obs).
Proof.
  intros s t l. induction l as [|c l IH]; intros acc obs err Hok Hwf Hpe.
  - exists obs. simpl. rewrite app_nil_r. split; [reflexivity|]. split; [exact Hok|].
    intros x Hx. reflexivity.
  - simpl in Hpe. apply andb_true_iff in Hpe. destruct Hpe as [Hc Hpe]. unfold has_pe in Hc.
    simpl in *. destruct (list_item_to_pe s t c) as [e|] eqn:E; [|discriminate]. simpl in *.
    assert (He : wf_pe e = true) by (apply Hwf; auto).
    assert (Hocc : forall x, wf_pe x = true ->
              occ s t x (c :: l) = if peeqb x e then c :: occ s t x l else occ s t x l).
    { intros x Hx. rewrite occ_cons, (pe_matches_item s t x c e E), (peeqb_sym e x He Hx).
      reflexivity. }
    destruct (pem_get e obs) as [old|] eqn:Eold.
    + destruct (pem_ins_ok _ e VNull obs Hok He) as [Hok1 Hget1].
      destruct (IH (acc ++ [e]) (pem_insert e VNull obs) err Hok1) as [obs' [H1 [H2 H3]]]; auto.
      exists obs'. split; [rewrite H1, <- app_assoc; reflexivity|]. split; [exact H2|].
      intros x Hx. rewrite (H3 x Hx), (Hget1 x Hx). unfold obs_of. rewrite (Hocc x Hx).
      destruct (peeqb x e) eqn:Exe; [|reflexivity].
      rewrite (pem_get_cong _ x e obs Hok Hx He Exe), Eold.
      destruct (occ s t x l) as [|v [|w more]]; reflexivity.
    + destruct (pem_ins_ok _ e c obs Hok He) as [Hok1 Hget1].
      destruct (IH (acc ++ [e]) (pem_insert e c obs) err Hok1) as [obs' [H1 [H2 H3]]]; auto.
      exists obs'. split; [rewrite H1, <- app_assoc; reflexivity|]. split; [exact H2|].
      intros x Hx. rewrite (H3 x Hx), (Hget1 x Hx). unfold obs_of. rewrite (Hocc x Hx).
      destruct (peeqb x e) eqn:Exe; [|reflexivity].
      rewrite (pem_get_cong _ x e obs Hok Hx He Exe), Eold.
      destruct (occ s t x l) as [|v [|w more]]; reflexivity.
Qed.

(* occurrences in a duplicate-free list *)
Lemma occ_distinct : forall s t l x,
  (forall e, In e (pes_of s t l) -> wf_pe e = true) -> all_distinct (pes_of s t l) = true ->
  wf_pe x = true ->
  occ s t x l = match lfind s t x l with Some v => [v] | None => [] end.
Proof.
  intros s t l x. induction l as [|c l IH]; intros Hwf Hd Hx; [reflexivity|].
  rewrite occ_cons. simpl lfind. simpl pes_of in *. unfold pe_matches.
  destruct (list_item_to_pe s t c) as [e|] eqn:E; simpl in *.
  - apply andb_true_iff in Hd. destruct Hd as [Hd0 Hd]. apply negb_true_iff in Hd0.
    assert (He : wf_pe e = true) by (apply Hwf; auto).
    rewrite (peeqb_sym e x He Hx).
    destruct (peeqb x e) eqn:Exe.
    + rewrite IH by auto.
      destruct (lfind s t x l) as [v|] eqn:El; [|reflexivity].
      exfalso. apply lfind_some in El. destruct El as [e' [Hin Hxe']].
      assert (Hine' : In e' (pes_of s t l)).
      { rewrite <- ipairs_fst. apply in_map_iff. exists (e', v). auto. }
      pose proof (existsb_false_in _ _ _ e' Hd0 Hine') as Hne.
      assert (He' : wf_pe e' = true) by (apply Hwf; auto).
      rewrite <- (peeqb_cong_l e' x e He' Hx He Exe) in Hne. congruence.
    + apply IH; auto.
  - apply IH; auto.
Qed.

Lemma occ_has_pe : forall s t e l x, In x (occ s t e l) ->
  In x l /\ exists ex, list_item_to_pe s t x = Some ex /\ peeqb ex e = true.
Proof.
  intros s t e l x H. apply occ_In in H. destruct H as [H1 H2]. split; [exact H1|].
  unfold pe_matches in H2. destruct (list_item_to_pe s t x) as [ex|]; [|discriminate].
  exists ex. auto.
Qed.

(* ------------------------------------------------------------------ *)
(* dispatch *)
Lemma merge_w_rhs : forall f s tr a lo r out, resolve s tr = Some a ->
  merge_w (S f) s tr lo (Some r) = (false, Some out) ->
  handle f s lo (Some r) (handle_atom (deduce_atom a (Some r))) = (false, Some out).
Proof.
  intros f s tr a lo r out Hr H. rewrite merge_w_S in H.
  destruct lo as [l|]; rewrite Hr in H; unfold merge_top in H.
  - destruct (atom_eqb (deduce_atom a (Some l)) (deduce_atom a (Some r))); [exact H|].
    destruct (handle f s (Some l) (Some r) (handle_atom (deduce_atom a (Some l)))) as [e1 o1].
    destruct (handle f s (Some l) (Some r) (handle_atom (deduce_atom a (Some r)))) as [e2 o2].
    destruct e2; [rewrite orb_true_r in H; discriminate|].
    inversion H as [[He Ho]]. reflexivity.
  - exact H.
Qed.

Lemma rhs_handler : forall s tr a dup r, resolve s tr = Some a -> conforms s tr dup r = true ->
  match handle_atom (deduce_atom a (Some r)) with
  | HScalar t => validate_scalar t (Some r) = false
  | HMap mt => atom_map a = Some mt /\ (r = VNull \/ exists m, r = VMap m)
  | HList t => atom_list a = Some t /\ (r = VNull \/ exists l, r = VList l)
  | HInvalid => False
  end.
Proof.
  intros s tr a dup r Hr Hc. rewrite conforms_unf, Hr in Hc. destruct a as [sc li ma].
  destruct r as [|b|z|q|str|l|m].
  - rewrite deduce_null. destruct sc as [t|], li as [t'|], ma as [mt|]; simpl in *;
      try discriminate; auto.
  - destruct sc as [t|]; [|discriminate]. rewrite deduce_conf_scalar by reflexivity.
    apply scalar_ok_validate. exact Hc.
  - destruct sc as [t|]; [|discriminate]. rewrite deduce_conf_scalar by reflexivity.
    apply scalar_ok_validate. exact Hc.
  - destruct sc as [t|]; [|discriminate]. rewrite deduce_conf_scalar by reflexivity.
    apply scalar_ok_validate. exact Hc.
  - destruct sc as [t|]; [|discriminate]. rewrite deduce_conf_scalar by reflexivity.
    apply scalar_ok_validate. exact Hc.
  - destruct li as [t|]; [|discriminate].
    rewrite (deduce_conf_list (Atom sc (Some t) ma) l t eq_refl). split; [reflexivity|]. right. eauto.
  - destruct ma as [t|]; [|discriminate].
    rewrite (deduce_conf_map (Atom sc li (Some t)) m t eq_refl). split; [reflexivity|]. right. eauto.
Qed.

Lemma dm_nonempty : forall lo ro,
  is_empty_l (deref_map lo) && is_empty_l (deref_map ro) = false -> dm lo <> [] \/ dm ro <> [].
Proof.
  intros lo ro H. unfold dm. destruct (deref_map lo) as [[|? ?]|]; destruct (deref_map ro) as [[|? ?]|];
    simpl in H; try discriminate; try (left; discriminate); right; discriminate.
Qed.

Lemma dl_nonempty : forall lo ro,
  is_empty_l (deref_list lo) && is_empty_l (deref_list ro) = false -> dl lo <> [] \/ dl ro <> [].
Proof.
  intros lo ro H. unfold dl. destruct (deref_list lo) as [[|? ?]|]; destruct (deref_list ro) as [[|? ?]|];
    simpl in H; try discriminate; try (left; discriminate); right; discriminate.
Qed.

Lemma dm_empty_iff : forall lo ro, dm lo <> [] \/ dm ro <> [] ->
  is_empty_l (deref_map lo) && is_empty_l (deref_map ro) = false.
Proof.
  intros lo ro H. unfold dm in H. destruct (deref_map lo) as [[|? ?]|]; destruct (deref_map ro) as [[|? ?]|];
    simpl; try reflexivity; destruct H as [H|H]; congruence.
Qed.

Lemma dl_empty_iff : forall lo ro, dl lo <> [] \/ dl ro <> [] ->
  is_empty_l (deref_list lo) && is_empty_l (deref_list ro) = false.
Proof.
  intros lo ro H. unfold dl in H. destruct (deref_list lo) as [[|? ?]|]; destruct (deref_list ro) as [[|? ?]|];
    simpl; try reflexivity; destruct H as [H|H]; congruence.
Qed.

(* the three ways the walker treats a present right-hand side *)
Lemma merge_cases : forall f s tr dup lo r out,
  conforms s tr dup r = true ->
  merge_w (S f) s tr lo (Some r) = (false, Some out) ->
  out = r \/
  (exists a mt, resolve s tr = Some a /\ atom_map a = Some mt /\
     rel_is_atomic (map_rel mt) = false /\ (dm lo <> [] \/ dm (Some r) <> []) /\
     (r = VNull \/ exists m, r = VMap m) /\
     merge_map f s mt lo (Some r) = (false, Some out) /\
     handle_atom (deduce_atom a (Some r)) = HMap mt) \/
  (exists a t, resolve s tr = Some a /\ atom_list a = Some t /\
     rel_is_atomic (list_rel t) = false /\ (dl lo <> [] \/ dl (Some r) <> []) /\
     (r = VNull \/ exists l, r = VList l) /\
     merge_list f s t lo (Some r) = (false, Some out) /\
     handle_atom (deduce_atom a (Some r)) = HList t).
Proof.
  intros f s tr dup lo r out Hc H.
  destruct (conforms_resolve s tr dup r Hc) as [a [Hr Hne]].
  pose proof (merge_w_rhs f s tr a lo r out Hr H) as Hh.
  pose proof (rhs_handler s tr a dup r Hr Hc) as Hk.
  destruct (handle_atom (deduce_atom a (Some r))) as [mt|t|t|] eqn:Eh; unfold handle in Hh.
  - destruct Hk as [Hm Hshape].
    destruct (rel_is_atomic (map_rel mt)) eqn:Ea.
    + left. unfold merge_map in Hh. rewrite Ea in Hh. simpl in Hh. inversion Hh. reflexivity.
    + destruct (is_empty_l (deref_map lo) && is_empty_l (deref_map (Some r))) eqn:Ee.
      * left. unfold merge_map in Hh. rewrite Ea, Ee in Hh. simpl in Hh. inversion Hh. reflexivity.
      * right. left. exists a, mt. repeat split; auto. apply dm_nonempty. exact Ee.
  - left. rewrite Hk, andb_false_r in Hh. inversion Hh. reflexivity.
  - destruct Hk as [Hl Hshape].
    destruct (rel_is_atomic (list_rel t)) eqn:Ea.
    + left. unfold merge_list in Hh. rewrite Ea in Hh. simpl in Hh. inversion Hh. reflexivity.
    + destruct (is_empty_l (deref_list lo) && is_empty_l (deref_list (Some r))) eqn:Ee.
      * left. unfold merge_list in Hh. rewrite Ea, Ee in Hh. simpl in Hh. inversion Hh. reflexivity.
      * right. right. exists a, t. repeat split; auto. apply dl_nonempty. exact Ee.
  - contradiction.
Qed.

(* kinds of granular non-empty containers *)
Lemma kind_of_map : forall s tr a mt m, resolve s tr = Some a -> atom_map a = Some mt ->
  rel_is_atomic (map_rel mt) = false -> m <> [] -> kind_of s tr (VMap m) = KMap mt m.
Proof.
  intros s tr [sc li ma] mt m Hr Hm Ha Hne. simpl in Hm. subst ma. unfold kind_of. rewrite Hr, Ha.
  destruct m; [congruence|reflexivity].
Qed.

Lemma kind_of_list : forall s tr a t l, resolve s tr = Some a -> atom_list a = Some t ->
  rel_is_atomic (list_rel t) = false -> l <> [] -> kind_of s tr (VList l) = KList t l.
Proof.
  intros s tr [sc li ma] t l Hr Hl Ha Hne. simpl in Hl. subst li. unfold kind_of. rewrite Hr, Ha.
  destruct l; [congruence|reflexivity].
Qed.

(* ------------------------------------------------------------------ *)
Section Descent.
  Variables (s : schema) (R : typeref -> Prop).
  Hypothesis Hok : schema_ok s R.
  Hypothesis Hfam : family_refs s R.

  (* what is known of the operands of the sub-merge at key k *)
  Lemma map_sub : forall f tr a mt lo ro k, R tr -> resolve s tr = Some a ->
    atom_map a = Some mt -> odepth lo + odepth ro < S f ->
    oconf s tr true lo -> oconf s tr false ro -> (dm lo <> [] \/ dm ro <> []) ->
    In k (keys_union (map fst (dm lo)) (map fst (dm ro))) ->
    R (field_type mt k) /\
    odepth (assoc_get k (dm lo)) + odepth (assoc_get k (dm ro)) < f /\
    oconf s (field_type mt k) true (assoc_get k (dm lo)) /\
    oconf s (field_type mt k) false (assoc_get k (dm ro)) /\
    (assoc_get k (dm lo) <> None \/ assoc_get k (dm ro) <> None).
  Proof.
    intros f tr a mt lo ro k HR Hr Hm Hd Hcl Hcr Hne Hk.
    split; [apply (so_map s R Hok tr a mt k); auto|]. split.
    - pose proof (dm_depth lo k). pose proof (dm_depth ro k).
      destruct Hne as [Hne|Hne].
      + pose proof (dm_depth_lt lo k Hne). lia.
      + pose proof (dm_depth_lt ro k Hne). lia.
    - split; [apply (oconf_dm s tr true a mt lo k Hr Hm Hcl)|].
      split; [apply (oconf_dm s tr false a mt ro k Hr Hm Hcr)|].
      apply keys_union_in in Hk. destruct Hk as [Hk|Hk].
      + left. apply assoc_get_in_keys. exact Hk.
      + right. apply assoc_get_in_keys. exact Hk.
  Qed.

  Lemma map_descent : forall f tr a mt lo ro out, R tr -> resolve s tr = Some a ->
    atom_map a = Some mt -> odepth lo + odepth ro < S f ->
    oconf s tr true lo -> oconf s tr false ro ->
    rel_is_atomic (map_rel mt) = false -> (dm lo <> [] \/ dm ro <> []) ->
    merge_map f s mt lo ro = (false, Some out) ->
    exists g,
      out = VMap (map (fun k => (k, g k)) (keys_union (map fst (dm lo)) (map fst (dm ro)))) /\
      keys_union (map fst (dm lo)) (map fst (dm ro)) <> [] /\
      forall k, In k (keys_union (map fst (dm lo)) (map fst (dm ro))) ->
        merge_w f s (field_type mt k) (assoc_get k (dm lo)) (assoc_get k (dm ro)) = (false, Some (g k)).
  Proof.
    intros f tr a mt lo ro out HR Hr Hm Hd Hcl Hcr Hna Hne. unfold merge_map.
    rewrite Hna, (dm_empty_iff lo ro Hne). simpl orb. cbv iota.
    set (keys := keys_union (map fst (dm lo)) (map fst (dm ro))).
    set (g := fun k => out_of (merge_w f s (field_type mt k) (assoc_get k (dm lo)) (assoc_get k (dm ro)))).
    assert (Hres : forall k, In k keys ->
              merge_w f s (field_type mt k) (assoc_get k (dm lo)) (assoc_get k (dm ro))
              = (false, Some (g k))).
    { intros k Hk.
      destruct (map_sub f tr a mt lo ro k HR Hr Hm Hd Hcl Hcr Hne Hk) as (H1 & H2 & H3 & H4 & H5).
      destruct (merge_total_w s R Hok Hfam f _ _ _ H1 H2 H3 H4 H5) as [o Ho].
      apply (out_of_eq _ o Ho). }
    rewrite (fold_map_ok f s mt (dm lo) (dm ro) g keys false [] Hres). simpl app.
    destruct (map (fun k => (k, g k)) keys) as [|kv0 om0] eqn:Eom; [discriminate|].
    rewrite <- Eom. intros H. inversion H; subst out. clear H.
    exists g. split; [reflexivity|]. split; [|exact Hres].
    intros E. rewrite E in Eom. discriminate.
  Qed.

  (* the list case *)
  Definition notR_of (t : listT) (rl : list value) (ec : pe * value) : bool :=
    match lfind s t (fst ec) rl with None => true | Some _ => false end.

  Lemma obsL_cases : forall t ll e v, obsL s t ll e = Some v ->
    (v = VNull /\ ll <> []) \/
    (occ s t e ll = [v] /\ In v ll /\ exists ev, list_item_to_pe s t v = Some ev /\ peeqb ev e = true).
  Proof.
    intros t ll e v H. unfold obsL in H.
    destruct (occ s t e ll) as [|x [|y more]] eqn:Eo; [discriminate| |].
    - inversion H; subst x. right. split; [reflexivity|].
      apply (occ_has_pe s t e ll v). rewrite Eo. left. reflexivity.
    - inversion H; subst v. left. split; [reflexivity|]. intros E. subst ll. discriminate.
  Qed.

  Lemma list_descent : forall f tr a t lo ro out,
    R tr -> resolve s tr = Some a -> atom_list a = Some t ->
    odepth lo + odepth ro < S f ->
    oconf s tr true lo -> oconf s tr false ro ->
    rel_is_atomic (list_rel t) = false -> (dl lo <> [] \/ dl ro <> []) ->
    merge_list f s t lo ro = (false, Some out) ->
    exists gR tl,
      out = VList (map snd tl) /\ tl <> [] /\
      interleave (map (fun e => (e, gR e)) (pes_of s t (dl ro)))
                 (filter (notR_of t (dl ro)) (ipairs s t (dl lo))) tl /\
      (forall e, In e (pes_of s t (dl ro)) ->
         merge_w f s (list_elem t) (obsL s t (dl lo) e) (lfind s t e (dl ro)) = (false, Some (gR e))).
  Proof.
    intros f tr a t lo ro out HR Hr Hl Hd Hcl Hcr Hna Hne. unfold merge_list.
    rewrite Hna, (dl_empty_iff lo ro Hne). simpl orb. cbv iota.
    pose proof (list_rel_assoc t (Hfam tr a t HR Hr Hl) Hna) as Hrel.
    destruct (oconf_dl s tr a t true lo Hr Hl Hrel Hcl) as (HpeL & HallL & HwL & _).
    destruct (oconf_dl s tr a t false ro Hr Hl Hrel Hcr) as (HpeR & HallR & HwR & HdisR).
    specialize (HdisR eq_refl).
    pose proof (elem_ok s R Hok tr a t HR Hr Hl) as Helem.
    pose proof (so_list s R Hok tr a t HR Hr Hl) as HRelem.
    assert (HwfpeL : forall e, In e (pes_of s t (dl lo)) -> wf_pe e = true) by (apply pes_of_wf; auto).
    assert (HwfpeR : forall e, In e (pes_of s t (dl ro)) -> wf_pe e = true) by (apply pes_of_wf; auto).
    destruct (index_nodup s t false (dl ro) [] [] false (pem_ok_nil _) HwfpeR HpeR HdisR)
      as [oR [HidxR [HoR HgetR]]].
    { intros e _. apply pem_get_nil. }
    destruct (index_dup_occ s t (dl lo) [] [] false (pem_ok_nil _) HwfpeL HpeL)
      as [oL [HidxL [HoL HgetL]]].
    rewrite HidxR. cbv beta iota. rewrite HidxL. cbv beta iota. simpl orb. cbv iota. simpl app.
    destruct (pop_shared (shared_order oL (pes_of s t (dl ro)))) as [ns so].
    rewrite (ipairs_combine s t (dl lo) HpeL).
    assert (HgetR' : forall x, wf_pe x = true -> pem_get x oR = lfind s t x (dl ro)).
    { intros x Hx. rewrite (HgetR x Hx), pem_get_nil. destruct (lfind s t x (dl ro)); reflexivity. }
    assert (HgetL' : forall x, wf_pe x = true -> pem_get x oL = obsL s t (dl lo) x).
    { intros x Hx. rewrite (HgetL x Hx), pem_get_nil. apply obs_of_none. }
    set (M := merge_w f s (list_elem t)).
    set (gR := fun e => out_of (M (pem_get e oL) (pem_get e oR))).
    assert (HinR : forall e, In e (pes_of s t (dl ro)) -> lfind s t e (dl ro) <> None).
    { intros e He. apply lfind_exists. apply existsb_exists. exists e. split; [exact He|].
      apply peeqb_refl. apply HwfpeR. exact He. }
    assert (HgR : forall e, In e (pes_of s t (dl ro)) ->
              M (pem_get e oL) (pem_get e oR) = (false, Some (gR e))).
    { intros e He. pose proof (HwfpeR e He) as Hwe.
      assert (Hex : exists x, M (pem_get e oL) (pem_get e oR) = (false, Some x)).
      { rewrite (HgetR' e Hwe), (HgetL' e Hwe).
        pose proof (HinR e He) as Hsome.
        destruct (lfind s t e (dl ro)) as [r|] eqn:Er; [|congruence].
        apply lfind_some in Er. destruct Er as [e' [Hin' Hee']].
        apply ipairs_in in Hin'. destruct Hin' as [Hinr Hper].
        assert (Hcr' : conforms s (list_elem t) false r = true)
          by (rewrite forallb_forall in HallR; apply HallR; exact Hinr).
        assert (Hwr' : wf_value r = true)
          by (rewrite forallb_forall in HwR; apply HwR; exact Hinr).
        pose proof (dl_depth_in ro r Hinr) as Hdr.
        apply (merge_total_w s R Hok Hfam); auto.
        - destruct (obsL s t (dl lo) e) as [v|] eqn:Ev; simpl; [|lia].
          destruct (obsL_cases t (dl lo) e v Ev) as [[Hv Hnl]|(_ & Hinv & _)].
          + subst v. pose proof (dl_depth_null lo Hnl). simpl. lia.
          + pose proof (dl_depth_in lo v Hinv). lia.
        - destruct (obsL s t (dl lo) e) as [v|] eqn:Ev; simpl; [|exact I].
          destruct (obsL_cases t (dl lo) e v Ev) as [[Hv Hnl]|(_ & Hinv & _)].
          + subst v. split; [|reflexivity]. apply (conforms_null s _ false r Hcr').
          + split.
            * rewrite forallb_forall in HallL. apply HallL. exact Hinv.
            * rewrite forallb_forall in HwL. apply HwL. exact Hinv.
        - split; assumption. }
      destruct Hex as [x Hx]. apply (out_of_eq _ x Hx). }
    change (fun _ : pe => M) with (mi_of M).
    destruct (merge_loop (mi_of M) oL oR (2 * (Datatypes.length (dl lo) + Datatypes.length (dl ro)) + 2)
                (ipairs s t (dl lo)) (pes_of s t (dl ro)) ns so [] [] false) as [[res e']|] eqn:Hloop;
      [|discriminate].
    destruct (fun h1 h2 h3 => loop_partial M oL oR HoL HoR gR _ _ _ _ _ _ _ _ _ _ h1 h2 h3 Hloop)
      as [He' [tl [Hres Hil]]].
    - intros e c Hin. apply HwfpeL. rewrite <- ipairs_fst. apply in_map_iff. exists (e, c). auto.
    - intros e He. split; [apply HwfpeR; exact He|]. split; [|apply HgR; exact He].
      rewrite (HgetR' e (HwfpeR e He)). apply HinR. exact He.
    - intros e c Hin _. pose proof (ipairs_in s t _ e c Hin) as [Hinc Hpec].
      apply (merge_absent_right s R Hok Hfam); auto.
      + pose proof (dl_depth_in lo c Hinc). lia.
      + rewrite forallb_forall in HallL. apply HallL. exact Hinc.
      + rewrite forallb_forall in HwL. apply HwL. exact Hinc.
    - subst e'. simpl in Hres. subst res. intros H.
      destruct (map snd tl) as [|x0 rest0] eqn:Emap; [discriminate|].
      rewrite <- Emap in H. inversion H; subst out. clear H.
      exists gR, tl. split; [reflexivity|]. split; [intros E; subst tl; discriminate|]. split.
      + assert (Hfil : filter (notR oR) (ipairs s t (dl lo)) = filter (notR_of t (dl ro)) (ipairs s t (dl lo))).
        { apply filter_ext_in. intros [e c] Hin. unfold notR, notR_of. simpl.
          rewrite HgetR'; [reflexivity|].
          apply HwfpeL. rewrite <- ipairs_fst. apply in_map_iff. exists (e, c). auto. }
        rewrite <- Hfil. exact Hil.
      + intros e He. pose proof (HwfpeR e He) as Hwe.
        rewrite <- (HgetR' e Hwe), <- (HgetL' e Hwe). apply HgR. exact He.
  Qed.
End Descent.

(* ------------------------------------------------------------------ *)
(* occurrences in an interleaving of tagged items *)
Lemma occ_ipairs : forall s t e l,
  occ s t e l = map snd (filter (fun it : pe * value => peeqb (fst it) e) (ipairs s t l)).
Proof.
  intros s t e l. induction l as [|c l IH]; [reflexivity|].
  rewrite occ_cons. unfold pe_matches. simpl ipairs.
  destruct (list_item_to_pe s t c) as [ec|]; simpl.
  - destruct (peeqb ec e); simpl; rewrite IH; reflexivity.
  - exact IH.
Qed.

Lemma filter_none : forall (A : Type) (p : A -> bool) l,
  (forall x, In x l -> p x = false) -> filter p l = [].
Proof.
  intros A p l. induction l as [|x l IH]; intros H; [reflexivity|]. simpl.
  rewrite (H x (or_introl eq_refl)). apply IH. intros y Hy. apply H. right. exact Hy.
Qed.

Lemma filter_map_comm : forall (A B : Type) (p : B -> bool) (h : A -> B) l,
  filter p (map h l) = map h (filter (fun x => p (h x)) l).
Proof.
  intros A B p h l. induction l as [|x l IH]; [reflexivity|]. simpl.
  destruct (p (h x)); simpl; rewrite IH; reflexivity.
Qed.

Lemma filter_filter_absorb : forall (A : Type) (p q : A -> bool) l,
  (forall x, In x l -> p x = true -> q x = true) -> filter p (filter q l) = filter p l.
Proof.
  intros A p q l. induction l as [|x l IH]; intros H; [reflexivity|]. simpl.
  destruct (q x) eqn:Eq; simpl.
  - destruct (p x); rewrite IH; auto; intros y Hy; apply H; right; exact Hy.
  - destruct (p x) eqn:Ep.
    + rewrite (H x (or_introl eq_refl) Ep) in Eq. discriminate.
    + apply IH. intros y Hy. apply H. right. exact Hy.
Qed.

Lemma filter_distinct_one : forall l e0,
  (forall e, In e l -> wf_pe e = true) -> all_distinct l = true -> In e0 l ->
  filter (fun e1 => peeqb e1 e0) l = [e0].
Proof.
  induction l as [|x l IH]; intros e0 Hwf Hd Hin; [destruct Hin|].
  simpl in Hd. apply andb_true_iff in Hd. destruct Hd as [Hd0 Hd]. apply negb_true_iff in Hd0.
  assert (Hx : wf_pe x = true) by (apply Hwf; left; reflexivity).
  simpl. destruct Hin as [Heq|Hin].
  - subst x. rewrite (peeqb_refl e0 Hx). f_equal. apply filter_none.
    intros y Hy. rewrite (peeqb_sym y e0) by (auto; apply Hwf; right; exact Hy).
    apply (existsb_false_in _ _ _ y Hd0 Hy).
  - assert (He0 : wf_pe e0 = true) by (apply Hwf; right; exact Hin).
    rewrite (existsb_false_in _ _ _ e0 Hd0 Hin). apply IH; auto.
    intros e He. apply Hwf. right. exact He.
Qed.

Section ListFacts.
  Variables (s : schema) (t : listT).

  Definition item_ok (it : pe * value) : Prop :=
    wf_pe (fst it) = true /\
    exists ey, list_item_to_pe s t (snd it) = Some ey /\ wf_pe ey = true /\ peeqb ey (fst it) = true.

  Lemma occ_tagged : forall tl e, Forall item_ok tl -> wf_pe e = true ->
    occ s t e (map snd tl) = map snd (filter (fun it : pe * value => peeqb (fst it) e) tl).
  Proof.
    intros tl e H He. induction H as [|[e0 y] tl Hit Htl IH]; [reflexivity|].
    simpl map. rewrite occ_cons. destruct Hit as (Hw0 & ey & Hpe & Hwy & Heq). simpl in *.
    rewrite (pe_matches_item s t e y ey Hpe), (peeqb_cong_l e ey e0 He Hwy Hw0 Heq).
    destruct (peeqb e0 e); simpl; rewrite IH; reflexivity.
  Qed.

  Lemma ipairs_map_snd : forall tl, Forall item_ok tl ->
    ipairs s t (map snd tl) =
    map (fun it => (match list_item_to_pe s t (snd it) with Some e => e | None => fst it end, snd it)) tl.
  Proof.
    intros tl H. induction H as [|[e0 y] tl Hit Htl IH]; [reflexivity|].
    simpl. destruct Hit as (Hw0 & ey & Hpe & Hwy & Heq). simpl in *. rewrite Hpe. simpl.
    rewrite IH. reflexivity.
  Qed.

  Lemma lfind_none_cong : forall l x y,
    (forall e, In e (pes_of s t l) -> wf_pe e = true) -> wf_pe x = true -> wf_pe y = true ->
    peeqb x y = true -> lfind s t x l = None -> lfind s t y l = None.
  Proof.
    intros l x y Hwf Hx Hy Hxy Hnone.
    destruct (lfind s t y l) as [v|] eqn:Ey; [|reflexivity]. exfalso.
    assert (Hex : existsb (peeqb y) (pes_of s t l) = true) by (apply lfind_exists_rev; congruence).
    apply existsb_exists in Hex. destruct Hex as [e' [Hin Hye']].
    apply (lfind_exists s t x l); [|exact Hnone].
    apply existsb_exists. exists e'. split; [exact Hin|].
    rewrite (peeqb_cong_l e' x y (Hwf e' Hin) Hx Hy Hxy). exact Hye'.
  Qed.

  Variables (ll rl : list value) (gR : pe -> value) (tl : list (pe * value)).
  Hypothesis HwfL : forall e, In e (pes_of s t ll) -> wf_pe e = true.
  Hypothesis HwfR : forall e, In e (pes_of s t rl) -> wf_pe e = true.
  Hypothesis HdisR : all_distinct (pes_of s t rl) = true.
  Hypothesis Hil : interleave (map (fun e => (e, gR e)) (pes_of s t rl))
                              (filter (notR_of s t rl) (ipairs s t ll)) tl.
  Hypothesis Hitems : Forall item_ok tl.

  Lemma occ_R : forall e e0, wf_pe e = true -> In e0 (pes_of s t rl) -> peeqb e0 e = true ->
    occ s t e (map snd tl) = [gR e0].
  Proof.
    intros e e0 He Hin Heq. rewrite (occ_tagged tl e Hitems He).
    pose proof (interleave_filter _ (fun it : pe * value => peeqb (fst it) e) _ _ _ Hil) as Hf.
    pose proof (HwfR e0 Hin) as He0.
    assert (HB : filter (fun it : pe * value => peeqb (fst it) e)
                   (filter (notR_of s t rl) (ipairs s t ll)) = []).
    { apply filter_none. intros [e1 c] Hx. simpl. apply filter_In in Hx. destruct Hx as [Hx Hn].
      unfold notR_of in Hn. simpl in Hn.
      assert (He1 : wf_pe e1 = true).
      { apply HwfL. rewrite <- ipairs_fst. apply in_map_iff. exists (e1, c). auto. }
      destruct (peeqb e1 e) eqn:E1; [|reflexivity]. exfalso.
      destruct (lfind s t e1 rl) eqn:El; [discriminate|].
      apply (lfind_exists s t e1 rl); [|exact El].
      apply existsb_exists. exists e0. split; [exact Hin|].
      rewrite (peeqb_cong_r e1 e0 e He1 He0 He Heq). exact E1. }
    assert (HA : filter (fun it : pe * value => peeqb (fst it) e)
                   (map (fun e => (e, gR e)) (pes_of s t rl)) = [(e0, gR e0)]).
    { rewrite filter_map_comm. simpl.
      rewrite (filter_ext_in (fun x => peeqb x e) (fun e1 => peeqb e1 e0)).
      - rewrite (filter_distinct_one _ e0 HwfR HdisR Hin). reflexivity.
      - intros e1 H1. rewrite (peeqb_sym e0 e He0 He) in Heq.
        apply (peeqb_cong_r e1 e e0 (HwfR e1 H1) He He0 Heq). }
    rewrite HB, HA in Hf. apply interleave_nil_r in Hf. rewrite Hf. reflexivity.
  Qed.

  Lemma occ_L : forall e, wf_pe e = true -> lfind s t e rl = None ->
    occ s t e (map snd tl) = occ s t e ll.
  Proof.
    intros e He Hnone. rewrite (occ_tagged tl e Hitems He).
    pose proof (interleave_filter _ (fun it : pe * value => peeqb (fst it) e) _ _ _ Hil) as Hf.
    assert (HA : filter (fun it : pe * value => peeqb (fst it) e)
                   (map (fun e => (e, gR e)) (pes_of s t rl)) = []).
    { apply filter_none. intros [e1 y] Hx. simpl. apply in_map_iff in Hx.
      destruct Hx as [e1' [Hx Hin]]. inversion Hx; subst e1' y.
      destruct (peeqb e1 e) eqn:E1; [|reflexivity]. exfalso.
      apply (lfind_exists s t e rl); [|exact Hnone].
      apply existsb_exists. exists e1. split; [exact Hin|].
      rewrite (peeqb_sym e e1 He (HwfR e1 Hin)). exact E1. }
    rewrite HA in Hf. apply interleave_nil_l in Hf. rewrite Hf.
    rewrite filter_filter_absorb.
    - symmetry. apply occ_ipairs.
    - intros [e1 c] Hx Hp. simpl in Hp. unfold notR_of. simpl.
      assert (He1 : wf_pe e1 = true).
      { apply HwfL. rewrite <- ipairs_fst. apply in_map_iff. exists (e1, c). auto. }
      rewrite (lfind_none_cong rl e e1 HwfR He He1); auto.
      rewrite (peeqb_sym e e1 He He1). exact Hp.
  Qed.
End ListFacts.

(* ------------------------------------------------------------------ *)
Section Descent2.
  Variables (s : schema) (R : typeref -> Prop).
  Hypothesis Hok : schema_ok s R.
  Hypothesis Hfam : family_refs s R.

  (* the left counterpart of a right-hand member *)
  Lemma obsL_ok : forall tr a t lo e, resolve s tr = Some a -> atom_list a = Some t ->
    list_rel t = RAssociative -> oconf s tr true lo ->
    oconf s (list_elem t) true (obsL s t (dl lo) e) /\
    odepth (obsL s t (dl lo) e) <= odepth lo - 1 /\
    (forall l, obsL s t (dl lo) e = Some l ->
       l = VNull \/ exists el, list_item_to_pe s t l = Some el /\ peeqb el e = true).
  Proof.
    intros tr a t lo e Hr Hl Hrel Hcl.
    destruct (oconf_dl s tr a t true lo Hr Hl Hrel Hcl) as (HpeL & HallL & HwL & _).
    destruct (obsL s t (dl lo) e) as [v|] eqn:Ev.
    - destruct (obsL_cases s t (dl lo) e v Ev) as [[Hv Hnl]|(_ & Hinv & ev & Hpev & Heqv)].
      + subst v. split; [|split].
        * split; [|reflexivity].
          destruct (dl lo) as [|x0 rest] eqn:Edl; [congruence|].
          simpl in HallL. apply andb_true_iff in HallL. destruct HallL as [Hx0 _].
          apply (conforms_null s _ true x0 Hx0).
        * pose proof (dl_depth_null lo Hnl). simpl. lia.
        * intros l El. inversion El. left. reflexivity.
      + split; [|split].
        * split.
          -- rewrite forallb_forall in HallL. apply HallL. exact Hinv.
          -- rewrite forallb_forall in HwL. apply HwL. exact Hinv.
        * pose proof (dl_depth_in lo v Hinv). simpl. lia.
        * intros l El. inversion El; subst l. right. exists ev. auto.
    - split; [exact I|]. split; [simpl; lia|]. intros l El. discriminate.
  Qed.

  Lemma list_descent_items : forall f tr a t lo ro gR tl,
    R tr -> resolve s tr = Some a -> atom_list a = Some t ->
    odepth lo + odepth ro < S f ->
    oconf s tr true lo -> oconf s tr false ro -> list_rel t = RAssociative ->
    interleave (map (fun e => (e, gR e)) (pes_of s t (dl ro)))
               (filter (notR_of s t (dl ro)) (ipairs s t (dl lo))) tl ->
    (forall e, In e (pes_of s t (dl ro)) ->
       merge_w f s (list_elem t) (obsL s t (dl lo) e) (lfind s t e (dl ro)) = (false, Some (gR e))) ->
    Forall (item_ok s t) tl /\
    (forall e, In e (pes_of s t (dl ro)) ->
       exists c, In c (dl ro) /\ list_item_to_pe s t c = Some e /\ lfind s t e (dl ro) = Some c /\
         conforms s (list_elem t) false c = true /\ wf_value c = true /\
         conforms s (list_elem t) true (gR e) = true /\ wf_value (gR e) = true).
  Proof.
    intros f tr a t lo ro gR tl HR Hr Hl Hd Hcl Hcr Hrel Hil HgR.
    destruct (oconf_dl s tr a t true lo Hr Hl Hrel Hcl) as (HpeL & HallL & HwL & _).
    destruct (oconf_dl s tr a t false ro Hr Hl Hrel Hcr) as (HpeR & HallR & HwR & HdisR).
    specialize (HdisR eq_refl).
    pose proof (elem_ok s R Hok tr a t HR Hr Hl) as Helem.
    pose proof (so_list s R Hok tr a t HR Hr Hl) as HRelem.
    assert (HwfpeL : forall e, In e (pes_of s t (dl lo)) -> wf_pe e = true) by (apply pes_of_wf; auto).
    assert (HwfpeR : forall e, In e (pes_of s t (dl ro)) -> wf_pe e = true) by (apply pes_of_wf; auto).
    assert (HA : forall e, In e (pes_of s t (dl ro)) ->
       exists c, In c (dl ro) /\ list_item_to_pe s t c = Some e /\ lfind s t e (dl ro) = Some c /\
         conforms s (list_elem t) false c = true /\ wf_value c = true /\
         conforms s (list_elem t) true (gR e) = true /\ wf_value (gR e) = true).
    { intros e He. destruct (pes_of_in s t _ e He) as [c [Hinc Hpec]].
      pose proof (lfind_in s t (dl ro) e c HwfpeR HdisR (ipairs_in_rev s t _ e c Hinc Hpec)) as Hlf.
      assert (Hcc : conforms s (list_elem t) false c = true)
        by (rewrite forallb_forall in HallR; apply HallR; exact Hinc).
      assert (Hwc : wf_value c = true)
        by (rewrite forallb_forall in HwR; apply HwR; exact Hinc).
      exists c. repeat split; auto.
      - destruct (obsL_ok tr a t lo e Hr Hl Hrel Hcl) as (Ho1 & Ho2 & _).
        pose proof (dl_depth_in ro c Hinc) as Hdc.
        pose proof (HgR e He) as Hm. rewrite Hlf in Hm.
        assert (Hdd : odepth (obsL s t (dl lo) e) + odepth (Some c) < f) by (simpl; lia).
        destruct (merge_conf_w s R Hok Hfam f (list_elem t) (obsL s t (dl lo) e) (Some c) (gR e)
                    HRelem Hdd Ho1 (conj Hcc Hwc) Hm) as (G1 & G2 & _); assumption.
      - destruct (obsL_ok tr a t lo e Hr Hl Hrel Hcl) as (Ho1 & Ho2 & _).
        pose proof (dl_depth_in ro c Hinc) as Hdc.
        pose proof (HgR e He) as Hm. rewrite Hlf in Hm.
        assert (Hdd : odepth (obsL s t (dl lo) e) + odepth (Some c) < f) by (simpl; lia).
        destruct (merge_conf_w s R Hok Hfam f (list_elem t) (obsL s t (dl lo) e) (Some c) (gR e)
                    HRelem Hdd Ho1 (conj Hcc Hwc) Hm) as (G1 & G2 & _); assumption. }
    split; [|exact HA].
    apply Forall_forall. intros [e0 y] Hx.
    apply (interleave_in _ _ _ _ (e0, y) Hil) in Hx. destruct Hx as [Hx|Hx].
    - apply in_map_iff in Hx. destruct Hx as [e0' [Hx Hin]]. inversion Hx; subst e0' y.
      destruct (HA e0 Hin) as (c & Hinc & Hpec & Hlf & Hcc & Hwc & Hcg & Hwg).
      destruct (obsL_ok tr a t lo e0 Hr Hl Hrel Hcl) as (Ho1 & Ho2 & Ho3).
      pose proof (dl_depth_in ro c Hinc) as Hdc.
      pose proof (HgR e0 Hin) as Hm. rewrite Hlf in Hm.
      destruct (merged_item_pe s R Hok Hfam f t (obsL s t (dl lo) e0) c (gR e0) e0) as [ex [Hpex Heqx]]; auto.
      { lia. }
      split; [apply HwfpeR; exact Hin|]. exists ex. simpl. split; [exact Hpex|]. split; [|exact Heqx].
      apply (item_pe_wf s t (gR e0) ex Helem Hwg Hpex).
    - apply filter_In in Hx. destruct Hx as [Hx _].
      pose proof (ipairs_in s t _ e0 y Hx) as [Hiny Hpey].
      assert (Hw0 : wf_pe e0 = true).
      { apply HwfpeL. rewrite <- ipairs_fst. apply in_map_iff. exists (e0, y). auto. }
      split; [exact Hw0|]. exists e0. simpl. split; [exact Hpey|]. split; [exact Hw0|].
      apply peeqb_refl. exact Hw0.
  Qed.
End Descent2.
