(* The member loops of the comparing walker against those of the reference diff:
   maps (same key list on both sides) and associative lists (gather_values / pem maps
   against group_items / lookup_group), for abstract recursive calls. *)
From Coq Require Import List ZArith String Bool Arith Lia.
From SMD Require Import Model.Value Model.Order Model.PathElem Model.PathSet Model.Schema
  Model.Walk Model.Validate Model.Merge Model.Compare Spec.PathsAsSets Spec.RefValid
  Spec.Resolve Spec.RefDiff
  Proofs.OrderLaws Proofs.KeyLaws Proofs.PesLaws Proofs.PathSetLaws Proofs.ValidateLaws
  Proofs.SchemaOk Proofs.FieldSetBase Proofs.FieldSetPaths
  Proofs.CompareBase Proofs.CompareWf Proofs.CompareSwap Proofs.CompareTotal
  Proofs.RefDiffBase.
Import ListNotations.
Open Scope bool_scope.

(* ------------------------------------------------------------------ *)
(* the walker's container handlers, once they do walk *)

Lemma handle_map_walk : forall rec p lhs rhs t,
  rel_is_atomic (map_rel t) = false ->
  is_emp (deref_map lhs) && is_emp (deref_map rhs) = false ->
  snd (fst (handle_map rec p lhs rhs t)) =
    cmp_concat (map (fun k => snd (map_F rec p t (ol (deref_map lhs)) (ol (deref_map rhs)) k))
                  (keys_union (map fst (ol (deref_map lhs))) (map fst (ol (deref_map rhs)))))
  /\ snd (handle_map rec p lhs rhs t) = false.
Proof.
  intros rec p lhs rhs t Ha He. unfold handle_map. rewrite Ha, He. cbn [orb].
  rewrite fold_acc_step. cbn [fst snd]. rewrite cmp_app_empty_l. split; reflexivity.
Qed.

Lemma handle_map_leaf : forall rec p lhs rhs t,
  rel_is_atomic (map_rel t) || (is_emp (deref_map lhs) && is_emp (deref_map rhs)) = true ->
  handle_map rec p lhs rhs t = do_leaf p lhs rhs.
Proof. intros rec p lhs rhs t H. unfold handle_map. rewrite H. reflexivity. Qed.

Lemma handle_list_leaf : forall rec s p lhs rhs t,
  rel_is_atomic (list_rel t) || (is_emp (deref_list lhs) && is_emp (deref_list rhs)) = true ->
  handle_list rec s p lhs rhs t = do_leaf p lhs rhs.
Proof. intros rec s p lhs rhs t H. unfold handle_list. rewrite H. reflexivity. Qed.

Lemma handle_list_walk : forall rec s p lhs rhs t lV o1 e1 rV ro e2,
  rel_is_atomic (list_rel t) = false ->
  is_emp (deref_list lhs) && is_emp (deref_list rhs) = false ->
  gather_values s t (ol (deref_list lhs)) [] [] false = (lV, o1, e1) ->
  gather_values s t (ol (deref_list rhs)) [] [] false = (rV, ro, e2) ->
  snd (fst (handle_list rec s p lhs rhs t)) =
    cmp_concat (map (fun e => snd (list_F rec p t lV rV e)) (all_pes lV o1 ro))
  /\ snd (handle_list rec s p lhs rhs t) = false.
Proof.
  intros rec s p lhs rhs t lV o1 e1 rV ro e2 Ha He El Er. unfold handle_list.
  rewrite Ha, He, El, Er. cbn [orb].
  rewrite fold_acc_step. cbn [fst snd]. rewrite cmp_app_empty_l. split; reflexivity.
Qed.

(* ------------------------------------------------------------------ *)
Section Walks.
  Variables (s : schema) (R : typeref -> Prop).
  Hypothesis Hok : schema_ok s R.
  Variable rec : typeref -> path -> option value -> option value -> bool * cmpacc.
  Variable rrec : typeref -> path -> value -> value -> rdiff.
  Variables p p' : path.
  Hypothesis Hp : wf_path p = true.
  Hypothesis Hp' : wf_path p' = true.
  Hypothesis Hpp : patheqb p p' = true.

  (* ---- maps ---- *)
  Lemma map_walk_eq : forall t lm rm,
    (forall k x y, assoc_get k lm = Some x -> assoc_get k rm = Some y ->
       ceq (snd (rec (field_type t k) (p ++ [PEField k]) (Some x) (Some y)))
           (rd2c (rrec (field_type t k) (p' ++ [PEField k]) x y))) ->
    (forall k x, assoc_get k lm = Some x -> assoc_get k rm = None ->
       ceq (snd (rec (field_type t k) (p ++ [PEField k]) (Some x) None))
           (rd2c (one_sided false s (field_type t k) x (p' ++ [PEField k])))) ->
    (forall k y, assoc_get k lm = None -> assoc_get k rm = Some y ->
       ceq (snd (rec (field_type t k) (p ++ [PEField k]) None (Some y)))
           (rd2c (one_sided true s (field_type t k) y (p' ++ [PEField k])))) ->
    ceq (cmp_concat (map (fun k => snd (map_F rec p t lm rm k))
                       (keys_union (map fst lm) (map fst rm))))
        (rd2c (rd_maps rrec s p' t lm rm)).
  Proof.
    intros t lm rm Hboth Hleft Hright. unfold rd_maps.
    rewrite rd_fold, rd2c_empty, cmp_app_empty_l.
    apply ceq_concat_same. intros k Hk. unfold map_F, rd_map_G.
    destruct (assoc_get k lm) as [x|] eqn:El; destruct (assoc_get k rm) as [y|] eqn:Er.
    - apply Hboth; auto.
    - apply Hleft; auto.
    - apply Hright; auto.
    - exfalso. apply keys_union_In in Hk.
      destruct Hk as [Hk|Hk]; apply assoc_get_In_keys in Hk; destruct Hk as [x Hx]; congruence.
  Qed.

  (* ---- one element of an associative list ---- *)
  Lemma elem_res_ref : forall item t e e' L Rr gl gr,
    wf_pe e = true -> wf_pe e' = true -> peeqb e e' = true ->
    lookup_group e' gl = match L with [] => None | xs => Some xs end ->
    lookup_group e' gr = match Rr with [] => None | xs => Some xs end ->
    (forall x y, In x L -> In y Rr ->
       ceq (snd (item e (Some x) (Some y))) (rd2c (rrec (list_elem t) (p' ++ [e']) x y))) ->
    (forall x, In x L ->
       ceq (snd (item e (Some x) None)) (rd2c (one_sided false s (list_elem t) x (p' ++ [e'])))) ->
    (forall y, In y Rr ->
       ceq (snd (item e None (Some y))) (rd2c (one_sided true s (list_elem t) y (p' ++ [e'])))) ->
    ceq (snd (elem_res item (p ++ [e]) e L Rr)) (rd2c (rd_list_G rrec s p' t gl gr e')).
  Proof.
    intros item t e e' L Rr gl gr He He' Hee Hl Hr Hboth Hleft Hright.
    assert (Wq : wf_path (p ++ [e]) = true) by (apply wf_path_snoc; auto).
    assert (Wq' : wf_path (p' ++ [e']) = true) by (apply wf_path_snoc; auto).
    assert (Eq : patheqb (p ++ [e]) (p' ++ [e']) = true) by (apply patheqb_snoc; auto).
    unfold rd_list_G. rewrite Hl, Hr.
    destruct L as [|lv [|lv2 L]]; destruct Rr as [|rv [|rv2 Rr]]; cbn [elem_res].
    - apply ceq_refl.
    - apply Hright. simpl. auto.
    - apply (ceq_add _ _ Wq Wq' Eq).
    - apply Hleft. simpl. auto.
    - apply Hboth; simpl; auto.
    - pose proof (Hleft lv (or_introl eq_refl)) as Hi.
      destruct (item e (Some lv) None) as [e1 c1]. cbn [snd] in *.
      rewrite rd2c_app. apply ceq_app; [exact Hi|]. apply (ceq_add _ _ Wq Wq' Eq).
    - apply (ceq_rem _ _ Wq Wq' Eq).
    - pose proof (Hright rv (or_introl eq_refl)) as Hi.
      destruct (item e None (Some rv)) as [e1 c1]. cbn [snd] in *.
      rewrite rd2c_app. eapply ceq_trans; [apply ceq_app_comm|].
      apply ceq_app; [|exact Hi]. apply (ceq_rem _ _ Wq Wq' Eq).
    - cbn [snd]. generalize (values_eqb_dup_eq (lv :: lv2 :: L) (rv :: rv2 :: Rr)).
      destruct (values_eqb_dup (lv :: lv2 :: L) (rv :: rv2 :: Rr));
        destruct (values_eqb (lv :: lv2 :: L) (rv :: rv2 :: Rr)); intros Hv; try discriminate Hv.
      + apply ceq_refl.
      + apply (ceq_mod _ _ Wq Wq' Eq).
  Qed.

  (* ---- associative lists ---- *)
  Definition pe_rel (a b : pe) : Prop := wf_pe a = true /\ wf_pe b = true /\ peeqb a b = true.

  Lemma list_walk_eq : forall t ll rl lV o1 e1 rV ro e2,
    R (list_elem t) ->
    forallb wf_value ll = true -> forallb wf_value rl = true ->
    forallb (has_pe s t) ll = true -> forallb (has_pe s t) rl = true ->
    gather_values s t ll [] [] false = (lV, o1, e1) ->
    gather_values s t rl [] [] false = (rV, ro, e2) ->
    (forall e e' x y, pe_rel e e' -> In x ll -> In y rl ->
       ceq (snd (rec (list_elem t) (p ++ [e]) (Some x) (Some y)))
           (rd2c (rrec (list_elem t) (p' ++ [e']) x y))) ->
    (forall e e' x, pe_rel e e' -> In x ll ->
       ceq (snd (rec (list_elem t) (p ++ [e]) (Some x) None))
           (rd2c (one_sided false s (list_elem t) x (p' ++ [e'])))) ->
    (forall e e' y, pe_rel e e' -> In y rl ->
       ceq (snd (rec (list_elem t) (p ++ [e]) None (Some y)))
           (rd2c (one_sided true s (list_elem t) y (p' ++ [e'])))) ->
    ceq (cmp_concat (map (fun e => snd (list_F rec p t lV rV e)) (all_pes lV o1 ro)))
        (rd2c (rd_lists rrec s p' t ll rl)).
  Proof.
    intros t ll rl lV o1 e1 rV ro e2 HRe Hll Hrl Hhl Hhr El Er Hboth Hleft Hright.
    pose proof (item_pe_wf_elem s R Hok t) as Hpe. specialize (fun c e => Hpe c e HRe).
    assert (Hiwl : items_wf s t ll) by (eapply items_wf_R; eauto).
    assert (Hiwr : items_wf s t rl) by (eapply items_wf_R; eauto).
    destruct (gather_spec s t Hpe _ _ _ _ Hll El) as (L1 & L2 & L3 & L4 & L5 & L6 & L7).
    destruct (gather_spec s t Hpe _ _ _ _ Hrl Er) as (R1 & R2 & R3 & R4 & R5 & R6 & R7).
    pose proof (all_pes_mem s t lV o1 e1 rV ro e2 _ _ Hpe Hll Hrl El Er) as MA.
    pose proof (all_pes_wf lV o1 ro L3 R3) as WA.
    destruct (group_items_nil_spec s t ll Hiwl Hhl) as (gl & Hgl & Hwgl & Hlkl).
    destruct (group_items_nil_spec s t rl Hiwr Hhr) as (gr & Hgr & Hwgr & Hlkr).
    pose proof (group_entries s t ll gl Hiwl Hgl) as Entl.
    pose proof (group_entries s t rl gr Hiwr Hgr) as Entr.
    unfold rd_lists. rewrite Hgl, Hgr. rewrite rd_fold, rd2c_empty, cmp_app_empty_l.
    unfold reps_wf in Hwgl, Hwgr. rewrite Forall_forall in Hwgl, Hwgr.
    apply (ceq_concat pe pe pe_rel).
    - (* every element of the walker is represented in the reference *)
      intros e He. pose proof (WA e He) as Hwe.
      pose proof (pes_mem_In e _ Hwe He) as Hm. rewrite (MA e Hwe) in Hm.
      rewrite (grp_occ s t e ll Hwe Hiwl), (grp_occ s t e rl Hwe Hiwr) in Hm.
      destruct (occ s t e ll) as [|x0 xs0] eqn:Eol.
      + simpl in Hm. pose proof (Hlkr e Hwe) as Hlk.
        destruct (occ s t e rl) as [|y0 ys0] eqn:Eor; [discriminate|].
        destruct (lookup_group_In _ _ _ Hlk) as (ex & Hex & Hpeq & _).
        pose proof (Hwgr ex Hex) as Hwx.
        exists (fst ex). split.
        * unfold rd_all. apply in_or_app. right. apply in_map. apply filter_In. split; [exact Hex|].
          rewrite (Hlkl (fst ex) Hwx), (occ_cong s t ll (fst ex) e Hiwl Hwx Hwe Hpeq), Eol. reflexivity.
        * split; [exact Hwe|split; [exact Hwx|]]. rewrite (peeqb_sym e (fst ex)); auto.
      + pose proof (Hlkl e Hwe) as Hlk. rewrite Eol in Hlk.
        destruct (lookup_group_In _ _ _ Hlk) as (ex & Hex & Hpeq & _).
        pose proof (Hwgl ex Hex) as Hwx.
        exists (fst ex). split.
        * unfold rd_all. apply in_or_app. left. apply in_map. exact Hex.
        * split; [exact Hwe|split; [exact Hwx|]]. rewrite (peeqb_sym e (fst ex)); auto.
    - (* and conversely *)
      intros e' He'. unfold rd_all in He'. apply in_app_or in He'.
      assert (Hkey : wf_pe e' = true /\ (nonnil (occ s t e' ll) || nonnil (occ s t e' rl) = true)).
      { destruct He' as [He'|He']; apply in_map_iff in He'; destruct He' as (ex & Hfst & Hex).
        - destruct (Entl ex Hex) as (Hw & Hocc & Hne). subst e'. split; [exact Hw|].
          rewrite <- Hocc. destruct (snd ex); [congruence|reflexivity].
        - apply filter_In in Hex. destruct Hex as [Hex _].
          destruct (Entr ex Hex) as (Hw & Hocc & Hne). subst e'. split; [exact Hw|].
          rewrite <- Hocc. destruct (snd ex); [congruence|]. apply orb_true_r. }
      destruct Hkey as [Hwe' Hnn].
      rewrite <- (grp_occ s t e' ll Hwe' Hiwl), <- (grp_occ s t e' rl Hwe' Hiwr), <- (MA e' Hwe') in Hnn.
      apply pes_mem_true in Hnn. destruct Hnn as (y & Hy & Hey).
      exists y. split; [exact Hy|]. pose proof (WA y Hy) as Hwy.
      split; [exact Hwy|split; [exact Hwe'|]]. rewrite (peeqb_sym y e'); auto.
    - (* related elements contribute the same *)
      intros e e' He He' (Hwe & Hwe' & Hee). unfold list_F.
      rewrite (L5 e Hwe), (R5 e Hwe).
      rewrite (grp_occ s t e ll Hwe Hiwl), (grp_occ s t e rl Hwe Hiwr).
      rewrite (occ_cong s t ll e e' Hiwl Hwe Hwe' Hee), (occ_cong s t rl e e' Hiwr Hwe Hwe' Hee).
      apply elem_res_ref; auto.
      + rewrite (Hlkl e' Hwe'). destruct (occ s t e' ll); reflexivity.
      + rewrite (Hlkr e' Hwe'). destruct (occ s t e' rl); reflexivity.
      + intros x y Hx Hy. apply Hboth; [split; auto| |].
        * apply occ_In in Hx. apply Hx.
        * apply occ_In in Hy. apply Hy.
      + intros x Hx. apply Hleft; [split; auto|]. apply occ_In in Hx. apply Hx.
      + intros y Hy. apply Hright; [split; auto|]. apply occ_In in Hy. apply Hy.
  Qed.
End Walks.
