(* The remove/extract walker: one-step forms of the loops, removal of the empty set,
   leaves of a list of paths. *)
From Coq Require Import List ZArith String Bool Arith Lia.
From SMD Require Import Model.Value Model.Order Model.PathElem Model.PathSet Model.Schema
  Model.Walk Model.FieldSet Model.Remove Spec.PathsAsSets Spec.RefValid Spec.Resolve
  Proofs.OrderLaws Proofs.KeyLaws Proofs.PathSetLaws Proofs.ValidateLaws Proofs.SchemaOk
  Proofs.FieldSetMirrors Proofs.FieldSetBase Proofs.FieldSetShape Proofs.FieldSetPaths.
Import ListNotations.
Open Scope bool_scope.

(* ---------- one step of the loops ---------- *)
Definition rm_list_step (s : schema) (extract : bool) (T : pset) (t : listT)
  (item : value) (rest : list value) : list value :=
  let e := list_item_pe_or_zero s t item in
  let has := rm_has T e in
  let subset := rm_subset T e in
  if has && negb extract then rest
  else if has && ps_empty subset then remove_items s extract (list_elem t) subset item :: rest
  else if negb (ps_empty subset) then remove_items s extract (list_elem t) subset item :: rest
  else if extract then rest
  else item :: rest.

Lemma rm_list_go_cons : forall s extract T t item l,
  rm_list_go s extract T t (item :: l) = rm_list_step s extract T t item (rm_list_go s extract T t l).
Proof. reflexivity. Qed.

Definition rm_map_step (s : schema) (extract : bool) (T : pset) (t : mapT)
  (kv : string * value) (rest : list (string * value)) : list (string * value) :=
  let k := fst kv in
  let val := snd kv in
  let e := PEField k in
  let ft := field_type t k in
  if ps_has [e] T then
    if extract then (k, remove_items s extract ft (ps_with_prefix e T) val) :: rest
    else rest
  else
    let subset := ps_with_prefix e T in
    if negb (ps_empty subset) then (k, remove_items s extract ft subset val) :: rest
    else if extract then rest
    else (k, val) :: rest.

Lemma rm_map_go_cons : forall s extract T t kv m,
  rm_map_go s extract T t (kv :: m) = rm_map_step s extract T t kv (rm_map_go s extract T t m).
Proof. intros s extract T t [k val] m. reflexivity. Qed.

Lemma rm_list_go_id : forall s extract T t l,
  (forall x rest, In x l -> rm_list_step s extract T t x rest = x :: rest) ->
  rm_list_go s extract T t l = l.
Proof.
  intros s extract T t l. induction l as [|x l IH]; intros H; [reflexivity|].
  rewrite rm_list_go_cons, H by (simpl; auto). f_equal. apply IH.
  intros y rest Hy. apply H. simpl. auto.
Qed.

Lemma rm_map_go_id : forall s extract T t m,
  (forall kv rest, In kv m -> rm_map_step s extract T t kv rest = kv :: rest) ->
  rm_map_go s extract T t m = m.
Proof.
  intros s extract T t m. induction m as [|kv m IH]; intros H; [reflexivity|].
  rewrite rm_map_go_cons, H by (simpl; auto). f_equal. apply IH.
  intros y rest Hy. apply H. simpl. auto.
Qed.

(* remove_items at a list / map root *)
Lemma remove_items_vlist : forall s extract tr T sc t ma x l,
  resolve s tr = Some (Atom sc (Some t) ma) ->
  remove_items s extract tr T (VList (x :: l)) =
  if rel_is_atomic (list_rel t) then (if extract then VList (x :: l) else VNull)
  else match rm_list_go s extract T t (x :: l) with [] => VNull | items => VList items end.
Proof.
  intros s extract tr T sc t ma x l Hr. rewrite remove_items_eq, Hr, handle_vlist.
  destruct (rel_is_atomic (list_rel t)); [reflexivity|].
  cbv zeta. destruct (rm_list_go s extract T t (x :: l)); reflexivity.
Qed.

Lemma remove_items_vmap : forall s extract tr T sc li t kv m,
  resolve s tr = Some (Atom sc li (Some t)) ->
  remove_items s extract tr T (VMap (kv :: m)) =
  if rel_is_atomic (map_rel t) then (if extract then VMap (kv :: m) else VNull)
  else match rm_map_go s extract T t (kv :: m) with [] => VNull | out => VMap out end.
Proof.
  intros s extract tr T sc li t kv m Hr. rewrite remove_items_eq, Hr, handle_vmap.
  destruct (rel_is_atomic (map_rel t)); [reflexivity|].
  cbv zeta. destruct (rm_map_go s extract T t (kv :: m)); reflexivity.
Qed.

(* ---------- removing the empty set ---------- *)
Lemma ps_with_prefix_empty : forall e, ps_with_prefix e ps_empty_set = ps_empty_set.
Proof. reflexivity. Qed.

Lemma rm_list_go_empty : forall s t l, rm_list_go s false ps_empty_set t l = l.
Proof.
  intros s t l. apply rm_list_go_id. intros x rest _. unfold rm_list_step.
  reflexivity.
Qed.

Lemma rm_map_go_empty : forall s t m, rm_map_go s false ps_empty_set t m = m.
Proof.
  intros s t m. apply rm_map_go_id. intros [k val] rest _. reflexivity.
Qed.

Lemma remove_nothing_gen : forall s tr v,
  match kind_of s tr v with KMap _ _ | KList _ _ => True | _ => False end ->
  remove s tr v ps_empty_set = v.
Proof.
  intros s tr v Hk. unfold remove. destruct (kind_of s tr v) as [|t m|t l|] eqn:Ek; try contradiction.
  - destruct (kind_map_inv _ _ _ _ _ Ek) as ([sc li ma] & Hr & Ham & Hv & Hat & Hne).
    simpl in Ham. subst ma v. destruct m as [|kv m]; [contradiction|].
    rewrite (remove_items_vmap _ _ _ _ _ _ _ _ _ Hr), Hat, rm_map_go_empty. reflexivity.
  - destruct (kind_list_inv _ _ _ _ _ Ek) as ([sc li ma] & Hr & Hal & Hv & Hat & Hne).
    simpl in Hal. subst li v. destruct l as [|x l]; [contradiction|].
    rewrite (remove_items_vlist _ _ _ _ _ _ _ _ _ Hr), Hat, rm_list_go_empty. reflexivity.
Qed.
