(* C14: field set, removal and extraction against the path resolver.
   Statements of FieldSetLaws_statements.v with [wf_schema s] replaced by
   [schema_ok s R -> R tr] (Proofs/SchemaOk.v).  Three of the five statements are false as
   given; the counterexamples and the repaired variants are below:
   - the walkers ignore the error of listItemToPathElement and go on with the zero path
     element ([pe_zero], Model/Walk.v), so that the members of a granular list that is not
     associative ("separable") all get that element: the field set then holds paths that
     designate nothing, and extracting its leaves does not give the object back.
     field_set_paths_resolve and extract_all_leaves need [family_refs s R] (every list
     reached is associative or atomic): field_set_paths_resolve_needs_family,
     extract_all_leaves_needs_family;  to_field_set_ok_family is stated for the family too;
   - remove_absent needs the removal set not to split a keyed member from its key
     fields ([keys_closed items]): remove_absent_keys_closed.
   Proofs: FieldSetMirrors, FieldSetBase, FieldSetShape, FieldSetPaths, RemoveBase,
   ExtractBase, ExtractLaws, RemoveAbsent. *)
From Coq Require Import List ZArith String Bool Arith Lia.
From SMD Require Import Model.Value Model.Order Model.PathElem Model.PathSet Model.Schema
  Model.Walk Model.Validate Model.FieldSet Model.Remove Spec.PathsAsSets Spec.RefValid Spec.Resolve
  Spec.Examples
  Proofs.OrderLaws Proofs.PathSetLaws Proofs.ValidateLaws Proofs.SchemaOk
  Proofs.FieldSetMirrors Proofs.FieldSetBase Proofs.FieldSetShape Proofs.FieldSetPaths
  Proofs.RemoveBase Proofs.ExtractBase Proofs.ExtractLaws Proofs.RemoveAbsent.
Import ListNotations.
Open Scope bool_scope.

(* the walker inserts well-formed paths, and ToFieldSet succeeds on valid values of the
   family (every list reached is associative or atomic) *)
Theorem to_field_set_ok_family : forall s R tr v,
  schema_ok s R -> R tr -> family_refs s R -> wf_value v = true -> conforms s tr true v = true ->
  exists fs, to_field_set s tr v = Some fs /\ ps_ok fs = true.
Proof.
  intros s R tr v Hok Htr Hfam Hwf Hc. rewrite to_field_set_eq.
  rewrite (fse_ok s R Hok Hfam v tr Htr Hwf Hc).
  exists (ps_of_paths (fsp s tr v)). split; [reflexivity|].
  apply ps_of_paths_ok. apply (fsp_wf_all s R Hok); assumption.
Qed.

(* every path in an object's field set designates a node of the object *)
Theorem field_set_paths_resolve : forall s R tr v fs p,
  schema_ok s R -> R tr -> family_refs s R -> wf_value v = true -> conforms s tr true v = true ->
  to_field_set s tr v = Some fs -> wf_path p = true -> ps_has p fs = true ->
  present s tr v p = true.
Proof.
  intros s R tr v fs p Hok Htr Hfam Hwf Hc Hfs Hp Hhas. rewrite to_field_set_eq in Hfs.
  destruct (fse s tr v) eqn:Hfse; [discriminate|]. inversion Hfs; subst fs. clear Hfs.
  assert (Hne : p <> []) by (intros ->; discriminate).
  pose proof (fsp_wf_all s R Hok v tr Htr Hwf) as Hall.
  rewrite (ps_has_of_paths _ p Hall Hp Hne) in Hhas.
  unfold pmem in Hhas. apply existsb_exists in Hhas. destruct Hhas as (q & Hq & Hpq).
  rewrite forallb_forall in Hall.
  rewrite (present_patheqb s R Hok p q Hpq Hp (Hall q Hq) v tr Htr Hwf).
  apply (fsp_present s R Hok Hfam v tr q Htr Hwf Hc Hq).
Qed.

(* removing nothing changes nothing (roots that are granular containers) *)
Theorem remove_nothing : forall s R tr v,
  schema_ok s R -> R tr -> wf_value v = true -> conforms s tr true v = true -> plain v = true ->
  match kind_of s tr v with KMap _ _ | KList _ _ => True | _ => False end ->
  remove s tr v ps_empty_set = v.
Proof. intros s R tr v _ _ _ _ _ Hk. apply remove_nothing_gen. exact Hk. Qed.

(* extracting all leaf paths of the field set reproduces the object (plain objects) *)
Theorem extract_all_leaves : forall s R tr v fs,
  schema_ok s R -> R tr -> family_refs s R -> wf_value v = true -> conforms s tr false v = true ->
  plain v = true ->
  to_field_set s tr v = Some fs ->
  extract s tr false v (ps_leaves fs) = v.
Proof.
  intros s R tr v fs Hok Htr Hfam Hwf Hc Hpl Hfs. rewrite to_field_set_eq in Hfs.
  destruct (fse s tr v) eqn:Hfse; [discriminate|]. inversion Hfs; subst fs. clear Hfs.
  unfold extract. apply (extract_gen s R Hok Hfam); auto.
  apply leaves_of_root. apply (fsp_wf_all s R Hok); assumption.
Qed.

(* removal leaves no listed member behind, when the removal set does not split a keyed
   list member from its key fields *)
Theorem remove_absent_keys_closed : forall s R tr v items p,
  schema_ok s R -> R tr -> wf_value v = true -> conforms s tr false v = true ->
  ps_ok items = true -> keys_closed items -> wf_path p = true -> ps_has p items = true ->
  present s tr (remove s tr v items) p = false.
Proof.
  intros s R tr v items p Hok Htr Hwf Hc Hi Hkc Hp Hhas. unfold remove.
  apply (remove_absent_gen s R Hok); assumption.
Qed.

(* ------------------------------------------------------------------ *)
(* finite sets of type references *)
Ltac in_list := simpl; repeat (first [left; reflexivity | right]); fail.
Ltac split_in H := simpl in H; repeat (destruct H as [H|H]; [subst|]); try contradiction.

(* satisfiability of the hypotheses: the example schema *)
Open Scope string_scope.
Definition ex_tags_tr := TR None (Atom None (Some (ListT ex_str RAssociative [])) None) None.
Definition ex_items_tr :=
  TR None (Atom None (Some (ListT (ex_named "item") RAssociative ["name"])) None) None.
Definition ex_mm_tr := TR None (Atom None None (Some (MapT [] ex_num RUnset))) None.
Definition ex_R (tr : typeref) : Prop :=
  In tr [ex_rt; ex_named "item"; ex_str; ex_num; ex_tags_tr; ex_items_tr; ex_mm_tr; empty_tr].

Example ex_R_root : ex_R ex_rt.
Proof. unfold ex_R. simpl. auto. Qed.

Example ex_schema_ok : schema_ok ex_schema ex_R.
Proof.
  constructor.
  - intros tr a t Htr Hr Ha. unfold ex_R in *. split_in Htr;
      vm_compute in Hr; inversion Hr; subst a; simpl in Ha; inversion Ha; subst t;
      simpl; auto 10.
  - intros tr a m k Htr Hr Ha. unfold ex_R in *. split_in Htr;
      vm_compute in Hr; inversion Hr; subst a; simpl in Ha; inversion Ha; subst m;
      unfold field_type; simpl;
      repeat (match goal with |- context [String.eqb ?x ?y] => destruct (String.eqb x y) end; simpl);
      auto 10.
  - intros tr a Htr Hr. unfold ex_R in *. split_in Htr;
      vm_compute in Hr; inversion Hr; subst a; reflexivity.
Qed.

Example ex_family : family_refs ex_schema ex_R.
Proof.
  intros tr a t Htr Hr Ha. unfold ex_R in *. split_in Htr;
    vm_compute in Hr; inversion Hr; subst a; simpl in Ha; inversion Ha; subst t; simpl; auto.
Qed.

(* ------------------------------------------------------------------ *)
(* without [family_refs]: listItemToPathElement fails on the members of a conforming
   "separable" list, the walkers go on with the zero path element, and the field set
   holds a path that designates nothing *)
Definition sep_tr := TR None (Atom None (Some (ListT ex_str RSeparable [])) None) None.
Definition sep_R (tr : typeref) : Prop := In tr [sep_tr; ex_str].

Example sep_schema_ok : schema_ok [] sep_R.
Proof.
  constructor.
  - intros tr a t Htr Hr Ha. unfold sep_R in *. split_in Htr;
      vm_compute in Hr; inversion Hr; subst a; simpl in Ha; inversion Ha; subst t; simpl; auto.
  - intros tr a m k Htr Hr Ha. unfold sep_R in *. split_in Htr;
      vm_compute in Hr; inversion Hr; subst a; simpl in Ha; inversion Ha.
  - intros tr a Htr Hr. unfold sep_R in *. split_in Htr;
      vm_compute in Hr; inversion Hr; subst a; reflexivity.
Qed.

Example field_set_paths_resolve_counterexample :
  (wf_value (VList [VStr "a"]), conforms [] sep_tr true (VList [VStr "a"]),
   to_field_set [] sep_tr (VList [VStr "a"]),
   wf_path [pe_zero], ps_has [pe_zero] (ps_of_paths [[pe_zero]; [pe_zero]]),
   present [] sep_tr (VList [VStr "a"]) [pe_zero])
  = (true, true, Some (ps_of_paths [[pe_zero]; [pe_zero]]), true, true, false).
Proof. vm_compute. reflexivity. Qed.

Theorem field_set_paths_resolve_needs_family :
  ~ (forall s R tr v fs p,
       schema_ok s R -> R tr -> wf_value v = true -> conforms s tr true v = true ->
       to_field_set s tr v = Some fs -> wf_path p = true -> ps_has p fs = true ->
       present s tr v p = true).
Proof.
  intros H.
  assert (Hf : present [] sep_tr (VList [VStr "a"]) [pe_zero] = true).
  { apply (H [] sep_R sep_tr (VList [VStr "a"]) (ps_of_paths [[pe_zero]; [pe_zero]]) [pe_zero]
             sep_schema_ok); try (vm_compute; reflexivity).
    unfold sep_R. simpl. auto. }
  vm_compute in Hf. discriminate.
Qed.

(* the same for extraction: the two members of a separable list of maps share the zero
   path element, the walker records it as a duplicated (leaf) member without descending,
   and extracting that leaf empties both members *)
Definition sepm_item_tr :=
  TR None (Atom None None (Some (MapT [SField "x" ex_num None; SField "y" ex_num None]
                                      empty_tr RUnset))) None.
Definition sepm_tr := TR None (Atom None (Some (ListT sepm_item_tr RSeparable [])) None) None.
Definition sepm_R (tr : typeref) : Prop := In tr [sepm_tr; sepm_item_tr; ex_num; empty_tr].
Definition sepm_v := VList [VMap [("x", VInt 1)]; VMap [("y", VInt 2)]].

Example sepm_schema_ok : schema_ok [] sepm_R.
Proof.
  constructor.
  - intros tr a t Htr Hr Ha. unfold sepm_R in *. split_in Htr;
      vm_compute in Hr; inversion Hr; subst a; simpl in Ha; inversion Ha; subst t; simpl; auto.
  - intros tr a m k Htr Hr Ha. unfold sepm_R in *. split_in Htr;
      vm_compute in Hr; inversion Hr; subst a; simpl in Ha; inversion Ha; subst m;
      unfold field_type; simpl;
      repeat (match goal with |- context [String.eqb ?x ?y] => destruct (String.eqb x y) end; simpl);
      auto 10.
  - intros tr a Htr Hr. unfold sepm_R in *. split_in Htr;
      vm_compute in Hr; inversion Hr; subst a; reflexivity.
Qed.

Example extract_all_leaves_counterexample :
  (wf_value sepm_v, conforms [] sepm_tr false sepm_v, plain sepm_v,
   to_field_set [] sepm_tr sepm_v,
   extract [] sepm_tr false sepm_v (ps_leaves (ps_of_paths [[pe_zero]])))
  = (true, true, true, Some (ps_of_paths [[pe_zero]]), VList [VNull; VNull]).
Proof. vm_compute. reflexivity. Qed.

Theorem extract_all_leaves_needs_family :
  ~ (forall s R tr v fs,
       schema_ok s R -> R tr -> wf_value v = true -> conforms s tr false v = true ->
       plain v = true -> to_field_set s tr v = Some fs ->
       extract s tr false v (ps_leaves fs) = v).
Proof.
  intros H.
  assert (Hf : extract [] sepm_tr false sepm_v (ps_leaves (ps_of_paths [[pe_zero]])) = sepm_v).
  { apply (H [] sepm_R sepm_tr sepm_v (ps_of_paths [[pe_zero]]) sepm_schema_ok);
      try (vm_compute; reflexivity).
    unfold sepm_R. simpl. auto. }
  vm_compute in Hf. discriminate.
Qed.

(* remove_absent is false without [keys_closed]: removing the key field of a keyed list
   member changes the member's path element (here to the defaulted key), so that another
   listed path designates a node of the result *)
Definition d_item : atom :=
  Atom None None (Some (MapT [SField "name" ex_str (Some (VStr "b")); SField "x" ex_num None]
                             empty_tr RUnset)).
Definition d_item_tr := TR None d_item None.
Definition d_tr := TR None (Atom None (Some (ListT d_item_tr RAssociative ["name"])) None) None.
Definition d_R (tr : typeref) : Prop := In tr [d_tr; d_item_tr; ex_str; ex_num; empty_tr].
Definition d_v := VList [VMap [("name", VStr "a"); ("x", VInt 1)]].
Definition d_ka := PEKey [("name", VStr "a")].
Definition d_kb := PEKey [("name", VStr "b")].
Definition d_items := ps_of_paths [[d_ka; PEField "name"]; [d_kb; PEField "x"]].
Definition d_p := [d_kb; PEField "x"].

Example d_schema_ok : schema_ok [] d_R.
Proof.
  constructor.
  - intros tr a t Htr Hr Ha. unfold d_R in *. split_in Htr;
      vm_compute in Hr; inversion Hr; subst a; simpl in Ha; inversion Ha; subst t; simpl; auto 10.
  - intros tr a m k Htr Hr Ha. unfold d_R in *. split_in Htr;
      vm_compute in Hr; inversion Hr; subst a; simpl in Ha; inversion Ha; subst m;
      unfold field_type; simpl;
      repeat (match goal with |- context [String.eqb ?x ?y] => destruct (String.eqb x y) end; simpl);
      auto 10.
  - intros tr a Htr Hr. unfold d_R in *. split_in Htr;
      vm_compute in Hr; inversion Hr; subst a; reflexivity.
Qed.

Example remove_absent_counterexample :
  (wf_value d_v, conforms [] d_tr false d_v, ps_ok d_items, wf_path d_p, ps_has d_p d_items,
   remove [] d_tr d_v d_items, present [] d_tr (remove [] d_tr d_v d_items) d_p)
  = (true, true, true, true, true, VList [VMap [("x", VInt 1)]], true).
Proof. vm_compute. reflexivity. Qed.

Theorem remove_absent_false :
  ~ (forall s R tr v items p,
       schema_ok s R -> R tr -> wf_value v = true -> conforms s tr false v = true ->
       ps_ok items = true -> wf_path p = true -> ps_has p items = true ->
       present s tr (remove s tr v items) p = false).
Proof.
  intros H.
  assert (Hf : present [] d_tr (remove [] d_tr d_v d_items) d_p = false).
  { apply (H [] d_R d_tr d_v d_items d_p d_schema_ok); try (vm_compute; reflexivity).
    unfold d_R. simpl. auto. }
  vm_compute in Hf. discriminate.
Qed.

(* the same without defaults, when a key field holds a map: removing part of the key
   value changes the member's path element *)
Definition m_key := TR None (Atom None None (Some (MapT [] ex_num RUnset))) None.
Definition m_item : atom :=
  Atom None None (Some (MapT [SField "name" m_key None] empty_tr RUnset)).
Definition m_tr :=
  TR None (Atom None (Some (ListT (TR None m_item None) RAssociative ["name"])) None) None.
Definition m_v := VList [VMap [("name", VMap [("a", VInt 1); ("b", VInt 2)])]].
Definition m_kab := PEKey [("name", VMap [("a", VInt 1); ("b", VInt 2)])].
Definition m_kb := PEKey [("name", VMap [("b", VInt 2)])].
Definition m_items :=
  ps_of_paths [[m_kab; PEField "name"; PEField "a"]; [m_kb; PEField "name"; PEField "b"]].
Definition m_p := [m_kb; PEField "name"; PEField "b"].

Example remove_absent_counterexample_mapkey :
  (wf_value m_v, conforms [] m_tr false m_v, ps_ok m_items, wf_path m_p, ps_has m_p m_items,
   remove [] m_tr m_v m_items, present [] m_tr (remove [] m_tr m_v m_items) m_p)
  = (true, true, true, true, true, VList [VMap [("name", VMap [("b", VInt 2)])]], true).
Proof. vm_compute. reflexivity. Qed.

(* sets that do not go through key fields at all are closed *)
Lemma keys_closed_empty : keys_closed ps_empty_set.
Proof.
  intros pre fl k rest _ _ H. rewrite (ps_empty_has ps_empty_set _ eq_refl) in H. discriminate.
Qed.

