(* The prune stage of Apply (single version, identity converter), with the removal sets
   made explicit.  Proofs/ApplyEffect.v shows that every object the prune stage builds is
   [remove M T] for a nice set T but hides T; here the sets are exposed:
     one add-back pass      T1 = nodes(M) \ (nodes(P) U en U)              [pass_set]
     the dangling stage     T2 = (nodes(M) \ nodes(P1)) n en last           [dangling_set]
   and the unfolding of [prune] is redone with an arbitrary invariant Q of the pruned
   object that the passes preserve [prune_shape].  Used for C03 / C02 (Proofs/ApplyPrune.v). *)
From Coq Require Import List ZArith String Bool Arith Lia.
From SMD Require Import Model.Value Model.Order Model.PathElem Model.PathSet Model.Schema Model.Walk
  Model.Validate Model.FieldSet Model.Remove Model.Merge Model.Compare Model.Matcher Model.Reconcile
  Model.Updater
  Spec.PathsAsSets Spec.RefValid Spec.Resolve Spec.Agree Spec.Examples
  Proofs.OrderLaws Proofs.PathSetLaws Proofs.SchemaOk Proofs.FieldSetBase Proofs.FieldSetPaths
  Proofs.FieldSetWf Proofs.FieldSetLaws Proofs.RemoveAbsent Proofs.RemoveWf Proofs.ResolveLaws
  Proofs.UpdaterLaws Proofs.UpdaterLaws2 Proofs.MergeLaws Proofs.MergeAgree
  Proofs.RemoveFrame Proofs.EnLaws Proofs.NodeSet Proofs.KeyFields Proofs.VeqbResolve
  Proofs.SetCheckers Proofs.ApplyEffect.
Import ListNotations.
Open Scope bool_scope.
Open Scope list_scope.

Local Arguments ps_has : simpl never.
Local Arguments ps_with_prefix : simpl never.
Local Arguments ps_empty : simpl never.

Section Shape.
  Variables (s : schema) (R : typeref -> Prop) (tr : typeref).
  Hypothesis Hok : schema_ok s R.
  Hypothesis Hfam : family_refs s R.
  Hypothesis Htr : R tr.
  Hypothesis Hnd : keys_nodefault s R.
  Hypothesis Hks : keys_scalar s R.

  Variables (live cfg M : value).
  Hypothesis Hwc : wf_value cfg = true.
  Hypothesis Hcc : conforms s tr false cfg = true.
  Hypothesis Hpl : plain cfg = true.
  Hypothesis HwM : wf_value M = true.
  Hypothesis HcM : conforms s tr true M = true.
  Hypothesis Hlf : LeafP s tr (Some live) (Some cfg) M.

  Variables (set0 U : pset).
  Hypothesis Hset0 : to_field_set s tr cfg = Some set0.
  Hypothesis HU : ps_ok U = true.
  Hypothesis HUcfg : forall q, wf_path q = true -> ps_has q set0 = true -> ps_has q U = true.
  Hypothesis HUown : forall q, wf_path q = true -> ps_has q U = true ->
    ps_has q set0 = true \/
    exists S, ps_ok S = true /\ owns_live_keys s tr live S /\ ps_has q S = true /\
              forall q', wf_path q' = true -> ps_has q' S = true -> ps_has q' U = true.

  Let Hcc' : conforms s tr true cfg = true := MergeBase.conforms_dup_mono s cfg tr Hcc.

  (* the set one add-back pass removes from M, given the set T0 removed so far *)
  Definition pass_T (T0 : pset) : pset :=
    ps_diff (node_set s tr M) (ps_union (node_set s tr (remove s tr M T0)) (ps_en s tr U)).

  (* the set the dangling stage removes from M *)
  Definition dangling_T (T1 lastS : pset) : pset :=
    ps_inter (ps_diff (node_set s tr M) (node_set s tr (remove s tr M T1))) (ps_en s tr lastS).

  Lemma removed_obj : forall T0, nice s tr M T0 ->
    wf_value (remove s tr M T0) = true /\ conforms s tr true (remove s tr M T0) = true.
  Proof.
    intros T0 Hn0. split.
    - apply remove_wf. exact HwM.
    - apply (remove_conforms s R Hok Hfam Hnd M tr T0 Htr HwM HcM Hn0).
  Qed.

  (* the first removal: the closure of the applier's previous record *)
  Lemma first_set_nice : forall lastS, ps_ok lastS = true -> applier_record_ok s tr lastS ->
    nice s tr M (ps_en s tr lastS).
  Proof.
    intros lastS Hlok [Hkc Hfree].
    pose proof (ps_en_ok s lastS tr Hlok) as HokL.
    split; [exact HokL| |].
    - apply keys_closed_guarded; [exact HokL|]. apply en_keys_closed; assumption.
    - apply (items_ok_of_free s R Hok Hfam Hnd M tr true _ Htr HwM HcM HokL).
      apply atomic_items_free_en; assumption.
  Qed.

  Theorem pass_set : forall T0, nice s tr M T0 ->
    ps_ok (pass_T T0) = true /\
    (forall q, wf_path q = true ->
       ps_has q (pass_T T0) = ps_has q (node_set s tr M) &&
                              negb (ps_has q (node_set s tr (remove s tr M T0)) || ps_has q (ps_en s tr U))) /\
    nice s tr M (pass_T T0).
  Proof.
    intros T0 Hn0.
    destruct (removed_obj T0 Hn0) as [HwP HcP].
    unfold pass_T.
    set (P := remove s tr M T0) in *.
    pose proof (node_set_ok s R Hok tr M Htr HwM) as HokM.
    pose proof (node_set_ok s R Hok tr P Htr HwP) as HokP.
    pose proof (ps_en_ok s U tr HU) as HokEU.
    destruct (ps_union_spec _ _ HokP HokEU) as [HokUn HhasUn].
    destruct (ps_diff_spec _ _ HokM HokUn) as [HokT HhasT].
    set (T1 := ps_diff (node_set s tr M) (ps_union (node_set s tr P) (ps_en s tr U))) in *.
    assert (Hhas : forall q, wf_path q = true ->
              ps_has q T1 = ps_has q (node_set s tr M) &&
                            negb (ps_has q (node_set s tr P) || ps_has q (ps_en s tr U))).
    { intros q Hq. rewrite (HhasT q Hq), (HhasUn q Hq). reflexivity. }
    split; [exact HokT|]. split; [exact Hhas|].
    assert (Hsp : sub_present s tr M T1).
    { intros q Hq Hq1. rewrite (Hhas q Hq) in Hq1. apply andb_true_iff in Hq1.
      apply (node_set_present s R Hok Hfam tr M q Htr HwM HcM Hq). apply Hq1. }
    assert (Hkg : keys_guarded T1).
    { intros pre fl k rest Hwf Hin Hmem.
      destruct (touches (pre ++ [PEKey fl]) T1) eqn:Et; [reflexivity|]. exfalso.
      rewrite (Hhas _ Hwf) in Hmem. apply andb_true_iff in Hmem. destruct Hmem as [HinM Hnot].
      apply negb_true_iff in Hnot. apply orb_false_iff in Hnot. destruct Hnot as [HnotP HnotU].
      destruct (key_path_in_M s R tr Hok Hfam Htr Hks M HwM HcM pre fl k rest Hwf Hin HinM)
        as (-> & tk & x & Hres & Hsimple & HI).
      assert (HwI : wf_path (pre ++ [PEKey fl]) = true) by (eapply wf_path_key_prefix; eauto).
      pose proof (touches_false_has _ _ HokT HwI Et) as HI1.
      rewrite (Hhas _ HwI), HI in HI1. cbn [andb] in HI1.
      apply negb_false_iff in HI1. apply orb_true_iff in HI1.
      assert (Hcfgk : forall c, resolve_path s tr cfg (pre ++ [PEKey fl; PEField k]) = Some c -> False).
      { intros c Hc.
        rewrite (cfg_nodes_in_U s R tr Hok Hfam Htr cfg Hwc Hcc Hpl set0 U Hset0 HU HUcfg _ c Hwf
                   ltac:(destruct pre; discriminate) Hc) in HnotU.
        discriminate. }
      destruct HI1 as [HIP|HIU].
      - pose proof (node_set_present s R Hok Hfam tr P _ Htr HwP HcP HwI HIP) as Hpr.
        pose proof (key_item_kept s R tr Hok Hfam Htr Hnd M HwM HcM T0 pre fl k tk x Hn0 Hwf Hin Hres Hsimple Hpr) as Hkept.
        change (remove s tr M T0) with P in Hkept. rewrite Hkept in HnotP. discriminate.
      - rewrite (en_has_nonfield s tr U pre (PEKey fl) HU HwI I) in HIU.
        destruct (HUown _ HwI HIU) as [Hcfg|(S & HS & HK2 & HIS & HSU)].
        + pose proof (field_set_paths_resolve s R tr cfg set0 _ Hok Htr Hfam Hwc Hcc' Hset0 HwI Hcfg) as Hprc.
          unfold present in Hprc.
          destruct (resolve_path s tr cfg (pre ++ [PEKey fl])) as [[ti xi|ti xs]|] eqn:Eitem;
            [|exfalso; apply (conforms_no_dup s R Hok Hfam _ cfg tr ti xs Htr Hwc Hcc HwI Eitem)|discriminate].
          destruct (item_key_explicit s R Hok Hfam Hnd pre fl k cfg tr false ti xi Htr Hwc Hcc HwI Eitem Hin)
            as (m & val & -> & Hval).
          assert (Happ : pre ++ [PEKey fl; PEField k] = (pre ++ [PEKey fl]) ++ [PEField k])
            by (rewrite <- app_assoc; reflexivity).
          rewrite Happ, resolve_path_app in Hres.
          destruct (resolve_path s tr M (pre ++ [PEKey fl])) as [[ti' xi'|ti' xs']|] eqn:EitemM; try discriminate.
          pose proof (resolve_type_eq s _ cfg M tr ti (VMap m) ti' xi' Eitem EitemM) as <-.
          destruct (kind_of s ti xi') as [|tm m'|tm l'|] eqn:Ekm;
            try (rewrite resolve_path_leaf in Hres by (rewrite Ekm; exact I); discriminate).
          2:{ rewrite (resolve_path_list_other _ _ _ _ _ _ _ Ekm) in Hres by reflexivity. discriminate. }
          destruct (kind_map_inv _ _ _ _ _ Ekm) as (a & Hr & Ham & _ & Hna & _).
          destruct a as [sc li ma]. simpl in Ham. subst ma.
          assert (Ekc : kind_of s ti (VMap m) = KMap tm m).
          { unfold kind_of. rewrite Hr, Hna. destruct m; [discriminate|reflexivity]. }
          apply (Hcfgk (RNode (field_type tm k) val)).
          rewrite Happ, resolve_path_app, Eitem, (resolve_path_map _ _ _ _ _ _ _ Ekc), Hval. reflexivity.
        + assert (Hleaf : rnode_is_leaf s (RNode tk x) = true).
          { simpl. destruct Hsimple as [Hs|Hs].
            - pose proof (scalar_leafy s tk x Hs) as Hl. unfold leafy in Hl.
              destruct (kind_of s tk x); try contradiction; reflexivity.
            - subst x. pose proof (kind_null s tk) as Hl. destruct (kind_of s tk VNull); try contradiction; reflexivity. }
          destruct (Hlf _ _ Hwf Hres Hleaf) as [Hfrom|Hfrom]; simpl in Hfrom; unfold has_leaf in Hfrom.
          * destruct (resolve_path s tr cfg (pre ++ [PEKey fl; PEField k])) as [c|] eqn:Ec; [|discriminate].
            apply (Hcfgk c eq_refl).
          * assert (Hprl : present s tr live (pre ++ [PEKey fl; PEField k]) = true).
            { unfold present. destruct (resolve_path s tr live (pre ++ [PEKey fl; PEField k])); [reflexivity|discriminate]. }
            pose proof (HK2 pre fl k Hwf Hin HIS Hprl) as HkS.
            rewrite (en_has_mono s tr U _ HU Hwf (HSU _ Hwf HkS)) in HnotU. discriminate. }
    apply (sub_present_nice s R Hok Hfam M tr true T1 Htr HwM HcM HokT Hkg Hsp).
  Qed.

  Theorem dangling_set : forall T1 lastS, nice s tr M T1 ->
    ps_ok lastS = true -> keys_closed lastS ->
    ps_ok (dangling_T T1 lastS) = true /\
    (forall q, wf_path q = true ->
       ps_has q (dangling_T T1 lastS) =
       ps_has q (node_set s tr M) && negb (ps_has q (node_set s tr (remove s tr M T1))) &&
       ps_has q (ps_en s tr lastS)) /\
    nice s tr M (dangling_T T1 lastS).
  Proof.
    intros T1 lastS Hn1 Hlast Hkc.
    destruct (removed_obj T1 Hn1) as [HwP HcP].
    unfold dangling_T.
    set (P1 := remove s tr M T1) in *.
    pose proof (node_set_ok s R Hok tr M Htr HwM) as HokM.
    pose proof (node_set_ok s R Hok tr P1 Htr HwP) as HokP.
    pose proof (ps_en_ok s lastS tr Hlast) as HokL.
    destruct (ps_diff_spec _ _ HokM HokP) as [HokD HhasD].
    destruct (ps_inter_spec _ _ HokD HokL) as [HokT HhasT].
    set (T2 := ps_inter (ps_diff (node_set s tr M) (node_set s tr P1)) (ps_en s tr lastS)) in *.
    assert (Hhas : forall q, wf_path q = true ->
              ps_has q T2 = ps_has q (node_set s tr M) && negb (ps_has q (node_set s tr P1)) &&
                            ps_has q (ps_en s tr lastS)).
    { intros q Hq. rewrite (HhasT q Hq), (HhasD q Hq). reflexivity. }
    split; [exact HokT|]. split; [exact Hhas|].
    assert (Hsp : sub_present s tr M T2).
    { intros q Hq Hq1. rewrite (Hhas q Hq) in Hq1. apply andb_true_iff in Hq1. destruct Hq1 as [Hq1 _].
      apply andb_true_iff in Hq1.
      apply (node_set_present s R Hok Hfam tr M q Htr HwM HcM Hq). apply Hq1. }
    assert (Hkg : keys_guarded T2).
    { intros pre fl k rest Hwf Hin Hmem.
      destruct (touches (pre ++ [PEKey fl]) T2) eqn:Et; [reflexivity|]. exfalso.
      rewrite (Hhas _ Hwf) in Hmem. apply andb_true_iff in Hmem. destruct Hmem as [Hmem HinL].
      apply andb_true_iff in Hmem. destruct Hmem as [HinM HnotP]. apply negb_true_iff in HnotP.
      destruct (key_path_in_M s R tr Hok Hfam Htr Hks M HwM HcM pre fl k rest Hwf Hin HinM)
        as (-> & tk & x & Hres & Hsimple & HI).
      assert (HwI : wf_path (pre ++ [PEKey fl]) = true) by (eapply wf_path_key_prefix; eauto).
      pose proof (en_keys_closed s tr lastS Hlast Hkc pre fl k [] Hwf Hin HinL) as HIL.
      pose proof (touches_false_has _ _ HokT HwI Et) as HI2.
      rewrite (Hhas _ HwI), HI, HIL in HI2. cbn [andb] in HI2. rewrite andb_true_r in HI2.
      apply negb_false_iff in HI2.
      pose proof (node_set_present s R Hok Hfam tr P1 _ Htr HwP HcP HwI HI2) as Hpr.
      pose proof (key_item_kept s R tr Hok Hfam Htr Hnd M HwM HcM T1 pre fl k tk x Hn1 Hwf Hin Hres Hsimple Hpr) as Hkept.
      change (remove s tr M T1) with P1 in Hkept. rewrite Hkept in HnotP. discriminate. }
    apply (sub_present_nice s R Hok Hfam M tr true T2 Htr HwM HcM HokT Hkg Hsp).
  Qed.

  (* ================= the prune stage, with an invariant ================= *)

  Variable Q : value -> Prop.
  Hypothesis HQ : forall T0, nice s tr M T0 -> Q (remove s tr M T0) ->
    Q (remove s tr M (pass_T T0)).

  Definition inv (P : value) : Prop :=
    exists T, nice s tr M T /\ P = remove s tr M T /\ Q P.

  Variables (c : config) (ver : string).
  Hypothesis Hcid : conv_id c.
  Hypothesis Hsch : schema_of c ver = s.
  Hypothesis Htrr : tr_of c ver = tr.

  Lemma afv_inv : forall n p m' p'' added n', fst p = ver -> inv (snd p) ->
    add_back_for_version c n (ver, M) p ver U = UOk (m', p'', added, n') ->
    m' = (ver, M) /\ fst p'' = ver /\ inv (snd p'').
  Proof.
    intros n p m' p'' added n' Hp HP H.
    unfold add_back_for_version in H. rewrite !(convert_id c Hcid) in H. cbn [snd] in H.
    rewrite !(to_fs_ver s tr c ver Hsch Htrr) in H.
    destruct (to_field_set s tr M) as [SM|] eqn:ESM; [|discriminate].
    destruct (to_field_set s tr (snd p)) as [SP|] eqn:ESP; [|discriminate].
    rewrite !(en_ver s tr c ver Hsch Htrr), (remove_tv_ver s tr c ver Hsch Htrr) in H.
    rewrite (to_fs_ver s tr c ver Hsch Htrr) in H.
    destruct (to_field_set s tr (remove s tr M _)) as [newSet|]; [|discriminate].
    inversion H; subst m' p'' added n'. clear H. cbn [fst snd]. repeat split; auto.
    destruct HP as (T0 & Hn0 & HP0 & HQ0).
    destruct (removed_obj T0 Hn0) as [HwP HcP].
    rewrite HP0 in ESP, HQ0.
    rewrite (to_field_set_node_set s R tr M SM Htr HwM HcM ESM).
    rewrite (to_field_set_node_set s R tr _ SP Htr HwP HcP ESP).
    fold (pass_T T0).
    exists (pass_T T0). split; [apply (pass_set T0 Hn0)|]. split; [reflexivity|].
    apply HQ; assumption.
  Qed.

  Lemma round_inv : forall vs n p ch m' p' ch' n', fst p = ver -> inv (snd p) ->
    fold_left (ab_step U c ver) vs (UOk ((ver, M), p, ch, n)) = UOk (m', p', ch', n') ->
    m' = (ver, M) /\ fst p' = ver /\ inv (snd p').
  Proof.
    induction vs as [|v vs IH]; intros n p ch m' p' ch' n' Hp HP H.
    - simpl in H. inversion H; subst. repeat split; auto.
    - cbn [fold_left] in H. unfold ab_step at 2 in H. cbn [assoc_get] in H.
      destruct (String.eqb v ver) eqn:Ev.
      + apply String.eqb_eq in Ev. subst v.
        destruct (add_back_for_version c n (ver, M) p ver U) as [[[[m1 p1] added] n1]|e] eqn:Eafv;
          [|rewrite ab_step_err in H; discriminate].
        destruct (afv_inv n p m1 p1 added n1 Hp HP Eafv) as (-> & Hp1 & HP1).
        apply (IH n1 p1 (ch || added) m' p' ch' n' Hp1 HP1 H).
      + apply (IH n p ch m' p' ch' n' Hp HP H).
  Qed.

  Lemma rounds_inv : forall fuel os n p prev p' n', fst p = ver -> inv (snd p) ->
    add_back_rounds fuel c [(ver, U)] os n (ver, M) p prev = UOk (p', n') ->
    fst p' = ver /\ inv (snd p').
  Proof.
    induction fuel as [|fuel IH]; intros os n p prev p' n' Hp HP H; [discriminate|].
    cbn [add_back_rounds] in H. rewrite add_back_round_fold in H.
    match type of H with
    | context [fold_left ?f ?l ?a] =>
        destruct (fold_left f l a) as [[[[m1 p1] ch1] n1]|e] eqn:Er; [|discriminate H]
    end.
    destruct (round_inv os n p false m1 p1 ch1 n1 Hp HP Er) as (-> & Hp1 & HP1).
    match type of H with context [if ?bb then _ else _] => destruct bb end.
    - match type of H with context [if ?bb then _ else _] => destruct bb end.
      + inversion H; subst. auto.
      + apply (IH os n1 p1 (Some p1) p' n' Hp1 HP1 H).
    - inversion H; subst. auto.
  Qed.

  (* the whole prune stage: the result is the removal from M of the dangling set computed
     from an object [remove M T1] that satisfies the invariant *)
  Theorem prune_shape : forall n mfp mgr last pruned n1,
    managed_at_version mfp = [(ver, U)] ->
    (forall r, mf_get mgr mfp = Some r -> mr_ver r = ver) ->
    mr_ver last = ver -> ps_ok (mr_set last) = true -> applier_record_ok s tr (mr_set last) ->
    ps_empty (mr_set last) = false ->
    Q (remove s tr M (ps_en s tr (mr_set last))) ->
    prune c n (ver, M) mfp mgr (Some last) = UOk (pruned, n1) ->
    exists T1, nice s tr M T1 /\ Q (remove s tr M T1) /\
      pruned = (ver, remove s tr M (dangling_T T1 (mr_set last))).
  Proof.
    intros n mfp mgr last pruned n1 Hmav Htarget Hlv Hlok Hlrec Hne HQ0 H.
    unfold prune in H. rewrite Hne in H.
    rewrite Hlv in H. rewrite (convert_id c Hcid) in H. cbn [snd] in H.
    rewrite (en_ver s tr c ver Hsch Htrr), (remove_tv_ver s tr c ver Hsch Htrr) in H.
    unfold add_back_owned in H. rewrite Hmav in H. cbn [assoc_get assoc_remove map] in H.
    rewrite String.eqb_refl in H. cbn [app] in H.
    set (P0 := (ver, remove s tr M (ps_en s tr (mr_set last)))) in H.
    assert (HP0 : inv (snd P0)).
    { exists (ps_en s tr (mr_set last)). split; [|split; [reflexivity|exact HQ0]].
      apply first_set_nice; assumption. }
    assert (Hrounds : exists pruned1 n2, fst pruned1 = ver /\ inv (snd pruned1) /\
              match add_back_dangling c n2 (ver, M) pruned1 last with
              | UOk (pruned2, n3) =>
                  match convert c n3 pruned2
                          match mf_get mgr mfp with Some r => mr_ver r | None => ver end with
                  | (COk v, n4) =>
                      UOk (match mf_get mgr mfp with Some r => mr_ver r | None => ver end, v, n4)
                  | _ => UErr EOther
                  end
              | UErr e => UErr e
              end = UOk (pruned, n1)).
    { match type of H with
      | context [add_back_rounds ?fu c ?mv ?o ?nn ?mm ?pp ?pv] =>
          destruct (add_back_rounds fu c mv o nn mm pp pv) as [[pruned1 n2]|e] eqn:Erounds;
            [|discriminate H];
          destruct (rounds_inv fu o nn pp pv pruned1 n2 eq_refl HP0 Erounds) as [Hp1 HP1]
      end.
      exists pruned1, n2. auto. }
    clear H. destruct Hrounds as (pruned1 & n2 & Hp1 & HP1 & H).
    unfold add_back_dangling in H. rewrite Hlv, (convert_id c Hcid) in H. cbn [fst snd] in H.
    rewrite !(to_fs_ver s tr c ver Hsch Htrr) in H.
    destruct (to_field_set s tr (snd pruned1)) as [S1|] eqn:ES1; [|discriminate].
    destruct (to_field_set s tr M) as [SM|] eqn:ESM; [|discriminate].
    rewrite !(en_ver s tr c ver Hsch Htrr), (remove_tv_ver s tr c ver Hsch Htrr) in H.
    assert (Htv : (match mf_get mgr mfp with Some r => mr_ver r | None => ver end) = ver).
    { destruct (mf_get mgr mfp) as [r|] eqn:E; [apply Htarget; reflexivity|reflexivity]. }
    rewrite Htv, (convert_id c Hcid) in H. cbn [snd] in H.
    inversion H; subst pruned n1. clear H.
    destruct HP1 as (T1 & Hn1 & HP1 & HQ1).
    destruct (removed_obj T1 Hn1) as [HwP HcP].
    rewrite HP1 in ES1, HQ1.
    rewrite (to_field_set_node_set s R tr M SM Htr HwM HcM ESM).
    rewrite (to_field_set_node_set s R tr _ S1 Htr HwP HcP ES1).
    exists T1. split; [exact Hn1|]. split; [exact HQ1|]. reflexivity.
  Qed.
End Shape.
