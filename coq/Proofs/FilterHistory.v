(* C19 along histories for the INCLUDE-PATTERN filter: what Proofs/IgnoredHistory.v does for
   exclusion sets.  With an include-filter configuration in force (cfg_ignored_fields = None,
   cfg_ignore_filter = Some fs, every entry of fs an include filter over a well-formed
   matcher -- in particular one built by NewIncludeMatcherFilter from lawful patterns), every
   path of every record of every reachable state is KEPT by the filter of the record's
   version: ignored fields never enter any manager's record.  For histories of apply /
   forced apply / update at ANY API versions, any converter satisfying [conv_wf], and ANY
   schemas (schema changes between operations included, see below).

   Definitions
     kept_at c v p        the filter of version v keeps p: [sm_keeps] (the abstract semantics of
                          a matcher, Proofs/IncludeFilter.v) of the matcher configured for v;
                          nothing configured for v = everything kept.
     filter_config c      the configuration uses include filters only, over well-formed matchers
     pattern_config pt c  the special case: the filter of version v is
                          NewIncludeMatcherFilter(PrefixMatcher(pat)...) for the patterns pt(v)
     kept_by pt v p       the reference notion: [include_keeps] (Spec/Patterns.v) of pt(v)
     only_kept_owned c mf every path of every record is kept by the filter of the record's version
     only_patterns_owned pt mf   the same with the reference notion

   Theorems (all Qed, all closed under the global context)
     include_filter                 the filter of a filter_config keeps exactly the kept paths
     kept_at_patterns, pattern_filter_exact
                                    kept_at = kept_by under pattern_config; the model's filter
                                    against the reference notion (the exactness theorem
                                    IncludeLaws.include_filter_exact at the configured filter)
     apply_op_only_kept, update_op_only_kept        step theorems (from the reconciled map)
     reconcile_only_kept            the opening reconciliation PRESERVES the invariant -- for any
                                    schemas.  The suspected counterexample does not exist: an
                                    include filter keeps every non-empty prefix of a kept path
                                    (FilterHistoryBase.sm_keeps_prefix / include_keeps_prefix:
                                    a path is compatible with a pattern iff they agree up to
                                    the shorter length), and reconciliation only replaces members
                                    by non-empty prefixes of members
                                    (ReconcileOwned.reconcile_field_set_members).
     apply_op_records_inv_incl, update_op_records_inv_incl
     only_kept_along_histories      the induction over the list of operations
     only_patterns_along_histories  the same, stated with the reference notion
     apply_conflicts_only_on_kept, ignored_everywhere_never_conflicts,
     conflicts_only_on_kept_along_histories
                                    every conflict an Apply reports is by another manager on a
                                    path of its record (FilterHistoryConflicts.
                                    update_core_conflicts_owned), hence (invariant) on a path
                                    kept at the version of that record: a change to an ignored
                                    field produces no conflict.
     only_kept_along_changing_histories
                                    histories in which every operation comes with its own
                                    configuration (schemas, converter, ...) sharing the filter
                                    table: schema changes between operations are covered.
   Example: Proofs/FilterHistoryExample.v.
   Not proved here: "managers' records of other fields are unaffected" is covered only in the
   form "every record of the result of update_core is a shrunk record of its input"
   (FilterHistoryBase.g_update_core_shrinks_all), as for exclusion sets; nothing else of the
   brief is left open. *)
From Coq Require Import List ZArith String Bool Arith Lia.
From SMD Require Import Model.Value Model.Order Model.PathElem Model.PathSet Model.Schema Model.Walk
  Model.FieldSet Model.Merge Model.Compare Model.Matcher Model.Reconcile Model.Updater Spec.PathsAsSets
  Spec.Patterns Proofs.OrderLaws Proofs.PathSetLaws Proofs.UpdaterLaws Proofs.UpdaterLaws2
  Proofs.IgnoredHistory Proofs.FilterHistoryBase Proofs.FilterHistoryConflicts.
From SMD Require Proofs.ReconcileBase Proofs.ReconcileOwned Proofs.IncludeFilter Proofs.IncludeLaws
  Proofs.TrieBase.
Import ListNotations.
Open Scope bool_scope.

(* ================= definitions ================= *)

(* the filter of version v keeps p *)
Definition kept_at (c : config) (v : string) (p : path) : bool :=
  match cfg_ignore_filter c with
  | Some fs =>
      match assoc_get v fs with
      | Some (FInclude m) => IncludeFilter.sm_keeps m p
      | Some (FExclude ex) => negb (has_prefix_in p ex)
      | None => true
      end
  | None => true
  end.

Definition include_entry (vf : string * sfilter) : Prop :=
  exists m, snd vf = FInclude m /\ IncludeFilter.sm_wf m.

Definition filter_config (c : config) : Prop :=
  cfg_ignored_fields c = None /\
  exists fs, cfg_ignore_filter c = Some fs /\ Forall include_entry fs.

Definition only_kept_owned (c : config) (mf : managed) : Prop :=
  forall m r p, mf_get m mf = Some r -> wf_path p = true -> ps_has p (mr_set r) = true ->
    kept_at c (mr_ver r) p = true.

(* ---- the pattern level: the reference notion of Spec/Patterns.v ---- *)

Definition pattern_table := list (string * list (list pematcher)).

Definition filter_of_patterns (pats : list (list pematcher)) : sfilter :=
  FInclude (include_matcher (map prefix_matcher pats)).

Definition filters_of_table (pt : pattern_table) : list (string * sfilter) :=
  map (fun vp => (fst vp, filter_of_patterns (snd vp))) pt.

Definition pattern_config (pt : pattern_table) (c : config) : Prop :=
  cfg_ignored_fields c = None /\
  cfg_ignore_filter c = Some (filters_of_table pt) /\
  Forall (fun vp : string * list (list pematcher) => forallb IncludeLaws.wf_pattern (snd vp) = true) pt.

Definition kept_by (pt : pattern_table) (v : string) (p : path) : bool :=
  match assoc_get v pt with
  | Some pats => include_keeps pats p
  | None => true
  end.

Definition only_patterns_owned (pt : pattern_table) (mf : managed) : Prop :=
  forall m r p, mf_get m mf = Some r -> wf_path p = true -> ps_has p (mr_set r) = true ->
    kept_by pt (mr_ver r) p = true.

(* ================= the filter of a filter configuration ================= *)

Lemma filter_config_entry : forall c fs v f, filter_config c -> cfg_ignore_filter c = Some fs ->
  assoc_get v fs = Some f -> exists m, f = FInclude m /\ IncludeFilter.sm_wf m.
Proof.
  intros c fs v f [_ [fs' [Hfs Hall]]] Hc Hg. rewrite Hc in Hfs. inversion Hfs; subst fs'.
  apply assoc_get_in in Hg. rewrite Forall_forall in Hall. exact (Hall (v, f) Hg).
Qed.

(* the analogue of UpdaterLaws2.exclusion_filter: the model's filter keeps exactly the
   members that [kept_at] accepts, and returns a well-formed set *)
Lemma include_filter : forall c v, filter_config c ->
  exists f, ignore_filter_for c v = Some f /\
    forall s, ps_ok s = true ->
      ps_ok (filter_set f s) = true /\
      forall p, wf_path p = true -> ps_has p (filter_set f s) = ps_has p s && kept_at c v p.
Proof.
  intros c v Hfc. pose proof Hfc as [H1 [fs [H2 Hall]]].
  unfold ignore_filter_for, kept_at. rewrite H1, H2.
  exists (assoc_get v fs). split; [reflexivity|]. intros s Hs.
  destruct (assoc_get v fs) as [f|] eqn:E.
  - destruct (filter_config_entry c fs v f Hfc H2 E) as [m [Hf Hm]]. subst f.
    cbn [filter_set apply_filter]. exact (IncludeFilter.filter_include_keeps s Hs m Hm).
  - cbn [filter_set]. split; [exact Hs|]. intros p Hp. rewrite andb_true_r. reflexivity.
Qed.

Lemma include_gfilters_ok : forall c, filter_config c -> gfilters_ok c.
Proof.
  intros c Hfc v f s Hv Hs. destruct (include_filter c v Hfc) as [f' [Hf' Hspec]].
  rewrite Hv in Hf'. inversion Hf'; subst f'. apply (Hspec s Hs).
Qed.

(* ---- pattern configurations are filter configurations; kept_at is the reference notion ---- *)

Lemma assoc_get_filters_of_table : forall v pt,
  assoc_get v (filters_of_table pt) = option_map filter_of_patterns (assoc_get v pt).
Proof.
  intros v pt. induction pt as [|[k pats] t IH]; [reflexivity|].
  cbn [filters_of_table map fst snd assoc_get]. destruct (String.eqb v k); [reflexivity|exact IH].
Qed.

Lemma wf_pattern_pats_wf : forall pats, forallb IncludeLaws.wf_pattern pats = true -> IncludeDenote.pats_wf pats.
Proof.
  intros pats H. unfold IncludeDenote.pats_wf. rewrite Forall_forall. rewrite forallb_forall in H.
  intros x Hx. exact (H x Hx).
Qed.

Lemma pattern_config_filter_config : forall pt c, pattern_config pt c -> filter_config c.
Proof.
  intros pt c [H1 [H2 Hall]]. split; [exact H1|]. exists (filters_of_table pt). split; [exact H2|].
  unfold filters_of_table. rewrite Forall_forall. intros vf Hin.
  apply in_map_iff in Hin. destruct Hin as [[k pats] [Heq Hin]]. subst vf. cbn [fst snd].
  rewrite Forall_forall in Hall. pose proof (Hall (k, pats) Hin) as Hp. cbn [snd] in Hp.
  exists (include_matcher (map prefix_matcher pats)). split; [reflexivity|].
  apply (IncludeDenote.include_matcher_keeps pats [] (wf_pattern_pats_wf pats Hp) eq_refl).
Qed.

(* on member paths (lawful, non-empty) kept_at is the reference notion of Spec/Patterns.v *)
Theorem kept_at_patterns : forall pt c v p, pattern_config pt c -> wf_path p = true -> p <> [] ->
  kept_at c v p = kept_by pt v p.
Proof.
  intros pt c v p [_ [H2 Hall]] Hp Hne. unfold kept_at, kept_by. rewrite H2.
  rewrite assoc_get_filters_of_table. destruct (assoc_get v pt) as [pats|] eqn:E; [|reflexivity].
  cbn [option_map filter_of_patterns].
  apply assoc_get_in in E. rewrite Forall_forall in Hall. pose proof (Hall (v, pats) E) as Hpats.
  cbn [snd] in Hpats. apply (include_keeps_sm pats p Hpats Hp Hne).
Qed.

(* the model's filter against the reference notion: the exactness theorem
   (IncludeLaws.include_filter_exact / C19_include_filter_exact) instantiated at the filter
   configured for a version *)
Theorem pattern_filter_exact : forall pt c v, pattern_config pt c ->
  exists f, ignore_filter_for c v = Some f /\
    forall s, ps_ok s = true ->
      ps_ok (filter_set f s) = true /\
      forall p, wf_path p = true -> ps_has p (filter_set f s) = ps_has p s && kept_by pt v p.
Proof.
  intros pt c v Hpc. pose proof Hpc as [H1 [H2 Hall]].
  unfold ignore_filter_for, kept_by. rewrite H1, H2. rewrite assoc_get_filters_of_table.
  exists (option_map filter_of_patterns (assoc_get v pt)). split; [reflexivity|]. intros s Hs.
  destruct (assoc_get v pt) as [pats|] eqn:E.
  - cbn [option_map filter_of_patterns filter_set apply_filter].
    apply assoc_get_in in E. rewrite Forall_forall in Hall. pose proof (Hall (v, pats) E) as Hpats.
    cbn [snd] in Hpats. exact (IncludeLaws.include_filter_exact pats s Hs Hpats).
  - cbn [option_map filter_set]. split; [exact Hs|]. intros p Hp. rewrite andb_true_r. reflexivity.
Qed.

Lemma ps_has_nonnil : forall p s, ps_has p s = true -> p <> [].
Proof. intros p s H E. subst p. rewrite TrieBase.ps_has_nil in H. discriminate H. Qed.

Lemma only_kept_patterns : forall pt c mf, pattern_config pt c ->
  (only_kept_owned c mf <-> only_patterns_owned pt mf).
Proof.
  intros pt c mf Hpc. split; intros H m r p Hg Hp Hhas.
  - rewrite <- (kept_at_patterns pt c (mr_ver r) p Hpc Hp (ps_has_nonnil p _ Hhas)). eapply H; eassumption.
  - rewrite (kept_at_patterns pt c (mr_ver r) p Hpc Hp (ps_has_nonnil p _ Hhas)). eapply H; eassumption.
Qed.

(* ================= the step theorems ================= *)

Lemma only_kept_shrinks : forall c mf mf',
  (forall m r', mf_get m mf' = Some r' -> exists r, mf_get m mf = Some r /\ shrinks r' r) ->
  only_kept_owned c mf -> only_kept_owned c mf'.
Proof.
  intros c mf mf' Hall Hno m r' p Hg Hp Hhas.
  destruct (Hall m r' Hg) as [r [Hr [Hv [_ [_ Hsub]]]]].
  rewrite Hv. eapply Hno; [exact Hr|exact Hp|]. apply Hsub; assumption.
Qed.

Lemma only_kept_set : forall c f m s ver b mf,
  (forall p, wf_path p = true -> ps_has p (filter_set f s) = ps_has p s && kept_at c ver p) ->
  only_kept_owned c mf -> only_kept_owned c (mf_set m (mkRec (filter_set f s) ver b) mf).
Proof.
  intros c f m s ver b mf Hspec Hno m' r p Hg Hp Hhas.
  unfold mf_get, mf_set in Hg. rewrite assoc_get_set in Hg.
  destruct (String.eqb m' m).
  - inversion Hg; subst r. cbn [mr_ver mr_set] in *. rewrite (Hspec p Hp) in Hhas.
    apply andb_true_iff in Hhas. apply Hhas.
  - eapply Hno; eassumption.
Qed.

Lemma only_kept_del : forall c m mf, sorted_keys mf = true ->
  only_kept_owned c mf -> only_kept_owned c (mf_del m mf).
Proof.
  intros c m mf Hs Hno m' r p Hg Hp Hhas. rewrite (mf_get_del m' m mf Hs) in Hg.
  destruct (String.eqb m' m); [discriminate|]. eapply Hno; eassumption.
Qed.

(* Apply, from the reconciled map mf0: the applier's record is the FILTERED field set of the
   applied configuration (site 1), update_core then only shrinks records (sites 2-3 filter
   the comparisons, which only decide what is subtracted) *)
Theorem apply_op_only_kept : forall c live cfg ver mf mf0 n0 mgr force o mf',
  filter_config c -> compare_ok_wf c -> fs_ok_wf c -> conv_wf c ->
  wf_value (snd live) = true -> wf_value (snd cfg) = true ->
  reconcile_managed c O live mf = UOk (mf0, n0) -> records_inv mf0 -> only_kept_owned c mf0 ->
  apply_op c live cfg ver mf mgr force = UOk (o, mf') -> only_kept_owned c mf'.
Proof.
  intros c live cfg ver mf mf0 n0 mgr force o mf' Hfc Hcok Hfsok Hcv Hwl Hwc Hrec [Hok0 _] Hno H.
  destruct (apply_op_inv c live cfg ver mf mf0 n0 mgr force o mf' Hcv Hwl Hwc Hrec H)
    as [set0 [f [pruned [n1 [cmp [n2 [Hfs [Hf [Hwp Hupd]]]]]]]]].
  destruct (include_filter c ver Hfc) as [f' [Hf' Hspec]]. rewrite Hf in Hf'. inversion Hf'; subst f'.
  destruct (Hspec set0 (Hfsok cfg set0 Hwc Hfs)) as [Hset1 Hspec0].
  set (mf1 := mf_set mgr (mkRec (filter_set f set0) ver true) mf0) in *.
  assert (mf_ok mf1) as Hok1.
  { unfold mf1. apply mf_set_ok; [exact Hok0|exact Hset1]. }
  assert (only_kept_owned c mf1) as Hno1.
  { unfold mf1. apply only_kept_set; [exact Hspec0|exact Hno]. }
  destruct (g_update_core_shrinks_all c n1 live pruned ver mf1 mgr force mf' cmp n2 Hok1 Hcok Hcv Hwl Hwp
              (include_gfilters_ok c Hfc) Hupd) as [_ [_ [_ Hall]]].
  eapply only_kept_shrinks; eassumption.
Qed.

(* Update: update_core only shrinks records (sites 2-3), the updater's new record is
   filtered again before it is stored (sites 4-5) *)
Theorem update_op_only_kept : forall c live new ver mf mf0 n0 mgr o mf',
  filter_config c -> compare_ok_wf c -> conv_wf c ->
  wf_value (snd live) = true -> wf_value (snd new) = true ->
  reconcile_managed c O live mf = UOk (mf0, n0) -> records_inv mf0 -> only_kept_owned c mf0 ->
  update_op c live new ver mf mgr = UOk (o, mf') -> only_kept_owned c mf'.
Proof.
  intros c live new ver mf mf0 n0 mgr o mf' Hfc Hcok Hcv Hwl Hwn Hrec [Hok0 _] Hno H.
  unfold update_op in H. rewrite Hrec in H.
  destruct (update_core c n0 live new ver mf0 mgr true) as [[[mf1 cmp] n1]|e] eqn:Hupd; [|discriminate].
  destruct (g_update_core_shrinks_all c n0 live new ver mf0 mgr true mf1 cmp n1 Hok0 Hcok Hcv Hwl Hwn
              (include_gfilters_ok c Hfc) Hupd) as [[cmp0 [f0 [_ [_ [_ Hc]]]]] [Hok1 [_ Hall]]].
  assert (only_kept_owned c mf1) as Hno1 by (eapply only_kept_shrinks; eassumption).
  destruct (include_filter c ver Hfc) as [f [Hf Hspec]]. rewrite Hf in H.
  destruct (update_set_spec _ cmp (cur_ok mgr mf1 Hok1) Hc) as [Hok2 _].
  destruct (Hspec _ Hok2) as [_ Hspec2].
  match type of H with (UOk (_, if ps_empty ?s then _ else _)) = _ => destruct (ps_empty s) end;
    inversion H; subst o mf'; clear H.
  - apply only_kept_del; [apply Hok1|exact Hno1].
  - apply only_kept_set; [exact Hspec2|exact Hno1].
Qed.

(* ================= reconciliation preserves the invariant ================= *)

(* a path that is (up to Path.Equals) a non-empty prefix of a kept path is kept *)
Lemma kept_at_prefix : forall c v p q' rest,
  filter_config c -> wf_path p = true -> wf_path q' = true -> patheqb p q' = true -> p <> [] ->
  kept_at c v (q' ++ rest) = true -> kept_at c v p = true.
Proof.
  intros c v p q' rest Hfc Wp Wq Heq Hne H. pose proof Hfc as [_ [fs [H2 _]]].
  unfold kept_at in *. rewrite H2 in *.
  destruct (assoc_get v fs) as [f|] eqn:E; [|reflexivity].
  destruct (filter_config_entry c fs v f Hfc H2 E) as [m [Hf Hm]]. subst f.
  rewrite (sm_keeps_patheqb p q' m Hm Wp Wq Heq).
  apply (sm_keeps_prefix q' m rest); [|exact H].
  intros Eq. subst q'. destruct p; [apply Hne; reflexivity|discriminate Heq].
Qed.

(* whatever the schemas: reconciliation replaces members by (non-empty) prefixes of members,
   and an include filter that keeps a path keeps its non-empty prefixes *)
Theorem reconcile_only_kept : forall c n live mf mf0 n0,
  filter_config c -> mf_ok mf -> only_kept_owned c mf ->
  reconcile_managed c n live mf = UOk (mf0, n0) -> only_kept_owned c mf0.
Proof.
  intros c n live mf mf0 n0 Hfc Hok Hno H m r0 p Hg Wp Hhas.
  destruct (reconcile_managed_rel c n live mf mf0 n0 (proj1 Hok) H) as [_ Hall].
  destruct (Hall m r0 Hg) as [r [Hr [Hv [_ [_ Hset]]]]]. cbn [snd] in Hv, Hset.
  rewrite Hv. destruct Hset as [Heq|Hrf].
  - subst r0. eapply Hno; eassumption.
  - pose proof (mf_ok_get mf m r Hok Hr) as Hrok.
    destruct (ReconcileOwned.reconcile_field_set_members _ _ _ _ Hrok Hrf p Wp Hhas)
      as [Hin|[m0 [q' [rest [Wm [Hm [Em [Wq Heq]]]]]]]].
    + eapply Hno; eassumption.
    + apply (kept_at_prefix c (mr_ver r) p q' rest Hfc Wp Wq Heq (ps_has_nonnil p _ Hhas)).
      rewrite <- Em. eapply Hno; eassumption.
Qed.

(* ================= records_inv under an include-filter configuration ================= *)

Lemma apply_op_records_inv_incl : forall c live cfg ver mf mf0 n0 mgr force o mf',
  filter_config c -> compare_ok_wf c -> fs_ok_wf c -> conv_wf c ->
  wf_value (snd live) = true -> wf_value (snd cfg) = true ->
  reconcile_managed c O live mf = UOk (mf0, n0) -> records_inv mf0 ->
  apply_op c live cfg ver mf mgr force = UOk (o, mf') ->
  records_inv mf' /\ wf_value (snd (match o with Some t => t | None => live end)) = true.
Proof.
  intros c live cfg ver mf mf0 n0 mgr force o mf' Hfc Hcok Hfsok Hcv Hwl Hwc Hrec [Hok0 _] H.
  destruct (apply_op_inv_obj c live cfg ver mf mf0 n0 mgr force o mf' Hcv Hwl Hwc Hrec H)
    as [set0 [f [pruned [n1 [cmp [n2 [Hfs [Hf [Hwp [Ho Hupd]]]]]]]]]].
  destruct (include_filter c ver Hfc) as [f' [Hf' Hspec]]. rewrite Hf in Hf'. inversion Hf'; subst f'.
  destruct (Hspec set0 (Hfsok cfg set0 Hwc Hfs)) as [Hset1 _].
  assert (mf_ok (mf_set mgr (mkRec (filter_set f set0) ver true) mf0)) as Hok1.
  { apply mf_set_ok; [exact Hok0|exact Hset1]. }
  destruct (g_update_core_shrinks_all c n1 live pruned ver _ mgr force mf' cmp n2 Hok1 Hcok Hcv Hwl Hwp
              (include_gfilters_ok c Hfc) Hupd) as [_ [Hok2 [Hne2 _]]].
  split; [split; assumption|].
  destruct Ho as [Ho|Ho]; subst o; assumption.
Qed.

Lemma update_op_records_inv_incl : forall c live new ver mf mf0 n0 mgr o mf',
  filter_config c -> compare_ok_wf c -> conv_wf c ->
  wf_value (snd live) = true -> wf_value (snd new) = true ->
  reconcile_managed c O live mf = UOk (mf0, n0) -> records_inv mf0 ->
  update_op c live new ver mf mgr = UOk (o, mf') ->
  records_inv mf' /\ o = new.
Proof.
  intros c live new ver mf mf0 n0 mgr o mf' Hfc Hcok Hcv Hwl Hwn Hrec [Hok0 _] H.
  unfold update_op in H. rewrite Hrec in H.
  destruct (update_core c n0 live new ver mf0 mgr true) as [[[mf1 cmp] n1]|e] eqn:Hupd; [|discriminate].
  destruct (g_update_core_shrinks_all c n0 live new ver mf0 mgr true mf1 cmp n1 Hok0 Hcok Hcv Hwl Hwn
              (include_gfilters_ok c Hfc) Hupd) as [[cmp0 [f0 [_ [_ [_ Hc]]]]] [Hok1 [Hne1 _]]].
  destruct (include_filter c ver Hfc) as [f [Hf Hspec]]. rewrite Hf in H.
  destruct (update_set_spec _ cmp (cur_ok mgr mf1 Hok1) Hc) as [Hok2 _].
  destruct (Hspec _ Hok2) as [Hok3 _].
  assert (records_inv mf1) as Hinv1 by (split; assumption).
  match type of H with (UOk (_, if ps_empty ?s then _ else _)) = _ => destruct (ps_empty s) eqn:Ee end;
    inversion H; subst o mf'; clear H; (split; [|reflexivity]).
  - apply records_inv_del. exact Hinv1.
  - apply records_inv_set; [exact Hinv1|exact Hok3|exact Ee].
Qed.

(* ================= conflicts arise on kept paths only ================= *)

(* A refused Apply: every conflict (m, p) it reports names another manager m and a path p of
   m's (reconciled) record -- hence, by the invariant, a path KEPT by the filter of the version
   of that record.  A change to an ignored field is never the cause of a conflict. *)
Theorem apply_conflicts_only_on_kept : forall c live cfg ver mf mgr force cs,
  filter_config c -> compare_ok_wf c -> fs_ok_wf c -> conv_wf c ->
  wf_value (snd live) = true -> wf_value (snd cfg) = true ->
  records_inv mf -> only_kept_owned c mf ->
  apply_op c live cfg ver mf mgr force = UErr (EConflict cs) ->
  forall m p, In (m, p) cs ->
    m <> mgr /\
    exists mf0 n0 r, reconcile_managed c O live mf = UOk (mf0, n0) /\
      mf_get m mf0 = Some r /\ wf_path p = true /\ ps_has p (mr_set r) = true /\
      kept_at c (mr_ver r) p = true.
Proof.
  intros c live cfg ver mf mgr force cs Hfc Hcok Hfsok Hcv Hwl Hwc Hinv Hno H m p Hin.
  destruct (apply_op_conflict_inv c live cfg ver mf mgr force cs Hcv Hwl Hwc H)
    as [mf0 [n0 [set0 [f [pruned [n1 [Hrec [Hfs [Hf [Hwp Hupd]]]]]]]]]].
  destruct (reconcile_records_inv c 0 live mf mf0 n0 Hinv Hrec) as [Hok0 _].
  pose proof (reconcile_only_kept c 0 live mf mf0 n0 Hfc (proj1 Hinv) Hno Hrec) as Hno0.
  destruct (include_filter c ver Hfc) as [f' [Hf' Hspec]]. rewrite Hf in Hf'. inversion Hf'; subst f'.
  destruct (Hspec set0 (Hfsok cfg set0 Hwc Hfs)) as [Hset1 _].
  assert (mf_ok (mf_set mgr (mkRec (filter_set f set0) ver true) mf0)) as Hok1.
  { apply mf_set_ok; [exact Hok0|exact Hset1]. }
  destruct (update_core_conflicts_owned c n1 live pruned ver _ mgr force cs Hok1 Hcok Hcv Hwl Hwp
              (include_gfilters_ok c Hfc) Hupd m p Hin) as [Hne [r [Hg [Wp Hhas]]]].
  split; [exact Hne|]. rewrite (mf_get_set_other m mgr _ mf0 Hne) in Hg.
  exists mf0, n0, r. split; [exact Hrec|]. split; [exact Hg|]. split; [exact Wp|]. split; [exact Hhas|].
  eapply Hno0; eassumption.
Qed.

(* the contrapositive: a path that the filter of no version keeps occurs in no conflict *)
Corollary ignored_everywhere_never_conflicts : forall c live cfg ver mf mgr force cs p,
  filter_config c -> compare_ok_wf c -> fs_ok_wf c -> conv_wf c ->
  wf_value (snd live) = true -> wf_value (snd cfg) = true ->
  records_inv mf -> only_kept_owned c mf ->
  apply_op c live cfg ver mf mgr force = UErr (EConflict cs) ->
  (forall v, kept_at c v p = false) -> forall m, ~ In (m, p) cs.
Proof.
  intros c live cfg ver mf mgr force cs p Hfc Hcok Hfsok Hcv Hwl Hwc Hinv Hno H Hig m Hin.
  destruct (apply_conflicts_only_on_kept c live cfg ver mf mgr force cs Hfc Hcok Hfsok Hcv Hwl Hwc Hinv Hno H
              m p Hin) as [_ [mf0 [n0 [r [_ [_ [_ [_ Hk]]]]]]]].
  rewrite (Hig (mr_ver r)) in Hk. discriminate Hk.
Qed.

(* ================= the histories ================= *)

(* operations, steps and runs are those of Proofs/IgnoredHistory.v: [vop], [vstep c], [vrun c]
   (operations carry their API version; a failing operation leaves the state as it is) *)

Section FilterHistory.
  Variable c : config.

  Definition fvinv (st : tv * managed) : Prop :=
    wf_value (snd (fst st)) = true /\ records_inv (snd st) /\ only_kept_owned c (snd st).

  Lemma fvinv_init : forall v0, fvinv ((v0, VNull), []).
  Proof.
    intros v0. split; [reflexivity|]. split.
    - split; [split; reflexivity|]. intros m r Hg. discriminate Hg.
    - intros m r p Hg. discriminate Hg.
  Qed.

  Lemma vstep_fvinv : forall st o,
    filter_config c -> compare_ok_wf c -> fs_ok_wf c -> conv_wf c ->
    fvinv st -> vop_ok o -> fvinv (vstep c st o).
  Proof.
    intros [live mf] o Hfc Hcok Hfsok Hcv [Hwl [Hinv Hno]] Hop. cbn [fst snd] in Hwl, Hinv, Hno.
    destruct o as [mgr ver cfg force|mgr ver obj]; cbn [vop_ok] in Hop; cbn [vstep fst snd].
    - destruct (apply_op c live (ver, cfg) ver mf mgr force) as [[o mf']|e] eqn:H.
      2:{ split; [exact Hwl|]. split; assumption. }
      destruct (reconcile_managed c 0 live mf) as [[mf0 n0]|e] eqn:Hrec.
      2:{ unfold apply_op in H. rewrite Hrec in H. discriminate H. }
      pose proof (reconcile_records_inv c 0 live mf mf0 n0 Hinv Hrec) as Hinv0.
      pose proof (reconcile_only_kept c 0 live mf mf0 n0 Hfc (proj1 Hinv) Hno Hrec) as Hno0.
      pose proof (apply_op_only_kept c live (ver, cfg) ver mf mf0 n0 mgr force o mf'
                    Hfc Hcok Hfsok Hcv Hwl Hop Hrec Hinv0 Hno0 H) as Hno'.
      destruct (apply_op_records_inv_incl c live (ver, cfg) ver mf mf0 n0 mgr force o mf'
                  Hfc Hcok Hfsok Hcv Hwl Hop Hrec Hinv0 H) as [Hinv' Hw'].
      destruct o as [t|]; (split; [exact Hw'|]); split; assumption.
    - destruct (update_op c live (ver, obj) ver mf mgr) as [[t mf']|e] eqn:H.
      2:{ split; [exact Hwl|]. split; assumption. }
      destruct (reconcile_managed c 0 live mf) as [[mf0 n0]|e] eqn:Hrec.
      2:{ unfold update_op in H. rewrite Hrec in H. discriminate H. }
      pose proof (reconcile_records_inv c 0 live mf mf0 n0 Hinv Hrec) as Hinv0.
      pose proof (reconcile_only_kept c 0 live mf mf0 n0 Hfc (proj1 Hinv) Hno Hrec) as Hno0.
      pose proof (update_op_only_kept c live (ver, obj) ver mf mf0 n0 mgr t mf'
                    Hfc Hcok Hcv Hwl Hop Hrec Hinv0 Hno0 H) as Hno'.
      destruct (update_op_records_inv_incl c live (ver, obj) ver mf mf0 n0 mgr t mf'
                  Hfc Hcok Hcv Hwl Hop Hrec Hinv0 H) as [Hinv' Ht].
      subst t. split; [exact Hop|]. split; assumption.
  Qed.

  Lemma fold_vstep_fvinv : forall ops st,
    filter_config c -> compare_ok_wf c -> fs_ok_wf c -> conv_wf c ->
    fvinv st -> Forall vop_ok ops -> fvinv (fold_left (vstep c) ops st).
  Proof.
    induction ops as [|o ops IH]; intros st Hfc Hcok Hfsok Hcv Hst Hops; [exact Hst|].
    inversion Hops as [|x y Ho Hops']; subst. cbn [fold_left].
    apply IH; try assumption. apply vstep_fvinv; assumption.
  Qed.

  Theorem only_kept_along_histories : forall v0 ops,
    filter_config c -> compare_ok_wf c -> fs_ok_wf c -> conv_wf c ->
    Forall vop_ok ops ->
    wf_value (snd (fst (vrun c v0 ops))) = true /\
    records_inv (snd (vrun c v0 ops)) /\
    only_kept_owned c (snd (vrun c v0 ops)).
  Proof.
    intros v0 ops Hfc Hcok Hfsok Hcv Hops.
    exact (fold_vstep_fvinv ops _ Hfc Hcok Hfsok Hcv (fvinv_init v0) Hops).
  Qed.

  (* at every reachable state, whatever conflict an Apply reports is on a kept path *)
  Theorem conflicts_only_on_kept_along_histories : forall v0 ops mgr ver cfg force cs,
    filter_config c -> compare_ok_wf c -> fs_ok_wf c -> conv_wf c ->
    Forall vop_ok ops -> wf_value cfg = true ->
    apply_op c (fst (vrun c v0 ops)) (ver, cfg) ver (snd (vrun c v0 ops)) mgr force = UErr (EConflict cs) ->
    forall m p, In (m, p) cs ->
      m <> mgr /\
      exists mf0 n0 r, reconcile_managed c O (fst (vrun c v0 ops)) (snd (vrun c v0 ops)) = UOk (mf0, n0) /\
        mf_get m mf0 = Some r /\ wf_path p = true /\ ps_has p (mr_set r) = true /\
        kept_at c (mr_ver r) p = true.
  Proof.
    intros v0 ops mgr ver cfg force cs Hfc Hcok Hfsok Hcv Hops Hwc H.
    destruct (only_kept_along_histories v0 ops Hfc Hcok Hfsok Hcv Hops) as [Hwl [Hinv Hno]].
    exact (apply_conflicts_only_on_kept c _ (ver, cfg) ver _ mgr force cs Hfc Hcok Hfsok Hcv Hwl Hwc Hinv Hno H).
  Qed.

  (* the same with the reference notion of Spec/Patterns.v *)
  Theorem only_patterns_along_histories : forall pt v0 ops,
    pattern_config pt c -> compare_ok_wf c -> fs_ok_wf c -> conv_wf c ->
    Forall vop_ok ops ->
    wf_value (snd (fst (vrun c v0 ops))) = true /\
    records_inv (snd (vrun c v0 ops)) /\
    only_patterns_owned pt (snd (vrun c v0 ops)).
  Proof.
    intros pt v0 ops Hpc Hcok Hfsok Hcv Hops.
    destruct (only_kept_along_histories v0 ops (pattern_config_filter_config pt c Hpc) Hcok Hfsok Hcv Hops)
      as [H1 [H2 H3]].
    split; [exact H1|]. split; [exact H2|]. apply (only_kept_patterns pt c _ Hpc). exact H3.
  Qed.
End FilterHistory.

(* ================= histories along which the configuration changes ================= *)

(* [kept_at] depends on the configuration through its filter table only, so the invariant
   survives any change of the schemas, of the converter, of the other settings: every
   operation of the history below comes with ITS OWN configuration; all share the filter
   table [fs].  In particular the schema may change between any two operations (a field
   turning atomic, ...): the reconciliation that then rewrites the records keeps them
   within the kept paths (reconcile_only_kept). *)

Lemma kept_at_same_filter : forall c c' v p,
  cfg_ignore_filter c = cfg_ignore_filter c' -> kept_at c v p = kept_at c' v p.
Proof. intros c c' v p H. unfold kept_at. rewrite H. reflexivity. Qed.

Lemma only_kept_same_filter : forall c c' mf,
  cfg_ignore_filter c = cfg_ignore_filter c' -> only_kept_owned c mf -> only_kept_owned c' mf.
Proof.
  intros c c' mf H Hno m r p Hg Hp Hhas.
  rewrite <- (kept_at_same_filter c c' (mr_ver r) p H). eapply Hno; eassumption.
Qed.

Definition cvstep (st : tv * managed) (co : config * vop) : tv * managed :=
  vstep (fst co) st (snd co).

Definition cvrun (v0 : string) (cops : list (config * vop)) : tv * managed :=
  fold_left cvstep cops ((v0, VNull), []).

Definition cop_ok (fs : option (list (string * sfilter))) (co : config * vop) : Prop :=
  cfg_ignore_filter (fst co) = fs /\ filter_config (fst co) /\ compare_ok_wf (fst co) /\
  fs_ok_wf (fst co) /\ conv_wf (fst co) /\ vop_ok (snd co).

Definition cvinv (fs : option (list (string * sfilter))) (st : tv * managed) : Prop :=
  wf_value (snd (fst st)) = true /\ records_inv (snd st) /\
  forall c, cfg_ignore_filter c = fs -> only_kept_owned c (snd st).

Lemma cvstep_cvinv : forall fs st co, cop_ok fs co -> cvinv fs st -> cvinv fs (cvstep st co).
Proof.
  intros fs st [c1 o] [Hfs [Hfc [Hcok [Hfsok [Hcv Hop]]]]] [Hwl [Hinv Hno]]. cbn [fst snd] in *.
  unfold cvstep. cbn [fst snd].
  assert (fvinv c1 st) as Hst by (split; [exact Hwl|split; [exact Hinv|apply Hno; exact Hfs]]).
  destruct (vstep_fvinv c1 st o Hfc Hcok Hfsok Hcv Hst Hop) as [Hwl' [Hinv' Hno']].
  split; [exact Hwl'|]. split; [exact Hinv'|].
  intros c Hc. apply (only_kept_same_filter c1 c); [congruence|exact Hno'].
Qed.

Theorem only_kept_along_changing_histories : forall fs v0 cops,
  Forall (cop_ok fs) cops ->
  wf_value (snd (fst (cvrun v0 cops))) = true /\
  records_inv (snd (cvrun v0 cops)) /\
  forall c, cfg_ignore_filter c = fs -> only_kept_owned c (snd (cvrun v0 cops)).
Proof.
  intros fs v0 cops Hall. unfold cvrun.
  assert (forall l st, Forall (cop_ok fs) l -> cvinv fs st -> cvinv fs (fold_left cvstep l st)) as Hgen.
  { induction l as [|co l IH]; intros st Hl Hst; [exact Hst|].
    inversion Hl as [|x y Hco Hl']; subst. cbn [fold_left].
    apply IH; [exact Hl'|]. apply cvstep_cvinv; assumption. }
  apply (Hgen cops _ Hall).
  split; [reflexivity|]. split.
  - split; [split; reflexivity|]. intros m r Hg. discriminate Hg.
  - intros c _ m r p Hg. discriminate Hg.
Qed.

