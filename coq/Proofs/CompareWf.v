(* Every path accumulated by the comparing walker is well formed. *)
From Coq Require Import List ZArith String Bool Arith Lia.
From SMD Require Import Model.Value Model.Order Model.PathElem Model.PathSet Model.Schema
  Model.Walk Model.Validate Model.Merge Model.Compare Spec.PathsAsSets Spec.RefValid
  Proofs.OrderLaws Proofs.KeyLaws Proofs.PesLaws Proofs.PathSetLaws Proofs.ValidateLaws
  Proofs.SchemaOk Proofs.CompareBase.
Import ListNotations.
Open Scope bool_scope.

Definition W (q : path) : Prop := wf_path q = true.

Lemma all_pes_wf : forall lV o1 ro, forallb wf_pe o1 = true -> forallb wf_pe ro = true ->
  forall e, In e (all_pes lV o1 ro) -> wf_pe e = true.
Proof.
  intros lV o1 ro H1 H2 e He. unfold all_pes in He. apply in_app_or in He.
  rewrite forallb_forall in H1, H2. destruct He as [He|He]; auto.
  apply filter_In in He. destruct He as [He _]. auto.
Qed.

Lemma elem_res_wf : forall item pp e lL rL,
  (forall lc rc, wf_ov lc = true -> wf_ov rc = true -> cmp_all W (snd (item e lc rc))) ->
  W pp -> forallb wf_value lL = true -> forallb wf_value rL = true ->
  cmp_all W (snd (elem_res item pp e lL rL)).
Proof.
  intros item pp e lL rL Hitem Hpp HlL HrL.
  destruct lL as [|lv [|lv2 lL]]; destruct rL as [|rv [|rv2 rL]]; simpl in *;
    repeat match goal with
    | H : _ && _ = true |- _ => apply andb_true_iff in H; destruct H
    end;
    try apply cmp_all_empty;
    try (apply Hitem; simpl; auto; fail);
    try (apply cmp_all_add; auto; fail);
    try (apply cmp_all_rem; auto; fail).
  - pose proof (Hitem (Some lv) None) as Hi. destruct (item e (Some lv) None) as [e1 c1]. simpl in *.
    apply cmp_all_app; [apply Hi; auto|apply cmp_all_add; auto].
  - pose proof (Hitem None (Some rv)) as Hi. destruct (item e None (Some rv)) as [e1 c1]. simpl in *.
    apply cmp_all_app; [apply Hi; auto|apply cmp_all_rem; auto].
  - match goal with |- context [if ?b then _ else _] => destruct b end;
      [apply cmp_all_empty|apply cmp_all_mod; auto].
Qed.

Section BodyWf.
  Variables (s : schema) (R : typeref -> Prop).
  Hypothesis Hok : schema_ok s R.
  Variable rec : typeref -> path -> option value -> option value -> bool * cmpacc.
  Hypothesis Hrec : forall tr p l r, R tr -> wf_path p = true -> wf_ov l = true -> wf_ov r = true ->
    cmp_all W (snd (rec tr p l r)).
  Variable p : path.
  Variables lhs rhs : option value.
  Hypothesis Hp : wf_path p = true.
  Hypothesis Hl : wf_ov lhs = true.
  Hypothesis Hr : wf_ov rhs = true.

  Lemma do_leaf_wf : cmp_all W (snd (fst (do_leaf p lhs rhs))).
  Proof.
    unfold do_leaf. simpl. destruct lhs as [l|], rhs as [r|];
      try (apply cmp_all_add; exact Hp); try (apply cmp_all_rem; exact Hp).
    destruct (veqb r l); [apply cmp_all_empty|apply cmp_all_mod; exact Hp].
  Qed.

  Lemma handle_list_wf : forall t, R (list_elem t) ->
    cmp_all W (snd (fst (handle_list rec s p lhs rhs t))).
  Proof.
    intros t HR. unfold handle_list.
    destruct (rel_is_atomic (list_rel t) || (is_emp (deref_list lhs) && is_emp (deref_list rhs))).
    - apply do_leaf_wf.
    - pose proof (item_pe_wf_elem s R Hok t) as Hpe. specialize (fun c e => Hpe c e HR).
      pose proof (deref_list_wf _ Hl) as Hll. pose proof (deref_list_wf _ Hr) as Hrl.
      destruct (gather_values s t (ol (deref_list lhs)) [] [] false) as [[lV o1] e1] eqn:El.
      destruct (gather_values s t (ol (deref_list rhs)) [] [] false) as [[rV ro] e2] eqn:Er.
      destruct (gather_spec s t Hpe _ _ _ _ Hll El) as (L1 & L2 & L3 & L4 & L5 & L6 & L7).
      destruct (gather_spec s t Hpe _ _ _ _ Hrl Er) as (R1 & R2 & R3 & R4 & R5 & R6 & R7).
      rewrite fold_acc_step. simpl. rewrite cmp_app_empty_l.
      apply cmp_all_concat. apply Forall_forall. intros c Hc.
      apply in_map_iff in Hc. destruct Hc as (e & Hc & He). subst c.
      assert (Hwe : wf_pe e = true) by (exact (all_pes_wf lV o1 ro L3 R3 e He)).
      unfold list_F. apply elem_res_wf.
      + intros lc rc Hlc Hrc. apply Hrec; auto. apply wf_path_snoc; auto.
      + apply wf_path_snoc; auto.
      + rewrite (L5 e Hwe). apply grp_wf; auto.
      + rewrite (R5 e Hwe). apply grp_wf; auto.
  Qed.

  Lemma handle_map_wf : forall t, (forall k, R (field_type t k)) ->
    cmp_all W (snd (fst (handle_map rec p lhs rhs t))).
  Proof.
    intros t HR. unfold handle_map.
    destruct (rel_is_atomic (map_rel t) || (is_emp (deref_map lhs) && is_emp (deref_map rhs))).
    - apply do_leaf_wf.
    - rewrite fold_acc_step. simpl. rewrite cmp_app_empty_l.
      apply cmp_all_concat. apply Forall_forall. intros c Hc.
      apply in_map_iff in Hc. destruct Hc as (k & Hc & Hk). subst c.
      unfold map_F. apply Hrec; auto.
      + apply wf_path_snoc; auto.
      + apply assoc_get_wf_ov. apply deref_map_wf; auto.
      + apply assoc_get_wf_ov. apply deref_map_wf; auto.
  Qed.

  Lemma cmp_handle_wf : forall h,
    (forall t, h = HList t -> R (list_elem t)) ->
    (forall t, h = HMap t -> forall k, R (field_type t k)) ->
    cmp_all W (snd (fst (cmp_handle rec s p lhs rhs h))).
  Proof.
    intros h H1 H2. destruct h as [t|t|t|]; simpl.
    - apply handle_map_wf. apply H2. reflexivity.
    - destruct (validate_scalar t lhs && validate_scalar t rhs); [apply cmp_all_empty|apply do_leaf_wf].
    - apply handle_list_wf. apply H1. reflexivity.
    - apply cmp_all_empty.
  Qed.

  Lemma cmp_tail_wf : forall b, cmp_all W (cmp_tail p lhs rhs b).
  Proof.
    intros b. unfold cmp_tail. destruct b; [apply cmp_all_empty|].
    destruct lhs, rhs; try apply cmp_all_empty; try (apply cmp_all_add; exact Hp);
      apply cmp_all_rem; exact Hp.
  Qed.

  Lemma handle_deduced_wf : forall tr a o, R tr -> resolve s tr = Some a ->
    cmp_all W (snd (fst (cmp_handle rec s p lhs rhs (handle_atom (deduce_atom a o))))).
  Proof.
    intros tr a o HR Hres. apply cmp_handle_wf.
    - intros t Ht. apply handle_atom_list in Ht. apply deduce_list in Ht.
      eapply (so_list s R Hok); eauto.
    - intros t Ht k. apply handle_atom_map in Ht. apply deduce_map in Ht.
      eapply (so_map s R Hok); eauto.
  Qed.

  Lemma compare_body_wf : forall tr, R tr -> cmp_all W (snd (compare_body rec s p lhs rhs tr)).
  Proof.
    intros tr HR. unfold compare_body.
    assert (Hmain : cmp_all W (snd match resolve s tr with
                       | None => (true, cmp_empty)
                       | Some a => let '(e, c, leafed) := cmp_dispatch rec s p lhs rhs a in
                                   (e, cmp_app c (cmp_tail p lhs rhs leafed))
                       end)).
    { destruct (resolve s tr) as [a|] eqn:Hres; [|apply cmp_all_empty].
      assert (Hd : cmp_all W (snd (fst (cmp_dispatch rec s p lhs rhs a)))).
      { unfold cmp_dispatch.
        pose proof (handle_deduced_wf tr a lhs HR Hres) as HA.
        pose proof (handle_deduced_wf tr a rhs HR Hres) as HB.
        destruct rhs as [rv|]; [|exact HA].
        destruct lhs as [lv|]; [|exact HB].
        destruct (atom_eqb (deduce_atom a (Some lv)) (deduce_atom a (Some rv))); [exact HB|].
        destruct (cmp_handle rec s p (Some lv) (Some rv) (handle_atom (deduce_atom a (Some lv)))) as [[e1 c1] l1].
        destruct (cmp_handle rec s p (Some lv) (Some rv) (handle_atom (deduce_atom a (Some rv)))) as [[e2 c2] l2].
        simpl in *. apply cmp_all_app; assumption. }
      destruct (cmp_dispatch rec s p lhs rhs a) as [[e c] lf]. simpl in *.
      apply cmp_all_app; [exact Hd|apply cmp_tail_wf]. }
    destruct lhs, rhs; try exact Hmain. apply cmp_all_empty.
  Qed.
End BodyWf.

Theorem compare_w_wf : forall s R, schema_ok s R -> forall f tr p l r,
  R tr -> wf_path p = true -> wf_ov l = true -> wf_ov r = true ->
  cmp_all W (snd (compare_w f s tr p l r)).
Proof.
  intros s R Hok f. induction f as [|f IH]; intros tr p l r HR Hp Hl Hr.
  - apply cmp_all_empty.
  - rewrite compare_w_S. apply (compare_body_wf s R Hok); auto.
Qed.
