(* Groundwork for C03 / C02 (Proofs/ApplyPrune.v): the union of the other managers'
   records, [apply_op] unfolded down to the prune stage, the managers' sets, and what the
   absence of nodes of the configuration at / above a path means for its field set. *)
From Coq Require Import List ZArith String Bool Arith Lia.
From SMD Require Import Model.Value Model.Order Model.PathElem Model.PathSet Model.Schema Model.Walk
  Model.Validate Model.FieldSet Model.Remove Model.Merge Model.Compare Model.Matcher Model.Reconcile
  Model.Updater
  Spec.PathsAsSets Spec.RefValid Spec.Resolve Spec.Agree Spec.Examples
  Proofs.OrderLaws Proofs.PathSetLaws Proofs.SchemaOk Proofs.FieldSetBase Proofs.FieldSetPaths
  Proofs.FieldSetWf Proofs.FieldSetLaws Proofs.RemoveAbsent Proofs.RemoveWf Proofs.ResolveLaws
  Proofs.UpdaterLaws Proofs.UpdaterLaws2 Proofs.MergeLaws Proofs.MergeAgree
  Proofs.RemoveFrame Proofs.EnLaws Proofs.NodeSet Proofs.KeyFields Proofs.VeqbResolve
  Proofs.SetCheckers Proofs.ApplyEffect Proofs.KeyLaws Proofs.ExtractBase Proofs.RefDiffPresent Proofs.TreeFacts.
Import ListNotations.
Open Scope bool_scope.
Open Scope list_scope.

Local Arguments ps_has : simpl never.
Local Arguments ps_with_prefix : simpl never.
Local Arguments ps_empty : simpl never.

(* the union of the records of the managers other than [mgr] *)
Definition others_set (mgr : string) (mf : managed) : pset :=
  fold_left ps_union
    (map (fun mr : string * mrec => mr_set (snd mr))
         (filter (fun mr : string * mrec => negb (String.eqb (fst mr) mgr)) mf))
    ps_empty_set.

Lemma fold_union_spec : forall l A, ps_ok A = true -> (forall S, In S l -> ps_ok S = true) ->
  ps_ok (fold_left ps_union l A) = true /\
  forall q, wf_path q = true ->
    ps_has q (fold_left ps_union l A) = ps_has q A || existsb (ps_has q) l.
Proof.
  induction l as [|S l IH]; intros A HA Hl.
  - split; [exact HA|]. intros q _. simpl. rewrite orb_false_r. reflexivity.
  - destruct (ps_union_spec A S HA (Hl S (or_introl eq_refl))) as [Hu Hhu].
    destruct (IH (ps_union A S) Hu (fun S' H => Hl S' (or_intror H))) as [H1 H2].
    split; [exact H1|]. intros q Hq. cbn [fold_left existsb].
    rewrite (H2 q Hq), (Hhu q Hq), orb_assoc. reflexivity.
Qed.

Lemma others_set_spec : forall mgr mf, mf_ok mf ->
  ps_ok (others_set mgr mf) = true /\
  forall q m r, wf_path q = true -> In (m, r) mf -> m <> mgr -> ps_has q (mr_set r) = true ->
    ps_has q (others_set mgr mf) = true.
Proof.
  intros mgr mf [_ Hall]. rewrite forallb_forall in Hall.
  assert (Hoks : forall S, In S (map (fun mr : string * mrec => mr_set (snd mr))
                    (filter (fun mr : string * mrec => negb (String.eqb (fst mr) mgr)) mf)) -> ps_ok S = true).
  { intros S HS. apply in_map_iff in HS. destruct HS as (mr & <- & Hin).
    apply filter_In in Hin. apply Hall. apply Hin. }
  destruct (fold_union_spec _ ps_empty_set ps_ok_empty Hoks) as [H1 H2].
  split; [exact H1|]. intros q m r Hq Hin Hm Hhas. unfold others_set.
  rewrite (H2 q Hq), ps_has_empty_set. cbn [orb]. apply existsb_exists.
  exists (mr_set r). split; [|exact Hhas]. apply in_map_iff. exists (m, r). split; [reflexivity|].
  apply filter_In. split; [exact Hin|]. cbn [fst]. apply negb_true_iff. apply String.eqb_neq. exact Hm.
Qed.

(* ================= apply_op down to the prune stage ================= *)

Lemma apply_shape : forall c ver lx cx mf mgr force o mf',
  no_ignore c -> conv_id c -> single_version ver mf -> mf_ok mf -> records_current c ver mf ->
  apply_op c (ver, lx) (ver, cx) ver mf mgr force = UOk (o, mf') ->
  exists M set0 n0 pruned n1,
    merge (schema_of c ver) (tr_of c ver) lx cx = Some (Some M) /\
    to_field_set (schema_of c ver) (tr_of c ver) cx = Some set0 /\
    prune c n0 (ver, M) (mf_set mgr {| mr_set := set0; mr_ver := ver; mr_applied := true |} mf) mgr
          (mf_get mgr mf) = UOk (pruned, n1) /\
    ((o = None /\ veqb lx (snd pruned) = true) \/ o = Some pruned).
Proof.
  intros c ver lx cx mf mgr force o mf' Hni Hcid Hsv Hmf Hcur Happly.
  unfold apply_op in Happly. cbn [fst snd] in Happly.
  destruct (reconcile_managed c 0 (ver, lx) mf) as [[mf0 n0]|e] eqn:Erec; [|discriminate].
  assert (Hmf0 : mf0 = mf).
  { rewrite reconcile_managed_unfold in Erec.
    apply (fold_rstep_id c (ver, lx) ver mf [] 0 mf0 n0 Hcid) in Erec; [exact Erec| |].
    - intros [m r] Hin. cbn [snd]. unfold single_version in Hsv. rewrite forallb_forall in Hsv.
      apply String.eqb_eq. exact (Hsv (m, r) Hin).
    - intros [m r] s' Hin. cbn [snd]. apply (Hcur m r s').
      apply in_assoc_get; [apply Hmf|exact Hin]. }
  subst mf0.
  destruct (merge (schema_of c ver) (tr_of c ver) lx cx) as [[M|]|] eqn:Em; try discriminate.
  unfold to_fs in Happly. cbn [fst snd] in Happly.
  destruct (to_field_set (schema_of c ver) (tr_of c ver) cx) as [set0|] eqn:Eset0; [|discriminate].
  rewrite (no_ignore_filter c ver Hni) in Happly. cbn [filter_set] in Happly.
  destruct (prune c n0 (ver, M) (mf_set mgr {| mr_set := set0; mr_ver := ver; mr_applied := true |} mf)
              mgr (mf_get mgr mf)) as [[pruned n1]|e] eqn:Eprune; [|discriminate].
  destruct (update_core c n1 (ver, lx) pruned ver _ mgr force) as [[[mf2 cmp] n2]|e]; [|discriminate].
  exists M, set0, n0, pruned, n1. split; [reflexivity|]. split; [reflexivity|]. split; [exact Eprune|].
  destruct (negb (cfg_return_input_on_noop c) && veqb lx (snd pruned)) eqn:Enoop;
    inversion Happly; subst o mf'.
  - left. split; [reflexivity|]. apply andb_true_iff in Enoop. apply Enoop.
  - right. reflexivity.
Qed.

(* ================= the managers' sets ================= *)

Lemma managers_sets : forall s tr ver lx mf mgr set0,
  single_version ver mf -> mf_ok mf -> ps_ok set0 = true ->
  (forall m r, m <> mgr -> mf_get m mf = Some r -> owns_live_keys s tr lx (mr_set r)) ->
  let mfp := mf_set mgr {| mr_set := set0; mr_ver := ver; mr_applied := true |} mf in
  let U := union_all mfp ps_empty_set in
  ps_ok U = true /\
  (forall q, wf_path q = true -> ps_has q set0 = true -> ps_has q U = true) /\
  (forall q, wf_path q = true -> ps_has q U = true ->
     ps_has q set0 = true \/
     exists S, ps_ok S = true /\ owns_live_keys s tr lx S /\ ps_has q S = true /\
               forall q', wf_path q' = true -> ps_has q' S = true -> ps_has q' U = true) /\
  managed_at_version mfp = [(ver, U)] /\
  (forall r, mf_get mgr mfp = Some r -> mr_ver r = ver) /\
  (forall q, wf_path q = true -> ps_has q U = true ->
     ps_has q set0 = true \/
     exists m r, m <> mgr /\ In (m, r) mf /\ ps_has q (mr_set r) = true).
Proof.
  intros s tr ver lx mf mgr set0 Hsv Hmf Hset0ok Hothers mfp U.
  assert (Hmfp : mf_ok mfp) by (apply mf_set_ok; assumption).
  assert (Hsvp : single_version ver mfp) by (apply mf_set_single; [assumption|reflexivity]).
  assert (Hverp : forall mr, In mr mfp -> mr_ver (snd mr) = ver).
  { intros mr Hin. unfold single_version in Hsvp. rewrite forallb_forall in Hsvp.
    apply String.eqb_eq. exact (Hsvp mr Hin). }
  assert (Hokp : forall mr, In mr mfp -> ps_ok (mr_set (snd mr)) = true).
  { intros mr Hin. destruct Hmfp as [_ Hall]. rewrite forallb_forall in Hall. exact (Hall mr Hin). }
  assert (Hnew : In (mgr, {| mr_set := set0; mr_ver := ver; mr_applied := true |}) mfp).
  { apply assoc_get_in. apply mf_get_set_same. }
  assert (Hne : mfp <> []) by (intros E; rewrite E in Hnew; destruct Hnew).
  destruct (union_all_spec mfp ps_empty_set ps_ok_empty Hokp) as [HU HhasU]. fold U in HU, HhasU.
  assert (HhasU' : forall q, wf_path q = true ->
            ps_has q U = existsb (fun mr : string * mrec => ps_has q (mr_set (snd mr))) mfp).
  { intros q Hq. rewrite (HhasU q Hq), ps_has_empty_set. reflexivity. }
  assert (Hcases : forall q, wf_path q = true -> ps_has q U = true ->
            ps_has q set0 = true \/
            exists m r, m <> mgr /\ In (m, r) mfp /\ mf_get m mf = Some r /\ ps_has q (mr_set r) = true).
  { intros q Hq HqU. rewrite (HhasU' q Hq) in HqU. apply existsb_exists in HqU.
    destruct HqU as ([m r] & Hin & Hqr). cbn [snd] in Hqr.
    pose proof (in_assoc_get mfp m r (proj1 Hmfp) Hin) as Hget.
    destruct (String.eqb_spec m mgr) as [->|Hmm].
    - unfold mfp in Hget. change (assoc_get mgr (mf_set mgr ?x mf)) with (mf_get mgr (mf_set mgr x mf)) in Hget.
      rewrite mf_get_set_same in Hget. inversion Hget; subst r. left. exact Hqr.
    - right. exists m, r.
      assert (Hget' : mf_get m mf = Some r).
      { rewrite <- (mf_get_set_other m mgr {| mr_set := set0; mr_ver := ver; mr_applied := true |} mf Hmm).
        exact Hget. }
      auto. }
  split; [exact HU|]. split; [|split; [|split; [|split]]].
  - intros q Hq Hq0. rewrite (HhasU' q Hq). apply existsb_exists.
    exists (mgr, {| mr_set := set0; mr_ver := ver; mr_applied := true |}). split; [exact Hnew|exact Hq0].
  - intros q Hq HqU. destruct (Hcases q Hq HqU) as [H|(m & r & Hmm & Hin & Hget & Hqr)]; [left; exact H|].
    right. exists (mr_set r).
    split; [apply (Hokp (m, r) Hin)|]. split; [apply (Hothers m r Hmm Hget)|].
    split; [exact Hqr|]. intros q' Hq' Hq'r. rewrite (HhasU' q' Hq'). apply existsb_exists.
    exists (m, r). split; [exact Hin|exact Hq'r].
  - apply mav_single; assumption.
  - intros r Hr. apply (Hverp (mgr, r)). apply assoc_get_in. exact Hr.
  - intros q Hq HqU. destruct (Hcases q Hq HqU) as [H|(m & r & Hmm & Hin & Hget & Hqr)]; [left; exact H|].
    right. exists m, r. split; [exact Hmm|]. split; [|exact Hqr]. apply assoc_get_in. exact Hget.
Qed.

(* ================= paths without a node of the configuration ================= *)

Lemma is_prefix_cong_l : forall q q' p, wf_path q = true -> wf_path q' = true -> wf_path p = true ->
  patheqb q q' = true -> is_prefix q p = is_prefix q' p.
Proof.
  induction q as [|a q IH]; intros [|b q'] [|c p] Hq Hq' Hp H; simpl in H; try discriminate;
    try reflexivity.
  apply andb_true_iff in H. destruct H as [Hab Hqq].
  apply wf_path_cons in Hq. apply wf_path_cons in Hq'. apply wf_path_cons in Hp.
  simpl. rewrite (peeqb_cong_l c a b) by tauto. f_equal. apply IH; tauto.
Qed.

Section NoNode.
  Variables (s : schema) (R : typeref -> Prop) (tr : typeref).
  Hypothesis Hok : schema_ok s R.
  Hypothesis Hfam : family_refs s R.
  Hypothesis Htr : R tr.
  Variable cfg : value.
  Hypothesis Hwc : wf_value cfg = true.

  (* a path that resolves in cfg is (up to Path.Equals) listed among its nodes *)
  Lemma resolves_is_node : forall q c (P : path -> bool),
    (forall a b, wf_path a = true -> wf_path b = true -> patheqb a b = true -> P a = P b) ->
    wf_path q = true -> q <> [] -> resolve_path s tr cfg q = Some c ->
    (forall q', In q' (map fst (nodes s tr cfg)) -> P q' = false) -> P q = false.
  Proof.
    intros q c P Hcong Hq Hne Hres Hnone.
    assert (Hpr : present s tr cfg q = true) by (unfold present; rewrite Hres; reflexivity).
    destruct (nodes_cov s R Hok (S (vdepth cfg)) cfg tr [] q Htr Hwc (Nat.lt_succ_diag_r _) Hq Hne Hpr)
      as (q2 & Heq & Hin).
    cbn [app] in Hin. fold (nodes s tr cfg) in Hin.
    assert (Hq2 : wf_path q2 = true).
    { apply in_map_iff in Hin. destruct Hin as ([q2' b] & E & Hin). simpl in E. subst q2'.
      apply (nodes_sound s R Hok cfg tr q2 b Htr Hwc Hin). }
    rewrite (Hcong q q2 Hq Hq2 Heq). apply Hnone. exact Hin.
  Qed.

  (* no node of cfg at or beneath p *)
  Lemma no_node_beneath : forall p, wf_path p = true -> p <> [] ->
    (forall q, In q (map fst (nodes s tr cfg)) -> is_prefix p q = false) ->
    forall r, wf_path r = true -> resolve_path s tr cfg (p ++ r) = None.
  Proof.
    intros p Hp Hne Hnone r Hr.
    destruct (resolve_path s tr cfg (p ++ r)) as [c|] eqn:Eres; [|reflexivity]. exfalso.
    assert (Hpr : wf_path (p ++ r) = true) by (apply ReconcileBase.wf_path_app; auto).
    assert (H : is_prefix p (p ++ r) = false).
    { apply (resolves_is_node (p ++ r) c (fun q => is_prefix p q)); auto.
      - intros a b Ha Hb Hab. apply is_prefix_cong; auto.
      - destruct p; [congruence|discriminate]. }
    rewrite (is_prefix_app p r Hp) in H. discriminate.
  Qed.

  (* no node of cfg at or above p *)
  Lemma no_node_above : forall p, wf_path p = true ->
    (forall q, In q (map fst (nodes s tr cfg)) -> is_prefix q p = false) ->
    forall n, 1 <= n -> p <> [] -> resolve_path s tr cfg (firstn n p) = None.
  Proof.
    intros p Hp Hnone n Hn Hne.
    destruct (resolve_path s tr cfg (firstn n p)) as [c|] eqn:Eres; [|reflexivity]. exfalso.
    assert (Hq : wf_path (firstn n p) = true) by (apply ReconcileBase.wf_path_firstn; exact Hp).
    assert (H : is_prefix (firstn n p) p = false).
    { apply (resolves_is_node (firstn n p) c (fun q => is_prefix q p)); auto.
      - intros a b Ha Hb Hab. apply is_prefix_cong_l; auto.
      - apply firstn_nonnil; assumption. }
    rewrite (is_prefix_firstn n p Hp) in H. discriminate.
  Qed.
End NoNode.
