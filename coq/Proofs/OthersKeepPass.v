(* The prune stage of Apply (Proofs/PruneShape.v) once more, with one more fact made
   explicit: the add-back loop runs AT LEAST ONE pass, so the object the dangling-items stage
   starts from is the result of a pass,  remove M (pass_T T0)  for a nice set T0
   [prune_shape_pass].  (Proofs/PruneShape.v, [prune_shape], describes that object by an
   invariant that must hold of the first removal too, which is not enough for C02, "fields
   of other managers are kept": right after the first removal -- of the closure of the
   applier's previous record -- a field that the applier shares with another manager IS
   gone; it is the first pass that puts it back.) *)
From Coq Require Import List ZArith String Bool Arith Lia.
From SMD Require Import Model.Value Model.Order Model.PathElem Model.PathSet Model.Schema Model.Walk
  Model.Validate Model.FieldSet Model.Remove Model.Merge Model.Compare Model.Matcher Model.Reconcile
  Model.Updater
  Spec.PathsAsSets Spec.RefValid Spec.Resolve Spec.Agree Spec.Examples
  Proofs.OrderLaws Proofs.PathSetLaws Proofs.SchemaOk Proofs.FieldSetBase Proofs.FieldSetPaths
  Proofs.FieldSetWf Proofs.FieldSetLaws Proofs.RemoveAbsent Proofs.RemoveWf Proofs.ResolveLaws
  Proofs.UpdaterLaws Proofs.UpdaterLaws2 Proofs.MergeLaws Proofs.MergeAgree
  Proofs.RemoveFrame Proofs.EnLaws Proofs.NodeSet Proofs.KeyFields Proofs.VeqbResolve
  Proofs.SetCheckers Proofs.ApplyEffect Proofs.PruneShape.
Import ListNotations.
Open Scope bool_scope.
Open Scope list_scope.

Local Arguments ps_has : simpl never.
Local Arguments ps_with_prefix : simpl never.
Local Arguments ps_empty : simpl never.

Section Pass.
  Variables (s : schema) (R : typeref -> Prop) (tr : typeref).
  Hypothesis Hok : schema_ok s R.
  Hypothesis Hfam : family_refs s R.
  Hypothesis Htr : R tr.
  Hypothesis Hnd : keys_nodefault s R.
  Hypothesis Hks : keys_scalar s R.

  Variables (live cfg M : value).
  Hypothesis Hwc : wf_value cfg = true.
  Hypothesis Hcc : conforms s tr false cfg = true.
  Hypothesis Hpl : plain cfg = true.
  Hypothesis HwM : wf_value M = true.
  Hypothesis HcM : conforms s tr true M = true.
  Hypothesis Hlf : LeafP s tr (Some live) (Some cfg) M.

  Variables (set0 U : pset).
  Hypothesis Hset0 : to_field_set s tr cfg = Some set0.
  Hypothesis HU : ps_ok U = true.
  Hypothesis HUcfg : forall q, wf_path q = true -> ps_has q set0 = true -> ps_has q U = true.
  Hypothesis HUown : forall q, wf_path q = true -> ps_has q U = true ->
    ps_has q set0 = true \/
    exists S, ps_ok S = true /\ owns_live_keys s tr live S /\ ps_has q S = true /\
              forall q', wf_path q' = true -> ps_has q' S = true -> ps_has q' U = true.

  (* the object is the result of an add-back pass *)
  Definition passed (P : value) : Prop :=
    exists T0, nice s tr M T0 /\ P = remove s tr M (pass_T s tr M U T0).

  Lemma passed_step : forall T0, nice s tr M T0 -> passed (remove s tr M T0) ->
    passed (remove s tr M (pass_T s tr M U T0)).
  Proof. intros T0 Hn0 _. exists T0. split; [exact Hn0|reflexivity]. Qed.

  Lemma passed_inv : forall P, passed P -> inv s tr M passed P.
  Proof.
    intros P (T0 & Hn0 & HP). exists (pass_T s tr M U T0).
    split; [|split; [exact HP|exists T0; split; [exact Hn0|exact HP]]].
    apply (pass_set s R tr Hok Hfam Htr Hnd Hks live cfg M Hwc Hcc Hpl HwM HcM Hlf set0 U Hset0 HU
             HUcfg HUown T0 Hn0).
  Qed.

  Variables (c : config) (ver : string).
  Hypothesis Hcid : conv_id c.
  Hypothesis Hsch : schema_of c ver = s.
  Hypothesis Htrr : tr_of c ver = tr.

  Lemma abr_unfold : forall fuel' mav versions n merged pruned previous,
    add_back_rounds (S fuel') c mav versions n merged pruned previous =
    match add_back_round c mav versions n merged pruned with
    | UErr e => UErr e
    | UOk (m, p, changed, n') =>
        if changed && Nat.leb 2 (List.length versions)
        then
          if match previous with Some q => veqb (snd q) (snd p) | None => false end
          then UOk (p, n')
          else add_back_rounds fuel' c mav versions n' m p (Some p)
        else UOk (p, n')
    end.
  Proof. reflexivity. Qed.

  (* one pass, from any object obtained by a removal *)
  Lemma afv_pass : forall n p m' p'' added n', fst p = ver ->
    (exists T0, nice s tr M T0 /\ snd p = remove s tr M T0) ->
    add_back_for_version c n (ver, M) p ver U = UOk (m', p'', added, n') ->
    m' = (ver, M) /\ fst p'' = ver /\ passed (snd p'').
  Proof.
    intros n p m' p'' added n' Hp (T0 & Hn0 & HP0) H.
    unfold add_back_for_version in H. rewrite !(convert_id c Hcid) in H. cbn [snd] in H.
    rewrite !(to_fs_ver s tr c ver Hsch Htrr) in H.
    destruct (to_field_set s tr M) as [SM|] eqn:ESM; [|discriminate].
    destruct (to_field_set s tr (snd p)) as [SP|] eqn:ESP; [|discriminate].
    rewrite !(en_ver s tr c ver Hsch Htrr), (remove_tv_ver s tr c ver Hsch Htrr) in H.
    rewrite (to_fs_ver s tr c ver Hsch Htrr) in H.
    destruct (to_field_set s tr (remove s tr M _)) as [newSet|]; [|discriminate].
    inversion H; subst m' p'' added n'. clear H. cbn [fst snd]. repeat split; auto.
    destruct (removed_obj s R tr Hok Hfam Htr Hnd M HwM HcM T0 Hn0) as [HwP HcP].
    rewrite HP0 in ESP.
    rewrite (to_field_set_node_set s R tr M SM Htr HwM HcM ESM).
    rewrite (to_field_set_node_set s R tr _ SP Htr HwP HcP ESP).
    fold (pass_T s tr M U T0).
    exists T0. split; [exact Hn0|reflexivity].
  Qed.

  (* the whole prune stage: the result is the removal from M of the dangling set computed
     from the result of a pass *)
  Theorem prune_shape_pass : forall n mfp mgr last pruned n1,
    managed_at_version mfp = [(ver, U)] ->
    (forall r, mf_get mgr mfp = Some r -> mr_ver r = ver) ->
    mr_ver last = ver -> ps_ok (mr_set last) = true -> applier_record_ok s tr (mr_set last) ->
    ps_empty (mr_set last) = false ->
    prune c n (ver, M) mfp mgr (Some last) = UOk (pruned, n1) ->
    exists T0, nice s tr M T0 /\
      pruned = (ver, remove s tr M (dangling_T s tr M (pass_T s tr M U T0) (mr_set last))).
  Proof.
    intros n mfp mgr last pruned n1 Hmav Htarget Hlv Hlok Hlrec Hne H.
    unfold prune in H. rewrite Hne in H.
    rewrite Hlv in H. rewrite (convert_id c Hcid) in H. cbn [snd] in H.
    rewrite (en_ver s tr c ver Hsch Htrr), (remove_tv_ver s tr c ver Hsch Htrr) in H.
    unfold add_back_owned in H. rewrite Hmav in H. cbn [assoc_get assoc_remove map] in H.
    rewrite String.eqb_refl in H. cbn [app] in H.
    set (P0 := (ver, remove s tr M (ps_en s tr (mr_set last)))) in H.
    assert (HP0 : exists T0, nice s tr M T0 /\ snd P0 = remove s tr M T0).
    { exists (ps_en s tr (mr_set last)). split; [|reflexivity].
      apply (first_set_nice s R tr Hok Hfam Htr Hnd M HwM HcM); assumption. }
    assert (Hrounds : exists pruned1 n2, fst pruned1 = ver /\ passed (snd pruned1) /\
              match add_back_dangling c n2 (ver, M) pruned1 last with
              | UOk (pruned2, n3) =>
                  match convert c n3 pruned2
                          match mf_get mgr mfp with Some r => mr_ver r | None => ver end with
                  | (COk v, n4) =>
                      UOk (match mf_get mgr mfp with Some r => mr_ver r | None => ver end, v, n4)
                  | _ => UErr EOther
                  end
              | UErr e => UErr e
              end = UOk (pruned, n1)).
    { match type of H with
      | context [add_back_rounds ?fu c ?mv ?o ?nn ?mm ?pp ?pv] =>
          destruct (add_back_rounds fu c mv o nn mm pp pv) as [[pruned1 n2]|e] eqn:Erounds;
            [|discriminate H]
      end.
      exists pruned1, n2.
      rewrite abr_unfold in Erounds. rewrite add_back_round_fold in Erounds.
      cbn [fold_left] in Erounds. unfold ab_step at 2 in Erounds. cbn [assoc_get] in Erounds.
      rewrite String.eqb_refl in Erounds.
      destruct (add_back_for_version c (S n) (ver, M) P0 ver U) as [[[[m1 p1] added] n1']|e] eqn:Eafv;
        [|rewrite ab_step_err in Erounds; discriminate].
      destruct (afv_pass (S n) P0 m1 p1 added n1' eq_refl HP0 Eafv) as (-> & Hp1 & HP1).
      match type of Erounds with
      | context [fold_left ?f ?l ?a] =>
          destruct (fold_left f l a) as [[[[m2 p2] ch2] n2']|e] eqn:Er; [|discriminate Erounds]
      end.
      destruct (round_inv s R tr Hok Hfam Htr Hnd Hks live cfg M Hwc Hcc Hpl HwM HcM Hlf set0 U Hset0 HU
                  HUcfg HUown passed passed_step c ver Hcid Hsch Htrr _ n1' p1 _ m2 p2 ch2 n2' Hp1
                  (passed_inv _ HP1) Er) as (-> & Hp2 & (T2 & _ & _ & HP2)).
      assert (Hfin : fst pruned1 = ver /\ passed (snd pruned1)).
      { match type of Erounds with context [if ?bb then _ else _] => destruct bb end.
        - destruct (rounds_inv s R tr Hok Hfam Htr Hnd Hks live cfg M Hwc Hcc Hpl HwM HcM Hlf set0 U Hset0 HU
                      HUcfg HUown passed passed_step c ver Hcid Hsch Htrr _ _ n2' p2 (Some p2) pruned1 n2
                      Hp2 (passed_inv _ HP2) Erounds) as (Hp3 & (T3 & _ & _ & HP3)).
          auto.
        - inversion Erounds; subst. auto. }
      destruct Hfin as [Hf1 Hf2]. split; [exact Hf1|]. split; [exact Hf2|exact H]. }
    clear H. destruct Hrounds as (pruned1 & n2 & Hp1 & HP1 & H).
    unfold add_back_dangling in H. rewrite Hlv, (convert_id c Hcid) in H. cbn [fst snd] in H.
    rewrite !(to_fs_ver s tr c ver Hsch Htrr) in H.
    destruct (to_field_set s tr (snd pruned1)) as [S1|] eqn:ES1; [|discriminate].
    destruct (to_field_set s tr M) as [SM|] eqn:ESM; [|discriminate].
    rewrite !(en_ver s tr c ver Hsch Htrr), (remove_tv_ver s tr c ver Hsch Htrr) in H.
    assert (Htv : (match mf_get mgr mfp with Some r => mr_ver r | None => ver end) = ver).
    { destruct (mf_get mgr mfp) as [r|] eqn:E; [apply Htarget; reflexivity|reflexivity]. }
    rewrite Htv, (convert_id c Hcid) in H. cbn [snd] in H.
    inversion H; subst pruned n1. clear H.
    destruct HP1 as (T0 & Hn0 & HP1).
    destruct (pass_set s R tr Hok Hfam Htr Hnd Hks live cfg M Hwc Hcc Hpl HwM HcM Hlf set0 U Hset0 HU
                HUcfg HUown T0 Hn0) as (_ & _ & Hn1).
    destruct (removed_obj s R tr Hok Hfam Htr Hnd M HwM HcM _ Hn1) as [HwP HcP].
    rewrite HP1 in ES1.
    rewrite (to_field_set_node_set s R tr M SM Htr HwM HcM ESM).
    rewrite (to_field_set_node_set s R tr _ S1 Htr HwP HcP ES1).
    exists T0. split; [exact Hn0|]. reflexivity.
  Qed.
End Pass.
