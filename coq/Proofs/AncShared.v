(* [anc_shared] (Proofs/AncSharedDef.v) is an invariant of histories (Proofs/History.v):

     of two managers that own the same field p = q ++ r, at least one owns -- in the closed
     sense of EnsureNamedFieldsAreMembers -- each proper non-empty prefix q of p.

   Structure of the step:
     [interior_unchanged]  a path with something beneath it in BOTH compared objects is not
                           reported by the comparison (neither added, removed nor modified);
     [field_set_closed]    the field set of a configuration, closed by [ps_en], contains
                           every non-empty proper prefix of each of its members;
     [anc_shared_new]      the abstract step: every new record either is such a closed set
                           (the applier's) or coincides with the manager's old record on the
                           paths the comparison does not report (everything else), the
                           records of the managers other than the actor holding only
                           unreported paths;
     [anc_shared_apply], [anc_shared_update]  the two operations;
     [anc_shared_step], [anc_shared_reachable]. *)
From Coq Require Import List ZArith String Bool Arith Lia.
From SMD Require Import Model.Value Model.Order Model.PathElem Model.PathSet Model.Schema Model.Walk
  Model.Validate Model.FieldSet Model.Remove Model.Merge Model.Compare Model.Matcher Model.Reconcile
  Model.Updater
  Spec.PathsAsSets Spec.RefValid Spec.Resolve Spec.Agree Spec.RefDiff Spec.Examples
  Proofs.OrderLaws Proofs.KeyLaws Proofs.PathSetLaws Proofs.SchemaOk Proofs.FieldSetBase
  Proofs.FieldSetShape Proofs.FieldSetPaths
  Proofs.FieldSetWf Proofs.FieldSetLaws Proofs.RemoveAbsent Proofs.RemoveWf Proofs.ResolveLaws
  Proofs.UpdaterLaws Proofs.UpdaterLaws2 Proofs.MergeLaws Proofs.MergeAgree
  Proofs.RemoveFrame Proofs.EnLaws Proofs.NodeSet Proofs.KeyFields Proofs.VeqbResolve
  Proofs.SetCheckers Proofs.ApplyEffect Proofs.RefDiffBoth Proofs.RefDiffLaws Proofs.RefDiffPresent
  Proofs.ApplyInv Proofs.ValidateLaws Proofs.CompareLaws
  Proofs.RefDiffChar Proofs.KeySync Proofs.ReconcileCurrent Proofs.History Proofs.AncSharedDef.
From SMD Require Proofs.UpdateInv Proofs.ApplyPrune Proofs.MergeBase Proofs.MergeKeeps Proofs.ReconcileBase.
Import ListNotations.
Open Scope bool_scope.
Open Scope list_scope.

Local Arguments ps_has : simpl never.
Local Arguments ps_empty : simpl never.

(* the set a manager's record holds, the empty set if it has none *)
Definition oldset (mf : managed) (m : string) : pset :=
  match mf_get m mf with Some r => mr_set r | None => ps_empty_set end.

(* S contains, once closed, every non-empty proper prefix of each of its members *)
Definition anc_closed (s : schema) (tr : typeref) (S : pset) : Prop :=
  forall q r : path, wf_path (q ++ r) = true -> q <> [] -> r <> [] ->
    ps_has (q ++ r) S = true -> ps_has q (ps_en s tr S) = true.

(* S' coincides with S on the paths the comparison does not report *)
Definition tracks (c : comparison3) (S S' : pset) : Prop :=
  forall p, wf_path p = true -> p <> [] -> changed c p = false -> ps_has p S' = ps_has p S.

(* S' holds only paths the comparison does not report *)
Definition unreported (c : comparison3) (S' : pset) : Prop :=
  forall p, wf_path p = true -> p <> [] -> ps_has p S' = true -> changed c p = false.

Lemma app_nonnil_l : forall (q r : path), q <> [] -> q ++ r <> [].
Proof. intros q r Hq E. apply app_eq_nil in E. destruct E as [E _]. contradiction. Qed.

Lemma keeps_unreported : forall r0 c p, keeps r0 c p = true -> changed c p = false.
Proof.
  intros r0 c p H. unfold keeps in H. unfold changed.
  destruct (ps_has p (removed c)), (ps_has p (modified c)), (ps_has p (added c));
    try reflexivity; rewrite ?andb_false_r in H; simpl in H; try discriminate;
    destruct (ps_has p (mr_set r0)); discriminate.
Qed.

Lemma keeps_tracks : forall r0 c p, changed c p = false -> keeps r0 c p = ps_has p (mr_set r0).
Proof.
  intros r0 c p H. apply changed_false in H. destruct H as (H1 & H2 & H3).
  unfold keeps. rewrite H1, H2, H3. cbn [orb negb]. rewrite !andb_true_r. reflexivity.
Qed.

(* ================= the comparison at interior nodes ================= *)
Section Interior.
  Variables (s : schema) (R : typeref -> Prop).
  Hypothesis Hok : schema_ok s R.
  Hypothesis Hfam : family_refs s R.
  Hypothesis Hpure : lists_pure s R.
  Variables (tr : typeref) (l r : value) (c : comparison3).
  Hypothesis Htr : R tr.
  Hypothesis Hwl : wf_value l = true.
  Hypothesis Hwr : wf_value r = true.
  Hypothesis Hcl : conforms s tr true l = true.
  Hypothesis Hcr : conforms s tr true r = true.
  Hypothesis Hc : compare s tr l r = Some c.

  Notation rs := (resolve_path s).

  (* a path that goes on resolves to a single node that is a map or a list *)
  Lemma interior_node : forall v (q rr : path), rr <> [] ->
    present s tr v (q ++ rr) = true ->
    exists t x, rs tr v q = Some (RNode t x) /\ present s t x rr = true /\
      match kind_of s t x with KMap _ _ | KList _ _ => True | _ => False end.
  Proof.
    intros v q rr Hrr Hpr. unfold present in Hpr. rewrite resolve_path_app in Hpr.
    destruct (rs tr v q) as [[t x|t xs]|] eqn:Eq; [| destruct rr; [congruence|discriminate] |discriminate].
    exists t, x. split; [reflexivity|]. split; [exact Hpr|].
    destruct rr as [|e rest]; [congruence|].
    destruct (kind_of s t x) eqn:Ek; try exact I;
      rewrite resolve_path_leaf in Hpr by (rewrite Ek; exact I); discriminate.
  Qed.

  Lemma interior_unchanged : forall (q rr : path), wf_path (q ++ rr) = true -> q <> [] -> rr <> [] ->
    present s tr l (q ++ rr) = true -> present s tr r (q ++ rr) = true ->
    changed c q = false.
  Proof.
    intros q rr Hp Hq Hrr Hpl Hpr.
    apply ReconcileBase.wf_path_app in Hp. destruct Hp as [Hwq _].
    destruct (interior_node l q rr Hrr Hpl) as (t1 & x1 & E1 & P1 & K1).
    destruct (interior_node r q rr Hrr Hpr) as (t2 & x2 & E2 & P2 & K2).
    destruct (compare_char s R Hok Hfam Hpure tr l r c Htr Hwl Hwr Hcl Hcr Hc q Hwq Hq)
      as (A1 & A2 & A3 & _).
    rewrite E1, E2 in A1, A2, A3.
    unfold changed.
    destruct (ps_has q (removed c)) eqn:Er.
    { destruct (A2 eq_refl) as [_ [H|H]]; [discriminate|exfalso; apply H; reflexivity]. }
    destruct (ps_has q (added c)) eqn:Ea.
    { destruct (A1 eq_refl) as [_ [H|H]]; [discriminate|exfalso; apply H; reflexivity]. }
    destruct (ps_has q (modified c)) eqn:Em; [|reflexivity].
    exfalso. pose proof (A3 eq_refl) as H. simpl in H.
    destruct rr as [|e rest]; [congruence|]. unfold present in P1, P2.
    destruct (kind_of s t1 x1) as [|ta ma|ta la|] eqn:Ka; try contradiction;
      destruct (kind_of s t2 x2) as [|tb mb|tb lb|] eqn:Kb; try contradiction.
    - (* a map and a list *)
      destruct e as [k|k|k|k];
        try (rewrite (resolve_path_map_other _ _ _ _ _ _ _ Ka) in P1 by exact I; discriminate).
      rewrite (resolve_path_list_other _ _ _ _ _ _ _ Kb) in P2 by reflexivity. discriminate.
    - (* a list and a map *)
      destruct e as [k|k|k|k];
        try (rewrite (resolve_path_map_other _ _ _ _ _ _ _ Kb) in P2 by exact I; discriminate).
      rewrite (resolve_path_list_other _ _ _ _ _ _ _ Ka) in P1 by reflexivity. discriminate.
  Qed.
End Interior.

(* ================= the field set of a configuration ================= *)
Section FieldSetClosed.
  Variables (s : schema) (R : typeref -> Prop).
  Hypothesis Hok : schema_ok s R.
  Hypothesis Hfam : family_refs s R.

  Lemma field_set_closed : forall tr cfg set0, R tr ->
    wf_value cfg = true -> conforms s tr false cfg = true ->
    to_field_set s tr cfg = Some set0 -> anc_closed s tr set0.
  Proof.
    intros tr cfg set0 Htr Hwc Hcc Hset0 q r Hpr Hne Hr Hhas.
    pose proof (MergeBase.conforms_dup_mono s cfg tr Hcc) as Hcc'.
    pose proof (field_set_paths_resolve s R tr cfg set0 _ Hok Htr Hfam Hwc Hcc' Hset0 Hpr Hhas) as Hprs.
    pose proof Hpr as Hpr'. apply ReconcileBase.wf_path_app in Hpr'. destruct Hpr' as [Hq Hwr].
    rewrite to_field_set_eq in Hset0. destruct (fse s tr cfg); [discriminate|].
    inversion Hset0; subst set0. clear Hset0.
    pose proof (fs_ok s R Hok tr cfg Htr Hwc) as Hfs.
    assert (Hprne : q ++ r <> []) by (apply app_nonnil_l; exact Hne).
    rewrite (fs_has s R Hok tr cfg _ Htr Hwc Hpr Hprne) in Hhas.
    destruct (exists_last Hne) as (pre & e & ->).
    assert (Hnode : exists n, resolve_path s tr cfg (pre ++ [e]) = Some n /\ exists t1 x1, n = RNode t1 x1).
    { unfold present in Hprs. rewrite resolve_path_app in Hprs.
      destruct (resolve_path s tr cfg (pre ++ [e])) as [[t1 x1|t1 xs]|];
        [| destruct r; [congruence|discriminate] |discriminate].
      exists (RNode t1 x1). split; [reflexivity|]. exists t1, x1. reflexivity. }
    destruct Hnode as (n & Hn & Hnn).
    destruct e as [k|fl|ev|i].
    - destruct (named s (en_type s tr pre) k) eqn:Enamed.
      + apply en_has_iff; auto. right. exists pre, k. split; [reflexivity|]. split; [exact Enamed|].
        exists r. split; [exact Hr|]. split; [exact Hwr|]. rewrite (fs_has s R Hok); auto.
      + apply en_has_mono; auto. rewrite (fs_has s R Hok); auto.
        apply (fsp_unnamed_mem s R Hok Hfam pre cfg tr k n); auto.
    - apply en_has_mono; auto. rewrite (fs_has s R Hok); auto.
      apply (fsp_item_mem s R Hok Hfam pre cfg tr _ n); auto.
    - apply en_has_mono; auto. rewrite (fs_has s R Hok); auto.
      apply (fsp_item_mem s R Hok Hfam pre cfg tr _ n); auto.
    - exfalso. rewrite resolve_path_app in Hn.
      destruct (resolve_path s tr cfg pre) as [[t1 x1|t1 xs]|]; try discriminate.
      destruct (kind_of s t1 x1) as [|t m|t l|] eqn:Ek.
      + rewrite resolve_path_leaf in Hn by (rewrite Ek; exact I). discriminate.
      + rewrite (resolve_path_map_other _ _ _ _ _ _ _ Ek) in Hn by exact I. discriminate.
      + rewrite (resolve_path_list_other _ _ _ _ _ _ _ Ek) in Hn by reflexivity. discriminate.
      + rewrite resolve_path_leaf in Hn by (rewrite Ek; exact I). discriminate.
  Qed.
End FieldSetClosed.

(* ================= the abstract step ================= *)
Section AbstractStep.
  Variables (s : schema) (R : typeref -> Prop).
  Hypothesis Hok : schema_ok s R.
  Hypothesis Hfam : family_refs s R.
  Hypothesis Hpure : lists_pure s R.
  Variables (tr : typeref) (l r : value) (c : comparison3).
  Hypothesis Htr : R tr.
  Hypothesis Hwl : wf_value l = true.
  Hypothesis Hwr : wf_value r = true.
  Hypothesis Hcl : conforms s tr true l = true.
  Hypothesis Hcr : conforms s tr true r = true.
  Hypothesis Hc : compare s tr l r = Some c.

  (* membership in the closure moves along [tracks] at an unreported path that has a
     member beneath it in the new set *)
  Lemma en_transfer : forall S S' (q rr : path), ps_ok S = true -> ps_ok S' = true ->
    tracks c S S' -> wf_path (q ++ rr) = true -> q <> [] -> rr <> [] ->
    changed c q = false -> ps_has (q ++ rr) S' = true ->
    ps_has q (ps_en s tr S) = true -> ps_has q (ps_en s tr S') = true.
  Proof.
    intros S S' q rr HS HS' Htk Hp Hq Hrr Hcq Hhas Hen.
    pose proof Hp as Hp'. apply ReconcileBase.wf_path_app in Hp'. destruct Hp' as [Hwq Hwrr].
    apply (en_has_iff s q tr S HS Hwq Hq) in Hen.
    destruct Hen as [Hm|(pre & n & Hpe & Hnamed & _)].
    - apply en_has_mono; auto. rewrite (Htk q Hwq Hq Hcq). exact Hm.
    - apply (en_has_iff s q tr S' HS' Hwq Hq). right. exists pre, n.
      split; [exact Hpe|]. split; [exact Hnamed|]. exists rr. auto.
  Qed.

  Variables (mf mf' : managed) (w : string).
  Hypothesis Hmf : mf_ok mf.
  Hypothesis Hmf' : mf_ok mf'.
  Hypothesis Hold : anc_shared s tr mf.
  Hypothesis Holdp : owned_present s tr l mf.
  Hypothesis Hnewp : owned_present s tr r mf'.
  (* every new record: closed, or tracking the manager's old record *)
  Hypothesis Hnew : forall m r', mf_get m mf' = Some r' ->
    anc_closed s tr (mr_set r') \/ tracks c (oldset mf m) (mr_set r').
  (* the records of the managers other than the actor *)
  Hypothesis Hoth : forall m r', m <> w -> mf_get m mf' = Some r' ->
    tracks c (oldset mf m) (mr_set r') /\ unreported c (mr_set r').

  Lemma oldset_ok : forall m, ps_ok (oldset mf m) = true.
  Proof.
    intros m. unfold oldset. destruct (mf_get m mf) as [r0|] eqn:E; [|reflexivity].
    apply (mf_ok_get mf m r0 Hmf E).
  Qed.

  Lemma oldset_get : forall m p, ps_has p (oldset mf m) = true ->
    exists r0, mf_get m mf = Some r0 /\ ps_has p (mr_set r0) = true.
  Proof.
    intros m p H. unfold oldset in H. destruct (mf_get m mf) as [r0|]; [|rewrite ps_has_empty_set in H; discriminate].
    exists r0. auto.
  Qed.

  (* one of the two managers is not the actor *)
  Lemma anc_pair : forall ma mb ra rb (q rr : path), ma <> mb -> mb <> w ->
    mf_get ma mf' = Some ra -> mf_get mb mf' = Some rb ->
    wf_path (q ++ rr) = true -> q <> [] -> rr <> [] ->
    ps_has (q ++ rr) (mr_set ra) = true -> ps_has (q ++ rr) (mr_set rb) = true ->
    ps_has q (ps_en s tr (mr_set ra)) = true \/ ps_has q (ps_en s tr (mr_set rb)) = true.
  Proof.
    intros ma mb ra rb q rr Hab Hbw Ga Gb Hp Hq Hrr Ha Hb.
    assert (Hpne : q ++ rr <> []) by (apply app_nonnil_l; exact Hq).
    destruct (Hoth mb rb Hbw Gb) as [Htb Hub].
    pose proof (Hub _ Hp Hpne Hb) as Hcp.
    pose proof Hb as Hb0. rewrite (Htb _ Hp Hpne Hcp) in Hb0.
    destruct (oldset_get mb _ Hb0) as (rb0 & Gb0 & Hb0').
    pose proof (Holdp mb rb0 _ Gb0 Hp Hb0') as Hpl.
    pose proof (Hnewp mb rb _ Gb Hp Hb) as Hpr.
    pose proof (interior_unchanged s R Hok Hfam Hpure tr l r c Htr Hwl Hwr Hcl Hcr Hc q rr Hp Hq Hrr Hpl Hpr) as Hcq.
    destruct (Hnew ma ra Ga) as [Hcl'|Hta].
    - left. apply (Hcl' q rr Hp Hq Hrr Ha).
    - pose proof Ha as Ha0. rewrite (Hta _ Hp Hpne Hcp) in Ha0.
      destruct (oldset_get ma _ Ha0) as (ra0 & Ga0 & Ha0').
      assert (Ea : oldset mf ma = mr_set ra0) by (unfold oldset; rewrite Ga0; reflexivity).
      assert (Eb : oldset mf mb = mr_set rb0) by (unfold oldset; rewrite Gb0; reflexivity).
      destruct (Hold ma mb ra0 rb0 q rr Hab Ga0 Gb0 Hp Hq Hrr Ha0' Hb0') as [H|H].
      + left. apply (en_transfer (oldset mf ma) (mr_set ra) q rr (oldset_ok ma) (mf_ok_get mf' ma ra Hmf' Ga)
                       Hta Hp Hq Hrr Hcq Ha). rewrite Ea. exact H.
      + right. apply (en_transfer (oldset mf mb) (mr_set rb) q rr (oldset_ok mb) (mf_ok_get mf' mb rb Hmf' Gb)
                        Htb Hp Hq Hrr Hcq Hb). rewrite Eb. exact H.
  Qed.

  Lemma anc_shared_new : anc_shared s tr mf'.
  Proof.
    intros m1 m2 r1 r2 q rr H12 G1 G2 Hp Hq Hrr H1 H2.
    destruct (String.eqb_spec m2 w) as [E|E].
    - assert (H1w : m1 <> w) by congruence.
      destruct (anc_pair m2 m1 r2 r1 q rr (fun e => H12 (eq_sym e)) H1w G2 G1 Hp Hq Hrr H2 H1) as [H|H]; auto.
    - apply (anc_pair m1 m2 r1 r2 q rr H12 E G1 G2 Hp Hq Hrr H1 H2).
  Qed.
End AbstractStep.

(* ================= the two operations ================= *)
Section Step.
  Variables (c : config) (R : typeref -> Prop) (ver : string).
  Let s := schema_of c ver.
  Let tr := tr_of c ver.

  Lemma anc_shared_apply : forall live mf mgr cfg force o mf',
    setting_ok c R ver -> state_ok c ver live mf -> op_ok c ver (HApply mgr cfg force) ->
    apply_op c (ver, live) (ver, cfg) ver mf mgr force = UOk (o, mf') ->
    anc_shared s tr mf -> anc_shared s tr mf'.
  Proof.
    intros live mf mgr cfg force o mf' Hset Hst Hop Happly Hold.
    pose proof (apply_step c R ver live mf mgr cfg force o mf' Hset Hst Hop Happly) as Hst'.
    pose proof (state_ok_conforms c ver live mf _ Hst Hop) as Hcl.
    pose proof Hset as (Hni & Hcid & Hok & Hfam & Hpure & Htr & Hkp).
    destruct Hop as (Hwc & Hcc & Hpl & Hgr).
    pose proof (so_wf c ver live mf Hst) as Hwl. pose proof (so_mf c ver live mf Hst) as Hmf.
    pose proof (so_single c ver live mf Hst) as Hsv. pose proof (so_current c ver live mf Hst) as Hcur.
    pose proof (so_present c ver live mf Hst) as Hown.
    assert (Hmine : forall r, mf_get mgr mf = Some r -> applier_record_ok s tr (mr_set r)).
    { intros r Hg. apply (so_records c ver live mf Hst mgr r Hg). }
    assert (Hothers : forall m r, m <> mgr -> mf_get m mf = Some r -> owns_live_keys s tr live (mr_set r)).
    { intros m r _ Hg. apply (so_records c ver live mf Hst m r Hg). }
    destruct (apply_unfold c R ver (ver, live) (ver, cfg) mf mgr force o mf'
                Hni Hcid Hok Hfam Htr Hkp eq_refl eq_refl Hsv Hmf Hcur Hmine Hothers
                Hwl Hwc Hcl Hcc Hpl Hgr Happly)
      as (set0 & px & n1 & cmp & n2 & Eset0 & Hset0ok & HwP & HcP & HagrP & Hupd & Hres).
    cbn [fst snd] in *.
    set (mfp := mf_set mgr {| mr_set := set0; mr_ver := ver; mr_applied := true |} mf) in *.
    assert (Hmfp : mf_ok mfp) by (apply mf_set_ok; assumption).
    assert (Hsvp : single_version ver mfp) by (apply mf_set_single; [assumption|reflexivity]).
    assert (Hcok : forall cmp0, compare_tv c (ver, live) (ver, px) = Some cmp0 -> cmp_ok cmp0).
    { intros cmp0 Hc0. unfold compare_tv in Hc0. cbn [fst snd] in Hc0.
      exact (compare_sets_ok _ R _ _ _ _ Hok Htr Hwl HwP Hc0). }
    destruct (update_core_records c n1 (ver, live) (ver, px) ver mfp mgr force mf' cmp n2 Hni Hsvp Hmfp Hcok Hupd)
      as (Hcmp & _ & Hmf' & _ & _ & Hw & Hoth).
    unfold compare_tv in Hcmp. cbn [fst snd] in Hcmp.
    (* the new records designate nodes of the pruned object *)
    assert (Hnewp : owned_present s tr px mf').
    { pose proof (so_present c ver _ mf' Hst') as Hp'.
      destruct Hres as [[-> Hv]| ->]; cbn [snd] in Hp'; [|exact Hp'].
      intros m r p Hg Hp Hh.
      rewrite <- (ApplyPrune.veqb_present s R Hok Hfam tr live px p Htr Hwl HwP Hcl HcP Hv Hp).
      apply (Hp' m r p Hg Hp Hh). }
    (* the records of the others *)
    assert (Hoth' : forall m r', m <> mgr -> mf_get m mf' = Some r' ->
              tracks cmp (oldset mf m) (mr_set r') /\ unreported cmp (mr_set r')).
    { intros m r' Hm Hg. pose proof (Hoth m Hm) as Ho. unfold mfp in Ho.
      rewrite (mf_get_set_other m mgr _ mf Hm) in Ho. unfold oldset.
      destruct (mf_get m mf) as [r0|] eqn:E0; [|congruence].
      rewrite Hg in Ho. destruct Ho as (_ & _ & Hk). split.
      - intros p Hp Hne Hcp. rewrite (Hk p Hp Hne). apply keeps_tracks. exact Hcp.
      - intros p Hp Hne Hh. rewrite (Hk p Hp Hne) in Hh. apply (keeps_unreported r0 cmp p Hh). }
    apply (anc_shared_new s R Hok Hfam Hpure tr live px cmp Htr Hwl HwP Hcl HcP Hcmp mf mf' mgr
             Hmf Hmf' Hold Hown Hnewp); [|exact Hoth'].
    intros m r' Hg. destruct (String.eqb_spec m mgr) as [->|Hm].
    - left. rewrite Hw in Hg. unfold mfp in Hg. rewrite mf_get_set_same in Hg. cbn [mr_set] in Hg.
      destruct (ps_empty set0); [discriminate|]. inversion Hg; subst r'. cbn [mr_set].
      apply (field_set_closed s R Hok Hfam tr cfg set0 Htr Hwc Hcc Eset0).
    - right. apply (Hoth' m r' Hm Hg).
  Qed.

  Lemma anc_shared_update : forall live mf mgr obj o mf',
    setting_ok c R ver -> state_ok c ver live mf -> op_ok c ver (HUpdate mgr obj) ->
    update_op c (ver, live) (ver, obj) ver mf mgr = UOk (o, mf') ->
    anc_shared s tr mf -> anc_shared s tr mf'.
  Proof.
    intros live mf mgr obj o mf' Hset Hst Hop Hupdate Hold.
    destruct (update_step c R ver live mf mgr obj o mf' Hset Hst Hop Hupdate) as [_ Hst'].
    pose proof (state_ok_conforms c ver live mf _ Hst Hop) as Hcl.
    pose proof Hset as (Hni & Hcid & Hok & Hfam & Hpure & Htr & Hkp).
    destruct Hop as (Hwn & Hcn).
    pose proof (so_wf c ver live mf Hst) as Hwl. pose proof (so_mf c ver live mf Hst) as Hmf.
    pose proof (so_single c ver live mf Hst) as Hsv. pose proof (so_present c ver live mf Hst) as Hown.
    pose proof (so_present c ver obj mf' Hst') as Hnewp.
    pose proof (so_mf c ver obj mf' Hst') as Hmf'.
    unfold update_op in Hupdate.
    destruct (reconcile_managed c 0 (ver, live) mf) as [[mf0 n0]|e] eqn:Hrec; [|discriminate].
    pose proof (reconcile_id c R ver live mf mf0 n0 Hset Hst Hrec) as E. subst mf0.
    destruct (update_core c n0 (ver, live) (ver, obj) ver mf mgr true) as [[[mf1 cmp] n1]|e] eqn:Hupd; [|discriminate].
    rewrite (no_ignore_filter c ver Hni) in Hupdate. cbn [filter_set] in Hupdate.
    assert (Hcok : forall cmp0, compare_tv c (ver, live) (ver, obj) = Some cmp0 -> cmp_ok cmp0).
    { intros cmp0 Hc0. unfold compare_tv in Hc0. cbn [fst snd] in Hc0.
      exact (compare_sets_ok _ R _ _ _ _ Hok Htr Hwl Hwn Hc0). }
    destruct (update_core_records c n0 (ver, live) (ver, obj) ver mf mgr true mf1 cmp n1 Hni Hsv Hmf Hcok Hupd)
      as (Hcmp & _ & Hok1 & _ & _ & Hw & Hothers).
    pose proof (Hcok cmp Hcmp) as Hc.
    unfold compare_tv in Hcmp. cbn [fst snd] in Hcmp.
    (* the records of the other managers *)
    assert (Hoth1 : forall m r', m <> mgr -> mf_get m mf1 = Some r' ->
              tracks cmp (oldset mf m) (mr_set r') /\ unreported cmp (mr_set r')).
    { intros m r' Hm Hg. pose proof (Hothers m Hm) as Ho. unfold oldset.
      destruct (mf_get m mf) as [r0|] eqn:E0; [|congruence].
      rewrite Hg in Ho. destruct Ho as (_ & _ & Hk). split.
      - intros p Hp Hne Hcp. rewrite (Hk p Hp Hne). apply keeps_tracks. exact Hcp.
      - intros p Hp Hne Hh. rewrite (Hk p Hp Hne) in Hh. apply (keeps_unreported r0 cmp p Hh). }
    (* the updater's set *)
    set (cur := match mf_get mgr mf1 with Some r => mr_set r | None => ps_empty_set end) in *.
    assert (Hcur : ps_ok cur = true) by (apply cur_ok; exact Hok1).
    assert (Ecur : cur = oldset mf mgr).
    { unfold cur, oldset. rewrite Hw. destruct (mf_get mgr mf) as [r|] eqn:Er; [|reflexivity].
      rewrite (so_nonempty c ver live mf Hst mgr r Er). reflexivity. }
    destruct (update_set_spec cur cmp Hcur Hc) as [Hok2 Hhas2].
    set (set0 := ps_union (ps_union (ps_diff cur (removed cmp)) (modified cmp)) (added cmp)) in *.
    assert (Hset0 : tracks cmp (oldset mf mgr) set0).
    { intros p Hp Hne Hcp. rewrite (Hhas2 p Hp), <- Ecur. apply changed_false in Hcp.
      destruct Hcp as (H1 & H2 & H3). rewrite H1, H2, H3. cbn [negb]. rewrite andb_true_r, !orb_false_r.
      reflexivity. }
    assert (Hoth' : forall m r', m <> mgr -> mf_get m mf' = Some r' ->
              tracks cmp (oldset mf m) (mr_set r') /\ unreported cmp (mr_set r')).
    { intros m r' Hm Hg. apply (Hoth1 m r' Hm).
      destruct (ps_empty set0) eqn:Ee; inversion Hupdate; subst o mf'.
      - rewrite (mf_get_del m mgr mf1 (proj1 Hok1)) in Hg.
        destruct (String.eqb_spec m mgr) as [E|E]; [contradiction|exact Hg].
      - rewrite (mf_get_set_other m mgr _ mf1 Hm) in Hg. exact Hg. }
    apply (anc_shared_new s R Hok Hfam Hpure tr live obj cmp Htr Hwl Hwn Hcl Hcn Hcmp mf mf' mgr
             Hmf Hmf' Hold Hown Hnewp); [|exact Hoth'].
    intros m r' Hg. right. destruct (String.eqb_spec m mgr) as [->|Hm].
    - destruct (ps_empty set0) eqn:Ee; inversion Hupdate; subst o mf'.
      + rewrite (mf_get_del mgr mgr mf1 (proj1 Hok1)), String.eqb_refl in Hg. discriminate.
      + rewrite mf_get_set_same in Hg. inversion Hg; subst r'. cbn [mr_set]. exact Hset0.
    - apply (Hoth' m r' Hm Hg).
  Qed.
End Step.

(* ================= the theorems ================= *)

Theorem anc_shared_step : forall c R ver live mf o,
  setting_ok c R ver -> state_ok c ver live mf -> op_ok c ver o ->
  anc_shared (schema_of c ver) (tr_of c ver) mf ->
  anc_shared (schema_of c ver) (tr_of c ver) (snd (hstep c ver (live, mf) o)).
Proof.
  intros c R ver live mf o Hset Hst Hop Hold. destruct o as [mgr cfg force|mgr obj]; cbn [hstep fst snd].
  - destruct (apply_op c (ver, live) (ver, cfg) ver mf mgr force) as [[o mf']|e] eqn:Happly; [|exact Hold].
    pose proof (anc_shared_apply c R ver live mf mgr cfg force o mf' Hset Hst Hop Happly Hold) as H.
    destruct o as [t|]; exact H.
  - destruct (update_op c (ver, live) (ver, obj) ver mf mgr) as [[t mf']|e] eqn:Hupdate; [|exact Hold].
    apply (anc_shared_update c R ver live mf mgr obj t mf' Hset Hst Hop Hupdate Hold).
Qed.

Lemma anc_shared_run_from : forall c R ver ops st,
  setting_ok c R ver -> Forall (op_ok c ver) ops ->
  state_ok c ver (fst st) (snd st) ->
  anc_shared (schema_of c ver) (tr_of c ver) (snd st) ->
  anc_shared (schema_of c ver) (tr_of c ver) (snd (fold_left (hstep c ver) ops st)).
Proof.
  intros c R ver ops. induction ops as [|o ops IH]; intros [live mf] Hset Hall Hst Hanc; [exact Hanc|].
  cbn [fold_left]. inversion Hall as [|? ? Ho Hrest]; subst. cbn [fst snd] in Hst, Hanc.
  apply IH; auto.
  - apply (step_preserves_state_ok c R ver live mf o Hset Hst Ho).
  - apply (anc_shared_step c R ver live mf o Hset Hst Ho Hanc).
Qed.

Theorem anc_shared_reachable : forall c R ver ops,
  setting_ok c R ver -> Forall (op_ok c ver) ops ->
  anc_shared (schema_of c ver) (tr_of c ver) (snd (run c ver ops)).
Proof.
  intros c R ver ops Hset Hall. unfold run.
  apply (anc_shared_run_from c R ver ops (VNull, []) Hset Hall).
  - exact (initial_state_ok c ver).
  - apply anc_shared_nil.
Qed.

