(* C12, field sets: which nodes of a valid object are members of its field set
   (ToFieldSet): the leaves, the members of sets and associative lists, and the keys of maps
   that are not declared fields.  [fsp_class]: every inserted path is such a node;
   [mem_of_class]: every such node is a member. *)
From Coq Require Import List ZArith String Bool Arith Lia.
From SMD Require Import Model.Value Model.Order Model.PathElem Model.PathSet Model.Schema
  Model.Walk Model.FieldSet Model.Remove Spec.PathsAsSets Spec.RefValid Spec.Resolve Spec.Agree
  Proofs.OrderLaws Proofs.KeyLaws Proofs.PathSetLaws Proofs.ValidateLaws Proofs.SchemaOk
  Proofs.FieldSetMirrors Proofs.FieldSetBase Proofs.FieldSetShape Proofs.FieldSetPaths
  Proofs.FieldSetLaws Proofs.RemoveBase Proofs.ExtractBase Proofs.ExtractLaws Proofs.RemoveAbsent
  Proofs.ResolveLaws Proofs.RemoveFrame Proofs.EnLaws Proofs.NodeSet Proofs.ReconcileBase Proofs.MergeBase.
Import ListNotations.
Open Scope bool_scope.
Open Scope list_scope.

Definition last_keyval (q : path) : Prop := exists pre e, q = pre ++ [e] /\ is_keyval e = true.
Definition last_unnamed (s : schema) (tr : typeref) (q : path) : Prop :=
  exists pre k, q = pre ++ [PEField k] /\ named s (en_type s tr pre) k = false.

(* the nodes the field-set walker records *)
Definition mclass (s : schema) (tr : typeref) (q : path) (n : rnode) : Prop :=
  match n with
  | RDup _ _ => True
  | RNode t x => leafy s t x \/ last_keyval q \/ last_unnamed s tr q
  end.

Lemma leafy_null : forall s tr, leafy s tr VNull.
Proof. intros s tr. unfold leafy, kind_of. destruct (resolve s tr) as [[sc li ma]|]; exact I. Qed.

Lemma leafy_empty_map : forall s tr, leafy s tr (VMap []).
Proof.
  intros s tr. unfold leafy, kind_of. destruct (resolve s tr) as [[sc li [t|]]|]; try exact I.
  destruct (rel_is_atomic (map_rel t)); exact I.
Qed.

Lemma leafy_empty_list : forall s tr, leafy s tr (VList []).
Proof.
  intros s tr. unfold leafy, kind_of. destruct (resolve s tr) as [[sc [t|] ma]|]; try exact I.
  destruct (rel_is_atomic (list_rel t)); exact I.
Qed.

Lemma leafy_not_granular : forall s tr v, leafy s tr v -> granular s tr v -> False.
Proof. intros s tr v. unfold leafy, granular. destruct (kind_of s tr v); tauto. Qed.

Lemma granular_not_empty_list : forall s tr v, granular s tr v -> v <> VList [].
Proof. intros s tr v Hg E. subst v. apply (leafy_not_granular s tr _ (leafy_empty_list s tr) Hg). Qed.

(* what the walker records for a leaf: at most the leaf itself *)
Lemma fsp_leaf_nil : forall s tr v q, leafy s tr v -> In q (fsp s tr v) -> q = [].
Proof.
  intros s tr v q Hl Hin. unfold fsp in Hin. rewrite fs_paths_nil_eq in Hin.
  unfold leafy, kind_of in Hl.
  destruct (resolve s tr) as [[sc li ma]|] eqn:Er; [|destruct Hin].
  destruct v as [|b|z|q0|str|l|m]; destruct sc as [tsc|], li as [tl|], ma as [tm|];
    simpl in Hin, Hl;
    repeat match type of Hin with
           | context [rel_is_atomic ?r] => destruct (rel_is_atomic r) eqn:?; simpl in Hin, Hl
           end;
    try (destruct Hin as [Hin|[]]; symmetry; exact Hin); try (destruct Hin; fail);
    try (destruct l; simpl in Hin, Hl; [destruct Hin|contradiction]);
    try (destruct m; simpl in Hin, Hl; [destruct Hin|contradiction]).
Qed.

Section Class.
  Variables (s : schema) (R : typeref -> Prop).
  Hypothesis Hok : schema_ok s R.
  Hypothesis Hfam : family_refs s R.

  Lemma mclass_lift : forall tr e ct q n,
    en_child_tr (atom_at s tr) e = ct \/ (forall pre k, q = pre ++ [PEField k] -> False) ->
    mclass s ct q n -> q <> [] -> mclass s tr (e :: q) n.
  Proof.
    intros tr e ct q n Hct Hm Hne. destruct n as [t x|t xs]; [|exact I].
    simpl in Hm |- *. destruct Hm as [Hl|[(pre & e0 & -> & Hkv)|(pre & k & -> & Hnamed)]].
    - left. exact Hl.
    - right. left. exists (e :: pre), e0. split; [reflexivity|exact Hkv].
    - right. right. destruct Hct as [Hct|Hct]; [|exfalso; apply (Hct pre k eq_refl)].
      exists (e :: pre), k. split; [reflexivity|]. simpl. rewrite Hct. exact Hnamed.
  Qed.

  (* every inserted path designates a leaf, a list member or an undeclared key *)
  Lemma fsp_class : forall f v tr q, vdepth v < f -> R tr -> wf_value v = true ->
    conforms s tr true v = true -> In q (fsp s tr v) ->
    exists n, resolve_path s tr v q = Some n /\ mclass s tr q n.
  Proof.
    induction f as [|f IH]; intros v tr q Hd Htr Hwf Hc Hin; [lia|].
    destruct (kind_of s tr v) as [|t m|t l|] eqn:Ek.
    - assert (Hl : leafy s tr v) by (unfold leafy; rewrite Ek; exact I).
      rewrite (fsp_leaf_nil s tr v q Hl Hin). exists (RNode tr v). split; [reflexivity|]. left. exact Hl.
    - (* granular map *)
      rewrite (fsp_kmap s tr v t m Ek) in Hin.
      destruct (kind_map_inv _ _ _ _ _ Ek) as (a & Hr & Ham & Hv & Hna & Hmne). subst v.
      destruct a as [sc li ma]. simpl in Ham. subst ma.
      apply in_flat_map in Hin. destruct Hin as ([k c] & Hkc & Hin).
      unfold entry_paths in Hin. cbn [fst snd] in Hin.
      apply in_map_iff in Hin. destruct Hin as (q1 & Hq & Hin). subst q.
      assert (Hget : assoc_get k m = Some c).
      { apply assoc_get_in_sorted; auto. simpl in Hwf. apply andb_true_iff in Hwf. apply Hwf. }
      rewrite (resolve_path_map _ _ _ _ _ _ _ Ek), Hget.
      assert (Hct : en_child_tr (atom_at s tr) (PEField k) = field_type t k).
      { unfold atom_at. rewrite Hr. reflexivity. }
      apply in_app_or in Hin. destruct Hin as [Hin|Hin].
      + destruct (IH c (field_type t k) q1) as (n & Hres & Hm); auto.
        * pose proof (MergeBase.vdepth_map_in m k c Hkc). lia.
        * apply (so_map s R Hok tr _ t k Htr Hr eq_refl).
        * eapply wf_value_map_in; eauto.
        * rewrite conforms_eq, Hr in Hc. eapply cmap_each_in; eauto.
        * exists n. split; [exact Hres|].
          destruct q1 as [|e1 q1'].
          -- simpl in Hres. inversion Hres; subst n. simpl in Hm |- *.
             destruct Hm as [Hl|[(pre & e0 & E & _)|(pre & k0 & E & _)]];
               [left; exact Hl|destruct pre; discriminate|destruct pre; discriminate].
          -- apply (mclass_lift tr (PEField k) (field_type t k)); auto. discriminate.
      + pose proof (own0_in t k c q1 Hin) as E. subst q1. simpl.
        exists (RNode (field_type t k) c). split; [reflexivity|]. simpl.
        destruct (has_field t k) eqn:Ehf.
        * left. unfold own0 in Hin.
          destruct c as [| | | | |l'|m']; try (rewrite Ehf in Hin; destruct Hin).
          -- apply leafy_null.
          -- destruct m'; [apply leafy_empty_map|rewrite Ehf in Hin; destruct Hin].
        * right. right. exists [], k. split; [reflexivity|]. simpl. unfold named, atom_at. rewrite Hr. exact Ehf.
    - (* granular list *)
      rewrite (fsp_klist s tr v t l Ek) in Hin.
      destruct (kind_list_inv _ _ _ _ _ Ek) as (a0 & Hr0 & Hal & Hv & _ & _). subst v.
      destruct (conf_list_facts s R Hok Hfam tr true t l Htr Hc Ek)
        as (sc & ma & Hr & Hte & Hna & Hlne & Hhp & Hcs & _).
      assert (Hiw : items_wf s t l) by (eapply items_wf_R; eauto).
      destruct (pass1_spec s t [] l [] [] [] false eq_refl eq_refl eq_refl eq_refl Hiw Hhp)
        as (d & new & Heq & Hsd & Hwd & Hmem & Hnew).
      rewrite Heq in Hin. cbn [app] in Hin.
      pose proof (resolve_path_list_occ s R Hok tr (VList l) t l) as Hocc.
      apply in_app_or in Hin. destruct Hin as [Hin|Hin].
      + destruct (Hnew q Hin) as (e & Hq & He & H3). subst q. simpl in H3. simpl app.
        destruct (occ s t e l) as [|x [|y more]] eqn:Eocc; simpl in H3; try discriminate.
        assert (Hx : In x (occ s t e l)) by (rewrite Eocc; simpl; auto).
        apply occ_In in Hx. destruct Hx as [Hxl Hxm].
        assert (Hkv : is_keyval e = true).
        { unfold pe_matches in Hxm. destruct (list_item_to_pe s t x) as [ex|] eqn:Ex; [|discriminate].
          rewrite <- (peeqb_keyval ex e Hxm). eapply lipe_keyval; eauto. }
        rewrite (Hocc e [] Htr Hwf Ek He), Hhp, Hkv, Eocc. cbn [andb].
        eexists. split; [reflexivity|exact I].
      + apply in_flat_map in Hin. destruct Hin as (x & Hx & Hin).
        pose proof Hhp as Hhx. rewrite forallb_forall in Hhx. specialize (Hhx x Hx).
        unfold ValidateLaws.has_pe in Hhx.
        destruct (list_item_to_pe s t x) as [e|] eqn:Ee; [|discriminate]. clear Hhx.
        rewrite (item_paths_some s t d x e Ee) in Hin.
        destruct (pes_has e d) eqn:Ed; [contradiction|].
        apply in_map_iff in Hin. destruct Hin as (q1 & Hq & Hin). subst q.
        assert (He : wf_pe e = true) by (apply (Hiw x e Hx Ee)).
        rewrite (PathSetLaws.pes_has_spec e d Hsd Hwd He), (Hmem e He) in Ed. simpl in Ed.
        assert (Hxo : In x (occ s t e l)).
        { apply In_occ; [exact Hx|]. unfold pe_matches. rewrite Ee. apply peeqb_refl. exact He. }
        pose proof (length_lt2_in _ _ _ Hxo Ed) as Eocc.
        assert (Hkv : is_keyval e = true) by (apply (lipe_keyval _ _ _ _ Ee)).
        rewrite (Hocc e q1 Htr Hwf Ek He), Hhp, Hkv, Eocc. cbn [andb].
        apply in_app_or in Hin. destruct Hin as [Hin|[Hin|[]]].
        * destruct (IH x (list_elem t) q1) as (n & Hres & Hm); auto.
          -- pose proof (MergeBase.vdepth_list_in l x Hx). lia.
          -- eapply wf_value_list_in; eauto.
          -- rewrite forallb_forall in Hcs. apply Hcs. exact Hx.
          -- exists n. split; [exact Hres|].
             destruct q1 as [|e1 q1'].
             ++ simpl in Hres. inversion Hres; subst n. simpl.
                right. left. exists [], e. split; [reflexivity|exact Hkv].
             ++ apply (mclass_lift tr e (list_elem t)); auto; [|discriminate].
                destruct e as [k0|fl|ev|i]; try discriminate Hkv.
                ** left. unfold atom_at. rewrite Hr. reflexivity.
                ** right. intros pre k Eq. exfalso.
                   assert (Hs : is_scalar x = true).
                   { apply (pe_value_scalar s t x (PEValue ev) ev Ee). apply peeqb_refl. exact He. }
                   rewrite resolve_path_leaf in Hres; [discriminate|].
                   pose proof (scalar_leafy s (list_elem t) x Hs) as Hl. unfold leafy in Hl.
                   destruct (kind_of s (list_elem t) x); tauto.
        * subst q1. simpl. eexists. split; [reflexivity|]. simpl.
          right. left. exists [], e. split; [reflexivity|exact Hkv].
    - exfalso. apply (conforms_kind_not_bad s tr true v Hc Ek).
  Qed.

  (* conversely, every such node is a member *)
  Lemma mem_of_class : forall v tr q t x, R tr -> wf_value v = true ->
    conforms s tr true v = true -> wf_path q = true -> q <> [] ->
    resolve_path s tr v q = Some (RNode t x) -> mclass s tr q (RNode t x) -> x <> VList [] ->
    pmem q (fsp s tr v) = true.
  Proof.
    intros v tr q t x Htr Hwf Hc Hq Hne Hres Hm Hx. simpl in Hm.
    destruct Hm as [Hl|[(pre & e & -> & Hkv)|(pre & k & -> & Hnamed)]].
    - apply (fsp_leaf_mem s R Hok Hfam q v tr t x); auto.
    - apply (fsp_item_mem s R Hok Hfam pre v tr e (RNode t x)); auto. eauto.
    - apply (fsp_unnamed_mem s R Hok Hfam pre v tr k (RNode t x)); auto.
  Qed.
End Class.
