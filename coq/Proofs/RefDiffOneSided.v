(* A value present on one side only: the comparing walker accumulates, as removed
   (resp. added), exactly the path itself and every node beneath it. *)
From Coq Require Import List ZArith String Bool Arith Lia.
From SMD Require Import Model.Value Model.Order Model.PathElem Model.PathSet Model.Schema
  Model.Walk Model.Validate Model.Merge Model.Compare Spec.PathsAsSets Spec.RefValid
  Spec.Resolve Spec.RefDiff
  Proofs.OrderLaws Proofs.KeyLaws Proofs.PesLaws Proofs.PathSetLaws Proofs.ValidateLaws
  Proofs.SchemaOk Proofs.FieldSetBase Proofs.FieldSetPaths
  Proofs.CompareBase Proofs.CompareWf Proofs.CompareSwap Proofs.CompareTotal
  Proofs.RefDiffBase Proofs.RefDiffWalk.
Import ListNotations.
Open Scope bool_scope.

(* ------------------------------------------------------------------ *)
(* kinds of conforming values, and what the handlers do on leaves *)

Definition leaf_ov (s : schema) (tr : typeref) (o : option value) : Prop :=
  match o with Some x => kind_of s tr x = KLeaf | None => True end.

Section Conf.
  Variables (s : schema) (tr : typeref) (a : atom).
  Hypothesis Hres : resolve s tr = Some a.

  Lemma conf_not_bad : forall v, conforms s tr true v = true -> kind_of s tr v <> KBad.
  Proof.
    intros v H. rewrite conforms_eq in H. unfold kind_of. rewrite Hres in *.
    destruct a as [sc li ma].
    destruct v as [| | | | |l|m]; try (destruct sc; [discriminate|discriminate H]).
    - discriminate.
    - destruct li as [t|]; [|discriminate H]. destruct (rel_is_atomic (list_rel t)); [discriminate|].
      destruct l; discriminate.
    - destruct ma as [t|]; [|discriminate H]. destruct (rel_is_atomic (map_rel t)); [discriminate|].
      destruct m; discriminate.
  Qed.

  Lemma leaf_emp_map : forall o t, leaf_ov s tr o -> atom_map a = Some t ->
    rel_is_atomic (map_rel t) = false -> is_emp (deref_map o) = true.
  Proof.
    intros [v|] t Hl Ha Hna; [|reflexivity]. destruct v as [| | | | |l|m]; try reflexivity.
    simpl in Hl. unfold kind_of in Hl. rewrite Hres in Hl. destruct a as [sc li ma]. simpl in Ha. subst ma.
    rewrite Hna in Hl. destruct m; [reflexivity|discriminate].
  Qed.

  Lemma leaf_emp_list : forall o t, leaf_ov s tr o -> atom_list a = Some t ->
    rel_is_atomic (list_rel t) = false -> is_emp (deref_list o) = true.
  Proof.
    intros [v|] t Hl Ha Hna; [|reflexivity]. destruct v as [| | | | |l|m]; try reflexivity.
    simpl in Hl. unfold kind_of in Hl. rewrite Hres in Hl. destruct a as [sc li ma]. simpl in Ha. subst li.
    rewrite Hna in Hl. destruct l; [reflexivity|discriminate].
  Qed.

  (* on two leaves (or a leaf and nothing) every handler deduced from an operand is doLeaf *)
  Lemma cmp_handle_leaf : forall rec p lhs rhs o v,
    o = Some v -> o = lhs \/ o = rhs -> conforms s tr true v = true ->
    leaf_ov s tr lhs -> leaf_ov s tr rhs ->
    cmp_handle rec s p lhs rhs (handle_atom (deduce_atom a o)) = do_leaf p lhs rhs.
  Proof.
    intros rec p lhs rhs o v Ho Hside Cv Ll Lr.
    pose proof (handle_of_conf s tr a v Hres Cv) as Hh. rewrite <- Ho in Hh.
    destruct (handle_atom (deduce_atom a o)) as [t|t|t|]; cbn [cmp_handle].
    - apply handle_map_leaf. destruct (rel_is_atomic (map_rel t)) eqn:Ea; [reflexivity|].
      rewrite (leaf_emp_map lhs t Ll Hh Ea), (leaf_emp_map rhs t Lr Hh Ea). reflexivity.
    - assert (Hand : validate_scalar t lhs && validate_scalar t rhs = false).
      { destruct Hside; subst o; rewrite <- H, Hh; [reflexivity|apply andb_false_r]. }
      rewrite Hand. reflexivity.
    - apply handle_list_leaf. destruct (rel_is_atomic (list_rel t)) eqn:Ea; [reflexivity|].
      rewrite (leaf_emp_list lhs t Ll Hh Ea), (leaf_emp_list rhs t Lr Hh Ea). reflexivity.
    - destruct Hh.
  Qed.

  Lemma handle_of_vmap : forall t m, atom_map a = Some t ->
    handle_atom (deduce_atom a (Some (VMap m))) = HMap t.
  Proof. intros t m Ha. destruct a as [sc li ma]. simpl in Ha. subst ma. reflexivity. Qed.

  Lemma handle_of_vlist : forall t l, atom_list a = Some t ->
    handle_atom (deduce_atom a (Some (VList l))) = HList t.
  Proof. intros t l Ha. destruct a as [sc li ma]. simpl in Ha. subst li. reflexivity. Qed.
End Conf.

Lemma gather_nil : forall s t, gather_values s t [] [] [] false = ([], [], false).
Proof. reflexivity. Qed.

(* ------------------------------------------------------------------ *)
Section BodyOne.
  Variables (s : schema) (R : typeref -> Prop).
  Hypothesis Hok : schema_ok s R.
  Hypothesis Hfam : family_refs s R.
  Variable n : nat.
  Variable rec : typeref -> path -> option value -> option value -> bool * cmpacc.
  Hypothesis Hrec : forall te q q' x, R te -> wf_path q = true -> wf_path q' = true ->
    patheqb q q' = true -> wf_value x = true -> conforms s te true x = true -> vdepth x < n ->
    ceq (snd (rec te q (Some x) None)) (rd2c (one_sided false s te x q')).
  Variables p p' : path.
  Hypothesis Hp : wf_path p = true.
  Hypothesis Hp' : wf_path p' = true.
  Hypothesis Hpp : patheqb p p' = true.
  Variable tr : typeref.
  Variable a : atom.
  Variable v : value.
  Hypothesis HR : R tr.
  Hypothesis Hres : resolve s tr = Some a.
  Hypothesis Hv : wf_value v = true.
  Hypothesis Cv : conforms s tr true v = true.
  Hypothesis Hfuel : vdepth v < S n.

  Lemma body_one_sided :
    ceq (snd (compare_body rec s p (Some v) None tr)) (rd2c (one_sided false s tr v p')).
  Proof.
    unfold compare_body. rewrite Hres. unfold cmp_dispatch.
    rewrite rd2c_one_sided.
    destruct (kind_of s tr v) as [|t m|t l|] eqn:Ek.
    - (* leaf *)
      rewrite (cmp_handle_leaf s tr a Hres rec p (Some v) None (Some v) v eq_refl (or_introl eq_refl) Cv Ek I).
      unfold do_leaf. cbn [fst snd cmp_tail]. rewrite cmp_app_empty_r.
      rewrite (nodes_fuel_leaf _ _ _ _ _ Ek). simpl. apply (ceq_rem _ _ Hp Hp' Hpp).
    - (* granular map *)
      destruct (kind_map_inv _ _ _ _ _ Ek) as (a0 & Hr0 & Ham & Hvm & Hna & Hne).
      rewrite Hres in Hr0. inversion Hr0; subst a0. subst v.
      rewrite (handle_of_vmap s tr a Hres t m Ham). cbn [cmp_handle].
      assert (Hemp : is_emp (deref_map (Some (VMap m))) && is_emp (deref_map None) = false).
      { simpl. destruct m; [congruence|reflexivity]. }
      destruct (handle_map_walk rec p (Some (VMap m)) None t Hna Hemp) as [Hc Hlf].
      destruct (handle_map rec p (Some (VMap m)) None t) as [[e0 c0] lf0]. cbn [fst snd] in *. subst c0 lf0.
      cbn [cmp_tail]. simpl deref_map. cbn [ol].
      eapply ceq_trans; [|apply ceq_sym; apply osc_cons].
      apply ceq_app; [|apply (ceq_rem _ _ Hp Hp' Hpp)].
      rewrite <- rd2c_beneath.
      assert (Hsk : sorted_keys m = true) by (simpl in Hv; apply andb_true_iff in Hv; apply Hv).
      rewrite <- (rd_maps_nil_r (fun _ _ _ _ => rd_empty) s tr p' t m Ek Hsk).
      apply map_walk_eq.
      + intros k x y _ Hy. discriminate Hy.
      + intros k x Hx _.
        destruct (side_map s tr a Hres (Some (VMap m)) t k x Hv Cv Ham Hx) as (G1 & G2 & G3).
        unfold od in G3.
        assert (HRk : R (field_type t k)) by (eapply (so_map s R Hok); eauto).
        assert (W1 : wf_path (p ++ [PEField k]) = true) by (apply wf_path_snoc; auto).
        assert (W2 : wf_path (p' ++ [PEField k]) = true) by (apply wf_path_snoc; auto).
        assert (W3 : patheqb (p ++ [PEField k]) (p' ++ [PEField k]) = true).
        { apply patheqb_snoc; auto. simpl. apply String.eqb_refl. }
        apply Hrec; auto. lia.
      + intros k y _ Hy. discriminate Hy.
    - (* granular list *)
      destruct (kind_list_inv _ _ _ _ _ Ek) as (a0 & Hr0 & Hal & Hvl & Hna & Hne).
      rewrite Hres in Hr0. inversion Hr0; subst a0. subst v.
      rewrite (handle_of_vlist s tr a Hres t l Hal). cbn [cmp_handle].
      assert (Hemp : is_emp (deref_list (Some (VList l))) && is_emp (deref_list None) = false).
      { simpl. destruct l; [congruence|reflexivity]. }
      assert (Hrel : list_rel t = RAssociative).
      { destruct (Hfam tr a t HR Hres Hal) as [H|H]; auto. rewrite H in Hna. discriminate. }
      assert (HRe : R (list_elem t)) by (eapply (so_list s R Hok); eauto).
      destruct (side_list s tr a Hres (Some (VList l)) t Hv Cv Hal Hrel) as [SL1 SL2].
      simpl deref_list in SL1, SL2. cbn [ol] in SL1, SL2.
      destruct (gather_values s t l [] [] false) as [[lV o1] e1] eqn:El.
      destruct (handle_list_walk rec s p (Some (VList l)) None t lV o1 e1 [] [] false Hna Hemp El
                  (gather_nil s t)) as [Hc Hlf].
      destruct (handle_list rec s p (Some (VList l)) None t) as [[e0 c0] lf0]. cbn [fst snd] in *. subst c0 lf0.
      cbn [cmp_tail].
      eapply ceq_trans; [|apply ceq_sym; apply osc_cons].
      apply ceq_app; [|apply (ceq_rem _ _ Hp Hp' Hpp)].
      rewrite <- rd2c_beneath.
      assert (Hwl : forallb wf_value l = true) by exact Hv.
      assert (Hiw : items_wf s t l) by (eapply items_wf_R; eauto).
      rewrite <- (rd_lists_nil_r (fun _ _ _ _ => rd_empty) s tr p' t l Ek Hiw).
      apply (list_walk_eq s R Hok rec _ p p' Hp Hp' Hpp t l [] lV o1 e1 [] [] false); auto.
      + intros e e' x y _ _ [].
      + intros e e' x (Hwe & Hwe' & Hee) Hx.
        rewrite Forall_forall in SL2. destruct (SL2 x Hx) as (G1 & G2 & G3). unfold od in G3.
        assert (W1 : wf_path (p ++ [e]) = true) by (apply wf_path_snoc; auto).
        assert (W2 : wf_path (p' ++ [e']) = true) by (apply wf_path_snoc; auto).
        assert (W3 : patheqb (p ++ [e]) (p' ++ [e']) = true) by (apply patheqb_snoc; auto).
        apply Hrec; auto. lia.
      + intros e e' y _ [].
    - exfalso. exact (conf_not_bad s tr a Hres v Cv Ek).
  Qed.
End BodyOne.

Theorem compare_w_removed : forall s R, schema_ok s R -> family_refs s R ->
  forall f tr p p' v, R tr -> wf_path p = true -> wf_path p' = true -> patheqb p p' = true ->
  wf_value v = true -> conforms s tr true v = true -> vdepth v < f ->
  ceq (snd (compare_w f s tr p (Some v) None)) (rd2c (one_sided false s tr v p')).
Proof.
  intros s R Hok Hfam f. induction f as [|f IH]; intros tr p p' v HR Hp Hp' Hpp Hv Cv Hf; [lia|].
  rewrite compare_w_S. destruct (conf_resolve s tr true v Cv) as [a Hres].
  apply (body_one_sided s R Hok Hfam f (compare_w f s)) with (a := a); auto.
Qed.

(* the other side, by swapping the operands *)
Theorem compare_w_added : forall s R, schema_ok s R -> family_refs s R ->
  forall f tr p p' v, R tr -> wf_path p = true -> wf_path p' = true -> patheqb p p' = true ->
  wf_value v = true -> conforms s tr true v = true -> vdepth v < f ->
  ceq (snd (compare_w f s tr p None (Some v))) (rd2c (one_sided true s tr v p')).
Proof.
  intros s R Hok Hfam f tr p p' v HR Hp Hp' Hpp Hv Cv Hf.
  pose proof (compare_w_removed s R Hok Hfam f tr p p' v HR Hp Hp' Hpp Hv Cv Hf) as Hrem.
  pose proof (compare_w_swap s R Hok f tr p p (Some v) None HR Hp Hp (patheqb_refl p Hp) Hv eq_refl) as [_ Hsw].
  rewrite rd2c_one_sided in *.
  intros q Hq. destruct (Hsw q Hq) as (S1 & S2 & S3). destruct (Hrem q Hq) as (E1 & E2 & E3).
  simpl in *. rewrite S1, S2, S3. repeat split; congruence.
Qed.
