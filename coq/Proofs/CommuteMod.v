(* Completeness of the "modified" set of the reference diff (Spec/RefDiff.v) across a change
   of kind: a path that designates in both objects single nodes of different kinds (leaf
   against granular map or list, map against list) -- neither of them a null or an empty
   container, which the reference diff reads as "no content" -- is reported modified; as is a
   path that designates two leaves with different values (Proofs/CompareRestMod.v, of which
   this file is the extension: same structure, [chg_o] in place of [leafdiff_o]). *)
From Coq Require Import List ZArith String Bool Arith Lia.
From SMD Require Import Model.Value Model.Order Model.PathElem Model.PathSet Model.Schema Model.Walk
  Model.Validate Model.Merge Model.Compare Spec.PathsAsSets Spec.RefValid Spec.Resolve Spec.RefDiff
  Proofs.OrderLaws Proofs.KeyLaws Proofs.ValidateLaws Proofs.SchemaOk Proofs.FieldSetBase Proofs.FieldSetPaths
  Proofs.CompareBase Proofs.CompareTotal Proofs.RefDiffBase Proofs.RefDiffOneSided Proofs.RefDiffBoth
  Proofs.RefDiffPresent Proofs.RefDiffLaws Proofs.RefDiffChar.
From SMD Require Proofs.ResolveLaws Proofs.MergeRestBase Proofs.NodeSet.
Import ListNotations.
Open Scope bool_scope.
Open Scope list_scope.

Definition hollow (v : value) : bool :=
  match v with VNull | VList [] | VMap [] => true | _ => false end.

(* what two single values of one type say when they are not "the same node" *)
Definition chg_v (s : schema) (t1 : typeref) (x : value) (t2 : typeref) (y : value) : Prop :=
  match kind_of s t1 x, kind_of s t2 y with
  | KLeaf, KLeaf => veqb y x = false
  | KMap _ _, KMap _ _ => False
  | KList _ _, KList _ _ => False
  | KBad, _ => False
  | _, KBad => False
  | _, _ => hollow x = false /\ hollow y = false
  end.

(* the two resolutions are nodes of the same multiplicity that differ at the path itself *)
Definition chg_o (s : schema) (oa ob : option rnode) : Prop :=
  match oa, ob with
  | Some (RNode t1 x), Some (RNode t2 y) => chg_v s t1 x t2 y
  | Some (RDup _ xs), Some (RDup _ ys) => values_eqb_dup xs ys = false
  | _, _ => False
  end.

Section CDM.
  Variables (s : schema) (R : typeref -> Prop).
  Hypothesis Hok : schema_ok s R.
  Hypothesis Hfam : family_refs s R.
  Hypothesis Hpure : lists_pure s R.

  Notation rs := (resolve_path s).

  Definition mod_cov (q : path) (tr : typeref) (l r : value) (L : list path) : Prop :=
    forall p1, wf_path p1 = true -> chg_o s (rs tr l p1) (rs tr r p1) ->
      exists p2, patheqb p1 p2 = true /\ In (q ++ p2) L.

  (* beneath the root only *)
  Definition mod_cov1 (q : path) (tr : typeref) (l r : value) (L : list path) : Prop :=
    forall e rest, wf_path (e :: rest) = true -> chg_o s (rs tr l (e :: rest)) (rs tr r (e :: rest)) ->
      exists p2, patheqb (e :: rest) p2 = true /\ In (q ++ p2) L.

  Lemma mod_cov_of1 : forall q tr l r L,
    (chg_v s tr l tr r -> In q L) ->
    mod_cov1 q tr l r L -> mod_cov q tr l r L.
  Proof.
    intros q tr l r L Hroot H1 p1 Hw Hd. destruct p1 as [|e rest]; [|apply H1; assumption].
    cbn [resolve_path chg_o] in Hd. exists []. split; [reflexivity|]. rewrite app_nil_r. exact (Hroot Hd).
  Qed.

  (* a leaf against a container: nothing to cover *)
  Lemma leaf_modcov1 : forall q tr l r L, kind_of s tr l = KLeaf \/ kind_of s tr r = KLeaf ->
    mod_cov1 q tr l r L.
  Proof.
    intros q tr l r L [Ek|Ek] e rest _ Hd.
    - rewrite (leaf_none s tr l (e :: rest) Ek) in Hd by discriminate. destruct Hd.
    - rewrite (leaf_none s tr r (e :: rest) Ek) in Hd by discriminate.
      destruct (rs tr l (e :: rest)) as [[? ?|? ?]|]; destruct Hd.
  Qed.

  (* ---------- two maps ---------- *)
  Section Maps.
    Variable rrec : typeref -> path -> value -> value -> rdiff.
    Variables (q : path) (tr : typeref) (l r : value) (t : mapT) (lm rm : list (string * value)).
    Variables (nl nr : nat).
    Hypothesis Vl : map_viewR s tr l t lm.
    Hypothesis Vr : map_viewR s tr r t rm.
    Hypothesis Cl : forall k c, assoc_get k lm = Some c -> child_ok s R (field_type t k) c nl.
    Hypothesis Cr : forall k c, assoc_get k rm = Some c -> child_ok s R (field_type t k) c nr.
    Hypothesis IH : forall ct q' x y, child_ok s R ct x nl -> child_ok s R ct y nr ->
      mod_cov q' ct x y (rd_modified (rrec ct q' x y)).

    Lemma maps_modcov : mod_cov1 q tr l r (rd_modified (rd_maps rrec s q t lm rm)).
    Proof.
      intros e rest Hw Hd. apply wf_path_cons in Hw. destruct Hw as [He Hrest].
      rewrite Vl, Vr in Hd. destruct e as [k|k|k|k]; try (destruct Hd; fail).
      destruct (assoc_get k lm) as [c|] eqn:El; [|destruct Hd].
      destruct (assoc_get k rm) as [y|] eqn:Er;
        [|destruct (rs (field_type t k) c rest) as [[? ?|? ?]|]; destruct Hd].
      destruct (IH (field_type t k) (q ++ [PEField k]) c y (Cl k c El) (Cr k y Er) rest Hrest Hd)
        as (p2 & Hpp & Hin).
      exists (PEField k :: p2). split.
      - rewrite pq_cons. cbn [peeqb]. rewrite String.eqb_refl. exact Hpp.
      - unfold rd_maps. apply (rd_fold_in rd_modified (fun a b => eq_refl)). right. exists k. split.
        + apply keys_union_In. left. apply (assoc_get_some_key lm k c El).
        + unfold rd_map_G. rewrite El, Er. rewrite <- app_assoc in Hin. exact Hin.
    Qed.
  End Maps.

  (* ---------- two associative lists ---------- *)
  Section Lists.
    Variable rrec : typeref -> path -> value -> value -> rdiff.
    Variables (q : path) (tr : typeref) (l r : value) (t : listT) (ll rl : list value).
    Variables (gl gr : list (pe * list value)) (nl nr : nat).
    Hypothesis Vl : list_viewR s tr l t ll.
    Hypothesis Vr : list_viewR s tr r t rl.
    Hypothesis Il : items_wf s t ll.
    Hypothesis Ir : items_wf s t rl.
    Hypothesis Hgl : group_items s t ll [] = Some gl.
    Hypothesis Hgr : group_items s t rl [] = Some gr.
    Hypothesis Cl : forall x, In x ll -> child_ok s R (list_elem t) x nl.
    Hypothesis Cr : forall x, In x rl -> child_ok s R (list_elem t) x nr.
    Hypothesis IH : forall ct q' x y, child_ok s R ct x nl -> child_ok s R ct y nr ->
      mod_cov q' ct x y (rd_modified (rrec ct q' x y)).

    Let G := rd_list_G rrec s q t gl gr.

    Lemma listG_modcov : forall e rest, wf_pe e = true -> wf_path rest = true ->
      chg_o s (rs tr l (e :: rest)) (rs tr r (e :: rest)) ->
      exists p2, patheqb rest p2 = true /\ In ((q ++ [e]) ++ p2) (rd_modified (G e)).
    Proof.
      intros e rest He Hw Hd.
      pose proof (side_l s tr l t ll Vl e He) as Sl. pose proof (side_r s tr r t rl Vr e He) as Sr.
      unfold G, rd_list_G. rewrite (LklR s t ll gl Il Hgl e He), (LklR s t rl gr Ir Hgr e He).
      destruct (occ s t e ll) as [|x1 [|x2 xs]] eqn:El.
      { rewrite Sl in Hd. destruct Hd. }
      - destruct (occ s t e rl) as [|y1 [|y2 ys]] eqn:Er; cbv beta iota zeta.
        { rewrite Sr in Hd. destruct (rs tr l (e :: rest)) as [[? ?|? ?]|]; destruct Hd. }
        + rewrite Sl, Sr in Hd.
          apply (IH (list_elem t) (q ++ [e]) x1 y1).
          * apply (occ_child_lR s R t ll nl Cl e). rewrite El. left. reflexivity.
          * apply (occ_child_lR s R t rl nr Cr e). rewrite Er. left. reflexivity.
          * exact Hw.
          * exact Hd.
        + rewrite Sl, Sr in Hd. exfalso. destruct rest as [|e2 rest2].
          * cbn [resolve_path dupres chg_o] in Hd. exact Hd.
          * cbn [dupres] in Hd. destruct (rs (list_elem t) x1 (e2 :: rest2)) as [[? ?|? ?]|]; destruct Hd.
      - rewrite Sl in Hd. destruct rest as [|e2 rest2]; [|destruct Hd].
        cbn [dupres] in Hd.
        destruct (occ s t e rl) as [|y1 [|y2 ys]] eqn:Er; cbv beta iota zeta.
        { rewrite Sr in Hd. destruct Hd. }
        + rewrite Sr in Hd. cbn [resolve_path] in Hd. destruct Hd.
        + rewrite Sr in Hd. cbn [dupres chg_o] in Hd. rewrite Hd.
          exists []. split; [reflexivity|]. rewrite app_nil_r. left. reflexivity.
    Qed.

    Lemma lists_modcov : mod_cov1 q tr l r (rd_modified (rd_lists rrec s q t ll rl)).
    Proof.
      unfold rd_lists. rewrite Hgl, Hgr. fold G.
      intros e rest Hw Hd. apply wf_path_cons in Hw. destruct Hw as [He Hrest].
      assert (Hl : isso (rs tr l (e :: rest)) = true).
      { destruct (rs tr l (e :: rest)) as [[? ?|? ?]|]; [reflexivity|reflexivity|destruct Hd]. }
      assert (exists e', In e' (rd_all gl gr) /\ wf_pe e' = true /\ peeqb e e' = true) as (e' & Hin' & He' & Hee).
      { pose proof (LklR s t ll gl Il Hgl e He) as Hlk. rewrite (Vl e rest He) in Hl.
        destruct (occ s t e ll) as [|x1 xs] eqn:El; [discriminate|].
        apply lookup_group_In in Hlk. destruct Hlk as (ex & Hex & Hpe & _).
        assert (In (fst ex) (rd_all gl gr)) as Hall.
        { unfold rd_all. apply in_or_app. left. apply in_map. exact Hex. }
        exists (fst ex). split; [exact Hall|].
        pose proof (all_wfR s t ll rl gl gr Il Ir Hgl Hgr _ Hall) as W. split; [exact W|].
        rewrite (peeqb_sym e (fst ex) He W). exact Hpe. }
      assert (El' : rs tr l (e :: rest) = rs tr l (e' :: rest)).
      { rewrite (Vl e rest He), (Vl e' rest He'), (occ_cong s t ll e e' Il He He' Hee). reflexivity. }
      assert (Er' : rs tr r (e :: rest) = rs tr r (e' :: rest)).
      { rewrite (Vr e rest He), (Vr e' rest He'), (occ_cong s t rl e e' Ir He He' Hee). reflexivity. }
      rewrite El', Er' in Hd.
      destruct (listG_modcov e' rest He' Hrest Hd) as (p2 & Hpp & Hin).
      exists (e' :: p2). split; [rewrite pq_cons, Hee; exact Hpp|].
      apply (rd_fold_in rd_modified (fun a b => eq_refl)). right. exists e'. split; [exact Hin'|].
      rewrite <- app_assoc in Hin. exact Hin.
    Qed.
  End Lists.
  (* ---------- the reference diff, any sufficient fuel ---------- *)
  Theorem ref_diff_fuel_chgcov : forall f q tr l r, R tr ->
    wf_value l = true -> wf_value r = true ->
    conforms s tr true l = true -> conforms s tr true r = true ->
    vdepth l + vdepth r < f ->
    mod_cov q tr l r (rd_modified (ref_diff_fuel f s tr q l r)).
  Proof.
    induction f as [|f IHf]; intros q tr l r Htr Hl Hr Cl Cr Hf; [lia|].
    rewrite ref_diff_fuel_S. unfold ref_body.
    destruct (conf_resolve s tr true l Cl) as [a Hres].
    pose proof (conf_not_bad s tr a Hres l Cl) as Nl.
    pose proof (conf_not_bad s tr a Hres r Cr) as Nr.
    assert (IH' : forall ct q' x y, child_ok s R ct x (vdepth l) -> child_ok s R ct y (vdepth r) ->
              mod_cov q' ct x y (rd_modified (ref_diff_fuel f s ct q' x y))).
    { intros ct q' x y (A1 & A2 & A3 & A4) (B1 & B2 & B3 & B4). apply IHf; auto. lia. }
    destruct (kind_of s tr l) as [|t lm|t ll|] eqn:Kl; [| | |contradiction Nl; reflexivity];
      (destruct (kind_of s tr r) as [|t2 rm|t2 rl|] eqn:Kr; [| | |contradiction Nr; reflexivity]).
    - (* leaf, leaf *)
      apply mod_cov_of1; [|apply leaf_modcov1; left; exact Kl].
      unfold chg_v. rewrite Kl, Kr. intros Hv. rewrite Hv. left. reflexivity.
    - (* leaf, map *)
      apply mod_cov_of1; [|apply leaf_modcov1; left; exact Kl].
      unfold chg_v. rewrite Kl, Kr. intros [Hl0 _].
      destruct l as [| | | | |[|x0 l0]|[|kv0 m0]]; try discriminate Hl0; cbn [rd_app rd_modified app]; left; reflexivity.
    - (* leaf, list *)
      apply mod_cov_of1; [|apply leaf_modcov1; left; exact Kl].
      unfold chg_v. rewrite Kl, Kr. intros [Hl0 _].
      destruct l as [| | | | |[|x0 l0]|[|kv0 m0]]; try discriminate Hl0; cbn [rd_app rd_modified app]; left; reflexivity.
    - (* map, leaf *)
      apply mod_cov_of1; [|apply leaf_modcov1; right; exact Kr].
      unfold chg_v. rewrite Kl, Kr. intros [_ Hr0].
      destruct r as [| | | | |[|x0 l0]|[|kv0 m0]]; try discriminate Hr0; cbn [rd_app rd_modified app]; left; reflexivity.
    - (* map, map *)
      destruct (map_side s R Hok tr a l t lm Htr Hres Hl Cl Kl) as [Ht Hcl].
      destruct (map_side s R Hok tr a r t2 rm Htr Hres Hr Cr Kr) as [Ht2 Hcr].
      rewrite Ht in Ht2. inversion Ht2; subst t2.
      apply mod_cov_of1; [unfold chg_v; rewrite Kl, Kr; intros []|].
      apply (maps_modcov (ref_diff_fuel f s) q tr l r t lm rm (vdepth l) (vdepth r)
               (map_viewR_kind s tr l t lm Kl) (map_viewR_kind s tr r t rm Kr) Hcl Hcr IH').
    - (* map, list *)
      exfalso. apply (no_mixed s R Hpure tr l r t lm t2 rl Htr Kl Kr).
    - (* list, leaf *)
      apply mod_cov_of1; [|apply leaf_modcov1; right; exact Kr].
      unfold chg_v. rewrite Kl, Kr. intros [_ Hr0].
      destruct r as [| | | | |[|x0 l0]|[|kv0 m0]]; try discriminate Hr0; cbn [rd_app rd_modified app]; left; reflexivity.
    - (* list, map *)
      exfalso. apply (no_mixed s R Hpure tr r l t2 rm t ll Htr Kr Kl).
    - (* list, list *)
      destruct (list_side s R Hok Hfam tr a l t ll Htr Hres Hl Cl Kl) as (Ht & Hiwl & Hhl & (gl & Hgl) & Hcl).
      destruct (list_side s R Hok Hfam tr a r t2 rl Htr Hres Hr Cr Kr) as (Ht2 & Hiwr & Hhr & (gr & Hgr) & Hcr).
      rewrite Ht in Ht2. inversion Ht2; subst t2.
      apply mod_cov_of1; [unfold chg_v; rewrite Kl, Kr; intros []|].
      apply (lists_modcov (ref_diff_fuel f s) q tr l r t ll rl gl gr (vdepth l) (vdepth r)
               (list_viewR_kind s R Hok tr l t ll Htr Hl Kl Hhl) (list_viewR_kind s R Hok tr r t rl Htr Hr Kr Hhr)
               Hiwl Hiwr Hgl Hgr Hcl Hcr IH').
  Qed.

  (* ---------- the comparison ---------- *)
  Theorem compare_chg_complete : forall tr l r c, R tr ->
    wf_value l = true -> wf_value r = true ->
    conforms s tr true l = true -> conforms s tr true r = true ->
    compare s tr l r = Some c ->
    forall p, wf_path p = true -> p <> [] ->
      chg_o s (rs tr l p) (rs tr r p) -> ps_has p (modified c) = true.
  Proof.
    intros tr l r c Htr Hl Hr Cl Cr Hc p Hp Hne Hd.
    destruct (compare_refines_ref_diff_restricted s R tr l r c Hok Hfam Hpure Htr Hl Hr Cl Cr Hc p Hp Hne)
      as (_ & E2 & _).
    rewrite E2.
    destruct (ref_diff_fuel_chgcov (merge_fuel l r) [] tr l r Htr Hl Hr Cl Cr) with (p1 := p)
      as (p2 & Hpp & Hin); [unfold merge_fuel; lia|exact Hp|exact Hd|].
    unfold pmem. apply existsb_exists. exists p2. split; [exact Hin|exact Hpp].
  Qed.
End CDM.

(* ================= what the reference diff reports at a node of the left object ================= *)

(* the two values are "the same node": two leaves with equal values, two maps, two lists *)
Definition same_v (s : schema) (t : typeref) (x y : value) : Prop :=
  match kind_of s t x, kind_of s t y with
  | KLeaf, KLeaf => veqb y x = true
  | KMap _ _, KMap _ _ => True
  | KList _ _, KList _ _ => True
  | _, _ => False
  end.

Definition same_at (s : schema) (tr : typeref) (l r : value) (p : path) : Prop :=
  match resolve_path s tr l p, resolve_path s tr r p with
  | Some (RNode t x), Some (RNode _ y) => same_v s t x y
  | _, _ => False
  end.

Definition touched (d : rdiff) (p : path) : bool :=
  pmem p (rd_removed d) || pmem p (rd_modified d) || pmem p (rd_added d).

Section Touched.
  Variables (s : schema) (R : typeref -> Prop).
  Hypothesis Hok : schema_ok s R.
  Hypothesis Hfam : family_refs s R.
  Hypothesis Hpure : lists_pure s R.

  Notation rs := (resolve_path s).

  Definition nodup' (tr : typeref) (v : value) : Prop :=
    forall p t xs, wf_path p = true -> rs tr v p <> Some (RDup t xs).

  (* at a single node of the left object whose values on both sides are not null / empty:
     nothing is reported exactly when the right object has the same node there *)
  Theorem touched_exact : forall tr l r p t x, R tr ->
    wf_value l = true -> wf_value r = true ->
    conforms s tr true l = true -> conforms s tr true r = true ->
    nodup' tr r ->
    wf_path p = true -> p <> [] ->
    rs tr l p = Some (RNode t x) -> hollow x = false ->
    (forall t' y, rs tr r p = Some (RNode t' y) -> hollow y = false) ->
    (touched (ref_diff s tr l r) p = false <-> same_at s tr l r p).
  Proof.
    intros tr l r p t x Htr Wl Wr Cl Cr Nr Hp Hne Hl Hx Hy.
    assert (Hf : vdepth l + vdepth r < merge_fuel l r) by (unfold merge_fuel; lia).
    pose proof (ref_diff_fuel_char s R Hok Hfam Hpure (merge_fuel l r) [] tr l r Htr Wl Wr Cl Cr Hf)
      as (Hadd & Hrem & Hmod & _).
    pose proof (ref_diff_fuel_chgcov s R Hok Hfam Hpure (merge_fuel l r) [] tr l r Htr Wl Wr Cl Cr Hf) as Hcov.
    fold (ref_diff s tr l r) in Hadd, Hrem, Hmod, Hcov.
    destruct (MergeRestBase.node_sub s R Hok Hfam p true tr l t x Htr Wl Cl Hp Hl) as (_ & Rt & Wx & Cx & _).
    unfold touched, same_at. rewrite Hl. split.
    - intros H. apply orb_false_iff in H. destruct H as [H Ha]. apply orb_false_iff in H. destruct H as [Hr Hm].
      destruct (ref_diff_present s R Hok Hfam tr l r Htr Wl Wr Cl Cr p Hp Hne) as (Hpres & _ & _).
      assert (Hpl : present s tr l p = true) by (unfold present; rewrite Hl; reflexivity).
      specialize (Hpres Hpl Hr). unfold present in Hpres.
      destruct (rs tr r p) as [[t' y|t' ys]|] eqn:Er; [| |discriminate].
      2:{ exfalso. exact (Nr p t' ys Hp Er). }
      pose proof (MergeRestBase.node_type_det s R Hok Hfam p true true tr l r t x t' y Htr Wl Wr Cl Cr Hp Hl Er) as Et.
      subst t'.
      destruct (MergeRestBase.node_sub s R Hok Hfam p true tr r t y Htr Wr Cr Hp Er) as (_ & _ & Wy & Cy & _).
      pose proof (Hy t y eq_refl) as Hy0.
      pose proof (NodeSet.conforms_kind_not_bad s t true x Cx) as Nx.
      pose proof (NodeSet.conforms_kind_not_bad s t true y Cy) as Ny.
      (* if the two differed, the path would be reported modified *)
      assert (Hn : ~ chg_v s t x t y).
      { intros Hc.
        destruct (Hcov p Hp) as (p2 & Hpp & Hin).
        { rewrite Hl, Er. exact Hc. }
        cbn [app] in Hin.
        assert (pmem p (rd_modified (ref_diff s tr l r)) = true).
        { unfold pmem. apply existsb_exists. exists p2. split; assumption. }
        congruence. }
      unfold chg_v in Hn. unfold same_v.
      destruct (kind_of s t x) as [|? ?|? ?|]; destruct (kind_of s t y) as [|? ?|? ?|];
        try exact I; try (contradiction Nx; reflexivity); try (contradiction Ny; reflexivity);
        try (exfalso; apply Hn; split; assumption).
      destruct (veqb y x); [reflexivity|]. exfalso. apply Hn. reflexivity.
    - intros Hs.
      destruct (rs tr r p) as [[t' y|t' ys]|] eqn:Er; try contradiction.
      assert (Hback : forall x0, wf_path x0 = true -> patheqb p x0 = true ->
                rs tr l x0 = Some (RNode t x) /\ rs tr r x0 = Some (RNode t' y)).
      { intros x0 Hx0 Hpx.
        rewrite <- (resolve_patheqb s R Hok p x0 Hpx Hp Hx0 l tr Htr Wl).
        rewrite <- (resolve_patheqb s R Hok p x0 Hpx Hp Hx0 r tr Htr Wr). auto. }
      apply orb_false_iff. split; [apply orb_false_iff; split|].
      + (* removed *)
        destruct (pmem p (rd_removed (ref_diff s tr l r))) eqn:E; [exfalso|reflexivity].
        unfold pmem in E. apply existsb_exists in E. destruct E as (x0 & Hin & Hpx).
        destruct (Hrem x0 Hin) as (p2 & E2 & W2 & Hos). cbn [app] in E2. subst p2.
        destruct (Hback x0 W2 Hpx) as [E1 E3]. rewrite E1, E3 in Hos.
        destruct Hos as [_ [H|H]]; [discriminate H|apply H; reflexivity].
      + (* modified *)
        destruct (pmem p (rd_modified (ref_diff s tr l r))) eqn:E; [exfalso|reflexivity].
        unfold pmem in E. apply existsb_exists in E. destruct E as (x0 & Hin & Hpx).
        destruct (Hmod x0 Hin) as (p2 & E2 & W2 & Hmo). cbn [app] in E2. subst p2.
        destruct (Hback x0 W2 Hpx) as [E1 E3]. rewrite E1, E3 in Hmo.
        pose proof (MergeRestBase.node_type_det s R Hok Hfam p true true tr l r t x t' y Htr Wl Wr Cl Cr Hp Hl Er) as Et.
        subst t'. cbn [mod_o] in Hmo. unfold same_v in Hs. unfold mod_kinds in Hmo.
        destruct (kind_of s t x); destruct (kind_of s t y); try contradiction. congruence.
      + (* added *)
        destruct (pmem p (rd_added (ref_diff s tr l r))) eqn:E; [exfalso|reflexivity].
        unfold pmem in E. apply existsb_exists in E. destruct E as (x0 & Hin & Hpx).
        destruct (Hadd x0 Hin) as (p2 & E2 & W2 & Hos). cbn [app] in E2. subst p2.
        destruct (Hback x0 W2 Hpx) as [E1 E3]. rewrite E1, E3 in Hos.
        destruct Hos as [_ [H|H]]; [discriminate H|apply H; reflexivity].
  Qed.
End Touched.
