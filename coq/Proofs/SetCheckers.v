(* Executable checks of the conditions on recorded sets used by the theorems about Apply
   (Proofs/ApplyEffect.v), with their soundness:
     [keys_closed_b]     decides (soundly) [keys_closed]
     [owns_live_keys_b]  decides (soundly) [owns_live_keys]
     [no_atomic_free]    [atomic_items_free] holds of every set when no type reached from
                         the root is an atomic map. *)
From Coq Require Import List ZArith String Bool Arith Lia.
From SMD Require Import Model.Value Model.Order Model.PathElem Model.PathSet Model.Schema
  Model.Walk Model.FieldSet Spec.PathsAsSets Spec.RefValid Spec.Resolve
  Proofs.OrderLaws Proofs.PathSetLaws Proofs.SchemaOk Proofs.FieldSetBase Proofs.FieldSetPaths
  Proofs.RemoveAbsent Proofs.ReconcileBase Proofs.ReconcileLaws
  Proofs.RemoveFrame Proofs.EnLaws Proofs.KeyFields.
From SMD Require Proofs.MergeVeqbAux.
Import ListNotations.
Open Scope bool_scope.
Open Scope list_scope.

Local Arguments ps_has : simpl never.

(* ---------- positions of equal paths ---------- *)

Lemma patheqb_nth : forall p q i a, patheqb p q = true -> nth_error p i = Some a ->
  exists b, nth_error q i = Some b /\ peeqb a b = true.
Proof.
  induction p as [|x p IH]; intros [|y q] i a H Hn; simpl in H; try discriminate.
  - destruct i; discriminate.
  - apply andb_true_iff in H. destruct H as [Hxy Hpq]. destruct i as [|i]; simpl in *.
    + inversion Hn; subst. exists y. auto.
    + apply (IH q i a Hpq Hn).
Qed.

Lemma patheqb_app2 : forall a b c d, patheqb a b = true -> patheqb c d = true ->
  patheqb (a ++ c) (b ++ d) = true.
Proof.
  induction a as [|x a IH]; intros [|y b] c d Hab Hcd; simpl in Hab; try discriminate.
  - exact Hcd.
  - apply andb_true_iff in Hab. destruct Hab as [Hxy Hab]. simpl. rewrite Hxy. apply IH; assumption.
Qed.

Lemma peeqb_key_inv : forall fl e, peeqb (PEKey fl) e = true ->
  exists fl1, e = PEKey fl1 /\ map fst fl = map fst fl1.
Proof.
  intros fl e H. destruct e as [k|fl1|v|i]; simpl in H; try discriminate.
  exists fl1. split; [reflexivity|].
  apply MergeVeqbAux.fl_eqb_F2 in H. apply F2_flr_names. exact H.
Qed.

Lemma peeqb_field_inv : forall k e, peeqb (PEField k) e = true -> e = PEField k.
Proof.
  intros k e H. destruct e as [k1|fl1|v|i]; simpl in H; try discriminate.
  apply String.eqb_eq in H. subst. reflexivity.
Qed.

Lemma in_names_b : forall k (l : list string), In k l -> existsb (String.eqb k) l = true.
Proof. intros k l H. apply existsb_exists. exists k. split; [exact H|apply String.eqb_refl]. Qed.

(* ---------- keys_closed ---------- *)

Definition keys_closed_b (S : pset) : bool :=
  forallb (fun q : path =>
    forallb (fun i =>
      match nth_error q i, nth_error q (Datatypes.S i) with
      | Some (PEKey fl), Some (PEField k) =>
          if existsb (String.eqb k) (map fst fl) then ps_has (firstn (Datatypes.S i) q) S else true
      | _, _ => true
      end) (seq 0 (List.length q))) (ps_elems S).

Theorem keys_closed_b_sound : forall S, ps_ok S = true -> keys_closed_b S = true -> keys_closed S.
Proof.
  intros S Hok Hb pre fl k rest Hwf Hin Hhas.
  destruct (has_in_elems S _ Hok Hwf Hhas) as (m0 & Hm0 & Hwm0 & Heq).
  unfold keys_closed_b in Hb. rewrite forallb_forall in Hb. specialize (Hb m0 Hm0).
  rewrite forallb_forall in Hb.
  set (i := List.length pre).
  assert (Hn1 : nth_error (pre ++ PEKey fl :: PEField k :: rest) i = Some (PEKey fl)).
  { unfold i. rewrite nth_error_app2 by lia. rewrite Nat.sub_diag. reflexivity. }
  assert (Hn2 : nth_error (pre ++ PEKey fl :: PEField k :: rest) (Datatypes.S i) = Some (PEField k)).
  { unfold i. rewrite nth_error_app2 by lia.
    replace (Datatypes.S (List.length pre) - List.length pre) with 1 by lia. reflexivity. }
  destruct (patheqb_nth _ _ _ _ Heq Hn1) as (e1 & He1 & Hp1).
  destruct (patheqb_nth _ _ _ _ Heq Hn2) as (e2 & He2 & Hp2).
  destruct (peeqb_key_inv fl e1 Hp1) as (fl1 & -> & Hnames).
  apply peeqb_field_inv in Hp2. subst e2.
  assert (Hi : In i (seq 0 (List.length m0))).
  { apply in_seq. split; [lia|]. simpl. apply nth_error_Some. rewrite He1. discriminate. }
  specialize (Hb i Hi). rewrite He1, He2 in Hb.
  rewrite (in_names_b k (map fst fl1)) in Hb by (rewrite <- Hnames; exact Hin).
  assert (Hfirst : firstn (Datatypes.S i) (pre ++ PEKey fl :: PEField k :: rest) = pre ++ [PEKey fl]).
  { unfold i. rewrite firstn_app. rewrite firstn_all2 by lia.
    replace (Datatypes.S (List.length pre) - List.length pre) with 1 by lia. reflexivity. }
  rewrite <- Hb. rewrite <- Hfirst.
  apply ps_has_patheqb; auto.
  - apply wf_path_firstn. exact Hwf.
  - apply wf_path_firstn. exact Hwm0.
  - apply patheqb_firstn. exact Heq.
Qed.

(* ---------- owns_live_keys ---------- *)

Definition owns_live_keys_b (s : schema) (tr : typeref) (live : value) (S : pset) : bool :=
  forallb (fun q : path =>
    match rev q with
    | PEKey fl :: _ =>
        forallb (fun k => negb (present s tr live (q ++ [PEField k])) || ps_has (q ++ [PEField k]) S)
                (map fst fl)
    | _ => true
    end) (ps_elems S).

Section OwnsLive.
  Variables (s : schema) (R : typeref -> Prop).
  Hypothesis Hok : schema_ok s R.

  Theorem owns_live_keys_b_sound : forall tr live S, R tr -> wf_value live = true ->
    ps_ok S = true -> owns_live_keys_b s tr live S = true ->
    forall (pre : path) fl k,
      wf_path (pre ++ [PEKey fl; PEField k]) = true -> In k (map fst fl) ->
      ps_has (pre ++ [PEKey fl]) S = true ->
      present s tr live (pre ++ [PEKey fl; PEField k]) = true ->
      ps_has (pre ++ [PEKey fl; PEField k]) S = true.
  Proof.
    intros tr live S Htr Hwl HS Hb pre fl k Hwf Hin Hhas Hpr.
    assert (HwI : wf_path (pre ++ [PEKey fl]) = true) by (apply (wf_path_key_prefix pre fl k []); exact Hwf).
    destruct (has_in_elems S _ HS HwI Hhas) as (m0 & Hm0 & Hwm0 & Heq).
    unfold owns_live_keys_b in Hb. rewrite forallb_forall in Hb. specialize (Hb m0 Hm0).
    assert (Hn : nth_error (pre ++ [PEKey fl]) (List.length pre) = Some (PEKey fl)).
    { rewrite nth_error_app2 by lia. rewrite Nat.sub_diag. reflexivity. }
    destruct (patheqb_nth _ _ _ _ Heq Hn) as (e1 & He1 & Hp1).
    destruct (peeqb_key_inv fl e1 Hp1) as (fl1 & -> & Hnames).
    pose proof (patheqb_length _ _ Heq) as Hlen. rewrite app_length in Hlen. simpl in Hlen.
    assert (Hrev : exists pre0, m0 = pre0 ++ [PEKey fl1]).
    { destruct (exists_last (l := m0)) as (pre0 & e & E).
      - intros ->. simpl in Hlen. lia.
      - subst m0. rewrite app_length in Hlen. simpl in Hlen.
        rewrite nth_error_app2 in He1 by lia.
        replace (List.length pre - List.length pre0) with 0 in He1 by lia.
        simpl in He1. inversion He1; subst e. exists pre0. reflexivity. }
    destruct Hrev as (pre0 & ->). rewrite rev_unit in Hb.
    rewrite forallb_forall in Hb. specialize (Hb k). rewrite <- Hnames in Hb. specialize (Hb Hin).
    assert (Happ : pre ++ [PEKey fl; PEField k] = (pre ++ [PEKey fl]) ++ [PEField k])
      by (rewrite <- app_assoc; reflexivity).
    assert (Heq2 : patheqb (pre ++ [PEKey fl; PEField k]) ((pre0 ++ [PEKey fl1]) ++ [PEField k]) = true).
    { rewrite Happ. apply patheqb_app2; [exact Heq|]. simpl. rewrite String.eqb_refl. reflexivity. }
    assert (Hw2 : wf_path ((pre0 ++ [PEKey fl1]) ++ [PEField k]) = true).
    { apply wf_path_app. split; [exact Hwm0|reflexivity]. }
    rewrite (present_patheqb s R Hok _ _ Heq2 Hwf Hw2 live tr Htr Hwl) in Hpr.
    rewrite Hpr in Hb. cbn [negb orb] in Hb.
    rewrite (ps_has_patheqb S _ _ HS Hwf Hw2 Heq2). exact Hb.
  Qed.

  (* ---------- schemas without atomic maps ---------- *)

  Lemma en_type_R : R empty_tr -> forall p tr, R tr -> R (en_type s tr p).
  Proof.
    intros Hemp p. induction p as [|e p IH]; intros tr Htr; [exact Htr|].
    simpl. apply IH. unfold atom_at.
    destruct (resolve s tr) as [a|] eqn:Er; [|destruct e; exact Hemp].
    destruct e as [k|fl|v|i]; simpl; try exact Hemp.
    - destruct a as [sc li [mt|]]; [|exact Hemp]. apply (so_map s R Hok tr _ mt k Htr Er eq_refl).
    - destruct a as [sc [lt|] ma]; [|exact Hemp]. apply (so_list s R Hok tr _ lt Htr Er eq_refl).
  Qed.

  Theorem no_atomic_free : R empty_tr -> (forall t, R t -> atomic_map_type s t = false) ->
    forall tr T, R tr -> atomic_items_free s tr T.
  Proof.
    intros Hemp Hna tr T Htr pre e q _ _ _ _. apply Hna. apply en_type_R; assumption.
  Qed.
End OwnsLive.
