(* C16: laws of the field-set serialisation of Model/Serialize.v (tree level).
   The proofs live in Proofs/SerializeBase.v (mirrors of the nested loops, one parsing step),
   Proofs/SerializeRun.v (the parsing loop over abstract actions) and Proofs/SerializeEmit.v
   (the emitted list as actions, permuted emissions, canonical emission). *)
From Coq Require Import List ZArith String Bool Arith Lia Permutation.
From SMD Require Import Base.Search Model.Value Model.Order Model.PathElem Model.PathSet Model.Serialize
  Spec.PathsAsSets Proofs.OrderLaws Proofs.PathSetLaws.
From SMD Require Proofs.TrieBase Proofs.SerializeBase Proofs.SerializeRun Proofs.SerializeEmit.
Import ListNotations.
Open Scope bool_scope.

(* keys of a tree are well formed; a clean tree has only path-element keys and markers *)
Fixpoint jtree_wf (t : jtree) : bool :=
  match t with
  | JObj ms => forallb (fun km : jkey * jtree =>
                          match fst km with JPe e => wf_pe e | _ => true end && jtree_wf (snd km)) ms
  end.

(* the round trip is the identity case of the permutation theorem *)
Lemma eq_inv : forall ms t, JObj ms = t ->
  exists ms' ms'', t = JObj ms'' /\
    Forall2 (fun a b : jkey * jtree => fst a = fst b /\ snd a = snd b) ms ms' /\ Permutation ms' ms''.
Proof.
  intros ms t <-. exists ms, ms. split; [reflexivity|]. split; [|apply Permutation_refl].
  induction ms as [|x l IH]; constructor; auto.
Qed.

(* lossless: serialising and parsing back yields an equal set, without error *)
Theorem serialize_roundtrip : forall s, ps_ok s = true ->
  exists s', from_json (to_json s) = (s', false) /\ ps_ok s' = true /\ ps_equals s s' = true.
Proof. intros s H. exact (SerializeEmit.order_from_json eq eq_inv s (to_json s) H eq_refl). Qed.

(* canonical: equal sets serialise to equal trees (up to Path.Equals on keys) *)
Theorem serialize_canonical : forall a b, ps_ok a = true -> ps_ok b = true -> ps_equals a b = true ->
  jtree_eqb (to_json a) (to_json b) = true.
Proof. intros a b Ha Hb He. exact (SerializeEmit.canon_main a b false Ha Hb He). Qed.

(* robust: parsing ANY tree returns a well-formed set *)
Theorem parse_any_tree_ok : forall t, jtree_wf t = true -> ps_ok (fst (from_json t)) = true.
Proof. exact SerializeRun.parse_any_ok0. Qed.

(* members may come in any order, at every level: permuting the members of the
   serialisation of a set still parses to an equal set without error.  [jperm] is the
   permutation relation on trees. *)
Inductive jperm : jtree -> jtree -> Prop :=
| jperm_obj : forall ms ms' ms'',
    Forall2 (fun a b => fst a = fst b /\ jperm (snd a) (snd b)) ms ms' ->
    Permutation ms' ms'' -> jperm (JObj ms) (JObj ms'').

Lemma jperm_inv : forall ms t, jperm (JObj ms) t ->
  exists ms' ms'', t = JObj ms'' /\
    Forall2 (fun a b => fst a = fst b /\ jperm (snd a) (snd b)) ms ms' /\ Permutation ms' ms''.
Proof. intros ms t H. inversion H; subst. eauto. Qed.

Theorem parse_order_irrelevant : forall s t, ps_ok s = true -> jperm (to_json s) t ->
  exists s', from_json t = (s', false) /\ ps_ok s' = true /\ ps_equals s s' = true.
Proof. exact (SerializeEmit.order_from_json jperm jperm_inv). Qed.

