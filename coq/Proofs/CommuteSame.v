(* "The same node" across merging steps (for Proofs/Commute.v): when a path that designates a
   node of the object before a step designates the same node after it (two leaves with equal
   values, two maps, two lists), in terms of what the configuration says at that path. *)
From Coq Require Import List ZArith String Bool Arith Lia.
From SMD Require Import Model.Value Model.Order Model.PathElem Model.PathSet Model.Schema Model.Walk
  Model.Validate Model.FieldSet Model.Remove Model.Merge
  Spec.PathsAsSets Spec.RefValid Spec.Resolve Spec.Agree Spec.RefDiff
  Proofs.OrderLaws Proofs.SchemaOk Proofs.FieldSetBase Proofs.FieldSetPaths Proofs.ResolveLaws
  Proofs.RemoveFrame Proofs.TreeFacts Proofs.NodeSet Proofs.KeyFields Proofs.VeqbResolve Proofs.MergeRestBase
  Proofs.RefDiffBoth Proofs.MergeThru Proofs.SameLeaves Proofs.CommuteLeaves Proofs.CommuteMod.
From SMD Require Proofs.Partition Proofs.ReconcileBase Proofs.ApplyEffect.
Import ListNotations.
Open Scope bool_scope.
Open Scope list_scope.

Lemma hollow_veqb : forall y x, veqb y x = true -> hollow y = hollow x.
Proof.
  intros y x H.
  destruct y as [| | | | |[|y0 ly]|[|ky my]]; destruct x as [| | | | |[|x0 lx]|[|kx mx]];
    try reflexivity; simpl in H; try discriminate H.
Qed.

Lemma plain_not_hollow : forall x, plain x = true -> hollow x = false.
Proof. intros x H. destruct x as [| | | | |[|x0 lx]|[|kx mx]]; try reflexivity; discriminate H. Qed.

Section Same.
  Variables (s : schema) (R : typeref -> Prop).
  Hypothesis Hok : schema_ok s R.
  Hypothesis Hfam : family_refs s R.
  Hypothesis Hpure : lists_pure s R.

  Notation rs := (resolve_path s).

  (* ---------- the kind of a value that can be entered ---------- *)
  Lemma step_kind : forall t x e r n, rs t x (e :: r) = Some n ->
    match e with
    | PEField _ => exists t0 m, kind_of s t x = KMap t0 m
    | _ => exists t0 l, kind_of s t x = KList t0 l
    end.
  Proof.
    intros t x e r n H. cbn [resolve_path] in H.
    destruct (kind_of s t x) as [|t0 m|t0 l|]; destruct e; try discriminate H; eexists; eexists; reflexivity.
  Qed.

  Lemma same_v_cont : forall t x z y e r r' n n', same_v s t x z ->
    rs t z (e :: r) = Some n -> rs t y (e :: r') = Some n' -> same_v s t x y.
  Proof.
    intros t x z y e r r' n n' Hs Hz Hy.
    pose proof (step_kind t z e r n Hz) as Kz. pose proof (step_kind t y e r' n' Hy) as Ky.
    unfold same_v in *.
    destruct e; destruct Kz as (? & ? & Kz); destruct Ky as (? & ? & Ky); rewrite Kz in Hs; rewrite Ky;
      destruct (kind_of s t x); try contradiction; exact I.
  Qed.

  Lemma same_v_enter : forall t x y e r r' n n',
    rs t x (e :: r) = Some n -> rs t y (e :: r') = Some n' -> same_v s t x y.
  Proof.
    intros t x y e r r' n n' Hx Hy.
    pose proof (step_kind t x e r n Hx) as Kx. pose proof (step_kind t y e r' n' Hy) as Ky.
    unfold same_v.
    destruct e; destruct Kx as (? & ? & Kx); destruct Ky as (? & ? & Ky); rewrite Kx, Ky; exact I.
  Qed.

  Lemma leaf_kind : forall t x, conforms s t true x = true -> rnode_is_leaf s (RNode t x) = true ->
    kind_of s t x = KLeaf.
  Proof.
    intros t x C L. cbn [rnode_is_leaf] in L. pose proof (conforms_kind_not_bad s t true x C) as N.
    destruct (kind_of s t x); try discriminate; [reflexivity|contradiction N; reflexivity].
  Qed.

  (* ---------- same_at: an equivalence on the nodes at a path ---------- *)
  Lemma same_at_inv : forall tr a b p, R tr -> good s tr a -> good s tr b -> wf_path p = true ->
    same_at s tr a b p ->
    exists t x y, rs tr a p = Some (RNode t x) /\ rs tr b p = Some (RNode t y) /\ same_v s t x y /\
                  wf_value x = true /\ wf_value y = true /\
                  conforms s t true x = true /\ conforms s t true y = true.
  Proof.
    intros tr a b p Htr [Wa Ca] [Wb Cb] Hp H. unfold same_at in H.
    destruct (rs tr a p) as [[t x|? ?]|] eqn:Ea; try contradiction.
    destruct (rs tr b p) as [[t' y|? ?]|] eqn:Eb; try contradiction.
    pose proof (node_type_det s R Hok Hfam p true true tr a b t x t' y Htr Wa Wb Ca Cb Hp Ea Eb) as Et. subst t'.
    destruct (node_sub s R Hok Hfam p true tr a t x Htr Wa Ca Hp Ea) as (_ & _ & Wx & Cx & _).
    destruct (node_sub s R Hok Hfam p true tr b t y Htr Wb Cb Hp Eb) as (_ & _ & Wy & Cy & _).
    exists t, x, y. repeat split; assumption.
  Qed.

  Lemma same_at_intro : forall tr a b p t x y,
    rs tr a p = Some (RNode t x) -> rs tr b p = Some (RNode t y) -> same_v s t x y -> same_at s tr a b p.
  Proof. intros tr a b p t x y Ea Eb H. unfold same_at. rewrite Ea, Eb. exact H. Qed.

  Lemma same_v_sym : forall t x y, wf_value x = true -> wf_value y = true -> same_v s t x y -> same_v s t y x.
  Proof.
    intros t x y Wx Wy H. unfold same_v in *.
    destruct (kind_of s t x); destruct (kind_of s t y); try contradiction; try exact I.
    rewrite (veqb_sym x y Wx Wy). exact H.
  Qed.

  Lemma same_v_trans : forall t x y z, wf_value x = true -> wf_value y = true -> wf_value z = true ->
    same_v s t x y -> same_v s t y z -> same_v s t x z.
  Proof.
    intros t x y z Wx Wy Wz H1 H2. unfold same_v in *.
    destruct (kind_of s t x); destruct (kind_of s t y); try contradiction;
      destruct (kind_of s t z); try contradiction; try exact I.
    apply (veqb_trans z y x Wz Wy Wx H2 H1).
  Qed.

  Lemma same_at_sym : forall tr a b p, R tr -> good s tr a -> good s tr b -> wf_path p = true ->
    same_at s tr a b p -> same_at s tr b a p.
  Proof.
    intros tr a b p Htr Ga Gb Hp H.
    destruct (same_at_inv tr a b p Htr Ga Gb Hp H) as (t & x & y & Ea & Eb & Hs & Wx & Wy & _).
    apply (same_at_intro tr b a p t y x Eb Ea). apply same_v_sym; assumption.
  Qed.

  Lemma same_at_trans : forall tr a b c p, R tr -> good s tr a -> good s tr b -> good s tr c ->
    wf_path p = true -> same_at s tr a b p -> same_at s tr b c p -> same_at s tr a c p.
  Proof.
    intros tr a b c p Htr Ga Gb Gc Hp H1 H2.
    destruct (same_at_inv tr a b p Htr Ga Gb Hp H1) as (t & x & y & Ea & Eb & Hs & Wx & Wy & _).
    destruct (same_at_inv tr b c p Htr Gb Gc Hp H2) as (t' & y' & z & Eb' & Ec & Hs' & _ & Wz & _).
    rewrite Eb in Eb'. inversion Eb'; subst t' y'.
    apply (same_at_intro tr a c p t x z Ea Ec). apply (same_v_trans t x y z); assumption.
  Qed.

  (* ---------- a common leaf at or beneath the path ---------- *)
  Lemma same_from_leaf : forall tr a b p q t x k, R tr -> good s tr a -> good s tr b -> nodup s tr b ->
    wf_path p = true -> wf_path q = true ->
    rs tr a p = Some (RNode t x) -> rs tr a (p ++ q) = Some k -> rnode_is_leaf s k = true ->
    has_leaf s tr b (p ++ q) k = true -> same_at s tr a b p.
  Proof.
    intros tr a b p q t x k Htr Ga Gb Nb Hp Hq Ea Ek Lk Hb.
    pose proof Ga as [Wa Ca]. pose proof Gb as [Wb Cb].
    destruct (hl_inv s tr b (p ++ q) k Hb) as (k' & Ek' & Lk' & Ee).
    pose proof Ek' as Ek2. rewrite resolve_path_app in Ek2.
    destruct (rs tr b p) as [[t' z|t' zs]|] eqn:Eb; [| |discriminate].
    2:{ exfalso. exact (Nb p t' zs Hp Eb). }
    pose proof (node_type_det s R Hok Hfam p true true tr a b t x t' z Htr Wa Wb Ca Cb Hp Ea Eb) as Et. subst t'.
    apply (same_at_intro tr a b p t x z Ea Eb).
    pose proof Ek as Ek1. rewrite resolve_path_app, Ea in Ek1.
    destruct q as [|e q'].
    - cbn [resolve_path] in Ek1, Ek2. inversion Ek1; subst k. inversion Ek2; subst k'.
      cbn [rnode_eqb] in Ee.
      destruct (node_sub s R Hok Hfam p true tr a t x Htr Wa Ca Hp Ea) as (_ & _ & Wx & Cx & _).
      destruct (node_sub s R Hok Hfam p true tr b t z Htr Wb Cb Hp Eb) as (_ & _ & Wz & Cz & _).
      unfold same_v. rewrite (leaf_kind t x Cx Lk), (leaf_kind t z Cz Lk'). exact Ee.
    - apply (same_v_enter t x z e q' q' k k' Ek1 Ek2).
  Qed.

  (* objects with the same leaves have the same nodes *)
  Lemma same_of_lin : forall tr a b p t x, R tr -> good s tr a -> good s tr b -> nodup s tr b ->
    wf_path p = true -> lin s tr a b -> rs tr a p = Some (RNode t x) -> same_at s tr a b p.
  Proof.
    intros tr a b p t x Htr Ga Gb Nb Hp Hab Ea.
    destruct (node_leaf_beneath s R Hok Hfam tr a p _ Htr Ga Hp Ea) as (q & m & Hq & Hm & Lm).
    assert (Hpq : wf_path (p ++ q) = true) by (apply ReconcileBase.wf_path_app; split; assumption).
    apply (same_from_leaf tr a b p q t x m Htr Ga Gb Nb Hp Hq Ea Hm Lm).
    apply (Hab (p ++ q) m Hpq Hm Lm).
  Qed.

  (* ---------- what the configuration says at a path ---------- *)
  (* the configuration r does not reach p, or has there the same node as the value x *)
  Definition crit (tr : typeref) (r : value) (p : path) (t : typeref) (x : value) : Prop :=
    (rs tr r p = None /\
     forall j n, j < List.length p -> rs tr r (firstn j p) = Some n -> rnode_is_leaf s n = true -> False)
    \/ (exists y, rs tr r p = Some (RNode t y) /\ same_v s t x y).

  (* A: if a step with r ends with the node of l at p, r satisfies the criterion *)
  Lemma crit_of_same : forall tr l0 r o l p t x, R tr -> cfg_ok s tr r -> mstep s tr l0 r o -> good s tr l ->
    wf_path p = true -> rs tr l p = Some (RNode t x) -> same_at s tr l o p -> crit tr r p t x.
  Proof.
    intros tr l0 r o l p t x Htr Cr HM Gl Hp El Hs.
    pose proof (cfg_good s tr r Cr) as Gr. pose proof (ms_good s tr l0 r o HM) as Go.
    destruct (same_at_inv tr l o p Htr Gl Go Hp Hs) as (t' & x' & z & El' & Eo & Hxz & Wx & Wz & Cx & Cz).
    rewrite El in El'. inversion El'; subst t' x'. clear El'.
    pose proof Gr as [Wr Cr0]. pose proof Gl as [Wl Cl].
    destruct (rs tr r p) as [[t' y|t' ys]|] eqn:Er.
    - right.
      pose proof (node_type_det s R Hok Hfam p true true tr l r t x t' y Htr Wl Wr Cl Cr0 Hp El Er) as Et. subst t'.
      exists y. split; [exact Er|].
      destruct (node_sub s R Hok Hfam p true tr r t y Htr Wr Cr0 Hp Er) as (_ & _ & Wy & Cy & _).
      destruct (node_leaf_beneath s R Hok Hfam tr r p _ Htr Gr Hp Er) as (q & m & Hq & Hm & Lm).
      assert (Hpq : wf_path (p ++ q) = true) by (apply ReconcileBase.wf_path_app; split; assumption).
      pose proof (ms_rw s tr l0 r o HM (p ++ q) m Hpq Hm Lm) as H1.
      destruct (hl_inv s tr o (p ++ q) m H1) as (m' & Hm' & Lm' & Ee).
      rewrite resolve_path_app, Er in Hm. rewrite resolve_path_app, Eo in Hm'.
      destruct q as [|e q'].
      + cbn [resolve_path] in Hm, Hm'. inversion Hm; subst m. inversion Hm'; subst m'.
        cbn [rnode_eqb] in Ee.
        pose proof (leaf_kind t y Cy Lm) as Ky. pose proof (leaf_kind t z Cz Lm') as Kz.
        unfold same_v in *. rewrite Kz in Hxz. rewrite Ky.
        destruct (kind_of s t x); try contradiction.
        (* veqb z y, veqb z x |- veqb y x *)
        apply (veqb_trans y z x Wy Wz Wx); [|exact Hxz].
        rewrite (veqb_sym y z Wy Wz). exact Ee.
      + apply (same_v_cont t x z y e q' q' m' m Hxz Hm' Hm).
    - exfalso. exact (cfg_nodup s R Hok Hfam tr r Htr Cr p t' ys Hp Er).
    - left. split; [exact Er|]. intros j n Hj Ej Ln.
      assert (Hpj : wf_path (firstn j p) = true) by (apply ReconcileBase.wf_path_firstn; exact Hp).
      pose proof (ms_rw s tr l0 r o HM (firstn j p) n Hpj Ej Ln) as H1.
      destruct (hl_inv s tr o (firstn j p) n H1) as (m' & Hm' & Lm' & _).
      rewrite (firstn_skipn_path j p) in Eo.
      pose proof (leaf_stop s tr o (firstn j p) (skipn j p) m' _ Hm' Lm' Eo) as E.
      exact (skipn_nonnil j p Hj E).
  Qed.

  (* B: under the criterion a step keeps the node *)
  Lemma same_of_crit : forall tr l r o p t x, R tr -> good s tr l -> cfg_ok s tr r -> mstep s tr l r o ->
    nodup s tr o -> wf_path p = true -> rs tr l p = Some (RNode t x) -> crit tr r p t x ->
    same_at s tr l o p.
  Proof.
    intros tr l r o p t x Htr Gl Cr HM No Hp El Hc.
    pose proof (cfg_good s tr r Cr) as Gr. pose proof (ms_good s tr l r o HM) as Go.
    pose proof Gr as [Wr Cr0]. pose proof Gl as [Wl Cl]. pose proof Go as [Wo Co].
    destruct (node_sub s R Hok Hfam p true tr l t x Htr Wl Cl Hp El) as (_ & _ & Wx & Cx & _).
    destruct Hc as [[Hnone Hfree]|(y & Er & Hxy)].
    - (* r does not reach p: a leaf of l at or beneath p is kept *)
      destruct (node_leaf_beneath s R Hok Hfam tr l p _ Htr Gl Hp El) as (q & k & Hq & Hk & Lk).
      assert (Hpq : wf_path (p ++ q) = true) by (apply ReconcileBase.wf_path_app; split; assumption).
      apply (same_from_leaf tr l o p q t x k Htr Gl Go No Hp Hq El Hk Lk).
      apply (ms_kp s tr l r o HM (p ++ q) k Hpq); [|exact Hk|exact Lk].
      split.
      + intros j Hj. unfold interior_or_absent.
        destruct (Nat.lt_ge_cases j (List.length p)) as [Hlt|Hge].
        * rewrite firstn_app. replace (j - List.length p) with 0 by lia. cbn [firstn]. rewrite app_nil_r.
          destruct (rs tr r (firstn j p)) as [[t' y|t' ys]|] eqn:Ej; [| |exact I].
          -- destruct (leafy_or_granular s t' y) as [Ly|Gy]; [|exact Gy]. exfalso.
             apply (Hfree j (RNode t' y) Hlt Ej).
             cbn [rnode_is_leaf]. unfold leafy in Ly. destruct (kind_of s t' y); try contradiction; reflexivity.
          -- exfalso. apply (cfg_nodup s R Hok Hfam tr r Htr Cr (firstn j p) t' ys); [|exact Ej].
             apply ReconcileBase.wf_path_firstn; exact Hp.
        * rewrite firstn_app, (firstn_all2 p) by lia. rewrite resolve_path_app, Hnone. exact I.
      + rewrite resolve_path_app, Hnone. reflexivity.
    - (* r has the same node at p *)
      destruct (node_sub s R Hok Hfam p true tr r t y Htr Wr Cr0 Hp Er) as (_ & _ & Wy & Cy & _).
      destruct (node_leaf_beneath s R Hok Hfam tr r p _ Htr Gr Hp Er) as (q & m & Hq & Hm & Lm).
      assert (Hpq : wf_path (p ++ q) = true) by (apply ReconcileBase.wf_path_app; split; assumption).
      pose proof (ms_rw s tr l r o HM (p ++ q) m Hpq Hm Lm) as H1.
      destruct (hl_inv s tr o (p ++ q) m H1) as (m' & Hm' & Lm' & Ee).
      pose proof Hm' as Hm2. rewrite resolve_path_app in Hm2.
      destruct (rs tr o p) as [[t' z|t' zs]|] eqn:Eo; [| |discriminate].
      2:{ exfalso. exact (No p t' zs Hp Eo). }
      pose proof (node_type_det s R Hok Hfam p true true tr l o t x t' z Htr Wl Wo Cl Co Hp El Eo) as Et. subst t'.
      destruct (node_sub s R Hok Hfam p true tr o t z Htr Wo Co Hp Eo) as (_ & _ & Wz & Cz & _).
      apply (same_at_intro tr l o p t x z El Eo).
      rewrite resolve_path_app, Er in Hm.
      destruct q as [|e q'].
      + cbn [resolve_path] in Hm, Hm2. inversion Hm; subst m. inversion Hm2; subst m'.
        cbn [rnode_eqb] in Ee.
        pose proof (leaf_kind t y Cy Lm) as Ky. pose proof (leaf_kind t z Cz Lm') as Kz.
        unfold same_v in *. rewrite Ky in Hxy. rewrite Kz.
        destruct (kind_of s t x); try contradiction.
        apply (veqb_trans z y x Wz Wy Wx Ee Hxy).
      + apply (same_v_cont t x y z e q' q' m m' Hxy Hm Hm2).
  Qed.

  (* ---------- no null, no empty container at a node ---------- *)
  Definition solid (tr : typeref) (v : value) : Prop :=
    forall p t x, wf_path p = true -> p <> [] -> rs tr v p = Some (RNode t x) -> hollow x = false.

  Lemma solid_plain : forall tr v, R tr -> wf_value v = true -> (v = VNull \/ plain v = true) -> solid tr v.
  Proof.
    intros tr v Htr Wv [->|Pv] p t x Hp Hne Hr.
    - destruct p as [|e p']; [contradiction Hne; reflexivity|].
      rewrite resolve_path_leaf in Hr; [discriminate|].
      unfold kind_of. destruct (resolve s tr) as [[? ? ?]|]; exact I.
    - apply plain_not_hollow. apply (ApplyEffect.plain_sub s R Hok p v tr t x Htr Wv Hp Pv Hr).
  Qed.

  Lemma solid_mstep : forall tr l r o, R tr -> good s tr l -> solid tr l -> cfg_ok s tr r ->
    mstep s tr l r o -> solid tr o.
  Proof.
    intros tr l r o Htr Gl Sl Cr HM p t x Hp Hne Hr.
    pose proof (ms_good s tr l r o HM) as Go. pose proof Go as [Wo Co].
    pose proof (cfg_good s tr r Cr) as Gr.
    assert (Sr : solid tr r).
    { destruct Cr as (Wr & _ & Pr). apply solid_plain; auto. }
    destruct (node_sub s R Hok Hfam p true tr o t x Htr Wo Co Hp Hr) as (_ & _ & Wx & Cx & _).
    destruct (kind_of s t x) as [|t0 m|t0 l0|] eqn:Kx.
    - assert (Lx : rnode_is_leaf s (RNode t x) = true) by (cbn [rnode_is_leaf]; rewrite Kx; reflexivity).
      destruct (ms_fo s tr l r o HM p _ Hp Hr Lx) as [H|H];
        destruct (hl_inv s tr _ p _ H) as (m0 & Hm0 & _ & Ee);
        destruct m0 as [t' y|t' ys]; cbn [rnode_eqb] in Ee; try discriminate;
        rewrite <- (hollow_veqb y x Ee).
      + apply (Sr p t' y Hp Hne Hm0).
      + apply (Sl p t' y Hp Hne Hm0).
    - destruct (kind_map_inv _ _ _ _ _ Kx) as (_ & _ & _ & -> & _ & Hm). destruct m; [contradiction Hm; reflexivity|reflexivity].
    - destruct (kind_list_inv _ _ _ _ _ Kx) as (_ & _ & _ & -> & _ & Hm). destruct l0; [contradiction Hm; reflexivity|reflexivity].
    - exfalso. exact (conforms_kind_not_bad s t true x Cx Kx).
  Qed.

  (* ---------- a node of the object that the one order leaves alone, the other leaves alone ---------- *)
  Lemma others_same : forall tr l rA rB oA oAB oB oBA p t x, R tr -> good s tr l -> nodup s tr l ->
    cfg_ok s tr rA -> cfg_ok s tr rB -> sep s tr rA rB ->
    mstep s tr l rA oA -> mstep s tr oA rB oAB -> mstep s tr l rB oB -> mstep s tr oB rA oBA ->
    wf_path p = true -> rs tr l p = Some (RNode t x) ->
    same_at s tr l oA p -> same_at s tr oA oAB p ->
    same_at s tr l oB p /\ same_at s tr oB oBA p.
  Proof.
    intros tr l rA rB oA oAB oB oBA p t x Htr Gl Nl CA CB SAB HA HAB HB HBA Hp El H1 H2.
    pose proof (ms_good _ _ _ _ _ HA) as GA. pose proof (ms_good _ _ _ _ _ HAB) as GAB.
    pose proof (ms_good _ _ _ _ _ HB) as GB. pose proof (ms_good _ _ _ _ _ HBA) as GBA.
    pose proof (mstep_nodup s R Hok Hfam tr l rA oA Htr Nl CA HA) as NA.
    pose proof (mstep_nodup s R Hok Hfam tr oA rB oAB Htr NA CB HAB) as NAB.
    pose proof (mstep_nodup s R Hok Hfam tr l rB oB Htr Nl CB HB) as NB.
    pose proof (mstep_nodup s R Hok Hfam tr oB rA oBA Htr NB CA HBA) as NBA.
    pose proof (same_at_trans tr l oA oAB p Htr Gl GA GAB Hp H1 H2) as H3.
    (* after B alone *)
    pose proof (crit_of_same tr oA rB oAB l p t x Htr CB HAB Gl Hp El H3) as Hc.
    pose proof (same_of_crit tr l rB oB p t x Htr Gl CB HB NB Hp El Hc) as H4.
    split; [exact H4|].
    (* the two orders have the same leaves *)
    pose proof (commute_lin s R Hok Hfam tr l rA rB oA oAB oB oBA Htr Gl CA CB SAB HA HAB HB HBA) as L1.
    destruct (same_at_inv tr l oAB p Htr Gl GAB Hp H3) as (t' & x' & z & _ & EAB & _).
    pose proof (same_of_lin tr oAB oBA p t' z Htr GAB GBA NBA Hp L1 EAB) as H5.
    pose proof (same_at_trans tr l oAB oBA p Htr Gl GAB GBA Hp H3 H5) as H6.
    apply (same_at_trans tr oB l oBA p Htr GB Gl GBA Hp); [|exact H6].
    apply (same_at_sym tr l oB p Htr Gl GB Hp H4).
  Qed.

  (* a node of the configuration rA, out of the reach of rB, is left alone by the step with rB *)
  Lemma cfg_node_same : forall tr l rA rB oA oAB p, R tr -> good s tr l -> nodup s tr l ->
    cfg_ok s tr rA -> cfg_ok s tr rB ->
    mstep s tr l rA oA -> mstep s tr oA rB oAB ->
    wf_path p = true -> present s tr rA p = true ->
    rs tr rB p = None ->
    (forall j n, j < List.length p -> rs tr rB (firstn j p) = Some n -> rnode_is_leaf s n = true -> False) ->
    same_at s tr oA oAB p.
  Proof.
    intros tr l rA rB oA oAB p Htr Gl Nl CA CB HA HAB Hp Hpr Hnone Hfree.
    pose proof (ms_good _ _ _ _ _ HA) as GA.
    pose proof (mstep_nodup s R Hok Hfam tr l rA oA Htr Nl CA HA) as NA.
    pose proof (mstep_nodup s R Hok Hfam tr oA rB oAB Htr NA CB HAB) as NAB.
    pose proof (cfg_good s tr rA CA) as GrA.
    unfold present in Hpr. destruct (rs tr rA p) as [n|] eqn:En; [|discriminate].
    (* the node of rA at p is a node of oA *)
    destruct (node_leaf_beneath s R Hok Hfam tr rA p n Htr GrA Hp En) as (q & m & Hq & Hm & Lm).
    assert (Hpq : wf_path (p ++ q) = true) by (apply ReconcileBase.wf_path_app; split; assumption).
    pose proof (ms_rw _ _ _ _ _ HA (p ++ q) m Hpq Hm Lm) as H1.
    destruct (hl_inv s tr oA (p ++ q) m H1) as (m' & Hm' & _ & _).
    pose proof Hm' as Hm2. rewrite resolve_path_app in Hm2.
    destruct (rs tr oA p) as [[t x|t xs]|] eqn:EA; [| |discriminate].
    2:{ exfalso. exact (NA p t xs Hp EA). }
    apply (same_of_crit tr oA rB oAB p t x Htr GA CB HAB NAB Hp EA).
    left. split; assumption.
  Qed.
End Same.
