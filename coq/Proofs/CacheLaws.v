(* C10: under any interleaving, every call on a shared cache returns what the pure
   function returns, and the cache only ever holds values of the function. *)
From Coq Require Import List Arith Bool Lia.
From SMD Require Import Model.Caches.
Import ListNotations.

Section CacheLaws.
  Variables K V : Type.
  Variable f : K -> V.
  Variable keqb : K -> K -> bool.
  Hypothesis keqb_eq : forall a b, keqb a b = true -> a = b.
  Variable domain : list K.

  Notation sound := (sound K V f).
  Notation lookup := (lookup K V keqb).
  Notation step := (step K V f keqb domain).
  Notation tsound := (tsound K V f).
  Notation run_one := (run_one K V f keqb domain).
  Notation run := (run K V f keqb domain).

  Lemma lookup_sound : forall c k v, sound c -> lookup k c = Some v -> v = f k.
  Proof.
    induction c as [|[k' v'] t IH]; intros k v Hs H; [discriminate H|].
    simpl in H. pose proof (Forall_inv Hs) as Hx. pose proof (Forall_inv_tail Hs) as Ht. simpl in Hx.
    destruct (keqb k k') eqn:E.
    - inversion H as [Hv]. apply keqb_eq in E. rewrite E. rewrite <- Hv. exact Hx.
    - exact (IH k v Ht H).
  Qed.

  Lemma sound_full_table : sound (full_table K V f domain).
  Proof.
    unfold full_table, Caches.sound. apply Forall_forall. intros [k v] Hin.
    apply in_map_iff in Hin. destruct Hin as [k0 [Heq _]]. inversion Heq; subst. reflexivity.
  Qed.

  Lemma sound_merge : forall updates shared, sound updates -> sound shared ->
    sound (fold_left (fun acc (kv : K * V) =>
                        match lookup (fst kv) acc with Some _ => acc | None => kv :: acc end)
                     updates shared).
  Proof.
    induction updates as [|kv t IH]; intros shared Hu Hs; [exact Hs|].
    simpl. pose proof (Forall_inv Hu) as Hx. pose proof (Forall_inv_tail Hu) as Ht. apply IH; [exact Ht|].
    destruct (lookup (fst kv) shared); [exact Hs|]. constructor; assumption.
  Qed.

  (* one step preserves soundness of the shared cache and of the thread's local state *)
  Lemma step_sound : forall d shared t, sound shared -> tsound t ->
    sound (fst (step d shared t)) /\ tsound (snd (step d shared t)).
  Proof.
    intros d shared t Hs Ht. destruct t as [k|k snap|k v updates|k v]; simpl.
    - destruct d; simpl.
      + assert (Hs' : sound (match shared with [] => full_table K V f domain | _ :: _ => shared end))
          by (destruct shared; [apply sound_full_table|exact Hs]).
        split; [exact Hs'|].
        destruct (lookup k (match shared with [] => full_table K V f domain | _ :: _ => shared end)) eqn:E; simpl.
        * exact (lookup_sound _ _ _ Hs' E).
        * reflexivity.
      + destruct (lookup k shared) eqn:E; simpl.
        * split; [exact Hs|exact (lookup_sound _ _ _ Hs E)].
        * split; [constructor; [reflexivity|exact Hs]|reflexivity].
      + destruct (lookup k shared) eqn:E; simpl.
        * split; [exact Hs|exact (lookup_sound _ _ _ Hs E)].
        * split; [exact Hs|exact Hs].
    - split; [exact Hs|]. split; [reflexivity|]. constructor; [reflexivity|constructor].
    - destruct Ht as [Hv Hu]. split; [apply sound_merge; assumption|exact Hv].
    - split; [exact Hs|exact Ht].
  Qed.

  Definition cfg_sound (cfg : config K V) : Prop := sound (fst cfg) /\ Forall tsound (snd cfg).

  Lemma set_nth_Forall : forall (P : tstate K V -> Prop) n x l, Forall P l -> P x -> Forall P (set_nth n x l).
  Proof.
    intros P n x l. revert n. induction l as [|h t IH]; intros n Hl Hx; [destruct n; constructor|].
    inversion Hl; subst. destruct n; simpl; constructor; auto.
  Qed.

  Lemma run_one_sound : forall d cfg who, cfg_sound cfg -> cfg_sound (run_one d cfg who).
  Proof.
    intros d [c ts] who [Hc Hts]. unfold Caches.run_one. simpl.
    destruct (nth_error ts who) as [t|] eqn:E; [|split; assumption].
    assert (Ht : tsound t).
    { rewrite Forall_forall in Hts. apply Hts. eapply nth_error_In. exact E. }
    destruct (step_sound d c t Hc Ht) as [H1 H2].
    destruct (step d c t) as [c' t']. simpl in *. split; [exact H1|].
    apply set_nth_Forall; assumption.
  Qed.

  (* ANY schedule, ANY number of threads *)
  Theorem run_sound : forall d schedule cfg, cfg_sound cfg -> cfg_sound (run d schedule cfg).
  Proof.
    intros d schedule. induction schedule as [|who rest IH]; intros cfg H; [exact H|].
    simpl. apply IH. apply run_one_sound. exact H.
  Qed.

  (* transparency: whatever the interleaving, a finished call returned the function's value *)
  Theorem cache_transparent : forall d schedule (keys : list K) cfg',
    run d schedule ([], map (Start K V) keys) = cfg' ->
    sound (fst cfg') /\
    forall i k v, nth_error (snd cfg') i = Some (Done K V k v) -> v = f k.
  Proof.
    intros d schedule keys cfg' Hrun.
    assert (H0 : cfg_sound ([], map (Start K V) keys)).
    { split; [constructor|]. apply Forall_forall. intros t Hin.
      apply in_map_iff in Hin. destruct Hin as [k [Hk _]]. subst t. exact I. }
    pose proof (run_sound d schedule _ H0) as [Hc Hts]. rewrite Hrun in *.
    split; [exact Hc|]. intros i k v Hi.
    rewrite Forall_forall in Hts. apply (Hts (Done K V k v)). eapply nth_error_In. exact Hi.
  Qed.

End CacheLaws.
