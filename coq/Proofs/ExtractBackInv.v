(* C07 (extract and apply back): the two conditions on sets of Proofs/ExtractBackSet.v
   ([prefix_closed], [interior_class]) hold of the record of every manager whose record was
   last written by an Apply, at every state of every history -- an invariant next to the one
   of Proofs/History.v.
     - the field set of a plain valid configuration satisfies both [field_set_closed];
     - what the operations of OTHER managers do to a record -- subtract the paths the
       comparison reports -- preserves both [closed_keeps]: if a prefix were reported while a
       path beneath it is kept, the node at the prefix would be a container of the same kind
       in both objects, and such a node is not reported;
     - an Update by the manager itself clears the flag [mr_applied]. *)
From Coq Require Import List ZArith String Bool Arith Lia.
From SMD Require Import Model.Value Model.Order Model.PathElem Model.PathSet Model.Schema Model.Walk
  Model.Validate Model.FieldSet Model.Remove Model.Merge Model.Compare Model.Matcher Model.Reconcile
  Model.Updater
  Spec.PathsAsSets Spec.RefValid Spec.Resolve Spec.Agree Spec.RefDiff Spec.Examples
  Proofs.OrderLaws Proofs.PathSetLaws Proofs.SchemaOk Proofs.FieldSetBase Proofs.FieldSetPaths
  Proofs.FieldSetWf Proofs.FieldSetLaws Proofs.RemoveAbsent Proofs.RemoveWf Proofs.ResolveLaws
  Proofs.UpdaterLaws Proofs.UpdaterLaws2 Proofs.MergeLaws Proofs.MergeAgree
  Proofs.RemoveFrame Proofs.EnLaws Proofs.NodeSet Proofs.KeyFields Proofs.VeqbResolve
  Proofs.SetCheckers Proofs.ApplyEffect Proofs.RefDiffBoth Proofs.RefDiffLaws Proofs.RefDiffPresent
  Proofs.ApplyInv Proofs.ValidateLaws Proofs.CompareLaws
  Proofs.RefDiffChar Proofs.KeySync Proofs.ReconcileCurrent Proofs.History
  Proofs.MergeRest2a Proofs.ExtractBackSet.
From SMD Require Import Proofs.ReconcileBase.
From SMD Require Proofs.UpdateInv Proofs.MergeBase.
Import ListNotations.
Open Scope bool_scope.
Open Scope list_scope.

Local Arguments ps_has : simpl never.
Local Arguments ps_empty : simpl never.

(* the node above a node is a single container, a map above a field, a list above a member *)
Lemma parent_kind : forall s tr v q e rest n, resolve_path s tr v (q ++ e :: rest) = Some n ->
  exists t x, resolve_path s tr v q = Some (RNode t x) /\
    match kind_of s t x, e with
    | KMap _ _, PEField _ => True
    | KList _ _, (PEKey _ | PEValue _) => True
    | _, _ => False
    end.
Proof.
  intros s tr v q e rest n H. rewrite resolve_path_app in H.
  destruct (resolve_path s tr v q) as [[t x|t xs]|]; [|discriminate|discriminate].
  exists t, x. split; [reflexivity|]. simpl in H.
  destruct (kind_of s t x); try discriminate; destruct e; try discriminate; exact I.
Qed.

Section Keeps.
  Variables (s : schema) (R : typeref -> Prop).
  Hypothesis Hok : schema_ok s R.
  Hypothesis Hfam : family_refs s R.
  Hypothesis Hpure : lists_pure s R.

  (* subtracting what a comparison reports preserves the two conditions *)
  Lemma closed_keeps : forall tr live new cmp r S',
    R tr -> wf_value live = true -> wf_value new = true ->
    conforms s tr true live = true -> conforms s tr true new = true ->
    compare s tr live new = Some cmp ->
    members_present s tr live (mr_set r) ->
    prefix_closed s tr (mr_set r) -> interior_class s tr (mr_set r) ->
    (forall p, wf_path p = true -> p <> [] -> ps_has p S' = keeps r cmp p) ->
    prefix_closed s tr S' /\ interior_class s tr S'.
  Proof.
    intros tr live new cmp r S' Htr Hwl Hwn Hcl Hcn Hcmp Hpres Hclosed Hcls Hk.
    assert (Hin : forall p, wf_path p = true -> p <> [] -> ps_has p S' = true ->
              ps_has p (mr_set r) = true /\ ps_has p (modified cmp) = false /\
              ps_has p (added cmp) = false /\ ps_has p (removed cmp) = false).
    { intros p Hp Hne Hh. rewrite (Hk p Hp Hne) in Hh. unfold keeps in Hh.
      apply andb_true_iff in Hh. destruct Hh as [Hh Hr]. apply andb_true_iff in Hh. destruct Hh as [H0 Hma].
      apply negb_true_iff in Hr. apply negb_true_iff in Hma. apply orb_false_iff in Hma. tauto. }
    split.
    - intros q q2 Hw Hq2 Hh Hclass.
      pose proof Hw as Hw'. apply wf_path_app in Hw'. destruct Hw' as [Hq Hwq2].
      assert (Hqne : q <> []).
      { destruct Hclass as [(pre & e & -> & _)|(pre & k & -> & _)]; destruct pre; discriminate. }
      assert (Hne : q ++ q2 <> []) by (destruct q; [congruence|discriminate]).
      destruct (Hin (q ++ q2) Hw Hne Hh) as (H0 & Hm & Ha & Hr).
      pose proof (Hclosed q q2 Hw Hq2 H0 Hclass) as Hq0.
      rewrite (Hk q Hq Hqne). unfold keeps. rewrite Hq0. cbn [andb].
      (* the path beneath is a node of both objects *)
      pose proof (Hpres (q ++ q2) Hw H0) as Hpl.
      destruct (UpdateInv.compare_present s R tr live new cmp Hok Hfam Hpure Htr Hwl Hwn Hcl Hcn Hcmp
                  (q ++ q2) Hw Hne) as (Hpn & _ & _).
      specialize (Hpn Hpl Hr).
      unfold present in Hpl, Hpn.
      destruct (resolve_path s tr live (q ++ q2)) as [n1|] eqn:E1; [|discriminate].
      destruct (resolve_path s tr new (q ++ q2)) as [n2|] eqn:E2; [|discriminate].
      destruct q2 as [|e rest]; [congruence|].
      destruct (parent_kind s tr live q e rest n1 E1) as (t1 & x1 & R1 & K1).
      destruct (parent_kind s tr new q e rest n2 E2) as (t2 & x2 & R2 & K2).
      destruct (compare_char s R Hok Hfam Hpure tr live new cmp Htr Hwl Hwn Hcl Hcn Hcmp q Hq Hqne)
        as (Cadd & Crem & Cmod & _).
      assert (Em : ps_has q (modified cmp) = false).
      { destruct (ps_has q (modified cmp)) eqn:E; [|reflexivity]. exfalso.
        specialize (Cmod eq_refl). rewrite R1, R2 in Cmod. simpl in Cmod.
        destruct (kind_of s t1 x1); destruct (kind_of s t2 x2); destruct e; simpl in *; contradiction. }
      assert (Ea : ps_has q (added cmp) = false).
      { destruct (ps_has q (added cmp)) eqn:E; [|reflexivity]. exfalso.
        destruct (Cadd eq_refl) as [_ [H|H]]; rewrite R1, ?R2 in H; simpl in H; [discriminate|congruence]. }
      assert (Er : ps_has q (removed cmp) = false).
      { destruct (ps_has q (removed cmp)) eqn:E; [|reflexivity]. exfalso.
        destruct (Crem eq_refl) as [_ [H|H]]; rewrite R2, ?R1 in H; simpl in H; [discriminate|congruence]. }
      rewrite Em, Ea, Er. reflexivity.
    - intros q q2 Hw Hq2 Hh1 Hh2.
      pose proof Hw as Hw'. apply wf_path_app in Hw'. destruct Hw' as [Hq Hwq2].
      assert (Hqne : q <> []) by (apply (has_nonnil _ _ Hh1)).
      assert (Hne : q ++ q2 <> []) by (destruct q; [congruence|discriminate]).
      destruct (Hin q Hq Hqne Hh1) as (H1 & _). destruct (Hin (q ++ q2) Hw Hne Hh2) as (H2 & _).
      apply (Hcls q q2 Hw Hq2 H1 H2).
  Qed.
End Keeps.

Section Inv.
  Variables (c : config) (R : typeref -> Prop) (ver : string).
  Let s := schema_of c ver.
  Let tr := tr_of c ver.

  (* the records last written by an Apply satisfy the two conditions *)
  Definition applied_closed (mf : managed) : Prop :=
    forall m r, mf_get m mf = Some r -> mr_applied r = true ->
      prefix_closed s tr (mr_set r) /\ interior_class s tr (mr_set r).

  Lemma others_closed : forall live new cmp mf mf1 mgr,
    setting_ok c R ver -> state_ok c ver live mf -> applied_closed mf ->
    wf_value new = true -> conforms s tr true new = true ->
    conforms s tr true live = true ->
    compare s tr live new = Some cmp ->
    (forall m, m <> mgr ->
       match mf_get m mf with
       | None => mf_get m mf1 = None
       | Some r =>
           match mf_get m mf1 with
           | None => forall p, wf_path p = true -> p <> [] -> keeps r cmp p = false
           | Some r' =>
               mr_ver r' = mr_ver r /\ mr_applied r' = mr_applied r /\
               forall p, wf_path p = true -> p <> [] -> ps_has p (mr_set r') = keeps r cmp p
           end
       end) ->
    forall m r', m <> mgr -> mf_get m mf1 = Some r' -> mr_applied r' = true ->
      prefix_closed s tr (mr_set r') /\ interior_class s tr (mr_set r').
  Proof.
    intros live new cmp mf mf1 mgr Hset Hst Hinv Hwn Hcn Hcl Hcmp Hoth m r' Hm Hg Ha.
    pose proof Hset as (Hni & Hcid & Hok & Hfam & Hpure & Htr & Hkp). fold s tr in Hok, Hfam, Hpure, Htr.
    pose proof (Hoth m Hm) as Ho.
    destruct (mf_get m mf) as [r|] eqn:Er; [|congruence].
    rewrite Hg in Ho. destruct Ho as (_ & Happ & Hk).
    destruct (Hinv m r Er ltac:(congruence)) as [Hc1 Hc2].
    apply (closed_keeps s R Hok Hfam Hpure tr live new cmp r (mr_set r') Htr
             (so_wf c ver live mf Hst) Hwn Hcl Hcn Hcmp); auto.
    intros p Hp Hh. apply (so_present c ver live mf Hst m r p Er Hp Hh).
  Qed.

  Lemma apply_closed : forall live mf mgr cfg force o mf',
    setting_ok c R ver -> state_ok c ver live mf -> op_ok c ver (HApply mgr cfg force) ->
    applied_closed mf ->
    apply_op c (ver, live) (ver, cfg) ver mf mgr force = UOk (o, mf') ->
    applied_closed mf'.
  Proof.
    intros live mf mgr cfg force o mf' Hset Hst Hop Hinv Happly.
    pose proof (state_ok_conforms c ver live mf _ Hst Hop) as Hcl.
    pose proof Hset as (Hni & Hcid & Hok & Hfam & Hpure & Htr & Hkp).
    destruct Hop as (Hwc & Hcc & Hpl & Hgr).
    pose proof (so_wf c ver live mf Hst) as Hwl. pose proof (so_mf c ver live mf Hst) as Hmf.
    pose proof (so_single c ver live mf Hst) as Hsv. pose proof (so_current c ver live mf Hst) as Hcur.
    assert (Hmine : forall r, mf_get mgr mf = Some r -> applier_record_ok (schema_of c ver) (tr_of c ver) (mr_set r)).
    { intros r Hg. apply (so_records c ver live mf Hst mgr r Hg). }
    assert (Hothers : forall m r, m <> mgr -> mf_get m mf = Some r ->
              owns_live_keys (schema_of c ver) (tr_of c ver) live (mr_set r)).
    { intros m r _ Hg. apply (so_records c ver live mf Hst m r Hg). }
    destruct (apply_unfold c R ver (ver, live) (ver, cfg) mf mgr force o mf'
                Hni Hcid Hok Hfam Htr Hkp eq_refl eq_refl Hsv Hmf Hcur Hmine Hothers
                Hwl Hwc Hcl Hcc Hpl Hgr Happly)
      as (set0 & px & n1 & cmp & n2 & Eset0 & Hset0ok & HwP & HcP & HagrP & Hupd & Hres).
    cbn [fst snd] in *.
    set (mfp := mf_set mgr {| mr_set := set0; mr_ver := ver; mr_applied := true |} mf) in *.
    assert (Hmfp : mf_ok mfp) by (apply mf_set_ok; assumption).
    assert (Hsvp : single_version ver mfp) by (apply mf_set_single; [assumption|reflexivity]).
    assert (Hcok : forall cmp0, compare_tv c (ver, live) (ver, px) = Some cmp0 -> cmp_ok cmp0).
    { intros cmp0 Hc0. unfold compare_tv in Hc0. cbn [fst snd] in Hc0.
      exact (compare_sets_ok _ R _ _ _ _ Hok Htr Hwl HwP Hc0). }
    destruct (update_core_records c n1 (ver, live) (ver, px) ver mfp mgr force mf' cmp n2 Hni Hsvp Hmfp Hcok Hupd)
      as (Hcmp & _ & _ & _ & _ & Hw & Hoth).
    unfold compare_tv in Hcmp. cbn [fst snd] in Hcmp.
    intros m r Hg Ha. destruct (String.eqb_spec m mgr) as [->|Hm].
    - rewrite Hw in Hg. unfold mfp in Hg. rewrite mf_get_set_same in Hg. cbn [mr_set] in Hg.
      destruct (ps_empty set0); [discriminate|]. inversion Hg; subst r. cbn [mr_set].
      apply (field_set_closed (schema_of c ver) R Hok Hfam (tr_of c ver) cfg set0 Htr Hwc Hcc Hpl Eset0).
    - assert (Hoth' : forall m0, m0 <> mgr ->
                match mf_get m0 mf with
                | None => mf_get m0 mf' = None
                | Some r0 =>
                    match mf_get m0 mf' with
                    | None => forall p, wf_path p = true -> p <> [] -> keeps r0 cmp p = false
                    | Some r' =>
                        mr_ver r' = mr_ver r0 /\ mr_applied r' = mr_applied r0 /\
                        forall p, wf_path p = true -> p <> [] -> ps_has p (mr_set r') = keeps r0 cmp p
                    end
                end).
      { intros m0 Hm0. pose proof (Hoth m0 Hm0) as Ho. unfold mfp in Ho.
        rewrite (mf_get_set_other m0 mgr _ mf Hm0) in Ho. exact Ho. }
      apply (others_closed live px cmp mf mf' mgr Hset Hst Hinv HwP HcP Hcl Hcmp Hoth' m r Hm Hg Ha).
  Qed.

  Lemma update_closed : forall live mf mgr obj t mf',
    setting_ok c R ver -> state_ok c ver live mf -> op_ok c ver (HUpdate mgr obj) ->
    applied_closed mf ->
    update_op c (ver, live) (ver, obj) ver mf mgr = UOk (t, mf') ->
    applied_closed mf'.
  Proof.
    intros live mf mgr obj t mf' Hset Hst Hop Hinv Hupdate.
    pose proof (state_ok_conforms c ver live mf _ Hst Hop) as Hcl.
    pose proof Hset as (Hni & Hcid & Hok & Hfam & Hpure & Htr & Hkp).
    destruct Hop as (Hwn & Hcn).
    pose proof (so_wf c ver live mf Hst) as Hwl. pose proof (so_mf c ver live mf Hst) as Hmf.
    pose proof (so_single c ver live mf Hst) as Hsv.
    unfold update_op in Hupdate.
    destruct (reconcile_managed c 0 (ver, live) mf) as [[mf0 n0]|e] eqn:Hrec; [|discriminate].
    pose proof (reconcile_id c R ver live mf mf0 n0 Hset Hst Hrec) as E. subst mf0.
    destruct (update_core c n0 (ver, live) (ver, obj) ver mf mgr true) as [[[mf1 cmp] n1]|e] eqn:Hupd; [|discriminate].
    rewrite (no_ignore_filter c ver Hni) in Hupdate. cbn [filter_set] in Hupdate.
    assert (Hcok : forall cmp0, compare_tv c (ver, live) (ver, obj) = Some cmp0 -> cmp_ok cmp0).
    { intros cmp0 Hc0. unfold compare_tv in Hc0. cbn [fst snd] in Hc0.
      exact (compare_sets_ok _ R _ _ _ _ Hok Htr Hwl Hwn Hc0). }
    destruct (update_core_records c n0 (ver, live) (ver, obj) ver mf mgr true mf1 cmp n1 Hni Hsv Hmf Hcok Hupd)
      as (Hcmp & _ & Hok1 & _ & _ & Hw & Hothers).
    unfold compare_tv in Hcmp. cbn [fst snd] in Hcmp.
    assert (Hoth : forall m r, m <> mgr -> mf_get m mf1 = Some r -> mr_applied r = true ->
              prefix_closed s tr (mr_set r) /\ interior_class s tr (mr_set r)).
    { intros m r Hm Hg Ha.
      apply (others_closed live obj cmp mf mf1 mgr Hset Hst Hinv Hwn Hcn Hcl Hcmp Hothers m r Hm Hg Ha). }
    intros m r Hg Ha.
    match type of Hupdate with
    | context [if ?b then _ else _] => destruct b eqn:Ee
    end; inversion Hupdate; subst t mf'; clear Hupdate.
    - rewrite (mf_get_del m mgr mf1 (proj1 Hok1)) in Hg.
      destruct (String.eqb_spec m mgr) as [E|E]; [discriminate|]. apply (Hoth m r E Hg Ha).
    - destruct (String.eqb_spec m mgr) as [E|E].
      + subst m. rewrite mf_get_set_same in Hg. inversion Hg; subst r. discriminate Ha.
      + rewrite (mf_get_set_other m mgr _ mf1 E) in Hg. apply (Hoth m r E Hg Ha).
  Qed.

  Theorem step_preserves_applied_closed : forall live mf o,
    setting_ok c R ver -> state_ok c ver live mf -> op_ok c ver o -> applied_closed mf ->
    applied_closed (snd (hstep c ver (live, mf) o)).
  Proof.
    intros live mf o Hset Hst Hop Hinv. destruct o as [mgr cfg force|mgr obj]; cbn [hstep fst snd].
    - destruct (apply_op c (ver, live) (ver, cfg) ver mf mgr force) as [[o mf']|e] eqn:Happly; [|exact Hinv].
      pose proof (apply_closed live mf mgr cfg force o mf' Hset Hst Hop Hinv Happly) as H.
      destruct o as [t|]; exact H.
    - destruct (update_op c (ver, live) (ver, obj) ver mf mgr) as [[t mf']|e] eqn:Hupdate; [|exact Hinv].
      apply (update_closed live mf mgr obj t mf' Hset Hst Hop Hinv Hupdate).
  Qed.

  Lemma run_from_closed : forall ops st, setting_ok c R ver -> Forall (op_ok c ver) ops ->
    state_ok c ver (fst st) (snd st) -> applied_closed (snd st) ->
    applied_closed (snd (fold_left (hstep c ver) ops st)).
  Proof.
    induction ops as [|o ops IH]; intros [live mf] Hset Hall Hst Hinv; [exact Hinv|].
    cbn [fold_left]. inversion Hall as [|? ? Ho Hrest]; subst.
    apply IH; auto.
    - apply (step_preserves_state_ok c R ver live mf o Hset Hst Ho).
    - apply (step_preserves_applied_closed live mf o Hset Hst Ho Hinv).
  Qed.

  Theorem reachable_applied_closed : forall ops,
    setting_ok c R ver -> Forall (op_ok c ver) ops -> applied_closed (snd (run c ver ops)).
  Proof.
    intros ops Hset Hall. unfold run. apply run_from_closed; auto.
    - apply initial_state_ok.
    - intros m r Hg. discriminate Hg.
  Qed.
End Inv.
