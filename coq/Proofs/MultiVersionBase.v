(* Helper of Proofs/MultiVersion.v: the bridge between a multi-version history (identity
   converter, one schema behind every label; Proofs/Transparent.v) and the single-version
   history of the same operations, in the form the transported theorems use:
     - [relabel] keeps managers, sets and flags: [relabel_get], [relabel_get_inv],
       [relabel_has], [relabel_others_union], [relabel_same_records];
     - [mv_state]: the state [vrun ops] against the state [run (map snd ops)];
     - [mv_apply_ok], [mv_apply_ok_rev], [mv_apply_err], [mv_update_ok], [mv_update_ok_rev]:
       the outcome of one operation at any label at [vrun ops] against the outcome of the same
       operation at [run (map snd ops)];
     - [noforce_ok_forced]: a non-forced apply that succeeds returns what the forced one
       returns (any configuration of the updater, any labels);
     - labels: [update_core_vers], [apply_vers], [update_vers]: what an Apply / Update at
       label v does to the LABELS of the records (the actor's record carries v, every other
       record keeps its label), identity converter and one schema. *)
From Coq Require Import List ZArith String Bool Arith Lia Permutation.
From SMD Require Import Model.Value Model.Order Model.PathElem Model.PathSet Model.Schema Model.Walk
  Model.Validate Model.FieldSet Model.Remove Model.Merge Model.Compare Model.Matcher Model.Reconcile
  Model.Updater
  Spec.PathsAsSets Spec.RefValid Spec.Resolve Spec.Agree Spec.RefDiff Spec.Examples
  Proofs.OrderLaws Proofs.PathSetLaws Proofs.SchemaOk Proofs.FieldSetBase Proofs.FieldSetPaths
  Proofs.FieldSetWf Proofs.FieldSetLaws Proofs.RemoveAbsent Proofs.RemoveWf Proofs.ResolveLaws
  Proofs.UpdaterLaws Proofs.UpdaterLaws2 Proofs.MergeLaws Proofs.MergeAgree
  Proofs.RemoveFrame Proofs.EnLaws Proofs.NodeSet Proofs.KeyFields Proofs.VeqbResolve
  Proofs.SetCheckers Proofs.ApplyEffect Proofs.ApplyInv Proofs.History
  Proofs.TransparentPrune Proofs.TransparentCore Proofs.TransparentStep Proofs.Transparent
  Proofs.Reapply.
From SMD Require Proofs.ApplyPrune.
Import ListNotations.
Open Scope bool_scope.
Open Scope list_scope.

Local Arguments ps_has : simpl never.
Local Arguments ps_empty : simpl never.

(* ================= relabelling keeps managers, sets and flags ================= *)

Lemma relabel_get : forall ver m mf,
  mf_get m (relabel ver mf) = option_map (relab_rec ver) (mf_get m mf).
Proof. intros ver m mf. rewrite relabel_relab. apply relab_get. Qed.

(* a record of the relabelled map is a record of the map: same set, same flag *)
Lemma relabel_get_inv : forall ver m mf r1, mf_get m (relabel ver mf) = Some r1 ->
  exists r, mf_get m mf = Some r /\ mr_set r1 = mr_set r /\ mr_applied r1 = mr_applied r /\ mr_ver r1 = ver.
Proof.
  intros ver m mf r1 H. rewrite relabel_get in H.
  destruct (mf_get m mf) as [r|]; [|discriminate H].
  cbn [option_map] in H. inversion H; subst r1. exists r. cbn. auto.
Qed.

Lemma relabel_get_some : forall ver m mf r, mf_get m mf = Some r ->
  mf_get m (relabel ver mf) = Some (relab_rec ver r).
Proof. intros ver m mf r H. rewrite relabel_get, H. reflexivity. Qed.

Lemma relabel_get_none : forall ver m mf, mf_get m mf = None <-> mf_get m (relabel ver mf) = None.
Proof.
  intros ver m mf. rewrite relabel_get. destruct (mf_get m mf); cbn [option_map]; split; congruence.
Qed.

(* "some record of manager m holds p", before and after relabelling *)
Lemma relabel_has : forall ver m mf p,
  (exists r, mf_get m (relabel ver mf) = Some r /\ ps_has p (mr_set r) = true) <->
  (exists r, mf_get m mf = Some r /\ ps_has p (mr_set r) = true).
Proof.
  intros ver m mf p. split.
  - intros (r1 & Hg & Hh). destruct (relabel_get_inv ver m mf r1 Hg) as (r & Hr & Es & _).
    exists r. split; [exact Hr|]. rewrite <- Es. exact Hh.
  - intros (r & Hg & Hh). exists (relab_rec ver r). split; [apply relabel_get_some; exact Hg|exact Hh].
Qed.

(* the union of the sets of the other managers does not look at labels *)
Lemma relabel_others_union : forall ver mgr mf,
  ApplyPrune.others_union mgr (relabel ver mf) = ApplyPrune.others_union mgr mf.
Proof.
  intros ver mgr mf. unfold ApplyPrune.others_union. f_equal.
  induction mf as [|[k r] mf IH]; [reflexivity|].
  cbn [relabel map filter fst snd]. destruct (negb (String.eqb k mgr)).
  - cbn [map snd mr_set]. f_equal. exact IH.
  - exact IH.
Qed.

Lemma relabel_mf_ok : forall ver mf, mf_ok (relabel ver mf) <-> mf_ok mf.
Proof. intros ver mf. rewrite relabel_relab. apply relab_mf_ok. Qed.

(* records equal as sets with equal flags, up to the labels *)
Definition same_records_upto_labels (a b : managed) : Prop :=
  forall m, match mf_get m a, mf_get m b with
            | Some r, Some r' => mr_applied r = mr_applied r' /\ ps_equals (mr_set r) (mr_set r') = true
            | None, None => True
            | _, _ => False
            end.

Lemma relabel_same_records : forall ver a b,
  same_records (relabel ver a) (relabel ver b) <-> same_records_upto_labels a b.
Proof.
  intros ver a b. unfold same_records, same_records_upto_labels. split; intros H m; specialize (H m);
    rewrite !relabel_get in *; destruct (mf_get m a) as [ra|]; destruct (mf_get m b) as [rb|];
    cbn [option_map relab_rec mr_ver mr_applied mr_set] in *; tauto.
Qed.

(* the answer of an apply, as an object *)
Lemma answer_same : forall (o o1 : option tv) (a b : value),
  option_map snd o = option_map snd o1 -> a = b ->
  match o with Some t => snd t | None => a end = match o1 with Some t => snd t | None => b end.
Proof.
  intros [t|] [t1|] a b H E; cbn [option_map] in H; try discriminate H.
  - inversion H. reflexivity.
  - exact E.
Qed.

(* ================= force ================= *)

(* whatever the updater's configuration: a non-forced apply that succeeds returns exactly what
   the forced apply returns *)
Lemma noforce_ok_forced : forall c live cfg version mf mgr x,
  apply_op c live cfg version mf mgr false = UOk x -> apply_op c live cfg version mf mgr true = UOk x.
Proof.
  intros c live cfg version mf mgr x. unfold apply_op.
  destruct (reconcile_managed c 0 live mf) as [[mf0 n0]|e]; [|discriminate].
  destruct (merge (schema_of c (fst live)) (tr_of c (fst live)) (snd live) (snd cfg)) as [[nv|]|]; try discriminate.
  destruct (to_fs c cfg) as [set0|]; [|discriminate].
  destruct (ignore_filter_for c version) as [f|]; [|discriminate].
  destruct (prune c n0 (fst live, nv) (mf_set mgr (mkRec set0 version true) mf0) mgr (mf_get mgr mf0))
    as [[pruned n1]|e]; [|discriminate].
  destruct (update_core c n1 live pruned version (mf_set mgr (mkRec (filter_set f set0) version true) mf0) mgr false)
    as [r|e] eqn:E; [|discriminate].
  rewrite (update_core_noforce_ok c n1 live pruned version _ mgr r E). intros H. exact H.
Qed.

(* ================= the two runs ================= *)

Section Bridge.
  Variables (c : config) (R : typeref -> Prop) (ver : string).
  Let s := schema_of c ver.
  Let tr := tr_of c ver.

  Lemma vops_ops : forall ops, Forall (vop_ok c ver) ops -> Forall (op_ok c ver) (map snd ops).
  Proof.
    intros ops H. induction H as [|o ops Ho _ IH]; [constructor|].
    cbn [map]. constructor; [exact (vop_ok_op c ver o Ho)|exact IH].
  Qed.

  (* every label carries the schema and the root type of [ver] *)
  Lemma one_schema_of : forall v, one_schema c ver -> schema_of c v = s /\ tr_of c v = tr.
  Proof. intros v H. unfold schema_of, tr_of, s, tr. rewrite (H v). auto. Qed.

  (* the state of the multi-version run against the state of the single-version run *)
  Lemma mv_state : forall ops,
    setting_ok c R ver -> one_schema c ver -> order_perm c -> Forall (vop_ok c ver) ops ->
    snd (fst (vrun c ver ops)) = fst (run c ver (map snd ops)) /\
    relabel ver (snd (vrun c ver ops)) = snd (run c ver (map snd ops)) /\
    state_ok c ver (fst (run c ver (map snd ops))) (snd (run c ver (map snd ops))) /\
    Forall (op_ok c ver) (map snd ops).
  Proof.
    intros ops Hset Hone Hperm Hall.
    destruct (runs_from_start c R ver ops Hset Hone Hperm Hall) as ([Hl Hm] & Hst & _).
    split; [exact Hl|]. split; [exact Hm|]. split; [exact Hst|apply vops_ops; exact Hall].
  Qed.

  (* the invariant, read on the multi-version state *)
  Lemma mv_state_ok : forall ops,
    setting_ok c R ver -> one_schema c ver -> order_perm c -> Forall (vop_ok c ver) ops ->
    state_ok c ver (snd (fst (vrun c ver ops))) (relabel ver (snd (vrun c ver ops))).
  Proof.
    intros ops Hset Hone Hperm Hall.
    destruct (mv_state ops Hset Hone Hperm Hall) as (Hl & Hm & Hst & _).
    rewrite Hl, Hm. exact Hst.
  Qed.

  (* ---------- one apply at any label ---------- *)
  Lemma mv_apply_ok : forall ops v mgr cfg force o mf',
    setting_ok c R ver -> one_schema c ver -> order_perm c -> Forall (vop_ok c ver) ops ->
    op_ok c ver (HApply mgr cfg force) ->
    apply_op c (fst (vrun c ver ops)) (v, cfg) v (snd (vrun c ver ops)) mgr force = UOk (o, mf') ->
    exists o1,
      apply_op c (ver, fst (run c ver (map snd ops))) (ver, cfg) ver (snd (run c ver (map snd ops))) mgr force
        = UOk (o1, relabel ver mf') /\
      option_map snd o = option_map snd o1.
  Proof.
    intros ops v mgr cfg force o mf' Hset Hone Hperm Hall Hop Happly.
    assert (Hvop : vop_ok c ver (v, HApply mgr cfg force)) by (split; [exact Hop|exact I]).
    pose proof (multi_version_apply_outcome c R ver ops v mgr cfg force Hset Hone Hperm Hall Hvop) as H.
    rewrite Happly in H.
    destruct (apply_op c (ver, fst (run c ver (map snd ops))) (ver, cfg) ver (snd (run c ver (map snd ops))) mgr force)
      as [[o1 mf1]|e1]; [|contradiction H].
    destruct H as [Ho Hmf]. exists o1. rewrite Hmf. auto.
  Qed.

  Lemma mv_apply_ok_rev : forall ops v mgr cfg force o1 mf1,
    setting_ok c R ver -> one_schema c ver -> order_perm c -> Forall (vop_ok c ver) ops ->
    op_ok c ver (HApply mgr cfg force) ->
    apply_op c (ver, fst (run c ver (map snd ops))) (ver, cfg) ver (snd (run c ver (map snd ops))) mgr force
      = UOk (o1, mf1) ->
    exists o mf',
      apply_op c (fst (vrun c ver ops)) (v, cfg) v (snd (vrun c ver ops)) mgr force = UOk (o, mf') /\
      option_map snd o = option_map snd o1 /\ relabel ver mf' = mf1.
  Proof.
    intros ops v mgr cfg force o1 mf1 Hset Hone Hperm Hall Hop Happly.
    assert (Hvop : vop_ok c ver (v, HApply mgr cfg force)) by (split; [exact Hop|exact I]).
    pose proof (multi_version_apply_outcome c R ver ops v mgr cfg force Hset Hone Hperm Hall Hvop) as H.
    rewrite Happly in H.
    destruct (apply_op c (fst (vrun c ver ops)) (v, cfg) v (snd (vrun c ver ops)) mgr force)
      as [[o mf']|e]; [|contradiction H].
    destruct H as [Ho Hmf]. exists o, mf'. auto.
  Qed.

  Lemma mv_apply_err : forall ops v mgr cfg force e,
    setting_ok c R ver -> one_schema c ver -> order_perm c -> Forall (vop_ok c ver) ops ->
    op_ok c ver (HApply mgr cfg force) ->
    (apply_op c (fst (vrun c ver ops)) (v, cfg) v (snd (vrun c ver ops)) mgr force = UErr e <->
     apply_op c (ver, fst (run c ver (map snd ops))) (ver, cfg) ver (snd (run c ver (map snd ops))) mgr force
       = UErr e).
  Proof.
    intros ops v mgr cfg force e Hset Hone Hperm Hall Hop.
    assert (Hvop : vop_ok c ver (v, HApply mgr cfg force)) by (split; [exact Hop|exact I]).
    pose proof (multi_version_apply_outcome c R ver ops v mgr cfg force Hset Hone Hperm Hall Hvop) as H.
    destruct (apply_op c (fst (vrun c ver ops)) (v, cfg) v (snd (vrun c ver ops)) mgr force) as [[o mf']|e0];
      destruct (apply_op c (ver, fst (run c ver (map snd ops))) (ver, cfg) ver (snd (run c ver (map snd ops))) mgr force)
        as [[o1 mf1]|e1]; try contradiction H.
    - split; discriminate.
    - subst e1. tauto.
  Qed.

  (* ---------- one update at any label ---------- *)
  Lemma mv_update_ok : forall ops v mgr obj t mf',
    setting_ok c R ver -> one_schema c ver -> order_perm c -> Forall (vop_ok c ver) ops ->
    update_op c (fst (vrun c ver ops)) (v, obj) v (snd (vrun c ver ops)) mgr = UOk (t, mf') ->
    exists t1,
      update_op c (ver, fst (run c ver (map snd ops))) (ver, obj) ver (snd (run c ver (map snd ops))) mgr
        = UOk (t1, relabel ver mf') /\
      snd t = snd t1.
  Proof.
    intros ops v mgr obj t mf' Hset Hone Hperm Hall Hupd.
    pose proof (multi_version_update_outcome c R ver ops v mgr obj Hset Hone Hperm Hall) as H.
    rewrite Hupd in H.
    destruct (update_op c (ver, fst (run c ver (map snd ops))) (ver, obj) ver (snd (run c ver (map snd ops))) mgr)
      as [[t1 mf1]|e1]; [|contradiction H].
    destruct H as [Ho Hmf]. exists t1. rewrite Hmf. auto.
  Qed.

  Lemma mv_update_ok_rev : forall ops v mgr obj t1 mf1,
    setting_ok c R ver -> one_schema c ver -> order_perm c -> Forall (vop_ok c ver) ops ->
    update_op c (ver, fst (run c ver (map snd ops))) (ver, obj) ver (snd (run c ver (map snd ops))) mgr
      = UOk (t1, mf1) ->
    exists t mf',
      update_op c (fst (vrun c ver ops)) (v, obj) v (snd (vrun c ver ops)) mgr = UOk (t, mf') /\
      snd t = snd t1 /\ relabel ver mf' = mf1.
  Proof.
    intros ops v mgr obj t1 mf1 Hset Hone Hperm Hall Hupd.
    pose proof (multi_version_update_outcome c R ver ops v mgr obj Hset Hone Hperm Hall) as H.
    rewrite Hupd in H.
    destruct (update_op c (fst (vrun c ver ops)) (v, obj) v (snd (vrun c ver ops)) mgr)
      as [[t mf']|e]; [|contradiction H].
    destruct H as [Ho Hmf]. exists t, mf'. auto.
  Qed.

  (* ---------- appending an operation ---------- *)
  Lemma vrun_app : forall ops o, vrun c ver (ops ++ [o]) = vstep c (vrun c ver ops) o.
  Proof. intros ops o. unfold vrun. rewrite fold_left_app. reflexivity. Qed.

  Lemma run_app : forall ops o, run c ver (ops ++ [o]) = hstep c ver (run c ver ops) o.
  Proof. intros ops o. unfold run. rewrite fold_left_app. reflexivity. Qed.
End Bridge.

(* ================= labels ================= *)

(* the final record of a manager keeps the label of the record *)
Lemma final_rec_ver : forall w cmp m r, mr_ver (final_rec w cmp m r) = mr_ver r.
Proof.
  intros w cmp m r. unfold final_rec, cgen, rgen. cbn [fst snd].
  destruct (String.eqb m w); [reflexivity|].
  destruct (ps_empty (cset cmp r)); destruct (ps_empty (removed cmp)); reflexivity.
Qed.

Section Labels.
  Variables (c : config) (s : schema) (tr : typeref).
  Hypothesis Hcid : conv_id c.
  Hypothesis Hsch : forall v, cfg_schema c v = (s, tr).
  Hypothesis Hni : no_ignore c.

  (* [update_core]: every record it returns is the final record of a record it was given;
     the actor's record is returned as it is (dropped if empty) *)
  Lemma update_core_vers : forall n old new version mf w force mf' cmp n',
    sorted_keys mf = true ->
    update_core c n old new version mf w force = UOk (mf', cmp, n') ->
    forall m, mf_get m mf' =
      match mf_get m mf with
      | None => None
      | Some r => if ps_empty (mr_set (final_rec w cmp m r)) then None else Some (final_rec w cmp m r)
      end.
  Proof.
    intros n old new version mf w force mf' cmp n' Hs H m.
    pose proof (update_core_closed c s tr Hcid Hsch Hni n old new version mf w force) as A.
    destruct (compare s tr (snd old) (snd new)) as [cmp0|]; [|rewrite A in H; discriminate H].
    destruct A as (vs' & k & A). rewrite A in H. unfold ufinish in H.
    match type of H with (if ?b then _ else _) = _ => destruct b end; [discriminate H|].
    inversion H; subst mf' cmp n'. clear H.
    rewrite <- (upost_get w cmp0 mf version k m Hs). reflexivity.
  Qed.

  (* the labels after an Apply at label [v]: the applier's record carries [v]; every other
     record keeps the label it had *)
  Lemma apply_vers : forall live cfg v mf mgr force o mf',
    sorted_keys mf = true ->
    (forall mr s', In mr mf -> reconcile_field_set s tr (mr_set (snd mr)) <> Some (Some s')) ->
    apply_op c live (v, cfg) v mf mgr force = UOk (o, mf') ->
    (forall r', mf_get mgr mf' = Some r' -> mr_ver r' = v) /\
    (forall m r', m <> mgr -> mf_get m mf' = Some r' ->
       exists r, mf_get m mf = Some r /\ mr_ver r' = mr_ver r).
  Proof.
    intros live cfg v mf mgr force o mf' Hs Hcur H. unfold apply_op in H.
    rewrite (reconcile_closed c s tr Hcid Hsch live mf 0 Hcur) in H.
    destruct (forallb (rec_current s tr) mf); [|discriminate H].
    destruct (merge (schema_of c (fst live)) (tr_of c (fst live)) (snd live) (snd (v, cfg))) as [[nv|]|];
      try discriminate H.
    destruct (to_fs c (v, cfg)) as [set0|]; [|discriminate H].
    rewrite (no_ignore_filter c v Hni) in H. cbn [filter_set] in H.
    set (mfp := mf_set mgr (mkRec set0 v true) mf) in *.
    destruct (prune c (List.length mf + 0) (fst live, nv) mfp mgr (mf_get mgr mf)) as [[pruned n1]|e];
      [|discriminate H].
    destruct (update_core c n1 live pruned v mfp mgr force) as [[[mf2 cmp2] n2]|e] eqn:Eu; [|discriminate H].
    assert (Hsp : sorted_keys mfp = true) by (apply assoc_set_sorted; exact Hs).
    pose proof (update_core_vers n1 live pruned v mfp mgr force mf2 cmp2 n2 Hsp Eu) as Hget.
    assert (E : mf' = mf2).
    { destruct (negb (cfg_return_input_on_noop c) && veqb (snd live) (snd pruned)); inversion H; reflexivity. }
    subst mf'. split.
    - intros r' Hg. rewrite Hget in Hg. unfold mfp in Hg. rewrite mf_get_set_same in Hg.
      rewrite final_rec_w in Hg. cbn [mr_set] in Hg.
      destruct (ps_empty set0); [discriminate Hg|]. inversion Hg. reflexivity.
    - intros m r' Hm Hg. rewrite Hget in Hg. unfold mfp in Hg.
      rewrite (mf_get_set_other m mgr _ mf Hm) in Hg.
      destruct (mf_get m mf) as [r|]; [|discriminate Hg].
      destruct (ps_empty (mr_set (final_rec mgr cmp2 m r))); [discriminate Hg|].
      inversion Hg. exists r. split; [reflexivity|apply final_rec_ver].
  Qed.

  (* the labels after an Update at label [v] *)
  Lemma update_vers : forall live obj v mf mgr t mf',
    sorted_keys mf = true ->
    (forall mr s', In mr mf -> reconcile_field_set s tr (mr_set (snd mr)) <> Some (Some s')) ->
    update_op c live (v, obj) v mf mgr = UOk (t, mf') ->
    t = (v, obj) /\
    (forall r', mf_get mgr mf' = Some r' -> mr_ver r' = v) /\
    (forall m r', m <> mgr -> mf_get m mf' = Some r' ->
       exists r, mf_get m mf = Some r /\ mr_ver r' = mr_ver r).
  Proof.
    intros live obj v mf mgr t mf' Hs Hcur H. unfold update_op in H.
    rewrite (reconcile_closed c s tr Hcid Hsch live mf 0 Hcur) in H.
    destruct (forallb (rec_current s tr) mf); [|discriminate H].
    destruct (update_core c (List.length mf + 0) live (v, obj) v mf mgr true) as [[[mf1 cmp1] n1]|e] eqn:Eu;
      [|discriminate H].
    rewrite (no_ignore_filter c v Hni) in H. cbn [filter_set] in H.
    pose proof (update_core_vers _ live (v, obj) v mf mgr true mf1 cmp1 n1 Hs Eu) as Hget.
    assert (Hs1 : sorted_keys mf1 = true).
    { pose proof (update_core_closed c s tr Hcid Hsch Hni (List.length mf + 0) live (v, obj) v mf mgr true) as A.
      destruct (compare s tr (snd live) (snd (v, obj))) as [cmp0|]; [|rewrite A in Eu; discriminate Eu].
      destruct A as (vs' & k & A). rewrite A in Eu. unfold ufinish in Eu. cbn [negb andb] in Eu.
      inversion Eu; subst mf1. unfold upost. apply filter_sorted. apply fold_usub_sorted.
      apply fold_usub_sorted. exact Hs. }
    assert (Hoth : forall m r', m <> mgr -> mf_get m mf1 = Some r' ->
              exists r, mf_get m mf = Some r /\ mr_ver r' = mr_ver r).
    { intros m r' Hm Hg. rewrite Hget in Hg. destruct (mf_get m mf) as [r|]; [|discriminate Hg].
      destruct (ps_empty (mr_set (final_rec mgr cmp1 m r))); [discriminate Hg|].
      inversion Hg. exists r. split; [reflexivity|apply final_rec_ver]. }
    match type of H with context [ps_empty ?S] => set (set0 := S) in * end.
    destruct (ps_empty set0); inversion H; subst t mf'; clear H; (split; [reflexivity|split]).
    - intros r' Hg. rewrite (mf_get_del mgr mgr mf1 Hs1), String.eqb_refl in Hg. discriminate Hg.
    - intros m r' Hm Hg. rewrite (mf_get_del m mgr mf1 Hs1) in Hg.
      destruct (String.eqb_spec m mgr) as [E|_]; [contradiction (Hm E)|]. apply (Hoth m r' Hm Hg).
    - intros r' Hg. rewrite mf_get_set_same in Hg. inversion Hg. reflexivity.
    - intros m r' Hm Hg. rewrite (mf_get_set_other m mgr _ mf1 Hm) in Hg. apply (Hoth m r' Hm Hg).
  Qed.
End Labels.
