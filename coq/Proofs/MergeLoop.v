(* The index loop of visitListItems ([merge_loop], Model/Merge.v): exact results when one
   side is empty or both sides are the same sequence, and termination / absence of errors /
   an invariant of the output in general. *)
From Coq Require Import List ZArith String Bool Arith Lia.
From SMD Require Import Model.Value Model.Order Model.PathElem Model.PathSet Model.Schema
  Model.Walk Model.Merge Proofs.OrderLaws Proofs.KeyLaws Proofs.PesLaws Proofs.MergeBase.
Import ListNotations.
Open Scope bool_scope.

Section Loop.
  Variable mi : pe -> option value -> option value -> bool * option value.
  Variables oL oR : pem value.

  (* only left items: every one goes through the "take the left item" branch *)
  Lemma loop_left_id : (forall e, pem_get e oR = None) ->
    forall lhs fuel ns so merged out err,
    (forall e c, In (e, c) lhs -> mi e (Some c) None = (false, Some c)) ->
    List.length lhs < fuel ->
    merge_loop mi oL oR fuel lhs [] ns so merged out err = Some (rev out ++ map snd lhs, err).
  Proof.
    intros HoR lhs. induction lhs as [|[lpe lc] lrest IH]; intros fuel ns so merged out err Hmi Hf;
      (destruct fuel as [|fuel]; [simpl in Hf; lia|]); rewrite merge_loop_S.
    - simpl. rewrite app_nil_r. reflexivity.
    - unfold loop_body, loop_second. rewrite HoR.
      rewrite (Hmi lpe lc (or_introl eq_refl)).
      rewrite IH; [|intros e c Hin; apply Hmi; right; exact Hin|simpl in Hf; lia].
      simpl. rewrite <- app_assoc, orb_false_r. reflexivity.
  Qed.

  (* only right items: every one goes through the third block *)
  Lemma loop_right_id : forall prs fuel ns so merged out err,
    (forall e c, In (e, c) prs -> mi e (pem_get e oL) (pem_get e oR) = (false, Some c)) ->
    List.length prs < fuel ->
    merge_loop mi oL oR fuel [] (map fst prs) ns so merged out err = Some (rev out ++ map snd prs, err).
  Proof.
    intros prs. induction prs as [|[rpe rc] rrest IH]; intros fuel ns so merged out err Hmi Hf;
      (destruct fuel as [|fuel]; [simpl in Hf; lia|]); rewrite merge_loop_S.
    - simpl. rewrite app_nil_r. reflexivity.
    - simpl map. unfold loop_body, loop_second, loop_third.
      rewrite (Hmi rpe rc (or_introl eq_refl)).
      destruct (match ns with
                | Some n => if peeqb n rpe then pop_shared so else (ns, so)
                | None => (ns, so)
                end) as [ns' so'].
      rewrite IH; [|intros e c Hin; apply Hmi; right; exact Hin|simpl in Hf; lia].
      simpl. rewrite <- app_assoc, orb_false_r. reflexivity.
  Qed.

  (* the same sequence on both sides: the heads are equal at every iteration *)
  Lemma loop_self_id : forall prs fuel ns so merged out err,
    (forall e c, In (e, c) prs ->
       wf_pe e = true /\ mi e (pem_get e oL) (pem_get e oR) = (false, Some c)) ->
    List.length prs < fuel ->
    merge_loop mi oL oR fuel prs (map fst prs) ns so merged out err = Some (rev out ++ map snd prs, err).
  Proof.
    intros prs. induction prs as [|[lpe lc] rest IH]; intros fuel ns so merged out err Hmi Hf;
      (destruct fuel as [|fuel]; [simpl in Hf; lia|]); rewrite merge_loop_S.
    - simpl. rewrite app_nil_r. reflexivity.
    - simpl map. unfold loop_body.
      destruct (Hmi lpe lc (or_introl eq_refl)) as [Hw Hm].
      rewrite (peeqb_refl lpe Hw), Hm.
      destruct (pop_shared so) as [ns' so'].
      rewrite IH; [|intros e c Hin; apply Hmi; right; exact Hin|simpl in Hf; lia].
      simpl. rewrite <- app_assoc, orb_false_r. reflexivity.
  Qed.

  (* ---------------------------------------------------------------- *)
  (* the general case *)
  Variable P : value -> Prop.
  Variables (L0 : list (pe * value)) (R0 : list pe).
  Hypothesis HwfL : forall e c, In (e, c) L0 -> wf_pe e = true.
  Hypothesis HwfR : forall e, In e R0 -> wf_pe e = true.
  Hypothesis HoR_ok : pem_ok oR.
  Hypothesis HoR_R0 : forall e, In e R0 -> pem_get e oR <> None.
  Hypothesis Hitem1 : forall e c, In (e, c) L0 -> pem_get e oR = None ->
    exists x, mi e (Some c) None = (false, Some x) /\ P x.
  Hypothesis Hitem2 : forall e, wf_pe e = true -> pem_get e oR <> None ->
    exists x, mi e (pem_get e oL) (pem_get e oR) = (false, Some x) /\ P x.

  Definition cntL (lhs : list (pe * value)) : nat :=
    List.length (filter (fun ec => match pem_get (fst ec) oR with None => true | Some _ => false end) lhs).

  Lemma cntL_none : (forall e, pem_get e oR = None) -> forall lhs, cntL lhs = List.length lhs.
  Proof.
    intros H lhs. unfold cntL. induction lhs as [|[e c] lhs IH]; simpl; [reflexivity|].
    rewrite H. simpl. rewrite IH. reflexivity.
  Qed.

  Definition loop_inv (lhs : list (pe * value)) (rhs : list pe) (merged : pem unit) : Prop :=
    incl lhs L0 /\ incl rhs R0 /\ pem_ok merged /\
    forall e, wf_pe e = true -> pem_get e oR <> None ->
      existsb (peeqb e) rhs = true \/ pem_get e merged = Some tt.

  Lemma loop_general : forall fuel lhs rhs ns so merged out,
    loop_inv lhs rhs merged -> List.length lhs + List.length rhs < fuel -> Forall P out ->
    exists res, merge_loop mi oL oR fuel lhs rhs ns so merged out false = Some (res, false) /\
      Forall P res /\ List.length out + List.length rhs + cntL lhs <= List.length res.
  Proof.
    induction fuel as [|fuel IH]; intros lhs rhs ns so merged out Hinv Hf Hout; [lia|].
    destruct Hinv as (HinL & HinR & Hmok & Hcov).
    rewrite merge_loop_S.
    (* the third block, consuming a right element *)
    assert (Hthird : forall lhs' rpe rrest, rhs = rpe :: rrest -> incl lhs' L0 ->
              List.length lhs' <= List.length lhs -> cntL lhs <= cntL lhs' ->
              exists res, loop_third mi oL oR (merge_loop mi oL oR fuel) lhs' rhs ns so merged out false
                          = Some (res, false) /\
                Forall P res /\ List.length out + List.length rhs + cntL lhs <= List.length res).
    { intros lhs' rpe rrest Hrhs HinL' Hlen Hcnt. subst rhs. unfold loop_third.
      assert (Hwr : wf_pe rpe = true) by (apply HwfR, HinR; left; reflexivity).
      destruct (Hitem2 rpe Hwr (HoR_R0 rpe (HinR rpe (or_introl eq_refl)))) as [x [Hx HPx]].
      rewrite Hx.
      destruct (match ns with
                | Some n => if peeqb n rpe then pop_shared so else (ns, so)
                | None => (ns, so)
                end) as [ns' so'].
      destruct (pem_ins_ok _ rpe tt merged Hmok Hwr) as [Hmok' Hget'].
      destruct (IH lhs' rrest ns' so' (pem_insert rpe tt merged) (x :: out)) as [res [H1 [H2 H3]]].
      - split; [exact HinL'|]. split; [intros e He; apply HinR; right; exact He|].
        split; [exact Hmok'|]. intros e He Hne. rewrite (Hget' e He).
        destruct (Hcov e He Hne) as [Hc|Hc].
        + simpl in Hc. destruct (peeqb e rpe); [right; reflexivity|]. left. exact Hc.
        + right. destruct (peeqb e rpe); [reflexivity|exact Hc].
      - simpl in Hf. simpl. lia.
      - constructor; assumption.
      - exists res. split; [exact H1|]. split; [exact H2|]. simpl in *. lia. }
    destruct lhs as [|[lpe lc] lrest].
    - (* no left item *)
      destruct rhs as [|rpe rrest].
      + exists (rev out). simpl. split; [reflexivity|]. split.
        * apply Forall_rev. exact Hout.
        * rewrite rev_length. unfold cntL. simpl. lia.
      + change (loop_body mi oL oR (merge_loop mi oL oR fuel) [] (rpe :: rrest) ns so merged out false)
          with (loop_third mi oL oR (merge_loop mi oL oR fuel) [] (rpe :: rrest) ns so merged out false).
        apply (Hthird [] rpe rrest); auto.
    - assert (Hwl : wf_pe lpe = true) by (apply (HwfL lpe lc), HinL; left; reflexivity).
      assert (HinL' : incl lrest L0) by (intros x Hx; apply HinL; right; exact Hx).
      (* the second block *)
      assert (Hsecond : (match rhs with
                         | [] => True
                         | rpe :: _ => peeqb lpe rpe = false
                         end) ->
                exists res, loop_second mi oL oR (merge_loop mi oL oR fuel) ((lpe, lc) :: lrest) rhs ns so merged out false
                            = Some (res, false) /\
                  Forall P res /\
                  List.length out + List.length rhs + cntL ((lpe, lc) :: lrest) <= List.length res).
      { intros Hneq. unfold loop_second.
        destruct (pem_get lpe oR) as [r|] eqn:EoR.
        - assert (Hcnt : cntL ((lpe, lc) :: lrest) = cntL lrest).
          { unfold cntL. simpl. rewrite EoR. reflexivity. }
          destruct rhs as [|rpe rrest].
          + (* right side exhausted: the left item has been merged already *)
            destruct (Hcov lpe Hwl) as [Hc|Hc]; [rewrite EoR; discriminate|simpl in Hc; discriminate|].
            rewrite Hc. unfold loop_third.
            destruct (IH lrest [] ns so merged out) as [res [H1 [H2 H3]]].
            * split; [exact HinL'|]. split; [exact HinR|]. split; [exact Hmok|exact Hcov].
            * simpl in *. lia.
            * exact Hout.
            * exists res. split; [exact H1|]. split; [exact H2|]. rewrite Hcnt. exact H3.
          + destruct (pem_get lpe merged).
            * apply (Hthird lrest rpe rrest); auto; [simpl; lia|rewrite Hcnt; lia].
            * apply (Hthird ((lpe, lc) :: lrest) rpe rrest); auto.
        - destruct (Hitem1 lpe lc (HinL _ (or_introl eq_refl)) EoR) as [x [Hx HPx]].
          rewrite Hx.
          destruct (IH lrest rhs ns so merged (x :: out)) as [res [H1 [H2 H3]]].
          + split; [exact HinL'|]. split; [exact HinR|]. split; [exact Hmok|exact Hcov].
          + simpl in *. lia.
          + constructor; assumption.
          + exists res. split; [exact H1|]. split; [exact H2|].
            unfold cntL in *. simpl. rewrite EoR. simpl in *. lia. }
      destruct rhs as [|rpe rrest].
      + change (loop_body mi oL oR (merge_loop mi oL oR fuel) ((lpe, lc) :: lrest) [] ns so merged out false)
          with (loop_second mi oL oR (merge_loop mi oL oR fuel) ((lpe, lc) :: lrest) [] ns so merged out false).
        apply Hsecond. exact I.
      + unfold loop_body.
        assert (Hwr : wf_pe rpe = true) by (apply HwfR, HinR; left; reflexivity).
        destruct (peeqb lpe rpe) eqn:Eeq.
        * (* equal heads *)
          assert (HlR : pem_get lpe oR <> None).
          { rewrite (pem_get_cong _ lpe rpe oR HoR_ok Hwl Hwr Eeq).
            apply HoR_R0, HinR. left. reflexivity. }
          destruct (Hitem2 lpe Hwl HlR) as [x [Hx HPx]]. rewrite Hx.
          destruct (pop_shared so) as [ns' so'].
          destruct (pem_ins_ok _ lpe tt merged Hmok Hwl) as [Hmok' Hget'].
          destruct (IH lrest rrest ns' so' (pem_insert lpe tt merged) (x :: out)) as [res [H1 [H2 H3]]].
          -- split; [exact HinL'|]. split; [intros e He; apply HinR; right; exact He|].
             split; [exact Hmok'|]. intros e He Hne. rewrite (Hget' e He).
             destruct (Hcov e He Hne) as [Hc|Hc].
             ++ simpl in Hc. destruct (peeqb e rpe) eqn:Eer.
                ** right. rewrite (peeqb_cong_r e lpe rpe He Hwl Hwr Eeq), Eer. reflexivity.
                ** left. exact Hc.
             ++ right. destruct (peeqb e lpe); [reflexivity|exact Hc].
          -- simpl in *. lia.
          -- constructor; assumption.
          -- exists res. split; [exact H1|]. split; [exact H2|].
             assert (Hcnt : cntL ((lpe, lc) :: lrest) = cntL lrest).
             { unfold cntL. simpl. destruct (pem_get lpe oR); [reflexivity|congruence]. }
             rewrite Hcnt. simpl in *. lia.
        * destruct (pem_get lpe oR) as [r|] eqn:EoR.
          -- destruct (opt_pe_eqb_neg ns lpe).
             ++ (* skip the left item for now *)
                destruct (IH lrest (rpe :: rrest) ns so merged out) as [res [H1 [H2 H3]]].
                ** split; [exact HinL'|]. split; [exact HinR|]. split; [exact Hmok|exact Hcov].
                ** simpl in *. lia.
                ** exact Hout.
                ** exists res. split; [exact H1|]. split; [exact H2|].
                   assert (Hcnt : cntL ((lpe, lc) :: lrest) = cntL lrest).
                   { unfold cntL. simpl. rewrite EoR. reflexivity. }
                   rewrite Hcnt. exact H3.
             ++ apply Hsecond. reflexivity.
          -- apply Hsecond. reflexivity.
  Qed.
End Loop.
