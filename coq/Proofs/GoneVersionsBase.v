(* Helper file of Proofs/GoneVersions.v.

   1. Counter independence: when the converter's answers do not depend on the call index,
      every stage of an operation that threads the call counter (add-back, dangling items,
      prune, update_core) returns the same result whatever counter it is started with; only
      the counter it returns differs.  [er] forgets the returned counter.
   2. Versions of the records: update_core, mf_set, mf_del never introduce a record whose
      version satisfies a predicate that no input record satisfies (used with "is gone"). *)
From Coq Require Import List ZArith String Bool Arith Lia.
From SMD Require Import Model.Value Model.Order Model.PathElem Model.PathSet Model.Schema Model.Walk
  Model.Validate Model.FieldSet Model.Remove Model.Merge Model.Compare Model.Matcher Model.Reconcile
  Model.Updater
  Spec.PathsAsSets Proofs.OrderLaws Proofs.PathSetLaws Proofs.UpdaterLaws Proofs.UpdaterLaws2.
Import ListNotations.
Open Scope bool_scope.
Open Scope list_scope.

(* forget the returned call counter *)
Definition er {A : Type} (r : ures (A * nat)) : ures A :=
  match r with UOk (a, _) => UOk a | UErr e => UErr e end.

Ltac split_er H :=
  match type of H with
  | er ?x = er ?y =>
      destruct x as [[? ?]|?]; destruct y as [[? ?]|?]; cbn [er] in H;
      try discriminate H; inversion H; subst; clear H
  end.

Ltac break_matches :=
  repeat match goal with
         | |- context [match ?x with _ => _ end] => destruct x
         end.

(* the step of add_back_round *)
Definition gv_abr_step (c : config) (mav : list (string * pset))
  (acc : ures (tv * tv * bool * nat)) (v : string) : ures (tv * tv * bool * nat) :=
  match acc with
  | UErr e => UErr e
  | UOk (m, p, ch, n) =>
      match assoc_get v mav with
      | Some s =>
          match add_back_for_version c n m p v s with
          | UErr e => UErr e
          | UOk (m', p', added, n') => UOk (m', p', ch || added, n')
          end
      | None => acc
      end
  end.

Lemma gv_add_back_round_unfold : forall c mav versions n merged pruned,
  add_back_round c mav versions n merged pruned =
  fold_left (gv_abr_step c mav) versions (UOk (merged, pruned, false, n)).
Proof. reflexivity. Qed.

Lemma gv_fold_abr_err : forall c mav l e, fold_left (gv_abr_step c mav) l (UErr e) = UErr e.
Proof. intros c mav l e. induction l as [|a l IH]; [reflexivity|exact IH]. Qed.

(* the upd_state without its counter *)
Definition forget (st : upd_state) :=
  (us_managers st, us_versions st, us_conflicts st, us_removed st).
Definition erst (r : ures upd_state) :=
  match r with UOk st => UOk (forget st) | UErr e => UErr e end.

Section Counter.
  Variable c : config.
  Hypothesis Hif : forall n n' from to v, cfg_convert c n from to v = cfg_convert c n' from to v.

  Lemma add_back_for_version_er : forall n n' merged pruned version s,
    er (add_back_for_version c n merged pruned version s) =
    er (add_back_for_version c n' merged pruned version s).
  Proof.
    intros n n' merged pruned version s. unfold add_back_for_version, convert.
    cbv beta iota zeta.
    rewrite (Hif n n').
    destruct (cfg_convert c n' (fst merged) version (snd merged)) as [mv| |]; try reflexivity.
    rewrite (Hif (S n) (S n')).
    destruct (cfg_convert c (S n') (fst pruned) version (snd pruned)) as [pv| |]; try reflexivity.
    break_matches; reflexivity.
  Qed.

  Lemma fold_abr_er : forall mav versions m p ch n n',
    er (fold_left (gv_abr_step c mav) versions (UOk (m, p, ch, n))) =
    er (fold_left (gv_abr_step c mav) versions (UOk (m, p, ch, n'))).
  Proof.
    intros mav versions. induction versions as [|v vs IH]; intros m p ch n n'; [reflexivity|].
    cbn [fold_left]. unfold gv_abr_step at 2 4.
    destruct (assoc_get v mav) as [s|]; [|apply IH].
    pose proof (add_back_for_version_er n n' m p v s) as H.
    destruct (add_back_for_version c n m p v s) as [[[[m1 p1] a1] k1]|e1];
      destruct (add_back_for_version c n' m p v s) as [[[[m2 p2] a2] k2]|e2];
      cbn [er] in H; try discriminate H.
    - inversion H; subst. apply IH.
    - inversion H; subst. rewrite !gv_fold_abr_err. reflexivity.
  Qed.

  Lemma add_back_round_er : forall mav versions n n' merged pruned,
    er (add_back_round c mav versions n merged pruned) =
    er (add_back_round c mav versions n' merged pruned).
  Proof. intros. rewrite !gv_add_back_round_unfold. apply fold_abr_er. Qed.

  Lemma add_back_rounds_er : forall fuel mav versions n n' merged pruned prev,
    er (add_back_rounds fuel c mav versions n merged pruned prev) =
    er (add_back_rounds fuel c mav versions n' merged pruned prev).
  Proof.
    intros fuel mav versions. induction fuel as [|fuel IH]; intros n n' merged pruned prev;
      [reflexivity|].
    cbn [add_back_rounds].
    pose proof (add_back_round_er mav versions n n' merged pruned) as H.
    destruct (add_back_round c mav versions n merged pruned) as [[[[m1 p1] a1] k1]|e1];
      destruct (add_back_round c mav versions n' merged pruned) as [[[[m2 p2] a2] k2]|e2];
      cbn [er] in H; try discriminate H; inversion H; subst; [|reflexivity].
    destruct (a2 && Nat.leb 2 (List.length versions)); [|reflexivity].
    match goal with |- context [if ?b then _ else _] => destruct b end; [reflexivity|].
    apply IH.
  Qed.

  Lemma add_back_owned_er : forall n n' merged pruned pv mf,
    er (add_back_owned c n merged pruned pv mf) = er (add_back_owned c n' merged pruned pv mf).
  Proof. intros. unfold add_back_owned. apply add_back_rounds_er. Qed.

  Lemma add_back_dangling_er : forall n n' merged pruned last,
    er (add_back_dangling c n merged pruned last) = er (add_back_dangling c n' merged pruned last).
  Proof.
    intros n n' merged pruned last. unfold add_back_dangling, convert. cbv beta iota zeta.
    rewrite (Hif n n'). break_matches; reflexivity.
  Qed.

  Lemma prune_er : forall n n' merged mf applying last,
    er (prune c n merged mf applying last) = er (prune c n' merged mf applying last).
  Proof.
    intros n n' merged mf applying last. unfold prune.
    destruct last as [last|]; [|reflexivity].
    destruct (ps_empty (mr_set last)); [reflexivity|].
    unfold convert. cbv beta iota zeta. rewrite (Hif n n').
    destruct (cfg_convert c n' (fst merged) (mr_ver last) (snd merged)) as [mv| |]; try reflexivity.
    pose proof (add_back_owned_er (S n) (S n') (mr_ver last, mv)
                  (remove_tv c (mr_ver last, mv) (en c (mr_ver last) (mr_set last)))
                  (mr_ver last) mf) as H.
    split_er H; [|reflexivity].
    match goal with
    | |- er (match add_back_dangling c ?k ?a ?b ?l with _ => _ end) =
         er (match add_back_dangling c ?k' _ _ _ with _ => _ end) =>
        pose proof (add_back_dangling_er k k' a b l) as H
    end.
    split_er H; [|reflexivity].
    match goal with
    | |- er (match cfg_convert c ?k ?a ?b ?d with _ => _ end) =
         er (match cfg_convert c ?k' _ _ _ with _ => _ end) => rewrite (Hif k k')
    end.
    break_matches; reflexivity.
  Qed.

  Lemma ustep_erst : forall old new w a b mr,
    erst a = erst b -> erst (ustep c old new w a mr) = erst (ustep c old new w b mr).
  Proof.
    intros old new w a b mr H.
    destruct a as [sa|ea]; destruct b as [sb|eb]; cbn [erst] in H; try discriminate H;
      [|exact H].
    destruct sa as [m1 v1 c1 r1 k1]; destruct sb as [m2 v2 c2 r2 k2].
    unfold forget in H. cbn [us_managers us_versions us_conflicts us_removed] in H.
    inversion H; subst; clear H.
    unfold ustep, convert, with_cmp. cbv beta iota zeta.
    cbn [us_managers us_versions us_conflicts us_removed us_n].
    destruct (String.eqb (fst mr) w); [reflexivity|].
    destruct (assoc_get (mr_ver (snd mr)) v2) as [cmp|]; [reflexivity|].
    rewrite (Hif k1 k2).
    destruct (cfg_convert c k2 (fst old) (mr_ver (snd mr)) (snd old)) as [vo| |]; try reflexivity.
    rewrite (Hif (S k1) (S k2)).
    break_matches; reflexivity.
  Qed.

  Lemma fold_ustep_erst : forall old new w l a b,
    erst a = erst b ->
    erst (fold_left (ustep c old new w) l a) = erst (fold_left (ustep c old new w) l b).
  Proof.
    intros old new w l. induction l as [|mr l IH]; intros a b H; [exact H|].
    cbn [fold_left]. apply IH. apply ustep_erst. exact H.
  Qed.

  Lemma update_core_er : forall n n' old new ver mf w force,
    er (update_core c n old new ver mf w force) = er (update_core c n' old new ver mf w force).
  Proof.
    intros n n' old new ver mf w force. rewrite !update_core_unfold.
    destruct (compare_tv c old new) as [cmp0|]; [|reflexivity].
    destruct (ignore_filter_for c ver) as [f0|]; [|reflexivity].
    unfold ufold.
    pose proof (fold_ustep_erst old new w mf
                  (UOk (mkUpd mf [(ver, filter_cmp f0 cmp0)] [] [] n))
                  (UOk (mkUpd mf [(ver, filter_cmp f0 cmp0)] [] [] n')) eq_refl) as H.
    destruct (fold_left (ustep c old new w) mf (UOk (mkUpd mf [(ver, filter_cmp f0 cmp0)] [] [] n)))
      as [sa|ea];
      destruct (fold_left (ustep c old new w) mf (UOk (mkUpd mf [(ver, filter_cmp f0 cmp0)] [] [] n')))
      as [sb|eb]; cbn [erst] in H; try discriminate H; [|inversion H; reflexivity].
    destruct sa as [m1 v1 c1 r1 k1]; destruct sb as [m2 v2 c2 r2 k2].
    unfold forget in H. cbn [us_managers us_versions us_conflicts us_removed] in H.
    inversion H; subst; clear H.
    unfold ufinish, upost. cbn [us_managers us_versions us_conflicts us_removed us_n].
    break_matches; reflexivity.
  Qed.
End Counter.

(* ================= versions of the records ================= *)

Section Versions.
  Variable P : mrec -> Prop.
  Hypothesis P_ver : forall r r', mr_ver r = mr_ver r' -> P r -> P r'.

  Definition allrec (mf : managed) : Prop := Forall (fun mr : string * mrec => P (snd mr)) mf.

  Lemma allrec_set : forall m r mf, allrec mf -> P r -> allrec (mf_set m r mf).
  Proof.
    intros m r mf H Hr. unfold mf_set. induction mf as [|[k v] t IH]; cbn [assoc_set].
    - constructor; [exact Hr|constructor].
    - inversion H as [|x y Hx Ht]; subst.
      destruct (String.compare m k).
      + constructor; [exact Hr|exact Ht].
      + constructor; [exact Hr|exact H].
      + constructor; [exact Hx|apply IH; exact Ht].
  Qed.

  Lemma allrec_del : forall m mf, allrec mf -> allrec (mf_del m mf).
  Proof.
    intros m mf H. unfold mf_del. induction mf as [|[k v] t IH]; cbn [assoc_remove]; [constructor|].
    inversion H as [|x y Hx Ht]; subst.
    destruct (String.eqb m k); [exact Ht|]. constructor; [exact Hx|apply IH; exact Ht].
  Qed.

  Lemma allrec_get : forall m r mf, allrec mf -> mf_get m mf = Some r -> P r.
  Proof.
    intros m r mf H Hg. unfold mf_get in Hg. apply assoc_get_in in Hg.
    unfold allrec in H. rewrite Forall_forall in H. exact (H (m, r) Hg).
  Qed.

  Lemma allrec_usub : forall mf ms, allrec mf -> allrec (usub mf ms).
  Proof.
    intros mf ms H. unfold usub. destruct (mf_get (fst ms) mf) as [r|] eqn:E; [|exact H].
    apply allrec_set; [exact H|]. apply (P_ver r); [reflexivity|]. eapply allrec_get; eassumption.
  Qed.

  Lemma allrec_fold_usub : forall L mf, allrec mf -> allrec (fold_left usub L mf).
  Proof.
    induction L as [|ms L IH]; intros mf H; [exact H|]. cbn [fold_left]. apply IH.
    apply allrec_usub. exact H.
  Qed.

  Lemma allrec_filter : forall f mf, allrec mf -> allrec (filter f mf).
  Proof.
    intros f mf H. unfold allrec in *. rewrite Forall_forall in *. intros x Hin.
    apply filter_In in Hin. apply H. apply Hin.
  Qed.

  Lemma ustep_allrec : forall c old new w st mr st',
    allrec (us_managers st) -> ustep c old new w (UOk st) mr = UOk st' -> allrec (us_managers st').
  Proof.
    intros c old new w st mr st' H E. unfold ustep, convert, with_cmp in E.
    cbv beta iota zeta in E.
    destruct (String.eqb (fst mr) w); [inversion E; subst; exact H|].
    destruct (assoc_get (mr_ver (snd mr)) (us_versions st)) as [cmp|];
      [inversion E; subst; exact H|].
    destruct (cfg_convert c (us_n st) (fst old) (mr_ver (snd mr)) (snd old)) as [vo| |];
      [|inversion E; subst; cbn [us_managers]; apply allrec_del; exact H|discriminate E].
    destruct (cfg_convert c (S (us_n st)) (fst new) (mr_ver (snd mr)) (snd new)) as [vn| |];
      [|inversion E; subst; cbn [us_managers]; apply allrec_del; exact H|discriminate E].
    destruct (compare_tv c (mr_ver (snd mr), vo) (mr_ver (snd mr), vn)) as [cmp1|];
      [|discriminate E].
    destruct (ignore_filter_for c (mr_ver (snd mr))) as [f1|]; [|discriminate E].
    cbn [us_managers us_versions us_conflicts us_removed us_n] in E.
    inversion E; subst; exact H.
  Qed.

  Lemma fold_ustep_allrec : forall c old new w l st st',
    allrec (us_managers st) -> fold_left (ustep c old new w) l (UOk st) = UOk st' ->
    allrec (us_managers st').
  Proof.
    intros c old new w l. induction l as [|mr l IH]; intros st st' H E.
    - inversion E; subst; exact H.
    - cbn [fold_left] in E. destruct (ustep c old new w (UOk st) mr) as [st1|e] eqn:E1.
      + eapply IH; [|exact E]. eapply ustep_allrec; eassumption.
      + rewrite fold_ustep_err in E. discriminate E.
  Qed.

  Lemma update_core_allrec : forall c n old new ver mf w force mf' cmp n',
    allrec mf -> update_core c n old new ver mf w force = UOk (mf', cmp, n') -> allrec mf'.
  Proof.
    intros c n old new ver mf w force mf' cmp n' H E. rewrite update_core_unfold in E.
    destruct (compare_tv c old new) as [cmp0|]; [|discriminate E].
    destruct (ignore_filter_for c ver) as [f0|]; [|discriminate E].
    destruct (ufold c n old new ver mf w (filter_cmp f0 cmp0)) as [st|e] eqn:Ef; [|discriminate E].
    unfold ufinish in E.
    match type of E with (if ?b then _ else _) = _ => destruct b end; [discriminate E|].
    inversion E; subst; clear E. unfold upost. apply allrec_filter.
    apply allrec_fold_usub. apply allrec_fold_usub.
    unfold ufold in Ef. eapply fold_ustep_allrec; [|exact Ef]. cbn [us_managers]. exact H.
  Qed.
End Versions.

