(* Iteration order of the trie, Equals, Leaves, WithPrefix. *)
From Coq Require Import List ZArith String Bool Arith Lia Permutation.
From SMD Require Import Base.Search Model.Value Model.Order Model.PathElem Model.PathSet
  Spec.PathsAsSets Proofs.OrderLaws Proofs.SearchLaws Proofs.KeyLaws Proofs.PesLaws
  Proofs.TrieBase Proofs.TrieOps.
Import ListNotations.
Open Scope bool_scope.

Notation cnode := (pe * pset)%type (only parsing).

Definition single (e : pe) : path := [e].
Definition celems (c : list cnode) : list path :=
  flat_map (fun ec => map (fun p => fst ec :: p) (ps_elems (snd ec))) c.

Lemma ps_elems_eq : forall m c, ps_elems (PSet m c) = map (fun e => [e]) m ++ celems c.
Proof. reflexivity. Qed.

Lemma celems_cons : forall x t,
  celems (x :: t) = map (fun p => fst x :: p) (ps_elems (snd x)) ++ celems t.
Proof. reflexivity. Qed.

Lemma elems_nonnil : forall s p, In p (ps_elems s) -> p <> [].
Proof.
  intros [m c] p Hin. rewrite ps_elems_eq in Hin. apply in_app_or in Hin. destruct Hin as [Hin|Hin].
  - apply in_map_iff in Hin. destruct Hin as (e & He & _). subst p. discriminate.
  - apply in_flat_map in Hin. destruct Hin as (ec & _ & Hin).
    apply in_map_iff in Hin. destruct Hin as (q & Hq & _). subst p. discriminate.
Qed.

(* ---------- generic existsb facts ---------- *)
Lemma existsb_flat_map : forall (A B : Type) (f : B -> bool) (g : A -> list B) l,
  existsb f (flat_map g l) = existsb (fun x => existsb f (g x)) l.
Proof.
  intros A B f g l. induction l as [|a t IH]; simpl; auto. rewrite existsb_app, IH. reflexivity.
Qed.

Lemma existsb_andb_const : forall (A : Type) (b : bool) (f : A -> bool) l,
  existsb (fun x => b && f x) l = b && existsb f l.
Proof.
  intros A b f l. induction l as [|a t IH]; simpl; [rewrite andb_false_r; reflexivity|].
  rewrite IH. destruct b; reflexivity.
Qed.

Lemma existsb_const : forall (A : Type) (b : bool) (f : A -> bool) l,
  (forall x, In x l -> f x = b) -> l <> [] -> existsb f l = b.
Proof.
  intros A b f l. induction l as [|a t IH]; intros H Hne; [contradiction|].
  simpl. rewrite (H a) by (simpl; auto). destruct t as [|a2 t'].
  - simpl. apply orb_false_r.
  - rewrite IH; [destruct b; reflexivity| |discriminate]. intros x Hx. apply H. simpl; auto.
Qed.

(* existsb over a sorted keyed list selecting by key is a lookup *)
Lemma existsb_klook : forall (g : cnode -> bool) e c, wf_pe e = true -> kwf fst c -> ksorted fst c ->
  existsb (fun ec => peeqb e (fst ec) && g ec) c =
    match klook fst e c with Some x => g x | None => false end.
Proof.
  intros g e c He Hwf. induction Hwf as [|x t Hx Ht IH]; intros Hs; [reflexivity|].
  destruct Hs as [Hxt Hst]. cbn [existsb]. rewrite klook_cons.
  destruct (peeqb e (fst x)) eqn:Heq.
  - cbn [andb]. rewrite (existsb_ext_in _ _ (fun _ => false)).
    + rewrite existsb_false. apply orb_false_r.
    + intros y Hy. unfold klt in Hxt. rewrite Forall_forall in Hxt.
      unfold kwf in Ht. rewrite Forall_forall in Ht.
      rewrite (peeqb_cong_l (fst y) e (fst x)) by auto.
      rewrite (plt_neq (fst x) (fst y)) by auto. reflexivity.
  - cbn [andb orb]. apply IH; auto.
Qed.

(* ---------- membership in the element list ---------- *)
Lemma pmem_app : forall p l1 l2, pmem p (l1 ++ l2) = pmem p l1 || pmem p l2.
Proof. intros p l1 l2. unfold pmem. apply existsb_app. Qed.

Lemma pmem_one_singles : forall e m, pmem [e] (map (fun e => [e]) m) = pes_mem e m.
Proof.
  intros e m. unfold pmem, pes_mem. rewrite existsb_map. apply existsb_ext_in.
  intros x _. simpl. apply andb_true_r.
Qed.

Lemma pmem_more_singles : forall e p0 p' m, pmem (e :: p0 :: p') (map (fun e => [e]) m) = false.
Proof.
  intros e p0 p' m. unfold pmem. rewrite existsb_map.
  rewrite (existsb_ext_in _ _ (fun _ => false)); [apply existsb_false|].
  intros x _. simpl. apply andb_false_r.
Qed.

Lemma pmem_celems : forall e p c,
  pmem (e :: p) (celems c) =
    existsb (fun ec => peeqb e (fst ec) && pmem p (ps_elems (snd ec))) c.
Proof.
  intros e p c. unfold pmem, celems. rewrite existsb_flat_map. apply existsb_ext_in.
  intros ec _. rewrite existsb_map. cbn [patheqb]. apply existsb_andb_const.
Qed.

Lemma pmem_nil_elems : forall s, pmem [] (ps_elems s) = false.
Proof.
  intros s. unfold pmem. destruct (existsb (patheqb []) (ps_elems s)) eqn:E; auto.
  apply existsb_exists in E. destruct E as (q & Hq & Heq).
  destruct q; [|discriminate]. exfalso. apply (elems_nonnil s [] Hq). reflexivity.
Qed.

Lemma pmem_one_celems : forall e c, pmem [e] (celems c) = false.
Proof.
  intros e c. rewrite pmem_celems. rewrite (existsb_ext_in _ _ (fun _ => false)); [apply existsb_false|].
  intros ec _. rewrite pmem_nil_elems. apply andb_false_r.
Qed.

Lemma ps_has_elems : forall s p, ps_ok s = true -> wf_path p = true ->
  ps_has p s = pmem p (ps_elems s).
Proof.
  intros s. induction s as [m c IH] using pset_ind'. intros p Hok Hp.
  pose proof Hok as Hok'. apply ps_ok_PSet in Hok'. destruct Hok' as (H1 & H2 & H3 & H4).
  destruct p as [|e [|p0 p']].
  - rewrite pmem_nil_elems. reflexivity.
  - apply wf_path_cons in Hp. destruct Hp as [He _].
    rewrite ps_has_one by auto. rewrite ps_elems_eq, pmem_app, pmem_one_singles, pmem_one_celems.
    rewrite orb_false_r. reflexivity.
  - apply wf_path_cons in Hp. destruct Hp as [He Hp].
    rewrite ps_has_more by auto. rewrite ps_elems_eq, pmem_app, pmem_more_singles, pmem_celems.
    cbn [orb]. rewrite existsb_klook; auto; [|apply cok_kwf; auto].
    destruct (klook fst e c) as [x|] eqn:L; [|reflexivity].
    destruct (klook_cok e c x H4 L) as (Hx & (X1 & X2 & X3) & _).
    rewrite Forall_forall in IH. cbn [chas]. apply (IH x Hx); auto.
Qed.

Lemma ps_elems_wf : forall s, ps_ok s = true -> forallb wf_path (ps_elems s) = true.
Proof.
  intros s. induction s as [m c IH] using pset_ind'. intros Hok.
  apply ps_ok_PSet in Hok. destruct Hok as (H1 & H2 & H3 & H4).
  rewrite ps_elems_eq, forallb_app. apply andb_true_iff. split.
  - rewrite forallb_forall. intros p Hp. apply in_map_iff in Hp. destruct Hp as (e & He & Hin).
    subst p. unfold wf_pes in H2. rewrite forallb_forall in H2.
    unfold wf_path. simpl. rewrite (H2 e Hin). reflexivity.
  - rewrite forallb_forall. intros p Hp. unfold celems in Hp. apply in_flat_map in Hp.
    destruct Hp as (ec & Hec & Hp). apply in_map_iff in Hp. destruct Hp as (q & Hq & Hin).
    subst p. rewrite Forall_forall in IH, H4. destruct (H4 ec Hec) as (X1 & X2 & X3).
    apply wf_path_cons. split; auto.
    specialize (IH ec Hec X2). rewrite forallb_forall in IH. auto.
Qed.

(* ---------- no duplicates ---------- *)
Lemma pnodup_app : forall l1 l2, pnodup l1 = true -> pnodup l2 = true ->
  (forall p, In p l1 -> pmem p l2 = false) -> pnodup (l1 ++ l2) = true.
Proof.
  intros l1 l2. induction l1 as [|p t IH]; intros H1 H2 Hc; [exact H2|].
  cbn [pnodup app] in *. apply andb_true_iff in H1. destruct H1 as [Hp Ht].
  apply andb_true_iff. split.
  - rewrite pmem_app. rewrite (Hc p) by (simpl; auto). rewrite orb_false_r. exact Hp.
  - apply IH; auto. intros q Hq. apply Hc. simpl; auto.
Qed.

Lemma pnodup_singles : forall m, ksorted idk m -> kwf idk m -> pnodup (map (fun e => [e]) m) = true.
Proof.
  intros m Hs Hwf. induction Hwf as [|x t Hx Ht IH]; [reflexivity|].
  destruct Hs as [Hxt Hst]. cbn [map pnodup]. rewrite pmem_one_singles.
  rewrite (pes_mem_above x x t); auto. left. apply pecmp_refl.
Qed.

Lemma pmem_cons_map : forall e p k l, pmem (e :: p) (map (fun q => k :: q) l) = peeqb e k && pmem p l.
Proof.
  intros e p k l. unfold pmem. rewrite existsb_map. cbn [patheqb]. apply existsb_andb_const.
Qed.

Lemma pnodup_map_cons : forall k l, wf_pe k = true -> pnodup l = true ->
  pnodup (map (fun q => k :: q) l) = true.
Proof.
  intros k l Hk. induction l as [|p t IH]; intros H; [reflexivity|].
  cbn [map pnodup] in *. apply andb_true_iff in H. destruct H as [Hp Ht].
  rewrite pmem_cons_map, peeqb_refl by auto. cbn [andb]. rewrite Hp. cbn [andb]. auto.
Qed.

Lemma pmem_celems_above : forall k q t, wf_pe k = true -> kwf fst t -> klt fst k t ->
  pmem (k :: q) (celems t) = false.
Proof.
  intros k q t Hk Hwf Hlt. rewrite pmem_celems.
  rewrite (existsb_ext_in _ _ (fun _ => false)); [apply existsb_false|].
  intros y Hy. unfold klt in Hlt. unfold kwf in Hwf. rewrite Forall_forall in Hlt, Hwf.
  rewrite (plt_neq k (fst y)) by auto. reflexivity.
Qed.

Lemma ps_elems_nodup : forall s, ps_ok s = true -> pnodup (ps_elems s) = true.
Proof.
  intros s. induction s as [m c IH] using pset_ind'. intros Hok.
  apply ps_ok_PSet in Hok. destruct Hok as (H1 & H2 & H3 & H4).
  rewrite ps_elems_eq. apply pnodup_app.
  - apply pnodup_singles; [apply sorted_pes_iff|apply wf_pes_iff]; auto.
  - clear H1 H2. induction IH as [|x t IHx IHt IHl]; [reflexivity|].
    destruct H3 as [Hxt Hst]. inversion H4 as [|? ? Hcx Hct]; subst.
    destruct Hcx as (X1 & X2 & X3).
    rewrite celems_cons. apply pnodup_app; auto.
    + apply pnodup_map_cons; auto.
    + intros p Hp. apply in_map_iff in Hp. destruct Hp as (q & Hq & _). subst p.
      apply pmem_celems_above; auto. apply cok_kwf; auto.
  - intros p Hp. apply in_map_iff in Hp. destruct Hp as (e & He & _). subst p.
    apply pmem_one_celems.
Qed.

(* ---------- iteration order ---------- *)
Lemma iter_sorted_cons2 : forall p q t,
  iter_sorted (p :: q :: t) = match itercmp p q with Lt => iter_sorted (q :: t) | _ => false end.
Proof. reflexivity. Qed.

Lemma iter_sorted_app : forall l1 l2, iter_sorted l1 = true -> iter_sorted l2 = true ->
  (forall p q, In p l1 -> In q l2 -> itercmp p q = Lt) -> iter_sorted (l1 ++ l2) = true.
Proof.
  intros l1 l2. induction l1 as [|p t IH]; intros H1 H2 Hc; [exact H2|].
  destruct t as [|p2 t'].
  - cbn [app]. destruct l2 as [|q l2']; [reflexivity|].
    rewrite iter_sorted_cons2. rewrite (Hc p q) by (simpl; auto). exact H2.
  - rewrite iter_sorted_cons2 in H1.
    change ((p :: p2 :: t') ++ l2) with (p :: p2 :: (t' ++ l2)). rewrite iter_sorted_cons2.
    destruct (itercmp p p2); try discriminate.
    apply IH; auto. intros a b Ha Hb. apply Hc; simpl; auto.
Qed.

Lemma iter_sorted_singles : forall m, ksorted idk m -> iter_sorted (map (fun e => [e]) m) = true.
Proof.
  intros m. induction m as [|x t IH]; intros Hs; [reflexivity|].
  destruct Hs as [Hxt Hst]. destruct t as [|y t']; [reflexivity|].
  cbn [map]. rewrite iter_sorted_cons2. inversion Hxt; subst. unfold idk in *.
  cbn [itercmp]. match goal with H : pecmp x y = Lt |- _ => rewrite H end.
  apply IH. exact Hst.
Qed.

Lemma itercmp_cons_long : forall k1 k2 p0 p' q0 q',
  itercmp (k1 :: p0 :: p') (k2 :: q0 :: q') =
    match pecmp k1 k2 with Eq => itercmp (p0 :: p') (q0 :: q') | c => c end.
Proof. reflexivity. Qed.

Lemma iter_sorted_map_cons : forall k l, iter_sorted l = true -> (forall p, In p l -> p <> []) ->
  iter_sorted (map (fun q => k :: q) l) = true.
Proof.
  intros k l. induction l as [|p t IH]; intros Hs Hne; [reflexivity|].
  destruct t as [|q t']; [reflexivity|].
  rewrite iter_sorted_cons2 in Hs. cbn [map]. rewrite iter_sorted_cons2.
  destruct p as [|p0 p']; [exfalso; apply (Hne []); simpl; auto|].
  destruct q as [|q0 q']; [exfalso; apply (Hne []); simpl; auto|].
  rewrite itercmp_cons_long, pecmp_refl.
  destruct (itercmp (p0 :: p') (q0 :: q')); try discriminate.
  apply IH; auto. intros a Ha. apply Hne. simpl; auto.
Qed.

Lemma ps_elems_sorted : forall s, ps_ok s = true -> iter_sorted (ps_elems s) = true.
Proof.
  intros s. induction s as [m c IH] using pset_ind'. intros Hok.
  apply ps_ok_PSet in Hok. destruct Hok as (H1 & H2 & H3 & H4).
  rewrite ps_elems_eq. apply iter_sorted_app.
  - apply iter_sorted_singles. apply sorted_pes_iff; auto.
  - clear H1 H2. induction IH as [|x t IHx IHt IHl]; [reflexivity|].
    destruct H3 as [Hxt Hst]. inversion H4 as [|? ? Hcx Hct]; subst.
    destruct Hcx as (X1 & X2 & X3).
    rewrite celems_cons. apply iter_sorted_app; auto.
    + apply iter_sorted_map_cons; auto. intros p Hp. apply (elems_nonnil (snd x)); auto.
    + intros p q Hp Hq. apply in_map_iff in Hp. destruct Hp as (p1 & Hp1 & Hin1). subst p.
      unfold celems in Hq. apply in_flat_map in Hq. destruct Hq as (y & Hy & Hq).
      apply in_map_iff in Hq. destruct Hq as (q1 & Hq1 & Hin2). subst q.
      apply elems_nonnil in Hin1, Hin2.
      destruct p1 as [|p0 p']; [contradiction|]. destruct q1 as [|q0 q']; [contradiction|].
      rewrite itercmp_cons_long. unfold klt in Hxt. rewrite Forall_forall in Hxt.
      rewrite (Hxt y Hy). reflexivity.
  - intros p q Hp Hq. apply in_map_iff in Hp. destruct Hp as (e & He & _). subst p.
    unfold celems in Hq. apply in_flat_map in Hq. destruct Hq as (y & Hy & Hq).
    apply in_map_iff in Hq. destruct Hq as (q1 & Hq1 & Hin2). subst q.
    apply elems_nonnil in Hin2. destruct q1 as [|q0 q']; [contradiction|]. reflexivity.
Qed.

(* ---------- Equals ---------- *)
Fixpoint cequals (c1 c2 : list cnode) {struct c1} : bool :=
  match c1, c2 with
  | [], [] => true
  | (e1, s1) :: t1, (e2, s2) :: t2 => peeqb e1 e2 && ps_equals s1 s2 && cequals t1 t2
  | _, _ => false
  end.

Lemma ps_equals_eq : forall m1 c1 m2 c2,
  ps_equals (PSet m1 c1) (PSet m2 c2) = pes_equals m1 m2 && cequals c1 c2.
Proof. reflexivity. Qed.

Lemma cequals_cons : forall x t1 y t2,
  cequals (x :: t1) (y :: t2) = peeqb (fst x) (fst y) && ps_equals (snd x) (snd y) && cequals t1 t2.
Proof. intros [e1 s1] t1 [e2 s2] t2. reflexivity. Qed.

Lemma pes_equals_singles : forall m1 m2, pes_equals m1 m2 = true ->
  Forall2 (fun p q => patheqb p q = true) (map (fun e => [e]) m1) (map (fun e => [e]) m2).
Proof.
  intros m1. induction m1 as [|x t IH]; intros [|y t2] H; try discriminate; [constructor|].
  cbn [pes_equals] in H. apply andb_true_iff in H. destruct H as [Hxy Ht].
  cbn [map]. constructor; auto. simpl. rewrite Hxy. reflexivity.
Qed.

Lemma Forall2_map_cons : forall k1 k2 l1 l2, peeqb k1 k2 = true ->
  Forall2 (fun p q => patheqb p q = true) l1 l2 ->
  Forall2 (fun p q => patheqb p q = true) (map (fun p => k1 :: p) l1) (map (fun p => k2 :: p) l2).
Proof.
  intros k1 k2 l1 l2 Hk H. induction H as [|p q t1 t2 Hpq Ht IH]; cbn [map]; constructor; auto.
  cbn [patheqb]. rewrite Hk, Hpq. reflexivity.
Qed.

Lemma ps_equals_elems_gen : forall a b, ps_equals a b = true ->
  Forall2 (fun p q => patheqb p q = true) (ps_elems a) (ps_elems b).
Proof.
  intros a. induction a as [m1 c1 IH] using pset_ind'. intros [m2 c2] H.
  rewrite ps_equals_eq in H. apply andb_true_iff in H. destruct H as [Hm Hc].
  rewrite !ps_elems_eq. apply Forall2_app; [apply pes_equals_singles; auto|].
  revert c2 Hc. induction IH as [|x t1 IHx IHt IHl]; intros [|y t2] Hc; try discriminate.
  - constructor.
  - destruct x; discriminate.
  - rewrite cequals_cons in Hc. apply andb_true_iff in Hc. destruct Hc as [Hc Ht].
    apply andb_true_iff in Hc. destruct Hc as [Hk Hs].
    rewrite !celems_cons. apply Forall2_app; auto. apply Forall2_map_cons; auto.
Qed.

Lemma ps_equals_elems : forall a b, ps_ok a = true -> ps_ok b = true -> ps_equals a b = true ->
  Forall2 (fun p q => patheqb p q = true) (ps_elems a) (ps_elems b).
Proof. intros a b _ _ H. apply ps_equals_elems_gen; auto. Qed.

Lemma cequals_look : forall e c1 c2, wf_pe e = true -> kwf fst c1 -> kwf fst c2 ->
  cequals c1 c2 = true ->
  (klook fst e c1 = None /\ klook fst e c2 = None) \/
  (exists x y, klook fst e c1 = Some x /\ klook fst e c2 = Some y /\ ps_equals (snd x) (snd y) = true).
Proof.
  intros e c1 c2 He Hw1. revert c2. induction Hw1 as [|x t1 Hx Ht1 IH]; intros [|y t2] Hw2 Hc;
    try discriminate.
  - left. split; reflexivity.
  - destruct x; discriminate.
  - inversion Hw2 as [|? ? Hy Ht2]; subst.
    rewrite cequals_cons in Hc. apply andb_true_iff in Hc. destruct Hc as [Hc Ht].
    apply andb_true_iff in Hc. destruct Hc as [Hk Hs].
    rewrite !klook_cons. rewrite <- (peeqb_cong_r e (fst x) (fst y)) by auto.
    destruct (peeqb e (fst x)).
    + right. exists x, y. auto.
    + apply IH; auto.
Qed.

Definition eq_ext (a b : pset) : Prop := forall p, wf_path p = true -> ps_has p a = ps_has p b.

Lemma cequals_ext : forall c1,
  Forall (fun ec => forall b, ps_ok (snd ec) = true -> ps_ok b = true ->
            eq_ext (snd ec) b -> ps_equals (snd ec) b = true) c1 ->
  forall c2, ksorted fst c1 -> ksorted fst c2 -> Forall cok c1 -> Forall cok c2 ->
  (forall e p, wf_pe e = true -> wf_path p = true -> p <> [] ->
     chas p (klook fst e c1) = chas p (klook fst e c2)) ->
  cequals c1 c2 = true.
Proof.
  intros c1 IH. induction IH as [|x t1 IHx IHt IHl]; intros c2 Hs1 Hs2 Hc1 Hc2 Hext.
  - destruct c2 as [|y t2]; [reflexivity|]. exfalso.
    inversion Hc2 as [|? ? (Y1 & Y2 & Y3) _]; subst.
    destruct (ps_nonempty_witness (snd y) Y2 Y3) as (p & Hp & Hh).
    assert (Hne : p <> []) by (intros ->; discriminate).
    specialize (Hext (fst y) p Y1 Hp Hne). rewrite klook_cons, peeqb_refl in Hext by auto.
    cbn [klook find chas] in Hext. rewrite Hh in Hext. discriminate.
  - inversion Hc1 as [|? ? (X1 & X2 & X3) Hct1]; subst.
    destruct (ps_nonempty_witness (snd x) X2 X3) as (px & Hpx & Hhx).
    assert (Hnex : px <> []) by (intros ->; discriminate).
    destruct Hs1 as [Hxt Hst1].
    destruct c2 as [|y t2].
    + exfalso. specialize (Hext (fst x) px X1 Hpx Hnex).
      rewrite klook_cons, peeqb_refl in Hext by auto.
      cbn [klook find chas] in Hext. rewrite Hhx in Hext. discriminate.
    + inversion Hc2 as [|? ? (Y1 & Y2 & Y3) Hct2]; subst.
      destruct (ps_nonempty_witness (snd y) Y2 Y3) as (py & Hpy & Hhy).
      assert (Hney : py <> []) by (intros ->; discriminate).
      destruct Hs2 as [Hyt Hst2].
      pose proof (cok_kwf t1 Hct1) as Hw1. pose proof (cok_kwf t2 Hct2) as Hw2.
      destruct (pecmp (fst x) (fst y)) eqn:Hcmp.
      * assert (Hk : peeqb (fst x) (fst y) = true) by (apply pecmp_eq_iff; auto).
        rewrite cequals_cons, Hk. cbn [andb]. apply andb_true_iff. split.
        -- apply IHx; auto. intros p Hp. destruct p as [|p0 p']; [reflexivity|].
           specialize (Hext (fst x) (p0 :: p') X1 Hp ltac:(discriminate)).
           rewrite !klook_cons, Hk, peeqb_refl in Hext by auto. exact Hext.
        -- apply IHl; auto. intros e p He Hp Hne.
           specialize (Hext e p He Hp Hne). rewrite !klook_cons in Hext.
           rewrite <- (peeqb_cong_r e (fst x) (fst y)) in Hext by auto.
           destruct (peeqb e (fst x)) eqn:Hex; [|exact Hext].
           rewrite (klook_above_eq fst e (fst x) t1); auto.
           rewrite (klook_above_eq fst e (fst y) t2); auto.
           rewrite <- (peeqb_cong_r e (fst x) (fst y)); auto.
      * exfalso. specialize (Hext (fst x) px X1 Hpx Hnex).
        rewrite klook_cons, peeqb_refl in Hext by auto.
        rewrite (klook_above fst (fst x) (y :: t2)) in Hext; auto.
        -- cbn [chas] in Hext. rewrite Hhx in Hext. discriminate.
        -- constructor; auto.
        -- constructor; auto. apply (klt_trans fst _ (fst y)); auto.
      * exfalso. apply pecmp_gt_lt in Hcmp. specialize (Hext (fst y) py Y1 Hpy Hney).
        rewrite (klook_cons fst (fst y) y), peeqb_refl in Hext by auto.
        rewrite (klook_above fst (fst y) (x :: t1)) in Hext; auto.
        -- cbn [chas] in Hext. rewrite Hhy in Hext. discriminate.
        -- constructor; auto.
        -- constructor; auto. apply (klt_trans fst _ (fst x)); auto.
Qed.

Lemma ps_equals_ext : forall a b, ps_ok a = true -> ps_ok b = true ->
  (ps_equals a b = true <-> forall p, wf_path p = true -> ps_has p a = ps_has p b).
Proof.
  intros a. induction a as [m1 c1 IH] using pset_ind'. intros [m2 c2] Hoka Hokb.
  pose proof Hoka as Ha. pose proof Hokb as Hb. apply ps_ok_PSet in Ha, Hb.
  destruct Ha as (A1 & A2 & A3 & A4). destruct Hb as (B1 & B2 & B3 & B4).
  rewrite ps_equals_eq, andb_true_iff. split.
  - intros [Hm Hc] p Hp. destruct p as [|e [|p0 p']]; [reflexivity| |].
    + apply wf_path_cons in Hp. destruct Hp as [He _]. rewrite !ps_has_one by auto.
      apply (proj1 (pes_equals_ext m1 m2 A1 B1 A2 B2)); auto.
    + apply wf_path_cons in Hp. destruct Hp as [He Hp]. rewrite !ps_has_more by auto.
      destruct (cequals_look e c1 c2 He (cok_kwf c1 A4) (cok_kwf c2 B4) Hc)
        as [[L1 L2]|(x & y & L1 & L2 & Hs)]; rewrite L1, L2; [reflexivity|].
      destruct (klook_cok e c1 x A4 L1) as (Hx & (X1 & X2 & X3) & _).
      destruct (klook_cok e c2 y B4 L2) as (Hy & (Y1 & Y2 & Y3) & _).
      rewrite Forall_forall in IH. cbn [chas].
      apply (proj1 (IH x Hx (snd y) X2 Y2)); auto.
  - intros Hext. split.
    + apply (proj2 (pes_equals_ext m1 m2 A1 B1 A2 B2)). intros x Hx.
      assert (Hp : wf_path [x] = true) by (apply wf_path_cons; auto).
      specialize (Hext [x] Hp). rewrite !ps_has_one in Hext by auto. exact Hext.
    + apply cequals_ext; auto.
      * eapply Forall_impl; [|exact IH]. intros ec Hec b Ho1 Ho2 He.
        apply (proj2 (Hec b Ho1 Ho2)). exact He.
      * intros e p He Hp Hne. destruct p as [|p0 p']; [contradiction|].
        assert (Hp' : wf_path (e :: p0 :: p') = true) by (apply wf_path_cons; auto).
        specialize (Hext _ Hp'). rewrite !ps_has_more in Hext by auto. exact Hext.
Qed.

Lemma pmem_perm : forall p l l', Permutation l l' -> pmem p l = pmem p l'.
Proof.
  intros p l l' H. unfold pmem. induction H as [|x l l' H IH|x y l|l l' l'' H1 IH1 H2 IH2]; simpl.
  - reflexivity.
  - rewrite IH. reflexivity.
  - destruct (patheqb p x), (patheqb p y); reflexivity.
  - congruence.
Qed.

Lemma ps_of_paths_perm : forall l l', forallb wf_path l = true -> Permutation l l' ->
  ps_equals (ps_of_paths l) (ps_of_paths l') = true.
Proof.
  intros l l' Hl Hperm.
  assert (Hl' : forallb wf_path l' = true).
  { rewrite forallb_forall in *. intros x Hx. apply Hl.
    apply (Permutation_in x (Permutation_sym Hperm)). exact Hx. }
  apply ps_equals_ext; try (apply ps_of_paths_ok; auto).
  intros p Hp. destruct p as [|p0 p']; [reflexivity|].
  rewrite !ps_has_of_paths by (auto; discriminate). apply pmem_perm. exact Hperm.
Qed.

(* ---------- WithPrefix ---------- *)
Lemma ps_with_prefix_spec : forall e a, ps_ok a = true -> wf_pe e = true ->
  ps_ok (ps_with_prefix e a) = true /\
  forall p, wf_path p = true -> p <> [] -> ps_has p (ps_with_prefix e a) = ps_has (e :: p) a.
Proof.
  intros e [m c] Hok He. pose proof Hok as Hok'. apply ps_ok_PSet in Hok'.
  destruct Hok' as (H1 & H2 & H3 & H4).
  unfold ps_with_prefix. cbn [ps_children]. rewrite snm_get_look by auto.
  destruct (klook fst e c) as [x|] eqn:L; cbn [option_map].
  - destruct (klook_cok e c x H4 L) as (Hx & (X1 & X2 & X3) & _).
    split; [exact X2|]. intros p Hp Hne. destruct p as [|p0 p']; [contradiction|].
    rewrite ps_has_more by auto. rewrite L. reflexivity.
  - split; [reflexivity|]. intros p Hp Hne. destruct p as [|p0 p']; [contradiction|].
    rewrite ps_has_more by auto. rewrite L. apply ps_empty_has. reflexivity.
Qed.

(* ---------- Leaves ---------- *)
Lemma leaves_members_cons : forall x ms e s cs,
  leaves_members (x :: ms) ((e, s) :: cs) =
    match pecmp x e with
    | Eq => leaves_members ms cs
    | Lt => x :: leaves_members ms ((e, s) :: cs)
    | Gt => leaves_members (x :: ms) cs
    end.
Proof. reflexivity. Qed.

Lemma pes_diff_cons : forall x xs y ys,
  pes_diff (x :: xs) (y :: ys) =
    if peless x y then x :: pes_diff xs (y :: ys)
    else if negb (peless y x) then pes_diff xs ys
    else pes_diff (x :: xs) ys.
Proof. reflexivity. Qed.

Lemma leaves_members_diff : forall m c, leaves_members m c = pes_diff m (map fst c).
Proof.
  intros m. induction m as [|x ms IHm]; intros c.
  - destruct c; reflexivity.
  - induction c as [|[e s] cs IHc]; [reflexivity|].
    cbn [map fst]. rewrite leaves_members_cons, pes_diff_cons.
    unfold peless. rewrite (pecmp_antisym e x).
    destruct (pecmp x e); cbn [CompOpp negb].
    + apply IHm.
    + rewrite IHm. reflexivity.
    + exact IHc.
Qed.

Lemma ps_leaves_eq : forall m c,
  ps_leaves (PSet m c) = PSet (leaves_members m c) (map (fun ec => (fst ec, ps_leaves (snd ec))) c).
Proof. reflexivity. Qed.

Lemma ksorted_map_fst : forall (c : list cnode), ksorted fst c -> ksorted idk (map fst c).
Proof.
  intros c. induction c as [|x t IH]; intros Hs; [exact I|].
  destruct Hs as [Hxt Hst]. cbn [map ksorted]. split; auto.
  unfold klt in *. rewrite Forall_map. exact Hxt.
Qed.

Lemma kwf_map_fst : forall (c : list cnode), kwf fst c -> kwf idk (map fst c).
Proof. intros c H. unfold kwf in *. rewrite Forall_map. exact H. Qed.

Lemma ksorted_map_snd : forall (g : pset -> pset) (c : list cnode), ksorted fst c ->
  ksorted fst (map (fun ec => (fst ec, g (snd ec))) c).
Proof.
  intros g c. induction c as [|x t IH]; intros Hs; [exact I|].
  destruct Hs as [Hxt Hst]. cbn [map ksorted]. split; auto.
  unfold klt in *. rewrite Forall_map. exact Hxt.
Qed.

Lemma klook_map_snd : forall (g : pset -> pset) e (c : list cnode),
  klook fst e (map (fun ec => (fst ec, g (snd ec))) c) =
    option_map (fun ec => (fst ec, g (snd ec))) (klook fst e c).
Proof.
  intros g e c. induction c as [|x t IH]; [reflexivity|].
  cbn [map]. rewrite !klook_cons. cbn [fst]. destruct (peeqb e (fst x)); auto.
Qed.

Lemma leaves_nonempty : forall s, ps_ok s = true -> ps_empty s = false -> ps_empty (ps_leaves s) = false.
Proof.
  intros s. induction s as [m c IH] using pset_ind'. intros Hok Hne.
  apply ps_ok_PSet in Hok. destruct Hok as (H1 & H2 & H3 & H4).
  rewrite ps_leaves_eq. destruct c as [|x t].
  - destruct m as [|m0 m']; [discriminate|]. reflexivity.
  - cbn [ps_empty]. destruct (leaves_members m (x :: t)); [|reflexivity].
    inversion IH as [|? ? IHx _]; subst. inversion H4 as [|? ? (X1 & X2 & X3) _]; subst.
    cbn [map forallb snd]. rewrite (IHx X2 X3). reflexivity.
Qed.

Lemma Nat_eqb_SS : forall a b, Nat.eqb (S a) (S b) = Nat.eqb a b.
Proof. reflexivity. Qed.

Lemma proper_prefix_cons : forall e p k q,
  proper_prefix (e :: p) (k :: q) = peeqb e k && proper_prefix p q.
Proof.
  intros e p k q. unfold proper_prefix. cbn [is_prefix List.length]. rewrite Nat_eqb_SS.
  rewrite andb_assoc. reflexivity.
Qed.

Lemma pp_singles : forall p m, p <> [] -> existsb (proper_prefix p) (map (fun e => [e]) m) = false.
Proof.
  intros p m Hp. rewrite existsb_map. rewrite (existsb_ext_in _ _ (fun _ => false)); [apply existsb_false|].
  intros x _. destruct p as [|e [|p0 p']]; [contradiction| |].
  - unfold proper_prefix. cbn. apply andb_false_r.
  - unfold proper_prefix. cbn [is_prefix]. rewrite andb_false_r. reflexivity.
Qed.

Lemma pp_celems : forall e p c,
  existsb (proper_prefix (e :: p)) (celems c) =
    existsb (fun ec => peeqb e (fst ec) && existsb (proper_prefix p) (ps_elems (snd ec))) c.
Proof.
  intros e p c. unfold celems. rewrite existsb_flat_map. apply existsb_ext_in.
  intros ec _. rewrite existsb_map.
  rewrite (existsb_ext_in _ _ (fun q => peeqb e (fst ec) && proper_prefix p q)).
  - apply existsb_andb_const.
  - intros q _. apply proper_prefix_cons.
Qed.

Lemma pp_nil_nonempty : forall s, ps_empty s = false -> existsb (proper_prefix []) (ps_elems s) = true.
Proof.
  intros s Hne. apply existsb_const.
  - intros q Hq. apply elems_nonnil in Hq. destruct q; [contradiction|]. reflexivity.
  - intros Hnil. apply ps_empty_elems in Hnil. congruence.
Qed.

Lemma ps_leaves_spec : forall a, ps_ok a = true ->
  ps_ok (ps_leaves a) = true /\
  forall p, wf_path p = true ->
    ps_has p (ps_leaves a) = ps_has p a && negb (existsb (fun q => proper_prefix p q) (ps_elems a)).
Proof.
  intros a. induction a as [m c IH] using pset_ind'. intros Hok.
  pose proof Hok as Hok'. apply ps_ok_PSet in Hok'. destruct Hok' as (H1 & H2 & H3 & H4).
  rewrite ps_leaves_eq, leaves_members_diff.
  pose proof (cok_kwf c H4) as Hwc.
  assert (S2 : sorted_pes (map fst c) = true) by (apply sorted_pes_iff, ksorted_map_fst; auto).
  assert (W2 : wf_pes (map fst c) = true) by (apply wf_pes_iff, kwf_map_fst; auto).
  destruct (pes_diff_spec m (map fst c) pe_default H1 S2 H2 W2 wf_pe_default) as (M1 & M2 & _).
  rewrite Forall_forall in IH.
  assert (Hok2 : ps_ok (PSet (pes_diff m (map fst c))
                   (map (fun ec => (fst ec, ps_leaves (snd ec))) c)) = true).
  { apply ps_ok_PSet. repeat split; auto.
    - apply ksorted_map_snd; auto.
    - rewrite Forall_map. rewrite Forall_forall. intros x Hx.
      destruct (proj1 (Forall_forall _ _) H4 x Hx) as (X1 & X2 & X3). destruct (IH x Hx X2) as [U1 _].
      split; [exact X1|]. split; [exact U1|]. cbn [snd]. apply leaves_nonempty; auto. }
  split; [exact Hok2|].
  intros p Hp. destruct p as [|e [|p0 p']]; [reflexivity| |].
  - apply wf_path_cons in Hp. destruct Hp as [He _]. rewrite !ps_has_one by auto.
    destruct (pes_diff_spec m (map fst c) e H1 S2 H2 W2 He) as (_ & _ & M3). rewrite M3.
    f_equal. f_equal. rewrite ps_elems_eq, existsb_app, pp_singles by discriminate.
    cbn [orb]. rewrite pp_celems. unfold pes_mem. rewrite existsb_map.
    apply existsb_ext_in. intros x Hx.
    destruct (proj1 (Forall_forall _ _) H4 x Hx) as (X1 & X2 & X3).
    rewrite (pp_nil_nonempty (snd x) X3). symmetry. apply andb_true_r.
  - apply wf_path_cons in Hp. destruct Hp as [He Hp]. rewrite !ps_has_more by auto.
    rewrite (klook_map_snd ps_leaves).
    rewrite ps_elems_eq, existsb_app, pp_singles by discriminate. cbn [orb].
    rewrite pp_celems. rewrite existsb_klook by auto.
    destruct (klook fst e c) as [x|] eqn:L; [|reflexivity].
    destruct (klook_cok e c x H4 L) as (Hx & (X1 & X2 & X3) & _).
    cbn [option_map chas snd]. destruct (IH x Hx X2) as [_ U2]. apply U2; auto.
Qed.
