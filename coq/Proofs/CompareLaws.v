(* C11: laws of the comparing walker (Model/Compare.v).
   The statements are those of Proofs/CompareLaws_statements.v with the (unsatisfiable)
   hypothesis [wf_schema s] replaced by [schema_ok s R -> R tr] (Proofs/SchemaOk.v), and
   with [family_refs s R] added to compare_total, which is false without it
   (compare_total_literal_refuted). *)
From Coq Require Import List ZArith String Bool Arith Lia.
From SMD Require Import Model.Value Model.Order Model.PathElem Model.PathSet Model.Schema
  Model.Walk Model.Validate Model.Merge Model.Compare Spec.PathsAsSets Spec.RefValid Spec.Examples
  Proofs.OrderLaws Proofs.PathSetLaws Proofs.ValidateLaws Proofs.SchemaOk
  Proofs.CompareBase Proofs.CompareWf Proofs.CompareSelf Proofs.CompareSwap Proofs.CompareTotal.
Import ListNotations.
Open Scope bool_scope.

Lemma Forall_W_forallb : forall l, Forall W l -> forallb wf_path l = true.
Proof. intros l H. apply forallb_forall. rewrite Forall_forall in H. exact H. Qed.

(* the sets returned by compare are well formed *)
Theorem compare_sets_ok : forall s R tr l r c,
  schema_ok s R -> R tr -> wf_value l = true -> wf_value r = true ->
  compare s tr l r = Some c ->
  ps_ok (removed c) = true /\ ps_ok (modified c) = true /\ ps_ok (added c) = true.
Proof.
  intros s R tr l r c Hok HR Hl Hr Hc. unfold compare in Hc.
  pose proof (compare_w_wf s R Hok (merge_fuel l r) tr [] (Some l) (Some r) HR eq_refl Hl Hr) as Hw.
  destruct (compare_w (merge_fuel l r) s tr [] (Some l) (Some r)) as [e acc].
  destruct e; [discriminate|]. inversion Hc; subst c. simpl in *.
  destruct Hw as (H1 & H2 & H3).
  repeat split; apply ps_of_paths_ok; apply Forall_W_forallb; assumption.
Qed.

(* comparison never fails on valid operands (duplicates allowed), provided every list
   type reached from the root is associative or atomic *)
Theorem compare_total : forall s R tr l r,
  schema_ok s R -> family_refs s R -> R tr -> wf_value l = true -> wf_value r = true ->
  conforms s tr true l = true -> conforms s tr true r = true ->
  exists c, compare s tr l r = Some c.
Proof.
  intros s R tr l r Hok Hfam HR Hl Hr Cl Cr. unfold compare.
  pose proof (compare_w_total s R Hok Hfam (merge_fuel l r) tr [] (Some l) (Some r)
                HR Hl Hr Cl Cr eq_refl) as Ht.
  destruct (compare_w (merge_fuel l r) s tr [] (Some l) (Some r)) as [e acc].
  simpl in Ht. rewrite Ht; [eauto|]. unfold merge_fuel. lia.
Qed.

Lemma ps_equals_of_pmem : forall a b, forallb wf_path a = true -> forallb wf_path b = true ->
  (forall q, wf_path q = true -> pmem q a = pmem q b) ->
  ps_equals (ps_of_paths a) (ps_of_paths b) = true.
Proof.
  intros a b Ha Hb H. apply ps_equals_ext; try (apply ps_of_paths_ok; assumption).
  intros q Hq. destruct q as [|x q'].
  - reflexivity.
  - rewrite !ps_has_of_paths by (auto; discriminate). apply H. exact Hq.
Qed.

(* swapping the operands swaps added and removed and keeps modified *)
Theorem compare_swap : forall s R tr l r c,
  schema_ok s R -> R tr -> wf_value l = true -> wf_value r = true ->
  compare s tr l r = Some c ->
  exists c', compare s tr r l = Some c' /\
    ps_equals (removed c') (added c) = true /\
    ps_equals (added c') (removed c) = true /\
    ps_equals (modified c') (modified c) = true.
Proof.
  intros s R tr l r c Hok HR Hl Hr Hc. unfold compare in *.
  assert (Hfuel : merge_fuel r l = merge_fuel l r) by (unfold merge_fuel; lia).
  rewrite Hfuel.
  pose proof (compare_w_swap s R Hok (merge_fuel l r) tr [] [] (Some l) (Some r)
                HR eq_refl eq_refl eq_refl Hl Hr) as [Hsw1 Hsw2].
  pose proof (compare_w_wf s R Hok (merge_fuel l r) tr [] (Some l) (Some r) HR eq_refl Hl Hr) as Hw1.
  pose proof (compare_w_wf s R Hok (merge_fuel l r) tr [] (Some r) (Some l) HR eq_refl Hr Hl) as Hw2.
  destruct (compare_w (merge_fuel l r) s tr [] (Some l) (Some r)) as [e acc].
  destruct (compare_w (merge_fuel l r) s tr [] (Some r) (Some l)) as [e' acc'].
  simpl in *. subst e'. destruct e; [discriminate|]. inversion Hc; subst c. simpl.
  eexists. split; [reflexivity|]. simpl.
  destruct Hw1 as (A1 & A2 & A3). destruct Hw2 as (B1 & B2 & B3).
  repeat split; apply ps_equals_of_pmem; try (apply Forall_W_forallb; assumption);
    intros q Hq; destruct (Hsw2 q Hq) as (C1 & C2 & C3); assumption.
Qed.

(* an object compared with itself: nothing is reported *)
Theorem compare_self : forall s R tr v c,
  schema_ok s R -> R tr -> wf_value v = true -> compare s tr v v = Some c -> c3_is_same c = true.
Proof.
  intros s R tr v c Hok HR Hv Hc. unfold compare in Hc.
  pose proof (compare_w_self s R Hok (merge_fuel v v) tr [] (Some v) HR Hv) as Hs.
  destruct (compare_w (merge_fuel v v) s tr [] (Some v) (Some v)) as [e acc].
  simpl in Hs. subst acc. destruct e; [discriminate|]. inversion Hc; subst c. reflexivity.
Qed.

(* ------------------------------------------------------------------ *)
(* compare_total without [family_refs] is false *)
Definition cx_tr : typeref := TR None (Atom None (Some (ListT ex_str RUnset [])) None) None.
Definition cx_R (tr : typeref) : Prop := tr = cx_tr \/ tr = ex_str.

Lemma cx_schema_ok : schema_ok [] cx_R.
Proof.
  constructor.
  - intros tr a t [H|H] Hres Ha; subst tr; simpl in Hres; inversion Hres; subst a;
      simpl in Ha; inversion Ha; subst t. right. reflexivity.
  - intros tr a m k [H|H] Hres Ha; subst tr; simpl in Hres; inversion Hres; subst a;
      simpl in Ha; discriminate.
  - intros tr a [H|H] Hres; subst tr; simpl in Hres; inversion Hres; subst a; reflexivity.
Qed.

(* the statement of compare_total without family_refs fails: a separable list validates
   but cannot be compared *)
Theorem compare_total_literal_refuted :
  ~ (forall s R tr l r,
       schema_ok s R -> R tr -> wf_value l = true -> wf_value r = true ->
       conforms s tr true l = true -> conforms s tr true r = true ->
       exists c, compare s tr l r = Some c).
Proof.
  intros H.
  destruct (H [] cx_R cx_tr (VList [VStr "a"]) (VList [VStr "b"]) cx_schema_ok
              (or_introl eq_refl) eq_refl eq_refl eq_refl eq_refl) as [c Hc].
  vm_compute in Hc. discriminate Hc.
Qed.

(* ------------------------------------------------------------------ *)
(* satisfiability of the hypotheses: the example schema *)
Definition ex_items_tr : typeref :=
  TR None (Atom None (Some (ListT (ex_named "item") RAssociative ["name"%string])) None) None.
Definition ex_mm_tr : typeref := TR None (Atom None None (Some (MapT [] ex_num RUnset))) None.
Definition ex_tags_tr : typeref :=
  TR None (Atom None (Some (ListT ex_str RAssociative [])) None) None.

Definition ex_R (tr : typeref) : Prop :=
  In tr [ex_rt; ex_named "item"; ex_num; ex_str; ex_items_tr; ex_mm_tr; ex_tags_tr; empty_tr].

Ltac ex_cases H :=
  unfold ex_R in H; simpl in H;
  repeat (destruct H as [H|H]; [symmetry in H; subst|]); [..|destruct H].

Ltac ex_in := unfold ex_R; simpl; auto 12.

Example ex_schema_ok : schema_ok ex_schema ex_R.
Proof.
  constructor.
  - intros tr a t H Hres Ha. ex_cases H; vm_compute in Hres; inversion Hres; subst a;
      simpl in Ha; inversion Ha; subst t; ex_in.
  - intros tr a m k H Hres Ha. ex_cases H; vm_compute in Hres; inversion Hres; subst a;
      simpl in Ha; inversion Ha; subst m; unfold field_type; simpl;
      repeat match goal with
      | |- context [String.eqb k ?c] => destruct (String.eqb k c)
      end; ex_in.
  - intros tr a H Hres. ex_cases H; vm_compute in Hres; inversion Hres; subst a; reflexivity.
Qed.

Example ex_family_refs : family_refs ex_schema ex_R.
Proof.
  intros tr a t H Hres Ha. ex_cases H; vm_compute in Hres; inversion Hres; subst a;
    simpl in Ha; inversion Ha; subst t; simpl; auto.
Qed.

Example ex_R_root : ex_R ex_rt.
Proof. ex_in. Qed.

